import VhostModel.Base
/-!
# Base definitions for the kernel ioctl backends (property C19)

* row types of the generated tables (`Gen/Ioctl.lean`)
* `layoutK`: the `repr(C)` layout algorithm of `Base.layoutOf`, written with structural recursion only
  (so the kernel can evaluate it: `decide` works on concrete tables) and extended with unions
* byte images: `poke`/`peek` (write / read a little-endian field at an offset) and `imageOf` (a zeroed
  buffer with a list of fields written into it), with the lemmas the C19 theorems need

Core Lean only.
-/
namespace Base

/-! ## generated-table row types -/

inductive IoKind where
  | io | ior | iow | iowr
  deriving Repr, DecidableEq, Inhabited

/-- one `ioctl_io*_nr!(NAME, ty, nr[, argty])` item -/
structure IoctlRow where
  name : String
  kind : IoKind
  ty : Nat
  nr : Nat
  arg : Option FieldTy
  deriving Repr, DecidableEq, Inhabited

/-- one backend method that issues an ioctl -/
structure OpRow where
  scope : String
  method : String
  wrapper : String
  request : String
  fd : String
  arg : String
  inits : List (String × String)
  deriving Repr, DecidableEq, Inhabited

/-- one branch of `send_iotlb_msg` -/
structure IotlbBranch where
  cond : String
  struct : String
  typeConst : String
  assigns : List (List String × String)
  writeArgs : List String
  deriving Repr, DecidableEq, Inhabited

/-- one `VhostIotlbMsgParser` impl -/
structure IotlbParser where
  struct : String
  typeConst : String
  zeroCheck : List String
  assigns : List (String × List String × String)
  deriving Repr, DecidableEq, Inhabited

/-! ## layout, structurally recursive, with unions -/

def saWith (look : String → Option SizeAlign) : FieldTy → Option SizeAlign
  | .int b => some ⟨b, b⟩
  | .arr e n => (saWith look e).map fun sa => ⟨sa.size * n, sa.align⟩
  | .struct nm => look nm

/-- struct members in order (same rule as `Base.layoutFields`) -/
def layFields (sa : FieldTy → Option SizeAlign) (packed : Bool) :
    List (String × FieldTy) → Nat → Nat → List (String × Nat × Nat) → Option Layout
  | [], off, al, acc => some ⟨if packed then off else alignUp off al, if packed then 1 else al, acc.reverse⟩
  | (nm, ty) :: rest, off, al, acc =>
    match sa ty with
    | none => none
    | some s =>
      let a := if packed then 1 else s.align
      let o := alignUp off a
      layFields sa packed rest (o + s.size) (max al a) ((nm, o, s.size) :: acc)

/-- union members: all at offset 0; size = largest member rounded up to the alignment -/
def layUnion (sa : FieldTy → Option SizeAlign) :
    List (String × FieldTy) → Nat → Nat → List (String × Nat × Nat) → Option Layout
  | [], sz, al, acc => some ⟨alignUp sz al, al, acc.reverse⟩
  | (nm, ty) :: rest, sz, al, acc =>
    match sa ty with
    | none => none
    | some s => layUnion sa rest (max sz s.size) (max al s.align) ((nm, 0, s.size) :: acc)

/-- `fuel` bounds the nesting depth of struct-typed members (`fuel = 1`: no nested structs) -/
def layoutK (tbl : List StructDef) : Nat → StructDef → Option Layout
  | 0, _ => none
  | fuel + 1, sd =>
    let look : String → Option SizeAlign := fun nm =>
      match tbl.find? (·.name == nm) with
      | none => none
      | some sd' => (layoutK tbl fuel sd').map fun l => ⟨l.size, l.align⟩
    if sd.repr == .union then layUnion (saWith look) sd.fields 0 1 []
    else layFields (saWith look) (sd.repr == .packed) sd.fields 0 1 []

def layoutKByName (tbl : List StructDef) (nm : String) : Option Layout :=
  match tbl.find? (·.name == nm) with
  | none => none
  | some sd => layoutK tbl 5 sd

/-- which struct a member holds -/
def memberStruct (tbl : List StructDef) (s f : String) : Option String :=
  match tbl.find? (·.name == s) with
  | none => none
  | some sd => match sd.fields.find? (·.1 == f) with
    | some (_, .struct n) => some n
    | _ => none

/-- absolute offset and width of a member path -/
def leafAtK (tbl : List StructDef) : String → List String → Option (Nat × Nat)
  | _, [] => none
  | s, [f] => (layoutKByName tbl s).bind fun l => (l.fields.find? (·.1 == f)).map (·.2)
  | s, f :: rest =>
    match (layoutKByName tbl s).bind fun l => (l.fields.find? (·.1 == f)).map (·.2), memberStruct tbl s f with
    | some (off, _), some inner => (leafAtK tbl inner rest).map fun (o, w) => (off + o, w)
    | _, _ => none

/-! ## byte images -/

/-- read `w` bytes at `off` as a little-endian number -/
def peek (bs : Bytes) (off w : Nat) : Nat := leVal ((bs.drop off).take w)

/-- write `v` (low `w` bytes, little-endian) at `off` -/
def poke (bs : Bytes) (off w v : Nat) : Bytes := bs.take off ++ (leBytes w v ++ bs.drop (off + w))

/-- a field to be written: offset, width, value -/
abbrev Leaf := Nat × Nat × Nat

def zeros (n : Nat) : Bytes := List.replicate n 0

/-- zeroed buffer of `size` bytes with the leaves written in order -/
def imageOf (size : Nat) (ls : List Leaf) : Bytes :=
  ls.foldl (fun bs l => poke bs l.1 l.2.1 l.2.2) (zeros size)

theorem leVal_leBytes_mod (n v : Nat) : leVal (leBytes n v) = v % 256 ^ n := by
  induction n generalizing v with
  | zero => simp [leBytes, leVal, Nat.mod_one]
  | succ n ih =>
    simp only [leBytes, leVal, ih]
    have : (UInt8.ofNat (v % 256)).toNat = v % 256 := by simp [UInt8.toNat_ofNat']
    rw [this, Nat.pow_succ, Nat.mul_comm (256 ^ n) 256, Nat.mod_mul]

theorem leVal_zeros (n : Nat) : leVal (zeros n) = 0 := by
  induction n with
  | zero => rfl
  | succ n ih => simp [zeros, List.replicate_succ, leVal] at *; omega

theorem poke_length (bs : Bytes) (off w v : Nat) (h : off + w ≤ bs.length) :
    (poke bs off w v).length = bs.length := by
  simp [poke]; omega

theorem peek_poke_same (bs : Bytes) (off w v : Nat) (h : off + w ≤ bs.length) :
    peek (poke bs off w v) off w = v % 256 ^ w := by
  unfold peek poke
  have h1 : (bs.take off).length = off := by simp; omega
  rw [List.drop_append_of_le_length (by omega)]
  have : List.drop off (List.take off bs) = [] := by
    apply List.drop_eq_nil_of_le; omega
  rw [this, List.nil_append, List.take_append_of_le_length (by simp)]
  rw [List.take_of_length_le (by simp), leVal_leBytes_mod]

theorem peek_poke_disjoint (bs : Bytes) (off w v o' w' : Nat) (h : off + w ≤ bs.length)
    (hd : o' + w' ≤ off ∨ off + w ≤ o') : peek (poke bs off w v) o' w' = peek bs o' w' := by
  unfold peek poke
  have h1 : (bs.take off).length = off := by simp; omega
  rcases hd with hd | hd
  · rw [List.drop_append_of_le_length (by omega)]
    rw [List.take_append_of_le_length (by simp; omega)]
    rw [List.drop_take, List.take_take]
    congr 2
    omega
  · rw [← List.append_assoc]
    have h2 : (bs.take off ++ leBytes w v).length = off + w := by simp [h1]
    rw [List.drop_append, h2, List.drop_eq_nil_of_le (by omega), List.nil_append, List.drop_drop]
    congr 3
    omega

theorem peek_zeros (n off w : Nat) : peek (zeros n) off w = 0 := by
  unfold peek zeros
  rw [List.drop_replicate, List.take_replicate]
  exact leVal_zeros _

/-- pairwise disjoint byte ranges -/
def LeafDisjoint (a b : Leaf) : Prop := a.1 + a.2.1 ≤ b.1 ∨ b.1 + b.2.1 ≤ a.1

instance (a b : Leaf) : Decidable (LeafDisjoint a b) := by unfold LeafDisjoint; exact inferInstance

theorem foldl_poke_length (ls : List Leaf) (bs : Bytes) (hb : ∀ l ∈ ls, l.1 + l.2.1 ≤ bs.length) :
    (ls.foldl (fun bs l => poke bs l.1 l.2.1 l.2.2) bs).length = bs.length := by
  induction ls generalizing bs with
  | nil => rfl
  | cons l ls ih =>
    simp only [List.foldl_cons]
    have hl := poke_length bs l.1 l.2.1 l.2.2 (hb l (by simp))
    rw [ih _ (by intro x hx; rw [hl]; exact hb x (by simp [hx])), hl]

/-- a range disjoint from every leaf keeps its content -/
theorem foldl_poke_untouched (ls : List Leaf) (bs : Bytes) (o w : Nat)
    (hb : ∀ l ∈ ls, l.1 + l.2.1 ≤ bs.length)
    (hd : ∀ l ∈ ls, l.1 + l.2.1 ≤ o ∨ o + w ≤ l.1) :
    peek (ls.foldl (fun bs l => poke bs l.1 l.2.1 l.2.2) bs) o w = peek bs o w := by
  induction ls generalizing bs with
  | nil => rfl
  | cons l ls ih =>
    simp only [List.foldl_cons]
    have hl := poke_length bs l.1 l.2.1 l.2.2 (hb l (by simp))
    rw [ih _ (by intro x hx; rw [hl]; exact hb x (by simp [hx])) (by intro x hx; exact hd x (by simp [hx]))]
    apply peek_poke_disjoint _ _ _ _ _ _ (hb l (by simp))
    rcases hd l (by simp) with h | h
    · right; exact h
    · left; exact h

/-- **every leaf of an image reads back as its value** (modulo its width), provided the leaves lie inside
the buffer and do not overlap -/
theorem peek_imageOf (size : Nat) (ls : List Leaf)
    (hb : ∀ l ∈ ls, l.1 + l.2.1 ≤ size) (hd : ls.Pairwise LeafDisjoint) :
    ∀ l ∈ ls, peek (imageOf size ls) l.1 l.2.1 = l.2.2 % 256 ^ l.2.1 := by
  unfold imageOf
  have hz : (zeros size).length = size := by simp [zeros]
  generalize zeros size = bs at hz
  induction ls generalizing bs with
  | nil => intro l hl; cases hl
  | cons x xs ih =>
    intro l hl
    simp only [List.foldl_cons]
    have hx : x.1 + x.2.1 ≤ bs.length := by rw [hz]; exact hb x (by simp)
    have hlen := poke_length bs x.1 x.2.1 x.2.2 hx
    rw [List.pairwise_cons] at hd
    rcases List.mem_cons.1 hl with rfl | hl'
    · rw [foldl_poke_untouched xs _ l.1 l.2.1 (by intro y hy; rw [hlen, hz]; exact hb y (by simp [hy]))
        (by intro y hy
            rcases hd.1 y hy with h | h
            · right; exact h
            · left; exact h)]
      exact peek_poke_same _ _ _ _ hx
    · exact ih (fun y hy => hb y (by simp [hy])) hd.2 _ (by rw [hlen, hz]) l hl'

theorem imageOf_length (size : Nat) (ls : List Leaf) (hb : ∀ l ∈ ls, l.1 + l.2.1 ≤ size) :
    (imageOf size ls).length = size := by
  unfold imageOf
  rw [foldl_poke_length _ _ (by simpa [zeros] using hb)]
  simp [zeros]

/-- bytes outside every leaf are zero -/
theorem peek_imageOf_untouched (size : Nat) (ls : List Leaf) (o w : Nat)
    (hb : ∀ l ∈ ls, l.1 + l.2.1 ≤ size) (hd : ∀ l ∈ ls, l.1 + l.2.1 ≤ o ∨ o + w ≤ l.1) :
    peek (imageOf size ls) o w = 0 := by
  unfold imageOf
  rw [foldl_poke_untouched _ _ _ _ (by simpa [zeros] using hb) hd, peek_zeros]

end Base

/-! ## line protocol of the `kern` family (shared by model driver, spec driver; no model or spec content) -/
namespace Base.K

inductive Call where
  | io (nr : Nat) (arg : Bytes)
  | wr (bs : Bytes)
  | rd (n : Nat)
  deriving Repr, DecidableEq, Inhabited

inductive Ret where
  | ok
  | okv (v : Nat)
  | okb (bs : Bytes)
  | ok2 (a b : Nat)
  | ok5 (iova size ua perm ty : Nat)
  | lay (size align : Nat) (fields : List (String × Nat))
  | err (cls : String)
  deriving Repr, DecidableEq, Inhabited

structure Obs where
  calls : List Call
  ret : Ret
  acked : Option Nat := none
  deriving Repr, DecidableEq, Inhabited

/-- scenario: `kern be= op= a= buf= mem= feat= wb= rc=` -/
structure Inp where
  be : String
  op : String
  a : List Nat
  buf : Bytes
  mem : List (Nat × Nat × Nat)   -- guest address, size, host address
  feat : Nat
  wb : Bytes
  rc : Nat                        -- 0: the kernel returns 0; otherwise -1
  deriving Repr, Inhabited

def hexB (bs : Bytes) : String := if bs.isEmpty then "-" else hexOfBytes bs

def Call.render : Call → String
  | .io nr arg => s!"io:{hexOfNat nr}:{hexB arg}"
  | .wr bs => s!"wr:{hexB bs}"
  | .rd n => s!"rd:{hexOfNat n}"

def Ret.render : Ret → String
  | .ok => "ok"
  | .okv v => s!"ok:{hexOfNat v}"
  | .okb bs => s!"okb:{hexB bs}"
  | .ok2 a b => s!"ok2:{hexOfNat a}:{hexOfNat b}"
  | .ok5 a b c d e => s!"ok5:{hexOfNat a}:{hexOfNat b}:{hexOfNat c}:{hexOfNat d}:{hexOfNat e}"
  | .lay s a fs => s!"lay:{s}:{a}" ++ String.join (fs.map fun (f, o) => s!":{f}@{o}")
  | .err c => s!"err:{c}"

def Obs.render (o : Obs) : String :=
  let cs := if o.calls.isEmpty then "-" else ",".intercalate (o.calls.map Call.render)
  s!"calls={cs} ret={o.ret.render}" ++ (match o.acked with | some a => s!" acked={hexOfNat a}" | none => "")

def kvOf (toks : List String) (key : String) : Option String :=
  (toks.find? (fun t => t.startsWith (key ++ "="))).map fun t => (t.drop (key.length + 1)).toString

def hexList? (s : String) : Option (List Nat) :=
  if s == "-" then some [] else (s.splitOn ",").mapM natOfHex?

def bytes? (s : String) : Option Bytes := if s == "-" then some [] else bytesOfHex? s

def mem? (s : String) : Option (List (Nat × Nat × Nat)) :=
  if s == "-" then some [] else
  (s.splitOn ",").mapM fun r =>
    match r.splitOn ":" with
    | [g, z, h] => do pure (← natOfHex? g, ← natOfHex? z, ← natOfHex? h)
    | _ => none

def parseInp (toks : List String) : Option Inp := do
  let be ← kvOf toks "be"
  let op ← kvOf toks "op"
  let a ← hexList? (← kvOf toks "a")
  let buf ← bytes? (← kvOf toks "buf")
  let mem ← mem? (← kvOf toks "mem")
  let feat ← natOfHex? (← kvOf toks "feat")
  let wb ← bytes? (← kvOf toks "wb")
  let rc ← natOfHex? (← kvOf toks "rc")
  pure { be, op, a, buf, mem, feat, wb, rc }

def parseCall (s : String) : Option Call :=
  match s.splitOn ":" with
  | ["io", nr, arg] => do pure (.io (← natOfHex? nr) (← bytes? arg))
  | ["wr", bs] => do pure (.wr (← bytes? bs))
  | ["rd", n] => do pure (.rd (← natOfHex? n))
  | _ => none

def parseRet (s : String) : Option Ret :=
  match s.splitOn ":" with
  | ["ok"] => some .ok
  | ["ok", v] => (natOfHex? v).map .okv
  | ["okb", b] => (bytes? b).map .okb
  | ["ok2", a, b] => do pure (.ok2 (← natOfHex? a) (← natOfHex? b))
  | ["ok5", a, b, c, d, e] => do pure (.ok5 (← natOfHex? a) (← natOfHex? b) (← natOfHex? c) (← natOfHex? d) (← natOfHex? e))
  | "lay" :: s :: a :: fs => do
    let fl ← fs.mapM fun f => match f.splitOn "@" with
      | [n, o] => o.toNat?.map fun o => (n, o)
      | _ => none
    pure (.lay (← s.toNat?) (← a.toNat?) fl)
  | ["err", c] => some (.err c)
  | _ => none

def parseObs (toks : List String) : Option Obs := do
  let cs ← kvOf toks "calls"
  let calls ← if cs == "-" then some [] else (cs.splitOn ",").mapM parseCall
  let ret ← parseRet (← kvOf toks "ret")
  let acked ← match kvOf toks "acked" with
    | none => some none
    | some a => (natOfHex? a).map some
  pure { calls, ret, acked }

/-- the stand-in kernel's write-back pattern: `wb` repeated cyclically over `n` bytes -/
def cyc (wb : Bytes) (n : Nat) : Bytes :=
  if wb.isEmpty then zeros n else (List.range n).map fun i => wb.getD (i % wb.length) 0

end Base.K
