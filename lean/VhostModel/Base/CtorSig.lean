/-!
# Constructor signatures: row type of the generated table `Gen/Ctors.lean`

`tools/rs2lean_ctors.py` reads every constructor (`new`, `from_config_data`, `Default::default`) of the wire structs
of `vhost_user/message.rs` and `vhost_user/gpu_message.rs` whose body is `let …;* <struct literal>` and records, per
field of the literal, *what is stored there* (`Init`; local `let`s substituted).  `evalInit` gives the initialisers
their meaning over an environment of parameter values, so that the theorems of `Props/Ctors.lean` can speak about the
value a field receives for every argument.  Core Lean only.
-/
namespace Base.CtorSig

inductive Init where
  | param (p : String)                       -- the parameter itself
  | bits (p : String)                        -- `p.bits()` of a bitflags parameter
  | into (p : String)                        -- `p.into()` (request code → u32)
  | cast (p : String) (ty : String)          -- `p as ty`
  | lit (v : Nat)
  | zeros (n : Nat)                          -- `[0; n]`
  | phantom                                  -- `PhantomData`
  | dflt                                     -- the whole value is `Self::default()`
  | field (p : String) (f : String)          -- `p.f` of a struct parameter
  | fieldOr (p : String) (f : String) (d : Nat)   -- `p.f.unwrap_or(d)` of an `Option` field
  | ctor (ty : String) (fn : String) (args : List String)   -- nested constructor applied to parameters
  | prefixPad (p : String) (n : Nat)         -- `from_fn(|i| *p.get(i).unwrap_or(&0))` into `[_; n]`
  | masked (p : String) (mask : String) (orv : Nat)   -- `(p & MASK.bits()) | orv`
  | other (text : String)                    -- anything else, as normalised source text
  deriving DecidableEq, Repr, Inhabited

structure Ctor where
  ty : String
  fn : String
  lit : String
  params : List (String × String)
  fields : List (String × Init)
  deriving DecidableEq, Repr, Inhabited

/-- the parameters an initialiser reads -/
def Init.reads : Init → List String
  | .param p | .bits p | .into p | .cast p _ | .field p _ | .fieldOr p _ _ | .prefixPad p _ | .masked p _ _ => [p]
  | .ctor _ _ args => args
  | _ => []

/-- the first `n` elements of `xs`, padded with zeros: `from_fn(|i| *xs.get(i).unwrap_or(&0))` -/
def prefixPad (xs : List Nat) (n : Nat) : List Nat := (xs ++ List.replicate n 0).take n

/-- Values of the parameters: a scalar is a one-element list, a slice the list of its elements, a struct parameter is
looked up per field under `"p.f"`, and an `Option` field that is `None` is the empty list. -/
abbrev Env := String → List Nat

/-- the words a field receives (`none`: not given a meaning here — nested constructors, `default`, unknown shapes) -/
def evalInit (env : Env) (mask : String → Nat) : Init → Option (List Nat)
  | .param p | .bits p | .into p | .cast p _ => some (env p)
  | .lit v => some [v]
  | .zeros n => some (List.replicate n 0)
  | .phantom => some []
  | .field p f => some (env (p ++ "." ++ f))
  | .fieldOr p f d => some (match env (p ++ "." ++ f) with | [] => [d] | ws => ws)
  | .prefixPad p n => some (prefixPad (env p) n)
  | .masked p m v => some ((env p).map fun x => (x &&& mask m) ||| v)
  | .ctor .. | .dflt | .other _ => none

def find (cs : List Ctor) (ty fn : String) : Option Ctor := cs.find? fun c => c.ty == ty && c.fn == fn

def Ctor.init (c : Ctor) (f : String) : Option Init := (c.fields.find? fun x => x.1 == f).map (·.2)

end Base.CtorSig
