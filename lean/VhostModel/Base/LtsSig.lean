import VhostModel.Base.HandlerSig
/-!
# Events of the functions behind the two transition systems `Model.Worker` (C12) and `Model.Shutdown` (C16)

`tools/rs2lean_lts.py` reads `vhost-user-backend/src/{event_loop.rs, vring.rs, handler.rs, lib.rs}` *with* the statements
under `#[cfg(feature = "verif-hooks")]` and writes `Gen/LtsSteps.lean` in this vocabulary: per function the events of its
body, hold points included, and per function the *segments* — the residual programs from function entry and from every
hold point up to the next hold points.  `Model/LtsTable.lean` states in the same vocabulary which segment each step of the
two models stands for; `Props/LtsSteps.lean` compares the two and ties the table to the executable step functions.

* `LAct` — events without sub-events: everything of `Base.HAct` (`.h a`; guards, vring calls, epoll register / unregister,
  returns, …) plus the hold points and the operations of the worker loop and of the shutdown paths.
* `LEvent` — `act a` or `node kind strings body₁ body₂`: the constructs that carry event lists.  The readable
  constructors (`ifCond c t f`, `helperCall n args p body`, `loop label bind body`, `matchOn bind scrut arms`, …) are
  `@[match_pattern]` abbreviations of `node`; one recursive constructor keeps `DecidableEq` and the functions on trees
  short.
* frames of a residual program: `loopFrom label bind cur body` / `forFrom coll cur body` / `forVringFrom cur body` — we are
  inside an iteration of the loop with `cur` left of it, after which the loop goes on with `body`; a `helperCall` whose
  body is the rest of the helper's body.
* `segmentsOf` — the derivation of the segments from a row, in Lean (the translator derives them on its own;
  `Props.LtsSteps.segments_derivation_agrees` compares the two derivations).
-/
namespace Base

inductive LAct where
  /-- an event of the handler vocabulary -/
  | h (a : HAct)
  /-- `#[cfg(feature = "verif-hooks")] vhost::vhost_user::verif_hooks::hold(name, ctx)` -/
  | hold (name : String)
  /-- `continue ['label]` -/
  | cont (label : String)
  /-- `break 'label` -/
  | brkTo (label : String)
  /-- `break value` (the value of the enclosing `loop`) -/
  | brkVal (value : String)
  /-- `what?` on a value bound before (`res?` in an arm) -/
  | propagate (what : String)
  /-- `self.epoll.wait(-1, &mut events[..])` -/
  | epollWait
  /-- `kick.consume()` (`propagates`: under `?`) -/
  | consume (propagates : Bool)
  /-- `self.backend.handle_event(device_event, evset, &self.vrings, self.thread_id).map_err(err)?` -/
  | backendHandleEvent (err : String)
  /-- `flag.store(value, Ordering::order)` -/
  | atomicStore (flag value order : String)
  /-- `flag.load(Ordering::order)` -/
  | atomicLoad (flag order : String)
  /-- `let _ = what.shutdown(Shutdown::Both)` -/
  | sockShutdown (what : String)
  /-- `what.join()` (`err`: `.map_err(err)?`, empty: the result is looked at by the next event) -/
  | threadJoin (what err : String)
  /-- `handler.handle_request().map_err(err)` (the result is looked at by the next event) -/
  | handleRequest (err : String)
  /-- `let _ = eventfd.notify()` on a worker's exit event -/
  | exitEventSend
  /-- `let bindTo = thread::Builder::new().name(..).spawn(move || row).map_err(err)?`; the closure is the row `row` -/
  | spawn (bindTo err row : String)
  /-- `drop(guard)` -/
  | dropGuard (guard : String)
  deriving Repr, DecidableEq, Inhabited

inductive LKind where
  | helperCall (propagates : Bool)
  | forEachVring | forEach | ifCond | ifSome | ifLet | letElse | loop | matchOn | arm | closure | readKick
  | loopFrom | forFrom | forVringFrom
  deriving Repr, DecidableEq, Inhabited

inductive LEvent where
  | act (a : LAct)
  | node (k : LKind) (ss : List String) (b1 b2 : List LEvent)
  deriving Repr, Inhabited

namespace LEvent

-- the handler vocabulary
@[match_pattern, simp] abbrev indexBound (e : String) : LEvent := .act (.h (.indexBound e))
@[match_pattern, simp] abbrev featureAcked (b : Nat) (e : String) : LEvent := .act (.h (.featureAcked b e))
@[match_pattern, simp] abbrev valueCheck (c e : String) : LEvent := .act (.h (.valueCheck c e))
@[match_pattern, simp] abbrev libTry (w e : String) : LEvent := .act (.h (.libTry w e))
@[match_pattern, simp] abbrev setField (n v : String) : LEvent := .act (.h (.setField n v))
@[match_pattern, simp] abbrev vringCall (m : String) (a : List String) : LEvent := .act (.h (.vringCall m a))
@[match_pattern, simp] abbrev vringTry (m : String) (a : List String) (e b : String) : LEvent := .act (.h (.vringTry m a e b))
@[match_pattern, simp] abbrev vringGet (m b : String) : LEvent := .act (.h (.vringGet m b))
@[match_pattern, simp] abbrev backendCall (m : String) (a : List String) : LEvent := .act (.h (.backendCall m a))
@[match_pattern, simp] abbrev libCall (w : String) : LEvent := .act (.h (.libCall w))
@[match_pattern, simp] abbrev epollRegister (t e : String) : LEvent := .act (.h (.epollRegister t e))
@[match_pattern, simp] abbrev epollUnregister : LEvent := .act (.h .epollUnregister)
@[match_pattern, simp] abbrev bind (n e : String) : LEvent := .act (.h (.bind n e))
@[match_pattern, simp] abbrev brk : LEvent := .act (.h .brk)
@[match_pattern, simp] abbrev ok : LEvent := .act (.h .ok)
@[match_pattern, simp] abbrev okValue (e : String) : LEvent := .act (.h (.okValue e))
@[match_pattern, simp] abbrev err (e : String) : LEvent := .act (.h (.err e))
@[match_pattern, simp] abbrev value (e : String) : LEvent := .act (.h (.value e))
@[match_pattern, simp] abbrev done : LEvent := .act (.h .done)
-- new events without sub-events
@[match_pattern, simp] abbrev hold (n : String) : LEvent := .act (.hold n)
@[match_pattern, simp] abbrev cont (l : String) : LEvent := .act (.cont l)
@[match_pattern, simp] abbrev brkTo (l : String) : LEvent := .act (.brkTo l)
@[match_pattern, simp] abbrev brkVal (v : String) : LEvent := .act (.brkVal v)
@[match_pattern, simp] abbrev propagate (w : String) : LEvent := .act (.propagate w)
@[match_pattern, simp] abbrev epollWait : LEvent := .act .epollWait
@[match_pattern, simp] abbrev consume (p : Bool) : LEvent := .act (.consume p)
@[match_pattern, simp] abbrev backendHandleEvent (e : String) : LEvent := .act (.backendHandleEvent e)
@[match_pattern, simp] abbrev atomicStore (f v o : String) : LEvent := .act (.atomicStore f v o)
@[match_pattern, simp] abbrev atomicLoad (f o : String) : LEvent := .act (.atomicLoad f o)
@[match_pattern, simp] abbrev sockShutdown (w : String) : LEvent := .act (.sockShutdown w)
@[match_pattern, simp] abbrev threadJoin (w e : String) : LEvent := .act (.threadJoin w e)
@[match_pattern, simp] abbrev handleRequest (e : String) : LEvent := .act (.handleRequest e)
@[match_pattern, simp] abbrev exitEventSend : LEvent := .act .exitEventSend
@[match_pattern, simp] abbrev spawn (b e r : String) : LEvent := .act (.spawn b e r)
@[match_pattern, simp] abbrev dropGuard (g : String) : LEvent := .act (.dropGuard g)
-- events with sub-events
/-- `self.name(args)` (`propagates`: under `?`) with the events of the helper's own body -/
@[match_pattern, simp] abbrev helperCall (n : String) (a : List String) (p : Bool) (b : List LEvent) : LEvent :=
  .node (.helperCall p) (n :: a) b []
/-- `for (index, vring) in self.vrings.iter().enumerate()` -/
@[match_pattern, simp] abbrev forEachVring (b : List LEvent) : LEvent := .node .forEachVring [] b []
/-- `for .. in coll` -/
@[match_pattern, simp] abbrev forEach (c : String) (b : List LEvent) : LEvent := .node .forEach [c] b []
/-- `if cond { thn } else { els }` -/
@[match_pattern, simp] abbrev ifCond (c : String) (t f : List LEvent) : LEvent := .node .ifCond [c] t f
/-- `if let Some(..) = what { thn } else { els }` -/
@[match_pattern, simp] abbrev ifSome (w : String) (t f : List LEvent) : LEvent := .node .ifSome [w] t f
/-- `if let pat = what { thn } else { els }` -/
@[match_pattern, simp] abbrev ifLet (p w : String) (t f : List LEvent) : LEvent := .node .ifLet [p, w] t f
/-- `let pat = what else { els }` -/
@[match_pattern, simp] abbrev letElse (p w : String) (e : List LEvent) : LEvent := .node .letElse [p, w] e []
/-- `['label:] loop { body }`, bound to `bindTo` if it is the right-hand side of a `let` -/
@[match_pattern, simp] abbrev loop (l b : String) (body : List LEvent) : LEvent := .node .loop [l, b] body []
/-- `[let bindTo =] match scrut { arms }` (an effect of the scrutinee is the event in front) -/
@[match_pattern, simp] abbrev matchOn (b s : String) (arms : List LEvent) : LEvent := .node .matchOn [b, s] arms []
/-- `pat [if guard] => body`; `gbody`: the events of the guard (a local closure's body) -/
@[match_pattern, simp] abbrev arm (p g : String) (gbody body : List LEvent) : LEvent := .node .arm [p, g] gbody body
/-- `let name = || body` -/
@[match_pattern, simp] abbrev closure (n : String) (b : List LEvent) : LEvent := .node .closure [n] b []
/-- `let bindTo = vring.read_kick().map_err(err)?` with the events of `VringState::read_kick` -/
@[match_pattern, simp] abbrev readKick (e b : String) (body : List LEvent) : LEvent := .node .readKick [e, b] body []
@[match_pattern, simp] abbrev loopFrom (l b : String) (cur body : List LEvent) : LEvent := .node .loopFrom [l, b] cur body
@[match_pattern, simp] abbrev forFrom (c : String) (cur body : List LEvent) : LEvent := .node .forFrom [c] cur body
@[match_pattern, simp] abbrev forVringFrom (cur body : List LEvent) : LEvent := .node .forVringFrom [] cur body

/-! ### decidable comparison -/

mutual
def beq : LEvent → LEvent → Bool
  | .act x, .act y => x == y
  | .node k ss b1 b2, .node k' ss' b1' b2' => k == k' && ss == ss' && beqL b1 b1' && beqL b2 b2'
  | _, _ => false
def beqL : List LEvent → List LEvent → Bool
  | [], [] => true
  | x :: xs, y :: ys => beq x y && beqL xs ys
  | _, _ => false
end

mutual
theorem beq_sound : ∀ (a b : LEvent), beq a b = true → a = b
  | .act x, .act y, h => by simp [beq] at h; rw [h]
  | .node k ss b1 b2, .node k' ss' b1' b2', h => by
      simp [beq] at h; obtain ⟨⟨⟨h1, h2⟩, h3⟩, h4⟩ := h; rw [h1, h2, beqL_sound _ _ h3, beqL_sound _ _ h4]
  | .act _, .node .., h => by simp [beq] at h
  | .node .., .act _, h => by simp [beq] at h
theorem beqL_sound : ∀ (a b : List LEvent), beqL a b = true → a = b
  | [], [], _ => rfl
  | x :: xs, y :: ys, h => by simp [beqL] at h; rw [beq_sound _ _ h.1, beqL_sound _ _ h.2]
  | [], _ :: _, h => by simp [beqL] at h
  | _ :: _, [], h => by simp [beqL] at h
end

mutual
theorem beq_refl : ∀ (a : LEvent), beq a a = true
  | .act x => by simp [beq]
  | .node _ _ b1 b2 => by simp [beq, beqL_refl b1, beqL_refl b2]
theorem beqL_refl : ∀ (a : List LEvent), beqL a a = true
  | [] => rfl
  | x :: xs => by simp [beqL, beq_refl x, beqL_refl xs]
end

instance : DecidableEq LEvent := fun a b =>
  if h : beq a b = true then isTrue (beq_sound a b h) else isFalse (fun e => h (e ▸ beq_refl a))

end LEvent

/-- a function (or segment) and its events -/
abbrev LRow := String × List LEvent

def lrowsBeq : List LRow → List LRow → Bool
  | [], [] => true
  | (n, es) :: xs, (n', es') :: ys => n == n' && LEvent.beqL es es' && lrowsBeq xs ys
  | _, _ => false

theorem lrowsBeq_sound : ∀ (a b : List LRow), lrowsBeq a b = true → a = b
  | [], [], _ => rfl
  | (n, es) :: xs, (n', es') :: ys, h => by
      simp [lrowsBeq] at h; obtain ⟨⟨h1, h2⟩, h3⟩ := h
      rw [h1, LEvent.beqL_sound _ _ h2, lrowsBeq_sound _ _ h3]
  | [], _ :: _, h => by simp [lrowsBeq] at h
  | _ :: _, [], h => by simp [lrowsBeq] at h

/-- per function its segments -/
abbrev LSegs := List (String × List LRow)

def lsegsBeq : LSegs → LSegs → Bool
  | [], [] => true
  | (n, r) :: xs, (n', r') :: ys => n == n' && lrowsBeq r r' && lsegsBeq xs ys
  | _, _ => false

theorem lsegsBeq_sound : ∀ (a b : LSegs), lsegsBeq a b = true → a = b
  | [], [], _ => rfl
  | (n, r) :: xs, (n', r') :: ys, h => by
      simp [lsegsBeq] at h; obtain ⟨⟨h1, h2⟩, h3⟩ := h
      rw [h1, lrowsBeq_sound _ _ h2, lsegsBeq_sound _ _ h3]
  | [], _ :: _, h => by simp [lsegsBeq] at h
  | _ :: _, [], h => by simp [lsegsBeq] at h

def lrowOf (t : List LRow) (n : String) : List LEvent := (t.lookup n).getD []

/-- segment `p` of function `f` -/
def segOf (t : LSegs) (f p : String) : List LEvent := lrowOf ((t.lookup f).getD []) p

/-! ## the derivation of the segments -/

namespace LSeg

/-- how control can leave an event list -/
structure Out where
  fall : Bool := false
  hold : Bool := false
  ret : Bool := false
  /-- an unlabelled `break` (or `break value`) -/
  brk : Bool := false
  /-- an unlabelled `continue` -/
  again : Bool := false
  /-- labels of `break 'l` / `continue 'l` -/
  to : List String := []
  deriving DecidableEq, Repr

def Out.union (a b : Out) : Out :=
  ⟨a.fall || b.fall, a.hold || b.hold, a.ret || b.ret, a.brk || b.brk, a.again || b.again, a.to ++ b.to⟩

/-- a loop labelled `l` whose body leaves with `b`: a `break` of this loop falls out of it -/
def loopOut (l : String) (b : Out) : Out :=
  { fall := b.brk || b.to.contains l, hold := b.hold, ret := b.ret, brk := false, again := false,
    to := b.to.filter (· != l) }

/-- a `for` loop: it can always end -/
def forOut (b : Out) : Out := { fall := true, hold := b.hold, ret := b.ret, brk := false, again := false, to := b.to }

def actOut : LAct → Out
  | .hold _ => { hold := true }
  | .h .ok | .h (.okValue _) | .h (.okBackend _ _) | .h (.retBackend _ _ _) | .h (.err _) | .h .done => { ret := true }
  | .h .brk | .brkVal _ => { brk := true }
  | .cont l => if l = "" then { again := true } else { to := [l] }
  | .brkTo l => { to := [l] }
  | .propagate _ => { fall := true, ret := true }
  | _ => { fall := true }

mutual
def out : LEvent → Out
  | .act a => actOut a
  | .node k ss b1 b2 =>
    match k with
    | .ifCond | .ifSome | .ifLet => (outL b1).union (outL b2)
    | .letElse => (outL b1).union { fall := true }
    | .helperCall _ | .readKick => let b := outL b1; { hold := b.hold, fall := b.ret || b.fall }
    | .matchOn => if b1.isEmpty then { fall := true } else outArms b1
    | .arm => outL b2
    | .loop => loopOut (ss.headD "") (outL b1)
    | .loopFrom =>
      let c := outL b1
      let r := loopOut (ss.headD "") { c with fall := false }
      if c.fall || c.again then r.union (loopOut (ss.headD "") (outL b2)) else r
    | .forEach | .forEachVring => forOut (outL b1)
    | .forFrom | .forVringFrom => forOut ((outL b1).union (outL b2))
    | .closure => { fall := true }
def outL : List LEvent → Out
  | [] => { fall := true }
  | e :: es => let o := out e; if o.fall then ({ o with fall := false } : Out).union (outL es) else o
def outArms : List LEvent → Out
  | [] => {}
  | e :: es => (out e).union (outArms es)
end

def stops (e : LEvent) : Bool := !(out e).fall

mutual
def prune : LEvent → LEvent
  | .act a => .act a
  | .node k ss b1 b2 =>
    match k with
    | .closure => .node k ss b1 b2
    | .matchOn => .node k ss (pruneArms b1) b2
    | _ => .node k ss (pruneL b1) (pruneL b2)
def pruneL : List LEvent → List LEvent
  | [] => []
  | e :: es => let e' := prune e; if stops e' then [e'] else e' :: pruneL es
def pruneArms : List LEvent → List LEvent
  | [] => []
  | e :: es => prune e :: pruneArms es
end

/-- result of looking for the `n`-th hold point `name`: not there (with the occurrences still to skip), or the program
left after it -/
inductive Res where
  | no (n : Nat)
  | found (r : List LEvent)

mutual
def resid (name : String) : LEvent → Nat → Res
  | .act (.hold h), n => if h = name then (match n with | 0 => .found [] | n + 1 => .no n) else .no n
  | .act _, n => .no n
  | .node k ss b1 b2, n =>
    match k with
    | .helperCall _ | .readKick =>
      (match residL name b1 n with
       | .found r => .found [.node k ss r b2]
       | .no n => .no n)
    | .ifCond | .ifSome | .ifLet =>
      (match residL name b1 n with
       | .found r => .found r
       | .no n => residL name b2 n)
    | .letElse => residL name b1 n
    | .matchOn => residArms name b1 n
    | .arm =>
      (match residL name b1 n with
       | .found r => .found r
       | .no n => residL name b2 n)
    | .loop =>
      (match residL name b1 n with
       | .found r => .found [.node .loopFrom ss r b1]
       | .no n => .no n)
    | .forEach =>
      (match residL name b1 n with
       | .found r => .found [.node .forFrom ss r b1]
       | .no n => .no n)
    | .forEachVring =>
      (match residL name b1 n with
       | .found r => .found [.node .forVringFrom ss r b1]
       | .no n => .no n)
    | _ => .no n
def residL (name : String) : List LEvent → Nat → Res
  | [], n => .no n
  | e :: es, n =>
    match resid name e n with
    | .found r => .found (r ++ es)
    | .no n => residL name es n
def residArms (name : String) : List LEvent → Nat → Res
  | [], n => .no n
  | e :: es, n =>
    match resid name e n with
    | .found r => .found r
    | .no n => residArms name es n
end

mutual
/-- the hold points of a tree, in order -/
def holds : LEvent → List String
  | .act (.hold h) => [h]
  | .act _ => []
  | .node k _ b1 b2 =>
    match k with
    | .closure => []
    | _ => holdsL b1 ++ holdsL b2
def holdsL : List LEvent → List String
  | [] => []
  | e :: es => holds e ++ holdsL es
end

/-- `name`, `name#1`, … -/
def pointName (h : String) (k : Nat) : String := if k = 0 then h else h ++ "#" ++ toString k

def segsFrom (row : List LEvent) : List String → List String → List LRow
  | [], _ => []
  | h :: hs, seen =>
    let k := seen.count h
    (pointName h k, match residL h row k with
                    | .found r => pruneL r
                    | .no _ => []) :: segsFrom row hs (h :: seen)

/-- the segments of a row: from function entry, and from every hold point -/
def segmentsOf (row : List LEvent) : List LRow := ("entry", pruneL row) :: segsFrom row (holdsL row) []

def segmentsOfRows (rows : List LRow) : LSegs := rows.map fun r => (r.1, segmentsOf r.2)

/-! ### source edits as tree rewrites -/

mutual
/-- every event `e` (at any depth) with `f e = some r` is replaced by the events `r`; the others are kept and entered -/
def rewrite (f : LEvent → Option (List LEvent)) : LEvent → LEvent
  | .act a => .act a
  | .node k ss b1 b2 => .node k ss (rewriteL f b1) (rewriteL f b2)
def rewriteL (f : LEvent → Option (List LEvent)) : List LEvent → List LEvent
  | [] => []
  | e :: es =>
    (match f e with
     | some r => r
     | none => [rewrite f e]) ++ rewriteL f es
end

def rewriteRows (f : LEvent → Option (List LEvent)) (rows : List LRow) : List LRow := rows.map fun r => (r.1, rewriteL f r.2)
def rewriteSegs (f : LEvent → Option (List LEvent)) (t : LSegs) : LSegs := t.map fun r => (r.1, rewriteRows f r.2)

end LSeg

end Base
