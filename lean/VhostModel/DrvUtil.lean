import VhostModel.Base
/-! small parsing helpers shared by the `route` and `log` drivers (model and spec side); core Lean only -/
namespace DrvUtil
open Base

/-- value of the first `key=value` token -/
def kv (toks : List String) (key : String) : Option String :=
  toks.findSome? fun t =>
    match t.splitOn "=" with
    | [k, v] => if k == key then some v else none
    | _ => none

def hex? (s : String) : Option Nat := natOfHex? s

/-- comma separated hex list; `-` = empty -/
def hexList? (s : String) : Option (List Nat) :=
  if s == "-" then some [] else (s.splitOn ",").mapM hex?

def kvHex (toks : List String) (key : String) : Option Nat := (kv toks key).bind hex?
def kvHexList (toks : List String) (key : String) : Option (List Nat) := (kv toks key).bind hexList?

def hx (n : Nat) : String := hexOfNat n

/-- split a token list at the first `=>` -/
def splitArrow (toks : List String) : List String × List String :=
  (toks.takeWhile (· ≠ "=>"), (toks.dropWhile (· ≠ "=>")).drop 1)

end DrvUtil
