import VhostModel.Spec.KickDelivery
import VhostModel.Model.Worker
import VhostModel.Lemmas.Worker

/-!
# C12 — no lost or post-stop kick dispatch under any interleaving

`Model.Worker` is the small-step system of the worker thread (`wait → woken → [ready-check] → readKick →
dispatch`), the control thread (`send m`, then the segments `stateChange → [ready] → epollUpdate → [drop] → reply`
of SET_VRING_ENABLE 0/1, RESET_DEVICE, GET_VRING_BASE, SET_VRING_KICK with a fresh descriptor (`restart`) and
SET_VRING_KICK with the no-descriptor flag (`nofd`)) and the guest (`kick d`), with atomic
steps = code segments between hold points; `Cfg.pinned` is the code as pinned, `Cfg.repaired` has
`fix-c12-lost-kick`, `fix-c12-stale-eagain`, `fix-c12-stopped-dispatch`; `Cfg.nofdMutant` is the repaired code with
the guard of `set_vring_kick` weakened from `vring_needs_init` (`!ready && kick.is_some()`) to `!ready` — a mutation,
not a state of the tree, kept to show what the guard is for.  A *schedule* is any list of labels
accepted by `step` from `init cfg` (a started, enabled ring with descriptor 0 registered).  `Spec.KickDelivery`
states P1 (`NoDispatchAfterReply`) and P2 (`NoLostWakeup`) on the history the run produces.

## The intended theorems are false of the faithful model

`no_dispatch_after_reply : ∀ schedule, NoDispatchAfterReply history` and `no_lost_kick : ∀ schedule,
NoLostWakeup history` do **not** hold.  Proved instead:

* `dispatch_after_reply_counterexample` — the enabled-check and the dispatch are not atomic
  (`kick · wait · check · readKick(enabled) · send disable · state · epoll · reply · dispatch`); holds for the
  pinned **and** the repaired configuration (the window itself needs a redesign: known finding F-C12-window);
* `lost_kick_counterexample` (pinned) — `read_kick` consumes the counter before it looks at `enabled`
  (`kick · wait · send disable · state · epoll · reply · check · readKick`: consumed, no handler call);
* `dispatch_after_stop_counterexample` (pinned) — after GET_VRING_BASE `read_kick` finds no descriptor and
  reports `enabled`: the handler is entered after the reply;
* `stale_event_reads_new_fd_counterexample` (pinned) — an event returned for the previous kick descriptor is served
  after stop/restart by reading the *new* descriptor, whose counter is 0: `EAGAIN`, the worker thread ends;
* each of the last three is shown to be removed by its repair (`…_repaired`);
* `nofd_kick_marks_ready_counterexample` (mutated guard, otherwise repaired) — a descriptor-less SET_VRING_KICK after
  GET_VRING_BASE sets `ready` again while the ring has no kick descriptor; an event reported before the stop then
  passes the ready-check *after* both replies and the handler is entered in the forbidden period although no call
  had been granted before the stop (`rdStale = chkStale = false`: not the known window).  With the real guard the
  same messages leave `ready` alone (`nofd_kick_marks_ready_counterexample_repaired`).

## What does hold, for ALL schedules (invariants by induction over the label list)

* `no_dispatch_after_reply_partial` — any configuration: if every handler entry of the run had its `readKick`
  after the last disabling state change that preceded the entry (ghost flag `rdStale = false`), no handler entry
  lies in the forbidden period of a SET_VRING_ENABLE(0)/RESET_DEVICE.  Equivalently
  (`dispatch_after_disable_reply_only_through_window`): every handler entry in such a period is one whose grant
  was overtaken by the state change — the check→dispatch window is the *only* way to violate P1 for disable/reset;
* `no_dispatch_after_stop_partial` — with `fix-c12-stopped-dispatch` and the real guard of `set_vring_kick`
  (`nofdStarts = false`): likewise for GET_VRING_BASE with the ready-check in place of `readKick` (`chkStale`);
  `dispatch_after_stop_reply_only_through_window` is the "only way" form;
* `stopnf_no_dispatch_after_stop_partial` — the same, spelt out for descriptor-less SET_VRING_KICKs: after the reply of
  a GET_VRING_BASE, however many `nofd` messages (or anything else that is not the begin of a restart) follow, a
  handler entry is one whose ready-check preceded the stop (`forbS_open_until_restart`: such messages do not close the
  forbidden period);
* `no_lost_kick_partial` — any configuration: a wake-up is consumed without a handler call only if a disabling
  state change landed between `woken` and `readKick`, or the worker was woken while the unregistration that follows
  such a state change was still pending (ghost flag `clean = false`); so a run in which that never happens loses
  no wake-up;
* `no_lost_wakeup_repaired` — with `fix-c12-lost-kick` and `fix-c12-stale-eagain`, P2's safety part holds for every
  schedule outright.

Not proved (stated in the Spec header): the liveness half of P2 ("eventually") — it needs scheduler fairness; the
sequential version is C11's `delivered_on_activation`.  Modelled, not verified: atomicity of the segments (ring
lock), level-triggered epoll, eventfd counters, non-blocking kick descriptors, one ring / one worker.
-/

namespace Props.C12
open Model.Worker Spec.KickDelivery Lemmas.Worker

/-- the states reachable under configuration `cfg`: after some schedule -/
def Reach (cfg : Cfg) (s : St) : Prop := ∃ ls : List Lbl, run (init cfg) ls = some s

theorem reach_inv {cfg : Cfg} {s : St} (h : Reach cfg s) : Inv s ∧ Linked cfg s := by
  obtain ⟨ls, hls⟩ := h
  exact ⟨inv_run (inv_init cfg) ls hls, linked_run (linked_init cfg) ls hls⟩

/-! ## counterexamples (schedules exhibited; checked by evaluation) -/

def schedWindow : List Lbl := [.kick 0, .w, .w, .w, .send .disable, .c, .c, .c, .w]
def schedLost : List Lbl := [.kick 0, .w, .send .disable, .c, .c, .c, .w, .w]
def schedStop : List Lbl := [.kick 0, .w, .send .stop, .c, .c, .c, .c, .w, .w, .w]
def schedStale : List Lbl :=
  [.kick 0, .w, .send .stop, .c, .c, .c, .c, .send .restart, .c, .c, .c, .c, .w, .w]

/-- P1 is false of the pinned code: the handler is entered after the reply to SET_VRING_ENABLE(0). -/
theorem dispatch_after_reply_counterexample :
    (run (init Cfg.pinned) schedWindow).map (fun s => dispatchAfterReply s.trace) = some true ∧
    (run (init Cfg.pinned) schedWindow).map (fun s => s.trace) =
      some [.kick 0, .consumed true, .start .disable, .reply .disable, .dispatch] := by decide

/-- … and of the repaired code as well: the window between the enabled-check and the dispatch remains. -/
theorem dispatch_after_reply_counterexample_repaired :
    (run (init Cfg.repaired) schedWindow).map (fun s => dispatchAfterReply s.trace) = some true := by decide

/-- P2 is false of the pinned code: the wake-up is consumed, the handler is never called, the counter is 0. -/
theorem lost_kick_counterexample :
    (run (init Cfg.pinned) schedLost).map (fun s => (lostWakeup s.trace, s.cnt 0, s.wpc)) = some (true, 0, .wait) ∧
    (run (init Cfg.pinned) schedLost).map (fun s => s.trace) =
      some [.kick 0, .start .disable, .reply .disable, .consumed false] := by decide

/-- with `fix-c12-lost-kick` the same schedule keeps the kick in the eventfd -/
theorem lost_kick_counterexample_repaired :
    (run (init Cfg.repaired) schedLost).map (fun s => (lostWakeup s.trace, s.cnt 0)) = some (false, 1) := by decide

/-- P1 is false of the pinned code for GET_VRING_BASE: no descriptor ⇒ `enabled` is reported ⇒ handler entered
after the reply. -/
theorem dispatch_after_stop_counterexample :
    (run (init Cfg.pinned) schedStop).map (fun s => dispatchAfterReply s.trace) = some true ∧
    (run (init Cfg.pinned) schedStop).map (fun s => s.trace) =
      some [.kick 0, .start .stop, .reply .stop, .dispatch] := by decide

/-- with `fix-c12-stopped-dispatch` the stale event of a stopped ring is dropped before `read_kick` -/
theorem dispatch_after_stop_counterexample_repaired :
    (run (init Cfg.repaired) schedStop).map (fun s => dispatchAfterReply s.trace) = some false := by decide

/-- A stale event makes the worker read the replaced descriptor: `EAGAIN`, the worker thread ends (pinned). -/
theorem stale_event_reads_new_fd_counterexample :
    (run (init Cfg.pinned) schedStale).map (fun s => (s.wpc, s.kick, s.cnt 1, lostWakeup s.trace)) =
      some (.dead, some 1, 0, true) := by decide

/-- with `fix-c12-stale-eagain` the worker survives the stale read -/
theorem stale_event_reads_new_fd_counterexample_repaired :
    (run (init Cfg.repaired) schedStale).map (fun s => (s.wpc, lostWakeup s.trace)) = some (.wait, false) := by decide

/-! ## what holds for all schedules -/

/-- Every handler entry that lies in the forbidden period of a disable/reset is one whose grant (`readKick` returning
`enabled`) was overtaken by the disabling state change: the check→dispatch window is the only way. -/
theorem dispatch_after_disable_reply_only_through_window (cfg : Cfg) (s : St) (h : Reach cfg s)
    (fs rs cs : Bool) (hm : GRec.disp true fs rs cs ∈ s.glog) : rs = true :=
  (reach_inv h).1.a.g true fs rs cs hm rfl

/-- **P1, disable/reset half, partial.**  For every schedule in which each handler entry's `readKick` came after the
last disabling state change before that entry, no handler entry follows the reply of a SET_VRING_ENABLE(0) or
RESET_DEVICE before the next SET_VRING_ENABLE(1) begins. -/
theorem no_dispatch_after_reply_partial (cfg : Cfg) (s : St) (h : Reach cfg s)
    (hside : ∀ fd fs rs cs, GRec.disp fd fs rs cs ∈ s.glog → rs = false) :
    ∀ pre post, s.trace = pre ++ Ev.dispatch :: post → (period pre).forbD = false := by
  intro pre post hsplit
  obtain ⟨hinv, hlink⟩ := reach_inv h
  obtain ⟨rs, cs, hm⟩ := hlink.disp pre post hsplit
  cases hf : (period pre).forbD with
  | false => rfl
  | true =>
    rw [hf] at hm
    have h1 := hinv.a.g true _ rs cs hm rfl
    have h2 := hside _ _ rs cs hm
    rw [h1] at h2; cases h2

/-- the side condition is satisfiable by a schedule that really exercises the worker and a disable -/
example : (run (init Cfg.pinned) [.kick 0, .w, .w, .w, .w, .send .disable, .c, .c, .c, .kick 0, .w]).map
    (fun s => (s.glog, dispatchAfterReply s.trace)) = some ([.disp false false false false], false) := by decide

/-- **P1, stop half, partial** (needs `fix-c12-stopped-dispatch`): for every schedule in which each handler entry's
ready-check came after the last stopping state change before it, no handler entry follows the reply of GET_VRING_BASE
before the restarting SET_VRING_KICK begins. -/
theorem no_dispatch_after_stop_partial (cfg : Cfg) (hcfg : cfg.fixStopped = true) (hn : cfg.nofdStarts = false)
    (s : St) (h : Reach cfg s)
    (hside : ∀ fd fs rs cs, GRec.disp fd fs rs cs ∈ s.glog → cs = false) :
    ∀ pre post, s.trace = pre ++ Ev.dispatch :: post → (period pre).forbS = false := by
  intro pre post hsplit
  obtain ⟨hinv, hlink⟩ := reach_inv h
  obtain ⟨rs, cs, hm⟩ := hlink.disp pre post hsplit
  cases hf : (period pre).forbS with
  | false => rfl
  | true =>
    rw [hf] at hm
    have h1 := (hinv.b (by rw [hlink.cfg_eq]; exact hn)).g _ true rs cs hm (by rw [hlink.cfg_eq]; exact hcfg) rfl
    have h2 := hside _ _ rs cs hm
    rw [h1] at h2; cases h2

example : (run (init Cfg.repaired) [.kick 0, .w, .send .stop, .c, .c, .c, .c, .w, .w]).map
    (fun s => (s.glog, dispatchAfterReply s.trace, s.wpc)) = some ([], false, .wait) := by decide

/-- both halves together: P1 for the schedules that avoid both windows -/
theorem no_dispatch_after_reply_partial_full (cfg : Cfg) (hcfg : cfg.fixStopped = true) (hn : cfg.nofdStarts = false)
    (s : St) (h : Reach cfg s)
    (hside : ∀ fd fs rs cs, GRec.disp fd fs rs cs ∈ s.glog → rs = false ∧ cs = false) :
    NoDispatchAfterReply s.trace := by
  intro pre post hsplit
  exact ⟨no_dispatch_after_reply_partial cfg s h (fun fd fs rs cs hm => (hside fd fs rs cs hm).1) pre post hsplit,
    no_dispatch_after_stop_partial cfg hcfg hn s h (fun fd fs rs cs hm => (hside fd fs rs cs hm).2) pre post hsplit⟩

/-! ### descriptor-less SET_VRING_KICK (scenario `stopnf`) -/

/-- Every handler entry in the forbidden period of a GET_VRING_BASE is one whose ready-check was overtaken by the
stopping state change (repaired dispatch path, real guard of `set_vring_kick`): the known window is the only way,
whatever messages — descriptor-less SET_VRING_KICKs included — the schedule contains. -/
theorem dispatch_after_stop_reply_only_through_window (cfg : Cfg) (hcfg : cfg.fixStopped = true)
    (hn : cfg.nofdStarts = false) (s : St) (h : Reach cfg s)
    (fd rs cs : Bool) (hm : GRec.disp fd true rs cs ∈ s.glog) : cs = true := by
  obtain ⟨hinv, hlink⟩ := reach_inv h
  exact (hinv.b (by rw [hlink.cfg_eq]; exact hn)).g fd true rs cs hm (by rw [hlink.cfg_eq]; exact hcfg) rfl

theorem forbS_next_of_ne_restart (p : Period) (e : Ev) (hp : p.forbS = true) (he : e ≠ .start .restart) :
    (p.next e).forbS = true := by
  cases e with
  | start m => cases m <;> simp_all [Period.next]
  | reply m => cases m <;> simp [Period.next, CMsg.disables, hp]
  | _ => simpa [Period.next] using hp

theorem forbS_foldl_of_no_restart (mid : List Ev) (p : Period) (hp : p.forbS = true)
    (h : ∀ e, e ∈ mid → e ≠ .start .restart) : (mid.foldl Period.next p).forbS = true := by
  induction mid generalizing p with
  | nil => simpa using hp
  | cons e mid ih =>
    simp only [List.foldl_cons]
    exact ih _ (forbS_next_of_ne_restart p e hp (h e (by simp))) (fun e' he' => h e' (by simp [he']))

/-- The forbidden period opened by the reply of a GET_VRING_BASE stays open until a restart *begins*: no other event —
in particular neither the begin nor the reply of a descriptor-less SET_VRING_KICK — closes it. -/
theorem forbS_open_until_restart (pre1 mid : List Ev) (h : ∀ e, e ∈ mid → e ≠ .start .restart) :
    (period (pre1 ++ Ev.reply .stop :: mid)).forbS = true := by
  unfold period
  rw [List.foldl_append, List.foldl_cons]
  exact forbS_foldl_of_no_restart mid _ (by simp [Period.next, CMsg.disables]) h

/-- **P1 for scenario `stopnf`, partial.**  Repaired dispatch path and the real guard of `set_vring_kick`: for every
schedule in which each handler entry's ready-check came after the last stopping state change before it, no handler entry
follows the reply of a GET_VRING_BASE unless a SET_VRING_KICK *with a descriptor* began in between — descriptor-less
SET_VRING_KICKs (begun, answered, any number of them) do not re-admit the handler. -/
theorem stopnf_no_dispatch_after_stop_partial (cfg : Cfg) (hcfg : cfg.fixStopped = true) (hn : cfg.nofdStarts = false)
    (s : St) (h : Reach cfg s)
    (hside : ∀ fd fs rs cs, GRec.disp fd fs rs cs ∈ s.glog → cs = false)
    (pre1 mid post : List Ev) (hsplit : s.trace = (pre1 ++ Ev.reply .stop :: mid) ++ Ev.dispatch :: post) :
    ∃ e, e ∈ mid ∧ e = Ev.start .restart := by
  have hno := no_dispatch_after_stop_partial cfg hcfg hn s h hside _ post hsplit
  by_cases hex : ∃ e, e ∈ mid ∧ e = Ev.start .restart
  · exact hex
  · have : ∀ e, e ∈ mid → e ≠ Ev.start .restart := fun e he heq => hex ⟨e, he, heq⟩
    rw [forbS_open_until_restart pre1 mid this] at hno
    cases hno

def schedNofd : List Lbl := [.kick 0, .w, .send .stop, .c, .c, .c, .c, .send .nofd, .c, .c, .c, .w, .w, .w]
def schedNofdMutant : List Lbl := [.kick 0, .w, .send .stop, .c, .c, .c, .c, .send .nofd, .c, .c, .c, .c, .w, .w, .w]

/-- the hypotheses are satisfiable: the stop/no-descriptor chain on the repaired code, the event reported before the stop
is dropped at the ready-check; a later restart and kick are served (one handler entry, outside every period) -/
example : (run (init Cfg.repaired) (schedNofd ++ [.send .restart, .c, .c, .c, .c, .kick 1, .w, .w, .w, .w])).map
    (fun s => (s.glog, dispatchAfterReply s.trace, s.trace)) =
    some ([.disp false false false false], false,
      [.kick 0, .start .stop, .reply .stop, .start .nofd, .reply .nofd, .start .restart, .reply .restart, .kick 1,
       .consumed true, .dispatch]) := by decide

/-- With the guard of `set_vring_kick` mutated to `!ready`, P1 is false in a new way: worker woken by the ring's event,
GET_VRING_BASE answered, descriptor-less SET_VRING_KICK answered (it set `ready`), then ready-check, `read_kick` (no
descriptor: reports `enabled`) and the handler entry — inside the forbidden period of the stop, with a ready-check and a
grant that both came *after* the stop (`rdStale = chkStale = false`): not the check→dispatch window. -/
theorem nofd_kick_marks_ready_counterexample :
    (run (init Cfg.nofdMutant) schedNofdMutant).map (fun s => (dispatchAfterReply s.trace, s.glog, s.ready, s.kick)) =
      some (true, [.disp false true false false], true, none) ∧
    (run (init Cfg.nofdMutant) schedNofdMutant).map (fun s => s.trace) =
      some [.kick 0, .start .stop, .reply .stop, .start .nofd, .reply .nofd, .dispatch] := by decide

/-- with the real guard (`vring_needs_init`) the descriptor-less message leaves the ring stopped and the stale event is
dropped at the ready-check -/
theorem nofd_kick_marks_ready_counterexample_repaired :
    (run (init Cfg.repaired) schedNofd).map (fun s => (dispatchAfterReply s.trace, s.glog, s.ready, s.kick, s.wpc)) =
      some (false, [], false, none, .wait) := by decide

/-- A wake-up consumed without a handler call is always one that was not `clean`: a disabling state change landed
between `woken` and `readKick`, or the worker was woken while the unregistration after such a change was pending. -/
theorem lost_wakeup_only_through_disable_window (cfg : Cfg) (s : St) (h : Reach cfg s) (c : Bool)
    (hm : GRec.dropped c ∈ s.glog) : c = false :=
  (reach_inv h).1.c.g c hm

/-- **P2 (safety part), partial.**  For every schedule in which no disable lands between `woken` and `readKick` (and the
worker is not woken during a pending unregistration) — i.e. every consuming read is `clean` — no wake-up is consumed
without being processed. -/
theorem no_lost_kick_partial (cfg : Cfg) (s : St) (h : Reach cfg s)
    (hside : ∀ c, GRec.dropped c ∈ s.glog → c = true) : Ev.consumed false ∉ s.trace := by
  intro hmem
  obtain ⟨hinv, hlink⟩ := reach_inv h
  obtain ⟨⟨c, hc⟩, _⟩ := hlink.drop hmem
  have h1 := hinv.c.g c hc
  have h2 := hside c hc
  rw [h1] at h2; cases h2

example : (run (init Cfg.pinned) [.kick 0, .send .disable, .c, .c, .c, .w, .send .enable, .c, .c, .c, .w, .w, .w, .w]).map
    (fun s => (s.glog, lostWakeup s.trace, s.trace.contains .dispatch)) = some ([.disp false false false false], false, true) := by
  decide

/-- **P2 (safety part) for the repaired code**: with `fix-c12-lost-kick` and `fix-c12-stale-eagain` no schedule
consumes a wake-up without processing it, and the worker never ends. -/
theorem no_lost_wakeup_repaired (cfg : Cfg) (h1 : cfg.fixLost = true) (h2 : cfg.fixEagain = true) (s : St)
    (h : Reach cfg s) : NoLostWakeup s.trace := by
  obtain ⟨_, hlink⟩ := reach_inv h
  constructor
  · intro hm
    have := (hlink.drop hm).2
    rw [h1] at this; cases this
  · intro hm
    have := hlink.exit hm
    rw [h2] at this; cases this

/-- the executable judge of P1 used on the implementation's histories agrees with the declarative clause -/
theorem dispatchAfterReplyFrom_false_iff (tr : List Ev) (p : Period) :
    dispatchAfterReplyFrom p tr = false ↔
      ∀ pre post, tr = pre ++ Ev.dispatch :: post →
        (pre.foldl Period.next p).forbD = false ∧ (pre.foldl Period.next p).forbS = false := by
  induction tr generalizing p with
  | nil =>
    simp only [dispatchAfterReplyFrom, true_iff]
    intro pre post h
    cases pre <;> simp at h
  | cons e tr ih =>
    by_cases he : e = Ev.dispatch
    · subst he
      simp only [dispatchAfterReplyFrom, Bool.or_eq_false_iff]
      constructor
      · rintro ⟨⟨h1, h2⟩, h3⟩ pre post hsplit
        cases pre with
        | nil => exact ⟨h1, h2⟩
        | cons a pre' =>
          simp only [List.cons_append, List.cons.injEq] at hsplit
          obtain ⟨ha, htl⟩ := hsplit
          subst ha
          have := (ih p).1 h3 pre' post htl
          simpa [List.foldl, Period.next] using this
      · intro h
        refine ⟨⟨(h [] tr rfl).1, (h [] tr rfl).2⟩, (ih p).2 ?_⟩
        intro pre post hsplit
        have := h (Ev.dispatch :: pre) post (by simp [hsplit])
        simpa [List.foldl, Period.next] using this
    · have hstep : dispatchAfterReplyFrom p (e :: tr) = dispatchAfterReplyFrom (p.next e) tr := by
        cases e <;> first | rfl | exact absurd rfl he
      rw [hstep, ih]
      constructor
      · intro h pre post hsplit
        cases pre with
        | nil => simp only [List.nil_append, List.cons.injEq] at hsplit; exact absurd hsplit.1 he
        | cons a pre' =>
          simp only [List.cons_append, List.cons.injEq] at hsplit
          obtain ⟨ha, htl⟩ := hsplit
          subst ha
          exact h pre' post htl
      · intro h pre post hsplit
        exact h (e :: pre) post (by simp [hsplit])

theorem dispatchAfterReply_false_iff (tr : List Ev) : dispatchAfterReply tr = false ↔ NoDispatchAfterReply tr :=
  dispatchAfterReplyFrom_false_iff tr ⟨false, false⟩

end Props.C12
