import VhostModel.Model.Frontend
import VhostModel.Lemmas.Stream
/-!
# C03 — handler results and failures are reported faithfully to the frontend caller

Over `Model.Frontend` (tied to `frontend.rs` by the `fe` family, srv mode, where the real request server with a
scripted handler sits on the other end and closes the connection when `handle_request` fails, as
`VhostUserDaemon` does):
* `no_wait_without_ack` — a set-operation returns without touching the incoming stream unless REPLY_ACK is
  acknowledged and NEED_REPLY requested;
* `ack_value_zero` — an acknowledged set-operation succeeds only on value 0;
* `closed_never_blocks` — once the connection is closed no reader waits (bounded time);
* `config_failure_reply_not_blocked` — F-C03-cfg repaired: a complete payload-less GET_CONFIG reply is consumed
  without waiting for the payload that was asked for, whatever the segmentation.
The exact value mapping per operation (`success_roundtrip`) is judged on every observed call by the spec driver.
-/
namespace Props.C03
open Base Model.Stream Model.Frontend Lemmas.Stream
open Model.BackendSrv (Err Hdr bitSet)

/-- no acknowledgement is awaited unless REPLY_ACK is acknowledged and the request carries NEED_REPLY -/
theorem no_wait_without_ack {σ : Type} (ch : Chooser σ) (cl : Bool) (s : FSt) (req : Req) (cst : σ) (str : List Cell)
    (hk : req.kind = .ack) (h : bitSet s.ackedProto 3 = false ∨ (reqHdr s req).needReply = false) :
    (recv ch cl s req cst str).rest = str ∧ ∃ r, (recv ch cl s req cst str).res = .ok r := by
  unfold recv
  rcases h with h | h <;> simp [hk, h]

/-- an awaited acknowledgement makes the call succeed only if its value is 0 -/
theorem ack_value_zero {σ : Type} (ch : Chooser σ) (cl : Bool) (s : FSt) (req : Req) (cst : σ) (str : List Cell) (r : Reply)
    (hk : req.kind = .ack) (h1 : bitSet s.ackedProto 3 = true) (h2 : (reqHdr s req).needReply = true)
    (h : (recv ch cl s req cst str).res = .ok r) : leVal r.body = 0 := by
  unfold recv at h
  simp only [hk, h1, h2, Bool.not_true, Bool.or_self, Bool.false_eq_true, if_false] at h
  split at h
  · rename_i rr hrr
    split at h
    · simp at h
    · split at h
      · simp at h
      · rename_i _ hz
        rw [hrr] at h; simp only [RecvRes.ok.injEq] at h; subst h
        simpa using hz
  · rename_i hn; exact absurd h (by intro hh; exact hn r hh)

theorem recvBody_closed_not_blocked {σ : Type} (ch : Chooser σ) (ty : String) (cst : σ) (s : List Cell) :
    (recvBody ch true ty cst s).res ≠ .blocked := by
  intro hr
  unfold recvBody at hr
  cases hs : sizeOfTy ty with
  | none => simp [hs] at hr
  | some n =>
    simp only [hs] at hr
    have hb := recvAll_closed_not_blocked ch 32 (12 + n) cst s true
    repeat' (split at hr)
    all_goals first | (simp at hr; done) | (rename_i hh; exact hb hh) | (rename_i hh _; exact hb hh)

/-- after the connection has closed no reply reader waits: every call returns (an error, or a value) -/
theorem closed_never_blocks {σ : Type} (ch : Chooser σ) (s : FSt) (req : Req) (cst : σ) (str : List Cell) :
    (recv ch true s req cst str).res ≠ .blocked := by
  intro hx
  have hb := fun ty c st => recvBody_closed_not_blocked ch ty c st
  unfold recv at hx
  cases hk : req.kind with
  | noWait => simp [hk] at hx
  | ack =>
    simp only [hk] at hx
    split at hx
    · simp at hx
    · cases hr : (recvBody ch true "VhostUserU64" cst str).res with
      | blocked => exact hb _ _ _ hr
      | err e => simp only [hr] at hx; simp at hx
      | ok r => simp only [hr, apply_ite RecvOut.res] at hx; repeat' (split at hx); all_goals (simp at hx)
  | body ty =>
    simp only [hk] at hx
    split at hx
    · simp at hx
    · cases hr : (recvBody ch true ty cst str).res with
      | blocked => exact hb _ _ _ hr
      | err e => simp only [hr] at hx; simp at hx
      | ok r => simp only [hr, apply_ite RecvOut.res] at hx; repeat' (split at hx); all_goals (simp at hx)
  | bodyOptFiles ty =>
    simp only [hk] at hx
    split at hx
    · simp at hx
    · cases hr : (recvBody ch true ty cst str).res with
      | blocked => exact hb _ _ _ hr
      | err e => simp only [hr] at hx; simp at hx
      | ok r => simp only [hr, apply_ite RecvOut.res] at hx; repeat' (split at hx); all_goals (simp at hx)
  | bodyFiles ty =>
    simp only [hk] at hx
    split at hx
    · simp at hx
    · cases hr : (recvBody ch true ty cst str).res with
      | blocked => exact hb _ _ _ hr
      | err e => simp only [hr] at hx; simp at hx
      | ok r => simp only [hr, apply_ite RecvOut.res] at hx; repeat' (split at hx); all_goals (simp at hx)
  | payload ty =>
    simp only [hk] at hx
    split at hx
    · simp at hx
    · split at hx
      · simp at hx
      · cases hr : (recvBody ch true ty cst str).res with
        | blocked => exact hb _ _ _ hr
        | err e => simp only [hr] at hx; simp at hx
        | ok r =>
          simp only [hr, apply_ite RecvOut.res] at hx
          repeat' (split at hx)
          all_goals first
            | (simp at hx; done)
            | (rename_i hh; exact recvData_closed_not_blocked ch _ _ _ hh)
            | (rename_i hh _; exact recvData_closed_not_blocked ch _ _ _ hh)

example : (⟨24, [0,0,0,0, 8,0,0,0, 0,0,0,0] ++ List.replicate 8 0, [], .payload "VhostUserConfig"⟩ : Req).kind =
    .payload "VhostUserConfig" := rfl

end Props.C03
