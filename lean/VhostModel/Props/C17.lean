import VhostModel.Lemmas.Routing

/-!
# C17 — kicks are routed to the owning worker with the ring's rank as event id

`Model.Routing` transcribes `handler.rs` (slices, `update_vring_registration`) and `event_loop.rs` (exit id, listener id
check, `as u16` dispatch) — with the listener rule of the tree repaired by `fix-c17-listener-id.patch`.
`Spec.Routing` is the property statement.  Theorems (all for arbitrary 64-bit masks, any number of threads, `n ≤ 64`
queues — beyond 64 the Rust shift `queues_mask >> index` overflows, which is C05's subject):

* `evtIdx_is_rank`            popcount(mask) − popcount(mask >> q) = #{p < q | bit p of mask}   (all 2^64 masks, q < 64)
* `threadVrings_is_slice`     the slice of thread t is its queues in increasing order
* `slice_at_rank_is_queue`    slice[evtIdx] = q
* `registration_is_owner`, `owner_unique`   one registration, on the first thread whose mask has q
* `exit_id_distinct`          a queue's event id is < num_queues = exit id, and is a valid index of the slice
* `kick_meets_spec`           Model ⊨ Spec for one kick (the very predicate the spec driver evaluates on the implementation)
* `listener_id_exact`         accepted id ⇒ delivered as exactly that id, not a ring index, not the exit id, no queue's rank
* `listener_model_meets_spec` the model's listener outcome satisfies `Spec.listenerOk`
* `listener_id_truncated_counterexample`  the unmodified rule (`listenerAcceptedOld`) violates it: 65536+k is delivered
  as k (a ring's kick, or the exit event) — finding F-C17-u16.
-/

namespace Props.C17
open Model.Routing
open Lemmas.Routing

/-! ### population count = number of set bits -/
/-! ### the event id is the rank -/
/-- **for all 2^64 masks and all `q < 64`** (in particular those with bit `q` set):
`count_ones(mask) − count_ones(mask >> q)` is the number of set bits below `q` -/
theorem evtIdx_is_rank (mask : U64) (q : Nat) (hq : q < 64) :
    evtIdx mask q = Spec.Routing.rank mask.toNat q := by
  unfold evtIdx popcount Spec.Routing.rank
  rw [popcount_split 64 mask.toNat q mask.isLt (by omega), BitVec.toNat_ushiftRight,
    List.countP_eq_length_filter]
  have : (fun i => mask.toNat.testBit i) = Spec.Routing.inMask mask.toNat := by
    funext i; rfl
  rw [this]; omega
example : evtIdx 0xa5#64 5 = 2 ∧ hasQueue 0xa5#64 5 = true := by decide
/-! ### slices -/
/-- the slice handed to the backend on worker `t` is that worker's queues in increasing queue order -/
theorem threadVrings_is_slice (masks : List U64) (n t : Nat) :
    threadVrings masks n t = masks[t]?.map (fun m => Spec.Routing.slice m.toNat n) := by
  unfold threadVrings Spec.Routing.slice
  cases masks[t]? with
  | none => rfl
  | some m => simp [hasQueue_fun]
/-- the element of the slice at the event id is the kicked queue -/
theorem slice_at_rank_is_queue (masks : List U64) (n t q : Nat) (m : U64) (sl : List Nat)
    (hn : n ≤ 64) (hq : q < n) (hm : masks[t]? = some m) (hb : hasQueue m q = true)
    (hs : threadVrings masks n t = some sl) : sl[evtIdx m q]? = some q := by
  rw [threadVrings_is_slice, hm] at hs
  simp at hs; subst hs
  rw [evtIdx_is_rank m q (by omega)]
  rw [hasQueue_iff] at hb
  exact filter_range_at_rank _ n q hq hb
example : threadVrings [0x5#64, 0x2a#64] 6 1 = some [1, 3, 5] ∧ evtIdx 0x2a#64 3 = 1 := by decide
/-! ### ownership -/
/-- `update_vring_registration` registers the kick descriptor exactly once: on the property's owner (the first thread
whose mask contains `q`), with that thread's `evtIdx`; no owner ⇒ no registration -/
theorem registration_is_owner (masks : List U64) (q : Nat) :
    registration masks q =
      (Spec.Routing.owner (masks.map (·.toNat)) q).bind (fun t => masks[t]?.map (fun m => (t, evtIdx m q))) := by
  unfold registration Spec.Routing.owner
  rw [registrationFrom_eq]
  simp
/-- the owner is unique: it has the bit, and no earlier thread has it -/
theorem owner_unique (masks : List U64) (q t e : Nat) (h : registration masks q = some (t, e)) :
    ∃ m, masks[t]? = some m ∧ hasQueue m q = true ∧ e = evtIdx m q ∧
      ∀ t' m', t' < t → masks[t']? = some m' → hasQueue m' q = false := by
  rw [registration_is_owner] at h
  unfold Spec.Routing.owner at h
  cases ho : List.findIdx? (fun m => Spec.Routing.inMask m q) (masks.map (·.toNat)) with
  | none => simp [ho] at h
  | some i =>
    rw [ho] at h
    simp only [Option.bind_some] at h
    cases hm : masks[i]? with
    | none => simp [hm] at h
    | some m =>
      simp [hm] at h
      obtain ⟨rfl, rfl⟩ := h
      rw [List.findIdx?_eq_some_iff_getElem] at ho
      obtain ⟨hlt, hp, hmin⟩ := ho
      simp at hlt
      have hmi : masks[i] = m := by
        have := List.getElem?_eq_getElem hlt
        rw [this] at hm; exact Option.some.inj hm
      refine ⟨m, hm, ?_, rfl, ?_⟩
      · rw [hasQueue_iff]; simpa [hmi] using hp
      · intro t' m' hlt' hm'
        have := hmin t' hlt'
        have hl' : t' < masks.length := by omega
        have e' : masks[t'] = m' := by
          have := List.getElem?_eq_getElem hl'
          rw [this] at hm'; exact Option.some.inj hm'
        rw [hasQueue_iff]
        simpa [e'] using this
example : registration [0x4#64, 0x6#64, 0x2#64] 1 = some (1, 0) := by decide
/-! ### exit id -/
theorem evtIdx_le (m : U64) (q : Nat) (hq : q < 64) : evtIdx m q ≤ q := by
  rw [evtIdx_is_rank m q hq]
  unfold Spec.Routing.rank
  have := List.length_filter_le (Spec.Routing.inMask m.toNat) (List.range q)
  simpa using this
/-- the event id of a queue of the thread is a valid index of the thread's slice and is smaller than `num_queues`, the id
of the exit event; so the event loop treats it as a ring kick, never as the exit event -/
theorem exit_id_distinct (m : U64) (n q : Nat) (hasExit : Bool) (hn : n ≤ 64) (hq : q < n) (hb : hasQueue m q = true) :
    evtIdx m q < exitId n ∧
    evtIdx m q < ((List.range n).filter (hasQueue m)).length ∧
    dispatch n ((List.range n).filter (hasQueue m)).length hasExit (BitVec.ofNat 64 (evtIdx m q)) = .ring (evtIdx m q) := by
  have h1 : evtIdx m q ≤ q := evtIdx_le m q (by omega)
  have h2 : evtIdx m q < ((List.range n).filter (hasQueue m)).length := by
    rw [evtIdx_is_rank m q (by omega)]
    have h := rank_lt_slice_length (hasQueue m) n q hq hb
    simpa [Spec.Routing.rank, hasQueue_fun] using h
  refine ⟨by unfold exitId; omega, h2, ?_⟩
  unfold dispatch evType
  have hev : (BitVec.setWidth 16 (BitVec.ofNat 64 (evtIdx m q))).toNat = evtIdx m q := by
    rw [BitVec.toNat_setWidth, BitVec.toNat_ofNat]; omega
  simp only [hev]
  have : (evtIdx m q == n) = false := by simp; omega
  simp [this, h2]
example : evtIdx 0x3f#64 5 < exitId 6 := by decide
/-! ### Model ⊨ Spec for a kick -/
/-- **main theorem**: for every configuration (any masks, `n ≤ 64` queues, with or without exit events) and every queue
`q < n`, what the model lets the backend see for a kick on `q` is what the property demands: nothing if no mask contains
`q`; otherwise exactly one call, on the first thread whose mask contains `q`, with event id = rank of `q` in that mask
and a slice (the thread's queues in increasing order) whose element at that id is `q`. -/
theorem kick_meets_spec (masks : List U64) (n q : Nat) (hasExit : Bool) (hn : n ≤ 64) (hq : q < n) :
    Spec.Routing.kickOk (masks.map (·.toNat)) n q (kickObs masks n q hasExit) = true := by
  unfold kickObs Spec.Routing.kickOk
  cases hr : registration masks q with
  | none =>
    rw [registration_is_owner] at hr
    cases ho : Spec.Routing.owner (masks.map (·.toNat)) q with
    | none => rfl
    | some t =>
      exfalso
      rw [ho] at hr
      simp only [Option.bind_some] at hr
      unfold Spec.Routing.owner at ho
      rw [List.findIdx?_eq_some_iff_getElem] at ho
      obtain ⟨hlt, _⟩ := ho
      simp at hlt
      simp [List.getElem?_eq_getElem hlt] at hr
  | some te =>
    obtain ⟨t, e⟩ := te
    obtain ⟨m, hm, hb, he, _⟩ := owner_unique masks q t e hr
    have ho : Spec.Routing.owner (masks.map (·.toNat)) q = some t := by
      rw [registration_is_owner] at hr
      cases ho : Spec.Routing.owner (masks.map (·.toNat)) q with
      | none => simp [ho] at hr
      | some t' =>
        rw [ho] at hr
        simp only [Option.bind_some] at hr
        cases hm' : masks[t']? with
        | none => simp [hm'] at hr
        | some m' => simp [hm'] at hr; rw [hr.1]
    have hs : threadVrings masks n t = some ((List.range n).filter (hasQueue m)) := by
      unfold threadVrings; simp [hm]
    obtain ⟨_, h2, h3⟩ := exit_id_distinct m n q hasExit hn hq hb
    simp only [ho, hs, he, h3]
    have hmt : (masks.map (·.toNat))[t]? = some m.toNat := by simp [hm]
    simp only [hmt]
    have hrank := evtIdx_is_rank m q (by omega : q < 64)
    have hsl : (List.range n).filter (hasQueue m) = Spec.Routing.slice m.toNat n := by
      unfold Spec.Routing.slice; rw [hasQueue_fun]
    have hat := slice_at_rank_is_queue masks n t q m _ hn hq hm hb hs
    simp [hrank, hsl] at hat ⊢
    exact hat
example : kickObs [0x5#64, 0x2#64] 3 2 true = [(0, 1, [0, 2])] := by decide
example : kickObs [0x30#64] 3 2 true = [] := by decide
/-! ### custom listeners -/
/-- an id accepted by `register_listener` (repaired rule) is delivered to the backend as exactly that id; the event
loop does not touch a ring for it (`custom`, not `ring`), does not take it for the exit event, and no queue of any
worker has it as event id -/
theorem listener_id_exact (n sliceLen : Nat) (hasExit : Bool) (data : U64)
    (hsl : sliceLen ≤ n) (hacc : listenerAccepted n data = true) :
    dispatch n sliceLen hasExit data = .custom data.toNat ∧
    data.toNat ≠ exitId n ∧
    (∀ (m : U64) (q : Nat), q < n → n ≤ 64 → evtIdx m q ≠ data.toNat) := by
  unfold listenerAccepted at hacc
  simp at hacc
  obtain ⟨h1, h2⟩ := hacc
  have hev : evType data = data.toNat := by
    unfold evType; rw [BitVec.toNat_setWidth]; omega
  refine ⟨?_, by unfold exitId; omega, ?_⟩
  · unfold dispatch
    simp only [hev]
    have : (data.toNat == n) = false := by simp; omega
    have h3 : ¬ data.toNat < sliceLen := by omega
    simp [this, h3]
  · intro m q hq hn
    have := evtIdx_le m q (by omega)
    omega
example : listenerAccepted 4 0xffff#64 = true ∧ dispatch 4 3 true 0xffff#64 = .custom 0xffff := by decide
/-- the model's listener outcome satisfies the Spec's `listenerOk` (refused, or delivered on its worker as its id) -/
theorem listener_model_meets_spec (n sliceLen thread : Nat) (hasExit : Bool) (data : U64) (hsl : sliceLen ≤ n) :
    Spec.Routing.listenerOk n thread data.toNat
      (match listener n sliceLen hasExit data with
       | none => .rejected
       | some .exit => .lost
       | some (.ring ev) => .delivered thread ev
       | some (.custom ev) => .delivered thread ev) = true := by
  unfold listener
  cases hacc : listenerAccepted n data
  · simp [Spec.Routing.listenerOk]
  · obtain ⟨h1, _, _⟩ := listener_id_exact n sliceLen hasExit data hsl hacc
    simp only [if_true, h1]
    unfold listenerAccepted at hacc
    simp at hacc
    simp [Spec.Routing.listenerOk]; omega
/-- **F-C17-u16**: with the rule of the unmodified tree an id ≥ 65536 is accepted and delivered truncated —
65536+2 becomes a kick of ring 2 of the worker, 65536+4 (= 65536 + num_queues) becomes the exit event -/
theorem listener_id_truncated_counterexample :
    listenerOld 4 3 true 0x10002#64 = some (.ring 2) ∧
    listenerOld 4 3 true 0x10004#64 = some .exit ∧
    listenerOld 4 3 true 0x100000007#64 = some (.custom 7) ∧
    Spec.Routing.listenerOk 4 0 0x10002 (.delivered 0 2) = false := by decide
/-- with the unmodified rule the exactness statement is false -/
theorem listener_id_exact_old_false :
    ¬ (∀ (n sliceLen : Nat) (hasExit : Bool) (data : U64), sliceLen ≤ n → listenerAcceptedOld n data = true →
        dispatch n sliceLen hasExit data = .custom data.toNat) := by
  intro h
  have := h 4 3 true 0x10002#64 (by decide) (by decide)
  revert this; decide

end Props.C17
