import VhostModel.Lemmas.Stream
import VhostModel.Model.Endpoint
import VhostModel.Model.BackendSrv
/-!
# C08 — message framing is independent of stream segmentation; truncation is an error

Over `Model.Stream` / `Model.Endpoint` / `Model.BackendSrv.step` (tied to `connection.rs` and the request
servers by the `srv`/`frame` correspondence families).  All statements quantify over **every chooser**
(every kernel segmentation and arrival timing) resp. every script of partial writes.
-/
namespace Props.C08
open Base Model.Stream Model.Endpoint Lemmas.Stream Model.BackendSrv Model.Msgs

/-! ### the iovec offset helper -/

/-- `get_sub_iovs_offset` returns the position of byte `skip` in the concatenation of the buffers -/
theorem sub_iovs_offset_correct : ∀ (lens : List Nat) (skip nr : Nat), skip < lens.sum →
    let r := subIovsOffset lens skip nr
    nr ≤ r.1 ∧ r.1 - nr < lens.length ∧ r.2 < lens.getD (r.1 - nr) 0 ∧ (lens.take (r.1 - nr)).sum + r.2 = skip := by
  intro lens
  induction lens with
  | nil => intro skip nr h; simp at h
  | cons len rest ih =>
    intro skip nr h
    simp only [subIovsOffset]
    by_cases hs : skip ≥ len
    · simp only [hs, if_true]
      have h' : skip - len < rest.sum := by simp only [List.sum_cons] at h; omega
      obtain ⟨a, b, c, d⟩ := ih (skip - len) (nr + 1) h'
      have e : (subIovsOffset rest (skip - len) (nr + 1)).1 - nr = ((subIovsOffset rest (skip - len) (nr + 1)).1 - (nr + 1)) + 1 := by omega
      refine ⟨by omega, ?_, ?_, ?_⟩
      · simp only [List.length_cons]; omega
      · rw [e]; simpa using c
      · rw [e]; simp only [List.take_succ_cons, List.sum_cons]; omega
    · simp only [hs, if_false]
      refine ⟨Nat.le_refl _, ?_, ?_, ?_⟩ <;> simp <;> omega

/-! ### receiving: independent of segmentation -/

/-- for every two choosers (segmentations / timings), the receive loop returns the same bytes and leaves the same
rest, whenever the stream holds the requested bytes with descriptors within the limit -/
theorem recv_all_segmentation_independent {σ τ : Type} (ch1 : Chooser σ) (ch2 : Chooser τ) (cap : Nat) (cl1 cl2 : Bool)
    (want : Nat) (st1 : σ) (st2 : τ) (s : List Cell) (f : Bool) (h : want ≤ s.length)
    (hf : ((s.take want).flatMap (·.fds)).length ≤ cap) :
    (recvAll ch1 cap cl1 want st1 s f).bytes = (recvAll ch2 cap cl2 want st2 s f).bytes ∧
    (recvAll ch1 cap cl1 want st1 s f).rest = (recvAll ch2 cap cl2 want st2 s f).rest ∧
    (recvAll ch1 cap cl1 want st1 s f).outcome = .done ∧ (recvAll ch2 cap cl2 want st2 s f).outcome = .done := by
  obtain ⟨a1, a2, a3⟩ := recvAll_complete ch1 cap cl1 want st1 s f h hf
  obtain ⟨b1, b2, b3⟩ := recvAll_complete ch2 cap cl2 want st2 s f h hf
  exact ⟨by rw [a1, b1], by rw [a2, b2], a3, b3⟩

/-! ### sending: every byte once, in order, descriptors with the first byte only -/

theorem sendAll_wire (fds : List Fd) : ∀ (evs : List SendEv) (rem : Bytes) (sent : Nat) (w : Wire),
    ∃ k, k ≤ rem.length ∧ wireBytes (sendAll fds rem sent evs w).1 = wireBytes w ++ rem.take k ∧
      (∀ n, (sendAll fds rem sent evs w).2 = .ok n → n = sent + k) ∧
      ((sendAll fds rem sent evs w).2 = .ok (sent + rem.length) → k = rem.length) := by
  intro evs
  induction evs with
  | nil =>
    intro rem sent w
    cases rem with
    | nil => exact ⟨0, by simp [sendAll]⟩
    | cons b bs => exact ⟨0, by simp [sendAll]⟩
  | cons ev evs ih =>
    intro rem sent w
    cases rem with
    | nil => exact ⟨0, by simp [sendAll]⟩
    | cons b bs =>
      cases ev with
      | retry => simp only [sendAll]; exact ih (b :: bs) sent w
      | broken => exact ⟨0, by simp [sendAll]⟩
      | other => exact ⟨0, by simp [sendAll]⟩
      | accept k =>
        cases k with
        | zero =>
          refine ⟨0, by simp, by simp [sendAll], ?_, ?_⟩
          · intro n hn; simp [sendAll] at hn; omega
          · intro hn; simp [sendAll] at hn
        | succ k =>
          simp only [sendAll]
          obtain ⟨k', h1, h2, h3, h4⟩ := ih ((b :: bs).drop (min (k + 1) (bs.length + 1))) (sent + min (k + 1) (bs.length + 1))
            (w ++ [((b :: bs).take (min (k + 1) (bs.length + 1)), if sent == 0 then fds else [])])
          have hn : min (k + 1) (bs.length + 1) ≤ (b :: bs).length := by simp only [List.length_cons]; omega
          refine ⟨min (k + 1) (bs.length + 1) + k', ?_, ?_, ?_, ?_⟩
          · simp only [List.length_drop, List.length_cons] at h1 ⊢; omega
          · rw [h2]; simp only [wireBytes, List.flatMap_append, List.flatMap_cons, List.flatMap_nil, List.append_nil,
              List.append_assoc]
            congr 1
            rw [List.take_add]
          · intro n hh; have := h3 n hh; omega
          · intro hh
            have : sent + (b :: bs).length = sent + min (k + 1) (bs.length + 1) + ((b :: bs).drop (min (k + 1) (bs.length + 1))).length := by
              simp only [List.length_drop, List.length_cons]; omega
            rw [this] at hh
            have := h4 hh
            simp only [List.length_drop, List.length_cons] at this ⊢; omega

/-- **send_all_once_in_order**: for every script of partial writes / retries, what reaches the socket is a prefix of the
message, and the whole message exactly once when the call reports all bytes sent -/
theorem send_all_once_in_order (fds : List Fd) (data : Bytes) (evs : List SendEv) :
    (∃ k, wireBytes (sendAll fds data 0 evs []).1 = data.take k) ∧
    ((sendAll fds data 0 evs []).2 = .ok data.length → wireBytes (sendAll fds data 0 evs []).1 = data) := by
  obtain ⟨k, h1, h2, h3, h4⟩ := sendAll_wire fds evs data 0 []
  refine ⟨⟨k, by simpa [wireBytes] using h2⟩, ?_⟩
  intro h
  have := h4 (by simpa using h)
  rw [h2, this]; simp [wireBytes]

/-- descriptors accompany only the first chunk that reaches the socket -/
theorem sendAll_fds_inv (fds : List Fd) : ∀ (evs : List SendEv) (rem : Bytes) (sent : Nat) (w : Wire),
    (sent = 0 → w = []) → (∀ c ∈ w.tail, c.2 = []) → ∀ c ∈ (sendAll fds rem sent evs w).1.tail, c.2 = [] := by
  intro evs
  induction evs with
  | nil => intro rem sent w _ hw; cases rem <;> simpa [sendAll] using hw
  | cons ev evs ih =>
    intro rem sent w h0 hw
    cases rem with
    | nil => simpa [sendAll] using hw
    | cons b bs =>
      cases ev with
      | retry => simp only [sendAll]; exact ih (b :: bs) sent w h0 hw
      | broken => simpa [sendAll] using hw
      | other => simpa [sendAll] using hw
      | accept k =>
        cases k with
        | zero => simpa [sendAll] using hw
        | succ k =>
          simp only [sendAll]
          apply ih
          · intro h; omega
          · intro c hc
            cases w with
            | nil => simp at hc
            | cons x xs =>
              have hs : sent ≠ 0 := fun h => by simpa using h0 h
              simp only [List.cons_append, List.tail_cons, List.mem_append, List.mem_singleton] at hc
              rcases hc with hc | hc
              · exact hw c (by simpa using hc)
              · rw [hc]; simp [hs]

theorem send_all_fds_first_only (fds : List Fd) (data : Bytes) (evs : List SendEv) :
    ∀ c ∈ (sendAll fds data 0 evs []).1.tail, c.2 = [] :=
  sendAll_fds_inv fds evs data 0 [] (fun _ => rfl) (by simp)

/-- the stream ends inside the header: `PartialMessage`, nothing dispatched, and no waiting -/
theorem truncated_header_is_error {σ : Type} (ch : Chooser σ) (st : BSt) (cst : σ) (s : List Cell) (h : HOut)
    (h0 : 0 < s.length) (h12 : s.length < 12) (hf : (s.flatMap (·.fds)).length ≤ 32) :
    (step ch true st cst s h).o.res = .err .partialMsg ∧ (step ch true st cst s h).o.calls = [] := by
  obtain ⟨b1, b2, b3⟩ := recvAll_short ch 32 true 12 cst s true h12 hf
  have hl : (recvAll ch 32 true 12 cst s true).bytes.length = s.length := by rw [b1]; simp
  unfold step
  simp only [b3, if_true]
  have e1 : ((recvAll ch 32 true 12 cst s true).bytes.length == 0) = false := by
    rw [hl]; exact beq_false_of_ne (by omega)
  have e2 : ((recvAll ch 32 true 12 cst s true).bytes.length != 12) = true := by
    rw [hl]; simp; omega
  simp [e1, e2]

/-- a clean `Disconnected` is reported exactly at a message boundary (empty stream) -/
theorem disconnected_at_boundary {σ : Type} (ch : Chooser σ) (st : BSt) (cst : σ) (h : HOut) :
    (step ch true st cst [] h).o.res = .err .disconnected ∧ (step ch true st cst [] h).o.calls = [] := by
  unfold step
  simp [recvAll]

theorem disconnected_only_at_boundary {σ : Type} (ch : Chooser σ) (st : BSt) (cst : σ) (s : List Cell) (h : HOut)
    (hf : (s.flatMap (·.fds)).length ≤ 32) (hs : s.length < 12)
    (hd : (step ch true st cst s h).o.res = .err .disconnected) : s = [] := by
  by_cases h0 : s.length = 0
  · exact List.eq_nil_of_length_eq_zero h0
  · have := (truncated_header_is_error ch st cst s h (by omega) hs hf).1
    rw [this] at hd; simp at hd

theorem runAct_not_blocked (st : BSt) (c : Ctx) (h : HOut) (act : Act) : (runAct st c h act).res ≠ .blocked := by
  cases act <;> simp only [runAct] <;> (repeat' split) <;> simp

theorem dispatch_not_blocked (st : BSt) (hdr : Hdr) (buf : Bytes) (files : Option (List Fd)) (h : HOut) :
    (dispatch st hdr buf files h).res ≠ .blocked := by
  unfold dispatch
  cases arms.find? (·.code == hdr.code) with
  | none => simp
  | some a =>
    simp only
    cases runGuards st { hdr := hdr, buf := buf, files := files } a.guards with
    | error e => simp
    | ok c' => exact runAct_not_blocked st c' h a.act

/-- nothing ever blocks once the peer has closed -/
theorem never_blocks_when_closed {σ : Type} (ch : Chooser σ) (st : BSt) (cst : σ) (s : List Cell) (h : HOut) :
    (step ch true st cst s h).o.res ≠ .blocked := by
  have hb := recvAll_closed_not_blocked ch 32 12 cst s true
  unfold step
  simp only
  repeat' split
  all_goals first
    | (simp; done)
    | exact dispatch_not_blocked _ _ _ _ _
    | (exfalso; rename_i hh; exact recvData_closed_not_blocked ch _ _ _ hh)
    | (exfalso; rename_i hh; exact hb hh)
    | (exfalso; rename_i hh _; exact hb hh)
/-- what one server turn does with a stream that starts with a complete message whose descriptors ride on its first byte:
a function of the stream alone (no chooser) -/
def framedOut (st : BSt) (s : List Cell) (h : HOut) : Out × List Cell :=
  let hb := (s.take 12).map (·.b)
  let fds := (s.head?.map (·.fds)).getD []
  let hdr : Hdr := ⟨leVal (hb.take 4), leVal ((hb.drop 4).take 4), leVal ((hb.drop 8).take 4)⟩
  let files : Option (List Fd) := if fds.isEmpty then none else some fds
  match (decHeader hb).map (·.isValid (Gen.Codes.FrontendReq.table.map (·.2))) with
  | some true =>
    if files.isSome && !fdCodes.contains hdr.code then ({ st := st, res := .err .invalidMsg, closed := [] ++ fds }, s.drop 12)
    else if hdr.size == 0 then
      let o := dispatch st hdr [] files h
      ({ o with closed := [] ++ o.closed }, s.drop 12)
    else
      let o := dispatch st hdr (((s.drop 12).take hdr.size).map (·.b)) files h
      ({ o with closed := [] ++ o.closed }, (s.drop 12).drop hdr.size)
  | _ => ({ st := st, res := .err .invalidMsg, closed := [] ++ fds }, s.drop 12)

/-- **server_step_segmentation_independent**: for every chooser (segmentation, timing), open or closed stream, a stream
that starts with a complete message is handled exactly as `framedOut` says — header *and* body are reassembled -/
theorem step_framed {σ : Type} (ch : Chooser σ) (cl : Bool) (st : BSt) (cst : σ) (s : List Cell) (h : HOut)
    (h12 : 12 ≤ s.length) (htail : ∀ c ∈ s.tail, c.fds = []) (hcap : ((s.head?.map (·.fds)).getD []).length ≤ 32)
    (hbody : 12 + leVal ((((s.take 12).map (·.b)).drop 8).take 4) ≤ s.length) :
    (step ch cl st cst s h).o = (framedOut st s h).1 ∧ (step ch cl st cst s h).rest = (framedOut st s h).2 := by
  have hfd12 : ((s.take 12).flatMap (·.fds)).length ≤ 32 := by
    cases s with
    | nil => simp
    | cons c t =>
      simp only [List.head?_cons, Option.map_some, Option.getD_some] at hcap
      have : ((c :: t).take 12).flatMap (·.fds) = c.fds := by
        simp only [List.take_succ_cons, List.flatMap_cons]
        have : (t.take 11).flatMap (·.fds) = [] := by
          rw [List.flatMap_eq_nil_iff]; intro x hx; exact htail x (List.mem_of_mem_take hx)
        simp [this]
      rw [this]; exact hcap
  obtain ⟨a1, a2, a3⟩ := recvAll_complete ch 32 cl 12 cst s true h12 hfd12
  obtain ⟨a4, a5⟩ := recvAll_fds_first ch 32 cl 12 cst s true htail hcap (by omega)
  have a5' := a5 rfl
  simp only [if_true] at a4
  have hdrop : ∀ n, ∀ c ∈ ((s.drop 12).take n), c.fds = [] := by
    intro n c hc
    have : c ∈ s.drop 12 := List.mem_of_mem_take hc
    cases s with
    | nil => simp at this
    | cons x t => exact htail c (by simp only [List.tail_cons]; exact List.mem_of_mem_drop (by simpa using this))
  have hlen : ((s.take 12).map (·.b)).length = 12 := by simp; omega
  have hb' : leVal ((((s.take 12).map (·.b)).drop 8).take 4) ≤ (s.drop 12).length := by
    simp only [List.length_drop]; omega
  obtain ⟨d1, d2, d3, d4⟩ := recvData_complete ch cl _ (recvAll ch 32 cl 12 cst s true).st (s.drop 12) hb' (hdrop _)
  unfold step framedOut
  simp only [a1, a2, a3, a4, a5', hlen]
  cases hv : (decHeader ((s.take 12).map (·.b))).map (·.isValid (Gen.Codes.FrontendReq.table.map (·.2))) with
  | none => simp
  | some bv =>
    cases bv with
    | false => simp
    | true =>
      simp only
      cases hc1 : ((if ((s.head?.map (·.fds)).getD []).isEmpty then (none : Option (List Fd)) else some ((s.head?.map (·.fds)).getD [])).isSome &&
          !fdCodes.contains (leVal (((s.take 12).map (·.b)).take 4)))
      · simp only [Bool.false_eq_true, if_false]
        cases hc2 : (leVal ((((s.take 12).map (·.b)).drop 8).take 4) == 0)
        · simp only [Bool.false_eq_true, if_false, d1, d2, d4]
          exact ⟨rfl, rfl⟩
        · simp only [if_true]
          exact ⟨rfl, rfl⟩
      · simp only [if_true]
        exact ⟨rfl, rfl⟩

theorem server_step_segmentation_independent {σ τ : Type} (ch1 : Chooser σ) (ch2 : Chooser τ) (cl1 cl2 : Bool) (st : BSt)
    (c1 : σ) (c2 : τ) (s : List Cell) (h : HOut)
    (h12 : 12 ≤ s.length) (htail : ∀ c ∈ s.tail, c.fds = []) (hcap : ((s.head?.map (·.fds)).getD []).length ≤ 32)
    (hbody : 12 + leVal ((((s.take 12).map (·.b)).drop 8).take 4) ≤ s.length) :
    (step ch1 cl1 st c1 s h).o = (step ch2 cl2 st c2 s h).o ∧ (step ch1 cl1 st c1 s h).rest = (step ch2 cl2 st c2 s h).rest := by
  obtain ⟨x1, x2⟩ := step_framed ch1 cl1 st c1 s h h12 htail hcap hbody
  obtain ⟨y1, y2⟩ := step_framed ch2 cl2 st c2 s h h12 htail hcap hbody
  exact ⟨by rw [x1, y1], by rw [x2, y2]⟩

/-- the stream ends inside the body of a request with a valid header: an error, nothing dispatched -/
theorem truncated_body_is_error {σ : Type} (ch : Chooser σ) (st : BSt) (cst : σ) (s : List Cell) (h : HOut)
    (h12 : 12 ≤ s.length) (htail : ∀ c ∈ s.tail, c.fds = []) (hcap : ((s.head?.map (·.fds)).getD []).length ≤ 32)
    (hshort : s.length < 12 + leVal ((((s.take 12).map (·.b)).drop 8).take 4)) :
    (∃ e, (step ch true st cst s h).o.res = .err e) ∧ (step ch true st cst s h).o.calls = [] := by
  have hfd12 : ((s.take 12).flatMap (·.fds)).length ≤ 32 := by
    cases s with
    | nil => simp
    | cons c t =>
      simp only [List.head?_cons, Option.map_some, Option.getD_some] at hcap
      have : ((c :: t).take 12).flatMap (·.fds) = c.fds := by
        simp only [List.take_succ_cons, List.flatMap_cons]
        have : (t.take 11).flatMap (·.fds) = [] := by
          rw [List.flatMap_eq_nil_iff]; intro x hx; exact htail x (List.mem_of_mem_take hx)
        simp [this]
      rw [this]; exact hcap
  obtain ⟨a1, a2, a3⟩ := recvAll_complete ch 32 true 12 cst s true h12 hfd12
  have hdrop : ∀ c ∈ s.drop 12, c.fds = [] := by
    intro c hc
    cases s with
    | nil => simp at hc
    | cons x t => exact htail c (by simp only [List.tail_cons]; exact List.mem_of_mem_drop (by simpa using hc))
  have hlen : ((s.take 12).map (·.b)).length = 12 := by simp; omega
  have hb' : (s.drop 12).length < leVal ((((s.take 12).map (·.b)).drop 8).take 4) := by
    simp only [List.length_drop]; omega
  obtain ⟨d1, d2⟩ := recvData_short ch true _ (recvAll ch 32 true 12 cst s true).st (s.drop 12) hb' hdrop
  have hne : (leVal ((((s.take 12).map (·.b)).drop 8).take 4) == 0) = false := by
    apply beq_false_of_ne; omega
  unfold step
  simp only [a1, a2, a3, hlen]
  cases hv : (decHeader ((s.take 12).map (·.b))).map (·.isValid (Gen.Codes.FrontendReq.table.map (·.2))) with
  | none => exact ⟨⟨_, rfl⟩, rfl⟩
  | some bv =>
    cases bv with
    | false => exact ⟨⟨_, rfl⟩, rfl⟩
    | true =>
      simp only [show ((12 : Nat) != 12) = false from rfl, show ((12 : Nat) == 0) = false from rfl, Bool.false_eq_true, if_false]
      cases hc1 : ((if (recvAll ch 32 true 12 cst s true).fds.isEmpty then (none : Option (List Fd))
            else some (recvAll ch 32 true 12 cst s true).fds).isSome &&
          !fdCodes.contains (leVal (((s.take 12).map (·.b)).take 4)))
      · have d1' := d1; simp only [if_true] at d1'
        simp only [Bool.false_eq_true, if_false, hne, d1']
        first | exact ⟨⟨_, rfl⟩, rfl⟩ | exact ⟨⟨_, rfl⟩, trivial⟩ | exact ⟨trivial, trivial⟩ | (refine ⟨⟨.invalidMsg, ?_⟩, ?_⟩ <;> simp)
      · simp


/-! ### non-vacuity -/
example : subIovsOffset [4, 4, 5] 6 0 = (1, 2) := by decide
example : (sendAll [7] [1, 2, 3] 0 [.accept 1, .retry, .accept 5] []).1 = [([1], [7]), ([2, 3], [])] := by
  simp [sendAll]
example : (12 : Nat) ≤ (segCells [3,0,0,0, 1,0,0,0, 0,0,0,0] []).length ∧
    (∀ c ∈ (segCells [3,0,0,0, 1,0,0,0, 0,0,0,0] []).tail, c.fds = []) := by decide

end Props.C08
