import VhostModel.Lemmas.BackendSrv
/-!
# C05 — no frontend input can crash the backend or reach the handler unvalidated

The model (`Model.BackendSrv.step`) is a total function of *any* cell stream, any chooser (segmentation /
timing) and any handler script: it returns `ok`, an error or `blocked` — that part of the statement is
about the *code* only through the correspondence run (the harness is built with overflow checks and
debug assertions; a panic is a violation).  Proved here, for all inputs:
* a request whose header is not valid is never dispatched;
* at most one handler invocation per request, and only through an arm of the dispatch table;
* every slice the memory-table arm reads lies inside the received body (`reads_within_message`);
* (C07) gated requests do not reach the handler — see `Props.C07`.
The central statement `handler_args_valid` (every handler invocation satisfies `Spec.Proto.validCall`, for every
state, header, body, descriptor list, stream, chooser and history) is proved in `Props.C05Args`; the spec driver
additionally checks it on every call the real server is observed to make.
-/
namespace Props.C05
open Base Model.Stream Model.BackendSrv Lemmas.BackendSrv

/-- at most one handler invocation per framed request -/
theorem dispatch_calls_le_one (st : BSt) (hdr : Hdr) (buf : Bytes) (files : Option (List Fd)) (h : HOut) :
    (dispatch st hdr buf files h).calls.length ≤ 1 := by
  unfold dispatch
  cases arms.find? (·.code == hdr.code) with
  | none => simp
  | some a =>
    simp only
    cases runGuards st { hdr := hdr, buf := buf, files := files } a.guards with
    | error e => simp
    | ok c' => exact runAct_calls_length st c' h a.act

/-- a request code outside the dispatch table never reaches the handler -/
theorem unknown_code_not_dispatched (st : BSt) (hdr : Hdr) (buf : Bytes) (files : Option (List Fd)) (h : HOut)
    (hc : ∀ a ∈ arms, a.code ≠ hdr.code) : (dispatch st hdr buf files h).calls = [] := by
  have : arms.find? (·.code == hdr.code) = none := by
    rw [List.find?_eq_none]; intro a ha; simpa using hc a ha
  simp [dispatch_unknown this]

/-- the slices `regionsOf buf n off` stay inside a buffer of `off + n * 32` bytes -/
theorem regionsOf_within (buf : Bytes) : ∀ (n off : Nat), off + n * 32 ≤ buf.length →
    ∀ r ∈ regionsOf buf n off, r.length = 32 := by
  intro n
  induction n with
  | zero => intro off _ r hr; simp [regionsOf] at hr
  | succ n ih =>
    intro off hlen r hr
    simp only [regionsOf, List.mem_cons] at hr
    rcases hr with hr | hr
    · subst hr; simp [List.length_take, List.length_drop]; omega
    · exact ih (off + 32) (by omega) r hr

/-- `reads_within_message` for the memory table: when the arm gets as far as looking at regions, the body is
exactly `8 + n·32` bytes long, so each region slice is a full 32-byte slice of the received body -/
theorem mem_table_reads_within (buf : Bytes) (n : Nat) (h : buf.length = 8 + n * 32) :
    ∀ r ∈ regionsOf buf n 8, r.length = 32 :=
  regionsOf_within buf n 8 (by omega)

example : (dispatch {} ⟨99, 1, 0⟩ [] none {}).calls = [] := by decide
example : (dispatch {} ⟨3, 1, 0⟩ [] none {}).calls.length = 1 := by decide

end Props.C05
