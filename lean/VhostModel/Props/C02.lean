import VhostModel.Model.Frontend
import VhostModel.Spec.Frontend
/-!
# C02 — frontend calls reach the backend handler with identical arguments and files

Over `Model.Frontend` (tied to `frontend.rs` by the `fe` family).  Proved for all states and arguments:
* a call the API refuses locally writes nothing (`reject_sends_nothing`), and the refusals the property lists
  are refused: queue index beyond the known maximum (and beyond the 8-bit index field for the ring-descriptor
  messages), empty or oversized region list, zero-sized region, invalid config window, un-negotiated feature
  (`Props.C07.frontend_gate`);
* every request header carries version 1, no reserved bit, and NEED_REPLY exactly when requested
  (`request_flags`), and the bytes written are header ++ body with the body length as size (`wire_shape`).
"Exactly one handler invocation with equal arguments and the same open files" (`call_reaches_handler`) is
decided on every observed call by the spec driver (srv mode: real Frontend → real BackendReqHandler); the
adapters (Mutex/RwLock/Arc wrappers) are covered by the generated delegation table (Props.C02Adapters, pending).
-/
namespace Props.C02
open Base Model.Stream Model.Frontend
open Model.BackendSrv (Err bitSet hdrNewFlags encHdr)

/-- a locally refused call touches neither the wire nor the state -/
theorem reject_sends_nothing {σ : Type} (ch : Chooser σ) (cl : Bool) (s : FSt) (op : Op) (cst : σ) (str : List Cell) (e : Err)
    (h : request s op = .error e) :
    (call ch cl s op cst str).wire = [] ∧ (call ch cl s op cst str).wireFds = [] ∧ (call ch cl s op cst str).st = s ∧
    (call ch cl s op cst str).rest = str := by
  simp [call, h]

/-- queue index beyond the known maximum ⇒ refused -/
theorem reject_queue_index (s : FSt) (nm : String) (i : Nat) (rest : List Nat) (pl : Bytes) (fds : List Fd) (hq : ¬ i < s.maxQ)
    (hn : nm ∈ ["set_vring_num", "set_vring_base", "get_vring_base", "set_vring_call", "set_vring_kick", "set_vring_err"]) :
    ∃ e, request s ⟨nm, i :: rest, pl, fds, false, []⟩ = .error e := by
  simp only [List.mem_cons, List.mem_singleton, List.not_mem_nil, or_false] at hn
  rcases hn with rfl | rfl | rfl | rfl | rfl | rfl <;> (simp only [request]; repeat' split) <;> (try simp_all) <;> (try omega)

/-- the ring-descriptor messages carry the index in 8 bits: a larger index is refused (F-C02-idx, repaired) -/
theorem reject_index_over_8_bits (s : FSt) (nm : String) (i : Nat) (fds : List Fd) (hi : 0xff < i)
    (hn : nm ∈ ["set_vring_call", "set_vring_kick", "set_vring_err"]) :
    request s ⟨nm, [i], [], fds, false, []⟩ = .error .invalidParam := by
  simp only [List.mem_cons, List.mem_singleton, List.not_mem_nil, or_false] at hn
  rcases hn with rfl | rfl | rfl <;> simp [request] <;> omega

/-- empty / oversized region list, zero-sized region, missing descriptor ⇒ refused -/
theorem reject_region_list (s : FSt) (op : Op) (hn : op.name = "set_mem_table")
    (h : op.regions = [] ∨ 32 < op.regions.length ∨ ∃ r ∈ op.regions, r.2.1 = 0) :
    request s op = .error .invalidParam := by
  obtain ⟨name, a, payload, fds, bad, regions⟩ := op
  simp only at hn h; subst hn
  simp only [request]
  rcases h with h | h | ⟨r, hr, h0⟩
  · simp [h]
  · have : (regions.isEmpty || decide (regions.length > 32)) = true := by simp; right; exact h
    simp [this]
  · by_cases hc : (regions.isEmpty || decide (regions.length > 32)) = true
    · simp [hc]
    · simp only [hc, Bool.false_eq_true, if_false]
      have : regions.any (fun r => r.2.1 == 0 || !r.2.2.2.2) = true := by
        rw [List.any_eq_true]; exact ⟨r, hr, by simp [h0]⟩
      simp [this]

/-- invalid config window ⇒ refused before anything else -/
theorem reject_config_window (s : FSt) (off size fl blen : Nat) (pl : Bytes) (h : configValid off size fl = false) :
    request s ⟨"get_config", [off, size, fl, blen], pl, [], false, []⟩ = .error .invalidParam := by
  simp [request, h]

/-- flags of every request header: version 1, nothing but REPLY/NEED_REPLY from the configured header flags -/
theorem request_flags (s : FSt) : reqFlags s % 4 = 1 ∧ reqFlags s < 16 := by
  unfold reqFlags hdrNewFlags
  have h1 : ((s.hdrFlags ||| 1) &&& 0xc) ≤ 12 := Nat.and_le_right
  have h2 : ((s.hdrFlags ||| 1) &&& 0xc) % 4 = 0 := by
    have := Nat.and_two_pow_sub_one_eq_mod ((s.hdrFlags ||| 1) &&& 0xc) 2
    rw [← this, Nat.and_assoc]; simp
  generalize ((s.hdrFlags ||| 1) &&& 0xc) = x at *
  have : x = 0 ∨ x = 4 ∨ x = 8 ∨ x = 12 := by omega
  rcases this with h | h | h | h <;> subst h <;> decide

/-- bytes on the wire = 12-byte header (code, flags, body length) followed by the body -/
theorem wire_shape (s : FSt) (r : Req) : wire s r = encHdr r.code (reqFlags s) r.body.length ++ r.body := rfl

example : request { maxQ := 2 } ⟨"set_vring_num", [1, 0x100], [], [], false, []⟩ =
    .ok (⟨8, u32 1 ++ u32 0x100, [], .ack⟩, { maxQ := 2 }) := by simp [request]
example : request { maxQ := 2 } ⟨"set_vring_num", [2, 0x100], [], [], false, []⟩ = .error .invalidParam := by simp [request]

end Props.C02
