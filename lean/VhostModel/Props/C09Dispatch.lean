import VhostModel.Lemmas.FdLinear
import VhostModel.Props.C09
/-!
# C09 — descriptor linearity through the dispatch and the whole server turn

`Props/C09.lean` proves that the receive loops neither lose nor duplicate a descriptor.  Here the same is proved for
what happens to the descriptors after the header has been read, by counting occurrences of an arbitrary token `f`,
for **all** inputs (state, header, body bytes, files, handler outcome, chooser, stream, closed flag):
* `dispatch_fds_linear` — every descriptor that came with the header is, after the arm ran, in exactly one of: handed
  to the application handler (`Call.fds`), closed by the library (`Out.closed`);
* `step_fds_linear` — one `handle_request()`: every descriptor riding on the stream is in exactly one of: handed to
  the handler, closed by the library, still unread in the socket;
* `run_fds_linear` / `runT_fds_linear` — any history of server turns (the second one with cells arriving between the
  turns and a closed flag per turn): the same for the concatenated handler log and closed list.  The unread rest is
  what is in the socket when the connection is torn down and is closed with it, so no descriptor is lost or
  duplicated wherever the history stops;
* `…_perm` — the same as a permutation; `run_fds_nodup` — distinct descriptors stay distinct (no double hand-over,
  no hand-over *and* close).
The proof does not enumerate inputs: the 34 arms are checked once against a decidable well-formedness predicate
(`Lemmas.FdLinear.Arm.wf`: at most one file-taking guard, none for actions that do not account for `c.file`), the rest
is a generic induction over the guard list and a case split over the actions.
-/
namespace Props.C09Dispatch
open Base Model.Stream Model.BackendSrv Lemmas.Stream Lemmas.BackendSrv Lemmas.FdLinear Props.C09

theorem dispatch_fds_linear (st : BSt) (hdr : Hdr) (buf : Bytes) (files : Option (List Fd)) (h : HOut) (f : Fd) :
    (files.getD []).count f =
      ((dispatch st hdr buf files h).calls.flatMap (·.fds)).count f + (dispatch st hdr buf files h).closed.count f := by
  unfold dispatch
  split
  · simp
  · rename_i arm ha
    have hm := (find_arm ha).1
    have hwf := arms_wf arm hm
    simp only [Arm.wf, Bool.and_eq_true, decide_eq_true_eq, Bool.or_eq_true, beq_iff_eq] at hwf
    dsimp only
    split
    · simp
    · rename_i c' hg
      have hgl := runGuards_leftover arm.guards _ c' hwf.1 rfl hg
      have hl : c'.leftover = files.getD [] := by rw [hgl.1]; simp [Ctx.leftover]
      rw [← hl]
      apply runAct_fds_linear
      rcases hwf.2 with h | h
      · left; exact h
      · right; exact hgl.2 h

theorem step_fds_linear {σ : Type} (ch : Chooser σ) (cl : Bool) (st : BSt) (cst : σ) (s : List Cell) (h : HOut) (f : Fd) :
    (fdsOf s).count f =
      ((step ch cl st cst s h).o.calls.flatMap (·.fds)).count f + (step ch cl st cst s h).o.closed.count f +
      (fdsOf (step ch cl st cst s h).rest).count f := by
  unfold step
  extract_lets r hdr files o1 d o2
  have hr : (fdsOf s).count f = r.fds.count f + r.closed.count f + (fdsOf r.rest).count f :=
    recvAll_fds_linear ch 32 cl f 12 cst s true
  have hfiles : (files.getD []).count f = r.fds.count f := by
    simp only [files]
    cases hfd : r.fds <;> simp
  have ho1 : (files.getD []).count f = (o1.calls.flatMap (·.fds)).count f + o1.closed.count f :=
    dispatch_fds_linear st hdr [] files h f
  have ho2 : (files.getD []).count f = (o2.calls.flatMap (·.fds)).count f + o2.closed.count f :=
    dispatch_fds_linear st hdr d.bytes files h f
  have hd : (fdsOf r.rest).count f = d.lost.count f + (fdsOf d.rest).count f :=
    recvData_fds_linear ch cl f hdr.size r.st r.rest
  have hlost : d.outcome = .enobufs ∨ d.lost.count f = 0 := by
    by_cases hne : d.outcome = .enobufs
    · exact Or.inl hne
    · right
      have : d.lost = [] := recvData_lost_nil ch cl hdr.size r.st r.rest hne
      rw [this]; rfl
  clear_value o1 o2 d files hdr r
  repeat' split
  all_goals simp only [List.count_append, List.flatMap_nil, List.count_nil]
  all_goals rcases hlost with hl | hl
  all_goals first | omega | (exfalso; simp_all)

/-! ### as permutations -/

theorem dispatch_fds_perm (st : BSt) (hdr : Hdr) (buf : Bytes) (files : Option (List Fd)) (h : HOut) :
    (files.getD []).Perm
      ((dispatch st hdr buf files h).calls.flatMap (·.fds) ++ (dispatch st hdr buf files h).closed) := by
  rw [List.perm_iff_count]
  intro f
  rw [List.count_append]
  exact dispatch_fds_linear st hdr buf files h f

theorem step_fds_perm {σ : Type} (ch : Chooser σ) (cl : Bool) (st : BSt) (cst : σ) (s : List Cell) (h : HOut) :
    (fdsOf s).Perm ((step ch cl st cst s h).o.calls.flatMap (·.fds) ++ (step ch cl st cst s h).o.closed ++
      fdsOf (step ch cl st cst s h).rest) := by
  rw [List.perm_iff_count]
  intro f
  rw [List.count_append, List.count_append]
  exact step_fds_linear ch cl st cst s h f

/-! ### histories of server turns -/

structure RunOut (σ : Type) where
  st : BSt
  cst : σ
  rest : List Cell        -- what is still in the socket (closed with it at teardown)
  calls : List Call       -- the handler log of the whole history
  closed : List Fd        -- everything the library closed

/-- `handle_request()` called once per handler outcome, threading negotiation state, chooser state and stream -/
def run {σ : Type} (ch : Chooser σ) (cl : Bool) : BSt → σ → List Cell → List HOut → RunOut σ
  | st, cst, s, [] => ⟨st, cst, s, [], []⟩
  | st, cst, s, h :: hs =>
    let r := step ch cl st cst s h
    let q := run ch cl r.o.st r.cst r.rest hs
    { q with calls := r.o.calls ++ q.calls, closed := r.o.closed ++ q.closed }

/-- **no descriptor is lost or duplicated over any history of server turns** -/
theorem run_fds_linear {σ : Type} (ch : Chooser σ) (cl : Bool) (f : Fd) :
    ∀ (hs : List HOut) (st : BSt) (cst : σ) (s : List Cell),
      (fdsOf s).count f =
        ((run ch cl st cst s hs).calls.flatMap (·.fds)).count f + (run ch cl st cst s hs).closed.count f +
        (fdsOf (run ch cl st cst s hs).rest).count f := by
  intro hs
  induction hs with
  | nil => intro st cst s; simp [run]
  | cons h hs ih =>
    intro st cst s
    have h1 := step_fds_linear ch cl st cst s h f
    have h2 := ih (step ch cl st cst s h).o.st (step ch cl st cst s h).cst (step ch cl st cst s h).rest
    simp only [run, List.flatMap_append, List.count_append]
    omega

theorem run_fds_perm {σ : Type} (ch : Chooser σ) (cl : Bool) (hs : List HOut) (st : BSt) (cst : σ) (s : List Cell) :
    (fdsOf s).Perm ((run ch cl st cst s hs).calls.flatMap (·.fds) ++ (run ch cl st cst s hs).closed ++
      fdsOf (run ch cl st cst s hs).rest) := by
  rw [List.perm_iff_count]
  intro f
  rw [List.count_append, List.count_append]
  exact run_fds_linear ch cl f hs st cst s

/-- distinct descriptors on the wire: none is handed to the handler twice, none is both handed over and closed,
none that was handed over or closed is still in the socket -/
theorem run_fds_nodup {σ : Type} (ch : Chooser σ) (cl : Bool) (hs : List HOut) (st : BSt) (cst : σ) (s : List Cell)
    (hn : (fdsOf s).Nodup) :
    ((run ch cl st cst s hs).calls.flatMap (·.fds) ++ (run ch cl st cst s hs).closed ++
      fdsOf (run ch cl st cst s hs).rest).Nodup :=
  (run_fds_perm ch cl hs st cst s).nodup_iff.mp hn

/-- nothing appears from nowhere and nothing disappears -/
theorem run_fds_mem {σ : Type} (ch : Chooser σ) (cl : Bool) (hs : List HOut) (st : BSt) (cst : σ) (s : List Cell)
    (f : Fd) :
    f ∈ fdsOf s ↔ (f ∈ (run ch cl st cst s hs).calls.flatMap (·.fds) ∨ f ∈ (run ch cl st cst s hs).closed ∨
      f ∈ fdsOf (run ch cl st cst s hs).rest) := by
  rw [(run_fds_perm ch cl hs st cst s).mem_iff]
  simp only [List.mem_append, or_assoc]

/-- a turn of a history in which the peer keeps sending and may close its end at any point -/
structure Turn where
  arrive : List Cell := []   -- cells that arrived since the previous turn
  cl : Bool := false         -- whether the peer's end is closed when this turn runs
  h : HOut := {}

def runT {σ : Type} (ch : Chooser σ) : BSt → σ → List Cell → List Turn → RunOut σ
  | st, cst, s, [] => ⟨st, cst, s, [], []⟩
  | st, cst, s, t :: ts =>
    let r := step ch t.cl st cst (s ++ t.arrive) t.h
    let q := runT ch r.o.st r.cst r.rest ts
    { q with calls := r.o.calls ++ q.calls, closed := r.o.closed ++ q.closed }

/-- the same with cells arriving between the turns and the closed flag changing: what was in the socket plus what
arrived = handed over + closed + still in the socket -/
theorem runT_fds_linear {σ : Type} (ch : Chooser σ) (f : Fd) :
    ∀ (ts : List Turn) (st : BSt) (cst : σ) (s : List Cell),
      (fdsOf s).count f + (fdsOf (ts.flatMap (·.arrive))).count f =
        ((runT ch st cst s ts).calls.flatMap (·.fds)).count f + (runT ch st cst s ts).closed.count f +
        (fdsOf (runT ch st cst s ts).rest).count f := by
  intro ts
  induction ts with
  | nil => intro st cst s; simp [runT, fdsOf]
  | cons t ts ih =>
    intro st cst s
    have h1 := step_fds_linear ch t.cl st cst (s ++ t.arrive) t.h f
    have h2 := ih (step ch t.cl st cst (s ++ t.arrive) t.h).o.st (step ch t.cl st cst (s ++ t.arrive) t.h).cst
      (step ch t.cl st cst (s ++ t.arrive) t.h).rest
    simp only [fdsOf, runT, List.flatMap_append, List.flatMap_cons, List.count_append] at h1 h2 ⊢
    omega

theorem run_eq_runT {σ : Type} (ch : Chooser σ) (cl : Bool) :
    ∀ (hs : List HOut) (st : BSt) (cst : σ) (s : List Cell),
      run ch cl st cst s hs = runT ch st cst s (hs.map fun h => { cl := cl, h := h }) := by
  intro hs
  induction hs with
  | nil => intro st cst s; rfl
  | cons h hs ih => intro st cst s; simp only [run, runT, List.map_cons, List.append_nil, ih]

/-! ### non-vacuity: both sides of the dispatch equation are inhabited -/

/-- SET_VRING_CALL with one descriptor: handed to the handler -/
example : ((dispatch {} ⟨13, 1, 8⟩ (leBytes 8 0) (some [7]) {}).calls.flatMap (·.fds),
           (dispatch {} ⟨13, 1, 8⟩ (leBytes 8 0) (some [7]) {}).closed) = ([7], []) := by decide

/-- SET_VRING_CALL with two descriptors: the guard fails, both are closed -/
example : ((dispatch {} ⟨13, 1, 8⟩ (leBytes 8 0) (some [7, 9]) {}).calls.flatMap (·.fds),
           (dispatch {} ⟨13, 1, 8⟩ (leBytes 8 0) (some [7, 9]) {}).closed) = ([], [7, 9]) := by decide

/-- SET_BACKEND_REQ_FD without the protocol feature: the descriptor is closed, the handler is not called -/
example : ((dispatch {} ⟨21, 1, 0⟩ [] (some [7]) {}).calls.flatMap (·.fds),
           (dispatch {} ⟨21, 1, 0⟩ [] (some [7]) {}).closed) = ([], [7]) := by decide

/-- … and with it: handed to the handler -/
example : ((dispatch { ackedProto := 32 } ⟨21, 1, 0⟩ [] (some [7]) {}).calls.flatMap (·.fds),
           (dispatch { ackedProto := 32 } ⟨21, 1, 0⟩ [] (some [7]) {}).closed) = ([7], []) := by decide

/-- the well-formedness condition on the table is needed: an action that does not look at `c.file` (here the
SET_BACKEND_REQ_FD helper) run after a file-taking guard would lose the taken descriptor.  No arm of the table does this
(`Lemmas.FdLinear.arms_wf`). -/
example : ∃ (c : Ctx), c.leftover = [7] ∧
    (runAct {} c {} .backendReqFd).calls.flatMap (·.fds) ++ (runAct {} c {} .backendReqFd).closed = [] :=
  ⟨{ hdr := ⟨21, 1, 0⟩, buf := [], files := none, file := some 7 }, by decide, by decide⟩

end Props.C09Dispatch
