import VhostModel.Spec.Shutdown
import VhostModel.Model.Shutdown
import VhostModel.Lemmas.Shutdown

/-!
# C16 — daemon shutdown and teardown always complete, whatever the timing

`Model.Shutdown` is the transition system of one connection of a `VhostUserDaemon`: the daemon thread
(`pre → hdr → body → handler → reply → post → …`, exit path `fin → exited`), any number of shutdown callers
(`cStore i · cShut i`, repeatable), the peer (`pWrite n`, `pRead`, `pClose`), the owner of the daemon object
(`wJoin · wClassify`, `wNoThread`, `drop`), over the AF_UNIX socket rules listed in the model's header; and
`Model.Shutdown.TD`, the teardown system (workers, exit events, `Drop for VhostUserHandler`, the tail of `serve()`).
All theorems are for every script of peer requests `reqs` and **every schedule** `ls` accepted by `step`
(induction over `ls`; invariant `Lemmas.Shutdown.Inv`), with no bound on the number of callers or steps.

* `shutdown_then_wait_ok` — once a shutdown request has returned: flag and socket shutdown are in force for ever;
  the daemon thread is never blocked again and the number of steps it can still take is bounded by the measure
  `mu` (strictly decreasing under its steps, constant under everybody else's); every `wait()` that returns from
  then on returns `Ok`; `wait()` is enabled as soon as the thread is gone.
  `shutdown_then_wait_ok_fair` — liveness, **fairness stated explicitly**: in every infinite schedule that is
  weakly fair to the daemon thread (if it stays enabled it eventually steps) the thread terminates.
* `peer_sees_eof` — whenever the daemon thread has ended, for whatever reason, the socket has been shut down by
  us and the peer's reads return the queued data and then end-of-stream; the final socket shutdown is a step that
  is always enabled on the exit path (it cannot be skipped or blocked).
* `can_restart` — when `wait()` returns, the thread handle and the connection state are gone (`shutdown_handle()`
  is `None`), and `start` yields the initial state of a fresh connection (flag clear), to which every theorem of
  this file applies again.
* `disconnect_without_shutdown_is_error` — flag never set and thread result `e` ≠ `SocketBroken` ⇒ `wait()` =
  `Err(e)` (in particular for every disconnect observed by a read); `socket_broken_is_ok` — for `SocketBroken`
  (`ECONNRESET` after the peer closed with unread data, `EPIPE` on a reply) the code returns `Ok` by an explicit
  arm: the recorded reading of DESIGN §7, stated as such.  `wait_meets_spec` — against `Spec.Shutdown.waitDemand`;
  `exit_has_cause` — the thread never stops serving without a cause (flag stored, peer closed, drop, request error).
* `serve_maps_disconnects_and_signals_exit` — `serve()` = `wait()` followed by the exit events of *all* workers
  whatever `wait()` returned, then `Disconnected`/`PartialMessage ⇒ Ok`; meets `Spec.Shutdown.serveDemand`.
* `eof_on_request_error` — a request error makes the thread leave its loop, and from there `peer_sees_eof` applies.
* `drop_terminates_workers` — exit events supplied ⇒ `Drop for VhostUserHandler` never deadlocks, every run of
  the teardown system is finite, and when the drop has finished every worker has returned; under fairness every
  maximal run reaches that state.  `no_exit_events_join_blocks` — without exit events the join blocks (the
  hypothesis is needed).

`swapped_variant_reports_error`, `no_final_shutdown_variant_blocks_peer` — two deliberately broken variants of the
model (flag stored after the socket shutdown; exit path without the final socket shutdown) falsify the conclusions:
the theorems are not vacuous.

Assumed, not proved (DESIGN §6): the AF_UNIX rules of the model header; `Release`/`Acquire` on the one flag make
each access one atomic step; handlers terminate and do not panic; `Arc` drops the handler when its last owner
goes; OS scheduling is fair (only for the liveness statements, where it is a hypothesis).
Not covered: `serve()` returning early because the listener cannot be created or `accept` fails (then no exit
event is raised — outside the quantifier of the property, which ranges over peer behaviours and schedules);
`start()` while a previous thread is still running.
-/

namespace Props.C16
open Model.Shutdown Lemmas.Shutdown

/-! ## model error classes ↦ the Spec's vocabulary -/

def endOf : Err → Spec.Shutdown.End
  | .disconnected => .eofAtBoundary
  | .partialMsg => .eofInHeader
  | .shortBody => .eofInBody
  | .invalidMsg => .requestError
  | .reqErr => .requestError
  | .sockBroken => .socketError

def outcomeOf : WRes → Spec.Shutdown.Outcome
  | .ok => .ok
  | .err _ => .err

/-! ## clause 1: shutdown, then wait -/

/-- Safety part.  `s1` is any reachable state in which at least one shutdown request has returned; `s2` any
state reachable from it. -/
theorem shutdown_then_wait_ok (reqs : List Req) (prev : List WRes) (ls1 ls2 : List Lbl) (s1 s2 : St)
    (h1 : run (init reqs prev) ls1 = some s1) (hc : 0 < s1.completed) (h2 : run s1 ls2 = some s2) :
    -- the flag is set and the socket is shut down, for good
    (s2.flag = true ∧ s2.shut = true) ∧
    -- the daemon thread terminates: its steps are counted down by the measure …
    daemonSteps ls2 + mu s2 ≤ mu s1 ∧
    (∀ l s3, step s2 l = some s3 → (l.isDaemon = true → mu s3 < mu s2) ∧ (l.isDaemon = false → mu s3 = mu s2)) ∧
    -- … and until it is gone one of its steps is enabled (it is never blocked again)
    (s2.d.isExited = false → ∃ l, nextDaemon s2 = some l ∧ l.isDaemon = true ∧ (step s2 l).isSome = true) ∧
    -- every wait() that returns after the shutdown request returns Ok
    (∃ k, s2.results = s1.results ++ List.replicate k WRes.ok) ∧
    -- and wait() can take its steps as soon as the thread is gone
    (∀ e, s2.d = .exited e → s2.hasThread = true → s2.w = .idle → s2.dropped = false →
      ∃ s3 s4, step s2 .wJoin = some s3 ∧ step s3 .wClassify = some s4 ∧
        s4.results = s2.results ++ [WRes.ok]) := by
  have i1 := inv_reachable reqs prev ls1 s1 h1
  have i2 := inv_run s1 s2 ls2 i1 h2
  obtain ⟨f1, sh1⟩ := i1.compl hc
  have m := run_mono s1 s2 ls2 h2
  have f2 := m.1 f1
  have sh2 := m.2.1 sh1
  refine ⟨⟨f2, sh2⟩, run_mu s1 s2 ls2 sh1 h2, ?_, fun hne => daemon_enabled s2 i2 sh2 hne,
          results_ok s1 s2 ls2 f1 h2, ?_⟩
  · intro l s3 hs
    exact ⟨fun hd => mu_daemon s2 s3 l sh2 hd hs, fun hd => mu_other s2 s3 l sh2 hd hs⟩
  · intro e hd ht hw hdr
    refine ⟨_, _, by simp [step, ht, hw, hdr, hd]; rfl, by simp [step]; rfl, ?_⟩
    simp [f2, classifyWait_flag]

/-- Liveness part, fairness explicit: in every infinite schedule that is weakly fair to the daemon thread
(whenever the thread stays enabled it eventually takes a step), once a shutdown request has returned at
position `k0` the daemon thread terminates at some later position. -/
theorem shutdown_then_wait_ok_fair (reqs : List Req) (prev : List WRes) (x : Exec)
    (h0 : x.st 0 = init reqs prev) (hf : WeakFair x) (k0 : Nat) (hc : 0 < (x.st k0).completed) :
    ∃ k, k0 ≤ k ∧ (x.st k).d.isExited = true := by
  have hi : ∀ k, Inv (x.st k) := by
    intro k
    induction k with
    | zero => rw [h0]; exact inv_init reqs prev
    | succ k ih => exact inv_step _ _ _ ih (x.ok k)
  exact fair_terminates x hf _ k0 (Nat.le_refl _) (hi k0) ((hi k0).compl hc).2

/-! ## clause 2: the peer observes end-of-stream -/

/-- The exit path cannot skip or block on the final socket shutdown: in `fin e` the step `dFinal` is enabled
unconditionally, is the only step of the daemon thread, and leaves the socket shut down. -/
theorem final_shutdown_always_runs (s : St) (e : Err) (hd : s.d = .fin e) :
    nextDaemon s = some .dFinal ∧
    ∃ s', step s .dFinal = some s' ∧ s'.d = .exited e ∧ s'.shut = true := by
  refine ⟨by simp [nextDaemon, hd], _, by simp [step, hd]; rfl, rfl, rfl⟩

/-- After the daemon thread ended — for whatever reason — the socket has been shut down on our end, so what the
peer reads is the data still queued and then end-of-stream, never "would block". -/
theorem peer_sees_eof (reqs : List Req) (prev : List WRes) (ls : List Lbl) (s : St)
    (h : run (init reqs prev) ls = some s) (e : Err) (hd : s.d = .exited e) :
    s.shut = true ∧
    (peerRead s = .eof ∨ ∃ n, 0 < n ∧ peerRead s = .data n) ∧
    (s.peerClosed = false → ∃ s', step s .pRead = some s' ∧ peerRead s' = .eof) := by
  have hs := (inv_reachable reqs prev ls s h).exitedShut e hd
  refine ⟨hs, ?_, ?_⟩
  · by_cases hq : 0 < s.outQ
    · exact Or.inr ⟨s.outQ, hq, by simp [peerRead, hq]⟩
    · exact Or.inl (by simp [peerRead, hq, hs])
  · intro hpc
    exact ⟨_, by simp [step, hpc]; rfl, by simp [peerRead, hs]⟩

/-! ## clause 3: a new connection can be accepted -/

/-- When `wait()` returns (either arm), the thread handle and the connection state are gone and `start` gives the
initial state of a fresh connection — flag clear, socket open, no caller in flight — whatever happened before. -/
theorem can_restart (reqs : List Req) (prev : List WRes) (ls : List Lbl) (s s' : St)
    (h : run (init reqs prev) ls = some s)
    (hw : step s .wClassify = some s' ∨ step s .wNoThread = some s') (reqs' : List Req) :
    s'.hasThread = false ∧ s'.hasConn = false ∧ s'.w = .idle ∧
    restart s' reqs' = some (init reqs' s'.results) ∧
    (init reqs' s'.results).flag = false ∧ (init reqs' s'.results).shut = false ∧
    (init reqs' s'.results).completed = 0 ∧ (init reqs' s'.results).d = .pre := by
  have hi := inv_reachable reqs prev ls s h
  rcases hw with hw | hw
  · simp only [step] at hw
    split at hw
    · rename_i e he
      simp at hw; subst hw
      obtain ⟨_, ht, hdr⟩ := hi.joined e he
      simp [restart, ht, hdr, init]
    · simp at hw
  · simp only [step] at hw
    split at hw
    · rename_i hc
      simp at hw; subst hw
      simp [restart, hc.1, hc.2.1, hc.2.2, init]
    · simp at hw

/-- `wait()` with no thread is `Ok` and resets the connection state. -/
theorem wait_without_thread (s : St) (ht : s.hasThread = false) (hw : s.w = .idle) (hd : s.dropped = false) :
    ∃ s', step s .wNoThread = some s' ∧ s'.results = s.results ++ [WRes.ok] ∧ s'.hasConn = false :=
  ⟨_, by simp [step, ht, hw, hd]; rfl, rfl, rfl⟩

/-! ## clause 4: without a shutdown request a disconnect is an error -/

def Lbl.isStore : Lbl → Bool
  | .cStore _ => true
  | _ => false

theorem step_flag (s s' : St) (l : Lbl) (h : step s l = some s') : s'.flag = (s.flag || Lbl.isStore l) := by
  cases l <;> simp only [step] at h <;> (repeat' split at h) <;> simp at h <;> subst h <;> simp [Lbl.isStore]

theorem run_flag (ls : List Lbl) (s0 s : St) (h0 : run s0 ls = some s) :
    s.flag = (s0.flag || ls.any Lbl.isStore) := by
  induction ls generalizing s0 with
  | nil => simp [run] at h0; subst h0; simp
  | cons l ls ih =>
    simp only [run] at h0
    split at h0
    · simp at h0
    · rename_i s1 hs1
      rw [ih s1 h0, step_flag s0 s1 l hs1, List.any_cons, Bool.or_assoc]

/-- the flag is set exactly by the first step of a shutdown request -/
theorem flag_iff_requested (reqs : List Req) (prev : List WRes) (ls : List Lbl) (s : St)
    (h : run (init reqs prev) ls = some s) : s.flag = ls.any Lbl.isStore := by
  simpa [init] using run_flag ls _ s h

/-- The thread result is what `join` delivered, and with the flag never set `wait()` hands every result other
than `SocketBroken` to the caller as an error. -/
theorem disconnect_without_shutdown_is_error (reqs : List Req) (prev : List WRes) (ls : List Lbl) (s : St)
    (h : run (init reqs prev) ls = some s) (hno : ls.any Lbl.isStore = false)
    (e : Err) (hw : s.w = .joined e) (hne : e ≠ .sockBroken) :
    s.d = .exited e ∧
    ∃ s', step s .wClassify = some s' ∧ s'.results = s.results ++ [WRes.err e] := by
  have hi := inv_reachable reqs prev ls s h
  have hf : s.flag = false := by rw [flag_iff_requested reqs prev ls s h, hno]
  refine ⟨(hi.joined e hw).1, _, by simp [step, hw]; rfl, ?_⟩
  cases e <;> simp_all [classifyWait]

/-- The recorded reading: for `SocketBroken` the explicit arm of `wait()` returns `Ok`, flag or no flag. -/
theorem socket_broken_is_ok (s : St) (hw : s.w = .joined .sockBroken) :
    ∃ s', step s .wClassify = some s' ∧ s'.results = s.results ++ [WRes.ok] :=
  ⟨_, by simp [step, hw]; rfl, by simp [classifyWait]⟩

/-- Every exit of the daemon thread has a cause: a shutdown request whose flag is already stored, a peer that
closed, a dropped daemon object, or a request error.  (So when the peer gives no reason and nobody asked for a
shutdown, the thread keeps serving — the demand table of `Spec.Shutdown.waitDemand` is exhaustive.) -/
theorem exit_has_cause (reqs : List Req) (prev : List WRes) (ls : List Lbl) (s : St)
    (h : run (init reqs prev) ls = some s) (e : Err) (hd : s.d = .fin e ∨ s.d = .exited e) :
    s.flag = true ∨ s.peerClosed = true ∨ s.dropped = true ∨ e = .invalidMsg ∨ e = .reqErr :=
  (inv_reachable reqs prev ls s h).exitCause e hd

/-- the reason the peer gave the daemon to stop serving, read off a state in which `join` delivered `e` -/
def causeOf (s : St) (e : Err) : Option Spec.Shutdown.End :=
  if s.peerClosed = true ∨ e = .invalidMsg ∨ e = .reqErr then some (endOf e) else none

/-- Model ⊨ Spec for `wait()`: in every reachable state in which `join` has delivered the thread's result, the
classification meets `Spec.Shutdown.waitDemand` — `Ok` after a completed request, `Ok` when a request is in
progress and the peer gave no reason, `Err` for a disconnect observed by a read when no request was made. -/
theorem wait_meets_spec (reqs : List Req) (prev : List WRes) (ls : List Lbl) (s : St)
    (h : run (init reqs prev) ls = some s) (e : Err) (hw : s.w = .joined e) :
    s.d = .exited e ∧
    Spec.Shutdown.meets (Spec.Shutdown.waitDemand (decide (0 < s.completed)) s.flag (causeOf s e))
      (outcomeOf (classifyWait (.err e) s.flag)) = true := by
  have hi := inv_reachable reqs prev ls s h
  refine ⟨(hi.joined e hw).1, ?_⟩
  by_cases hc : 0 < s.completed
  · have hf := (hi.compl hc).1
    simp [Spec.Shutdown.waitDemand, hc, hf, classifyWait_flag, outcomeOf, Spec.Shutdown.meets]
  · cases hf : s.flag
    · cases hp : s.peerClosed <;> cases e <;>
        simp [Spec.Shutdown.waitDemand, hc, classifyWait, outcomeOf, Spec.Shutdown.meets, endOf, causeOf, hp,
          Spec.Shutdown.End.isDisconnect]
    · cases hp : s.peerClosed <;> cases e <;>
        simp [Spec.Shutdown.waitDemand, hc, classifyWait, outcomeOf, Spec.Shutdown.meets, endOf, causeOf, hp]

/-- `Spec.Shutdown.endAt` (peer close at byte offset `off`) and the model agree on where end-of-stream is met:
a stream that stops inside the first request. -/
theorem endAt_first (l off : Nat) (rest : List Nat) (ho : off < l) :
    Spec.Shutdown.endAt (l :: rest) off =
      (if off = 0 then .eofAtBoundary else if off < 12 then .eofInHeader else .eofInBody) := by
  simp only [Spec.Shutdown.endAt, Spec.Shutdown.hdrLen] at *
  by_cases h0 : off = 0
  · simp [h0]
  · by_cases h1 : off < 12 <;> simp [h0, h1, ho]

/-! ## clause 5: `serve()` -/

open Model.Shutdown.TD in
/-- `serve()`: (a) its result is `classifyServe` of what `wait()` returned — `Disconnected` and `PartialMessage`
become `Ok`, every other error stays, and that meets `Spec.Shutdown.serveDemand`; (b) whatever `wait()`
returned, when `serve()` returns every worker's exit event has been raised (if the backend supplies them);
(c) the tail of `serve()` is never blocked; (d) a worker whose event is raised can leave. -/
theorem serve_maps_disconnects_and_signals_exit :
    (∀ e flag, Spec.Shutdown.meets (Spec.Shutdown.serveDemand (endOf e))
        (outcomeOf (classifyServe (classifyWait (.err e) flag))) = true) ∧
    (∀ e, classifyServe (classifyWait (.err e) false) = .ok ↔
        (e = .disconnected ∨ e = .partialMsg ∨ e = .sockBroken)) ∧
    (∀ (c : Cfg) (ls : List TD.Lbl) (t : TD.St) (w r : WRes), TD.run c (TD.init true) ls = some t →
        t.sv = .done w r → r = classifyServe w ∧ (c.supplied = true → ∀ i, i < c.n → t.evt i = true)) ∧
    (∀ (c : Cfg) (t : TD.St) (k : Nat) (w : WRes), t.sv = .signalling k w → (TD.step c t .svSignal).isSome = true) ∧
    (∀ (c : Cfg) (t : TD.St) (w : WRes), t.sv = .waiting → (TD.step c t (.svReturn w)).isSome = true) ∧
    (∀ (c : Cfg) (t : TD.St) (i : Nat), i < c.n → t.evt i = true → t.gone i = false →
        (TD.step c t (.wkExit i)).isSome = true) := by
  refine ⟨?_, ?_, ?_, ?_, ?_, ?_⟩
  · intro e flag
    cases e <;> cases flag <;> simp [endOf, Spec.Shutdown.serveDemand, classifyWait, classifyServe, outcomeOf,
      Spec.Shutdown.meets]
  · intro e
    cases e <;> simp [classifyWait, classifyServe]
  · intro c ls t w r hr hd
    exact (Lemmas.Shutdown.TD.tinv_run c _ t ls (Lemmas.Shutdown.TD.tinv_init c true) hr).svDone w r hd
  · intro c t k w hs
    simp only [TD.step, hs]; split <;> simp
  · intro c t w hs
    simp [TD.step, hs]
  · intro c t i hi he hg
    simp [TD.step, hi, he, hg]

/-! ## clause 6: end-of-stream after a request error -/

/-- A request error — malformed header, malformed body, failing handler (after its acknowledgement, if one is
owed, was written) — makes the daemon thread leave its loop (`fin`), from where the final socket shutdown always
runs (`final_shutdown_always_runs`) and `peer_sees_eof` applies. -/
theorem eof_on_request_error :
    (∀ r : Req, r.hdrOk = false → afterHdr r = .fin .invalidMsg) ∧
    (∀ r : Req, r.hdrOk = true → r.body = 0 → r.bodyOk = false → afterHdr r = .fin .invalidMsg) ∧
    (∀ r : Req, r.hOk = false → afterHandler r = .fin .reqErr) ∧
    (∀ (s : St) (r : Req), s.d = .handler r → r.hOk = false → r.reply = 0 →
        ∃ s', step s .dHandle = some s' ∧ s'.d = .fin .reqErr) ∧
    (∀ (reqs : List Req) (prev : List WRes) (ls ls' : List Lbl) (s s' : St) (e : Err),
        run (init reqs prev) ls = some s → s.d = .fin e → run s ls' = some s' → s'.d.isExited = true →
        s'.d = .exited e ∧ s'.shut = true ∧ (peerRead s' = .eof ∨ ∃ n, 0 < n ∧ peerRead s' = .data n)) := by
  refine ⟨?_, ?_, ?_, ?_, ?_⟩
  · intro r h; simp [afterHdr, h]
  · intro r h1 h2 h3; simp [afterHdr, h1, h2, h3]
  · intro r h; simp [afterHandler, h]
  · intro s r hd h1 h2
    exact ⟨_, by simp [step, hd]; rfl, by simp [h2, afterHandler, h1]⟩
  · intro reqs prev ls ls' s s' e hr hd hr' hex
    -- the thread's result cannot change on the exit path
    have key : ∀ (ls' : List Lbl) (s s' : St), (s.d = .fin e ∨ s.d = .exited e) → run s ls' = some s' →
        (s'.d = .fin e ∨ s'.d = .exited e) := by
      intro ls'
      induction ls' with
      | nil => intro s s' hd h; simp [run] at h; subst h; exact hd
      | cons l ls' ih =>
        intro s s' hd h
        simp only [run] at h
        split at h
        · simp at h
        · rename_i s1 hs1
          refine ih s1 s' ?_ h
          rcases hd with hd | hd
          · cases l <;> simp only [step] at hs1 <;> (repeat' split at hs1) <;> simp at hs1 <;> subst hs1 <;>
              simp_all
          · exact Or.inr ((step_mono s s1 l hs1).2.2.1 e hd)
    have hall : run (init reqs prev) (ls ++ ls') = some s' := by simp [run_append, hr, hr']
    rcases key ls' s s' (Or.inl hd) hr' with h1 | h1
    · simp [h1, DPc.isExited] at hex
    · have := peer_sees_eof reqs prev (ls ++ ls') s' hall e h1
      exact ⟨h1, this.1, this.2.1⟩

/-! ## clause 7: dropping the daemon terminates the workers -/

/-- `Drop for VhostUserDaemon` shuts the connection down (so that, by `shutdown_then_wait_ok`'s measure argument,
the detached daemon thread terminates and releases its reference to the handler). -/
theorem drop_shuts_connection (s : St) (hd : s.dropped = false) (hw : s.w = .idle) (hc : s.hasConn = true) :
    ∃ s', step s .drop = some s' ∧ s'.shut = true ∧ s'.hasConn = false :=
  ⟨_, by simp [step, hd, hw]; rfl, by simp [hc], rfl⟩

open Model.Shutdown.TD in
/-- `Drop for VhostUserHandler` when the backend supplies exit events, for every schedule `ls` of the teardown
system (workers, handler drop, tail of `serve()`):
(1) no deadlock: once the drop has begun and until it has finished, some step is enabled;
(2) every step strictly decreases the measure, so no run is longer than the initial measure `2n + 3 + n (+ n + 2)`;
(3) when the drop has finished, every worker has returned;
(4) hence a run that has begun the drop and cannot be extended has finished it — i.e. **under fairness (every
    enabled thread eventually steps) every maximal run terminates all workers**. -/
theorem drop_terminates_workers (c : Cfg) (hs : c.supplied = true) (b : Bool) (ls : List TD.Lbl) (t : TD.St)
    (hr : TD.run c (TD.init b) ls = some t) :
    (t.h ≠ .alive → t.h ≠ .dropped → ∃ l, (TD.step c t l).isSome = true) ∧
    (∀ l t', TD.step c t l = some t' → TD.mu c t' < TD.mu c t) ∧
    ls.length + TD.mu c t ≤ TD.mu c (TD.init b) ∧
    (t.h = .dropped → ∀ i, i < c.n → t.gone i = true) ∧
    (t.h ≠ .alive → (∀ l, TD.step c t l = none) → t.h = .dropped ∧ ∀ i, i < c.n → t.gone i = true) := by
  have hi := Lemmas.Shutdown.TD.tinv_run c _ t ls (Lemmas.Shutdown.TD.tinv_init c b) hr
  refine ⟨fun h1 h2 => Lemmas.Shutdown.TD.td_progress c t hi hs h1 h2,
          fun l t' h => Lemmas.Shutdown.TD.td_mu_step c t t' l h,
          Lemmas.Shutdown.TD.td_run_len c _ t ls hr, hi.dropped, ?_⟩
  intro h1 hnone
  have hd : t.h = .dropped := by
    by_cases h2 : t.h = .dropped
    · exact h2
    · obtain ⟨l, hl⟩ := Lemmas.Shutdown.TD.td_progress c t hi hs h1 h2
      rw [hnone l] at hl; simp at hl
  exact ⟨hd, hi.dropped hd⟩

open Model.Shutdown.TD in
/-- The hypothesis is needed: without exit events the handler's drop reaches `join` of the first worker and no
step is enabled any more (the join blocks for ever). -/
theorem no_exit_events_join_blocks :
    ∃ (ls : List TD.Lbl) (t : TD.St), TD.run ⟨1, false⟩ (TD.init false) ls = some t ∧ t.h = .joining 0 ∧
      t.gone 0 = false ∧ ∀ l, TD.step ⟨1, false⟩ t l = none := by
  refine ⟨[.hBegin, .hSignal, .hSignal], _, rfl, rfl, rfl, ?_⟩
  intro l
  cases l <;> simp [TD.step, TD.init, upd]

/-! ## the hypotheses are satisfiable: concrete scripts and schedules -/

/-- GET_FEATURES-like request: 12 bytes, handler ok, 20-byte reply -/
def rGet : Req := { body := 0, reply := 20 }
/-- SET_FEATURES-like request: 20 bytes, no reply -/
def rSet : Req := { body := 8 }
/-- a request whose handler fails, no acknowledgement owed -/
def rFail : Req := { body := 8, hOk := false }
/-- a malformed header -/
def rBad : Req := { body := 0, hdrOk := false }

structure View where
  d : DPc
  flag : Bool
  shut : Bool
  completed : Nat
  results : List WRes
  inQ : Nat
  outQ : Nat
  deriving DecidableEq, Repr

def view (s : St) : View := ⟨s.d, s.flag, s.shut, s.completed, s.results, s.inQ, s.outQ⟩

/-- shutdown while the thread is blocked in the header read (peer silent), from two callers, one of them twice;
then wait: `Ok`; the peer reads end-of-stream; restart possible -/
def exIdle : List Lbl :=
  [.dEnter, .cStore 0, .cStore 1, .cShut 1, .dEof, .cShut 0, .cStore 1, .dFinal, .cShut 1, .wJoin, .wClassify]

example : (run (init [rGet]) exIdle).map view =
    some ⟨.exited .disconnected, true, true, 3, [.ok], 0, 0⟩ := by decide
example : (run (init [rGet]) exIdle).map peerRead = some .eof := by decide
example : ((run (init [rGet]) exIdle).bind fun s => restart s [rSet]).map view =
    some ⟨.pre, false, false, 0, [.ok], 0, 0⟩ := by decide
/-- the thread is blocked before the shutdown: `dEof` is not enabled on an open, silent connection -/
example : (run (init [rGet]) [.dEnter, .dEof]).isSome = false := by decide
/-- … and `join` blocks while the thread runs -/
example : (run (init [rGet]) [.dEnter, .wJoin]).isSome = false := by decide

/-- shutdown between header and body (the peer wrote the header only) -/
example : (run (init [rSet]) [.dEnter, .pWrite 12, .dRead 12, .cStore 0, .cShut 0, .dEof, .dFinal, .wJoin, .wClassify]).map view =
    some ⟨.exited .shortBody, true, true, 1, [.ok], 0, 0⟩ := by decide
/-- shutdown inside the handler of a reply-bearing request: the reply fails with `EPIPE`, `SocketBroken` -/
example : (run (init [rGet]) [.dEnter, .pWrite 12, .dRead 5, .dRead 7, .cStore 0, .cShut 0, .dHandle, .dReply, .dFinal,
    .wJoin, .wClassify]).map view = some ⟨.exited .sockBroken, true, true, 1, [.ok], 0, 0⟩ := by decide
/-- shutdown after the reply was written: the peer reads the reply, then end-of-stream -/
example : (run (init [rGet]) [.dEnter, .pWrite 12, .dRead 12, .dHandle, .dReply, .cStore 0, .cShut 0, .dLoop, .dEnter,
    .dEof, .dFinal, .wJoin, .wClassify]).map (fun s => (view s, peerRead s)) =
    some (⟨.exited .disconnected, true, true, 1, [.ok], 0, 20⟩, .data 20) := by decide
/-- a request that was already queued when the socket was shut down is still served -/
example : (run (init [rSet, rSet]) [.pWrite 20, .cStore 0, .cShut 0, .pWrite 20, .dEnter, .dRead 12, .dRead 8, .dHandle,
    .dLoop, .dEnter, .dEof, .dFinal]).map view = some ⟨.exited .disconnected, true, true, 1, [], 0, 0⟩ := by decide

/-- no shutdown request, the peer closes at offset 0 / 5 / 15 of a 20-byte request: `wait()` = `Err` -/
example : (run (init [rSet]) [.dEnter, .pClose, .dEof, .dFinal, .wJoin, .wClassify]).map view =
    some ⟨.exited .disconnected, false, true, 0, [.err .disconnected], 0, 0⟩ := by decide
example : (run (init [rSet]) [.dEnter, .pWrite 5, .dRead 5, .pClose, .dEof, .dFinal, .wJoin, .wClassify]).map view =
    some ⟨.exited .partialMsg, false, true, 0, [.err .partialMsg], 0, 0⟩ := by decide
example : (run (init [rSet]) [.dEnter, .pWrite 15, .dRead 12, .dRead 3, .pClose, .dEof, .dFinal, .wJoin, .wClassify]).map view =
    some ⟨.exited .shortBody, false, true, 0, [.err .shortBody], 0, 0⟩ := by decide
/-- the peer closes with the reply unread: `ECONNRESET` ⇒ `SocketBroken` ⇒ `Ok` (explicit arm) -/
example : (run (init [rGet]) [.dEnter, .pWrite 12, .dRead 12, .dHandle, .dReply, .dLoop, .dEnter, .pClose, .dReset, .dFinal,
    .wJoin, .wClassify]).map view = some ⟨.exited .sockBroken, false, true, 0, [.ok], 0, 0⟩ := by decide
/-- a caller between its two steps when the peer closes: `wait()` can see the error only with the flag set -/
example : (run (init [rGet]) [.dEnter, .cStore 0, .pClose, .dEof, .dFinal, .wJoin, .wClassify, .cShut 0]).map view =
    some ⟨.exited .disconnected, true, true, 1, [.ok], 0, 0⟩ := by decide
/-- request errors: failing handler, malformed header -/
example : (run (init [rFail]) [.dEnter, .pWrite 20, .dRead 20, .dRead 8, .dHandle]).isSome = false := by decide
example : (run (init [rFail]) [.dEnter, .pWrite 20, .dRead 12, .dRead 8, .dHandle, .dFinal, .pRead]).map
    (fun s => (view s, peerRead s)) = some (⟨.exited .reqErr, false, true, 0, [], 0, 0⟩, .eof) := by decide
example : (run (init [rBad]) [.dEnter, .pWrite 12, .dRead 12, .dFinal]).map view =
    some ⟨.exited .invalidMsg, false, true, 0, [], 0, 0⟩ := by decide
/-- dropping the daemon shuts the connection down; the detached thread ends -/
example : (run (init [rGet]) [.dEnter, .drop, .dEof, .dFinal]).map view =
    some ⟨.exited .disconnected, false, true, 0, [], 0, 0⟩ := by decide

/-- teardown with two workers: `serve()` returns, then the handler is dropped -/
def exTd : List TD.Lbl :=
  [.svReturn (.err .disconnected), .svSignal, .wkExit 0, .svSignal, .svSignal, .hBegin, .hSignal, .hSignal, .hSignal,
   .hJoin, .wkExit 1, .hJoin, .hJoin]

example : (TD.run ⟨2, true⟩ (TD.init true) exTd).map (fun t => (t.h, t.sv, t.gone 0, t.gone 1, t.evt 0, t.evt 1)) =
    some (.dropped, .done (.err .disconnected) .ok, true, true, true, true) := by decide
/-- `join` of a worker that has not returned blocks -/
example : (TD.run ⟨2, true⟩ (TD.init false) [.hBegin, .hSignal, .hSignal, .hSignal, .hJoin]).isSome = false := by decide

/-! ## the flag/socket order matters: the variant with the two steps of a shutdown request swapped

`shutdown()` = `conn.shutdown(Both)` first, flag afterwards.  Then a `wait()` that runs between the two steps
sees the thread's error with the flag still clear. -/

def stepSwapped (s : St) : Lbl → Option St
  | .cStore i =>   -- first step: socket shutdown
    if s.callers i = .idle then some { s with callers := upd s.callers i .stored, shut := true } else none
  | .cShut i =>    -- second step: flag
    if s.callers i = .stored then
      some { s with callers := upd s.callers i .idle, flag := true, completed := s.completed + 1 }
    else none
  | l => step s l

def runSwapped : St → List Lbl → Option St
  | s, [] => some s
  | s, l :: ls =>
    match stepSwapped s l with
    | none => none
    | some s' => runSwapped s' ls

/-- In the swapped variant the conclusion of `shutdown_then_wait_ok` fails for a `wait()` that overlaps the
request (and the faithful model returns `Ok` on the same schedule). -/
theorem swapped_variant_reports_error :
    (runSwapped (init [rGet]) [.dEnter, .cStore 0, .dEof, .dFinal, .wJoin, .wClassify, .cShut 0]).map (·.results) =
      some [.err .disconnected] ∧
    (run (init [rGet]) [.dEnter, .cStore 0, .pClose, .dEof, .dFinal, .wJoin, .wClassify, .cShut 0]).map (·.results) =
      some [.ok] := by decide

/-! ## the final socket shutdown matters: the variant that leaves it out on the error path -/

def stepNoFinal (s : St) : Lbl → Option St
  | .dFinal =>
    match s.d with
    | .fin e => some { s with d := .exited e }     -- `result` returned without `conn.shutdown(Both)`
    | _ => none
  | l => step s l

def runNoFinal : St → List Lbl → Option St
  | s, [] => some s
  | s, l :: ls =>
    match stepNoFinal s l with
    | none => none
    | some s' => runNoFinal s' ls

/-- Without the final shutdown a request error ends the thread while the connection stays open (a shutdown
handle or the daemon object still holds the socket): the peer's read would block instead of returning
end-of-stream; the faithful model delivers end-of-stream on the same schedule. -/
theorem no_final_shutdown_variant_blocks_peer :
    (runNoFinal (init [rBad]) [.dEnter, .pWrite 12, .dRead 12, .dFinal]).map (fun s => (s.d, peerRead s)) =
      some (.exited .invalidMsg, .wouldBlock) ∧
    (run (init [rBad]) [.dEnter, .pWrite 12, .dRead 12, .dFinal]).map (fun s => (s.d, peerRead s)) =
      some (.exited .invalidMsg, .eof) := by decide

end Props.C16
