import VhostModel.Lemmas.ReachSrvVar
import VhostModel.Lemmas.RequestInv
import VhostModel.Lemmas.Wire
import VhostModel.Props.C08
import VhostModel.Props.C02
/-!
# C02 — composition of the two endpoint models: an accepted API call reaches the handler exactly once, with the caller's arguments

Over `Model.Frontend.request` (tied to `frontend.rs` by the `fe` family) composed with `Model.BackendSrv.dispatch` /
`step` (tied to `backend_req_handler.rs` by the `srv` family).  Proved for **all** states, argument values, handler
scripts and — on the wire — all choosers (segmentations / arrival timings):

* `call_reaches_handler` — `request s op = .ok (req, s')`, `ArgsInRange op`, `ServerAccepts bst s req` ⟹
  `∃ c, callOf op = some c ∧ (dispatch bst (reqHdr s req) req.body files h).calls = [c]`: exactly one handler
  invocation, with the caller's operation (mapped to the handler's method name), numeric arguments, payload bytes and
  descriptor tokens; for every operation of `Model.Frontend.request` (34 names, 35 accepting branches).  The core is
  decode ∘ encode = id per message struct through the GENERATED layout (`Lemmas.Encode`), per request through the
  dispatch arm (`Lemmas.ReachSrv`, `Lemmas.ReachSrvVar`: `set_mem_table` by induction over the region list).
* `step_is_dispatch`, `call_reaches_handler_stream` — the same for `step` fed with `segCells (wire s req) req.fds`
  (one `sendmsg`), for every chooser, through `Props.C08.step_framed`; the message is consumed entirely.
* `session_calls` — by induction over a session of accepted operations the handler log is
  `ops.filterMap callOf`, in order.

Hypotheses (both decidable):
* `ArgsInRange op`: each numeric argument fits the type the API declares (`u64`/`u32`/`u16`/`bool`/16-byte UUID; the
  model's arguments are unbounded `Nat`s), and `get_config`'s buffer has the requested size (DESIGN.md, C02 limits).
* `ServerAccepts bst s req` (depends on the frontend state only through the header flags): the request code is one the
  server implements; the protocol-feature bit of `Spec.Proto.gate req.code` is acknowledged in `bst.ackedProto` (bit 30
  of `bst.acked` for ring enable); `reqFlags s` has no REPLY bit; `req.fds` has exactly
  `Spec.Proto.filesPrescribed req.code req.body` entries; and — only where the server runs a non-trivial generated
  validator that the API call does not run itself — that validator accepts the body (`bodyOk`: ring addresses,
  GET_INFLIGHT_FD, ADD/REM_MEM_REG, device-state transfer, log region, the regions of a memory table).  The validators
  for GET/SET_CONFIG, GET_SHARED_OBJECT, SET_INFLIGHT_FD and the memory-table header are *derived* from the API's own
  checks.

**Findings** (the statement is false of the models for these API calls; proved as theorems below):
* `set_log_fd_counterexample` — `set_log_fd(fd)` is accepted and writes SET_LOG_FD with the descriptor; the request
  server has no arm for it: the handler is never invoked (any server state, any chooser).
* `set_log_base_plain_counterexample` — `set_log_base(base, None)` (or a region without LOG_SHMFD on the frontend)
  writes the 8-byte base without descriptor; this server refuses every such request: handler never invoked.
* `set_log_base_base_not_transmitted` — with a region, the `base` argument does not reach the wire at all
  (`callOf` therefore lists `[mmap_size, mmap_offset]` and the descriptor only, as the handler's signature does).
-/
namespace Props.C02Reach
open Base Model.Stream Model.Msgs Model.Frontend Lemmas.Encode Lemmas.Reach Lemmas.ReachSrv Lemmas.RequestInv
open Model.BackendSrv (BSt HOut Call Hdr Arm Ctx dispatch step bitSet bodyValid regionsOf arms runGuards runGuard runAct argsOf)

/-! ## what the handler is to be invoked with, from the caller's point of view -/

def callOf (op : Op) : Option Call :=
  match op.name, op.a with
  | "get_features", _ => some ⟨"get_features", [], [], []⟩
  | "set_features", [v] => some ⟨"set_features", [v], [], []⟩
  | "set_owner", _ => some ⟨"set_owner", [], [], []⟩
  | "reset_owner", _ => some ⟨"reset_owner", [], [], []⟩
  | "set_mem_table", _ => some ⟨"set_mem_table", op.regions.flatMap regionArgs, [], op.fds⟩
  | "set_log_base", [base] => some ⟨"set_log_base", [base], [], []⟩
  | "set_log_base", [_, size, off] => some ⟨"set_log_base", [size, off], [], op.fds⟩
  | "set_log_fd", _ => some ⟨"set_log_fd", [], [], op.fds⟩
  | "set_vring_num", [i, n] => some ⟨"set_vring_num", [i, n], [], []⟩
  | "set_vring_addr", [i, fl, d, u, a, lg] => some ⟨"set_vring_addr", [i, fl, d, u, a, lg], [], []⟩
  | "set_vring_base", [i, b] => some ⟨"set_vring_base", [i, b], [], []⟩
  | "get_vring_base", [i] => some ⟨"get_vring_base", [i], [], []⟩
  | "set_vring_call", [i] => some ⟨"set_vring_call", [i], [], op.fds⟩
  | "set_vring_kick", [i] => some ⟨"set_vring_kick", [i], [], op.fds⟩
  | "set_vring_err", [i] => some ⟨"set_vring_err", [i], [], op.fds⟩
  | "get_protocol_features", _ => some ⟨"get_protocol_features", [], [], []⟩
  | "set_protocol_features", [v] => some ⟨"set_protocol_features", [v], [], []⟩
  | "get_queue_num", _ => some ⟨"get_queue_num", [], [], []⟩
  | "reset_device", _ => some ⟨"reset_device", [], [], []⟩
  | "set_vring_enable", [i, e] => some ⟨"set_vring_enable", [i, e], [], []⟩
  | "get_config", [off, size, fl, _] => some ⟨"get_config", [off, size, fl], [], []⟩
  | "set_config", [off, fl] => some ⟨"set_config", [off, fl], op.payload, []⟩
  | "set_backend_req_fd", _ => some ⟨"set_backend_req_fd", [], [], op.fds⟩
  | "get_shared_object", [u] => some ⟨"get_shared_object", [u], [], []⟩
  | "get_inflight_fd", [ms, mo, nq, qs] => some ⟨"get_inflight_fd", [ms, mo, nq, qs], [], []⟩
  | "set_inflight_fd", [ms, mo, nq, qs] => some ⟨"set_inflight_fd", [ms, mo, nq, qs], [], op.fds⟩
  | "get_max_mem_slots", _ => some ⟨"get_max_mem_slots", [], [], []⟩
  | "add_mem_region", [g, sz, u, o] => some ⟨"add_mem_region", [g, sz, u, o], [], op.fds⟩
  | "remove_mem_region", [g, sz, u, o] => some ⟨"remove_mem_region", [g, sz, u, o], [], []⟩
  | "get_shmem_config", _ => some ⟨"get_shmem_config", [], [], []⟩
  | "set_device_state_fd", [d, p] => some ⟨"set_device_state_fd", [d, p], [], op.fds⟩
  | "check_device_state", _ => some ⟨"check_device_state", [], [], []⟩
  | "postcopy_advise", _ => some ⟨"postcopy_advice", [], [], []⟩
  | "postcopy_listen", _ => some ⟨"postcopy_listen", [], [], []⟩
  | "postcopy_end", _ => some ⟨"postcopy_end", [], [], []⟩
  | _, _ => none

/-- every numeric argument fits the type the API declares for it (`u64`, `u32`, `u16`, `bool`, 16-byte UUID), and the
buffer handed to `get_config` has the requested size -/
def argsInRange (op : Op) : Bool :=
  match op.name, op.a with
  | "set_features", [v] => decide (v < 2^64)
  | "set_protocol_features", [v] => decide (v < 2^64)
  | "set_mem_table", _ => op.regions.all regionInRange
  | "set_log_base", [base] => decide (base < 2^64)
  | "set_log_base", [base, size, off] => decide (base < 2^64) && decide (size < 2^64) && decide (off < 2^64)
  | "set_vring_num", [i, n] => decide (i < 2^32) && decide (n < 2^32)
  | "set_vring_addr", [i, fl, d, u, a, lg] =>
    decide (i < 2^32) && decide (fl < 2^32) && decide (d < 2^64) && decide (u < 2^64) && decide (a < 2^64) && decide (lg < 2^64)
  | "set_vring_base", [i, b] => decide (i < 2^32) && decide (b < 2^32)
  | "get_vring_base", [i] => decide (i < 2^32)
  | "set_vring_enable", [i, e] => decide (i < 2^32) && decide (e ≤ 1)
  | "get_config", [off, size, fl, _] =>
    decide (off < 2^32) && decide (size < 2^32) && decide (fl < 2^32) && op.payload.length == size
  | "set_config", [off, fl] => decide (off < 2^32) && decide (fl < 2^32)
  | "get_shared_object", [u] => decide (u < 2^128)
  | "get_inflight_fd", [ms, mo, nq, qs] => decide (ms < 2^64) && decide (mo < 2^64) && decide (nq < 2^16) && decide (qs < 2^16)
  | "set_inflight_fd", [ms, mo, nq, qs] => decide (ms < 2^64) && decide (mo < 2^64) && decide (nq < 2^16) && decide (qs < 2^16)
  | "add_mem_region", [g, sz, u, o] => decide (g < 2^64) && decide (sz < 2^64) && decide (u < 2^64) && decide (o < 2^64)
  | "remove_mem_region", [g, sz, u, o] => decide (g < 2^64) && decide (sz < 2^64) && decide (u < 2^64) && decide (o < 2^64)
  | "set_device_state_fd", [d, p] => decide (d < 2^32) && decide (p < 2^32)
  | _, _ => true

def ArgsInRange (op : Op) : Prop := argsInRange op = true
instance (op : Op) : Decidable (ArgsInRange op) := inferInstanceAs (Decidable (_ = true))

/-- request types whose body the server runs a non-trivial generated validator on, and the frontend does not -/
def validatedTy : Nat → Option String
  | 9 => some "VhostUserVringAddr"
  | 31 => some "VhostUserInflight"
  | 37 | 38 => some "VhostUserSingleMemoryRegion"
  | 42 => some "VhostUserTransferDeviceState"
  | 6 => some "VhostUserLog"
  | _ => none

def bodyOk (code : Nat) (body : Bytes) : Bool :=
  match code with
  | 5 => (regionsOf body (Model.BackendSrv.g body "VhostUserMemory" ["num_regions"]) 8).all
           (fun r => bodyValid "VhostUserMemoryRegion" r == some true)
  | c => match validatedTy c with
    | some ty => bodyValid ty body == some true
    | none => true

def serverAccepts (bst : BSt) (s : FSt) (req : Req) : Bool :=
  Spec.Proto.implemented.contains req.code &&
  (match Spec.Proto.gate req.code with | some b => bitSet bst.ackedProto b | none => true) &&
  (req.code != 18 || bitSet bst.acked 30) &&
  !bitSet (reqFlags s) 2 &&
  req.fds.length == Spec.Proto.filesPrescribed req.code req.body &&
  bodyOk req.code req.body

def ServerAccepts (bst : BSt) (s : FSt) (req : Req) : Prop := serverAccepts bst s req = true
instance (bst : BSt) (s : FSt) (req : Req) : Decidable (ServerAccepts bst s req) := inferInstanceAs (Decidable (_ = true))

theorem files_one {fds : List Fd} (h : fds.length = 1) : ∃ f, fds = [f] := by
  match fds, h with
  | [f], _ => exact ⟨f, rfl⟩

theorem serverAccepts_parts {bst : BSt} {s : FSt} {req : Req} (h : ServerAccepts bst s req) :
    Spec.Proto.implemented.contains req.code = true ∧
    (match Spec.Proto.gate req.code with | some b => bitSet bst.ackedProto b | none => true) = true ∧
    (req.code != 18 || bitSet bst.acked 30) = true ∧
    bitSet (reqFlags s) 2 = false ∧
    req.fds.length = Spec.Proto.filesPrescribed req.code req.body ∧
    bodyOk req.code req.body = true := by
  simp only [ServerAccepts, serverAccepts, Bool.and_eq_true, Bool.not_eq_true', beq_iff_eq] at h
  obtain ⟨⟨⟨⟨⟨h1, h2⟩, h3⟩, h4⟩, h5⟩, h6⟩ := h
  exact ⟨h1, h2, h3, h4, h5, h6⟩

/-! ### small facts used by the case analysis -/

theorem config_valid_of {off sz fl : Nat} (h : configValid off sz fl = true) :
    bodyValid "VhostUserConfig" (u32 off ++ u32 sz ++ u32 fl) = some true := by
  unfold configValid at h
  simp only [bodyValid]
  cases hd : decConfig (u32 off ++ u32 sz ++ u32 fl) with
  | none => rw [hd] at h; simp at h
  | some m => rw [hd] at h; exact congrArg some h

theorem uuid_valid_of {u : Nat} (h : uuidValid u = true) : bodyValid "VhostUserSharedMsg" (leBytes 16 u) = some true := by
  unfold uuidValid at h
  simp only [bodyValid]
  cases hd : decShared (leBytes 16 u) with
  | none => rw [hd] at h; simp at h
  | some m => rw [hd] at h; exact congrArg some h

theorem fld_U64 (i : Nat) (hi : i < 2^64) : Spec.Proto.fld (u64 i) "VhostUserU64" ["value"] = i := by
  have := dec_U64 [] i hi
  simp only [List.append_nil] at this
  exact spec_fld _ _ _ _ (by decide) this

theorem files_ring (i : Nat) (hi : i ≤ 0xff) :
    (if (Spec.Proto.fld (u64 i) "VhostUserU64" ["value"]).testBit 8 then 0 else 1) = 1 := by
  rw [fld_U64 i (by omega), Nat.testBit_lt_two_pow (by omega)]; rfl

theorem fld_nregions (n : Nat) (hn : n < 2^32) (rest : Bytes) :
    Spec.Proto.fld (u32 n ++ u32 0 ++ rest) "VhostUserMemory" ["num_regions"] = n :=
  spec_fld _ _ _ _ (by decide) (dec_Memory rest n 0 hn (by omega)).1

theorem g_nregions (n : Nat) (hn : n < 2^32) (rest : Bytes) :
    Model.BackendSrv.g (u32 n ++ u32 0 ++ rest) "VhostUserMemory" ["num_regions"] = n :=
  srv_g _ _ _ _ (dec_Memory rest n 0 hn (by omega)).1

/-! ## the composition theorem -/

/-- **call_reaches_handler**: an API call the frontend accepts, whose arguments fit their wire fields and whose
request the server does not refuse, makes the server invoke the handler exactly once — with the caller's operation,
argument values, payload bytes and descriptors. -/
theorem call_reaches_handler (s : FSt) (bst : BSt) (op : Op) (req : Req) (s' : FSt) (h : HOut)
    (hreq : request s op = .ok (req, s')) (hb : ArgsInRange op) (hsrv : ServerAccepts bst s req) :
    ∃ c, callOf op = some c ∧
      (dispatch bst (reqHdr s req) req.body (if req.fds.isEmpty then none else some req.fds) h).calls = [c] := by
  have hB := request_built s op req s' hreq
  obtain ⟨himpl, hgate, h18, hfl, hfds, hbody⟩ := serverAccepts_parts hsrv
  cases hB with
  | get_features a pl fds bad regs => exact ⟨_, rfl, srv_get_features bst _ h hfl⟩
  | set_features v pl fds bad regs =>
    change decide (v < 2^64) = true at hb
    exact ⟨_, rfl, srv_set_features bst _ h hfl v (of_decide_eq_true hb)⟩
  | set_owner a pl fds bad regs => exact ⟨_, rfl, srv_set_owner bst _ h hfl⟩
  | reset_owner a pl fds bad regs => exact ⟨_, rfl, srv_reset_owner bst _ h hfl⟩
  | set_mem_table a pl fds bad regs h1 h32 =>
    change regs.all regionInRange = true at hb
    have hn : fds.length = regs.length := by
      rw [hfds]; exact fld_nregions regs.length (by omega) _
    have hv : (regs.map regionBytes).all (fun r => bodyValid "VhostUserMemoryRegion" r == some true) = true := by
      have := hbody
      simp only [bodyOk, g_nregions regs.length (by omega), regionsOf_enc regs (u32 regs.length ++ u32 0) 8 (by simp [u32])] at this
      exact this
    have hne : fds.isEmpty = false := by
      cases fds with
      | nil => simp at hn; omega
      | cons f fs => rfl
    refine ⟨_, rfl, ?_⟩
    simp only [hne, Bool.false_eq_true, if_false]
    exact srv_set_mem_table bst _ h hfl regs fds h1 h32 hb hn hv
  | set_log_base_plain base pl fds bad regs => exact absurd (show (0 : Nat) = 1 from hfds) (by decide)
  | set_log_base_region base size off pl fds bad regs hp =>
    change (decide (base < 2^64) && decide (size < 2^64) && decide (off < 2^64)) = true at hb
    simp only [Bool.and_eq_true, decide_eq_true_eq] at hb
    obtain ⟨f, rfl⟩ := files_one hfds
    exact ⟨_, rfl, srv_set_log_base bst _ h hfl size off f hb.1.2 hb.2 hgate (eq_of_beq hbody)⟩
  | set_log_base_noshm base size off pl fds bad regs hp => exact absurd (show (0 : Nat) = 1 from hfds) (by decide)
  | set_log_fd a pl fds bad regs => exact absurd (show false = true from himpl) (by decide)
  | set_vring_num i n pl fds bad regs hq =>
    change (decide (i < 2^32) && decide (n < 2^32)) = true at hb
    simp only [Bool.and_eq_true, decide_eq_true_eq] at hb
    exact ⟨_, rfl, srv_set_vring_num bst _ h hfl i n hb.1 hb.2⟩
  | set_vring_addr i fg d u a lg pl fds bad regs hq =>
    change (decide (i < 2^32) && decide (fg < 2^32) && decide (d < 2^64) && decide (u < 2^64) && decide (a < 2^64) &&
      decide (lg < 2^64)) = true at hb
    simp only [Bool.and_eq_true, decide_eq_true_eq] at hb
    obtain ⟨⟨⟨⟨⟨b1, b2⟩, b3⟩, b4⟩, b5⟩, b6⟩ := hb
    exact ⟨_, rfl, srv_set_vring_addr bst _ h hfl i fg d u a lg b1 b2 b3 b4 b5 b6 (eq_of_beq hbody)⟩
  | set_vring_base i n pl fds bad regs hq =>
    change (decide (i < 2^32) && decide (n < 2^32)) = true at hb
    simp only [Bool.and_eq_true, decide_eq_true_eq] at hb
    exact ⟨_, rfl, srv_set_vring_base bst _ h hfl i n hb.1 hb.2⟩
  | get_vring_base i pl fds bad regs hq =>
    change decide (i < 2^32) = true at hb
    exact ⟨_, rfl, srv_get_vring_base bst _ h hfl i (of_decide_eq_true hb)⟩
  | set_vring_call i pl fds bad regs hq h8 =>
    obtain ⟨f, rfl⟩ := files_one (hfds.trans (files_ring i h8))
    exact ⟨_, rfl, srv_set_vring_call bst _ h hfl i f (by omega)⟩
  | set_vring_kick i pl fds bad regs hq h8 =>
    obtain ⟨f, rfl⟩ := files_one (hfds.trans (files_ring i h8))
    exact ⟨_, rfl, srv_set_vring_kick bst _ h hfl i f (by omega)⟩
  | set_vring_err i pl fds bad regs hq h8 =>
    obtain ⟨f, rfl⟩ := files_one (hfds.trans (files_ring i h8))
    exact ⟨_, rfl, srv_set_vring_err bst _ h hfl i f (by omega)⟩
  | get_protocol_features a pl fds bad regs => exact ⟨_, rfl, srv_get_protocol_features bst _ h hfl⟩
  | set_protocol_features v pl fds bad regs =>
    change decide (v < 2^64) = true at hb
    exact ⟨_, rfl, srv_set_protocol_features bst _ h hfl v (of_decide_eq_true hb)⟩
  | get_queue_num a pl fds bad regs => exact ⟨_, rfl, srv_get_queue_num bst _ h hfl hgate⟩
  | reset_device a pl fds bad regs => exact ⟨_, rfl, srv_reset_device bst _ h hfl hgate⟩
  | set_vring_enable i e pl fds bad regs hq =>
    change (decide (i < 2^32) && decide (e ≤ 1)) = true at hb
    simp only [Bool.and_eq_true, decide_eq_true_eq] at hb
    exact ⟨_, rfl, srv_set_vring_enable bst _ h hfl i e hb.1 hb.2 h18⟩
  | get_config off size cf x pl fds bad regs hv hmax =>
    change (decide (off < 2^32) && decide (size < 2^32) && decide (cf < 2^32) && pl.length == size) = true at hb
    simp only [Bool.and_eq_true, decide_eq_true_eq, beq_iff_eq] at hb
    obtain ⟨⟨⟨b1, b2⟩, b3⟩, b4⟩ := hb
    exact ⟨_, rfl, srv_get_config bst _ h hfl off size cf pl b1 b2 b3 b4 hmax hgate (config_valid_of hv)⟩
  | set_config off cf pl fds bad regs hv hmax =>
    change (decide (off < 2^32) && decide (cf < 2^32)) = true at hb
    simp only [Bool.and_eq_true, decide_eq_true_eq] at hb
    exact ⟨_, rfl, srv_set_config bst _ h hfl off cf pl hb.1 hb.2 hmax hgate (config_valid_of hv)⟩
  | set_backend_req_fd a pl fds bad regs =>
    obtain ⟨f, rfl⟩ := files_one hfds
    exact ⟨_, rfl, srv_set_backend_req_fd bst _ h hfl f hgate⟩
  | get_shared_object u pl fds bad regs hv =>
    change decide (u < 2^128) = true at hb
    exact ⟨_, rfl, srv_get_shared_object bst _ h hfl u (of_decide_eq_true hb) hgate (uuid_valid_of hv)⟩
  | get_inflight_fd ms mo nq qs pl fds bad regs =>
    change (decide (ms < 2^64) && decide (mo < 2^64) && decide (nq < 2^16) && decide (qs < 2^16)) = true at hb
    simp only [Bool.and_eq_true, decide_eq_true_eq] at hb
    obtain ⟨⟨⟨b1, b2⟩, b3⟩, b4⟩ := hb
    exact ⟨_, rfl, srv_get_inflight_fd bst _ h hfl ms mo nq qs b1 b2 b3 b4 hgate (eq_of_beq hbody)⟩
  | set_inflight_fd ms mo nq qs pl fds bad regs hnq hqs =>
    change (decide (ms < 2^64) && decide (mo < 2^64) && decide (nq < 2^16) && decide (qs < 2^16)) = true at hb
    simp only [Bool.and_eq_true, decide_eq_true_eq] at hb
    obtain ⟨⟨⟨b1, b2⟩, b3⟩, b4⟩ := hb
    obtain ⟨f, rfl⟩ := files_one hfds
    exact ⟨_, rfl, srv_set_inflight_fd bst _ h hfl ms mo nq qs f b1 b2 b3 b4 hgate (bodyValid_Inflight ms mo nq qs b1 b2 b3 b4 hnq hqs)⟩
  | get_max_mem_slots a pl fds bad regs => exact ⟨_, rfl, srv_get_max_mem_slots bst _ h hfl hgate⟩
  | add_mem_region gp sz ua mo pl fds bad regs =>
    change (decide (gp < 2^64) && decide (sz < 2^64) && decide (ua < 2^64) && decide (mo < 2^64)) = true at hb
    simp only [Bool.and_eq_true, decide_eq_true_eq] at hb
    obtain ⟨⟨⟨b1, b2⟩, b3⟩, b4⟩ := hb
    obtain ⟨f, rfl⟩ := files_one hfds
    exact ⟨_, rfl, srv_add_mem_region bst _ h hfl gp sz ua mo f b1 b2 b3 b4 hgate (eq_of_beq hbody)⟩
  | remove_mem_region gp sz ua mo pl fds bad regs =>
    change (decide (gp < 2^64) && decide (sz < 2^64) && decide (ua < 2^64) && decide (mo < 2^64)) = true at hb
    simp only [Bool.and_eq_true, decide_eq_true_eq] at hb
    obtain ⟨⟨⟨b1, b2⟩, b3⟩, b4⟩ := hb
    exact ⟨_, rfl, srv_remove_mem_region bst _ h hfl gp sz ua mo b1 b2 b3 b4 hgate (eq_of_beq hbody)⟩
  | get_shmem_config a pl fds bad regs => exact ⟨_, rfl, srv_get_shmem_config bst _ h hgate⟩
  | set_device_state_fd d p pl fds bad regs =>
    change (decide (d < 2^32) && decide (p < 2^32)) = true at hb
    simp only [Bool.and_eq_true, decide_eq_true_eq] at hb
    obtain ⟨f, rfl⟩ := files_one hfds
    exact ⟨_, rfl, srv_set_device_state_fd bst _ h hfl d p f hb.1 hb.2 (eq_of_beq hbody)⟩
  | check_device_state a pl fds bad regs => exact ⟨_, rfl, srv_check_device_state bst _ h⟩
  | postcopy_advise a pl fds bad regs => exact ⟨_, rfl, srv_postcopy_advise bst _ h hgate⟩
  | postcopy_listen a pl fds bad regs => exact ⟨_, rfl, srv_postcopy_listen bst _ h hgate⟩
  | postcopy_end a pl fds bad regs => exact ⟨_, rfl, srv_postcopy_end bst _ h hgate⟩

/-! ## stream level: for every chooser -/

open Lemmas.Wire in
/-- what `request` builds is a well-formed message: known code, body within the size limit, descriptors only on the
requests that may carry them -/
theorem built_wire_facts {s : FSt} {op : Op} {req : Req} (hB : Built s op req) :
    codeOkN codes req.code = true ∧ req.code < 2^32 ∧ req.body.length ≤ 0x1000 ∧
    (req.fds.isEmpty = false → Model.BackendSrv.fdCodes.contains req.code = true) := by
  cases hB
  all_goals dsimp only
  all_goals refine ⟨by decide, by decide, ?_, ?_⟩
  all_goals first
    | (intro _; decide)
    | (intro hh; cases hh)
    | (simp only [u32, u64, u16, List.length_append, leBytes_length, flatMap_regionBytes_length, List.length_cons,
        List.length_nil]; omega)

theorem built_fds_le {s : FSt} {op : Op} {req : Req} (hB : Built s op req)
    (hfds : req.fds.length = Spec.Proto.filesPrescribed req.code req.body) : req.fds.length ≤ 32 := by
  cases hB
  case set_mem_table a pl fds bad regs h1 h32 =>
    rw [hfds]; show Spec.Proto.fld _ _ _ ≤ 32
    rw [fld_nregions regs.length (by omega)]; exact h32
  case set_vring_call i pl fds bad regs hq h8 => rw [hfds.trans (files_ring i h8)]; decide
  case set_vring_kick i pl fds bad regs hq h8 => rw [hfds.trans (files_ring i h8)]; decide
  case set_vring_err i pl fds bad regs hq h8 => rw [hfds.trans (files_ring i h8)]; decide
  all_goals (rw [hfds]; first | exact (show (0 : Nat) ≤ 32 by decide) | exact (show (1 : Nat) ≤ 32 by decide))

theorem reqFlags_cases (s : FSt) (hfl : bitSet (reqFlags s) 2 = false) : reqFlags s = 1 ∨ reqFlags s = 9 := by
  obtain ⟨h1, h2⟩ := Props.C02.request_flags s
  have : reqFlags s = 1 ∨ reqFlags s = 5 ∨ reqFlags s = 9 ∨ reqFlags s = 13 := by omega
  rcases this with e | e | e | e
  · exact Or.inl e
  · rw [e] at hfl; exact absurd hfl (by decide)
  · exact Or.inr e
  · rw [e] at hfl; exact absurd hfl (by decide)

/-- the descriptors of a request as the server's receive loop hands them over -/
def filesOf (req : Req) : Option (List Fd) := if req.fds.isEmpty then none else some req.fds

/-- **stream level**: the bytes `wire s req` written in one `sendmsg` with the descriptors `req.fds`, read by one
`handle_request` under *any* chooser (segmentation / arrival timing), open or closed stream: the turn is exactly
`dispatch` on the request (same calls, state, reply bytes, result), and it consumes the message entirely. -/
theorem step_is_dispatch {σ : Type} (ch : Chooser σ) (cl : Bool) (cst : σ)
    (s : FSt) (bst : BSt) (op : Op) (req : Req) (s' : FSt) (h : HOut)
    (hreq : request s op = .ok (req, s')) (hsrv : ServerAccepts bst s req) :
    let r := step ch cl bst cst (segCells (wire s req) req.fds) h
    let d := dispatch bst (reqHdr s req) req.body (filesOf req) h
    r.o.calls = d.calls ∧ r.o.st = d.st ∧ r.o.out = d.out ∧ r.o.res = d.res ∧ r.rest = [] := by
  have hB := request_built s op req s' hreq
  obtain ⟨_, _, _, hfl, hfds, _⟩ := serverAccepts_parts hsrv
  obtain ⟨w1, w2, w3, w4⟩ := built_wire_facts hB
  exact Lemmas.Wire.step_segCells ch cl bst cst h req.code (reqFlags s) req.body req.fds w1 w2 (reqFlags_cases s hfl) w3
    (built_fds_le hB hfds) w4

/-- **call_reaches_handler, on the wire**: for every chooser, the server turn fed with the cells of the request
invokes the handler exactly once, with `callOf op`, and nothing of the message is left on the stream. -/
theorem call_reaches_handler_stream {σ : Type} (ch : Chooser σ) (cl : Bool) (cst : σ)
    (s : FSt) (bst : BSt) (op : Op) (req : Req) (s' : FSt) (h : HOut)
    (hreq : request s op = .ok (req, s')) (hb : ArgsInRange op) (hsrv : ServerAccepts bst s req) :
    ∃ c, callOf op = some c ∧
      (step ch cl bst cst (segCells (wire s req) req.fds) h).o.calls = [c] ∧
      (step ch cl bst cst (segCells (wire s req) req.fds) h).rest = [] := by
  obtain ⟨c, hc, hd⟩ := call_reaches_handler s bst op req s' h hreq hb hsrv
  obtain ⟨e1, _, _, _, e5⟩ := step_is_dispatch ch cl cst s bst op req s' h hreq hsrv
  exact ⟨c, hc, e1.trans hd, e5⟩

/-! ## sessions -/

/-- one API call of a session: the frontend's state when the call is made, the operation, and the scripted outcome of
the application's handler for it.  (The frontend state of each turn is arbitrary: whatever the replies of earlier turns
made of it.) -/
structure Turn where
  s : FSt
  op : Op
  h : HOut

/-- the server side of a session: every accepted call's request is written in one `sendmsg` and read by one
`handle_request`; locally refused calls write nothing.  Returns the handler log. -/
def serve {σ : Type} (ch : Chooser σ) (cl : Bool) : BSt → σ → List Turn → List Call
  | _, _, [] => []
  | bst, cst, t :: ts =>
    match request t.s t.op with
    | .error _ => serve ch cl bst cst ts
    | .ok (req, _) =>
      let r := step ch cl bst cst (segCells (wire t.s req) req.fds) t.h
      r.o.calls ++ serve ch cl r.o.st r.cst ts

/-- every call of the session is accepted by the API, has in-range arguments and is not refused by the server in the
state the server has reached by then -/
def SessionOk : BSt → List Turn → Prop
  | _, [] => True
  | bst, t :: ts =>
    ∃ req s', request t.s t.op = .ok (req, s') ∧ ArgsInRange t.op ∧ ServerAccepts bst t.s req ∧
      SessionOk (dispatch bst (reqHdr t.s req) req.body (filesOf req) t.h).st ts

/-- **session_calls**: over a session of accepted operations — for every chooser — the handler log is the list of
`callOf` of the operations, in order: one invocation per call, none other. -/
theorem session_calls {σ : Type} (ch : Chooser σ) (cl : Bool) : ∀ (ts : List Turn) (bst : BSt) (cst : σ),
    SessionOk bst ts → serve ch cl bst cst ts = ts.filterMap (fun t => callOf t.op) := by
  intro ts
  induction ts with
  | nil => intro _ _ _; rfl
  | cons t ts ih =>
    intro bst cst hok
    obtain ⟨req, s', hreq, hb, hsrv, hrest⟩ := hok
    obtain ⟨c, hc, hd⟩ := call_reaches_handler t.s bst t.op req s' t.h hreq hb hsrv
    obtain ⟨e1, e2, _, _, _⟩ := step_is_dispatch ch cl cst t.s bst t.op req s' t.h hreq hsrv
    simp only [serve, hreq, List.filterMap_cons, hc]
    rw [e1.trans hd, e2, ih _ _ hrest]
    rfl

/-! ## operations for which the statement is FALSE of the models (findings) -/

/-- **F-C02-logfd.** `set_log_fd(fd)` is accepted by the API in every state and writes SET_LOG_FD (code 7) with the
descriptor, but the request server has no arm for code 7 (and its handler interface no `set_log_fd`): whatever the
server state, header flags and handler script, the handler is **not** invoked — on the framed request, and on the
wire for every chooser.  `callOf` (the caller's expectation) is one `set_log_fd` call with that descriptor. -/
theorem set_log_fd_counterexample (s : FSt) (bst : BSt) (a : List Nat) (pl : Bytes) (fds : List Fd) (bad : Bool)
    (regs : Regions) (h : HOut) :
    request s ⟨"set_log_fd", a, pl, fds, bad, regs⟩ = .ok (⟨7, [], fds, .ack⟩, s) ∧
    callOf ⟨"set_log_fd", a, pl, fds, bad, regs⟩ = some ⟨"set_log_fd", [], [], fds⟩ ∧
    (dispatch bst (reqHdr s ⟨7, [], fds, .ack⟩) [] (filesOf ⟨7, [], fds, .ack⟩) h).calls = [] ∧
    (∀ {σ : Type} (ch : Chooser σ) (cl : Bool) (cst : σ), bitSet (reqFlags s) 2 = false → fds.length ≤ 32 →
      (step ch cl bst cst (segCells (wire s ⟨7, [], fds, .ack⟩) fds) h).o.calls = []) := by
  have hd : ∀ files, (dispatch bst (reqHdr s ⟨7, [], fds, .ack⟩) [] files h).calls = [] := fun files => by
    rw [Lemmas.BackendSrv.dispatch_unknown (by rfl)]
  refine ⟨rfl, rfl, hd _, ?_⟩
  intro σ ch cl cst hfl hle
  have := Lemmas.Wire.step_segCells ch cl bst cst h 7 (reqFlags s) [] fds (by decide) (by decide) (reqFlags_cases s hfl)
    (by decide) hle (fun _ => by decide)
  exact this.1.trans (hd _)

/-- **F-C02-logbase (1).** `set_log_base(base, None)` — and `set_log_base(base, Some(region))` while LOG_SHMFD is not
acknowledged on the frontend — is accepted by the API and writes SET_LOG_BASE with the 8-byte `base` and no descriptor.
This request server refuses every such request (it insists on LOG_SHMFD, exactly one descriptor and the 16-byte log
descriptor): the handler is **never** invoked, in any server state. -/
theorem set_log_base_plain_counterexample (s : FSt) (bst : BSt) (base : Nat) (pl : Bytes) (fds : List Fd) (bad : Bool)
    (regs : Regions) (h : HOut) :
    request s ⟨"set_log_base", [base], pl, fds, bad, regs⟩ = .ok (⟨6, u64 base, [], .noWait⟩, s) ∧
    (dispatch bst (reqHdr s ⟨6, u64 base, [], .noWait⟩) (u64 base) (filesOf ⟨6, u64 base, [], .noWait⟩) h).calls = [] := by
  refine ⟨rfl, ?_⟩
  show (dispatch bst ⟨6, reqFlags s, (u64 base).length⟩ (u64 base) none h).calls = []
  rw [dispatch_unfold 6 [.proto 1, .oneFile .incorrectFds, .body "VhostUserLog"] .setLogBase rfl]
  cases hp : bitSet bst.ackedProto 1 with
  | false => simp [runGuards, runGuard, hp]
  | true => simp [runGuards, runGuard, hp, Model.BackendSrv.takeSingle]

/-- **F-C02-logbase (2).** With a region, the `base` argument is not transmitted at all (the wire message and the
handler's `set_log_base(log, file)` have no place for it): calls that differ only in `base` build the same request. -/
theorem set_log_base_base_not_transmitted (s : FSt) (base base' size off : Nat) (pl : Bytes) (fds : List Fd) (bad : Bool)
    (regs : Regions) :
    request s ⟨"set_log_base", [base, size, off], pl, fds, bad, regs⟩ =
    (if hasProto s 1 then .ok (⟨6, u64 size ++ u64 off, fds, .body "VhostUserLog"⟩, s)
     else .ok (⟨6, u64 base, [], .noWait⟩, s)) ∧
    (hasProto s 1 = true →
      request s ⟨"set_log_base", [base, size, off], pl, fds, bad, regs⟩ =
      request s ⟨"set_log_base", [base', size, off], pl, fds, bad, regs⟩) := by
  have e : ∀ b, request s ⟨"set_log_base", [b, size, off], pl, fds, bad, regs⟩ =
      (if hasProto s 1 then .ok (⟨6, u64 size ++ u64 off, fds, .body "VhostUserLog"⟩, s)
       else .ok (⟨6, u64 b, [], .noWait⟩, s)) := fun _ => rfl
  refine ⟨e base, fun hp => ?_⟩
  rw [e base, e base', if_pos hp, if_pos hp]

/-! ## non-vacuity -/

/-- ring size: accepted, in range, not refused by a fresh server -/
example : ∃ req s', request { maxQ := 2 } ⟨"set_vring_num", [1, 0x100], [], [], false, []⟩ = .ok (req, s') ∧
    ArgsInRange ⟨"set_vring_num", [1, 0x100], [], [], false, []⟩ ∧ ServerAccepts {} { maxQ := 2 } req :=
  ⟨_, _, rfl, by decide, by decide⟩

/-- a descriptor-carrying, gated request with a non-trivial validator -/
example : ∃ req s', request { ackedProto := 0x8000 } ⟨"add_mem_region", [0x1000, 0x2000, 0x7f0000, 0], [], [42], false, []⟩ =
      .ok (req, s') ∧
    ArgsInRange ⟨"add_mem_region", [0x1000, 0x2000, 0x7f0000, 0], [], [42], false, []⟩ ∧
    ServerAccepts { ackedProto := 0x8000 } { ackedProto := 0x8000 } req :=
  ⟨_, _, rfl, by decide, by decide⟩

/-- a memory table with two regions and two descriptors -/
example : ∃ req s', request {} ⟨"set_mem_table", [], [], [7, 8], false,
      [(0, 0x1000, 0x7000, 0, true), (0x1000, 0x1000, 0x9000, 0, true)]⟩ = .ok (req, s') ∧
    ArgsInRange ⟨"set_mem_table", [], [], [7, 8], false, [(0, 0x1000, 0x7000, 0, true), (0x1000, 0x1000, 0x9000, 0, true)]⟩ ∧
    ServerAccepts {} {} req :=
  ⟨_, _, rfl, by decide, by decide⟩

/-- what comes out for it -/
example : (dispatch {} (reqHdr {} ⟨5, u32 2 ++ u32 0 ++ [(0, 0x1000, 0x7000, 0, true), (0x1000, 0x1000, 0x9000, 0, true)].flatMap regionBytes,
      [7, 8], .ack⟩) (u32 2 ++ u32 0 ++ [(0, 0x1000, 0x7000, 0, true), (0x1000, 0x1000, 0x9000, 0, true)].flatMap regionBytes)
      (some [7, 8]) {}).calls = [⟨"set_mem_table", [0, 0x1000, 0x7000, 0, 0x1000, 0x1000, 0x9000, 0], [], [7, 8]⟩] := by
  decide

/-- a session: negotiate the protocol features, then use a gated operation -/
example : SessionOk { virtio := 0x40000000 }
    [⟨{ virtio := 0x40000000 }, ⟨"set_protocol_features", [0x8200], [], [], false, []⟩, {}⟩,
     ⟨{ virtio := 0x40000000, ackedProto := 0x8200 }, ⟨"get_config", [0, 4, 0, 4], [0, 0, 0, 0], [], false, []⟩, {}⟩,
     ⟨{ virtio := 0x40000000, ackedProto := 0x8200 }, ⟨"add_mem_region", [0x1000, 0x2000, 0x7f0000, 0], [], [42], false, []⟩, {}⟩] :=
  ⟨_, _, rfl, by decide, by decide, _, _, rfl, by decide, by decide, _, _, rfl, by decide, by decide, trivial⟩

end Props.C02Reach
