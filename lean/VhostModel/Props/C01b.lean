import VhostModel.Props.C06b
/-!
# C01 (second part) — headers and encodings on the backend→frontend channel and the GPU channel

Companion of `Props.C01`.  Over `Model.BackendProxy.request` (`backend_req.rs`, `send_message`), `Model.FrontendSrv.ackBytes`
(`frontend_req_handler.rs`, `send_ack_message`) and `Model.GpuProxy.request` (`gpu_backend_req.rs`), tied to the code by the
`proxy` (peer mode), `besrv` and `gpu` correspondence families, where every byte written is also compared with the Spec
encoders by the spec driver:
* `proxy_codes_match_generated`, `gpu_codes_match_generated` — the request codes the models use are the generated enum values;
* `proxy_request_header` — every request header of the proxy: version 1, REPLY clear, NEED_REPLY iff REPLY_ACK negotiated,
  no other bit; `proxy_wire_is_spec_encoding` — header ++ payload is byte for byte `Spec.BackendChannel.encodeReq`;
* `ack_header` — every acknowledgement of the frontend's server: request's code, flags 5 (version 1 | REPLY), size 8;
* `gpu_header_flags` — every GPU request header carries flags = 0 (no version bits, REPLY clear), which the Spec calls valid;
  `gpu_reply_detection_only_bit2` — a reply is recognised by bit 2 alone, and an accepted reply has flags exactly 4;
* `gpu_methods_match_spec` — the method table (code, payload struct, optional descriptor, reply type) is the Spec's;
  `gpu_wire_is_spec_encoding` — header ++ struct ++ pixel data is byte for byte `Spec.Gpu.encodeReq`.
-/
namespace Props.C01b
open Base Model.Stream Model.Msgs Model.RecvBody Lemmas.BackendChannel
open Model.BackendSrv (Err Hdr encHdr hdrNewFlags)
open Model.Frontend (parseHdr)

/-! ### request codes -/
theorem proxy_codes_match_generated :
    Gen.Codes.BackendReq.table.lookup "SHARED_OBJECT_ADD" = some Model.BackendProxy.Kind.add.code ∧
    Gen.Codes.BackendReq.table.lookup "SHARED_OBJECT_REMOVE" = some Model.BackendProxy.Kind.remove.code ∧
    Gen.Codes.BackendReq.table.lookup "SHARED_OBJECT_LOOKUP" = some Model.BackendProxy.Kind.lookup.code ∧
    Gen.Codes.BackendReq.table.lookup "SHMEM_MAP" = some Model.BackendProxy.Kind.map.code ∧
    Gen.Codes.BackendReq.table.lookup "SHMEM_UNMAP" = some Model.BackendProxy.Kind.unmap.code := by decide

/-- the frontend server's arms use the generated codes of CONFIG_CHANGE_MSG and the five requests -/
theorem server_codes_match_generated :
    Model.FrontendSrv.arms.map (·.code) =
      ["CONFIG_CHANGE_MSG", "SHARED_OBJECT_ADD", "SHARED_OBJECT_REMOVE", "SHARED_OBJECT_LOOKUP", "SHMEM_MAP", "SHMEM_UNMAP"].filterMap
        (Gen.Codes.BackendReq.table.lookup ·) := by decide

/-- GPU method ↦ generated `GpuBackendReq` value -/
theorem gpu_codes_match_generated :
    Model.GpuProxy.methods.map (fun m => (m.name, some m.code)) =
      [("get_protocol_features", "GET_PROTOCOL_FEATURES"), ("set_protocol_features", "SET_PROTOCOL_FEATURES"),
       ("get_display_info", "GET_DISPLAY_INFO"), ("get_edid", "GET_EDID"), ("set_scanout", "SCANOUT"), ("update_scanout", "UPDATE"),
       ("set_dmabuf_scanout", "DMABUF_SCANOUT"), ("set_dmabuf_scanout2", "DMABUF_SCANOUT2"), ("update_dmabuf_scanout", "DMABUF_UPDATE"),
       ("cursor_pos", "CURSOR_POS"), ("cursor_pos_hide", "CURSOR_POS_HIDE"), ("cursor_update", "CURSOR_UPDATE")].map
        (fun p => (p.1, Gen.Codes.GpuBackendReq.table.lookup p.2)) := by decide

/-! ### the backend→frontend proxy -/
section Proxy
open Model.BackendProxy

/-- request header flags: version 1, REPLY clear, NEED_REPLY iff REPLY_ACK negotiated, nothing else — the Spec's value -/
theorem proxy_request_header (st : PSt) :
    reqFlags st = Spec.BackendChannel.reqFlags st.replyAck ∧ reqFlags st % 4 = 1 ∧ reqFlags st < 16 ∧
    (reqFlags st).testBit 2 = false ∧ (reqFlags st).testBit 3 = st.replyAck := by
  cases h : st.replyAck <;> simp [reqFlags, h, Spec.BackendChannel.reqFlags] <;> decide

def specKind : Kind → Spec.BackendChannel.Kind
  | .add => .add | .remove => .remove | .lookup => .lookup | .map => .map | .unmap => .unmap

theorem specKind_code (k : Kind) : (specKind k).code = k.code ∧ (specKind k).carriesFd = k.hasFd := by cases k <;> exact ⟨rfl, rfl⟩

/-- what the proxy writes for a call whose argument struct holds the Spec encoding of `a` is byte for byte the Spec's
request: 12-byte header (code, flags, size) then the payload; the descriptor rides along exactly for lookup / map -/
theorem proxy_wire_is_spec_encoding (st : PSt) (c : Model.BackendProxy.Call) (req : Req) (a : Spec.BackendChannel.Arg)
    (h : request st c = .ok req) (hb : c.body = Spec.BackendChannel.encodeArg a) :
    wire req = Spec.BackendChannel.encodeReq st.replyAck (specKind c.kind) a ∧
    req.fds = (if (specKind c.kind).carriesFd then c.fds else []) := by
  unfold request at h
  split at h
  · simp at h
  · split at h
    · simp at h
    · split at h
      · simp at h
      · split at h
        · simp at h
        · split at h
          · simp at h
          · rename_i hl
            simp only [Except.ok.injEq] at h
            subst h
            simp at hl
            obtain ⟨e1, e2⟩ := specKind_code c.kind
            refine ⟨?_, by rw [e2]⟩
            simp only [wire, Spec.BackendChannel.encodeReq, encHdr, e1, (proxy_request_header st).1, ← hb, hl]

end Proxy

/-! ### acknowledgements of the frontend's server -/

/-- `send_ack_message`: request's code, flags = 5 (version 1, REPLY set, NEED_REPLY clear), size 8, 8 bytes of value -/
theorem ack_header (code v : Nat) (hc : code < 2^32) :
    parseHdr ((Model.FrontendSrv.ackBytes code v).take 12) = ⟨code, 5, 8⟩ ∧ (Model.FrontendSrv.ackBytes code v).length = 20 := by
  have e : hdrNewFlags 4 = 5 := by decide
  unfold Model.FrontendSrv.ackBytes
  rw [e]
  refine ⟨?_, by simp [encHdr]⟩
  rw [List.take_append_of_le_length (by simp [encHdr]), List.take_of_length_le (by simp [encHdr])]
  exact parseHdr_encHdr code 5 8 hc (by decide) (by decide)

/-! ### the GPU proxy -/
section Gpu
open Model.GpuProxy

/-- the method table is the specification's request table -/
theorem gpu_methods_match_spec :
    ∀ m ∈ methods, ∃ r ∈ Spec.Gpu.requests, r.name = m.name ∧ r.code = m.code ∧ r.body = m.bodyTy ∧ r.fd = m.fd ∧
      r.data = (m.send == .payload) ∧ (m.reply.ty.bind sizeOfTy) = (if r.reply == .none then none else some r.reply.size) := by
  decide

theorem gpu_methods_codes : ∀ m ∈ methods, m.code ∈ Spec.gpuCodes := by decide
theorem gpu_methods_header_iff : ∀ m ∈ methods, (m.send = .header ↔ m.bodyTy = none) := by decide

/-- shape of every request the GPU proxy writes -/
theorem gpu_request_shape (st : GSt) (c : Model.GpuProxy.Call) (req : Req) (h : request st c = .ok req) :
    req.m ∈ methods ∧ req.m.name = c.name ∧ req.hdr.code = req.m.code ∧ req.hdr.flags = 0 ∧
    req.bytes = encHdr req.m.code 0 req.hdr.size ++ (if req.m.send = .header then [] else c.body) ++
      (if req.m.send = .payload then c.payload else []) ∧
    req.hdr.size = (if req.m.send = .header then 0 else c.body.length) + (if req.m.send = .payload then c.payload.length else 0) := by
  unfold request at h
  cases hm : methods.find? (·.name == c.name) with
  | none => simp [hm] at h
  | some m =>
    have hmem : m ∈ methods := List.mem_of_find?_eq_some hm
    have hname : m.name = c.name := by simpa using List.find?_some hm
    simp only [hm] at h
    cases he : st.error with
    | some e => simp [he] at h
    | none =>
      simp only [he] at h
      split at h
      · rename_i hs
        simp only [Except.ok.injEq] at h; subst h
        simp [hmem, hname, hs]
      · rename_i hs _
        split at h
        · simp at h
        · split at h
          · simp at h
          · split at h
            · simp at h
            · rename_i hl
              simp only [Except.ok.injEq] at h; subst h
              simp at hl
              simp [hmem, hname, hs, hl]
      · rename_i hs _
        split at h
        · simp at h
        · rename_i n hn
          split at h
          · simp at h
          · split at h
            · simp at h
            · split at h
              · simp at h
              · rename_i hmax hpl hl
                simp only [Except.ok.injEq] at h; subst h
                simp at hl hpl hmax
                have hlt : n + c.payload.length < 2^32 := by simp [maxMsgSize] at hpl hmax; omega
                simp [hmem, hname, hs, hl, Nat.mod_eq_of_lt hlt]
      · simp at h

/-- **GPU request headers: flags = 0** — no version bits, REPLY clear —, the method's code; the header is written first,
and the Spec calls it a valid GPU header -/
theorem gpu_header_flags (st : GSt) (c : Model.GpuProxy.Call) (req : Req) (h : request st c = .ok req) :
    req.hdr.flags = 0 ∧ req.hdr.code = req.m.code ∧ req.bytes.take 12 = encHdr req.m.code 0 req.hdr.size ∧
    Spec.validGpuHeader req.hdr.code req.hdr.flags := by
  obtain ⟨hmem, _, hc, hf, hb, _⟩ := gpu_request_shape st c req h
  refine ⟨hf, hc, ?_, ?_⟩
  · rw [hb, List.append_assoc, List.take_append_of_le_length (by simp [encHdr]), List.take_of_length_le (by simp [encHdr])]
  · rw [hc, hf]; exact ⟨gpu_methods_codes _ hmem, Or.inl rfl⟩

/-- a reply is recognised by bit 2 of the flags word alone (`is_reply`); whatever `recv_reply` accepts has flags exactly 4
(`Props.C06b.gpu_reply_flags_exact`) -/
theorem gpu_reply_detection_only_bit2 (h : Hdr) : h.isReply = h.flags.testBit 2 := rfl

/-- header ++ struct ++ pixel data is byte for byte the Spec's encoding of the request -/
theorem gpu_wire_is_spec_encoding (st : GSt) (c : Model.GpuProxy.Call) (req : Req) (h : request st c = .ok req) :
    ∃ r ∈ Spec.Gpu.requests, r.name = c.name ∧
      req.bytes = Spec.Gpu.encodeReq r (if r.body.isSome then c.body else []) (if r.data then c.payload else []) := by
  obtain ⟨hmem, hname, _, _, hb, hsz⟩ := gpu_request_shape st c req h
  obtain ⟨r, hr, e1, e2, e3, _, e5, _⟩ := gpu_methods_match_spec req.m hmem
  refine ⟨r, hr, by rw [e1, hname], ?_⟩
  have hh := gpu_methods_header_iff req.m hmem
  rw [hb, hsz]
  simp only [Spec.Gpu.encodeReq, Spec.Gpu.encodeHdr, encHdr, e2, e3, e5]
  by_cases h1 : req.m.send = .header
  · have h2 : req.m.bodyTy = none := hh.1 h1
    simp [h1, h2]
  · have h2 : req.m.bodyTy ≠ none := fun e => h1 (hh.2 e)
    have h3 : req.m.bodyTy.isSome = true := by cases hbt : req.m.bodyTy <;> simp_all
    by_cases h4 : req.m.send = .payload <;> simp [h1, h3, h4]

end Gpu

/-! ### non-vacuity -/
example : (Model.GpuProxy.request {} { name := "set_scanout", body := leBytes 4 1 ++ leBytes 4 640 ++ leBytes 4 480 }).toOption.map (·.hdr) =
    some ⟨7, 0, 12⟩ := by decide
example : (Model.GpuProxy.request {} { name := "get_display_info" }).toOption.map (·.bytes) = some (encHdr 3 0 0) := by decide
example : Model.BackendProxy.reqFlags { replyAck := true } = 9 ∧ Model.BackendProxy.reqFlags {} = 1 := by decide

end Props.C01b
