import VhostModel.Lemmas.ProxyBackend
import VhostModel.Lemmas.ProxyGpu
import VhostModel.Lemmas.ProxyAck
import VhostModel.Props.C01b
import VhostModel.Props.C18
/-!
# The proxy models and the acknowledgement path of the server model are the source

`Gen.ProxyOps` is regenerated on every run (`tools/rs2lean_proxy.py`) from

* `backend_req.rs` — `BackendInternal::{check_state, send_message, wait_for_ack}` as statement programs (early exits with
  the translated condition, the header built incl. `set_need_reply`, the socket write, the socket read, the value), the
  five methods of `impl VhostUserFrontendReqHandler for Backend` as rows (gate field + translated gate condition, helper,
  `BackendReq` code resolved, body type and size, descriptor), `Backend::new` and the setters;
* `gpu_backend_req.rs` — `BackendInternal::{check_state, send_header, send_message, send_message_with_payload,
  recv_reply}` as statement programs, the twelve request methods of `GpuBackend` as rows (helper, `GpuBackendReq` code
  resolved, body type / payload, descriptor, reply type or none, what is returned), `new` and `set_failed`;
* `frontend_req_handler.rs` — `check_state`, `check_msg_size`, `extract_msg_body`, `new_reply_header` as guard programs
  (vocabulary of `Base/HelperSig.lean`), `send_ack_message` (condition, the inlined `new_reply_header`, the value as a
  nested `match` over the handler result with the `i32` negation and the `as u64` wrap translated exactly), `new`, the
  setters.

Three layers, each a theorem:

1. **table = source** (`decide`): `backend_rows_match_source`, `gpu_rows_match_source`, `…_setters_match_source`,
   `…_init_matches_source`, `sizes_match_layout`.  The model tables (`Model.ProxyTable`) are *computed* from
   `Model.BackendProxy.Kind.{code, bodyTy, hasFd}` and `Model.GpuProxy.methods`.
2. **program = executable model, for all states / calls / streams / handler outcomes** (full equations):
   * `proxy_request_table`, `proxy_request_error_table`, `proxy_refused_iff`, `proxy_call_writes`, `proxy_call_table`,
     `proxy_reads_iff` — `Model.BackendProxy`;
   * `gpu_request_table`, `gpu_request_ok_table`, `gpu_request_refused_iff`, `gpu_recvReply_table`,
     `gpu_callRecv_table`, `gpu_reply_with_descriptors_rejected` — `Model.GpuProxy`;
   * `ack_cond_matches`, `ack_value_matches`, `ack_steps_pass`, `sendAck_table`, `dispatch_ack_table`, `check_msg_size_matches`,
     `extract_msg_body_matches`, `new_reply_header_matches`, `setFailed_matches` — `Model.FrontendSrv`.
3. **where the formulations differ** (reported, each with its theorem): see the section at the end.

Hypotheses of the equations and why they are there:
* `c.body.length = size_of::<T>()` (`hlen`): a model call carries the argument struct as raw bytes; in Rust the body is a
  `&T`.  Without it the model answers `other` (a malformed *model* call), the source has no such case.
* `hpl` (GPU payload fits `u32::MAX`): the bound is checked by `Endpoint::send_message_with_payload` (connection.rs, tied
  by `Props.ConnLoops`), not by `gpu_backend_req.rs`.
* `OutRange`: the handler outcome is a `u64`, resp. a non-negative `i32` OS error code — the model's `errno` is a natural
  number, negative codes are outside the model (`ack_negative_errno`).
-/
namespace Props.ProxyOps
open Base ProxySig Model.ProxyTable Model.Msgs Model.Stream Model.RecvBody Lemmas.Proxy
open Model.BackendSrv (Err Hdr encHdr hdrNewFlags)
open Model.Frontend (Reply RecvRes RecvOut)

/-! ## 1. the tables are the source -/

/-- `mem::size_of::<T>()` as the translator computed it = the size the generated layout table gives -/
theorem sizes_match_layout :
    Gen.ProxyOps.sizes.all (fun p => Model.GpuProxy.sizeOfTy p.1 == some p.2) = true := by decide

/-- **backend_rows_match_source**: per call kind of `Model.BackendProxy`, in source order: the Rust method, the gate
field, the helper, the request code, the body type and its size, the descriptor flag -/
theorem backend_rows_match_source : backendRows = Gen.ProxyOps.Backend.methods.map (·.row) := by decide

theorem backend_setters_match_source : backendSetters = Gen.ProxyOps.Backend.setters := by decide

/-- `Backend::new`: every flag clear, no error — the default `PSt` -/
theorem backend_init_matches_source :
    backendState {} = (Gen.ProxyOps.Backend.init.filter (fun p => p.1 != "sock")).map
      (fun p => (p.1, p.2)) := by decide

/-- **gpu_rows_match_source**: `Model.GpuProxy.methods`, row by row: name, helper, code, body type and size, payload,
descriptor, reply type, returned value -/
theorem gpu_rows_match_source : gpuRows = Gen.ProxyOps.Gpu.methods := by decide

theorem gpu_setters_match_source : gpuSetters = Gen.ProxyOps.Gpu.setters := by decide

theorem gpu_init_matches_source :
    gpuState {} = Gen.ProxyOps.Gpu.init.filter (fun p => p.1 != "sock") := by decide

theorem fe_setters_match_source : feSetters = Gen.ProxyOps.FeSrv.setters := by decide

theorem fe_init_matches_source :
    feState {} = Gen.ProxyOps.FeSrv.init.filter (fun p => p.1 == "reply_ack_negotiated" || p.1 == "error") := by decide

/-- the local checks of the send helpers and the number of checks behind the read of the two readers -/
theorem program_checks (x : PIn) :
    localChecks x Gen.ProxyOps.Backend.send_message.stmts = [(x.errorIsSome, .socketBroken)] ∧
    localChecks x Gen.ProxyOps.Backend.wait_for_ack.stmts = [(x.errorIsSome, .socketBroken)] ∧
    localChecks x Gen.ProxyOps.Gpu.send_header.stmts = [(x.errorIsSome, .socketBroken)] ∧
    localChecks x Gen.ProxyOps.Gpu.send_message.stmts = [(x.errorIsSome, .socketBroken)] ∧
    localChecks x Gen.ProxyOps.Gpu.send_message_with_payload.stmts = [(x.errorIsSome, .socketBroken)] ∧
    localChecks x Gen.ProxyOps.Gpu.recv_reply.stmts = [(x.errorIsSome, .socketBroken)] ∧
    checksAfterRecv Gen.ProxyOps.Backend.wait_for_ack.stmts = 2 ∧
    checksAfterRecv Gen.ProxyOps.Gpu.recv_reply.stmts = 1 := ⟨rfl, rfl, rfl, rfl, rfl, rfl, rfl, rfl⟩

/-! ## 2a. `Model.BackendProxy` -/
section Backend
open Model.BackendProxy

/-- first check that fires -/
def firstFiring : List (Bool × ProxySig.PErr) → Option ProxySig.PErr
  | [] => none
  | (b, e) :: r => if b then some e else firstFiring r

/-- **what the gate field means**: the translated gate condition of the method's row fails exactly when the model's
`Kind.gate` is false (`shared_object_negotiated` ↦ `PSt.sharedObject`, `shmem_negotiated` ↦ `PSt.shmem`) -/
theorem proxy_gate_iff (st : PSt) (k : Kind) :
    (methodOf k).row = rowOf k ∧ (methodOf k).gateFails (pinOf st k) = !k.gate st ∧
    (methodOf k).gateErr = .notNegotiated :=
  ⟨methodOf_row k, (Lemmas.Proxy.proxy_gate_iff st k).1, (Lemmas.Proxy.proxy_gate_iff st k).2⟩

/-- **proxy_request_table**: for every state and every call whose body has the size of its struct, `request` is: the
row's gate; then the generated `send_message` program — its firing check is the refusal, otherwise the header written
is the program's (code, flags, size) and the descriptor is attached iff the row says so -/
theorem proxy_request_table (st : PSt) (c : Call) (hlen : c.body.length = (rowOf c.kind).size) :
    request st c =
      (if (methodOf c.kind).gateFails (pinOf st c.kind) then .error (perrOf (methodOf c.kind).gateErr)
       else match run (pinOf st c.kind) Gen.ProxyOps.Backend.send_message.stmts none with
         | .err e => .error (perrOf e)
         | .sent code flags size _ _ _ fds _ =>
           .ok ⟨⟨code, flags, size⟩, c.body, if (methodOf c.kind).row.fd && fds then c.fds else []⟩
         | _ => .error (.proto .other)) :=
  Lemmas.Proxy.proxy_request_table st c hlen

/-- **refused locally, and with which error**: the gate's error if the gate fires, otherwise the error of the first
firing local check of `send_message` (`check_state`) -/
theorem proxy_request_error_table (st : PSt) (c : Call) (hlen : c.body.length = (rowOf c.kind).size)
    (e : Model.BackendProxy.PErr) :
    request st c = .error e ↔
      (if (methodOf c.kind).gateFails (pinOf st c.kind) then some (perrOf (methodOf c.kind).gateErr)
       else (firstFiring (localChecks (pinOf st c.kind) Gen.ProxyOps.Backend.send_message.stmts)).map perrOf) = some e := by
  rw [proxy_request_table st c hlen, (program_checks (pinOf st c.kind)).1]
  cases hg : (methodOf c.kind).gateFails (pinOf st c.kind)
  · cases he : st.error <;>
      simp [run, Gen.ProxyOps.Backend.send_message.stmts, pinOf, he, firstFiring]
  · simp

/-- **refused locally iff the row's gate or a state check of the helper fires** -/
theorem proxy_refused_iff (st : PSt) (c : Call) (hlen : c.body.length = (rowOf c.kind).size) :
    (∃ e, request st c = .error e) ↔
      ((methodOf c.kind).gateFails (pinOf st c.kind) = true ∨
       (localChecks (pinOf st c.kind) Gen.ProxyOps.Backend.send_message.stmts).any (·.1) = true) := by
  rw [proxy_request_table st c hlen, (program_checks (pinOf st c.kind)).1]
  cases hg : (methodOf c.kind).gateFails (pinOf st c.kind) <;> cases he : st.error <;>
    simp [run, Gen.ProxyOps.Backend.send_message.stmts, pinOf, he]

theorem callRecv_wire {σ : Type} (ch : Chooser σ) (cl : Bool) (st : PSt) (req : Req) (cst : σ) (str : List Cell) :
    (callRecv ch cl st req cst str).wire = wire req ∧ (callRecv ch cl st req cst str).wireFds = req.fds := by
  simp only [callRecv]
  split <;> exact ⟨rfl, rfl⟩

/-- **what an accepted call writes**: header(code of the row, flags of the generated program, size of the row's body
type) ++ the body; the flags carry NEED_REPLY iff `reply_ack_negotiated`, version 1, no REPLY; the descriptor is attached
iff the row says so; and the program continues as `wait_for_ack` -/
theorem proxy_call_writes {σ : Type} (ch : Chooser σ) (cl : Bool) (st : PSt) (c : Call) (cst : σ) (str : List Cell)
    (hlen : c.body.length = (rowOf c.kind).size) (hg : (methodOf c.kind).gateFails (pinOf st c.kind) = false)
    (he : st.error = none) :
    ∃ flags,
      run (pinOf st c.kind) Gen.ProxyOps.Backend.send_message.stmts none =
        .sent (rowOf c.kind).code flags (rowOf c.kind).size "send_message" true false true [.tailCall "wait_for_ack"] ∧
      flags.testBit 3 = st.replyAck ∧ flags % 4 = 1 ∧ flags.testBit 2 = false ∧
      (call ch cl st c cst str).wire = encHdr (rowOf c.kind).code flags (rowOf c.kind).size ++ c.body ∧
      (call ch cl st c cst str).wireFds = (if (rowOf c.kind).fd then c.fds else []) := by
  have ht := proxy_request_table st c hlen
  rw [hg] at ht
  have hmod : (rowOf c.kind).size % 4294967296 = (rowOf c.kind).size := by cases c.kind <;> decide
  have hsz : (structSize c.kind.bodyTy).getD 0 = (rowOf c.kind).size := by rw [structSize_body]; rfl
  have hrun : run (pinOf st c.kind) Gen.ProxyOps.Backend.send_message.stmts none =
      .sent (rowOf c.kind).code (if st.replyAck then 9 else 1) (rowOf c.kind).size "send_message" true false true
        [.tailCall "wait_for_ack"] := by
    simp only [run, Gen.ProxyOps.Backend.send_message.stmts, pinOf, he, hsz, hmod]
    cases st.replyAck <;> simp [rowOf]
  refine ⟨if st.replyAck then 9 else 1, hrun, ?_, ?_, ?_, ?_, ?_⟩
  · cases st.replyAck <;> decide
  · cases st.replyAck <;> decide
  · cases st.replyAck <;> decide
  · rw [hrun] at ht
    simp only [Bool.false_eq_true, if_false] at ht
    simp only [call, ht, (callRecv_wire ch cl st _ cst str).1, wire]
  · rw [hrun] at ht
    simp only [Bool.false_eq_true, if_false] at ht
    simp only [call, ht, (callRecv_wire ch cl st _ cst str).2, methodOf_row, Bool.and_true]

/-- **proxy_call_table**: a whole proxy call = `request` (above), then the generated `wait_for_ack` program: nothing is
read if a check fires or `Ok(0)` is returned early; otherwise one `recv_body::<VhostUserU64>`, the checks behind it on the
received message, `Ok(body.value)` -/
theorem proxy_call_table {σ : Type} (ch : Chooser σ) (cl : Bool) (st : PSt) (c : Call) (cst : σ) (str : List Cell) :
    call ch cl st c cst str =
      (match request st c with
       | .error e => ⟨.err e, [], [], str, cst, []⟩
       | .ok req => awaitOut ch cl (pinOfSt st) Gen.ProxyOps.Backend.wait_for_ack.stmts req cst str) := by
  unfold call
  split <;> simp [*, callRecv_table]

/-- `wait_for_ack` reads exactly when the endpoint has not failed and REPLY_ACK was negotiated; it then reads a
`VhostUserU64`, tests `is_reply_for` / descriptors / validity with `InvalidMessage` and `value ≠ 0` with
`FrontendInternalError`, in this order -/
theorem proxy_reads_iff (st : PSt) :
    (run (pinOfSt st) Gen.ProxyOps.Backend.wait_for_ack.stmts none =
      (if st.error.isSome then .err .socketBroken else if !st.replyAck then .ok 0 else
        .recv "VhostUserU64" (Gen.ProxyOps.Backend.wait_for_ack.stmts.drop 3))) ∧
    ∀ x : PIn, run x (Gen.ProxyOps.Backend.wait_for_ack.stmts.drop 3) none =
      (if !x.isReplyFor || x.rfdsIsSome || !x.bodyValid then .err .invalidMessage
       else if x.value != 0 then .err .frontendInternal else .ok x.value) := by
  constructor
  · cases he : st.error <;> cases hr : st.replyAck <;>
      simp [run, Gen.ProxyOps.Backend.wait_for_ack.stmts, pinOfSt, he, hr]
  · intro x
    simp only [Gen.ProxyOps.Backend.wait_for_ack.stmts, List.drop, run]

end Backend

/-! ## 2b. `Model.GpuProxy` -/
section Gpu
open Model.GpuProxy

/-- **gpu_request_table**: for every state, every method `m` of the table and every call of it (body of the struct's
size, payload within `u32::MAX`), `request` is the generated send helper of `m`'s row run on the inputs read off state,
method and call: its check is the refusal; otherwise header (code, flags, size) and the parts written (body, payload)
are the program's and the descriptor is attached iff the row says so -/
theorem gpu_request_table (st : GSt) (c : Call) (m : Method) (hm : methods.find? (·.name == c.name) = some m)
    (hlen : m.send ≠ .header → c.body.length = (gpuRowOf m).size)
    (hpl : m.send = .payload → c.payload.length ≤ maxMsgSize - (gpuRowOf m).size) :
    request st c =
      (match run (gpuIn st m c) (gpuProg (gpuRowOf m).helper) none with
       | .err e => .error (errOf e)
       | .sent code flags size _ body payload fds _ =>
         .ok ⟨m, ⟨code, flags, size⟩,
              encHdr code flags size ++ (if body then c.body else []) ++ (if payload then c.payload else []),
              if (gpuRowOf m).fd && fds then c.fds.take 1 else []⟩
       | _ => .error .other) :=
  Lemmas.Proxy.gpu_request_table st c m hm hlen hpl

/-- what the three generated send helpers do, in closed form: code = the `request` argument, **flags 0**, size 0 /
`size_of::<T>() as u32` / `(size_of::<T>() + data.len()) as u32`; header only / header + body / header + body + data -/
theorem gpu_helpers_closed (x : PIn) (hx : x.errorIsSome = false) :
    run x Gen.ProxyOps.Gpu.send_header.stmts none = .sent x.code 0 0 "send_header" false false true [.okHdr] ∧
    run x Gen.ProxyOps.Gpu.send_message.stmts none =
      .sent x.code 0 (x.sizeOfT % 2^32) "send_message" true false true [.okHdr] ∧
    (x.sizeOfT + x.dataLen < 2^64 →
      run x Gen.ProxyOps.Gpu.send_message_with_payload.stmts none =
        .sent x.code 0 ((x.sizeOfT + x.dataLen) % 2^32) "send_message_with_payload" true true true [.okHdr]) := by
  refine ⟨?_, ?_, ?_⟩
  · simp [run, Gen.ProxyOps.Gpu.send_header.stmts, hx]
  · simp [run, Gen.ProxyOps.Gpu.send_message.stmts, hx]
  · intro h
    have h' : x.sizeOfT + x.dataLen < 18446744073709551616 := h
    simp [run, Gen.ProxyOps.Gpu.send_message_with_payload.stmts, hx, h']

/-- **every accepted call writes what the generated helper of its row prescribes** (no hypothesis on the call) -/
theorem gpu_request_ok_table (st : GSt) (c : Call) (req : Req) (h : request st c = .ok req) :
    gpuRowOf req.m ∈ Gen.ProxyOps.Gpu.methods ∧ (gpuRowOf req.m).name = c.name ∧
    ∃ code flags size meth b p f rest,
      run (gpuIn st req.m c) (gpuProg (gpuRowOf req.m).helper) none = .sent code flags size meth b p f rest ∧
      req.hdr = ⟨code, flags, size⟩ ∧
      req.bytes = encHdr code flags size ++ (if b then c.body else []) ++ (if p then c.payload else []) ∧
      req.fds = (if (gpuRowOf req.m).fd && f then c.fds.take 1 else []) := by
  obtain ⟨hm, _, hlen, hpl⟩ := gpu_request_ok_pre st c req h
  have ht := gpu_request_table st c req.m hm hlen hpl
  obtain ⟨hmem, hname, _⟩ := Props.C01b.gpu_request_shape st c req h
  refine ⟨?_, hname, ?_⟩
  · rw [← gpu_rows_match_source]; exact List.mem_map_of_mem hmem
  · rw [h] at ht
    split at ht
    · simp at ht
    · rename_i code flags size meth b p f rest hrun
      simp only [Except.ok.injEq] at ht
      exact ⟨code, flags, size, meth, b, p, f, rest, hrun, by rw [ht], by rw [ht], by rw [ht]⟩
    · simp at ht

theorem gpu_size_le : ∀ m ∈ methods, (gpuRowOf m).size ≤ 48 := by decide

/-- **refused locally iff the state check of the row's helper fires** (and then with `SocketBroken`) -/
theorem gpu_request_refused_iff (st : GSt) (c : Call) (m : Method) (hm : methods.find? (·.name == c.name) = some m)
    (hlen : m.send ≠ .header → c.body.length = (gpuRowOf m).size)
    (hpl : m.send = .payload → c.payload.length ≤ maxMsgSize - (gpuRowOf m).size) :
    ((∃ e, request st c = .error e) ↔
      (localChecks (gpuIn st m c) (gpuProg (gpuRowOf m).helper)).any (·.1) = true) ∧
    (∀ e, request st c = .error e → e = .sockBroken) := by
  have hmem : m ∈ methods := List.mem_of_find?_eq_some hm
  have hsz := gpu_size_le m hmem
  rw [gpu_request_table st c m hm hlen hpl]
  have hx : (gpuIn st m c).errorIsSome = st.error.isSome := rfl
  cases he : st.error with
  | some e0 =>
    rcases m with ⟨name, code, send, bodyTy, fd, reply⟩
    cases send <;>
      simp [gpuRowOf, SendKind.helper, gpuProg, run, localChecks, gpuIn, he, errOf,
        Gen.ProxyOps.Gpu.send_header.stmts, Gen.ProxyOps.Gpu.send_message.stmts,
        Gen.ProxyOps.Gpu.send_message_with_payload.stmts]
  | none =>
    have hx' : (gpuIn st m c).errorIsSome = false := by rw [hx, he]; rfl
    obtain ⟨c1, c2, c3⟩ := gpu_helpers_closed (gpuIn st m c) hx'
    rcases hms : m.send with _ | _ | _
    · have hh : (gpuRowOf m).helper = "send_header" := by simp [gpuRowOf, hms, SendKind.helper]
      rw [hh]
      simp only [gpuProg, c1, (program_checks _).2.2.1, hx']
      simp
    · have hh : (gpuRowOf m).helper = "send_message" := by simp [gpuRowOf, hms, SendKind.helper]
      rw [hh]
      simp only [gpuProg, c2, (program_checks _).2.2.2.1, hx']
      simp
    · have hh : (gpuRowOf m).helper = "send_message_with_payload" := by simp [gpuRowOf, hms, SendKind.helper]
      have hfit : (gpuIn st m c).sizeOfT + (gpuIn st m c).dataLen < 2^64 := by
        have := hpl hms
        have hs : (gpuIn st m c).sizeOfT = (gpuRowOf m).size := rfl
        have hd : (gpuIn st m c).dataLen = c.payload.length := rfl
        rw [hs, hd]
        simp only [maxMsgSize] at this
        omega
      rw [hh]
      simp only [gpuProg, c3 hfit, (program_checks _).2.2.2.2.1, hx']
      simp

/-- **gpu_recvReply_table**: `recvReply` (= `recv_reply::<ty>`) is the generated program: `check_state`; one
`recv_body::<ty>` on the GPU channel; the checks behind the read on the received message; `Ok(body)` -/
theorem gpu_recvReply_table {σ : Type} (ch : Chooser σ) (cl : Bool) (st : GSt) (rh : Hdr) (ty : String) (n : Nat)
    (hn : sizeOfTy ty = some n) (cst : σ) (str : List Cell) :
    recvReply ch cl st rh ty cst str =
      (match run (gpuInSt st) Gen.ProxyOps.Gpu.recv_reply.stmts none with
       | .err e => ⟨.err (errOf e), str, cst, []⟩
       | .recv _ rest => gpuAfterRecv (gpuInSt st) ty rest rh (recvBody ch cl hdrValidGpu n (replyBodyOk ty) cst str)
       | _ => ⟨.err .other, str, cst, []⟩) :=
  Lemmas.Proxy.gpu_recvReply_table ch cl st rh ty n hn cst str

/-- the generated `recv_reply` in closed form: which checks it performs on the received message -/
theorem gpu_recv_reply_closed (st : GSt) :
    (run (gpuInSt st) Gen.ProxyOps.Gpu.recv_reply.stmts none =
      (if st.error.isSome then .err .socketBroken else .recv "V" (Gen.ProxyOps.Gpu.recv_reply.stmts.drop 2))) ∧
    ∀ x : PIn, run x (Gen.ProxyOps.Gpu.recv_reply.stmts.drop 2) none =
      (if !x.isReplyFor || x.rfdsIsSome || !x.bodyValid then .err .invalidMessage else .okBody) := by
  constructor
  · cases he : st.error <;> simp [run, Gen.ProxyOps.Gpu.recv_reply.stmts, gpuInSt, he]
  · intro x
    simp only [Gen.ProxyOps.Gpu.recv_reply.stmts, List.drop, run]

/-- **descriptors on a reply**: a reply that `recv_body` accepted but that carries descriptors is refused with
`InvalidMessage`, and the descriptors are closed — because the generated `recv_reply` tests `rfds.is_some()` -/
theorem gpu_reply_with_descriptors_rejected {σ : Type} (ch : Chooser σ) (cl : Bool) (st : GSt) (rh : Hdr) (ty : String)
    (n : Nat) (hn : sizeOfTy ty = some n) (cst : σ) (str : List Cell) (he : st.error = none) (r : Reply)
    (hr : (recvBody ch cl hdrValidGpu n (replyBodyOk ty) cst str).res = .ok r) (hf : r.files.isSome = true) :
    (recvReply ch cl st rh ty cst str).res = .err .invalidMsg ∧
    (recvReply ch cl st rh ty cst str).closed =
      (recvBody ch cl hdrValidGpu n (replyBodyOk ty) cst str).closed ++ r.files.getD [] := by
  rw [gpu_recvReply_table ch cl st rh ty n hn cst str, (gpu_recv_reply_closed st).1]
  simp only [he, Option.isSome_none, Bool.false_eq_true, if_false, gpuAfterRecv, hr, (gpu_recv_reply_closed st).2]
  simp [replyIn, hf, errOf]

/-- **gpu_callRecv_table**: after the request is written nothing is read iff the row has no reply type; otherwise exactly
`recv_reply::<row.reply>`, whose value is returned (`ret = body`) or dropped (`ret = unit`) -/
theorem gpu_callRecv_table {σ : Type} (ch : Chooser σ) (cl : Bool) (st : GSt) (req : Req) (cst : σ) (str : List Cell) :
    callRecv ch cl st req cst str =
      (match (gpuRowOf req.m).reply with
       | none => ⟨.unit, req.bytes, req.fds, str, cst, []⟩
       | some ty =>
         let o := recvReply ch cl st req.hdr ty cst str
         match o.res with
         | .blocked => ⟨.blocked, req.bytes, req.fds, o.rest, o.cst, o.closed⟩
         | .err e => ⟨.err e, req.bytes, req.fds, o.rest, o.cst, o.closed⟩
         | .ok r =>
           ⟨(match (gpuRowOf req.m).ret, ty with
             | .unit, _ => .unit
             | .body, "VhostUserU64" => .val (leVal r.body)
             | .body, _ => .bytes r.body), req.bytes, req.fds, o.rest, o.cst, o.closed⟩) :=
  Lemmas.Proxy.gpu_callRecv_table ch cl st req cst str

/-- every reply type of the table has a size (`gpu_recvReply_table` applies to every row) -/
theorem gpu_reply_sizes : ∀ r ∈ Gen.ProxyOps.Gpu.methods, ∀ ty, r.reply = some ty → (sizeOfTy ty).isSome = true := by
  decide

end Gpu

/-! ## 2c. the acknowledgement path of `Model.FrontendSrv` -/
section FeSrv
open Model.FrontendSrv HelperSig Gen.ProxyOps.FeSrv
open Model.BackendSrv (bitSet)

/-- **condition of the acknowledgement**: `reply_ack_negotiated && req.is_need_reply()` -/
theorem ack_cond_matches (st : FSt) (h : Hdr) (o : Model.FrontendSrv.Outcome) :
    send_ack_message.sendCond (ackEnv st h o) = (st.replyAck && h.needReply) :=
  Lemmas.Proxy.ack_cond_matches st h o

/-- **value of the acknowledgement**, for every handler outcome: `n` for `Ok(n)`; `-rawerr as u64` for a handler error
with an OS code; `-EINVAL as u64` for a handler error without one and for every other `Error` — the model's `ackVal`
(modulo `2^64`: see `ack_errno_zero`) -/
theorem ack_value_matches (st : FSt) (h : Hdr) (o : Model.FrontendSrv.Outcome) (hr : OutRange o) :
    send_ack_message.sendFields.map (fun f => f (ackEnv st h o)) = [ackVal o % 2^64] :=
  Lemmas.Proxy.ack_value_matches st h o hr

/-- … exactly `ackVal` for the outcomes `Props.C18.InRange` allows (a `u64`; an errno in `1 .. 2^31-1`) -/
theorem ack_value_exact (st : FSt) (h : Hdr) (ho : HOut) (hr : Props.C18.InRange ho) :
    send_ack_message.sendFields.map (fun f => f (ackEnv st h (.handler ho))) = [ackVal (.handler ho)] := by
  have hlt := Props.C18.ackVal_lt ho hr
  have hr' : OutRange (.handler ho) := by
    cases ho with
    | okv n => exact hr
    | errno e => exact hr.2
    | err => trivial
  rw [ack_value_matches st h _ hr', Nat.mod_eq_of_lt hlt]

/-- the header of the acknowledgement: the request's code, REPLY + version 1, size 8 -/
theorem ack_hdr_matches (st : FSt) (h : Hdr) (o : Model.FrontendSrv.Outcome) :
    send_ack_message.sendHdr.map (fun f => f (ackEnv st h o)) = [h.code, hdrNewFlags 4, 8] ∧
    send_ack_message.sendTy = "VhostUserU64" ∧ send_ack_message.steps = [] ∧ send_ack_message.ret = "Ok(())" :=
  ⟨Lemmas.Proxy.ack_hdr_matches st h o, rfl, rfl, rfl⟩

/-- inside the block nothing refuses and no arithmetic is undefined — for a known request code on an endpoint that has
not failed (both established by `handle_request` before: `check_state`, the header validator) -/
theorem ack_steps_pass (st : FSt) (h : Hdr) (o : Model.FrontendSrv.Outcome) (hr : OutRange o) (he : st.error = none)
    (hc : Base.codeOk Gen.Codes.BackendReq.table h.code = true) :
    HelperSig.run send_ack_message.bufLen send_ack_message.sendSteps (ackEnv st h o) = .pass :=
  Lemmas.Proxy.ack_steps_pass st h o hr he hc

/-- **sendAck_table**: the bytes `Model.FrontendSrv.sendAck` writes are, for every state, header and handler outcome,
those of the generated `send_ack_message`: nothing unless the condition holds, else header fields (4 bytes each) and the
value (8 bytes) -/
theorem sendAck_table (st : FSt) (h : Hdr) (o : Model.FrontendSrv.Outcome) (hr : OutRange o) :
    sendAck st h o =
      (if send_ack_message.sendCond (ackEnv st h o) then
        (send_ack_message.sendHdr.map (fun f => f (ackEnv st h o))).flatMap (leBytes 4) ++
          (send_ack_message.sendFields.map (fun f => f (ackEnv st h o))).flatMap (leBytes 8)
       else []) :=
  Lemmas.Proxy.sendAck_table st h o hr

/-- **what `handle_request` writes for a framed request** (`Model.FrontendSrv.dispatch`): nothing if the request left
through `?` before `send_ack_message` (`Props.C18.handled`); otherwise the bytes of the generated `send_ack_message` for
the result the arm produced (`Props.C18.outcomeOf`: the handler's, or `Err(InvalidMessage)` of the catch-all arm) -/
theorem dispatch_ack_table (st : FSt) (hdr : Hdr) (buf : Bytes) (files : Option (List Fd)) (h : HOut)
    (hr : OutRange (.handler h)) :
    (dispatch st hdr buf files h).out =
      (if Props.C18.handled hdr buf files && send_ack_message.sendCond (ackEnv st hdr (Props.C18.outcomeOf hdr h)) then
        (send_ack_message.sendHdr.map (fun f => f (ackEnv st hdr (Props.C18.outcomeOf hdr h)))).flatMap (leBytes 4) ++
          (send_ack_message.sendFields.map (fun f => f (ackEnv st hdr (Props.C18.outcomeOf hdr h)))).flatMap (leBytes 8)
       else []) := by
  have hr' : OutRange (Props.C18.outcomeOf hdr h) := by
    unfold Props.C18.outcomeOf
    split
    · trivial
    · exact hr
  rw [Props.C18.dispatch_out, sendAck_table st hdr _ hr']
  cases Props.C18.handled hdr buf files <;> simp

/-- `check_msg_size(hdr, size, expected)` = the model's `checkSize`; no `fault` -/
theorem check_msg_size_matches (st : FSt) (h : Hdr) (size expected : Nat) :
    HelperSig.run check_msg_size.bufLen check_msg_size.steps { feIn st h size with expected := expected } =
      (if checkSize h size expected then .pass else .err .invalidMessage) := by
  simp only [check_msg_size.steps, HelperSig.run, feIn, cms_cond h size expected]
  cases checkSize h size expected <;> simp

/-- `extract_msg_body::<T>` (`check_msg_size` with `size_of::<T>()`, the read of `T` at offset 0 inside the buffer, the
validator) = the model's `extractOk` for an arm with a body type; `check_msg_size(.., 0)` for the arm without -/
theorem extract_msg_body_matches (st : FSt) (a : Arm) (h : Hdr) (buf : Bytes) :
    (∀ ty n, a.body = some ty → structSize ty = some n →
      HelperSig.run extract_msg_body.bufLen extract_msg_body.steps
        { feIn st h buf.length with sizeOfT := n, msgValid := bodyValid ty buf == some true } =
        (if extractOk a h buf then .pass else .err .invalidMessage)) ∧
    (a.body = none →
      HelperSig.run check_msg_size.bufLen check_msg_size.steps { feIn st h buf.length with expected := 0 } =
        (if extractOk a h buf then .pass else .err .invalidMessage)) := by
  constructor
  · intro ty n hb hn
    simp only [extract_msg_body.steps, HelperSig.run, extract_msg_body.bufLen, feIn, cms_cond h buf.length n, extractOk,
      hb, hn]
    cases hcs : checkSize h buf.length n
    · simp
    · have hl : buf.length = n := by
        simp only [checkSize, Bool.and_eq_true, beq_iff_eq] at hcs; exact hcs.2
      rcases hv : bodyValid ty buf with _ | (_ | _) <;> simp [hl]
  · intro hb
    rw [check_msg_size_matches]
    simp [extractOk, hb]

/-- the arms of the dispatch use exactly these two helpers with the body types of the table (`Props.DispatchFe`), and
every body type has a size -/
theorem arm_body_sizes : ∀ a ∈ arms, ∀ ty, a.body = some ty → (structSize ty).isSome = true := by decide

/-- `new_reply_header::<VhostUserU64>(req)`: passes for a known code on an endpoint that has not failed; the header is
the one `ackBytes` starts with -/
theorem new_reply_header_matches (st : FSt) (h : Hdr) (he : st.error = none)
    (hc : Base.codeOk Gen.Codes.BackendReq.table h.code = true) (v : Nat) :
    let e : HIn := { feIn st h 0 with sizeOfT := 8 }
    HelperSig.run new_reply_header.bufLen new_reply_header.steps e = .pass ∧
    new_reply_header.term.hdrOf e = some (h.code, hdrNewFlags 4, 8) ∧
    ackBytes h.code v = encHdr h.code (hdrNewFlags 4) 8 ++ leBytes 8 v := by
  simp [new_reply_header.steps, HelperSig.run, new_reply_header.term, Term.hdrOf, feIn, he, hc, hdrNewFlags, ackBytes]

/-- … and refuses with `SocketBroken` on a failed endpoint: `Model.FrontendSrv.sendAck` has no such case — it is only
reached behind the `check_state` of `step`, see `step_failed_sends_nothing` -/
theorem new_reply_header_broken (st : FSt) (h : Hdr) (e0 : Nat) (he : st.error = some e0) :
    HelperSig.run new_reply_header.bufLen new_reply_header.steps { feIn st h 0 with sizeOfT := 8 } = .err .socketBroken := by
  simp [new_reply_header.steps, HelperSig.run, feIn, he]

/-- `set_failed(error)`: `None` for 0, `Some(error)` otherwise — `FSt.setFailed` -/
theorem setFailed_matches (s : FSt) (e : Nat) :
    ∃ st ∈ Gen.ProxyOps.FeSrv.setters, st.name = "set_failed" ∧ st.field = "error" ∧
      (s.setFailed e).error = SetSrc.optVal st.src e ∧ (s.setFailed e).replyAck = s.replyAck := by
  refine ⟨⟨"set_failed", "error", .zeroNoneElseSome "error"⟩, by decide, rfl, rfl, ?_, rfl⟩
  simp [FSt.setFailed, SetSrc.optVal]

/-- a failed endpoint: `handle_request` returns before anything is received or written -/
theorem step_failed_sends_nothing {σ : Type} (ch : Chooser σ) (cl : Bool) (st : FSt) (cst : σ) (s : List Cell) (h : HOut)
    (e0 : Nat) (he : st.error = some e0) :
    (step ch cl st cst s h).o.out = [] ∧ (step ch cl st cst s h).o.res = .err .sockBroken ∧
    (step ch cl st cst s h).rest = s := by
  simp [step, he]

end FeSrv

/-! ## 3. where model and source are formulated differently -/
section Differences
open Model.FrontendSrv Gen.ProxyOps.FeSrv

/-- **D1 (errno 0)**: for `Err(io::Error::from_raw_os_error(0))` the source computes `-0 as u64 = 0`; the model's
`ackVal` is the natural number `2^64`.  Not observable: the eight bytes written are the same — and they say *success*
(`Props.C18.InRange` excludes the case). -/
theorem ack_errno_zero (st : FSt) (h : Hdr) :
    send_ack_message.sendFields.map (fun f => f (ackEnv st h (.handler (.errno 0)))) = [0] ∧
    ackVal (.handler (.errno 0)) = 2^64 ∧
    leBytes 8 (ackVal (.handler (.errno 0))) = leBytes 8 0 := by
  refine ⟨by simp [send_ack_message.sendFields, ackEnv, resOf], rfl, by decide⟩

/-- **D2 (negative OS codes)** are outside the model (`HOut.errno` carries a natural number).  The source acknowledges
`raw_os_error() = Some(-5)` with the *positive* value 5. -/
theorem ack_negative_errno (i : HelperSig.HIn) :
    send_ack_message.sendFields.map (fun f => f ⟨i, .err (.reqHandler (some (-5)))⟩) = [5] := by
  simp [send_ack_message.sendFields]

/-- **D3 (`i32::MIN`)**: `-rawerr` overflows for `rawerr = i32::MIN` — a panic under `overflow-checks` (the harness
profile), a wrap otherwise; the generated program records it as a `fault`.  Outside the model as well. -/
theorem ack_errno_min_faults (st : FSt) (h : Hdr) (he : st.error = none)
    (hc : Base.codeOk Gen.Codes.BackendReq.table h.code = true) :
    HelperSig.run send_ack_message.bufLen send_ack_message.sendSteps
      ⟨feIn st h 0, .err (.reqHandler (some (-2147483648)))⟩ = .fault := by
  simp [send_ack_message.sendSteps, HelperSig.run, feIn, he, hc]

end Differences

/-! ## non-vacuity -/
section Examples
open Model.BackendProxy in
example : (request { sharedObject := true, replyAck := true } ⟨.lookup, leBytes 16 7, [5]⟩).toOption.map
    (fun r => (r.hdr, r.fds)) = some (⟨8, 9, 16⟩, [5]) := by decide
open Model.BackendProxy in
example : request { shmem := true } ⟨.lookup, leBytes 16 7, [5]⟩ = .error .notNegotiated := by rfl
open Model.BackendProxy in
example : (methodOf .lookup).gateFails (pinOf { shmem := true } .lookup) = true := by decide
example : run { replyAck := true, value := 1 } (Gen.ProxyOps.Backend.wait_for_ack.stmts.drop 3) none =
    .err .frontendInternal := by rfl
example : run { rfdsIsSome := true } (Gen.ProxyOps.Gpu.recv_reply.stmts.drop 2) none = .err .invalidMessage := by rfl
example : (Model.GpuProxy.request {} { name := "get_edid", body := leBytes 4 1 }).toOption.map (·.hdr) =
    some ⟨11, 0, 4⟩ := by decide
open Model.FrontendSrv Gen.ProxyOps.FeSrv in
example : send_ack_message.sendFields.map (fun f => f (ackEnv {} ⟨6, 9, 16⟩ (.handler .err))) = [2^64 - 22] := by
  simp [send_ack_message.sendFields, ackEnv, resOf]
open Model.FrontendSrv Gen.ProxyOps.FeSrv in
example : send_ack_message.sendCond (ackEnv { replyAck := true } ⟨6, 1, 16⟩ (.handler (.okv 0))) = false := by decide
end Examples

end Props.ProxyOps
