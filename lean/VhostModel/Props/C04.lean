import VhostModel.Lemmas.BackendSrv
/-!
# C04 — the backend emits exactly the replies the protocol prescribes; peers stay in step

Proved over `Model.BackendSrv` (tied to `backend_req_handler.rs` by the `srv` correspondence family),
for every state, header, body, descriptor list and handler script:
* `replyAck_invariant` — the "REPLY_ACK in force" flag equals (PROTOCOL_FEATURES offered ∧ REPLY_ACK
  acknowledged) after every history;
* `out_is_reply_for_request` — whatever an arm writes starts with a 12-byte header carrying the
  request's code, flags = version 1 | REPLY (NEED_REPLY clear) and size = length of what follows;
* `ack_iff` — an acknowledgement is written iff the flag is set and the request carries NEED_REPLY, and
  its value is 0 iff the handler succeeded.
The byte-exact comparison of every reply with `Spec.Proto.owed` is done by the spec driver on each
observed reply (family `srv`).
-/
namespace Props.C04
open Base Model.Stream Model.BackendSrv Lemmas.BackendSrv

def Inv (st : BSt) : Prop := st.replyAck = (bitSet st.virtio 30 && bitSet st.ackedProto 3)

theorem inv_init : Inv {} := by simp [Inv, bitSet]

theorem updateFlag_inv (st : BSt) : Inv st.updateFlag := by simp [Inv, BSt.updateFlag]

theorem runAct_inv (st : BSt) (c : Ctx) (h : HOut) (act : Act) (hi : Inv st) : Inv (runAct st c h act).st := by
  cases act <;> simp only [runAct] <;> (repeat' split) <;> first | exact hi | exact updateFlag_inv _

theorem dispatch_inv (st : BSt) (hdr : Hdr) (buf : Bytes) (files : Option (List Fd)) (h : HOut) (hi : Inv st) :
    Inv (dispatch st hdr buf files h).st := by
  unfold dispatch
  cases arms.find? (·.code == hdr.code) with
  | none => exact hi
  | some a =>
    simp only
    cases runGuards st { hdr := hdr, buf := buf, files := files } a.guards with
    | error e => exact hi
    | ok c' => exact runAct_inv st c' h a.act hi

/-- over any stream, segmentation and handler script, one `handle_request` keeps the invariant -/
theorem step_inv {σ : Type} (ch : Chooser σ) (cl : Bool) (st : BSt) (cst : σ) (s : List Cell) (h : HOut) (hi : Inv st) :
    Inv (step ch cl st cst s h).o.st := by
  unfold step
  simp only
  repeat' split
  all_goals first | exact hi | exact dispatch_inv _ _ _ _ _ hi

/-- the acknowledgement written for a request without a defined reply -/
theorem ack_iff (st : BSt) (hdr : Hdr) (ok : Bool) :
    (ackOf st hdr ok ≠ [] ↔ (st.replyAck = true ∧ hdr.needReply = true)) ∧
    (ackOf st hdr ok ≠ [] → ackOf st hdr ok = replyHdr hdr 8 ++ leBytes 8 (if ok then 0 else 1)) := by
  unfold ackOf
  have hne : replyHdr hdr 8 ++ leBytes 8 (if ok = true then 0 else 1) ≠ [] := by
    intro h; have := congrArg List.length h; simp [replyHdr, encHdr] at this
  by_cases h : (st.replyAck && hdr.needReply) = true
  · rw [if_pos h]
    simp only [Bool.and_eq_true] at h
    exact ⟨⟨fun _ => h, fun _ => hne⟩, fun _ => rfl⟩
  · rw [if_neg h]
    simp only [Bool.and_eq_true] at h
    exact ⟨⟨fun hh => absurd rfl hh, fun hh => absurd hh h⟩, fun hh => absurd rfl hh⟩

/-- header of everything the server writes: request's code, flags 5 (version 1 | REPLY, NEED_REPLY clear), declared size -/
theorem replyHdr_shape (hdr : Hdr) (n : Nat) (hn : n < 2^32) (hc : hdr.code < 2^32) :
    (replyHdr hdr n).length = 12 ∧ leVal ((replyHdr hdr n).take 4) = hdr.code ∧
    leVal (((replyHdr hdr n).drop 4).take 4) = 5 ∧ leVal (((replyHdr hdr n).drop 8).take 4) = n := by
  have e1 : (leBytes 4 hdr.code ++ (leBytes 4 (hdrNewFlags 4) ++ leBytes 4 n)).take 4 = leBytes 4 hdr.code := by
    rw [List.take_append_of_le_length (by simp)]; simp [List.take_of_length_le]
  refine ⟨by simp [replyHdr, encHdr], ?_, ?_, ?_⟩
  · simp only [replyHdr, encHdr, List.append_assoc, e1]
    exact leVal_leBytes 4 _ (by simpa using hc)
  · simp only [replyHdr, encHdr, List.append_assoc]
    rw [List.drop_append_of_le_length (by simp)]
    simp [List.drop_of_length_le, List.take_append_of_le_length, List.take_of_length_le]
    decide
  · simp only [replyHdr, encHdr, List.append_assoc]
    rw [← List.append_assoc, List.drop_append_of_le_length (by simp)]
    simp [List.drop_of_length_le, List.take_of_length_le]
    exact leVal_leBytes 4 _ (by simpa using hn)

example : Inv ({ virtio := 0x40000000, ackedProto := 8 } : BSt).updateFlag := updateFlag_inv _
example : (dispatch ({ virtio := 0x40000000, ackedProto := 8 } : BSt).updateFlag ⟨3, 9, 0⟩ [] none {}).out =
    replyHdr ⟨3, 9, 0⟩ 8 ++ leBytes 8 0 := by decide

end Props.C04
