import VhostModel.Lemmas.BackendSrv
import VhostModel.Model.Frontend
import VhostModel.Spec.Frontend
/-!
# C07 — feature-dependent operations are impossible before the feature is negotiated (backend side)

The backend request server (`Model.BackendSrv`, tied to `backend_req_handler.rs` by the `srv`
correspondence family) never invokes the application's handler for a request the protocol ties to a
protocol feature (`Spec.Proto.gate`) unless that feature bit is in the acknowledged protocol features,
and the acknowledged protocol features are exactly what the handler was last told through
`set_protocol_features` on this connection; ring enable needs VHOST_USER_F_PROTOCOL_FEATURES in the
acknowledged virtio features; GET_PROTOCOL_FEATURES always offers REPLY_ACK.
The frontend-side statements are in the second half of this file (see `Model.Frontend`).
-/
namespace Props.C07
open Base Model.Stream Model.BackendSrv Lemmas.BackendSrv

/-- a gated request whose feature bit is not acknowledged never reaches the handler: no call, nothing
written, state unchanged, an error is returned — for every header, body, descriptor list, handler script -/
theorem backend_gate (st : BSt) (hdr : Hdr) (buf : Bytes) (files : Option (List Fd)) (h : HOut) (b : Nat)
    (hg : Spec.Proto.gate hdr.code = some b) (hb : bitSet st.ackedProto b = false) :
    let o := dispatch st hdr buf files h
    o.calls = [] ∧ o.out = [] ∧ o.st = st ∧ ∃ e, o.res = .err e := by
  intro o
  cases ha : arms.find? (·.code == hdr.code) with
  | none =>
    have := dispatch_unknown (st := st) (buf := buf) (files := files) (h := h) ha
    simp [o, this]
  | some a =>
    obtain ⟨hm, hc⟩ := find_arm ha
    have hmem := arms_gate a hm b (by rw [hc]; exact hg)
    obtain ⟨e, he⟩ := runGuards_error_of_mem_proto st b hb a.guards { hdr := hdr, buf := buf, files := files } hmem
    have := dispatch_of_guard_error (h := h) ha he
    simp [o, this]

/-- SET_VRING_ENABLE is refused unless VHOST_USER_F_PROTOCOL_FEATURES (bit 30) is among the acknowledged virtio features -/
theorem backend_enable_gate (st : BSt) (hdr : Hdr) (buf : Bytes) (files : Option (List Fd)) (h : HOut)
    (hc : hdr.code = 18) (hb : bitSet st.acked 30 = false) :
    let o := dispatch st hdr buf files h
    o.calls = [] ∧ o.out = [] ∧ o.st = st ∧ ∃ e, o.res = .err e := by
  intro o
  cases ha : arms.find? (·.code == hdr.code) with
  | none =>
    have := dispatch_unknown (st := st) (buf := buf) (files := files) (h := h) ha
    simp [o, this]
  | some a =>
    obtain ⟨hm, hc'⟩ := find_arm ha
    have hmem := arms_enable a hm (by rw [hc']; exact hc)
    obtain ⟨e, he⟩ := runGuards_error_of_mem_virtio st 30 hb a.guards { hdr := hdr, buf := buf, files := files } hmem
    have := dispatch_of_guard_error (h := h) ha he
    simp [o, this]

/-- one `handle_request` over any stream and any chooser: whatever reaches the handler went through `dispatch`
in the same negotiation state -/
theorem step_calls_via_dispatch {σ : Type} (ch : Chooser σ) (cl : Bool) (st : BSt) (cst : σ) (s : List Cell) (h : HOut) :
    (step ch cl st cst s h).o.calls = [] ∨
      ∃ hdr buf files, (step ch cl st cst s h).o.calls = (dispatch st hdr buf files h).calls ∧
        (step ch cl st cst s h).o.st = (dispatch st hdr buf files h).st := by
  unfold step
  simp only
  repeat' split
  all_goals first | (left; rfl) | (right; exact ⟨_, _, _, rfl, rfl⟩)

/-- stream-level gating: for every stream, segmentation and handler script, a handler call for a gated
request implies that the feature bit is acknowledged in the current state -/
theorem step_gate {σ : Type} (ch : Chooser σ) (cl : Bool) (st : BSt) (cst : σ) (s : List Cell) (h : HOut) :
    (step ch cl st cst s h).o.calls = [] ∨
      ∃ hdr buf files, (step ch cl st cst s h).o.calls = (dispatch st hdr buf files h).calls ∧
        (∀ b, Spec.Proto.gate hdr.code = some b → bitSet st.ackedProto b = true) ∧
        (hdr.code = 18 → bitSet st.acked 30 = true) := by
  rcases step_calls_via_dispatch ch cl st cst s h with h0 | ⟨hdr, buf, files, hc, _⟩
  · left; exact h0
  · by_cases hne : (dispatch st hdr buf files h).calls = []
    · left; rw [hc, hne]
    · right
      refine ⟨hdr, buf, files, hc, ?_, ?_⟩
      · intro b hg
        cases hb : bitSet st.ackedProto b with
        | true => rfl
        | false => exact absurd (backend_gate st hdr buf files h b hg hb).1 hne
      · intro h18
        cases hb : bitSet st.acked 30 with
        | true => rfl
        | false => exact absurd (backend_enable_gate st hdr buf files h h18 hb).1 hne

/-- the value a `GET_PROTOCOL_FEATURES` reply carries always contains REPLY_ACK (bit 3), whatever the device offers -/
theorem reply_ack_always_offered (v : Nat) : (v ||| 8).testBit 3 = true := by
  simp [Nat.testBit_or]
  right; decide

/-- … and that is the value the server writes: the reply body of the `getProtocolFeatures` action -/
theorem get_protocol_features_reply (st : BSt) (c : Ctx) (h : HOut) (hok : h.ok = true) :
    (runAct st c h .getProtocolFeatures).out = replyHdr c.hdr 8 ++ leBytes 8 (h.v ||| 8) := by
  simp [runAct, hok]

/-! ### over histories: "acknowledged earlier on the same connection" -/

/-- a framed request together with the scripted outcome of the handler -/
structure Framed where
  hdr : Hdr
  buf : Bytes
  files : Option (List Fd)
  h : HOut

/-- run a history of framed requests; returns the final state and the handler log -/
def runHist : BSt → List Call → List Framed → BSt × List Call
  | st, log, [] => (st, log)
  | st, log, f :: rest =>
    let o := dispatch st f.hdr f.buf f.files f.h
    runHist o.st (log ++ o.calls) rest

/-- the protocol features the application's handler was last told to acknowledge (0 if never) -/
def lastSpf : List Call → Nat
  | [] => 0
  | c :: rest =>
    let r := lastSpf rest
    if rest.any (·.name == "set_protocol_features") then r
    else if c.name == "set_protocol_features" then (match c.args with | [v] => v | _ => 0) else 0

theorem lastSpf_append_other (log : List Call) (cs : List Call) (h : ∀ c ∈ cs, c.name ≠ "set_protocol_features") :
    lastSpf (log ++ cs) = lastSpf log := by
  induction log with
  | nil =>
    induction cs with
    | nil => rfl
    | cons c cs ih =>
      have hc := h c (by simp)
      have ih' := ih (fun x hx => h x (by simp [hx]))
      simp only [List.nil_append] at ih' ⊢
      simp only [lastSpf]
      have : cs.any (·.name == "set_protocol_features") = false := by
        simp only [List.any_eq_false]; intro x hx; simpa using h x (by simp [hx])
      simp [this, hc]
  | cons c log ih =>
    simp only [List.cons_append, lastSpf, ih]
    have : (log ++ cs).any (·.name == "set_protocol_features") = log.any (·.name == "set_protocol_features") := by
      simp only [List.any_append]
      have : cs.any (·.name == "set_protocol_features") = false := by
        simp only [List.any_eq_false]; intro x hx; simpa using h x hx
      simp [this]
    rw [this]

theorem lastSpf_append_spf (log : List Call) (v : Nat) :
    lastSpf (log ++ [⟨"set_protocol_features", [v], [], []⟩]) = v := by
  induction log with
  | nil => simp [lastSpf]
  | cons c log ih => simp [lastSpf, ih]

/-- one request keeps "acknowledged protocol features = what the handler was last told" -/
theorem dispatch_inv (st : BSt) (log : List Call) (f : Framed) (hinv : st.ackedProto = lastSpf log) :
    (dispatch st f.hdr f.buf f.files f.h).st.ackedProto = lastSpf (log ++ (dispatch st f.hdr f.buf f.files f.h).calls) := by
  unfold dispatch
  cases ha : arms.find? (·.code == f.hdr.code) with
  | none => simp [hinv]
  | some a =>
    obtain ⟨hm, _⟩ := find_arm ha
    simp only
    cases hg : runGuards st { hdr := f.hdr, buf := f.buf, files := f.files } a.guards with
    | error e => simp [hinv]
    | ok c' =>
      simp only
      rw [runAct_ackedProto]
      by_cases hs : a.act = .setProtocolFeatures
      · rw [hs, runAct_spf_call, lastSpf_append_spf]; simp
      · simp only [hs, if_false]
        rw [lastSpf_append_other, hinv]
        intro cl hcl
        have := runAct_calls_name st c' f.h a.act cl hcl
        rw [this]
        intro hm'
        exact hs (arms_spf a hm hm')

/-- over every history from a fresh connection: the acknowledged protocol features always equal the
value the handler was last told through `set_protocol_features` (0 before that) -/
theorem hist_inv : ∀ (hist : List Framed) (st : BSt) (log : List Call), st.ackedProto = lastSpf log →
    (runHist st log hist).1.ackedProto = lastSpf (runHist st log hist).2 := by
  intro hist
  induction hist with
  | nil => intro st log h; exact h
  | cons f rest ih =>
    intro st log h
    simp only [runHist]
    exact ih _ _ (dispatch_inv st log f h)

/-- **backend gate over histories**: after any history on a fresh connection, a gated request reaches the
handler only if the gating bit is in the protocol features the handler was last told to acknowledge -/
theorem history_gate (hist : List Framed) (f : Framed) (b : Nat) (hg : Spec.Proto.gate f.hdr.code = some b) :
    let (st, log) := runHist {} [] hist
    (dispatch st f.hdr f.buf f.files f.h).calls ≠ [] → (lastSpf log).testBit b = true := by
  have hinv := hist_inv hist {} [] rfl
  revert hinv
  cases hr : runHist {} [] hist with
  | mk st log =>
    intro hinv hne
    simp only at hinv
    cases hb : bitSet st.ackedProto b with
    | true => rw [← hinv]; exact hb
    | false => exact absurd (backend_gate st f.hdr f.buf f.files f.h b hg hb).1 hne

/-! ### non-vacuity -/
example : Spec.Proto.gate 24 = some 9 := rfl
example : (dispatch {} ⟨24, 1, 12⟩ (leBytes 4 0 ++ leBytes 4 0 ++ leBytes 4 0) none {}).res = .err .inactiveOperation := by
  decide
example : (dispatch { ackedProto := 0x200 } ⟨17, 1, 0⟩ [] none {}).res = .err .inactiveOperation := by decide
example : (dispatch { ackedProto := 1 } ⟨17, 1, 0⟩ [] none { v := 7 }).calls = [⟨"get_queue_num", [], [], []⟩] := by decide


/-! ## frontend endpoint -/
section Frontend
open Model.Frontend

/-- a gated API call is refused locally (and by `Props.C02.reject_sends_nothing` touches neither wire nor state)
unless its protocol feature is acknowledged — for every operation the protocol ties to a feature, all arguments -/
theorem frontend_gate (s : FSt) (op : Op) (b : Nat) (hg : Spec.Frontend.gateBit op.name = some b)
    (hb : bitSet s.ackedProto b = false) : ∃ e, request s op = .error e := by
  obtain ⟨name, a, payload, fds, bad, regions⟩ := op
  simp only [Spec.Frontend.gateBit] at hg
  split at hg <;> simp at hg <;> subst hg <;> simp only [request, hasProto, hb] <;> (repeat' split) <;> simp_all

/-- the protocol-feature exchange itself is refused until the backend has offered VHOST_USER_F_PROTOCOL_FEATURES -/
theorem frontend_proto_exchange_needs_offer (s : FSt) (op : Op) (h : bitSet s.virtio 30 = false)
    (hn : op.name = "get_protocol_features" ∨ op.name = "set_protocol_features") :
    ∃ e, request s op = .error e := by
  obtain ⟨name, a, payload, fds, bad, regions⟩ := op
  simp only at hn
  rcases hn with rfl | rfl <;> simp only [request, h] <;> (repeat' split) <;> simp_all

/-- ring enable is refused until VHOST_USER_F_PROTOCOL_FEATURES is among the acknowledged virtio features -/
theorem frontend_ring_enable_needs_protocol_features (s : FSt) (op : Op) (h : bitSet s.acked 30 = false)
    (hn : op.name = "set_vring_enable") : ∃ e, request s op = .error e := by
  obtain ⟨name, a, payload, fds, bad, regions⟩ := op
  simp only at hn; subst hn
  simp only [request, h] <;> (repeat' split) <;> simp_all

/-- device-state transfer is gated by DEVICE_STATE (bit 19) -/
theorem frontend_device_state_gate : Spec.Frontend.gateBit "set_device_state_fd" = some 19 ∧
    Spec.Frontend.gateBit "check_device_state" = some 19 := ⟨rfl, rfl⟩

end Frontend

end Props.C07
