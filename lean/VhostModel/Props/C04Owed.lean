import VhostModel.Lemmas.OwedArms1
import VhostModel.Lemmas.OwedArms2
import VhostModel.Lemmas.OwedArms3
import VhostModel.Lemmas.OwedArms4
import VhostModel.Lemmas.OwedReject3
import VhostModel.Props.C07
/-!
# C04 (owed replies) — the request server reacts to every well-formed request exactly as the protocol prescribes

Relates the executable model of the server, `Model.BackendSrv.dispatch` (tied to `backend_req_handler.rs` by the
`srv` correspondence family), to the independent specification `Spec.Proto`, for **all** states, headers, bodies,
descriptor lists and handler scripts, and for **every** request code in `Spec.Proto.implemented` (34 codes):

* `accept_calls_expected` — an accepted request invokes the handler exactly once, with the name, arguments and
  payload of `Spec.Proto.expectedCall`, and with the request's files iff the call uses them;
* `reply_as_owed` — what is written (bytes and number of attached descriptors) is what `Spec.Proto.owed` demands
  (`Sat`): nothing / the exact payload under a reply header carrying the request's code / an acknowledgement that is
  zero iff the handler succeeded / a status word;
* `neg_commutes` — the negotiation state the Spec tracks from the wire (`updateNeg`) is the abstraction of the
  server's state; the invariant `Props.C04.Inv` is preserved (`Props.C04.dispatch_inv`);
* `kth_reply_answers_kth` — over any history of accepted requests the non-empty outputs are, in order, the replies
  owed to the requests that owe one (the k-th reply answers the k-th such request, with that request's code);
* `reject_not_dispatched` — a request the Spec classifies as `reject` (gate not acknowledged, invalid body, wrong
  number of files) never reaches the handler, leaves the negotiation state alone, returns an error, and nothing is written except
  possibly the negative acknowledgement (`NoCall`).  Header
  validity and "descriptors only on requests that may carry them" are checked by `step` before `dispatch`
  (`Model.BackendSrv.step`, `check_attached_files`); they are hypotheses here.

Field values are read through the specification's layout on the Spec side (`Spec.Proto.fld`) and through the layout
computed from the generated struct table on the model side (`Model.BackendSrv.g`); the bridge is
`Lemmas.LayoutEq.getField_eq` (from `Props.C01.layout_matches_spec`), the validators are tied to the Spec's rules by
`Props.C20`.

The hypotheses `hdr.code < 2^32` and `hdr.size = buf.length` of the task statement are consequences of
`classify = accept` (valid header; `body.length = size`) and are therefore not needed.
-/
namespace Props.C04Owed
open Base Model.BackendSrv Spec.Proto
open Lemmas.OwedGuards (Fd facts_of_accept)
export Lemmas.OwedGuards (absNeg reqOf hOut Sat callOf Good)
export Lemmas.OwedReject (NoCall)
open Lemmas.OwedArms

/-- **all three statements at once**, for every implemented request code -/
theorem accept_good (st : BSt) (hdr : Hdr) (buf : Bytes) (files : Option (List Fd)) (h : Model.BackendSrv.HOut)
    (hi : Props.C04.Inv st) (ha : classify (absNeg st) (reqOf hdr buf files) = .accept) :
    Good st hdr buf files h := by
  obtain ⟨code, fl, sz⟩ := hdr
  have hc : code ∈ implemented := (facts_of_accept ha).impl
  simp only [implemented, List.mem_cons, List.mem_nil_iff, or_false] at hc
  rcases hc with rfl | rfl | rfl | rfl | rfl | rfl | rfl | rfl | rfl | rfl | rfl | rfl | rfl | rfl | rfl | rfl | rfl |
    rfl | rfl | rfl | rfl | rfl | rfl | rfl | rfl | rfl | rfl | rfl | rfl | rfl | rfl | rfl | rfl | rfl
  · exact good_1 st fl sz buf files h hi ha
  · exact good_2 st fl sz buf files h hi ha
  · exact good_3 st fl sz buf files h hi ha
  · exact good_4 st fl sz buf files h hi ha
  · exact good_5 st fl sz buf files h hi ha
  · exact good_6 st fl sz buf files h hi ha
  · exact good_8 st fl sz buf files h hi ha
  · exact good_9 st fl sz buf files h hi ha
  · exact good_10 st fl sz buf files h hi ha
  · exact good_11 st fl sz buf files h hi ha
  · exact good_12 st fl sz buf files h hi ha
  · exact good_13 st fl sz buf files h hi ha
  · exact good_14 st fl sz buf files h hi ha
  · exact good_15 st fl sz buf files h hi ha
  · exact good_16 st fl sz buf files h hi ha
  · exact good_17 st fl sz buf files h hi ha
  · exact good_18 st fl sz buf files h hi ha
  · exact good_21 st fl sz buf files h hi ha
  · exact good_24 st fl sz buf files h hi ha
  · exact good_25 st fl sz buf files h hi ha
  · exact good_28 st fl sz buf files h hi ha
  · exact good_29 st fl sz buf files h hi ha
  · exact good_30 st fl sz buf files h hi ha
  · exact good_31 st fl sz buf files h hi ha
  · exact good_32 st fl sz buf files h hi ha
  · exact good_33 st fl sz buf files h hi ha
  · exact good_34 st fl sz buf files h hi ha
  · exact good_36 st fl sz buf files h hi ha
  · exact good_37 st fl sz buf files h hi ha
  · exact good_38 st fl sz buf files h hi ha
  · exact good_41 st fl sz buf files h hi ha
  · exact good_42 st fl sz buf files h hi ha
  · exact good_43 st fl sz buf files h hi ha
  · exact good_44 st fl sz buf files h hi ha

/-- **1.** an accepted request invokes the handler exactly once: name, arguments and payload are those of
`Spec.Proto.expectedCall`; the files are the request's files iff `expectedCall` says the call uses them -/
theorem accept_calls_expected (st : BSt) (hdr : Hdr) (buf : Bytes) (files : Option (List Fd)) (h : Model.BackendSrv.HOut)
    (hi : Props.C04.Inv st) (ha : classify (absNeg st) (reqOf hdr buf files) = .accept) :
    (dispatch st hdr buf files h).calls =
      [⟨(expectedCall (reqOf hdr buf files)).1, (expectedCall (reqOf hdr buf files)).2.1,
        (expectedCall (reqOf hdr buf files)).2.2.1,
        if (expectedCall (reqOf hdr buf files)).2.2.2 then files.getD [] else []⟩] :=
  (accept_good st hdr buf files h hi ha).1

/-- **2.** what is written for an accepted request is what the Spec says is owed (see `Sat`) -/
theorem reply_as_owed (st : BSt) (hdr : Hdr) (buf : Bytes) (files : Option (List Fd)) (h : Model.BackendSrv.HOut)
    (hi : Props.C04.Inv st) (ha : classify (absNeg st) (reqOf hdr buf files) = .accept) :
    Sat hdr (dispatch st hdr buf files h) (owed (absNeg st) (reqOf hdr buf files) (hOut h)) :=
  (accept_good st hdr buf files h hi ha).2.1

/-- `Sat`, spelled out case by case (the form of the task statement) -/
theorem reply_as_owed_cases (st : BSt) (hdr : Hdr) (buf : Bytes) (files : Option (List Fd)) (h : Model.BackendSrv.HOut)
    (hi : Props.C04.Inv st) (ha : classify (absNeg st) (reqOf hdr buf files) = .accept) :
    let o := dispatch st hdr buf files h
    match owed (absNeg st) (reqOf hdr buf files) (hOut h) with
    | .nothing => o.out = [] ∧ o.outFds = 0
    | .exact payload k => o.out = replyHdr hdr payload.length ++ payload ∧ o.outFds = k
    | .ack zero => ∃ v, v < 2^64 ∧ o.out = replyHdr hdr 8 ++ leBytes 8 v ∧ (v = 0 ↔ zero = true) ∧ o.outFds = 0
    | .status okBits k =>
      ∃ v, v < 2^64 ∧ o.out = replyHdr hdr 8 ++ leBytes 8 v ∧ (v % 256 = 0 ↔ okBits = true) ∧ o.outFds = k := by
  have := reply_as_owed st hdr buf files h hi ha
  revert this
  cases owed (absNeg st) (reqOf hdr buf files) (hOut h) <;> exact id

/-- **3.** the negotiation state commutes with the abstraction, and the invariant is kept -/
theorem neg_commutes (st : BSt) (hdr : Hdr) (buf : Bytes) (files : Option (List Fd)) (h : Model.BackendSrv.HOut)
    (hi : Props.C04.Inv st) (ha : classify (absNeg st) (reqOf hdr buf files) = .accept) :
    absNeg (dispatch st hdr buf files h).st = updateNeg (absNeg st) (reqOf hdr buf files) (hOut h) ∧
      Props.C04.Inv (dispatch st hdr buf files h).st :=
  ⟨(accept_good st hdr buf files h hi ha).2.2, Props.C04.dispatch_inv st hdr buf files h hi⟩

/-! ### what `Sat` says about emptiness: a reply is written iff one is owed -/

theorem replyHdr_ne_nil (hdr : Hdr) (n : Nat) (p : Bytes) : replyHdr hdr n ++ p ≠ [] := by
  intro h; have := congrArg List.length h; simp [replyHdr, encHdr] at this

theorem sat_out_nil_iff {hdr : Hdr} {o : Out} {w : Owed} (hs : Sat hdr o w) : o.out = [] ↔ w = .nothing := by
  cases w with
  | nothing => exact ⟨fun _ => rfl, fun _ => hs.1⟩
  | exact p k =>
    have : o.out ≠ [] := by rw [hs.1]; exact replyHdr_ne_nil _ _ _
    exact ⟨fun h => absurd h this, fun h => by cases h⟩
  | ack z =>
    obtain ⟨v, _, ho, _⟩ := hs
    have : o.out ≠ [] := by rw [ho]; exact replyHdr_ne_nil _ _ _
    exact ⟨fun h => absurd h this, fun h => by cases h⟩
  | status b k =>
    obtain ⟨v, _, ho, _⟩ := hs
    have : o.out ≠ [] := by rw [ho]; exact replyHdr_ne_nil _ _ _
    exact ⟨fun h => absurd h this, fun h => by cases h⟩

/-! ### histories: the k-th reply answers the k-th request that owes one -/

/-- a framed request together with the scripted outcome of the handler -/
structure Framed where
  hdr : Hdr
  buf : Bytes
  files : Option (List Fd)
  h : Model.BackendSrv.HOut

/-- every request of the history is accepted by the Spec in the negotiation state the Spec has reached by then -/
def AllAccepted : Neg → List Framed → Prop
  | _, [] => True
  | n, f :: rest =>
    classify n (reqOf f.hdr f.buf f.files) = .accept ∧
      AllAccepted (updateNeg n (reqOf f.hdr f.buf f.files) (hOut f.h)) rest

/-- model side: the non-empty outputs the server writes over the history, in order, each with the header of the
request during whose turn it was written -/
def replies : BSt → List Framed → List (Hdr × Out)
  | _, [] => []
  | st, f :: rest =>
    let o := dispatch st f.hdr f.buf f.files f.h
    if o.out = [] then replies o.st rest else (f.hdr, o) :: replies o.st rest

/-- Spec side: the replies owed over the history, in order, each with the header of the request that owes it -/
def owedList : Neg → List Framed → List (Hdr × Owed)
  | _, [] => []
  | n, f :: rest =>
    let r := reqOf f.hdr f.buf f.files
    let w := owed n r (hOut f.h)
    let n' := updateNeg n r (hOut f.h)
    match w with
    | .nothing => owedList n' rest
    | w => (f.hdr, w) :: owedList n' rest

/-- two lists match one to one and in order under `R` -/
inductive AllMatch {α β : Type} (R : α → β → Prop) : List α → List β → Prop
  | nil : AllMatch R [] []
  | cons {a b l₁ l₂} : R a b → AllMatch R l₁ l₂ → AllMatch R (a :: l₁) (b :: l₂)

theorem AllMatch.length_eq {α β : Type} {R : α → β → Prop} {l₁ : List α} {l₂ : List β} (h : AllMatch R l₁ l₂) :
    l₁.length = l₂.length := by
  induction h with
  | nil => rfl
  | cons _ _ ih => simp [ih]

theorem AllMatch.kth {α β : Type} {R : α → β → Prop} {l₁ : List α} {l₂ : List β} (h : AllMatch R l₁ l₂) :
    ∀ (k : Nat) (h1 : k < l₁.length) (h2 : k < l₂.length), R l₁[k] l₂[k] := by
  induction h with
  | nil => intro k h1; simp at h1
  | cons hr _ ih =>
    intro k h1 h2
    cases k with
    | zero => exact hr
    | succ k => exact ih k (by simpa using h1) (by simpa using h2)

/-- **3b.** over every history of accepted requests, from every state satisfying the invariant: the list of
non-empty outputs matches the list of owed replies one to one and in order — same length, and the k-th output is
written for the request that owes the k-th reply (same header, hence same request code in the reply header) and
satisfies that reply's requirement -/
theorem kth_reply_answers_kth : ∀ (hist : List Framed) (st : BSt), Props.C04.Inv st → AllAccepted (absNeg st) hist →
    AllMatch (fun (r : Hdr × Out) (w : Hdr × Owed) => r.1 = w.1 ∧ Sat w.1 r.2 w.2)
      (replies st hist) (owedList (absNeg st) hist) := by
  intro hist
  induction hist with
  | nil => intro st _ _; exact AllMatch.nil
  | cons f rest ih =>
    intro st hi hacc
    obtain ⟨ha, hrest⟩ := hacc
    obtain ⟨_, hsat, hneg⟩ := accept_good st f.hdr f.buf f.files f.h hi ha
    have hi' := Props.C04.dispatch_inv st f.hdr f.buf f.files f.h hi
    rw [← hneg] at hrest
    have ih' := ih _ hi' hrest
    have hnil := sat_out_nil_iff hsat
    simp only [replies, owedList]
    rw [← hneg]
    by_cases ho : (dispatch st f.hdr f.buf f.files f.h).out = []
    · rw [if_pos ho, hnil.1 ho]
      exact ih'
    · rw [if_neg ho]
      have hw : owed (absNeg st) (reqOf f.hdr f.buf f.files) (hOut f.h) ≠ .nothing := fun e => ho (hnil.2 e)
      revert hsat hw
      cases owed (absNeg st) (reqOf f.hdr f.buf f.files) (hOut f.h) with
      | nothing => intro _ hw; exact absurd rfl hw
      | exact p k => intro hsat _; exact AllMatch.cons ⟨rfl, hsat⟩ ih'
      | ack z => intro hsat _; exact AllMatch.cons ⟨rfl, hsat⟩ ih'
      | status b k => intro hsat _; exact AllMatch.cons ⟨rfl, hsat⟩ ih'

/-- the same, by index: as many replies as requests that owe one, and the k-th reply answers the k-th of them -/
theorem kth_reply_answers_kth_index (hist : List Framed) (st : BSt) (hi : Props.C04.Inv st)
    (ha : AllAccepted (absNeg st) hist) :
    (replies st hist).length = (owedList (absNeg st) hist).length ∧
    ∀ (k : Nat) (h1 : k < (replies st hist).length) (h2 : k < (owedList (absNeg st) hist).length),
      ((replies st hist)[k]).1 = ((owedList (absNeg st) hist)[k]).1 ∧
      Sat ((owedList (absNeg st) hist)[k]).1 ((replies st hist)[k]).2 ((owedList (absNeg st) hist)[k]).2 :=
  ⟨(kth_reply_answers_kth hist st hi ha).length_eq, (kth_reply_answers_kth hist st hi ha).kth⟩

/-! ### rejected requests -/

open Lemmas.OwedReject in
/-- **4.** a request the Spec rejects is not dispatched to the handler: no call, negotiation state unchanged, an
error is returned, nothing is written except possibly a negative acknowledgement (`NoCall`).  `hv`: the header is valid (checked by `step` before `dispatch`); `hfd`: descriptors arrived
only with a request code that may carry them (`check_attached_files` in `step`). -/
theorem reject_not_dispatched (st : BSt) (hdr : Hdr) (buf : Bytes) (files : Option (List Fd)) (h : Model.BackendSrv.HOut)
    (hv : Spec.validHeader Spec.frontendCodes hdr.code hdr.flags hdr.size)
    (hfd : files.getD [] ≠ [] → hdr.code ∈ fdCodes)
    (hr : classify (absNeg st) (reqOf hdr buf files) = .reject) :
    NoCall st hdr (dispatch st hdr buf files h) := by
  rcases reject_imp _ _ hr with h1 | h2 | ⟨himpl, -, hdec, hbad⟩
  · exact absurd hv h1
  · -- the gate
    simp only [gateOk, reqOf, absNeg, Bool.and_eq_false_iff] at h2
    rcases h2 with h2 | h2
    · cases hg : gate hdr.code with
      | none => rw [hg] at h2; simp at h2
      | some b =>
        rw [hg] at h2
        have := Props.C07.backend_gate st hdr buf files h b hg h2
        exact ⟨this.1, this.2.2.1, this.2.2.2, Or.inl this.2.1⟩
    · simp only [Bool.or_eq_false_iff, bne_eq_false_iff_eq] at h2
      have := Props.C07.backend_enable_gate st hdr buf files h h2.1 h2.2
      exact ⟨this.1, this.2.2.1, this.2.2.2, Or.inl this.2.1⟩
  · obtain ⟨code, fl, sz⟩ := hdr
    simp only [reqOf] at himpl hdec hbad hfd
    simp only [implemented, List.mem_cons, List.mem_nil_iff, or_false] at himpl
    rcases himpl with rfl | rfl | rfl | rfl | rfl | rfl | rfl | rfl | rfl | rfl | rfl | rfl | rfl | rfl | rfl | rfl |
      rfl | rfl | rfl | rfl | rfl | rfl | rfl | rfl | rfl | rfl | rfl | rfl | rfl | rfl | rfl | rfl | rfl | rfl
    · exact (bad_absurd hbad rfl rfl (by decide) hfd).elim
    · exact (bad_absurd hbad rfl rfl (by decide) hfd).elim
    · exact (bad_absurd hbad rfl rfl (by decide) hfd).elim
    · exact (bad_absurd hbad rfl rfl (by decide) hfd).elim
    · exact rej_5 st fl sz buf files h hbad
    · exact rej_6 st fl sz buf files h hdec hbad
    · exact (bad_absurd hbad rfl rfl (by decide) hfd).elim
    · exact rej_9 st fl sz buf files h hfd hdec hbad
    · exact (bad_absurd hbad rfl rfl (by decide) hfd).elim
    · exact (bad_absurd hbad rfl rfl (by decide) hfd).elim
    · exact rej_12 st fl sz buf files h hdec hbad
    · exact rej_13 st fl sz buf files h hdec hbad
    · exact rej_14 st fl sz buf files h hdec hbad
    · exact (bad_absurd hbad rfl rfl (by decide) hfd).elim
    · exact (bad_absurd hbad rfl rfl (by decide) hfd).elim
    · exact (bad_absurd hbad rfl rfl (by decide) hfd).elim
    · exact rej_18 st fl sz buf files h hfd hbad
    · exact rej_21 st fl sz buf files h hbad
    · exact rej_24 st fl sz buf files h hfd hbad
    · exact rej_25 st fl sz buf files h hfd hbad
    · exact (bad_absurd hbad rfl rfl (by decide) hfd).elim
    · exact (bad_absurd hbad rfl rfl (by decide) hfd).elim
    · exact (bad_absurd hbad rfl rfl (by decide) hfd).elim
    · exact rej_31 st fl sz buf files h hfd hdec hbad
    · exact rej_32 st fl sz buf files h hdec hbad
    · exact rej_33 st fl sz buf files h hbad
    · exact (bad_absurd hbad rfl rfl (by decide) hfd).elim
    · exact (bad_absurd hbad rfl rfl (by decide) hfd).elim
    · exact rej_37 st fl sz buf files h hdec hbad
    · exact rej_38 st fl sz buf files h hfd hdec hbad
    · exact rej_41 st fl sz buf files h hfd hdec hbad
    · exact rej_42 st fl sz buf files h hdec hbad
    · exact (bad_absurd hbad rfl rfl (by decide) hfd).elim
    · exact (bad_absurd hbad rfl rfl (by decide) hfd).elim

/-! ### through `step`: the two hypotheses of `reject_not_dispatched` are what `step` checks before `dispatch` -/

section Step
open Model.Msgs Lemmas.Owed
theorem sz_hdr : structSize "VhostUserMsgHeader" = some 12 := by decide
theorem f_h_req : fieldAt "VhostUserMsgHeader" ["request"] = some (0, 4) := by decide
theorem f_h_flags : fieldAt "VhostUserMsgHeader" ["flags"] = some (4, 4) := by decide
theorem f_h_size : fieldAt "VhostUserMsgHeader" ["size"] = some (8, 4) := by decide

/-- the header check of `step`: the generated validator on the 12 received bytes = the Spec's header rule on the
three fields `step` hands to `dispatch` -/
theorem hdr_valid_of (bytes : Bytes) (hlen : ¬ (bytes.length != 12) = true)
    (hv : (decHeader bytes).map (·.isValid (Gen.Codes.FrontendReq.table.map (·.2))) = some true) :
    Spec.validHeader Spec.frontendCodes (leVal (bytes.take 4)) (leVal ((bytes.drop 4).take 4))
      (leVal ((bytes.drop 8).take 4)) := by
  have hl : bytes.length = 12 := by simpa using hlen
  simp only [decHeader, sz_hdr, hl, getField_of f_h_req (bs := bytes) (by omega),
    getField_of f_h_flags (bs := bytes) (by omega), getField_of f_h_size (bs := bytes) (by omega)] at hv
  simp at hv
  rw [Props.C20.isValid_frontend_header_iff] at hv
  simp only [bv_toNat _ _ (rd_lt bytes _ 4)] at hv
  exact hv

theorem fd_ok_some (fds : List Model.Stream.Fd) (code : Nat)
    (h : ¬ ((some fds).isSome && !fdCodes.contains code) = true) :
    (some fds).getD [] ≠ [] → code ∈ fdCodes := by
  intro _; simpa using h

/-- one `handle_request` over any stream and chooser: whatever reaches the handler went through `dispatch` with a
valid header and with descriptors only on a request code that may carry them -/
theorem step_calls_via_guarded_dispatch {σ : Type} (ch : Model.Stream.Chooser σ) (cl : Bool) (st : BSt) (cst : σ) (s : List Model.Stream.Cell)
    (h : Model.BackendSrv.HOut) :
    (step ch cl st cst s h).o.calls = [] ∨
      ∃ hdr buf files, (step ch cl st cst s h).o.calls = (dispatch st hdr buf files h).calls ∧
        (step ch cl st cst s h).o.st = (dispatch st hdr buf files h).st ∧
        (step ch cl st cst s h).o.out = (dispatch st hdr buf files h).out ∧
        Spec.validHeader Spec.frontendCodes hdr.code hdr.flags hdr.size ∧
        (files.getD [] ≠ [] → hdr.code ∈ fdCodes) := by
  unfold step
  simp only
  repeat' split
  all_goals first
    | (left; rfl)
    | (right; refine ⟨_, _, _, rfl, rfl, rfl, ?_, ?_⟩
       · apply hdr_valid_of <;> assumption
       · first | (intro hne; exact absurd rfl hne) | (apply fd_ok_some; assumption))

/-- **4, over streams**: for every stream, segmentation (chooser), state and handler script, one `handle_request`
invokes the handler only for a request that the Spec does not reject — whatever reaches the handler went through
`dispatch` as a framed request with a valid header that `Spec.Proto.classify` does not classify as `reject` -/
theorem step_never_calls_for_rejected {σ : Type} (ch : Model.Stream.Chooser σ) (cl : Bool) (st : BSt) (cst : σ)
    (s : List Model.Stream.Cell) (h : Model.BackendSrv.HOut) (hne : (step ch cl st cst s h).o.calls ≠ []) :
    ∃ hdr buf files, (step ch cl st cst s h).o.calls = (dispatch st hdr buf files h).calls ∧
      (step ch cl st cst s h).o.st = (dispatch st hdr buf files h).st ∧
      (step ch cl st cst s h).o.out = (dispatch st hdr buf files h).out ∧
      Spec.validHeader Spec.frontendCodes hdr.code hdr.flags hdr.size ∧
      classify (absNeg st) (reqOf hdr buf files) ≠ .reject := by
  rcases step_calls_via_guarded_dispatch ch cl st cst s h with h0 | ⟨hdr, buf, files, hc, hs, ho, hv, hfd⟩
  · exact absurd h0 hne
  · refine ⟨hdr, buf, files, hc, hs, ho, hv, ?_⟩
    intro hr
    exact hne (hc.trans (reject_not_dispatched st hdr buf files h hv hfd hr).1)
end Step

/-- the hypothesis `hfd` cannot be dropped at `dispatch` level: CHECK_DEVICE_STATE (43) with a descriptor attached is
`reject` for the Spec (wrong number of files), and `dispatch` alone would invoke the handler; it is `step`'s
`check_attached_files` that refuses it -/
theorem reject_needs_attached_files_check :
    classify (absNeg {}) (reqOf ⟨43, 1, 0⟩ [] (some [7])) = .reject ∧
      (dispatch {} ⟨43, 1, 0⟩ [] (some [7]) {}).calls ≠ [] ∧ fdCodes.contains 43 = false := by
  decide

/-! ### non-vacuity -/

/-- a state with REPLY_ACK in force -/
def stAck : BSt := ({ virtio := 0x40000000, ackedProto := 8 } : BSt).updateFlag

example : Props.C04.Inv stAck := Props.C04.updateFlag_inv _
-- accepted requests exist for the kinds of reply: acknowledgement, exact payload, nothing, status
example : classify (absNeg stAck) (reqOf ⟨3, 9, 0⟩ [] none) = .accept := by decide
example : owed (absNeg stAck) (reqOf ⟨3, 9, 0⟩ [] none) (hOut {}) = .ack true := by rfl
example : classify (absNeg stAck) (reqOf ⟨1, 1, 0⟩ [] none) = .accept := by decide
example : owed (absNeg stAck) (reqOf ⟨1, 1, 0⟩ [] none) (hOut { v := 5 }) = .exact (leBytes 8 5) 0 := by rfl
example : owed (absNeg {}) (reqOf ⟨3, 1, 0⟩ [] none) (hOut {}) = .nothing := by rfl
example : classify (absNeg {}) (reqOf ⟨43, 1, 0⟩ [] none) = .accept := by decide
example : owed (absNeg {}) (reqOf ⟨43, 1, 0⟩ [] none) (hOut { ok := false }) = .status false 0 := by rfl
-- the theorems applied end to end: SET_OWNER with NEED_REPLY under REPLY_ACK
example : (dispatch stAck ⟨3, 9, 0⟩ [] none {}).calls = [⟨"set_owner", [], [], []⟩] :=
  accept_calls_expected stAck ⟨3, 9, 0⟩ [] none {} (Props.C04.updateFlag_inv _) (by decide)
example : ∃ v, v < 2^64 ∧ (dispatch stAck ⟨3, 9, 0⟩ [] none {}).out = replyHdr ⟨3, 9, 0⟩ 8 ++ leBytes 8 v ∧
    (v = 0 ↔ true = true) ∧ (dispatch stAck ⟨3, 9, 0⟩ [] none {}).outFds = 0 :=
  reply_as_owed stAck ⟨3, 9, 0⟩ [] none {} (Props.C04.updateFlag_inv _) (by decide)
-- a request with a body and a descriptor
example : classify (absNeg { ackedProto := 2 }) (reqOf ⟨6, 1, 16⟩ (leBytes 8 4096 ++ leBytes 8 0) (some [3])) = .accept := by
  decide
-- a history: SET_OWNER (ack), GET_FEATURES (reply), both accepted from `stAck`
example : AllAccepted (absNeg stAck) [⟨⟨3, 9, 0⟩, [], none, {}⟩, ⟨⟨1, 1, 0⟩, [], none, { v := 0x40000000 }⟩] :=
  ⟨by decide, by decide, trivial⟩
-- rejected requests exist: invalid body (ring enable with num = 2), wrong number of files, gate
example : classify (absNeg { acked := 0x40000000 }) (reqOf ⟨18, 1, 8⟩ (leBytes 4 0 ++ leBytes 4 2) none) = .reject := by
  decide
example : classify (absNeg {}) (reqOf ⟨33, 1, 0⟩ [] none) = .reject := by decide
example : classify (absNeg {}) (reqOf ⟨17, 1, 0⟩ [] none) = .reject := by decide

end Props.C04Owed
