import VhostModel.Base
import VhostModel.Base.CtorSig
import VhostModel.Gen.Layout
import VhostModel.Gen.Ctors
import VhostModel.Model.Ctors
import VhostModel.Gen.Flags
import VhostModel.Model.BackendSrv
/-!
# The constructors of the wire structs store what the models assume (C01, C02)

`Gen.Ctors.ctors` is regenerated on every run by `tools/rs2lean_ctors.py` from `message.rs` and `gpu_message.rs`.

* `ctors_are_model`        — the generated table is the hand-written `Model.Ctors.expected`;
* `fields_cover_layout`    — every struct-literal constructor names exactly the fields of the struct's wire layout
                             (`Gen.Layout.structs`, generated from the same source), each once: nothing is left to
                             `..Default::default()`;
* `no_parameter_dropped`   — every parameter of every constructor is read by some field;
* `padding_is_zero`        — every field called `padding…` receives `0` / `[0; n]`;
* `initialisers_understood`— no initialiser is of a shape the translator could not classify (`.other`);
* `prefixPad_get`, `prefixPad_length`, `shmem_sizes_every_id` — for **every** slice `memory` and every region id
  `id < 256` the `memory_sizes[id]` stored by `VhostUserShMemConfig::new` is `memory[id]`, or 0 past the end of the
  slice; the array always has 256 entries;
* `shmem_sizes_bytes`      — the byte string the server model (`Model.BackendSrv`, `getShmem`) predicts for the reply,
  `(payload ++ zeros).take 2048`, is the little-endian encoding of that array when the handler's payload is the
  encoding of `memory`;
* `vring_addr_log_unconditional` — `from_config_data` stores `log_addr` whatever the flags word is, and 0 only when
  the caller gave none;
* `header_new_flags`       — for every flags argument the header constructor stores `Model.BackendSrv.hdrNewFlags` of
  it (mask = the generated `Gen.Flags` constant); `Props.C01.hdr_new_version_and_flags` is the all-words statement
  about that function.

A non-vacuity `example` follows each universally quantified statement.
-/
namespace Props.Ctors
open Base Base.CtorSig

abbrev ctors : List Ctor := Gen.Ctors.ctors

theorem ctors_are_model : Gen.Ctors.ctors = Model.Ctors.expected := by decide

/-- struct-literal constructors (all but the `Self::default()` delegations) -/
def literal (c : Ctor) : Bool := c.fields.all fun f => f.1 != "*"

def layoutNames (ty : String) : Option (List String) :=
  (Gen.Layout.structs.find? fun s => s.name == ty).map fun s => s.fields.map (·.1)

theorem fields_cover_layout :
    ∀ c ∈ ctors, literal c = true → layoutNames c.ty = some (c.fields.map (·.1)) := by decide

theorem no_parameter_dropped :
    ∀ c ∈ ctors, ∀ p ∈ c.params, ∃ f ∈ c.fields, p.1 ∈ f.2.reads := by decide

/-- field names that begin with `padding` -/
def isPadding (f : String) : Bool := f.toList.take 7 == "padding".toList

theorem padding_is_zero :
    ∀ c ∈ ctors, ∀ f ∈ c.fields, isPadding f.1 = true → (f.2 = .lit 0 ∨ ∃ n, f.2 = .zeros n) := by
  intro c hc f hf hp
  have key : ∀ c ∈ ctors, ∀ f ∈ c.fields, isPadding f.1 = true →
      (match f.2 with | .lit 0 => true | .zeros _ => true | _ => false) = true := by decide
  have h := key c hc f hf hp
  cases hi : f.2 <;> simp [hi] at h ⊢
  · rename_i v
    cases v <;> simp_all
  
def understood : Init → Bool
  | .other _ => false
  | _ => true

theorem initialisers_understood : ∀ c ∈ ctors, ∀ f ∈ c.fields, understood f.2 = true := by decide

example : (ctors.filter literal).length = 20 ∧ ctors.length = 22 := by decide
example : ((ctors.flatMap (·.fields)).filter fun f => isPadding f.1).length = 6 := by decide

/-! ## `VhostUserShMemConfig::new`: one size per region id, for every id -/

theorem take_append_replicate_ge {α} (l : List α) (a : α) (n m : Nat) (h : n ≤ m) :
    (l ++ List.replicate m a).take n = (l ++ List.replicate n a).take n := by
  rw [List.take_append, List.take_append, List.take_replicate, List.take_replicate]
  congr 2
  omega

theorem prefixPad_length (xs : List Nat) (n : Nat) : (prefixPad xs n).length = n := by
  simp [prefixPad, List.length_take, List.length_append, List.length_replicate]

theorem prefixPad_get (xs : List Nat) (n i : Nat) (h : i < n) : (prefixPad xs n)[i]? = some (xs.getD i 0) := by
  unfold prefixPad
  rw [List.getElem?_take_of_lt h]
  by_cases hi : i < xs.length
  · rw [List.getElem?_append_left hi]
    simp [List.getD, List.getElem?_eq_getElem hi]
  · have hi' : xs.length ≤ i := Nat.le_of_not_lt hi
    rw [List.getElem?_append_right hi']
    have : i - xs.length < n := by omega
    simp [List.getD, this, List.getElem?_eq_none hi']

theorem shmem_new_init :
    (find ctors "VhostUserShMemConfig" "new").bind (·.init "memory_sizes") = some (.prefixPad "memory" 256) := by decide

/-- what `VhostUserShMemConfig::new(nregions, memory)` stores in `memory_sizes`, for every `memory` and every id -/
theorem shmem_sizes_every_id (env : Env) (mask : String → Nat) (id : Nat) (h : id < 256) :
    ∃ ws, evalInit env mask (.prefixPad "memory" 256) = some ws ∧ ws.length = 256 ∧
      ws[id]? = some ((env "memory").getD id 0) :=
  ⟨_, rfl, prefixPad_length _ _, prefixPad_get _ _ _ h⟩

example : (prefixPad [7, 8, 9] 4) = [7, 8, 9, 0] ∧ (prefixPad (List.range 300) 256)[255]? = some 255 := by decide

/-- bytes: `k`-byte little-endian words, first `n`, zero padded, is the zero-padded prefix of the bytes -/
theorem flatMap_leBytes_replicate_zero (k n : Nat) :
    (List.replicate n 0).flatMap (leBytes k) = List.replicate (k * n) (0 : UInt8) := by
  have hz : leBytes k 0 = List.replicate k (0 : UInt8) := by
    induction k with
    | zero => rfl
    | succ k ih => simp [leBytes, ih, List.replicate_succ]
  induction n with
  | zero => simp
  | succ n ih =>
    rw [List.replicate_succ, List.flatMap_cons, ih, hz, Nat.mul_succ, Nat.add_comm, List.replicate_append_replicate]

theorem shmem_sizes_bytes (k : Nat) (xs : List Nat) (n : Nat) :
    ((xs.flatMap (leBytes k)) ++ List.replicate (k * n) (0 : UInt8)).take (k * n)
      = (prefixPad xs n).flatMap (leBytes k) := by
  induction xs generalizing n with
  | nil =>
    simp only [List.flatMap_nil, List.nil_append, prefixPad]
    rw [List.take_of_length_le (by simp), List.take_of_length_le (by simp), flatMap_leBytes_replicate_zero]
  | cons x xs ih =>
    cases n with
    | zero => simp [prefixPad]
    | succ n =>
      have hp : prefixPad (x :: xs) (n + 1) = x :: prefixPad xs n := by
        simp only [prefixPad, List.cons_append, List.take_succ_cons]
        rw [take_append_replicate_ge xs 0 n (n + 1) (by omega)]
      rw [hp, List.flatMap_cons, List.flatMap_cons, List.append_assoc, ← ih n]
      have hl : (leBytes k x).length = k := leBytes_length k x
      have : k * (n + 1) = (leBytes k x).length + k * n := by rw [hl, Nat.mul_succ, Nat.add_comm]
      rw [this, List.take_length_add_append]
      congr 1
      -- the padding behind the prefix that is kept may be shortened to `k * n`
      exact take_append_replicate_ge _ 0 (k * n) _ (by omega)

/-- the reply body of `Model.BackendSrv` for GET_SHMEM_CONFIG (2048 bytes) is the encoding of the array above -/
example (xs : List Nat) :
    ((xs.flatMap (leBytes 8)) ++ List.replicate 2048 (0 : UInt8)).take 2048 = (prefixPad xs 256).flatMap (leBytes 8) :=
  shmem_sizes_bytes 8 xs 256

/-! ## `VhostUserVringAddr::from_config_data`: the log address does not depend on the flags -/

theorem from_config_data_log :
    (find ctors "VhostUserVringAddr" "from_config_data").bind (·.init "log") = some (.fieldOr "config_data" "log_addr" 0) := by
  decide

theorem vring_addr_log_unconditional (env env' : Env) (mask : String → Nat)
    (h : env "config_data.log_addr" = env' "config_data.log_addr") :
    evalInit env mask (.fieldOr "config_data" "log_addr" 0) = evalInit env' mask (.fieldOr "config_data" "log_addr" 0) := by
  simp [evalInit, h]

theorem vring_addr_log_value (env : Env) (mask : String → Nat) (a : Nat) (h : env "config_data.log_addr" = [a]) :
    evalInit env mask (.fieldOr "config_data" "log_addr" 0) = some [a] := by
  simp [evalInit, h]

theorem vring_addr_log_none (env : Env) (mask : String → Nat) (h : env "config_data.log_addr" = []) :
    evalInit env mask (.fieldOr "config_data" "log_addr" 0) = some [0] := by
  simp [evalInit, h]

/-! ## the header constructor -/

theorem header_new_init :
    (find ctors "VhostUserMsgHeader" "new").bind (·.init "flags") = some (.masked "flags" "VhostUserHeaderFlag::ALL_FLAGS" 1) := by
  decide

/-- the meaning of the flag-set names that occur in `.masked` initialisers: the generated constants of `Gen.Flags` -/
def maskOf : String → Nat
  | "VhostUserHeaderFlag::ALL_FLAGS" => Gen.Flags.VhostUserHeaderFlag.ALL_FLAGS
  | _ => 0

/-- the flags word `VhostUserMsgHeader::new` stores is `Model.BackendSrv.hdrNewFlags` of the argument, for every
argument; `Props.C01.hdr_new_version_and_flags` is the statement about that function for all 2^32 words (version 1,
only REPLY / NEED_REPLY survive) -/
theorem header_new_flags (env : Env) :
    evalInit env maskOf (.masked "flags" "VhostUserHeaderFlag::ALL_FLAGS" 1)
      = some ((env "flags").map Model.BackendSrv.hdrNewFlags) := by
  simp [evalInit, maskOf, Model.BackendSrv.hdrNewFlags, Gen.Flags.VhostUserHeaderFlag.ALL_FLAGS]

example : evalInit (fun _ => [0xffffffff]) maskOf (.masked "flags" "VhostUserHeaderFlag::ALL_FLAGS" 1) = some [0xd] := by decide

end Props.Ctors
