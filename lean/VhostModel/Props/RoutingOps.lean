import VhostModel.Gen.RoutingOps
import VhostModel.Lemmas.ArithOps
import VhostModel.Props.C17
/-!
# The routing arithmetic of the model is the routing arithmetic of the source

`Gen/RoutingOps.lean` is regenerated on every run from `vhost-user-backend/src/handler.rs` and `src/event_loop.rs`:

* `VhostUserHandler::new`: the bit test that puts ring `index` into a worker's slice, the length of `vrings`, the worker id
  and the position of the worker in `handlers`;
* `update_vring_registration`, `unregister_vring_kick`: one `RouteRow` per epoll call — the shifted mask, the bit test, the
  event id `queues_mask.count_ones() - shifted.count_ones()`, the definedness of the shift (`index < 64`) and of the `u32`
  subtraction, which handler is addressed, the `break`; `initialize_vring` (delegates); every call site of the three with
  its index argument (`index` / `index as u8`);
* `VringEpollHandler::new` (id of the exit event), `register_listener` / `unregister_listener` (the refusal condition),
  `register_event` / `unregister_event`, `run` (`event.data() as u16`), `handle_event` (exit test, ring test, ring index,
  id handed to the backend).

Masks are `BitVec 64` in the model and naturals `< 2^64` (`m.toNat`) in the generated functions.  The theorems hold for
**all** masks and indexes; where the Rust shift is only defined for `index < 64` the generated definedness condition says
so and `*_defined` proves it under that hypothesis only.
-/
namespace Props.RoutingOps
open Model.Routing Lemmas.ArithOps

/-! ## the bit test and the worker slices (`VhostUserHandler::new`) -/

/-- `hasQueue` is the generated bit test, for every mask and every index -/
theorem hasQueue_eq_keep (m : U64) (q : Nat) : hasQueue m q = Gen.RoutingOps.new.keep m.toNat q := by
  rw [Lemmas.Routing.hasQueue_iff]
  unfold Spec.Routing.inMask Gen.RoutingOps.new.keep
  rw [shift_and_one]

/-- the shift of the test is defined exactly for `index < 64` -/
theorem keep_defd (m q : Nat) : Gen.RoutingOps.new.keep.defd m q = decide (q < 64) := rfl

/-- **`threadVrings` is the generated filter loop** over the `vrings_len num_queues = num_queues` rings -/
theorem threadVrings_eq (masks : List U64) (n t : Nat) :
    threadVrings masks n t = masks[t]?.map (fun m => Gen.RoutingOps.new.slice.run n m.toNat) := by
  unfold threadVrings ArithSig.FilterLoop.run
  congr 1
  funext m
  have : (fun q => hasQueue m q) = Gen.RoutingOps.new.slice.keep m.toNat := by
    funext q; exact hasQueue_eq_keep m q
  simp only [Gen.RoutingOps.new.slice, Gen.RoutingOps.new.vrings_len, Nat.sub_zero] at this ⊢
  rw [← this]

theorem vrings_len_eq (n : Nat) : Gen.RoutingOps.new.vrings_len n = n := rfl

/-- no shift of the slice loop is undefined when there are at most 64 queues -/
theorem slice_defined (n m : Nat) (hn : n ≤ 64) : Gen.RoutingOps.new.slice.defined n m = true := by
  unfold ArithSig.FilterLoop.defined
  rw [List.all_eq_true]
  intro q hq
  have := List.mem_range.1 hq
  simp only [Gen.RoutingOps.new.slice, Gen.RoutingOps.new.vrings_len, Nat.sub_zero] at this ⊢
  rw [keep_defd]; exact decide_eq_true (by omega)

/-- the worker built for the mask at position `t` gets thread id `t` and is `handlers[t]` -/
theorem worker_position (t : Nat) : Gen.RoutingOps.new.worker_id t = t ∧ Gen.RoutingOps.new.handler_pos t = t := ⟨rfl, rfl⟩

/-! ## the event index (every occurrence) -/

/-- the generated rows: one per epoll call behind the mask arithmetic -/
theorem route_rows_count : Gen.RoutingOps.routeRows.length = 3 := rfl

theorem route_rows_ops : Gen.RoutingOps.routeRows.map (fun r => (r.fn, r.op)) =
    [("update_vring_registration", "register_event"), ("update_vring_registration", "unregister_event"),
     ("unregister_vring_kick", "unregister_event")] := by decide

/-- the canonical expressions (`update_vring_registration`) against the model, for all masks and indexes -/
theorem evt_idx_eq (m : U64) (q : Nat) : Gen.RoutingOps.update_vring_registration.evt_idx m.toNat q = evtIdx m q := by
  unfold Gen.RoutingOps.update_vring_registration.evt_idx Gen.RoutingOps.update_vring_registration.shifted_queues_mask
  rw [evtIdx_toNat]

theorem test_eq (m : U64) (q : Nat) :
    (((Gen.RoutingOps.update_vring_registration.shifted_queues_mask m.toNat q) &&& 1) == 1) = hasQueue m q := by
  rw [hasQueue_eq_keep]; rfl

/-- **every occurrence generates the same expressions** (as functions): bit test, event id, their definedness conditions,
the handler addressed and the `break` -/
theorem rows_all_equal : ∀ r ∈ Gen.RoutingOps.routeRows,
    r.test = (fun m q => ((Gen.RoutingOps.update_vring_registration.shifted_queues_mask m q) &&& 1) == 1) ∧
    r.testDefd = (fun _ q => decide (q < 64)) ∧
    r.data = Gen.RoutingOps.update_vring_registration.evt_idx ∧
    r.dataDefd = (fun m q => decide (ArithSig.countOnes 64 (m >>> q) ≤ ArithSig.countOnes 64 m)) ∧
    r.handler = (fun t => t) ∧ r.breaks = true := by
  intro r hr
  simp only [Gen.RoutingOps.routeRows, Gen.RoutingOps.update_vring_registration.rows,
    Gen.RoutingOps.unregister_vring_kick.rows, List.cons_append, List.nil_append, List.mem_cons, List.not_mem_nil,
    or_false] at hr
  rcases hr with rfl | rfl | rfl <;> exact ⟨rfl, rfl, rfl, rfl, rfl, rfl⟩

/-- **every occurrence is the model**: for all masks (`BitVec 64`) and all indexes the bit test is `hasQueue`, the event id
is `evtIdx`; for `index < 64` the shift and the `u32` subtraction are defined -/
theorem rows_eq_model : ∀ r ∈ Gen.RoutingOps.routeRows, ∀ (m : U64) (q : Nat),
    r.test m.toNat q = hasQueue m q ∧ r.data m.toNat q = evtIdx m q ∧
    r.testDefd m.toNat q = decide (q < 64) ∧ (q < 64 → r.dataDefd m.toNat q = true) := by
  intro r hr m q
  obtain ⟨h1, h2, h3, h4, _, _⟩ := rows_all_equal r hr
  rw [h1, h2, h3, h4]
  refine ⟨test_eq m q, evt_idx_eq m q, rfl, ?_⟩
  intro hq
  exact decide_eq_true (countOnes_shift_le m.toNat q m.isLt (by omega))

/-- the loop of a row, started at enumeration index `t`, is `registrationFrom` -/
theorem row_runFrom_eq (r : ArithSig.RouteRow) (hr : r ∈ Gen.RoutingOps.routeRows) (q : Nat) (hq : q < 64)
    (masks : List U64) (t : Nat) :
    r.runFrom q t (masks.map (·.toNat)) =
      (match registrationFrom q t masks with | none => .none | some (t', e) => .some t' e) := by
  obtain ⟨_, _, _, _, h5, _⟩ := rows_all_equal r hr
  induction masks generalizing t with
  | nil => rfl
  | cons m ms ih =>
    obtain ⟨h1, h2, h3, h4⟩ := rows_eq_model r hr m q
    simp only [List.map_cons, ArithSig.RouteRow.runFrom, registrationFrom, h1, h2, h3, h4 hq, hq, decide_true, if_true, h5]
    cases hasQueue m q
    · simp only [Bool.false_eq_true, if_false]; exact ih (t + 1)
    · simp

/-- **`registration` is every generated row's loop**: same thread, same event id, no undefined arithmetic for `index < 64` -/
theorem registration_eq (masks : List U64) (q : Nat) (hq : q < 64) : ∀ r ∈ Gen.RoutingOps.routeRows,
    r.run (masks.map (·.toNat)) q = (match registration masks q with | none => .none | some (t, e) => .some t e) := by
  intro r hr
  exact row_runFrom_eq r hr q hq masks 0

/-- `initialize_vring` hands its index on unchanged -/
theorem initialize_vring_delegates :
    Gen.RoutingOps.initialize_vring.delegates = "update_vring_registration" ∧
    ∀ i, Gen.RoutingOps.initialize_vring.index_arg i = i := ⟨by decide, fun _ => rfl⟩

/-- every call site passes the ring index itself or its `as u8` truncation: exact for indexes below 256 -/
theorem call_sites_exact : ∀ c ∈ Gen.RoutingOps.callSites, ∀ i, i < 256 → c.2.2.2.2.2 i = i := by
  intro c hc i hi
  simp only [Gen.RoutingOps.callSites, List.mem_cons, List.not_mem_nil, or_false] at hc
  rcases hc with rfl | rfl | rfl | rfl | rfl | rfl | rfl | rfl | rfl <;>
    first | rfl | (show ArithSig.trunc 8 i = i; unfold ArithSig.trunc; omega)

/-- … and not beyond: the `index as u8` of `set_vring_enable` & co. wraps at 256 (with more than 256 queues ring 256 would be
routed as ring 0; `Model.Routing` is used with `n ≤ 64` only, see its header) -/
theorem call_site_truncation_counterexample : ∃ c ∈ Gen.RoutingOps.callSites, c.2.2.2.2.2 256 = 0 :=
  ⟨("set_vring_enable", "update_vring_registration", "index as u8", "u32", 32, fun index => ArithSig.trunc 8 index),
    by simp [Gen.RoutingOps.callSites], by decide⟩

/-! ## listeners -/

/-- **`listenerAccepted` is the negated generated refusal**, for all ids and queue counts; the id is handed on unchanged -/
theorem listenerAccepted_eq (n : Nat) (data : U64) :
    listenerAccepted n data = !Gen.RoutingOps.register_listener.refuse data.toNat n := by
  unfold listenerAccepted Gen.RoutingOps.register_listener.refuse
  simp only [gt_iff_lt]

theorem unregister_listener_same_rule (data n : Nat) :
    Gen.RoutingOps.unregister_listener.refuse data n = Gen.RoutingOps.register_listener.refuse data n := rfl

theorem listener_guard_defined (data n : Nat) :
    Gen.RoutingOps.register_listener.refuse.defd data n = true ∧ Gen.RoutingOps.unregister_listener.refuse.defd data n = true :=
  ⟨rfl, rfl⟩

/-- the id travels unchanged from `register_listener` through `register_event` into the epoll registration -/
theorem listener_data_unchanged (data n : Nat) :
    Gen.RoutingOps.register_event.epoll_data (Gen.RoutingOps.register_listener.pass_data data n) = data ∧
    Gen.RoutingOps.unregister_event.epoll_data (Gen.RoutingOps.unregister_listener.pass_data data n) = data ∧
    Gen.RoutingOps.register_listener.delegates = "register_event" ∧
    Gen.RoutingOps.unregister_listener.delegates = "unregister_event" ∧
    Gen.RoutingOps.register_event.epoll_op = "ControlOperation::Add" ∧
    Gen.RoutingOps.unregister_event.epoll_op = "ControlOperation::Delete" := ⟨rfl, rfl, by decide, by decide, by decide, by decide⟩

/-! ## dispatch (`run` + `handle_event`) -/

theorem exitId_eq (n : Nat) : exitId n = Gen.RoutingOps.worker_new.exit_data n := rfl

/-- `event.data() as u16` -/
theorem evType_eq (data : U64) : evType data = Gen.RoutingOps.run.ev_type data.toNat := by
  unfold evType Gen.RoutingOps.run.ev_type ArithSig.trunc
  rw [BitVec.toNat_setWidth]

theorem dispatch_arg_eq (data : Nat) : Gen.RoutingOps.run.dispatch_arg data = Gen.RoutingOps.run.ev_type data := rfl

/-- the inputs of the generated `handle_event` -/
def heIn (n sliceLen : Nat) (hasExit : Bool) (ev : Nat) : Gen.RoutingOps.handle_event.In :=
  { device_event := ev, has_exit := hasExit, num_queues := n, vrings_len := sliceLen }

/-- **`dispatch` is the generated decision sequence**: exit guard, ring test, otherwise the backend; the ring is indexed and
the backend is called with the 16-bit id that `run` computed; nothing faults and the `Vec` index is in bounds -/
theorem dispatch_eq (n sliceLen : Nat) (hasExit : Bool) (data : U64) :
    let x := heIn n sliceLen hasExit (Gen.RoutingOps.run.dispatch_arg data.toNat)
    (dispatch n sliceLen hasExit data =
      match ArithSig.runGuards Gen.RoutingOps.handle_event.guards x with
      | .exit _ => .exit
      | _ => if Gen.RoutingOps.handle_event.is_ring x then .ring (Gen.RoutingOps.handle_event.ring_index x)
             else .custom (Gen.RoutingOps.handle_event.backend_event x)) ∧
    ArithSig.runGuards Gen.RoutingOps.handle_event.guards x ≠ .fault ∧
    (Gen.RoutingOps.handle_event.is_ring x = true → Gen.RoutingOps.handle_event.ring_index.defd x = true) ∧
    Gen.RoutingOps.handle_event.backend_event x = evType data ∧ Gen.RoutingOps.handle_event.ring_index x = evType data := by
  intro x
  have hx : x = heIn n sliceLen hasExit (evType data) := by
    show heIn _ _ _ _ = _; rw [dispatch_arg_eq, ← evType_eq]
  rw [hx]
  simp only [dispatch, ArithSig.runGuards, ArithSig.runGuardsFrom, Gen.RoutingOps.handle_event.guards,
    Gen.RoutingOps.handle_event.is_ring, Gen.RoutingOps.handle_event.ring_index,
    Gen.RoutingOps.handle_event.ring_index.defd, Gen.RoutingOps.handle_event.backend_event, heIn]
  by_cases h : (hasExit && evType data == n) = true
  · simp [h]
  · by_cases h2 : evType data < sliceLen <;> simp [h, h2]

/-- a listener registered with `data` and fired: the model's decision is the generated refusal followed by the generated
dispatch of the same `data` -/
theorem listener_eq (n sliceLen : Nat) (hasExit : Bool) (data : U64) :
    listener n sliceLen hasExit data =
      if Gen.RoutingOps.register_listener.refuse data.toNat n then none
      else some (dispatch n sliceLen hasExit
        (BitVec.ofNat 64 (Gen.RoutingOps.register_event.epoll_data (Gen.RoutingOps.register_listener.pass_data data.toNat n)))) := by
  unfold listener
  rw [listenerAccepted_eq]
  simp only [Gen.RoutingOps.register_event.epoll_data, Gen.RoutingOps.register_listener.pass_data, BitVec.ofNat_toNat,
    BitVec.setWidth_eq]
  cases Gen.RoutingOps.register_listener.refuse data.toNat n <;> simp

example : Gen.RoutingOps.update_vring_registration.evt_idx 0b1010 3 = 1 ∧
    Gen.RoutingOps.new.slice.run 4 0b1010 = [1, 3] ∧
    Gen.RoutingOps.register_listener.refuse 0x10003 2 = true ∧ Gen.RoutingOps.run.ev_type 0x10003 = 3 := by decide

end Props.RoutingOps
