import VhostModel.Lemmas.Kern
import VhostModel.Gen.Ioctl
/-!
# C19 — kernel vhost / vhost-net / vhost-vsock / vhost-vDPA operations issue exactly the UAPI ioctls with UAPI layouts

`Model.Kern` (what the code does; request numbers, argument layouts, request-per-method, the IOTLB writer/parsers come
from `Gen.Ioctl`, i.e. from today's `vhost_kern/*.rs`) against `Spec.Uapi` (hand transcription of `<linux/vhost.h>` /
`<linux/vhost_types.h>`, itself compared with the system headers by `tools/uapi_probe.c` on every run).

Sections and main theorems:

1. tables — `ioctl_numbers_match_uapi` (every `ioctl_io*_nr!` item has the direction, type, number, argument size and
   hence request value of the UAPI ioctl of that name), `op_issues_uapi_ioctl` (every method passes the request the UAPI
   defines for that operation — **false on the unmodified tree** for `VhostVdpa.set_group_asid`, F-C19-asid),
   `every_uapi_operation_is_issued`, `op_wrapper_fits_direction`, `binding_layouts_match_uapi`,
   `binding_consts_match_uapi`, `ops_as_modelled` (the argument initialisers the hand-written model assumes are the ones
   in the source), `layout_scenarios_meet_uapi`, `request_scenarios_meet_uapi`;
2. `arg_bytes_carry_values` — an argument image built from non-overlapping members reads back, at each member's offset,
   the caller's value modulo the member's width (all layouts, all values);
3. one theorem per operation, `<op>_meets_uapi`: for **all** argument values, write-back patterns, kernel return codes,
   memory layouts and backends offering the operation, the model's run is the stated closed form (request number and
   byte image) and `Spec.Uapi.problem` finds nothing wrong with it: right request, argument bytes carrying the caller's
   values at the UAPI offsets (including `set_mem_table` for every table of 1..=255 regions and `get_config`/`set_config`
   for every buffer), returned value = what the kernel wrote back, kernel failure reported as error;
4. IOTLB — `iotlb_version_by_acked_feature` (v2 layout iff bit 1 of the acknowledged backend features),
   `iotlb_v1_roundtrip`, `iotlb_v2_roundtrip` (`parse (write m) = m` for all field values), `send_iotlb_msg_meets_uapi`,
   `dma_map_meets_uapi`, `dma_unmap_meets_uapi`, `parse_meets_uapi`;
5. ring configuration — `sizeBad_iff`, `isLogAddrValid_false_iff`, `invalid_ring_config_refused_before_ioctl`,
   `ring_addr_translation`, `ring_addr_unchanged_vdpa`, `set_vring_addr_meets_uapi`, `set_vring_addr_vdpa_meets_uapi`.

Modelled, not proved: that the compiled crate behaves like `Model.Kern` — tied by the translator (`Gen.Ioctl`) and by the
`kern` correspondence family (every scenario: harness observation = `Drv.Kern` prediction).  Values wider than their
UAPI field are compared modulo the field width (see the header of `Spec/Uapi.lean` for the other readings).
-/

namespace Props.C19
open Base Base.K Gen.Ioctl Model.Kern Lemmas.Kern

/-- everything of a scenario that is not the backend, the operation and its arguments -/
structure Env where
  buf : Bytes
  mem : List (Nat × Nat × Nat)
  feat : Nat
  wb : Bytes
  rc : Nat

def inp (be op : String) (a : List Nat) (e : Env) : Inp :=
  { be, op, a, buf := e.buf, mem := e.mem, feat := e.feat, wb := e.wb, rc := e.rc }
/-- result of an operation that returns `()` -/
def unitR (e : Env) : Ret := if e.rc ≠ 0 then .err "ioctl" else .ok
/-- the argument object after the stand-in kernel handled `req` -/
def after (e : Env) (req : Nat) (obj : Bytes) : Bytes := afterCall (inp "" "" [] e) req obj
/-- the four backends (`kern` = the blanket impls on a plain `VhostKernBackend` type) -/
def BES : List String := ["kern", "net", "vsock", "vdpa"]
/-- the backends with `VhostKernFeatures` / `VhostIotlbBackend` -/
def FBES : List String := ["kern", "vdpa"]
/-- closes `FieldsOk` goals on concrete member lists -/
macro "fields_ok" : tactic => `(tactic| repeat' (first | exact trivial | refine ⟨⟨_, rfl, rfl⟩, ?_⟩))

/-! ## 1. tables -/

/-- every generated `ioctl_io*_nr!` row: the UAPI defines an ioctl of that name with the same direction,
    type, number and argument size, hence the same request value -/
theorem ioctl_numbers_match_uapi :
    ∀ r ∈ table, ∃ u ∈ Spec.Uapi.ioctls, u.name = r.name ∧ u.dir = dirOf r.kind ∧ r.ty = Spec.Uapi.VHOST_VIRTIO ∧
      u.nr = r.nr ∧ u.size = argSize r ∧ u.request = requestOfRow r ∧ (requestOfRow r).isSome := by
  decide +kernel

/-- every method of the four backends passes the request the UAPI defines for that operation -/
theorem op_issues_uapi_ioctl : ∀ o ∈ ops, Spec.Uapi.requestFor (o.scope ++ "." ++ o.method) = some o.request := by
  decide +kernel

/-- … and no operation of the UAPI map is missing from the source -/
theorem every_uapi_operation_is_issued :
    ∀ kv ∈ Spec.Uapi.opTable, ∃ o ∈ ops, o.scope ++ "." ++ o.method = kv.1 ∧ o.request = kv.2 := by
  decide +kernel

/-- requests without argument go through `ioctl()`, requests the kernel writes to go through a mutable reference / pointer -/
theorem op_wrapper_fits_direction :
    ∀ o ∈ ops, ∃ u ∈ Spec.Uapi.ioctls, u.name = o.request ∧
      (u.dir = Spec.Uapi.IOC_NONE ↔ o.wrapper = "ioctl") ∧
      (u.dir / 2 = 1 → o.wrapper = "ioctl_with_mut_ref" ∨ o.wrapper = "ioctl_with_ptr") := by
  decide +kernel

/-- size, alignment and every member offset/width of every UAPI struct, computed from the binding's `#[repr(C)]`
    definitions by the C layout algorithm -/
theorem binding_layouts_match_uapi :
    ∀ sl ∈ Spec.Uapi.layouts,
      (layoutOf sl.1).map (fun l => (l.size, l.align)) = some (sl.2.size, sl.2.align) ∧
      ∀ f ∈ sl.2.fields, leafAt sl.1 (Spec.Uapi.bindingPath sl.1 f.1) = some (f.2.1, f.2.2) := by
  decide +kernel

theorem binding_consts_match_uapi :
    ∀ nv ∈ Spec.Uapi.constTable, constOf (if nv.1 == "VHOST_VIRTIO" then "VHOST" else nv.1) = some nv.2 := by
  decide +kernel

set_option synthInstance.maxSize 1024 in
set_option synthInstance.maxHeartbeats 200000 in
/-- the source still initialises every ioctl argument the way the hand-written model assumes -/
theorem ops_as_modelled :
    ops.map (fun o => (o.scope, o.method, o.wrapper, o.fd, o.arg, o.inits)) = modelledOps ∧
    modelledLits.all (fun l => lits.contains l) = true ∧ delegates = modelledDelegates ∧
    iotlbWriter.map (fun b => (b.cond, b.struct, b.writeArgs)) = modelledWriter := by
  refine ⟨by decide +kernel, by decide +kernel, by decide +kernel, by decide +kernel⟩

/-- scenario with default environment (used for the operations that take no arguments) -/
def inp0 (op : String) : Inp := { be := "none", op, a := [], buf := [], mem := [], feat := 0, wb := [], rc := 0 }

/-- the layout the model computes for every binding struct is accepted by the Spec's layout comparison
    (size, alignment, offset of every UAPI member), i.e. what `kern be=none op=layout:<struct>` checks on rustc's layout -/
theorem layout_scenarios_meet_uapi :
    ∀ s ∈ structs.map (·.name), ∃ o, run (inp0 ("layout:" ++ s)) = some o ∧ Spec.Uapi.problem (inp0 ("layout:" ++ s)) o = none := by
  decide +kernel

/-- … and the request number the model computes for every `ioctl_io*_nr!` item is the UAPI's -/
theorem request_scenarios_meet_uapi :
    ∀ r ∈ table, ∃ o, run (inp0 ("request:" ++ r.name)) = some o ∧ Spec.Uapi.problem (inp0 ("request:" ++ r.name)) o = none := by
  decide +kernel

/-! ## 2. argument images -/

/-- **argument bytes carry the caller's values**: whatever the member offsets and widths are, if the members lie inside
    the object and do not overlap, the image built from `(offset, width, value)` triples has the object's size, reads
    back each value (modulo the member's width) at the member's offset, and is zero everywhere else -/
theorem arg_bytes_carry_values (size : Nat) (ls : List Leaf)
    (hb : ∀ l ∈ ls, l.1 + l.2.1 ≤ size) (hd : ls.Pairwise LeafDisjoint) :
    (imageOf size ls).length = size ∧
    (∀ l ∈ ls, peek (imageOf size ls) l.1 l.2.1 = l.2.2 % 256 ^ l.2.1) ∧
    (∀ o w, (∀ l ∈ ls, l.1 + l.2.1 ≤ o ∨ o + w ≤ l.1) → peek (imageOf size ls) o w = 0) :=
  ⟨imageOf_length size ls hb, peek_imageOf size ls hb hd, fun o w h => peek_imageOf_untouched size ls o w hb h⟩

/-- the hypotheses are met by the `vhost_vring_addr` image: six members, 40 bytes -/
example (q f d u a l : Nat) : (imageOf 40 [(0, 4, q), (4, 4, f), (8, 8, d), (16, 8, u), (24, 8, a), (32, 8, l)]).length = 40 ∧
    peek (imageOf 40 [(0, 4, q), (4, 4, f), (8, 8, d), (16, 8, u), (24, 8, a), (32, 8, l)]) 16 8 = u % 256 ^ 8 := by
  obtain ⟨h1, h2, _⟩ := arg_bytes_carry_values 40 [(0, 4, q), (4, 4, f), (8, 8, d), (16, 8, u), (24, 8, a), (32, 8, l)]
    (by simp) (by simp [LeafDisjoint])
  exact ⟨h1, h2 (16, 8, u) (by simp)⟩

/-! ## 3. one theorem per operation

Each states the closed form of the model's run (request number, argument image, result) for all argument values and
environments, and that the Spec's verdict on it is "no problem". -/

theorem get_features_meets_uapi (be : String) (hbe : be ∈ BES) (e : Env) :
    run (inp be "get_features" [] e) = some ⟨[.io 0x8008af00 (leBytes 8 0)], if e.rc ≠ 0 then .err "ioctl" else .okv (leVal (after e 0x8008af00 (leBytes 8 0))), none⟩ ∧
    ∀ o, run (inp be "get_features" [] e) = some o → Spec.Uapi.problem (inp be "get_features" [] e) o = none := by
  simp only [BES, List.mem_cons, List.mem_nil_iff, or_false] at hbe
  rcases hbe with rfl | rfl | rfl | rfl
  all_goals
    refine ⟨rfl, ?_⟩
    intro o ho
    rw [show run _ = some _ from rfl] at ho
    cases ho
    refine problem_ioctl _ _ "VhostBackend.get_features" (.fields "" []) .scalar false ⟨"VHOST_GET_FEATURES", 2, 0x00, "__u64"⟩ 0x8008af00 8 (leBytes 8 0)
      rfl (by decide +kernel) (by decide +kernel) (by decide +kernel) rfl ?_ ?_ (Or.inl rfl)
    · exact argProblem_fields _ "" [] _ rfl (by intro pv h; cases h)
    · exact retProblem_scalar _ 0x8008af00 (leBytes 8 0) (by decide) (by decide) rfl

theorem set_features_meets_uapi (be : String) (hbe : be ∈ BES) (f : Nat) (e : Env) :
    run (inp be "set_features" [f] e) = some ⟨[.io 0x4008af00 (leBytes 8 f)], unitR e, none⟩ ∧
    ∀ o, run (inp be "set_features" [f] e) = some o → Spec.Uapi.problem (inp be "set_features" [f] e) o = none := by
  simp only [BES, List.mem_cons, List.mem_nil_iff, or_false] at hbe
  rcases hbe with rfl | rfl | rfl | rfl
  all_goals
    refine ⟨rfl, ?_⟩
    intro o ho
    rw [show run _ = some _ from rfl] at ho
    cases ho
    refine problem_ioctl _ _ "VhostBackend.set_features" (.scalar f) .unit false ⟨"VHOST_SET_FEATURES", 1, 0x00, "__u64"⟩ 0x4008af00 8 (leBytes 8 f)
      rfl (by decide +kernel) (by decide +kernel) (by decide +kernel) rfl ?_ ?_ (Or.inl rfl)
    · exact argProblem_scalar_le 8 f
    · exact retProblem_unit _ _ _

theorem set_owner_meets_uapi (be : String) (hbe : be ∈ BES) (e : Env) :
    run (inp be "set_owner" [] e) = some ⟨[.io 0xaf01 (zeros 8)], unitR e, none⟩ ∧
    ∀ o, run (inp be "set_owner" [] e) = some o → Spec.Uapi.problem (inp be "set_owner" [] e) o = none := by
  simp only [BES, List.mem_cons, List.mem_nil_iff, or_false] at hbe
  rcases hbe with rfl | rfl | rfl | rfl
  all_goals
    refine ⟨rfl, ?_⟩
    intro o ho
    rw [show run _ = some _ from rfl] at ho
    cases ho
    refine problem_ioctl _ _ "VhostBackend.set_owner" .none .unit false ⟨"VHOST_SET_OWNER", 0, 0x01, ""⟩ 0xaf01 0 (zeros 8)
      rfl (by decide +kernel) (by decide +kernel) (by decide +kernel) rfl ?_ ?_ (Or.inl rfl)
    · rfl
    · exact retProblem_unit _ _ _

theorem reset_owner_meets_uapi (be : String) (hbe : be ∈ BES) (e : Env) :
    run (inp be "reset_owner" [] e) = some ⟨[.io 0xaf02 (zeros 8)], unitR e, none⟩ ∧
    ∀ o, run (inp be "reset_owner" [] e) = some o → Spec.Uapi.problem (inp be "reset_owner" [] e) o = none := by
  simp only [BES, List.mem_cons, List.mem_nil_iff, or_false] at hbe
  rcases hbe with rfl | rfl | rfl | rfl
  all_goals
    refine ⟨rfl, ?_⟩
    intro o ho
    rw [show run _ = some _ from rfl] at ho
    cases ho
    refine problem_ioctl _ _ "VhostBackend.reset_owner" .none .unit false ⟨"VHOST_RESET_OWNER", 0, 0x02, ""⟩ 0xaf02 0 (zeros 8)
      rfl (by decide +kernel) (by decide +kernel) (by decide +kernel) rfl ?_ ?_ (Or.inl rfl)
    · rfl
    · exact retProblem_unit _ _ _

theorem set_log_base_meets_uapi (be : String) (hbe : be ∈ BES) (base : Nat) (e : Env) :
    run (inp be "set_log_base" [base, 0] e) = some ⟨[.io 0x4008af04 (leBytes 8 base)], unitR e, none⟩ ∧
    ∀ o, run (inp be "set_log_base" [base, 0] e) = some o → Spec.Uapi.problem (inp be "set_log_base" [base, 0] e) o = none := by
  simp only [BES, List.mem_cons, List.mem_nil_iff, or_false] at hbe
  rcases hbe with rfl | rfl | rfl | rfl
  all_goals
    refine ⟨rfl, ?_⟩
    intro o ho
    rw [show run _ = some _ from rfl] at ho
    cases ho
    refine problem_ioctl _ _ "VhostBackend.set_log_base" (.scalar base) .unit false ⟨"VHOST_SET_LOG_BASE", 1, 0x04, "__u64"⟩ 0x4008af04 8 (leBytes 8 base)
      rfl (by decide +kernel) (by decide +kernel) (by decide +kernel) rfl ?_ ?_ (Or.inl rfl)
    · exact argProblem_scalar_le 8 base
    · exact retProblem_unit _ _ _

theorem set_log_fd_meets_uapi (be : String) (hbe : be ∈ BES) (fd : Nat) (e : Env) :
    run (inp be "set_log_fd" [fd] e) = some ⟨[.io 0x4004af07 (leBytes 4 fd)], unitR e, none⟩ ∧
    ∀ o, run (inp be "set_log_fd" [fd] e) = some o → Spec.Uapi.problem (inp be "set_log_fd" [fd] e) o = none := by
  simp only [BES, List.mem_cons, List.mem_nil_iff, or_false] at hbe
  rcases hbe with rfl | rfl | rfl | rfl
  all_goals
    refine ⟨rfl, ?_⟩
    intro o ho
    rw [show run _ = some _ from rfl] at ho
    cases ho
    refine problem_ioctl _ _ "VhostBackend.set_log_fd" (.scalar fd) .unit false ⟨"VHOST_SET_LOG_FD", 1, 0x07, "int"⟩ 0x4004af07 4 (leBytes 4 fd)
      rfl (by decide +kernel) (by decide +kernel) (by decide +kernel) rfl ?_ ?_ (Or.inl rfl)
    · exact argProblem_scalar_le 4 fd
    · exact retProblem_unit _ _ _

theorem set_vring_num_meets_uapi (be : String) (hbe : be ∈ BES) (q n : Nat) (e : Env) :
    run (inp be "set_vring_num" [q, n] e) = some ⟨[.io 0x4008af10 (imageOf 8 [(0, 4, q), (4, 4, n % 2 ^ 16)])], unitR e, none⟩ ∧
    ∀ o, run (inp be "set_vring_num" [q, n] e) = some o → Spec.Uapi.problem (inp be "set_vring_num" [q, n] e) o = none := by
  simp only [BES, List.mem_cons, List.mem_nil_iff, or_false] at hbe
  rcases hbe with rfl | rfl | rfl | rfl
  all_goals
    refine ⟨rfl, ?_⟩
    intro o ho
    rw [show run _ = some _ from rfl] at ho
    cases ho
    refine problem_ioctl _ _ "VhostBackend.set_vring_num" (.fields "vhost_vring_state" [(["index"], q), (["num"], n % 2 ^ 16)]) .unit false ⟨"VHOST_SET_VRING_NUM", 1, 0x10, "struct vhost_vring_state"⟩ 0x4008af10 8 (imageOf 8 [(0, 4, q), (4, 4, n % 2 ^ 16)])
      rfl (by decide +kernel) (by decide +kernel) (by decide +kernel) rfl ?_ ?_ (Or.inl rfl)
    · apply argProblem_image
      · simp
      · simp [LeafDisjoint]
      · fields_ok
    · exact retProblem_unit _ _ _

theorem set_vring_base_meets_uapi (be : String) (hbe : be ∈ BES) (q n : Nat) (e : Env) :
    run (inp be "set_vring_base" [q, n] e) = some ⟨[.io 0x4008af12 (imageOf 8 [(0, 4, q), (4, 4, n % 2 ^ 16)])], unitR e, none⟩ ∧
    ∀ o, run (inp be "set_vring_base" [q, n] e) = some o → Spec.Uapi.problem (inp be "set_vring_base" [q, n] e) o = none := by
  simp only [BES, List.mem_cons, List.mem_nil_iff, or_false] at hbe
  rcases hbe with rfl | rfl | rfl | rfl
  all_goals
    refine ⟨rfl, ?_⟩
    intro o ho
    rw [show run _ = some _ from rfl] at ho
    cases ho
    refine problem_ioctl _ _ "VhostBackend.set_vring_base" (.fields "vhost_vring_state" [(["index"], q), (["num"], n % 2 ^ 16)]) .unit false ⟨"VHOST_SET_VRING_BASE", 1, 0x12, "struct vhost_vring_state"⟩ 0x4008af12 8 (imageOf 8 [(0, 4, q), (4, 4, n % 2 ^ 16)])
      rfl (by decide +kernel) (by decide +kernel) (by decide +kernel) rfl ?_ ?_ (Or.inl rfl)
    · apply argProblem_image
      · simp
      · simp [LeafDisjoint]
      · fields_ok
    · exact retProblem_unit _ _ _

theorem get_vring_base_meets_uapi (be : String) (hbe : be ∈ BES) (q : Nat) (e : Env) :
    run (inp be "get_vring_base" [q] e) = some ⟨[.io 0xc008af12 (imageOf 8 [(0, 4, q), (4, 4, 0)])], if e.rc ≠ 0 then .err "ioctl" else .okv (peek (after e 0xc008af12 (imageOf 8 [(0, 4, q), (4, 4, 0)])) 4 4), none⟩ ∧
    ∀ o, run (inp be "get_vring_base" [q] e) = some o → Spec.Uapi.problem (inp be "get_vring_base" [q] e) o = none := by
  simp only [BES, List.mem_cons, List.mem_nil_iff, or_false] at hbe
  rcases hbe with rfl | rfl | rfl | rfl
  all_goals
    refine ⟨rfl, ?_⟩
    intro o ho
    rw [show run _ = some _ from rfl] at ho
    cases ho
    refine problem_ioctl _ _ "VhostBackend.get_vring_base" (.fields "vhost_vring_state" [(["index"], q)]) (.field "vhost_vring_state" "num") false ⟨"VHOST_GET_VRING_BASE", 3, 0x12, "struct vhost_vring_state"⟩ 0xc008af12 8 (imageOf 8 [(0, 4, q), (4, 4, 0)])
      rfl (by decide +kernel) (by decide +kernel) (by decide +kernel) rfl ?_ ?_ (Or.inl rfl)
    · apply argProblem_image
      · simp
      · simp [LeafDisjoint]
      · fields_ok
    · exact retProblem_field _ 0xc008af12 (imageOf 8 [(0, 4, q), (4, 4, 0)]) "vhost_vring_state" "num" 4 4 (by decide) (by decide) ((imageOf_length 8 _ (by simp)).trans (by decide)) (by decide +kernel) (by decide)

theorem set_vring_call_meets_uapi (be : String) (hbe : be ∈ BES) (q fd : Nat) (e : Env) :
    run (inp be "set_vring_call" [q, fd] e) = some ⟨[.io 0x4008af21 (imageOf 8 [(0, 4, q), (4, 4, fd)])], unitR e, none⟩ ∧
    ∀ o, run (inp be "set_vring_call" [q, fd] e) = some o → Spec.Uapi.problem (inp be "set_vring_call" [q, fd] e) o = none := by
  simp only [BES, List.mem_cons, List.mem_nil_iff, or_false] at hbe
  rcases hbe with rfl | rfl | rfl | rfl
  all_goals
    refine ⟨rfl, ?_⟩
    intro o ho
    rw [show run _ = some _ from rfl] at ho
    cases ho
    refine problem_ioctl _ _ "VhostBackend.set_vring_call" (.fields "vhost_vring_file" [(["index"], q), (["fd"], fd)]) .unit false ⟨"VHOST_SET_VRING_CALL", 1, 0x21, "struct vhost_vring_file"⟩ 0x4008af21 8 (imageOf 8 [(0, 4, q), (4, 4, fd)])
      rfl (by decide +kernel) (by decide +kernel) (by decide +kernel) rfl ?_ ?_ (Or.inl rfl)
    · apply argProblem_image
      · simp
      · simp [LeafDisjoint]
      · fields_ok
    · exact retProblem_unit _ _ _

theorem set_vring_kick_meets_uapi (be : String) (hbe : be ∈ BES) (q fd : Nat) (e : Env) :
    run (inp be "set_vring_kick" [q, fd] e) = some ⟨[.io 0x4008af20 (imageOf 8 [(0, 4, q), (4, 4, fd)])], unitR e, none⟩ ∧
    ∀ o, run (inp be "set_vring_kick" [q, fd] e) = some o → Spec.Uapi.problem (inp be "set_vring_kick" [q, fd] e) o = none := by
  simp only [BES, List.mem_cons, List.mem_nil_iff, or_false] at hbe
  rcases hbe with rfl | rfl | rfl | rfl
  all_goals
    refine ⟨rfl, ?_⟩
    intro o ho
    rw [show run _ = some _ from rfl] at ho
    cases ho
    refine problem_ioctl _ _ "VhostBackend.set_vring_kick" (.fields "vhost_vring_file" [(["index"], q), (["fd"], fd)]) .unit false ⟨"VHOST_SET_VRING_KICK", 1, 0x20, "struct vhost_vring_file"⟩ 0x4008af20 8 (imageOf 8 [(0, 4, q), (4, 4, fd)])
      rfl (by decide +kernel) (by decide +kernel) (by decide +kernel) rfl ?_ ?_ (Or.inl rfl)
    · apply argProblem_image
      · simp
      · simp [LeafDisjoint]
      · fields_ok
    · exact retProblem_unit _ _ _

theorem set_vring_err_meets_uapi (be : String) (hbe : be ∈ BES) (q fd : Nat) (e : Env) :
    run (inp be "set_vring_err" [q, fd] e) = some ⟨[.io 0x4008af22 (imageOf 8 [(0, 4, q), (4, 4, fd)])], unitR e, none⟩ ∧
    ∀ o, run (inp be "set_vring_err" [q, fd] e) = some o → Spec.Uapi.problem (inp be "set_vring_err" [q, fd] e) o = none := by
  simp only [BES, List.mem_cons, List.mem_nil_iff, or_false] at hbe
  rcases hbe with rfl | rfl | rfl | rfl
  all_goals
    refine ⟨rfl, ?_⟩
    intro o ho
    rw [show run _ = some _ from rfl] at ho
    cases ho
    refine problem_ioctl _ _ "VhostBackend.set_vring_err" (.fields "vhost_vring_file" [(["index"], q), (["fd"], fd)]) .unit false ⟨"VHOST_SET_VRING_ERR", 1, 0x22, "struct vhost_vring_file"⟩ 0x4008af22 8 (imageOf 8 [(0, 4, q), (4, 4, fd)])
      rfl (by decide +kernel) (by decide +kernel) (by decide +kernel) rfl ?_ ?_ (Or.inl rfl)
    · apply argProblem_image
      · simp
      · simp [LeafDisjoint]
      · fields_ok
    · exact retProblem_unit _ _ _

theorem get_backend_features_meets_uapi (be : String) (hbe : be ∈ FBES) (e : Env) :
    run (inp be "get_backend_features" [] e) = some ⟨[.io 0x8008af26 (leBytes 8 0)], if e.rc ≠ 0 then .err "ioctl" else .okv (leVal (after e 0x8008af26 (leBytes 8 0))), none⟩ ∧
    ∀ o, run (inp be "get_backend_features" [] e) = some o → Spec.Uapi.problem (inp be "get_backend_features" [] e) o = none := by
  simp only [FBES, List.mem_cons, List.mem_nil_iff, or_false] at hbe
  rcases hbe with rfl | rfl
  all_goals
    refine ⟨rfl, ?_⟩
    intro o ho
    rw [show run _ = some _ from rfl] at ho
    cases ho
    refine problem_ioctl _ _ "VhostKernFeatures.get_backend_features" (.fields "" []) .scalar false ⟨"VHOST_GET_BACKEND_FEATURES", 2, 0x26, "__u64"⟩ 0x8008af26 8 (leBytes 8 0)
      rfl (by decide +kernel) (by decide +kernel) (by decide +kernel) rfl ?_ ?_ (Or.inl rfl)
    · exact argProblem_fields _ "" [] _ rfl (by intro pv h; cases h)
    · exact retProblem_scalar _ 0x8008af26 (leBytes 8 0) (by decide) (by decide) rfl

theorem set_backend_meets_uapi (q hasFd fd : Nat) (e : Env) :
    run (inp "net" "set_backend" [q, hasFd, fd] e) = some ⟨[.io 0x4008af30 (imageOf 8 [(0, 4, q), (4, 4, (if hasFd != 0 then fd else 2 ^ 32 - 1))])], unitR e, none⟩ ∧
    ∀ o, run (inp "net" "set_backend" [q, hasFd, fd] e) = some o → Spec.Uapi.problem (inp "net" "set_backend" [q, hasFd, fd] e) o = none := by
  refine ⟨rfl, ?_⟩
  intro o ho
  rw [show run _ = some _ from rfl] at ho
  cases ho
  refine problem_ioctl _ _ "VhostNet.set_backend" (.fields "vhost_vring_file" [(["index"], q), (["fd"], (if hasFd != 0 then fd else 2 ^ 32 - 1))]) .unit false ⟨"VHOST_NET_SET_BACKEND", 1, 0x30, "struct vhost_vring_file"⟩ 0x4008af30 8 (imageOf 8 [(0, 4, q), (4, 4, (if hasFd != 0 then fd else 2 ^ 32 - 1))])
    rfl (by decide +kernel) (by decide +kernel) (by decide +kernel) rfl ?_ ?_ (Or.inl rfl)
  · apply argProblem_image
    · simp
    · simp [LeafDisjoint]
    · fields_ok
  · exact retProblem_unit _ _ _

theorem set_guest_cid_meets_uapi (cid : Nat) (e : Env) :
    run (inp "vsock" "set_guest_cid" [cid] e) = some ⟨[.io 0x4008af60 (leBytes 8 cid)], unitR e, none⟩ ∧
    ∀ o, run (inp "vsock" "set_guest_cid" [cid] e) = some o → Spec.Uapi.problem (inp "vsock" "set_guest_cid" [cid] e) o = none := by
  refine ⟨rfl, ?_⟩
  intro o ho
  rw [show run _ = some _ from rfl] at ho
  cases ho
  refine problem_ioctl _ _ "VhostVsock.set_guest_cid" (.scalar cid) .unit false ⟨"VHOST_VSOCK_SET_GUEST_CID", 1, 0x60, "__u64"⟩ 0x4008af60 8 (leBytes 8 cid)
    rfl (by decide +kernel) (by decide +kernel) (by decide +kernel) rfl ?_ ?_ (Or.inl rfl)
  · exact argProblem_scalar_le 8 cid
  · exact retProblem_unit _ _ _

theorem start_meets_uapi (e : Env) :
    run (inp "vsock" "start" [] e) = some ⟨[.io 0x4004af61 (leBytes 4 1)], unitR e, none⟩ ∧
    ∀ o, run (inp "vsock" "start" [] e) = some o → Spec.Uapi.problem (inp "vsock" "start" [] e) o = none := by
  refine ⟨rfl, ?_⟩
  intro o ho
  rw [show run _ = some _ from rfl] at ho
  cases ho
  refine problem_ioctl _ _ "Vsock.set_running" (.scalar 1) .unit false ⟨"VHOST_VSOCK_SET_RUNNING", 1, 0x61, "int"⟩ 0x4004af61 4 (leBytes 4 1)
    rfl (by decide +kernel) (by decide +kernel) (by decide +kernel) rfl ?_ ?_ (Or.inl rfl)
  · exact argProblem_scalar_le 4 1
  · exact retProblem_unit _ _ _

theorem stop_meets_uapi (e : Env) :
    run (inp "vsock" "stop" [] e) = some ⟨[.io 0x4004af61 (leBytes 4 0)], unitR e, none⟩ ∧
    ∀ o, run (inp "vsock" "stop" [] e) = some o → Spec.Uapi.problem (inp "vsock" "stop" [] e) o = none := by
  refine ⟨rfl, ?_⟩
  intro o ho
  rw [show run _ = some _ from rfl] at ho
  cases ho
  refine problem_ioctl _ _ "Vsock.set_running" (.scalar 0) .unit false ⟨"VHOST_VSOCK_SET_RUNNING", 1, 0x61, "int"⟩ 0x4004af61 4 (leBytes 4 0)
    rfl (by decide +kernel) (by decide +kernel) (by decide +kernel) rfl ?_ ?_ (Or.inl rfl)
  · exact argProblem_scalar_le 4 0
  · exact retProblem_unit _ _ _

theorem get_device_id_meets_uapi (e : Env) :
    run (inp "vdpa" "get_device_id" [] e) = some ⟨[.io 0x8004af70 (leBytes 4 0)], if e.rc ≠ 0 then .err "ioctl" else .okv (leVal (after e 0x8004af70 (leBytes 4 0))), none⟩ ∧
    ∀ o, run (inp "vdpa" "get_device_id" [] e) = some o → Spec.Uapi.problem (inp "vdpa" "get_device_id" [] e) o = none := by
  refine ⟨rfl, ?_⟩
  intro o ho
  rw [show run _ = some _ from rfl] at ho
  cases ho
  refine problem_ioctl _ _ "VhostVdpa.get_device_id" (.fields "" []) .scalar false ⟨"VHOST_VDPA_GET_DEVICE_ID", 2, 0x70, "__u32"⟩ 0x8004af70 4 (leBytes 4 0)
    rfl (by decide +kernel) (by decide +kernel) (by decide +kernel) rfl ?_ ?_ (Or.inl rfl)
  · exact argProblem_fields _ "" [] _ rfl (by intro pv h; cases h)
  · exact retProblem_scalar _ 0x8004af70 (leBytes 4 0) (by decide) (by decide) rfl

theorem get_status_meets_uapi (e : Env) :
    run (inp "vdpa" "get_status" [] e) = some ⟨[.io 0x8001af71 (leBytes 1 0)], if e.rc ≠ 0 then .err "ioctl" else .okv (leVal (after e 0x8001af71 (leBytes 1 0))), none⟩ ∧
    ∀ o, run (inp "vdpa" "get_status" [] e) = some o → Spec.Uapi.problem (inp "vdpa" "get_status" [] e) o = none := by
  refine ⟨rfl, ?_⟩
  intro o ho
  rw [show run _ = some _ from rfl] at ho
  cases ho
  refine problem_ioctl _ _ "VhostVdpa.get_status" (.fields "" []) .scalar false ⟨"VHOST_VDPA_GET_STATUS", 2, 0x71, "__u8"⟩ 0x8001af71 1 (leBytes 1 0)
    rfl (by decide +kernel) (by decide +kernel) (by decide +kernel) rfl ?_ ?_ (Or.inl rfl)
  · exact argProblem_fields _ "" [] _ rfl (by intro pv h; cases h)
  · exact retProblem_scalar _ 0x8001af71 (leBytes 1 0) (by decide) (by decide) rfl

theorem set_status_meets_uapi (s : Nat) (e : Env) :
    run (inp "vdpa" "set_status" [s] e) = some ⟨[.io 0x4001af72 (leBytes 1 s)], unitR e, none⟩ ∧
    ∀ o, run (inp "vdpa" "set_status" [s] e) = some o → Spec.Uapi.problem (inp "vdpa" "set_status" [s] e) o = none := by
  refine ⟨rfl, ?_⟩
  intro o ho
  rw [show run _ = some _ from rfl] at ho
  cases ho
  refine problem_ioctl _ _ "VhostVdpa.set_status" (.scalar s) .unit false ⟨"VHOST_VDPA_SET_STATUS", 1, 0x72, "__u8"⟩ 0x4001af72 1 (leBytes 1 s)
    rfl (by decide +kernel) (by decide +kernel) (by decide +kernel) rfl ?_ ?_ (Or.inl rfl)
  · exact argProblem_scalar_le 1 s
  · exact retProblem_unit _ _ _

theorem set_vring_enable_meets_uapi (q en : Nat) (e : Env) :
    run (inp "vdpa" "set_vring_enable" [q, en] e) = some ⟨[.io 0x4008af75 (imageOf 8 [(0, 4, q), (4, 4, (if en != 0 then 1 else 0))])], unitR e, none⟩ ∧
    ∀ o, run (inp "vdpa" "set_vring_enable" [q, en] e) = some o → Spec.Uapi.problem (inp "vdpa" "set_vring_enable" [q, en] e) o = none := by
  refine ⟨rfl, ?_⟩
  intro o ho
  rw [show run _ = some _ from rfl] at ho
  cases ho
  refine problem_ioctl _ _ "VhostVdpa.set_vring_enable" (.fields "vhost_vring_state" [(["index"], q), (["num"], (if en != 0 then 1 else 0))]) .unit false ⟨"VHOST_VDPA_SET_VRING_ENABLE", 1, 0x75, "struct vhost_vring_state"⟩ 0x4008af75 8 (imageOf 8 [(0, 4, q), (4, 4, (if en != 0 then 1 else 0))])
    rfl (by decide +kernel) (by decide +kernel) (by decide +kernel) rfl ?_ ?_ (Or.inl rfl)
  · apply argProblem_image
    · simp
    · simp [LeafDisjoint]
    · fields_ok
  · exact retProblem_unit _ _ _

theorem get_vring_num_meets_uapi (e : Env) :
    run (inp "vdpa" "get_vring_num" [] e) = some ⟨[.io 0x8002af76 (leBytes 2 0)], if e.rc ≠ 0 then .err "ioctl" else .okv (leVal (after e 0x8002af76 (leBytes 2 0))), none⟩ ∧
    ∀ o, run (inp "vdpa" "get_vring_num" [] e) = some o → Spec.Uapi.problem (inp "vdpa" "get_vring_num" [] e) o = none := by
  refine ⟨rfl, ?_⟩
  intro o ho
  rw [show run _ = some _ from rfl] at ho
  cases ho
  refine problem_ioctl _ _ "VhostVdpa.get_vring_num" (.fields "" []) .scalar false ⟨"VHOST_VDPA_GET_VRING_NUM", 2, 0x76, "__u16"⟩ 0x8002af76 2 (leBytes 2 0)
    rfl (by decide +kernel) (by decide +kernel) (by decide +kernel) rfl ?_ ?_ (Or.inl rfl)
  · exact argProblem_fields _ "" [] _ rfl (by intro pv h; cases h)
  · exact retProblem_scalar _ 0x8002af76 (leBytes 2 0) (by decide) (by decide) rfl

theorem set_config_call_meets_uapi (fd : Nat) (e : Env) :
    run (inp "vdpa" "set_config_call" [fd] e) = some ⟨[.io 0x4004af77 (leBytes 4 fd)], unitR e, none⟩ ∧
    ∀ o, run (inp "vdpa" "set_config_call" [fd] e) = some o → Spec.Uapi.problem (inp "vdpa" "set_config_call" [fd] e) o = none := by
  refine ⟨rfl, ?_⟩
  intro o ho
  rw [show run _ = some _ from rfl] at ho
  cases ho
  refine problem_ioctl _ _ "VhostVdpa.set_config_call" (.scalar fd) .unit false ⟨"VHOST_VDPA_SET_CONFIG_CALL", 1, 0x77, "int"⟩ 0x4004af77 4 (leBytes 4 fd)
    rfl (by decide +kernel) (by decide +kernel) (by decide +kernel) rfl ?_ ?_ (Or.inl rfl)
  · exact argProblem_scalar_le 4 fd
  · exact retProblem_unit _ _ _

theorem get_config_size_meets_uapi (e : Env) :
    run (inp "vdpa" "get_config_size" [] e) = some ⟨[.io 0x8004af79 (leBytes 4 0)], if e.rc ≠ 0 then .err "ioctl" else .okv (leVal (after e 0x8004af79 (leBytes 4 0))), none⟩ ∧
    ∀ o, run (inp "vdpa" "get_config_size" [] e) = some o → Spec.Uapi.problem (inp "vdpa" "get_config_size" [] e) o = none := by
  refine ⟨rfl, ?_⟩
  intro o ho
  rw [show run _ = some _ from rfl] at ho
  cases ho
  refine problem_ioctl _ _ "VhostVdpa.get_config_size" (.fields "" []) .scalar false ⟨"VHOST_VDPA_GET_CONFIG_SIZE", 2, 0x79, "__u32"⟩ 0x8004af79 4 (leBytes 4 0)
    rfl (by decide +kernel) (by decide +kernel) (by decide +kernel) rfl ?_ ?_ (Or.inl rfl)
  · exact argProblem_fields _ "" [] _ rfl (by intro pv h; cases h)
  · exact retProblem_scalar _ 0x8004af79 (leBytes 4 0) (by decide) (by decide) rfl

theorem get_vqs_count_meets_uapi (e : Env) :
    run (inp "vdpa" "get_vqs_count" [] e) = some ⟨[.io 0x8004af80 (leBytes 4 0)], if e.rc ≠ 0 then .err "ioctl" else .okv (leVal (after e 0x8004af80 (leBytes 4 0))), none⟩ ∧
    ∀ o, run (inp "vdpa" "get_vqs_count" [] e) = some o → Spec.Uapi.problem (inp "vdpa" "get_vqs_count" [] e) o = none := by
  refine ⟨rfl, ?_⟩
  intro o ho
  rw [show run _ = some _ from rfl] at ho
  cases ho
  refine problem_ioctl _ _ "VhostVdpa.get_vqs_count" (.fields "" []) .scalar false ⟨"VHOST_VDPA_GET_VQS_COUNT", 2, 0x80, "__u32"⟩ 0x8004af80 4 (leBytes 4 0)
    rfl (by decide +kernel) (by decide +kernel) (by decide +kernel) rfl ?_ ?_ (Or.inl rfl)
  · exact argProblem_fields _ "" [] _ rfl (by intro pv h; cases h)
  · exact retProblem_scalar _ 0x8004af80 (leBytes 4 0) (by decide) (by decide) rfl

theorem get_group_num_meets_uapi (e : Env) :
    run (inp "vdpa" "get_group_num" [] e) = some ⟨[.io 0x8004af81 (leBytes 4 0)], if e.rc ≠ 0 then .err "ioctl" else .okv (leVal (after e 0x8004af81 (leBytes 4 0))), none⟩ ∧
    ∀ o, run (inp "vdpa" "get_group_num" [] e) = some o → Spec.Uapi.problem (inp "vdpa" "get_group_num" [] e) o = none := by
  refine ⟨rfl, ?_⟩
  intro o ho
  rw [show run _ = some _ from rfl] at ho
  cases ho
  refine problem_ioctl _ _ "VhostVdpa.get_group_num" (.fields "" []) .scalar false ⟨"VHOST_VDPA_GET_GROUP_NUM", 2, 0x81, "__u32"⟩ 0x8004af81 4 (leBytes 4 0)
    rfl (by decide +kernel) (by decide +kernel) (by decide +kernel) rfl ?_ ?_ (Or.inl rfl)
  · exact argProblem_fields _ "" [] _ rfl (by intro pv h; cases h)
  · exact retProblem_scalar _ 0x8004af81 (leBytes 4 0) (by decide) (by decide) rfl

theorem get_as_num_meets_uapi (e : Env) :
    run (inp "vdpa" "get_as_num" [] e) = some ⟨[.io 0x8004af7a (leBytes 4 0)], if e.rc ≠ 0 then .err "ioctl" else .okv (leVal (after e 0x8004af7a (leBytes 4 0))), none⟩ ∧
    ∀ o, run (inp "vdpa" "get_as_num" [] e) = some o → Spec.Uapi.problem (inp "vdpa" "get_as_num" [] e) o = none := by
  refine ⟨rfl, ?_⟩
  intro o ho
  rw [show run _ = some _ from rfl] at ho
  cases ho
  refine problem_ioctl _ _ "VhostVdpa.get_as_num" (.fields "" []) .scalar false ⟨"VHOST_VDPA_GET_AS_NUM", 2, 0x7A, "unsigned int"⟩ 0x8004af7a 4 (leBytes 4 0)
    rfl (by decide +kernel) (by decide +kernel) (by decide +kernel) rfl ?_ ?_ (Or.inl rfl)
  · exact argProblem_fields _ "" [] _ rfl (by intro pv h; cases h)
  · exact retProblem_scalar _ 0x8004af7a (leBytes 4 0) (by decide) (by decide) rfl

theorem get_vring_group_meets_uapi (q : Nat) (e : Env) :
    run (inp "vdpa" "get_vring_group" [q] e) = some ⟨[.io 0xc008af7b (imageOf 8 [(0, 4, q), (4, 4, 0)])], if e.rc ≠ 0 then .err "ioctl" else .okv (peek (after e 0xc008af7b (imageOf 8 [(0, 4, q), (4, 4, 0)])) 4 4), none⟩ ∧
    ∀ o, run (inp "vdpa" "get_vring_group" [q] e) = some o → Spec.Uapi.problem (inp "vdpa" "get_vring_group" [q] e) o = none := by
  refine ⟨rfl, ?_⟩
  intro o ho
  rw [show run _ = some _ from rfl] at ho
  cases ho
  refine problem_ioctl _ _ "VhostVdpa.get_vring_group" (.fields "vhost_vring_state" [(["index"], q)]) (.field "vhost_vring_state" "num") false ⟨"VHOST_VDPA_GET_VRING_GROUP", 3, 0x7B, "struct vhost_vring_state"⟩ 0xc008af7b 8 (imageOf 8 [(0, 4, q), (4, 4, 0)])
    rfl (by decide +kernel) (by decide +kernel) (by decide +kernel) rfl ?_ ?_ (Or.inl rfl)
  · apply argProblem_image
    · simp
    · simp [LeafDisjoint]
    · fields_ok
  · exact retProblem_field _ 0xc008af7b (imageOf 8 [(0, 4, q), (4, 4, 0)]) "vhost_vring_state" "num" 4 4 (by decide) (by decide) ((imageOf_length 8 _ (by simp)).trans (by decide)) (by decide +kernel) (by decide)

theorem set_group_asid_meets_uapi (g asid : Nat) (e : Env) :
    run (inp "vdpa" "set_group_asid" [g, asid] e) = some ⟨[.io 0x4008af7c (imageOf 8 [(0, 4, g), (4, 4, asid)])], unitR e, none⟩ ∧
    ∀ o, run (inp "vdpa" "set_group_asid" [g, asid] e) = some o → Spec.Uapi.problem (inp "vdpa" "set_group_asid" [g, asid] e) o = none := by
  refine ⟨rfl, ?_⟩
  intro o ho
  rw [show run _ = some _ from rfl] at ho
  cases ho
  refine problem_ioctl _ _ "VhostVdpa.set_group_asid" (.fields "vhost_vring_state" [(["index"], g), (["num"], asid)]) .unit false ⟨"VHOST_VDPA_SET_GROUP_ASID", 1, 0x7C, "struct vhost_vring_state"⟩ 0x4008af7c 8 (imageOf 8 [(0, 4, g), (4, 4, asid)])
    rfl (by decide +kernel) (by decide +kernel) (by decide +kernel) rfl ?_ ?_ (Or.inl rfl)
  · apply argProblem_image
    · simp
    · simp [LeafDisjoint]
    · fields_ok
  · exact retProblem_unit _ _ _

theorem suspend_meets_uapi (e : Env) :
    run (inp "vdpa" "suspend" [] e) = some ⟨[.io 0xaf7d (zeros 8)], unitR e, none⟩ ∧
    ∀ o, run (inp "vdpa" "suspend" [] e) = some o → Spec.Uapi.problem (inp "vdpa" "suspend" [] e) o = none := by
  refine ⟨rfl, ?_⟩
  intro o ho
  rw [show run _ = some _ from rfl] at ho
  cases ho
  refine problem_ioctl _ _ "VhostVdpa.suspend" .none .unit false ⟨"VHOST_VDPA_SUSPEND", 0, 0x7D, ""⟩ 0xaf7d 0 (zeros 8)
    rfl (by decide +kernel) (by decide +kernel) (by decide +kernel) rfl ?_ ?_ (Or.inl rfl)
  · rfl
  · exact retProblem_unit _ _ _


/-! ### remaining operations -/

/-- `set_backend_features(f)`: `VHOST_SET_BACKEND_FEATURES` with `f`; the acknowledged set becomes `f` exactly when the
    kernel accepted the call -/
theorem set_backend_features_meets_uapi (be : String) (hbe : be ∈ FBES) (f : Nat) (e : Env) :
    run (inp be "set_backend_features" [f] e) =
      some ⟨[.io 0x4008af25 (leBytes 8 f)], unitR e, some (if e.rc = 0 then f % 2 ^ 64 else e.feat)⟩ ∧
    ∀ o, run (inp be "set_backend_features" [f] e) = some o →
      Spec.Uapi.problem (inp be "set_backend_features" [f] e) o = none := by
  simp only [FBES, List.mem_cons, List.mem_nil_iff, or_false] at hbe
  rcases hbe with rfl | rfl
  all_goals
    refine ⟨rfl, ?_⟩
    intro o ho
    rw [show run _ = some _ from rfl] at ho
    cases ho
    refine problem_ioctl _ _ "VhostKernFeatures.set_backend_features" (.scalar f) .unit false
      ⟨"VHOST_SET_BACKEND_FEATURES", 1, 0x25, "__u64"⟩ 0x4008af25 8 (leBytes 8 f)
      rfl (by decide +kernel) (by decide +kernel) (by decide +kernel) rfl ?_ ?_ (Or.inr rfl)
    · exact argProblem_scalar_le 8 f
    · exact retProblem_unit _ _ _

/-- `set_log_base` with a log region is refused by the kernel backends before any ioctl (the property makes no demand) -/
theorem set_log_base_with_region_refused (be : String) (hbe : be ∈ BES) (base hasRegion : Nat) (h : hasRegion ≠ 0) (e : Env) :
    run (inp be "set_log_base" [base, hasRegion] e) = some ⟨[], .err "logaddr", none⟩ ∧
    Spec.Uapi.problem (inp be "set_log_base" [base, hasRegion] e) ⟨[], .err "logaddr", none⟩ = none := by
  have hb : (hasRegion != 0) = true := by simpa using h
  have key : ∀ be,
      (run (inp be "set_log_base" [base, hasRegion] e) =
        if (hasRegion != 0) = true then some ⟨[], .err "logaddr", none⟩
        else ioCall (inp be "set_log_base" [base, hasRegion] e) "VhostBackend" "set_log_base" (some (leBytes 8 base)) unitRet) →
      (Spec.Uapi.expect (inp be "set_log_base" [base, hasRegion] e) =
        if (hasRegion != 0) = true then .free else .ioctl "VhostBackend.set_log_base" (.scalar base) .unit false) →
      run (inp be "set_log_base" [base, hasRegion] e) = some ⟨[], .err "logaddr", none⟩ ∧
      Spec.Uapi.problem (inp be "set_log_base" [base, hasRegion] e) ⟨[], .err "logaddr", none⟩ = none := by
    intro be h1 h2
    exact ⟨by rw [h1, if_pos hb], problem_free _ _ (by rw [h2, if_pos hb])⟩
  simp only [BES, List.mem_cons, List.mem_nil_iff, or_false] at hbe
  rcases hbe with rfl | rfl | rfl | rfl
  · exact key "kern" rfl rfl
  · exact key "net" rfl rfl
  · exact key "vsock" rfl rfl
  · exact key "vdpa" rfl rfl

open Spec.Uapi in
theorem peekField_of (bs : Bytes) (s : String) (p : List String) (off w v : Nat) (hf : fieldAt s p = some (off, w))
    (hl : off + w ≤ bs.length) (hp : peek bs off w = v) : peekField bs s p = some v := by
  unfold peekField
  simp [hf, hl, hp]


/-! ### operations whose argument ends in a flexible array -/

open Spec.Uapi in
theorem retProblem_configBuf (i : Inp) (size len : Nat) (hdr : Bytes) (hh : hdr.length = 8) :
    retProblem i size (.configBuf len)
      (if i.rc ≠ 0 then .err "ioctl" else .okb ((afterCall i VDPA_GET_CONFIG (hdr ++ zeros len)).drop 8)) = none := by
  unfold retProblem
  by_cases h : i.rc = 0
  · simp only [h, ne_eq, not_true_eq_false, if_false]
    cases hw : i.wb.isEmpty
    · have : afterCall i VDPA_GET_CONFIG (hdr ++ zeros len) = (hdr ++ zeros len).take 8 ++ cyc i.wb ((hdr ++ zeros len).length - 8) := by
        unfold afterCall
        have hd : ¬ (Model.Kern.iocDir VDPA_GET_CONFIG / 2 = 0) := by decide
        simp [h, hw, hd]
      rw [this]
      have h8 : ((hdr ++ zeros len).take 8).length = 8 := by simp [hh]
      rw [List.drop_append, h8, List.drop_eq_nil_of_le (by omega)]
      simp [hh, zeros]
    · simp
  · simp [h]

/-- `get_config(offset, buffer)`: `VHOST_VDPA_GET_CONFIG` with `off`, `len = buffer.len()` in the header followed by
    `len` bytes; the buffer returned is what the kernel wrote into `buf` — for every length -/
theorem get_config_meets_uapi (off len : Nat) (e : Env) :
    ∀ o, run (inp "vdpa" "get_config" [off, len] e) = some o →
      Spec.Uapi.problem (inp "vdpa" "get_config" [off, len] e) o = none := by
  have hrun : run (inp "vdpa" "get_config" [off, len] e) =
      some ⟨[.io 0x8008af73 (imageOf 8 [(0, 4, off % 2 ^ 32), (4, 4, len)] ++ zeros len)],
        if e.rc ≠ 0 then .err "ioctl" else
          .okb ((afterCall (inp "vdpa" "get_config" [off, len] e) VDPA_GET_CONFIG
            (imageOf 8 [(0, 4, off % 2 ^ 32), (4, 4, len)] ++ zeros len)).drop 8), none⟩ := rfl
  intro o ho
  rw [hrun] at ho
  cases ho
  have hl : (imageOf 8 [(0, 4, off % 2 ^ 32), (4, 4, len)]).length = 8 := imageOf_length 8 _ (by simp)
  have hp := peek_imageOf 8 [(0, 4, off % 2 ^ 32), (4, 4, len)] (by simp) (by simp [LeafDisjoint])
  refine problem_ioctl _ _ "VhostVdpa.get_config" (.config (off % 2 ^ 32) len none) (.configBuf len) false
    ⟨"VHOST_VDPA_GET_CONFIG", 2, 0x73, "struct vhost_vdpa_config"⟩ 0x8008af73 8 _
    rfl (by decide +kernel) (by decide +kernel) (by decide +kernel) rfl ?_ ?_ (Or.inl rfl)
  · unfold Spec.Uapi.argProblem
    have k1 := peekField_of (imageOf 8 [(0, 4, off % 2 ^ 32), (4, 4, len)] ++ zeros len) "vhost_vdpa_config" ["off"] 0 4
      ((off % 2 ^ 32) % 256 ^ 4) (by decide +kernel) (by rw [List.length_append, hl]; omega) (by rw [peek_append_left _ _ _ _ (by omega)]; exact hp (0, 4, _) (by simp))
    have k2 := peekField_of (imageOf 8 [(0, 4, off % 2 ^ 32), (4, 4, len)] ++ zeros len) "vhost_vdpa_config" ["len"] 4 4
      (len % 256 ^ 4) (by decide +kernel) (by rw [List.length_append, hl]; omega) (by rw [peek_append_left _ _ _ _ (by omega)]; exact hp (4, 4, _) (by simp))
    have e4 : (256 : Nat) ^ 4 = 2 ^ 32 := by decide
    rw [e4, Nat.mod_mod] at k1
    rw [e4] at k2
    simp only [List.length_append, hl, zeros, List.length_replicate, ne_eq, not_true_eq_false, if_false, k1, k2] at *
  · exact retProblem_configBuf _ 8 len _ hl

/-- `set_config(offset, buffer)`: header `off`, `len`, then the caller's bytes — for every buffer -/
theorem set_config_meets_uapi (off : Nat) (e : Env) :
    ∀ o, run (inp "vdpa" "set_config" [off] e) = some o →
      Spec.Uapi.problem (inp "vdpa" "set_config" [off] e) o = none := by
  have hrun : run (inp "vdpa" "set_config" [off] e) =
      some ⟨[.io 0x4008af74 (imageOf 8 [(0, 4, off % 2 ^ 32), (4, 4, e.buf.length)] ++ e.buf)], unitR e, none⟩ := rfl
  intro o ho
  rw [hrun] at ho
  cases ho
  have hl : (imageOf 8 [(0, 4, off % 2 ^ 32), (4, 4, e.buf.length)]).length = 8 := imageOf_length 8 _ (by simp)
  have hp := peek_imageOf 8 [(0, 4, off % 2 ^ 32), (4, 4, e.buf.length)] (by simp) (by simp [LeafDisjoint])
  refine problem_ioctl _ _ "VhostVdpa.set_config" (.config (off % 2 ^ 32) e.buf.length (some e.buf)) .unit false
    ⟨"VHOST_VDPA_SET_CONFIG", 1, 0x74, "struct vhost_vdpa_config"⟩ 0x4008af74 8 _
    rfl (by decide +kernel) (by decide +kernel) (by decide +kernel) rfl ?_ (retProblem_unit _ _ _) (Or.inl rfl)
  unfold Spec.Uapi.argProblem
  have k1 := peekField_of (imageOf 8 [(0, 4, off % 2 ^ 32), (4, 4, e.buf.length)] ++ e.buf) "vhost_vdpa_config" ["off"] 0 4
    ((off % 2 ^ 32) % 256 ^ 4) (by decide +kernel) (by rw [List.length_append, hl]; omega) (by rw [peek_append_left _ _ _ _ (by omega)]; exact hp (0, 4, _) (by simp))
  have k2 := peekField_of (imageOf 8 [(0, 4, off % 2 ^ 32), (4, 4, e.buf.length)] ++ e.buf) "vhost_vdpa_config" ["len"] 4 4
    (e.buf.length % 256 ^ 4) (by decide +kernel) (by rw [List.length_append, hl]; omega) (by rw [peek_append_left _ _ _ _ (by omega)]; exact hp (4, 4, _) (by simp))
  have hd : (imageOf 8 [(0, 4, off % 2 ^ 32), (4, 4, e.buf.length)] ++ e.buf).drop 8 = e.buf := by
    rw [← hl, List.drop_left']
    rfl
  have e4 : (256 : Nat) ^ 4 = 2 ^ 32 := by decide
  rw [e4, Nat.mod_mod] at k1
  rw [e4] at k2
  simp [hl, k1, k2, hd]

/-- one `vhost_memory_region` as `set_mem_table` fills it -/
def regionImage (r : Nat × Nat × Nat) : Bytes := imageOf 32 [(0, 8, r.1), (8, 8, r.2.1), (16, 8, r.2.2), (24, 8, 0)]

/-- argument list of the scenario for a region table -/
def flat : List (Nat × Nat × Nat) → List Nat
  | [] => []
  | (g, s, u) :: rest => g :: s :: u :: flat rest

theorem triples_flat (regs : List (Nat × Nat × Nat)) : triples (flat regs) = regs := by
  induction regs with
  | nil => rfl
  | cons r rest ih => obtain ⟨g, s, u⟩ := r; simp [flat, triples, ih]

theorem spec_triples_flat (regs : List (Nat × Nat × Nat)) : Spec.Uapi.triples (flat regs) = regs := by
  induction regs with
  | nil => rfl
  | cons r rest ih => obtain ⟨g, s, u⟩ := r; simp [flat, Spec.Uapi.triples, ih]

theorem flat_length (regs : List (Nat × Nat × Nat)) : (flat regs).length = 3 * regs.length := by
  induction regs with
  | nil => rfl
  | cons r rest ih => obtain ⟨g, s, u⟩ := r; simp [flat, ih]; omega

theorem regionImage_length (r : Nat × Nat × Nat) : (regionImage r).length = 32 :=
  imageOf_length 32 _ (by simp)

theorem mapM_regionImage (regs : List (Nat × Nat × Nat)) :
    regs.mapM (fun (x : Nat × Nat × Nat) =>
      structImage "vhost_memory_region" [(["guest_phys_addr"], x.1), (["memory_size"], x.2.1), (["userspace_addr"], x.2.2),
        (["flags_padding"], 0)]) = some (regs.map regionImage) := by
  induction regs with
  | nil => rfl
  | cons r rest ih =>
    have h1 : structImage "vhost_memory_region" [(["guest_phys_addr"], r.1), (["memory_size"], r.2.1), (["userspace_addr"], r.2.2),
        (["flags_padding"], 0)] = some (regionImage r) := rfl
    simp [List.mapM_cons, h1, ih]

theorem flatten_chunk (chunks : List Bytes) (h : ∀ c ∈ chunks, c.length = 32) (k : Nat) (hk : k < chunks.length) :
    (chunks.flatten.drop (32 * k)).take 32 = chunks[k] := by
  induction chunks generalizing k with
  | nil => simp at hk
  | cons c rest ih =>
    have hc : c.length = 32 := h c (by simp)
    cases k with
    | zero =>
      simp only [List.flatten_cons, Nat.mul_zero, List.drop_zero, List.getElem_cons_zero]
      rw [List.take_append_of_le_length (by omega), List.take_of_length_le (by omega)]
    | succ k =>
      simp only [List.flatten_cons, List.getElem_cons_succ]
      rw [List.drop_append, hc, List.drop_eq_nil_of_le (by omega), List.nil_append]
      have : 32 * (k + 1) - 32 = 32 * k := by omega
      rw [this]
      exact ih (fun c hc => h c (by simp [hc])) k (by simpa using hk)

theorem flatten_regions_length (regs : List (Nat × Nat × Nat)) : ((regs.map regionImage).flatten).length = 32 * regs.length := by
  induction regs with
  | nil => rfl
  | cons r rest ih =>
    simp only [List.map_cons, List.flatten_cons, List.length_append, regionImage_length, List.length_cons, ih]
    omega

/-- `set_mem_table(regions)` for every table of 1..=255 regions: `VHOST_SET_MEM_TABLE` with `nregions` = the number
    of regions, `padding` = 0 and, for every `k`, region `k` of the array carrying the caller's guest address, size and
    user address at the UAPI offsets (`flags_padding` = 0) -/
theorem set_mem_table_meets_uapi (be : String) (hbe : be ∈ BES) (regs : List (Nat × Nat × Nat))
    (h1 : 1 ≤ regs.length) (h255 : regs.length ≤ 255) (e : Env) :
    run (inp be "set_mem_table" (flat regs) e) =
      some ⟨[.io 0x4008af03 (imageOf 8 [(0, 4, regs.length)] ++ (regs.map regionImage).flatten)], unitR e, none⟩ ∧
    ∀ o, run (inp be "set_mem_table" (flat regs) e) = some o →
      Spec.Uapi.problem (inp be "set_mem_table" (flat regs) e) o = none := by
  simp only [BES, List.mem_cons, List.mem_nil_iff, or_false] at hbe
  have hrun : ∀ be, run (inp be "set_mem_table" (flat regs) e) = backendOp (inp be "set_mem_table" (flat regs) e) →
      run (inp be "set_mem_table" (flat regs) e) =
        some ⟨[.io 0x4008af03 (imageOf 8 [(0, 4, regs.length)] ++ (regs.map regionImage).flatten)], unitR e, none⟩ := by
    intro be hb
    rw [hb]
    have hh : structImage "vhost_memory" [(["nregions"], regs.length)] = some (imageOf 8 [(0, 4, regs.length)]) := rfl
    have hr : leafAt "vhost_memory" ["regions"] = some (8, 0) := by decide +kernel
    have hq : opRequest "VhostBackend" "set_mem_table" = some 0x4008af03 := by decide +kernel
    have hl : (imageOf 8 [(0, 4, regs.length)]).length = 8 := imageOf_length 8 _ (by simp)
    have hm := mapM_regionImage regs
    simp only [backendOp, inp, triples_flat]
    have hn : ¬ (regs.length = 0 ∨ 255 < regs.length) := by omega
    simp only [hn, if_false, hh, hr, Option.bind_eq_bind, Option.bind_some]
    rw [show (List.mapM (fun (x : Nat × Nat × Nat) => match x with
          | (g, z, u) => structImage "vhost_memory_region" [(["guest_phys_addr"], g), (["memory_size"], z), (["userspace_addr"], u),
              (["flags_padding"], 0)]) regs) = some (regs.map regionImage) from hm]
    simp only [Option.bind_some, ioCall, hq, captured, afterCall, iocDir, SET_MEM_TABLE, VDPA_GET_CONFIG, VDPA_SET_CONFIG]
    simp [hl, zeros, unitR, unitRet, List.take_of_length_le]
  have key : ∀ be, run (inp be "set_mem_table" (flat regs) e) =
        some ⟨[.io 0x4008af03 (imageOf 8 [(0, 4, regs.length)] ++ (regs.map regionImage).flatten)], unitR e, none⟩ →
      Spec.Uapi.expect (inp be "set_mem_table" (flat regs) e) =
        (let rg := Spec.Uapi.triples (flat regs)
         if rg.length = 0 ∨ 255 < rg.length ∨ (flat regs).length ≠ 3 * rg.length then .free
         else .ioctl "VhostBackend.set_mem_table" (.memTable rg) .unit false) →
      ∀ o, run (inp be "set_mem_table" (flat regs) e) = some o →
        Spec.Uapi.problem (inp be "set_mem_table" (flat regs) e) o = none := by
    intro be hr hexp o ho
    rw [hr] at ho
    cases ho
    simp only [spec_triples_flat, flat_length] at hexp
    rw [if_neg (by omega)] at hexp
    have hl : (imageOf 8 [(0, 4, regs.length)]).length = 8 := imageOf_length 8 _ (by simp)
    have hp := peek_imageOf 8 [(0, 4, regs.length)] (by simp) (by simp)
    have hu := peek_imageOf_untouched 8 [(0, 4, regs.length)] 4 4 (by simp) (by simp)
    have hfl := flatten_regions_length regs
    have e4 : (256 : Nat) ^ 4 = 2 ^ 32 := by decide
    have e8 : (256 : Nat) ^ 8 = 2 ^ 64 := by decide
    have k1 : Spec.Uapi.peekField (imageOf 8 [(0, 4, regs.length)] ++ (regs.map regionImage).flatten) "vhost_memory" ["nregions"] =
        some regs.length := by
      apply peekField_of _ _ _ 0 4 _ (by decide +kernel) (by rw [List.length_append, hl]; omega)
      rw [peek_append_left _ _ _ _ (by omega)]
      have := hp (0, 4, regs.length) (by simp)
      simp only at this
      rw [this, e4]
      exact Nat.mod_eq_of_lt (by omega)
    have k2 : Spec.Uapi.peekField (imageOf 8 [(0, 4, regs.length)] ++ (regs.map regionImage).flatten) "vhost_memory" ["padding"] =
        some 0 := by
      apply peekField_of _ _ _ 4 4 _ (by decide +kernel) (by rw [List.length_append, hl]; omega)
      rw [peek_append_left _ _ _ _ (by omega)]
      exact hu
    refine problem_ioctl _ _ "VhostBackend.set_mem_table" (.memTable regs) .unit false
      ⟨"VHOST_SET_MEM_TABLE", 1, 0x03, "struct vhost_memory"⟩ 0x4008af03 8 _
      hexp (by decide +kernel) (by decide +kernel) (by decide +kernel) rfl ?_ (retProblem_unit _ _ _) (Or.inl rfl)
    unfold Spec.Uapi.argProblem
    simp only [List.length_append, hl, hfl, ne_eq, not_true_eq_false, if_false, k1, k2]
    rw [List.findSome?_eq_none_iff]
    intro k hk
    have hk' : k < regs.length := by simpa using hk
    have hr : ((imageOf 8 [(0, 4, regs.length)] ++ (regs.map regionImage).flatten).drop (8 + 32 * k)).take 32 =
        regionImage regs[k] := by
      rw [List.drop_append, hl, List.drop_eq_nil_of_le (by omega), List.nil_append]
      have : 8 + 32 * k - 8 = 32 * k := by omega
      rw [this, flatten_chunk _ (by intro c hc; simp only [List.mem_map] at hc; obtain ⟨r, _, rfl⟩ := hc; exact regionImage_length r)
        k (by simpa using hk')]
      simp
    simp only [hr, List.getElem?_eq_getElem hk']
    generalize regs[k] = r
    obtain ⟨g, z, u⟩ := r
    have hq := peek_imageOf 32 [(0, 8, g), (8, 8, z), (16, 8, u), (24, 8, 0)] (by simp) (by simp [LeafDisjoint])
    have q1 := peekField_of (regionImage (g, z, u)) "vhost_memory_region" ["guest_phys_addr"] 0 8 _ (by decide +kernel)
      (by rw [regionImage_length]; omega) (hq (0, 8, g) (by simp))
    have q2 := peekField_of (regionImage (g, z, u)) "vhost_memory_region" ["memory_size"] 8 8 _ (by decide +kernel)
      (by rw [regionImage_length]; omega) (hq (8, 8, z) (by simp))
    have q3 := peekField_of (regionImage (g, z, u)) "vhost_memory_region" ["userspace_addr"] 16 8 _ (by decide +kernel)
      (by rw [regionImage_length]; omega) (hq (16, 8, u) (by simp))
    have q4 := peekField_of (regionImage (g, z, u)) "vhost_memory_region" ["flags_padding"] 24 8 _ (by decide +kernel)
      (by rw [regionImage_length]; omega) (hq (24, 8, 0) (by simp))
    simp only [e8] at q1 q2 q3 q4
    simp [q1, q2, q3, q4]
  rcases hbe with rfl | rfl | rfl | rfl
  · have h := hrun "kern" rfl; exact ⟨h, key _ h rfl⟩
  · have h := hrun "net" rfl; exact ⟨h, key _ h rfl⟩
  · have h := hrun "vsock" rfl; exact ⟨h, key _ h rfl⟩
  · have h := hrun "vdpa" rfl; exact ⟨h, key _ h rfl⟩

/-! ## 4. IOTLB messages -/
/-! ### IOTLB messages -/

/-- the leaves `send_iotlb_msg` writes into a `vhost_msg` (v1) -/
def v1Leaves (m : IotlbMsg) : List Leaf :=
  [(0, 4, 1), (8, 8, m.iova), (16, 8, m.size), (24, 8, m.ua), (32, 1, m.perm), (33, 1, m.ty)]

/-- … and into a `vhost_msg_v2` -/
def v2Leaves (m : IotlbMsg) : List Leaf :=
  [(0, 4, 2), (8, 8, m.iova), (16, 8, m.size), (24, 8, m.ua), (32, 1, m.perm), (33, 1, m.ty)]

theorem v2Selected_eq (acked : Nat) : v2Selected acked = some (acked.testBit 1) := by
  show some ((acked &&& (1 <<< 1)) != 0) = some (acked.testBit 1)
  congr 1
  have h := and_two_pow_ne_zero_iff acked 1
  cases hb : acked.testBit 1
  · have : acked &&& 2 ^ 1 = 0 := by
      by_cases hz : acked &&& 2 ^ 1 = 0
      · exact hz
      · rw [h.1 hz] at hb; cases hb
    simpa using this
  · have := h.2 hb
    simpa using this

/-- **v1/v2 selection**: the message is written in the v2 layout exactly when bit
    `VHOST_BACKEND_F_IOTLB_MSG_V2` (= 1) of the acknowledged backend features is set -/
theorem iotlb_version_by_acked_feature (acked : Nat) (m : IotlbMsg) :
    iotlbBytes acked m = some (imageOf 72 (if acked.testBit Spec.Uapi.VHOST_BACKEND_F_IOTLB_MSG_V2 then v2Leaves m else v1Leaves m)) := by
  unfold iotlbBytes
  show (v2Selected acked).bind _ = _
  rw [v2Selected_eq]
  show writeBranch _ m = _
  cases h : acked.testBit 1 <;> simp only [Spec.Uapi.VHOST_BACKEND_F_IOTLB_MSG_V2, h] <;> rfl

theorem v1_peeks (m : IotlbMsg) : ∀ l ∈ v1Leaves m, peek (imageOf 72 (v1Leaves m)) l.1 l.2.1 = l.2.2 % 256 ^ l.2.1 :=
  peek_imageOf 72 (v1Leaves m) (by simp [v1Leaves]) (by simp [v1Leaves, LeafDisjoint])

theorem v2_peeks (m : IotlbMsg) : ∀ l ∈ v2Leaves m, peek (imageOf 72 (v2Leaves m)) l.1 l.2.1 = l.2.2 % 256 ^ l.2.1 :=
  peek_imageOf 72 (v2Leaves m) (by simp [v2Leaves]) (by simp [v2Leaves, LeafDisjoint])

/-- a well-typed IOTLB message: three 64-bit words and two bytes -/
def WellTyped (m : IotlbMsg) : Prop :=
  m.iova < 2 ^ 64 ∧ m.size < 2 ^ 64 ∧ m.ua < 2 ^ 64 ∧ m.perm < 256 ∧ m.ty < 256

theorem parse_v1_closed (bs : Bytes) (hbs : bs.length = 72) :
    parseMsg "vhost_msg" bs =
      if peek bs 0 4 ≠ 1 then some none else if peek bs 33 1 = 0 then some none else
        some (some ⟨peek bs 8 8, peek bs 16 8, peek bs 24 8, peek bs 32 1, peek bs 33 1⟩) := by
  have e2 : Model.Kern.sizeOf "vhost_msg" = some 72 := by decide +kernel
  have e1 : (parserFor "vhost_msg").isSome = true := by decide +kernel
  unfold parseMsg
  cases hp : parserFor "vhost_msg" with
  | none => rw [hp] at e1; cases e1
  | some p =>
    simp only [e2, hbs, Option.bind_eq_bind, Option.bind_some, ne_eq, not_true_eq_false, if_false]
    cases hp
    rfl

theorem parse_v2_closed (bs : Bytes) (hbs : bs.length = 72) :
    parseMsg "vhost_msg_v2" bs =
      if peek bs 0 4 ≠ 2 then some none else if peek bs 33 1 = 0 then some none else
        some (some ⟨peek bs 8 8, peek bs 16 8, peek bs 24 8, peek bs 32 1, peek bs 33 1⟩) := by
  have e2 : Model.Kern.sizeOf "vhost_msg_v2" = some 72 := by decide +kernel
  have e1 : (parserFor "vhost_msg_v2").isSome = true := by decide +kernel
  unfold parseMsg
  cases hp : parserFor "vhost_msg_v2" with
  | none => rw [hp] at e1; cases e1
  | some p =>
    simp only [e2, hbs, Option.bind_eq_bind, Option.bind_some, ne_eq, not_true_eq_false, if_false]
    cases hp
    rfl

/-- **round trip, v1**: what `send_iotlb_msg` writes without the v2 feature is parsed back by
    `impl VhostIotlbMsgParser for vhost_msg` to the same values, for all field values
    (a message of type 0 = `Empty` is rejected by the parser) -/
theorem iotlb_v1_roundtrip (acked : Nat) (m : IotlbMsg) (hw : WellTyped m) (hv : acked.testBit 1 = false) :
    ∃ bs, iotlbBytes acked m = some bs ∧ bs.length = 72 ∧
      parseMsg "vhost_msg" bs = some (if m.ty = 0 then none else some m) := by
  have hl : (imageOf 72 (v1Leaves m)).length = 72 := imageOf_length 72 _ (by simp [v1Leaves])
  refine ⟨imageOf 72 (v1Leaves m), ?_, hl, ?_⟩
  · rw [iotlb_version_by_acked_feature]; simp [Spec.Uapi.VHOST_BACKEND_F_IOTLB_MSG_V2, hv]
  · obtain ⟨h1, h2, h3, h4, h5⟩ := hw
    have hp := v1_peeks m
    have p0 := hp (0, 4, 1) (by simp [v1Leaves])
    have p1 := hp (8, 8, m.iova) (by simp [v1Leaves])
    have p2 := hp (16, 8, m.size) (by simp [v1Leaves])
    have p3 := hp (24, 8, m.ua) (by simp [v1Leaves])
    have p4 := hp (32, 1, m.perm) (by simp [v1Leaves])
    have p5 := hp (33, 1, m.ty) (by simp [v1Leaves])
    simp only [] at p0 p1 p2 p3 p4 p5
    rw [parse_v1_closed _ hl, p0, p1, p2, p3, p4, p5]
    rw [Nat.mod_eq_of_lt (by omega : m.iova < 256 ^ 8), Nat.mod_eq_of_lt (by omega : m.size < 256 ^ 8),
      Nat.mod_eq_of_lt (by omega : m.ua < 256 ^ 8), Nat.mod_eq_of_lt (by omega : m.perm < 256 ^ 1),
      Nat.mod_eq_of_lt (by omega : m.ty < 256 ^ 1)]
    by_cases ht : m.ty = 0 <;> simp [ht]

/-- **round trip, v2** -/
theorem iotlb_v2_roundtrip (acked : Nat) (m : IotlbMsg) (hw : WellTyped m) (hv : acked.testBit 1 = true) :
    ∃ bs, iotlbBytes acked m = some bs ∧ bs.length = 72 ∧
      parseMsg "vhost_msg_v2" bs = some (if m.ty = 0 then none else some m) := by
  have hl : (imageOf 72 (v2Leaves m)).length = 72 := imageOf_length 72 _ (by simp [v2Leaves])
  refine ⟨imageOf 72 (v2Leaves m), ?_, hl, ?_⟩
  · rw [iotlb_version_by_acked_feature]; simp [Spec.Uapi.VHOST_BACKEND_F_IOTLB_MSG_V2, hv]
  · obtain ⟨h1, h2, h3, h4, h5⟩ := hw
    have hp := v2_peeks m
    have p0 := hp (0, 4, 2) (by simp [v2Leaves])
    have p1 := hp (8, 8, m.iova) (by simp [v2Leaves])
    have p2 := hp (16, 8, m.size) (by simp [v2Leaves])
    have p3 := hp (24, 8, m.ua) (by simp [v2Leaves])
    have p4 := hp (32, 1, m.perm) (by simp [v2Leaves])
    have p5 := hp (33, 1, m.ty) (by simp [v2Leaves])
    simp only [] at p0 p1 p2 p3 p4 p5
    rw [parse_v2_closed _ hl, p0, p1, p2, p3, p4, p5]
    rw [Nat.mod_eq_of_lt (by omega : m.iova < 256 ^ 8), Nat.mod_eq_of_lt (by omega : m.size < 256 ^ 8),
      Nat.mod_eq_of_lt (by omega : m.ua < 256 ^ 8), Nat.mod_eq_of_lt (by omega : m.perm < 256 ^ 1),
      Nat.mod_eq_of_lt (by omega : m.ty < 256 ^ 1)]
    by_cases ht : m.ty = 0 <;> simp [ht]

/-- the roundtrip hypotheses are satisfiable: a v2 `Update` of a read-write mapping -/
example : ∃ bs, iotlbBytes 2 ⟨0x1000, 0x2000, 0x7f0000001000, 3, 2⟩ = some bs ∧ bs.length = 72 ∧
    parseMsg "vhost_msg_v2" bs = some (some ⟨0x1000, 0x2000, 0x7f0000001000, 3, 2⟩) := by
  obtain ⟨bs, h1, h2, h3⟩ := iotlb_v2_roundtrip 2 ⟨0x1000, 0x2000, 0x7f0000001000, 3, 2⟩ (by unfold WellTyped; decide) (by decide)
  exact ⟨bs, h1, h2, by simpa using h3⟩

open Spec.Uapi in
theorem problem_iotlb (i : Inp) (o : Obs) (iova size ua perm : Option Nat) (ty : Nat) (bs : Bytes)
    (h1 : expect i = .iotlb iova size ua perm ty) (ho : o.calls = [.wr bs])
    (hp : iotlbProblem (i.feat.testBit VHOST_BACKEND_F_IOTLB_MSG_V2) iova size ua perm ty bs = none)
    (hr : o.ret = if i.rc ≠ 0 then .err "io" else .ok) : problem i o = none := by
  unfold problem
  rw [h1]
  simp only [ho, hp, hr]
  by_cases h : i.rc = 0 <;> simp [h, Option.orElse]

open Spec.Uapi in
theorem iotlbProblem_of_peeks (v2 : Bool) (s : String) (hs : s = if v2 then "vhost_msg_v2" else "vhost_msg")
    (bs : Bytes) (iova size ua perm : Option Nat) (ty : Nat)
    (hl : bs.length = 72)
    (k0 : peekField bs s ["type"] = some (if v2 then VHOST_IOTLB_MSG_V2 else VHOST_IOTLB_MSG))
    (ka : v2 = true → peekField bs s ["asid"] = some 0)
    (k1 : ∀ v, iova = some v → peekField bs s ["iotlb", "iova"] = some (v % 256 ^ 8))
    (k2 : ∀ v, size = some v → peekField bs s ["iotlb", "size"] = some (v % 256 ^ 8))
    (k3 : ∀ v, ua = some v → peekField bs s ["iotlb", "uaddr"] = some (v % 256 ^ 8))
    (k4 : ∀ v, perm = some v → peekField bs s ["iotlb", "perm"] = some (v % 256 ^ 1))
    (k5 : peekField bs s ["iotlb", "type"] = some (ty % 256 ^ 1)) :
    iotlbProblem v2 iova size ua perm ty bs = none := by
  unfold iotlbProblem
  simp only [← hs, hl, k0, ne_eq, not_true_eq_false, if_false]
  have e1 : (if v2 = true ∧ ¬peekField bs s ["asid"] = some 0 then some "msg-field:asid" else
      none : Option String) = none := by
    cases v2
    · simp
    · simp [ka rfl]
  cases iova <;> cases size <;> cases ua <;> cases perm <;>
    simp_all [Option.orElse]

open Spec.Uapi in
/-- the bytes of a written message satisfy every demand the UAPI layout makes on them -/
theorem iotlbProblem_image (v2 : Bool) (m : IotlbMsg) (iova size ua perm : Option Nat) (ty : Nat)
    (hi : ∀ v, iova = some v → v = m.iova) (hs : ∀ v, size = some v → v = m.size) (hu : ∀ v, ua = some v → v = m.ua)
    (hp : ∀ v, perm = some v → v = m.perm) (ht : ty = m.ty) :
    iotlbProblem v2 iova size ua perm ty (imageOf 72 (if v2 then v2Leaves m else v1Leaves m)) = none := by
  subst ht
  cases v2
  · have hl : (imageOf 72 (v1Leaves m)).length = 72 := imageOf_length 72 _ (by simp [v1Leaves])
    have hp' := v1_peeks m
    have p0 := hp' (0, 4, 1) (by simp [v1Leaves])
    have p1 := hp' (8, 8, m.iova) (by simp [v1Leaves])
    have p2 := hp' (16, 8, m.size) (by simp [v1Leaves])
    have p3 := hp' (24, 8, m.ua) (by simp [v1Leaves])
    have p4 := hp' (32, 1, m.perm) (by simp [v1Leaves])
    have p5 := hp' (33, 1, m.ty) (by simp [v1Leaves])
    simp only [] at p0 p1 p2 p3 p4 p5
    show iotlbProblem false iova size ua perm m.ty (imageOf 72 (v1Leaves m)) = none
    refine iotlbProblem_of_peeks false "vhost_msg" rfl _ _ _ _ _ _ hl
      (peekField_of _ _ _ 0 4 _ (by decide +kernel) (by omega) p0) (by intro h; cases h)
      (fun v h => peekField_of _ _ _ 8 8 _ (by decide +kernel) (by omega) (hi v h ▸ p1))
      (fun v h => peekField_of _ _ _ 16 8 _ (by decide +kernel) (by omega) (hs v h ▸ p2))
      (fun v h => peekField_of _ _ _ 24 8 _ (by decide +kernel) (by omega) (hu v h ▸ p3))
      (fun v h => peekField_of _ _ _ 32 1 _ (by decide +kernel) (by omega) (hp v h ▸ p4))
      (peekField_of _ _ _ 33 1 _ (by decide +kernel) (by omega) p5)
  · have hl : (imageOf 72 (v2Leaves m)).length = 72 := imageOf_length 72 _ (by simp [v2Leaves])
    have hp' := v2_peeks m
    have p0 := hp' (0, 4, 2) (by simp [v2Leaves])
    have p1 := hp' (8, 8, m.iova) (by simp [v2Leaves])
    have p2 := hp' (16, 8, m.size) (by simp [v2Leaves])
    have p3 := hp' (24, 8, m.ua) (by simp [v2Leaves])
    have p4 := hp' (32, 1, m.perm) (by simp [v2Leaves])
    have p5 := hp' (33, 1, m.ty) (by simp [v2Leaves])
    have pa : peek (imageOf 72 (v2Leaves m)) 4 4 = 0 :=
      peek_imageOf_untouched 72 (v2Leaves m) 4 4 (by simp [v2Leaves]) (by simp [v2Leaves])
    simp only [] at p0 p1 p2 p3 p4 p5
    show iotlbProblem true iova size ua perm m.ty (imageOf 72 (v2Leaves m)) = none
    refine iotlbProblem_of_peeks true "vhost_msg_v2" rfl _ _ _ _ _ _ hl
      (peekField_of _ _ _ 0 4 _ (by decide +kernel) (by omega) p0)
      (fun _ => peekField_of _ _ _ 4 4 _ (by decide +kernel) (by omega) pa)
      (fun v h => peekField_of _ _ _ 8 8 _ (by decide +kernel) (by omega) (hi v h ▸ p1))
      (fun v h => peekField_of _ _ _ 16 8 _ (by decide +kernel) (by omega) (hs v h ▸ p2))
      (fun v h => peekField_of _ _ _ 24 8 _ (by decide +kernel) (by omega) (hu v h ▸ p3))
      (fun v h => peekField_of _ _ _ 32 1 _ (by decide +kernel) (by omega) (hp v h ▸ p4))
      (peekField_of _ _ _ 33 1 _ (by decide +kernel) (by omega) p5)
theorem run_iotlb_vdpa (op : String) (a : List Nat) (e : Env) (m : IotlbMsg)
    (h1 : run (inp "vdpa" op a e) = vdpaOp (inp "vdpa" op a e))
    (h : vdpaOp (inp "vdpa" op a e) = sendIotlb (inp "vdpa" op a e) m) :
    run (inp "vdpa" op a e) =
      some ⟨[.wr (imageOf 72 (if e.feat.testBit 1 then v2Leaves m else v1Leaves m))], if e.rc ≠ 0 then .err "io" else .ok, none⟩ := by
  rw [h1, h]
  have h2 : sendIotlb (inp "vdpa" op a e) m = (iotlbBytes e.feat m).bind fun bs =>
        some ⟨[.wr bs], if e.rc ≠ 0 then .err "io" else .ok, none⟩ := rfl
  rw [h2, iotlb_version_by_acked_feature]
  simp [Spec.Uapi.VHOST_BACKEND_F_IOTLB_MSG_V2] <;> rfl
theorem run_iotlb_kern (be : String) (a : List Nat) (e : Env) (m : IotlbMsg)
    (h1 : run (inp be "send_iotlb_msg" a e) = featuresOp (inp be "send_iotlb_msg" a e))
    (h : featuresOp (inp be "send_iotlb_msg" a e) = sendIotlb (inp be "send_iotlb_msg" a e) m) :
    run (inp be "send_iotlb_msg" a e) =
      some ⟨[.wr (imageOf 72 (if e.feat.testBit 1 then v2Leaves m else v1Leaves m))], if e.rc ≠ 0 then .err "io" else .ok, none⟩ := by
  rw [h1, h]
  have h2 : sendIotlb (inp be "send_iotlb_msg" a e) m = (iotlbBytes e.feat m).bind fun bs =>
        some ⟨[.wr bs], if e.rc ≠ 0 then .err "io" else .ok, none⟩ := rfl
  rw [h2, iotlb_version_by_acked_feature]
  simp [Spec.Uapi.VHOST_BACKEND_F_IOTLB_MSG_V2] <;> rfl

/-- `send_iotlb_msg` on the kernel-vhost and vDPA backends: one `write` of 72 bytes in the layout the acknowledged
    features select, carrying the five values at the UAPI offsets (any values; types 0 and > 6 and permissions > 3
    are outside the property's domain and nothing is demanded for them) -/
theorem send_iotlb_msg_meets_uapi (be : String) (hbe : be ∈ FBES) (iova size ua perm ty : Nat) (e : Env) :
    run (inp be "send_iotlb_msg" [iova, size, ua, perm, ty] e) =
      some ⟨[.wr (imageOf 72 (if e.feat.testBit 1 then v2Leaves ⟨iova, size, ua, perm, ty⟩ else v1Leaves ⟨iova, size, ua, perm, ty⟩))],
        if e.rc ≠ 0 then .err "io" else .ok, none⟩ ∧
    ∀ o, run (inp be "send_iotlb_msg" [iova, size, ua, perm, ty] e) = some o →
      Spec.Uapi.problem (inp be "send_iotlb_msg" [iova, size, ua, perm, ty] e) o = none := by
  simp only [FBES, List.mem_cons, List.mem_nil_iff, or_false] at hbe
  have key : ∀ be, run (inp be "send_iotlb_msg" [iova, size, ua, perm, ty] e) =
      some ⟨[.wr (imageOf 72 (if e.feat.testBit 1 then v2Leaves ⟨iova, size, ua, perm, ty⟩ else v1Leaves ⟨iova, size, ua, perm, ty⟩))],
        if e.rc ≠ 0 then .err "io" else .ok, none⟩ →
      Spec.Uapi.expect (inp be "send_iotlb_msg" [iova, size, ua, perm, ty] e) =
        (if ty = 0 ∨ 6 < ty ∨ 3 < perm then .free else .iotlb (some iova) (some size) (some ua) (some perm) ty) →
      ∀ o, run (inp be "send_iotlb_msg" [iova, size, ua, perm, ty] e) = some o →
        Spec.Uapi.problem (inp be "send_iotlb_msg" [iova, size, ua, perm, ty] e) o = none := by
    intro be hrun hexp o ho
    rw [hrun] at ho
    cases ho
    by_cases hdom : ty = 0 ∨ 6 < ty ∨ 3 < perm
    · exact problem_free _ _ (by rw [hexp, if_pos hdom])
    · refine problem_iotlb _ _ _ _ _ _ _ _ (by rw [hexp, if_neg hdom]) rfl ?_ rfl
      exact iotlbProblem_image (e.feat.testBit 1) ⟨iova, size, ua, perm, ty⟩ _ _ _ _ _
        (by intro v h; cases h; rfl) (by intro v h; cases h; rfl) (by intro v h; cases h; rfl) (by intro v h; cases h; rfl) rfl
  rcases hbe with rfl | rfl
  · have hrun := run_iotlb_kern "kern" [iova, size, ua, perm, ty] e ⟨iova, size, ua, perm, ty⟩ rfl rfl
    exact ⟨hrun, key _ hrun rfl⟩
  · have hrun := run_iotlb_kern "vdpa" [iova, size, ua, perm, ty] e ⟨iova, size, ua, perm, ty⟩ rfl rfl
    exact ⟨hrun, key _ hrun rfl⟩

/-- `dma_map`: an `Update` message with read-only or read-write permission -/
theorem dma_map_meets_uapi (iova size va ro : Nat) (e : Env) :
    ∀ o, run (inp "vdpa" "dma_map" [iova, size, va, ro] e) = some o →
      Spec.Uapi.problem (inp "vdpa" "dma_map" [iova, size, va, ro] e) o = none := by
  have hrun := run_iotlb_vdpa "dma_map" [iova, size, va, ro] e ⟨iova, size, va, if ro != 0 then 1 else 3, 2⟩ rfl rfl
  intro o ho
  rw [hrun] at ho
  cases ho
  refine problem_iotlb _ _ (some iova) (some size) (some va) (some (if ro != 0 then 1 else 3)) 2 _ rfl rfl ?_ rfl
  exact iotlbProblem_image (e.feat.testBit 1) ⟨iova, size, va, if ro != 0 then 1 else 3, 2⟩ _ _ _ _ _
    (by intro v h; cases h; rfl) (by intro v h; cases h; rfl) (by intro v h; cases h; rfl) (by intro v h; cases h; rfl) rfl

/-- `dma_unmap`: an `Invalidate` message for the range -/
theorem dma_unmap_meets_uapi (iova size : Nat) (e : Env) :
    ∀ o, run (inp "vdpa" "dma_unmap" [iova, size] e) = some o →
      Spec.Uapi.problem (inp "vdpa" "dma_unmap" [iova, size] e) o = none := by
  have hrun := run_iotlb_vdpa "dma_unmap" [iova, size] e ⟨iova, size, 0, 0, 3⟩ rfl rfl
  intro o ho
  rw [hrun] at ho
  cases ho
  refine problem_iotlb _ _ (some iova) (some size) none none 3 _ rfl rfl ?_ rfl
  exact iotlbProblem_image (e.feat.testBit 1) ⟨iova, size, 0, 0, 3⟩ _ _ _ _ _
    (by intro v h; cases h; rfl) (by intro v h; cases h; rfl) (by intro v h; cases h) (by intro v h; cases h) rfl

open Spec.Uapi in
/-- the two parsers: a buffer that is a UAPI v1 (v2) IOTLB message with a defined type and permission is
    parsed to exactly the values at the UAPI offsets, for every buffer content -/
theorem parse_meets_uapi (v2 : Bool) (a : List Nat) (e : Env) :
    ∀ o, run (inp "none" (if v2 then "parse_v2" else "parse_v1") a e) = some o →
      problem (inp "none" (if v2 then "parse_v2" else "parse_v1") a e) o = none := by
  intro o ho
  by_cases hl : e.buf.length = 72
  · cases v2
    · have hrun : run (inp "none" "parse_v1" a e) = (parseMsg "vhost_msg" e.buf).map fun r =>
          ⟨[], match r with | some m => .ok5 m.iova m.size m.ua m.perm m.ty | none => .err "iotlb", none⟩ := rfl
      simp only [Bool.false_eq_true, if_false] at ho ⊢
      rw [hrun, parse_v1_closed _ hl] at ho
      have hexp : expect (inp "none" "parse_v1" a e) = .parse false := rfl
      have k0 := peekField_of e.buf "vhost_msg" ["type"] 0 4 _ (by decide +kernel) (by omega) rfl
      have k1 := peekField_of e.buf "vhost_msg" ["iotlb", "iova"] 8 8 _ (by decide +kernel) (by omega) rfl
      have k2 := peekField_of e.buf "vhost_msg" ["iotlb", "size"] 16 8 _ (by decide +kernel) (by omega) rfl
      have k3 := peekField_of e.buf "vhost_msg" ["iotlb", "uaddr"] 24 8 _ (by decide +kernel) (by omega) rfl
      have k4 := peekField_of e.buf "vhost_msg" ["iotlb", "perm"] 32 1 _ (by decide +kernel) (by omega) rfl
      have k5 := peekField_of e.buf "vhost_msg" ["iotlb", "type"] 33 1 _ (by decide +kernel) (by omega) rfl
      unfold problem
      rw [hexp]
      have hb : (inp "none" "parse_v1" a e).buf = e.buf := rfl
      simp only [hb, hl, k0, k1, k2, k3, k4, k5, Option.getD_some, Bool.false_eq_true, if_false, ne_eq, not_true_eq_false,
        VHOST_IOTLB_MSG]
      by_cases c1 : peek e.buf 0 4 = 1
      · by_cases c2 : peek e.buf 33 1 = 0
        · simp [c1, c2]
        · simp [c1, c2] at ho
          subst ho
          simp [c1, c2]
      · simp [c1]
    · have hrun : run (inp "none" "parse_v2" a e) = (parseMsg "vhost_msg_v2" e.buf).map fun r =>
          ⟨[], match r with | some m => .ok5 m.iova m.size m.ua m.perm m.ty | none => .err "iotlb", none⟩ := rfl
      simp only [if_true] at ho ⊢
      rw [hrun, parse_v2_closed _ hl] at ho
      have hexp : expect (inp "none" "parse_v2" a e) = .parse true := rfl
      have k0 := peekField_of e.buf "vhost_msg_v2" ["type"] 0 4 _ (by decide +kernel) (by omega) rfl
      have k1 := peekField_of e.buf "vhost_msg_v2" ["iotlb", "iova"] 8 8 _ (by decide +kernel) (by omega) rfl
      have k2 := peekField_of e.buf "vhost_msg_v2" ["iotlb", "size"] 16 8 _ (by decide +kernel) (by omega) rfl
      have k3 := peekField_of e.buf "vhost_msg_v2" ["iotlb", "uaddr"] 24 8 _ (by decide +kernel) (by omega) rfl
      have k4 := peekField_of e.buf "vhost_msg_v2" ["iotlb", "perm"] 32 1 _ (by decide +kernel) (by omega) rfl
      have k5 := peekField_of e.buf "vhost_msg_v2" ["iotlb", "type"] 33 1 _ (by decide +kernel) (by omega) rfl
      unfold problem
      rw [hexp]
      have hb : (inp "none" "parse_v2" a e).buf = e.buf := rfl
      simp only [hb, hl, k0, k1, k2, k3, k4, k5, Option.getD_some, if_true, ne_eq, not_true_eq_false, if_false,
        VHOST_IOTLB_MSG_V2]
      by_cases c1 : peek e.buf 0 4 = 2
      · by_cases c2 : peek e.buf 33 1 = 0
        · simp [c1, c2]
        · simp [c1, c2] at ho
          subst ho
          simp [c1, c2]
      · simp [c1]
  · unfold problem
    cases v2
    · have hexp : expect (inp "none" "parse_v1" a e) = .parse false := rfl
      simp only [Bool.false_eq_true, if_false]
      rw [hexp]
      have hb : (inp "none" "parse_v1" a e).buf = e.buf := rfl
      simp [hb, hl]
    · have hexp : expect (inp "none" "parse_v2" a e) = .parse true := rfl
      simp only [if_true]
      rw [hexp]
      have hb : (inp "none" "parse_v2" a e).buf = e.buf := rfl
      simp [hb, hl]

/-! ## 5. ring configuration -/

/-! ### ring configuration: validation and address translation -/

theorem isPow2b_iff (n : Nat) (hn : n < 2 ^ 16) : Spec.Uapi.isPow2b n = true ↔ Spec.Uapi.isPow2 n := by
  unfold Spec.Uapi.isPow2b Spec.Uapi.isPow2
  simp only [List.any_eq_true, List.mem_range, beq_iff_eq]
  constructor
  · rintro ⟨k, _, h⟩; exact ⟨k, h⟩
  · rintro ⟨k, h⟩
    refine ⟨k, ?_, h⟩
    by_cases hk : k < 17
    · exact hk
    · exfalso
      have : 2 ^ 17 ≤ 2 ^ k := Nat.pow_le_pow_right (by omega) (by omega)
      omega

/-- **`is_valid`, size part**: the code's test `size > max || size == 0 || size & (size - 1) != 0` refuses exactly
    the zero, non-power-of-two and over-maximum sizes -/
theorem sizeBad_iff (c : RingCfg) :
    sizeBad c = true ↔ (c.qsize = 0 ∨ ¬ Spec.Uapi.isPow2 c.qsize ∨ c.qmax < c.qsize) := by
  unfold sizeBad Spec.Uapi.isPow2
  simp only [Bool.or_eq_true, decide_eq_true_eq, beq_iff_eq, bne_iff_ne, ne_eq, gt_iff_lt]
  by_cases h0 : c.qsize = 0
  · simp [h0]
  · have := and_pred_eq_zero_iff c.qsize (by omega)
    rw [this]
    simp only [h0, false_or, or_false]
    constructor
    · rintro (h | h)
      · right; exact h
      · left; exact h
    · rintro (h | h)
      · right; exact h
      · left; exact h

/-- **`is_log_addr_valid`**: refused exactly when the log flag (bit 0) is set and no log address is given -/
theorem isLogAddrValid_false_iff (c : RingCfg) :
    isLogAddrValid c = false ↔ (c.flags.testBit Spec.Uapi.VHOST_VRING_F_LOG = true ∧ c.log = none) := by
  unfold isLogAddrValid Spec.Uapi.VHOST_VRING_F_LOG
  have h := and_two_pow_ne_zero_iff c.flags 0
  simp only [Nat.pow_zero] at h
  cases hl : c.log <;> simp [h]

/-- the ring configuration a scenario's argument list denotes -/
def cfgOf (qmax qsize flags desc used avail hasLog log : Nat) : RingCfg :=
  { qmax := qmax % 2 ^ 16, qsize := qsize % 2 ^ 16, flags := flags % 2 ^ 32, desc, used, avail,
    log := if hasLog != 0 then some log else none }

theorem ringRefusedb_iff (qmax qsize flags : Nat) (hasLog : Bool) (hq : qsize < 2 ^ 16) :
    Spec.Uapi.ringRefusedb qmax qsize flags hasLog = true ↔ Spec.Uapi.ringRefused qmax qsize flags hasLog := by
  unfold Spec.Uapi.ringRefusedb Spec.Uapi.ringRefused
  have := isPow2b_iff qsize hq
  cases hasLog <;> simp [← this, or_assoc]

/-- a configuration the property lists as refused fails both validity checks of the code -/
theorem refused_invalid (qmax qsize flags desc used avail hasLog log : Nat)
    (h : Spec.Uapi.ringRefused (qmax % 2 ^ 16) (qsize % 2 ^ 16) (flags % 2 ^ 32) (hasLog != 0)) (m : Mem) :
    isValidKern m (cfgOf qmax qsize flags desc used avail hasLog log) = false ∧
    isValidVdpa (cfgOf qmax qsize flags desc used avail hasLog log) = false := by
  have hs := sizeBad_iff (cfgOf qmax qsize flags desc used avail hasLog log)
  have hl := isLogAddrValid_false_iff (cfgOf qmax qsize flags desc used avail hasLog log)
  unfold Spec.Uapi.ringRefused at h
  have key : sizeBad (cfgOf qmax qsize flags desc used avail hasLog log) = true ∨
      isLogAddrValid (cfgOf qmax qsize flags desc used avail hasLog log) = false := by
    rcases h with h | h | h | h
    · left; exact hs.2 (Or.inl h)
    · left; exact hs.2 (Or.inr (Or.inl h))
    · left; exact hs.2 (Or.inr (Or.inr h))
    · right; apply hl.2
      refine ⟨h.1, ?_⟩
      have h2 := h.2
      simp only [cfgOf]
      cases hh : (hasLog != 0) <;> simp_all
  unfold isValidKern isValidVdpa
  rcases key with k | k <;> simp [k]

/-- **refusal before any ioctl**: a ring configuration with a zero, non-power-of-two or over-maximum size, or with
    the log flag but no log address, makes `set_vring_addr` fail with `InvalidQueue` without issuing anything —
    on the blanket impl (kernel-vhost, vhost-net, vhost-vsock) and on vDPA, for every memory layout -/
theorem invalid_ring_config_refused_before_ioctl (be : String) (q qmax qsize flags desc used avail hasLog log : Nat) (e : Env)
    (translate : Bool)
    (h : Spec.Uapi.ringRefused (qmax % 2 ^ 16) (qsize % 2 ^ 16) (flags % 2 ^ 32) (hasLog != 0)) :
    setVringAddr (inp be "set_vring_addr" [q, qmax, qsize, flags, desc, used, avail, hasLog, log] e) translate =
      some ⟨[], .err "invalidqueue", none⟩ := by
  obtain ⟨h1, h2⟩ := refused_invalid qmax qsize flags desc used avail hasLog log h e.mem
  have hc : ringCfgOf [q, qmax, qsize, flags, desc, used, avail, hasLog, log] =
      some (q, cfgOf qmax qsize flags desc used avail hasLog log) := rfl
  unfold setVringAddr
  cases translate
  · simp [inp, hc, h2]
  · simp [inp, hc, h1]

/-- the hypothesis is satisfiable: size 3 of at most 256 -/
example : Spec.Uapi.ringRefused (256 % 2 ^ 16) (3 % 2 ^ 16) (0 % 2 ^ 32) ((0 : Nat) != 0) := by
  right; left
  rintro ⟨k, hk⟩
  have : k < 2 := by
    by_cases h : k < 2
    · exact h
    · have : 2 ^ 2 ≤ 2 ^ k := Nat.pow_le_pow_right (by omega) (by omega)
      omega
  have : k = 0 ∨ k = 1 := by omega
  rcases this with rfl | rfl <;> simp at hk

/-- members of the `vhost_vring_addr` image -/
def ringLeaves (q flags d u a lg : Nat) : List Leaf :=
  [(0, 4, q), (4, 4, flags), (8, 8, d), (16, 8, u), (24, 8, a), (32, 8, lg)]

theorem spec_hostAddr_eq : Spec.Uapi.hostAddr = Model.Kern.hostAddr := rfl

/-- closed form of the blanket `set_vring_addr` -/
theorem setVringAddr_kern (be : String) (q qmax qsize flags desc used avail hasLog log : Nat) (e : Env) :
    setVringAddr (inp be "set_vring_addr" [q, qmax, qsize, flags, desc, used, avail, hasLog, log] e) true =
      (let c := cfgOf qmax qsize flags desc used avail hasLog log
       if isValidKern e.mem c = false then some ⟨[], .err "invalidqueue", none⟩ else
       match hostAddr e.mem desc, hostAddr e.mem avail, hostAddr e.mem used with
       | none, _, _ => some ⟨[], .err "desc", none⟩
       | some _, none, _ => some ⟨[], .err "avail", none⟩
       | some _, some _, none => some ⟨[], .err "used", none⟩
       | some d, some a, some u =>
         some ⟨[.io 0x4028af11 (imageOf 40 (ringLeaves q c.flags d u a (getLogAddr c)))], unitR e, none⟩) := by
  have hc : ringCfgOf [q, qmax, qsize, flags, desc, used, avail, hasLog, log] =
      some (q, cfgOf qmax qsize flags desc used avail hasLog log) := rfl
  unfold setVringAddr
  simp only [inp, hc, Option.bind_eq_bind, Option.bind_some, if_true]
  by_cases hv : isValidKern e.mem (cfgOf qmax qsize flags desc used avail hasLog log) = true
  case neg =>
    have hv' : isValidKern e.mem (cfgOf qmax qsize flags desc used avail hasLog log) = false := by simpa using hv
    simp [hv']
  case pos =>
    simp only [hv, Bool.not_true, Bool.false_eq_true, if_false, toVhostVringAddr]
    cases hd : hostAddr e.mem desc with
    | none => simp [cfgOf, hd]
    | some d =>
      cases ha : hostAddr e.mem avail with
      | none => simp [cfgOf, hd, ha]
      | some a =>
        cases hu : hostAddr e.mem used with
        | none => simp [cfgOf, hd, ha, hu]
        | some u => simp [cfgOf, hd, ha, hu]; rfl

theorem ring_peeks (q flags d u a lg : Nat) :
    ∀ l ∈ ringLeaves q flags d u a lg, peek (imageOf 40 (ringLeaves q flags d u a lg)) l.1 l.2.1 = l.2.2 % 256 ^ l.2.1 :=
  peek_imageOf 40 _ (by simp [ringLeaves]) (by simp [ringLeaves, LeafDisjoint])

/-- closed form of `VhostKernVdpa::set_vring_addr` -/
theorem setVringAddr_vdpa (be : String) (q qmax qsize flags desc used avail hasLog log : Nat) (e : Env) :
    setVringAddr (inp be "set_vring_addr" [q, qmax, qsize, flags, desc, used, avail, hasLog, log] e) false =
      if isValidVdpa (cfgOf qmax qsize flags desc used avail hasLog log) = false then some ⟨[], .err "invalidqueue", none⟩ else
        some ⟨[.io 0x4028af11 (imageOf 40 (ringLeaves q (flags % 2 ^ 32) desc used avail
          (getLogAddr (cfgOf qmax qsize flags desc used avail hasLog log))))], unitR e, none⟩ := by
  have hc : ringCfgOf [q, qmax, qsize, flags, desc, used, avail, hasLog, log] =
      some (q, cfgOf qmax qsize flags desc used avail hasLog log) := rfl
  unfold setVringAddr
  simp only [inp, hc, Option.bind_eq_bind, Option.bind_some]
  by_cases hv : isValidVdpa (cfgOf qmax qsize flags desc used avail hasLog log) = true
  case neg =>
    have hv' : isValidVdpa (cfgOf qmax qsize flags desc used avail hasLog log) = false := by simpa using hv
    simp [hv']
  case pos =>
    simp [hv]; rfl

/-- **ring address translation**: whenever the blanket `set_vring_addr` (kernel-vhost, vhost-net, vhost-vsock)
    issues its ioctl, it is `VHOST_SET_VRING_ADDR` and the three ring addresses in the argument — read at the UAPI
    offsets — are the host addresses of the given guest addresses: for each there is a region of the guest memory
    containing it, and the value handed over is that region's host base plus the distance from the region's start -/
theorem ring_addr_translation (be : String) (q qmax qsize flags desc used avail hasLog log : Nat) (e : Env) (o : Obs)
    (h : setVringAddr (inp be "set_vring_addr" [q, qmax, qsize, flags, desc, used, avail, hasLog, log] e) true = some o)
    (hc : o.calls ≠ []) :
    ∃ bs, o.calls = [.io 0x4028af11 bs] ∧ bs.length = 40 ∧
      ∀ fg ∈ [("desc_user_addr", desc), ("used_user_addr", used), ("avail_user_addr", avail)],
        ∃ r ∈ e.mem, r.1 ≤ fg.2 ∧ fg.2 < r.1 + r.2.1 ∧
          Spec.Uapi.peekField bs "vhost_vring_addr" [fg.1] = some ((r.2.2 + (fg.2 - r.1)) % 2 ^ 64) := by
  rw [setVringAddr_kern] at h
  simp only at h
  split at h
  · cases h; exact absurd rfl hc
  · split at h
    · cases h; exact absurd rfl hc
    · cases h; exact absurd rfl hc
    · cases h; exact absurd rfl hc
    · rename_i d a u hd ha hu
      cases h
      have hp := ring_peeks q (cfgOf qmax qsize flags desc used avail hasLog log).flags d u a
        (getLogAddr (cfgOf qmax qsize flags desc used avail hasLog log))
      have hl : (imageOf 40 (ringLeaves q (cfgOf qmax qsize flags desc used avail hasLog log).flags d u a
          (getLogAddr (cfgOf qmax qsize flags desc used avail hasLog log)))).length = 40 :=
        imageOf_length 40 _ (by simp [ringLeaves])
      refine ⟨_, rfl, hl, ?_⟩
      have find : ∀ g v, hostAddr e.mem g = some v → ∃ r ∈ e.mem, r.1 ≤ g ∧ g < r.1 + r.2.1 ∧ v = r.2.2 + (g - r.1) := by
        intro g v hg
        unfold hostAddr at hg
        cases hf : e.mem.find? (fun r => decide (r.1 ≤ g ∧ g < r.1 + r.2.1)) with
        | none => rw [hf] at hg; cases hg
        | some r =>
          simp only [hf, Option.map_some, Option.some.injEq] at hg
          have hm := List.mem_of_find?_eq_some hf
          have hpr := List.find?_some hf
          simp only [decide_eq_true_eq] at hpr
          exact ⟨r, hm, hpr.1, hpr.2, hg.symm⟩
      intro fg hfg
      simp only [List.mem_cons, List.mem_nil_iff, or_false] at hfg
      rcases hfg with rfl | rfl | rfl
      · obtain ⟨r, hm, h1, h2, h3⟩ := find desc d hd
        refine ⟨r, hm, h1, h2, ?_⟩
        rw [← h3]
        exact peekField_of _ _ ["desc_user_addr"] 8 8 _ (by decide +kernel) (by omega) (hp (8, 8, d) (by simp [ringLeaves]))
      · obtain ⟨r, hm, h1, h2, h3⟩ := find used u hu
        refine ⟨r, hm, h1, h2, ?_⟩
        rw [← h3]
        exact peekField_of _ _ ["used_user_addr"] 16 8 _ (by decide +kernel) (by omega) (hp (16, 8, u) (by simp [ringLeaves]))
      · obtain ⟨r, hm, h1, h2, h3⟩ := find avail a ha
        refine ⟨r, hm, h1, h2, ?_⟩
        rw [← h3]
        exact peekField_of _ _ ["avail_user_addr"] 24 8 _ (by decide +kernel) (by omega) (hp (24, 8, a) (by simp [ringLeaves]))

/-- **vDPA leaves ring addresses unchanged** -/
theorem ring_addr_unchanged_vdpa (be : String) (q qmax qsize flags desc used avail hasLog log : Nat) (e : Env) (o : Obs)
    (h : setVringAddr (inp be "set_vring_addr" [q, qmax, qsize, flags, desc, used, avail, hasLog, log] e) false = some o)
    (hc : o.calls ≠ []) :
    ∃ bs, o.calls = [.io 0x4028af11 bs] ∧ bs.length = 40 ∧
      Spec.Uapi.peekField bs "vhost_vring_addr" ["desc_user_addr"] = some (desc % 2 ^ 64) ∧
      Spec.Uapi.peekField bs "vhost_vring_addr" ["used_user_addr"] = some (used % 2 ^ 64) ∧
      Spec.Uapi.peekField bs "vhost_vring_addr" ["avail_user_addr"] = some (avail % 2 ^ 64) := by
  rw [setVringAddr_vdpa] at h
  split at h
  · cases h; exact absurd rfl hc
  · cases h
    have hp := ring_peeks q (flags % 2 ^ 32) desc used avail (getLogAddr (cfgOf qmax qsize flags desc used avail hasLog log))
    have hl : (imageOf 40 (ringLeaves q (flags % 2 ^ 32) desc used avail
        (getLogAddr (cfgOf qmax qsize flags desc used avail hasLog log)))).length = 40 :=
      imageOf_length 40 _ (by simp [ringLeaves])
    exact ⟨_, rfl, hl,
      peekField_of _ _ _ 8 8 _ (by decide +kernel) (by omega) (hp (8, 8, desc) (by simp [ringLeaves])),
      peekField_of _ _ _ 16 8 _ (by decide +kernel) (by omega) (hp (16, 8, used) (by simp [ringLeaves])),
      peekField_of _ _ _ 24 8 _ (by decide +kernel) (by omega) (hp (24, 8, avail) (by simp [ringLeaves]))⟩

/-- the hypotheses of `ring_addr_translation` are satisfiable: a 256-entry ring inside one 1 MiB region mapped at
    host address 0x1000000000 is accepted and translated -/
example : ∃ o, setVringAddr (inp "net" "set_vring_addr" [1, 256, 256, 0, 0x1000, 0x3000, 0x2000, 0, 0]
      ⟨[], [(0, 0x100000, 0x1000000000)], 0, [], 0⟩) true = some o ∧ o.calls ≠ [] := by
  refine ⟨_, setVringAddr_kern _ _ _ _ _ _ _ _ _ _ _, ?_⟩
  decide

open Spec.Uapi in
theorem ringExpect_closed (be : String) (translate : Bool) (q qmax qsize flags desc used avail hasLog log : Nat) (e : Env) :
    ringExpect (inp be "set_vring_addr" [q, qmax, qsize, flags, desc, used, avail, hasLog, log] e) translate =
      if ringRefusedb (qmax % 2 ^ 16) (qsize % 2 ^ 16) (flags % 2 ^ 32) (hasLog != 0) = true then .refuse else
      match (if translate then Spec.Uapi.hostAddr e.mem desc else some desc),
            (if translate then Spec.Uapi.hostAddr e.mem used else some used),
            (if translate then Spec.Uapi.hostAddr e.mem avail else some avail) with
      | some d, some u, some av =>
        .ioctl ((if translate then "VhostBackend" else "VhostKernVdpa") ++ ".set_vring_addr")
          (.fields "vhost_vring_addr"
            (if (flags % 2 ^ 32).testBit 0 then
              [(["index"], q), (["flags"], flags % 2 ^ 32), (["desc_user_addr"], d), (["used_user_addr"], u),
               (["avail_user_addr"], av), (["log_guest_addr"], log)]
            else
              [(["index"], q), (["flags"], flags % 2 ^ 32), (["desc_user_addr"], d), (["used_user_addr"], u),
               (["avail_user_addr"], av)])) .unit true
      | _, _, _ => .refuse := by
  rfl

/-- in a configuration that is not refused and has the log flag, the log address the code hands over is the caller's -/
theorem getLogAddr_of_flag (qmax qsize flags desc used avail hasLog log : Nat)
    (hr : ¬ Spec.Uapi.ringRefusedb (qmax % 2 ^ 16) (qsize % 2 ^ 16) (flags % 2 ^ 32) (hasLog != 0) = true)
    (hf : (flags % 2 ^ 32).testBit 0 = true) :
    getLogAddr (cfgOf qmax qsize flags desc used avail hasLog log) = log := by
  have hl : (hasLog != 0) = true := by
    cases h : (hasLog != 0)
    · exfalso; apply hr
      simp [Spec.Uapi.ringRefusedb, Spec.Uapi.VHOST_VRING_F_LOG, hf, h]
    · rfl
  have h1 := and_two_pow_ne_zero_iff (flags % 2 ^ 32) 0
  simp only [Nat.pow_zero] at h1
  have h2 := h1.2 hf
  simp [getLogAddr, cfgOf, hl]
  intro h0
  exfalso
  rw [Nat.and_one_is_mod] at h2
  omega

theorem ring_fields_ok (q fl d u a lg log : Nat) (hlog : fl.testBit 0 = true → lg = log) :
    FieldsOk "vhost_vring_addr" (ringLeaves q fl d u a lg)
      (if fl.testBit 0 then
        [(["index"], q), (["flags"], fl), (["desc_user_addr"], d), (["used_user_addr"], u),
         (["avail_user_addr"], a), (["log_guest_addr"], log)]
      else
        [(["index"], q), (["flags"], fl), (["desc_user_addr"], d), (["used_user_addr"], u), (["avail_user_addr"], a)]) := by
  cases hf : fl.testBit 0
  · simp only [Bool.false_eq_true, if_false]
    unfold ringLeaves
    fields_ok
  · simp only [if_true]
    rw [hlog hf]
    unfold ringLeaves
    fields_ok

/-- `set_vring_addr` through the blanket impl: refused before any ioctl when the property says so (or when a ring
    address has no host address); otherwise, if anything is issued, it is `VHOST_SET_VRING_ADDR` with queue index,
    flags, the three **host** addresses and (with the log flag) the log address at the UAPI offsets -/
theorem set_vring_addr_meets_uapi (be : String) (hbe : be ∈ ["kern", "net", "vsock"])
    (q qmax qsize flags desc used avail hasLog log : Nat) (e : Env) :
    ∀ o, run (inp be "set_vring_addr" [q, qmax, qsize, flags, desc, used, avail, hasLog, log] e) = some o →
      Spec.Uapi.problem (inp be "set_vring_addr" [q, qmax, qsize, flags, desc, used, avail, hasLog, log] e) o = none := by
  simp only [List.mem_cons, List.mem_nil_iff, or_false] at hbe
  have key : ∀ be, run (inp be "set_vring_addr" [q, qmax, qsize, flags, desc, used, avail, hasLog, log] e) =
        setVringAddr (inp be "set_vring_addr" [q, qmax, qsize, flags, desc, used, avail, hasLog, log] e) true →
      Spec.Uapi.expect (inp be "set_vring_addr" [q, qmax, qsize, flags, desc, used, avail, hasLog, log] e) =
        Spec.Uapi.ringExpect (inp be "set_vring_addr" [q, qmax, qsize, flags, desc, used, avail, hasLog, log] e) true →
      ∀ o, run (inp be "set_vring_addr" [q, qmax, qsize, flags, desc, used, avail, hasLog, log] e) = some o →
        Spec.Uapi.problem (inp be "set_vring_addr" [q, qmax, qsize, flags, desc, used, avail, hasLog, log] e) o = none := by
    intro be hrun hexp o ho
    rw [hrun, setVringAddr_kern] at ho
    rw [ringExpect_closed] at hexp
    simp only [if_true, spec_hostAddr_eq] at hexp ho
    by_cases hr : Spec.Uapi.ringRefusedb (qmax % 2 ^ 16) (qsize % 2 ^ 16) (flags % 2 ^ 32) (hasLog != 0) = true
    · -- the property demands refusal
      have hR := (ringRefusedb_iff _ _ _ _ (Nat.mod_lt _ (by decide))).1 hr
      obtain ⟨h1, _⟩ := refused_invalid qmax qsize flags desc used avail hasLog log hR e.mem
      rw [if_pos h1] at ho
      cases ho
      exact problem_refuse _ _ _ (by rw [hexp, if_pos hr]) rfl rfl
    · rw [if_neg hr] at hexp
      by_cases hv : isValidKern e.mem (cfgOf qmax qsize flags desc used avail hasLog log) = false
      · -- refused for another reason (a ring end outside guest memory): allowed
        rw [if_pos hv] at ho
        cases ho
        cases hd : hostAddr e.mem desc <;> cases hu : hostAddr e.mem used <;> cases ha : hostAddr e.mem avail <;>
          simp only [hd, hu, ha] at hexp <;>
          first
            | exact problem_refuse _ _ _ hexp rfl rfl
            | exact problem_mayRefuse _ _ _ _ _ _ hexp rfl rfl
      · rw [if_neg hv] at ho
        cases hd : hostAddr e.mem desc with
        | none =>
          simp only [hd] at ho hexp
          cases ho
          exact problem_refuse _ _ _ hexp rfl rfl
        | some d =>
          cases ha : hostAddr e.mem avail with
          | none =>
            simp only [hd, ha] at ho hexp
            cases ho
            cases hu : hostAddr e.mem used <;> simp only [hu] at hexp <;> exact problem_refuse _ _ _ hexp rfl rfl
          | some a =>
            cases hu : hostAddr e.mem used with
            | none =>
              simp only [hd, ha, hu] at ho hexp
              cases ho
              exact problem_refuse _ _ _ hexp rfl rfl
            | some u =>
              simp only [hd, ha, hu] at ho hexp
              cases ho
              refine problem_ioctl _ _ _ _ _ _ ⟨"VHOST_SET_VRING_ADDR", 1, 0x11, "struct vhost_vring_addr"⟩ 0x4028af11 40 _
                hexp (by decide +kernel) (by decide +kernel) (by decide +kernel) rfl ?_ (retProblem_unit _ _ _) (Or.inl rfl)
              apply argProblem_image
              · simp [ringLeaves]
              · simp [ringLeaves, LeafDisjoint]
              · exact ring_fields_ok q _ d u a _ log
                  (fun hf => getLogAddr_of_flag qmax qsize flags desc used avail hasLog log hr hf)
  rcases hbe with rfl | rfl | rfl
  · exact key _ rfl rfl
  · exact key _ rfl rfl
  · exact key _ rfl rfl

/-- `VhostKernVdpa::set_vring_addr`: the same refusals; otherwise `VHOST_SET_VRING_ADDR` with the ring addresses
    **unchanged** -/
theorem set_vring_addr_vdpa_meets_uapi (q qmax qsize flags desc used avail hasLog log : Nat) (e : Env) :
    ∀ o, run (inp "vdpa" "set_vring_addr" [q, qmax, qsize, flags, desc, used, avail, hasLog, log] e) = some o →
      Spec.Uapi.problem (inp "vdpa" "set_vring_addr" [q, qmax, qsize, flags, desc, used, avail, hasLog, log] e) o = none := by
  intro o ho
  have hrun : run (inp "vdpa" "set_vring_addr" [q, qmax, qsize, flags, desc, used, avail, hasLog, log] e) =
      setVringAddr (inp "vdpa" "set_vring_addr" [q, qmax, qsize, flags, desc, used, avail, hasLog, log] e) false := rfl
  have hexp : Spec.Uapi.expect (inp "vdpa" "set_vring_addr" [q, qmax, qsize, flags, desc, used, avail, hasLog, log] e) =
      Spec.Uapi.ringExpect (inp "vdpa" "set_vring_addr" [q, qmax, qsize, flags, desc, used, avail, hasLog, log] e) false := rfl
  rw [hrun, setVringAddr_vdpa] at ho
  rw [ringExpect_closed] at hexp
  simp only [Bool.false_eq_true, if_false] at hexp
  by_cases hr : Spec.Uapi.ringRefusedb (qmax % 2 ^ 16) (qsize % 2 ^ 16) (flags % 2 ^ 32) (hasLog != 0) = true
  · have hR := (ringRefusedb_iff _ _ _ _ (Nat.mod_lt _ (by decide))).1 hr
    obtain ⟨_, h2⟩ := refused_invalid qmax qsize flags desc used avail hasLog log hR e.mem
    rw [if_pos h2] at ho
    cases ho
    exact problem_refuse _ _ _ (by rw [hexp, if_pos hr]) rfl rfl
  · rw [if_neg hr] at hexp
    by_cases hv : isValidVdpa (cfgOf qmax qsize flags desc used avail hasLog log) = false
    · rw [if_pos hv] at ho
      cases ho
      exact problem_mayRefuse _ _ _ _ _ _ hexp rfl rfl
    · rw [if_neg hv] at ho
      cases ho
      refine problem_ioctl _ _ _ _ _ _ ⟨"VHOST_SET_VRING_ADDR", 1, 0x11, "struct vhost_vring_addr"⟩ 0x4028af11 40 _
        hexp (by decide +kernel) (by decide +kernel) (by decide +kernel) rfl ?_ (retProblem_unit _ _ _) (Or.inl rfl)
      apply argProblem_image
      · simp [ringLeaves]
      · simp [ringLeaves, LeafDisjoint]
      · exact ring_fields_ok q _ desc used avail _ log
          (fun hf => getLogAddr_of_flag qmax qsize flags desc used avail hasLog log hr hf)

end Props.C19
