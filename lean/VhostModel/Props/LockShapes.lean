import VhostModel.Base.LockSig
import VhostModel.Gen.LockShapes
import VhostModel.Model.Locks
import VhostModel.Model.LockTable
/-!
# The lock shape assumed by `Model.Locks` (C10) is the lock shape of the source

`Gen.LockShapes.rows` is regenerated on every run by `tools/rs2lean_locks.py` from `frontend.rs`, `backend_req.rs` and
`gpu_backend_req.rs`: for every method of `Frontend`, the `Backend` proxy and `GpuBackend` the ordered list of
lock / socket events of its body (`Base.LockSig.Event`; helpers of the `…Internal` structs followed into their own
bodies).  The theorems below are about that table, so a source change that alters the lock discipline of a method
breaks a proof obligation here (or makes the translator refuse).

* `one_guard_per_method` (a) — every method acquires exactly one guard, and no socket operation precedes it;
* `io_under_guard` (b)       — no `release` between the acquisition and the last socket operation, and the last event
                                of every method is the release of that guard;
* `no_io_outside_guard` (c)  — every socket operation and state write is applied to the guard's binder;
* `kinds_match_model` (d)    — kind (reply / ack / fire / not a call), "can be rejected by a local check", "lock taken
                                after local checks", send helper and reply reader of every method are those of the
                                hand-written table `Model.LockTable.modelKinds` (the comment table of `Model/Locks.lean`);
  `io_method_count` — 34 + 5 + 12 = 51 methods perform socket I/O, as the comment says;
  `rows_distinct`, `constructors_known` — bookkeeping: no (endpoint, method, branch) occurs twice; the associated
  functions without `self` (constructors, which cannot reach an existing lock) are the known ones;
* bridge to the transition system (e):
  - `caller_program` — proved from the definitions of `Model.Locks` for every configuration (of the code's rule
    `relock = false`, with a peer that does not close the socket; refused replies allowed), schedule and caller: the
    labels of a caller that has finished are exactly `progOf kind ackMode`
    (`acquire · send · recv · release`, without `recv` when the call does not read, without `send` when rejected);
  - `rows_run_model_program` — for every row and both acknowledgement modes, the lock / socket steps of the source
    method are `progOf (kindOf row) ackMode`;
  - `rejections_run_model_program` — when a local check of a method fails, the method has either not touched the lock
    at all (check in front of the acquisition) or done `acquire` and then releases: `progOf .rejected`;
  - `methods_are_model_callers` — the two combined: a finished caller of the transition system whose kind is the kind
    of a source method has performed exactly the steps of that method.

What this does *not* say: that a helper's socket operation is a single atomic `sendmsg`/`recvmsg` (C02/C03), nor
which replies the peer owes (C04/C06); and conditions (a)–(c) alone do not imply the program shape (two sends under
one guard satisfy them) — that is what `rows_run_model_program` adds.
-/
namespace Props.LockShapes
open Base.LockSig Model.Locks Model.LockTable

abbrev rows : List Row := Gen.LockShapes.rows

/-! ## (a) (b) (c): one guard, held over all socket I/O, nothing outside it -/

theorem one_guard_per_method : ∀ r ∈ rows, OneGuard r.events := by decide

theorem io_under_guard : ∀ r ∈ rows, IoUnderGuard r.events ∧ EndsReleased r.events := by decide

theorem no_io_outside_guard : ∀ r ∈ rows, OnGuardOnly r.events := by decide

/-- the conditions are not vacuous: they reject the guard dropped between send and receive … -/
example : ¬ IoUnderGuard [.acquire "node", .send "node" "send_request_header", .release "node",
    .acquire "node", .recv "node" "recv_reply" false, .release "node"] := by decide
example : ¬ OneGuard [.acquire "node", .send "node" "send_request_header", .release "node",
    .acquire "node", .recv "node" "recv_reply" false, .release "node"] := by decide
/-- … two temporaries … -/
example : ¬ OnGuardOnly [.acquire "<temp1>", .send "<temp1>" "send_message", .release "<temp1>",
    .acquire "<temp2>", .recv "<temp2>" "recv_reply" false, .release "<temp2>"] := by decide
/-- … and I/O in front of the lock. -/
example : ¬ OneGuard [.send "x" "send_message", .acquire "node", .release "node"] := by decide

/-! ## (d) the table of `Model/Locks.lean` -/

def hasIO (es : List Event) : Bool := es.any Event.isIO

def Event.isFixedRecv : Event → Bool
  | .recv _ _ false => true
  | _ => false

/-- the kind of a method in the terms of the transition system; a method without socket I/O takes the lock and
gives it back, which is what a `rejected` caller does -/
def kindOf (es : List Event) : Kind :=
  if es.any Event.isFixedRecv then .reply
  else if es.any Event.isRecv then .ack
  else if es.any Event.isSend then .fire
  else .rejected

def sendHelper : List Event → Option String
  | [] => none
  | .send _ h :: _ => some h
  | _ :: es => sendHelper es

def replyReader : List Event → Option String
  | [] => none
  | .recv _ h _ :: _ => some h
  | _ :: es => replyReader es

def entryOf (r : Row) : Entry where
  ep := r.ep
  method := r.method
  branch := r.branch
  kind := if hasIO r.events then some (kindOf r.events) else none
  rejectable := (r.events.takeWhile fun e => !e.isIO).any Event.isLocalCheck
  lateGuard := (r.events.takeWhile fun e => !e.isAcquire).any Event.isLocalCheck
  send := sendHelper r.events
  reader := replyReader r.events

theorem kinds_match_model : rows.map entryOf = modelKinds := by decide

/-- number of methods with socket I/O, per endpoint and in total -/
def ioMethods (ep : Endpoint) : Nat :=
  (rows.filter fun r => r.ep == ep && r.branch == 0 && hasIO r.events).length

theorem io_method_count :
    (∀ ep, ioMethods ep = claimedIOMethods ep) ∧ ioMethods .frontend + ioMethods .backend + ioMethods .gpu = 51 := by
  refine ⟨fun ep => ?_, by decide⟩
  cases ep <;> decide

theorem rows_distinct : (rows.map fun r => (r.ep, r.method, r.branch)).Nodup := by decide

theorem constructors_known : Gen.LockShapes.constructors =
    [(.frontend, "new"), (.frontend, "from_stream"), (.frontend, "connect"),
     (.backend, "new"), (.backend, "from_stream"), (.gpu, "new"), (.gpu, "from_stream")] := by decide

/-! ## (e) bridge to the transition system of `Model.Locks` -/

/-- the lock / socket steps of caller `i` among the labels of a schedule -/
def proj (i : Nat) : Lbl → Option Step
  | .acquire j => if j = i then some .acquire else none
  | .send j => if j = i then some .send else none
  | .recv j => if j = i then some .recv else none
  | .release j => if j = i then some .release else none
  | .peer => none

/-- the per-call program of `Model.Locks`: acquire, send (unless rejected), receive (if the call reads), release -/
def progOf : Kind → Bool → List Step
  | .reply, _ => [.acquire, .send, .recv, .release]
  | .ack, true => [.acquire, .send, .recv, .release]
  | .ack, false => [.acquire, .send, .release]
  | .fire, _ => [.acquire, .send, .release]
  | .rejected, _ => [.acquire, .release]

/-- what is left of a call at program counter `pc` -/
def restOf (sends reads : Bool) : PC → List Step
  | .done => []
  | .got => [.release]
  | .sent => if reads then [.recv, .release] else [.release]
  | .locked => if sends then .send :: (if reads then [.recv, .release] else [.release]) else [.release]
  | .idle => .acquire :: (if sends then .send :: (if reads then [.recv, .release] else [.release]) else [.release])
  | .relock => [.acquire, .release]      -- only under the mutation `Cfg.relock` (Props.C10.relock_on_error_deadlocks)

theorem restOf_idle (c : Cfg) (i : Nat) : restOf (c.sends i) (c.reads i) .idle = progOf (c.kind i) c.ackMode := by
  unfold Cfg.sends Cfg.reads
  cases c.kind i <;> cases c.ackMode <;> rfl

private theorem upd_same' {α : Type} (f : Nat → α) (i : Nat) (v : α) : upd f i v i = v := by simp [upd]
private theorem upd_other' {α : Type} (f : Nat → α) {i j : Nat} (v : α) (h : j ≠ i) : upd f i v j = f j := by
  simp [upd, h]

/-- a socket that no configured fault closes stays open -/
theorem step_closed (c : Cfg) (hno : ∀ k, c.closes k = false) (s s1 : St) (l : Lbl) (h : step c s l = some s1)
    (hcl : s.closed = false) : s1.closed = false := by
  cases l with
  | acquire j =>
    simp only [step] at h
    split at h
    · cases h; exact hcl
    · split at h
      · cases h; exact hcl
      · cases h
  | send j => simp only [step] at h; split at h <;> cases h; exact hcl
  | peer =>
    simp only [step] at h
    split at h
    · cases h
    · cases h; simp [hcl, hno]
  | recv j =>
    simp only [step] at h
    split at h
    · split at h <;> cases h; exact hcl
    · cases h
  | release j => simp only [step] at h; split at h <;> cases h; exact hcl

/-- one step of the transition system consumes exactly the head of what is left of caller `i`'s program if the
label is one of caller `i`, and leaves it alone otherwise (the code's rule `relock = false`, socket open) -/
theorem step_restOf (c : Cfg) (hrl : c.relock = false) (i : Nat) (s s1 : St) (hcl : s.closed = false) (l : Lbl)
    (h : step c s l = some s1) :
    (proj i l).toList ++ restOf (c.sends i) (c.reads i) (s1.pc i) = restOf (c.sends i) (c.reads i) (s.pc i) := by
  cases l with
  | acquire j =>
    simp only [step] at h
    split at h
    · rename_i hc
      cases h
      by_cases e : j = i
      · subst e; simp [proj, upd_same', hc.2.1, restOf]
      · have e' : i ≠ j := fun x => e x.symm
        simp [proj, e, upd_other' _ _ e']
    · split at h
      · rename_i _ hc
        cases h
        by_cases e : j = i
        · subst e; simp [proj, upd_same', hc.1, restOf]
        · have e' : i ≠ j := fun x => e x.symm
          simp [proj, e, upd_other' _ _ e']
      · cases h
  | send j =>
    simp only [step] at h
    split at h
    · rename_i hc
      cases h
      by_cases e : j = i
      · subst e; simp [proj, upd_same', hc.1, hc.2.1, restOf]
      · have e' : i ≠ j := fun x => e x.symm
        simp [proj, e, upd_other' _ _ e']
    · cases h
  | peer =>
    simp only [step] at h
    split at h
    · cases h
    · cases h; simp [proj]
  | recv j =>
    simp only [step] at h
    split at h
    · rename_i hc
      split at h
      · cases h
      · cases h
        by_cases e : j = i
        · subst e; simp [proj, upd_same', hc.1, hc.2, hrl, restOf]
        · have e' : i ≠ j := fun x => e x.symm
          simp [proj, e, upd_other' _ _ e']
    · cases h
  | release j =>
    simp only [step] at h
    split at h
    · rename_i hc
      cases h
      by_cases e : j = i
      · subst e
        rcases hc.2 with hp | ⟨hp, hr⟩ | ⟨hp, hs⟩
        · simp [proj, upd_same', hp, restOf]
        · simp [proj, upd_same', hp, hr, restOf]
        · rcases hs with hs | hs
          · simp [proj, upd_same', hp, hs, restOf]
          · rw [hcl] at hs; cases hs
      · have e' : i ≠ j := fun x => e x.symm
        simp [proj, e, upd_other' _ _ e']
    · cases h

theorem run_restOf (c : Cfg) (hrl : c.relock = false) (hno : ∀ k, c.closes k = false) (i : Nat) (ls : List Lbl) :
    ∀ (s s' : St), s.closed = false → run c s ls = some s' → s'.pc i = .done →
    ls.filterMap (proj i) = restOf (c.sends i) (c.reads i) (s.pc i) := by
  induction ls with
  | nil =>
    intro s s' _ hr hd
    simp only [run, Option.some.injEq] at hr
    subst hr
    simp [hd, restOf]
  | cons l ls ih =>
    intro s s' hcl hr hd
    simp only [run] at hr
    split at hr
    · cases hr
    · rename_i s1 hs1
      have h1 := ih s1 s' (step_closed c hno s s1 l hs1 hcl) hr hd
      have h2 := step_restOf c hrl i s s1 hcl l hs1
      rw [← h2, ← h1]
      cases hp : proj i l <;> simp [hp]

/-- **The per-call program of the transition system.**  In every configuration of the code's rule whose peer does not
close the socket (reply faults `bad` allowed: a refused reply is consumed and the guard dropped like a good one) and
every schedule, the lock / socket labels of a caller that has finished are `acquire · [send · [recv]] · release` as
given by its kind.  (After a `close` fault a caller that finds the socket dead runs `progOf .rejected` instead —
`Props.C10.others_unaffected_by_faulty_reply`; the mutated rule `relock` never finishes —
`Props.C10.relock_on_error_deadlocks`.) -/
theorem caller_program (c : Cfg) (hrl : c.relock = false) (hno : ∀ k, c.closes k = false) (ls : List Lbl) (s : St)
    (i : Nat) (hr : run c init ls = some s) (hd : s.pc i = .done) :
    ls.filterMap (proj i) = progOf (c.kind i) c.ackMode := by
  rw [← restOf_idle]
  exact run_restOf c hrl hno i ls init s rfl hr hd

/-- **Every source method is that program.**  The lock / socket steps of every row — with the conditional read of
`wait_for_ack` resolved by the acknowledgement mode — are the program of the model for the row's kind. -/
theorem rows_run_model_program : ∀ a : Bool, ∀ r ∈ rows, inst a (rsteps r.events) = progOf (kindOf r.events) a := by
  intro a; cases a <;> decide

/-- the events in front of each `localCheck` that precedes the first socket operation: what the method has done at
the moment that check fails -/
def rejectPrefixes (acc : List Event) : List Event → List (List Event)
  | [] => []
  | e :: es =>
    if e.isIO then []
    else (if e.isLocalCheck then [acc] else []) ++ rejectPrefixes (acc ++ [e]) es

/-- **Rejected calls.**  When a local check fails the method has not touched the lock yet, or it has acquired the
guard and done nothing else on the socket: with the release on return that is the model's `rejected` program. -/
theorem rejections_run_model_program : ∀ a : Bool, ∀ r ∈ rows, ∀ p ∈ rejectPrefixes [] r.events,
    rsteps p = [] ∨ inst a (rsteps p) ++ [.release] = progOf .rejected a := by
  intro a; cases a <;> decide

/-- both cases occur -/
example : ∃ r ∈ rows, ∃ p ∈ rejectPrefixes [] r.events, rsteps p = [] := by decide
example : ∃ r ∈ rows, ∃ p ∈ rejectPrefixes [] r.events, rsteps p = [.acquire] := by decide

/-- **Source methods are the callers of the model.**  A finished caller of the transition system whose kind is the
kind of a source method has performed exactly the lock / socket steps of that method, in that order. -/
theorem methods_are_model_callers (c : Cfg) (hrl : c.relock = false) (hno : ∀ k, c.closes k = false)
    (ls : List Lbl) (s : St) (i : Nat) (hr : run c init ls = some s)
    (hd : s.pc i = .done) (r : Row) (hrow : r ∈ rows) (hk : kindOf r.events = c.kind i) :
    ls.filterMap (proj i) = inst c.ackMode (rsteps r.events) := by
  rw [caller_program c hrl hno ls s i hr hd, rows_run_model_program c.ackMode r hrow, hk]

/-- non-vacuity of `caller_program`: a schedule of three callers (reply, ack with REPLY_ACK on, fire) -/
example :
    let c : Cfg := { n := 3, kind := fun i => match i with | 0 => .reply | 1 => .ack | _ => .fire, ackMode := true }
    let ls : List Lbl := [.acquire 1, .send 1, .peer, .recv 1, .release 1, .acquire 2, .send 2, .release 2,
                          .acquire 0, .send 0, .peer, .peer, .recv 0, .release 0]
    (run c init ls).isSome = true ∧ ls.filterMap (proj 2) = progOf .fire true ∧
      ls.filterMap (proj 1) = progOf .ack true := by decide

/-- every kind of the model is the kind of some source method -/
example : ∀ k : Kind, ∃ r ∈ rows, kindOf r.events = k := by intro k; cases k <;> decide

end Props.LockShapes
