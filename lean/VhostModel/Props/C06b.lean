import VhostModel.Lemmas.BackendChannel
import VhostModel.Props.C20
import VhostModel.Spec.BackendChannel
import VhostModel.Spec.Gpu
/-!
# C06 (second part) — the backend→frontend proxy and the GPU proxy accept only the matching reply

Companion of `Props.C06` (frontend endpoint).  Over `Model.BackendProxy.waitAck` (`backend_req.rs`, `wait_for_ack`) and
`Model.GpuProxy.recvReply` (`gpu_backend_req.rs`, `recv_reply`), tied to the code by the `proxy` (peer mode, mutated
acknowledgements) and `gpu` correspondence families; for every stream, chooser (segmentation / timing) and request:
* `recvBody_accepts_received_bytes` — `recv_body::<T>` hands out exactly the `12 + size_of::<T>()` bytes it received;
* `proxy_ack_ok_is_reply_for`, `gpu_reply_ok_is_reply_for` — whenever a reader accepts bytes as the answer, they carry a
  header the *specification* calls valid for that channel, the REPLY flag, the request's own code (the request itself
  not being a reply), a body of the reply type's size, and no descriptors (no reply on these channels defines one);
* `proxy_mutated_ack_rejected`, `gpu_mutated_reply_rejected` — hence any reply with another code / without REPLY /
  with descriptors is refused with an error;
* `gpu_never_fabricates` — the value returned by a GPU call is the decoded body of the accepted bytes.
The frontend's request server (`fe_server_handler_only_wellformed`, `step_never_panics`) is in `Props.C18`.
Recorded limit (DESIGN.md): the fixed-size readers do not compare the header's size field with the bytes read.
-/
namespace Props.C06b
open Base Model.Stream Model.Msgs Model.RecvBody Lemmas.Stream Lemmas.BackendChannel
open Model.BackendSrv (Err Hdr encHdr)
open Model.Frontend (Reply RecvRes RecvOut parseHdr)

/-! ### the generated header validators say what the specification says -/

/-- backend-channel header validator ⇔ Spec: code in 1..10, size ≤ 4096, version 1, no reserved bits -/
theorem hdrValidB_spec (bs : Bytes) (hl : bs.length = 12) :
    hdrValidB bs = true ↔ Spec.validHeader Spec.backendCodes (parseHdr bs).code (parseHdr bs).flags (parseHdr bs).size := by
  unfold hdrValidB
  rw [decHeader_of_length bs hl]
  simp only [Option.map_some]
  obtain ⟨h1, h2, h3⟩ := parseHdr_lt bs
  have := Props.C20.isValid_backend_header_iff ⟨bv 32 (parseHdr bs).code, bv 32 (parseHdr bs).flags, bv 32 (parseHdr bs).size⟩
  simp only [bv, BitVec.toNat_ofNat, Nat.mod_eq_of_lt h1, Nat.mod_eq_of_lt h2, Nat.mod_eq_of_lt h3] at this
  rw [← this]
  simp only [bv]
  generalize Gen.VhostUserMsgHeader.isValid _ _ = b
  cases b <;> simp

/-- GPU header validator ⇔ Spec: code in 1..12, flags ∈ {0, REPLY} -/
theorem hdrValidGpu_spec (bs : Bytes) (hl : bs.length = 12) :
    hdrValidGpu bs = true ↔ Spec.validGpuHeader (parseHdr bs).code (parseHdr bs).flags := by
  unfold hdrValidGpu
  rw [decGpuHeader_of_length bs hl]
  simp only [Option.map_some]
  obtain ⟨h1, h2, _⟩ := parseHdr_lt bs
  have := Props.C20.isValid_gpu_header_iff ⟨bv 32 (parseHdr bs).code, bv 32 (parseHdr bs).flags, bv 32 (parseHdr bs).size⟩
  simp only [bv, BitVec.toNat_ofNat, Nat.mod_eq_of_lt h1, Nat.mod_eq_of_lt h2] at this
  rw [← this]
  simp only [bv]
  generalize Gen.VhostUserGpuMsgHeader.isValid _ _ = b
  cases b <;> simp

/-- `is_reply_for` spelled out: REPLY on the reply, not on the request, same (known) code -/
theorem isReplyFor_iff (codes : List Nat) (reply req : Hdr) :
    isReplyFor codes reply req = true ↔
      (reply.code ∈ codes ∧ req.code ∈ codes ∧ reply.flags.testBit 2 = true ∧ req.flags.testBit 2 = false ∧ reply.code = req.code) := by
  simp [isReplyFor, Hdr.isReply, Model.BackendSrv.bitSet, and_assoc]

/-- `recv_body` never fabricates: header and body handed out are the bytes the socket delivered -/
theorem recvBody_accepts_received_bytes {σ : Type} (ch : Chooser σ) (cl : Bool) (hdrOk : Bytes → Bool) (n : Nat)
    (bodyOk : Bytes → Bool) (cst : σ) (s : List Cell) (r : Reply) (h : (recvBody ch cl hdrOk n bodyOk cst s).res = .ok r) :
    ∃ hb, hb.length = 12 ∧ r.hdr = parseHdr hb ∧ r.body.length = n ∧ hb ++ r.body = (recvAll ch 32 cl (12 + n) cst s true).bytes := by
  obtain ⟨hb, a, b, _, d, _, _, g⟩ := recvBody_ok_sound ch cl hdrOk n bodyOk cst s r h
  exact ⟨hb, a, d, b, g⟩

/-! ### the backend→frontend proxy -/
section Proxy
open Model.BackendProxy

/-- **the proxy accepts only the matching acknowledgement** -/
theorem proxy_ack_ok_is_reply_for {σ : Type} (ch : Chooser σ) (cl : Bool) (st : PSt) (rh : Hdr) (cst : σ) (str : List Cell)
    (r : Reply) (hra : st.replyAck = true) (h : (waitAck ch cl st rh cst str).res = .ok r) :
    Spec.validHeader Spec.backendCodes r.hdr.code r.hdr.flags r.hdr.size ∧
    r.hdr.flags.testBit 2 = true ∧ rh.flags.testBit 2 = false ∧ r.hdr.code = rh.code ∧
    r.body.length = 8 ∧ r.files = none ∧ leVal r.body = 0 := by
  unfold waitAck at h
  cases he : st.error with
  | some e => simp [he] at h
  | none =>
    simp only [he, hra, Bool.not_true, Bool.false_eq_true, if_false] at h
    split at h
    · rename_i rr hrr
      split at h
      · simp at h
      · split at h
        · simp at h
        · rename_i hc hv
          rw [hrr] at h; simp only [RecvRes.ok.injEq] at h; subst h
          obtain ⟨hb, a, b, c, d, _, _, _⟩ := recvBody_ok_sound ch cl hdrValidB 8 u64Ok cst str rr hrr
          simp only [Bool.or_eq_true, Bool.not_eq_true', not_or, Bool.not_eq_false] at hc
          obtain ⟨⟨hc1, hc2⟩, _⟩ := hc
          obtain ⟨_, _, i3, i4, i5⟩ := (isReplyFor_iff _ _ _).1 (by simpa using hc1)
          refine ⟨?_, i3, i4, i5, b, ?_, ?_⟩
          · rw [d]; exact (hdrValidB_spec hb a).1 c
          · cases hf : rr.files <;> simp_all
          · simpa using hv
    · rename_i hn; exact absurd h (by intro hh; exact hn r hh)

/-- a mutated acknowledgement — other code, REPLY missing, or descriptors attached — never yields success -/
theorem proxy_mutated_ack_rejected {σ : Type} (ch : Chooser σ) (cl : Bool) (st : PSt) (rh : Hdr) (cst : σ) (str : List Cell)
    (hra : st.replyAck = true) (r0 : Reply)
    (hrecv : (recvBody ch cl hdrValidB 8 u64Ok cst str).res = .ok r0)
    (hmut : r0.hdr.code ≠ rh.code ∨ r0.hdr.flags.testBit 2 = false ∨ r0.files.isSome = true) :
    ∀ r, (waitAck ch cl st rh cst str).res ≠ .ok r := by
  intro r h
  have hh := h
  unfold waitAck at hh
  cases he : st.error with
  | some e => simp [he] at hh
  | none =>
    simp only [he, hra, Bool.not_true, Bool.false_eq_true, if_false, hrecv] at hh
    split at hh
    · simp at hh
    · split at hh
      · simp at hh
      · rename_i hc _
        rw [hrecv] at hh
        simp only [Bool.or_eq_true, Bool.not_eq_true', not_or, Bool.not_eq_false] at hc
        obtain ⟨⟨hc1, hc2⟩, _⟩ := hc
        obtain ⟨_, _, i3, _, i5⟩ := (isReplyFor_iff _ _ _).1 (by simpa using hc1)
        rcases hmut with hm | hm | hm
        · exact hm i5
        · rw [hm] at i3; exact absurd i3 (by simp)
        · rw [hm] at hc2; exact absurd hc2 (by simp)

end Proxy

/-! ### the GPU proxy -/
section Gpu
open Model.GpuProxy

/-- **the GPU proxy accepts only the matching reply** -/
theorem gpu_reply_ok_is_reply_for {σ : Type} (ch : Chooser σ) (cl : Bool) (st : GSt) (rh : Hdr) (ty : String) (cst : σ)
    (str : List Cell) (r : Reply) (h : (recvReply ch cl st rh ty cst str).res = .ok r) :
    Spec.validGpuHeader r.hdr.code r.hdr.flags ∧
    r.hdr.flags.testBit 2 = true ∧ rh.flags.testBit 2 = false ∧ r.hdr.code = rh.code ∧
    sizeOfTy ty = some r.body.length ∧ r.files = none := by
  unfold recvReply at h
  cases he : st.error with
  | some e => simp [he] at h
  | none =>
    simp only [he] at h
    cases hs : sizeOfTy ty with
    | none => simp [hs] at h
    | some n =>
      simp only [hs] at h
      split at h
      · rename_i rr hrr
        split at h
        · simp at h
        · rename_i hc
          rw [hrr] at h; simp only [RecvRes.ok.injEq] at h; subst h
          obtain ⟨hb, a, b, c, d, _, _, _⟩ := recvBody_ok_sound ch cl hdrValidGpu n (replyBodyOk ty) cst str rr hrr
          simp only [Bool.or_eq_true, Bool.not_eq_true', not_or, Bool.not_eq_false] at hc
          obtain ⟨⟨hc1, hc2⟩, _⟩ := hc
          obtain ⟨_, _, i3, i4, i5⟩ := (isReplyFor_iff _ _ _).1 (by simpa using hc1)
          refine ⟨?_, i3, i4, i5, by rw [b], ?_⟩
          · rw [d]; exact (hdrValidGpu_spec hb a).1 c
          · cases hf : rr.files <;> simp_all
      · rename_i hn; exact absurd h (by intro hh; exact hn r hh)

/-- on the GPU channel "valid header with REPLY" means the flags word is exactly 4: no other bit is ever accepted -/
theorem gpu_reply_flags_exact {σ : Type} (ch : Chooser σ) (cl : Bool) (st : GSt) (rh : Hdr) (ty : String) (cst : σ)
    (str : List Cell) (r : Reply) (h : (recvReply ch cl st rh ty cst str).res = .ok r) : r.hdr.flags = 4 := by
  obtain ⟨hv, hb, _⟩ := gpu_reply_ok_is_reply_for ch cl st rh ty cst str r h
  rcases hv.2 with h0 | h4
  · rw [h0] at hb; simp at hb
  · exact h4

/-- a mutated reply — other code, REPLY missing, descriptors attached — never yields success -/
theorem gpu_mutated_reply_rejected {σ : Type} (ch : Chooser σ) (cl : Bool) (st : GSt) (rh : Hdr) (ty : String) (cst : σ)
    (str : List Cell) (r : Reply) (h : (recvReply ch cl st rh ty cst str).res = .ok r) :
    r.hdr.code = rh.code ∧ r.hdr.flags.testBit 2 = true ∧ r.files = none := by
  obtain ⟨_, a, _, b, _, c⟩ := gpu_reply_ok_is_reply_for ch cl st rh ty cst str r h
  exact ⟨b, a, c⟩

/-- the value a GPU call returns is computed from the accepted reply body alone: the decoded `u64`, resp. the raw
struct bytes, resp. nothing for the empty acknowledgement -/
theorem gpu_never_fabricates {σ : Type} (ch : Chooser σ) (cl : Bool) (st : GSt) (req : Req) (cst : σ) (str : List Cell)
    (ty : String) (hty : req.m.reply.ty = some ty) (r : Reply) (h : (recvReply ch cl st req.hdr ty cst str).res = .ok r) :
    (callRecv ch cl st req cst str).ret =
      (match req.m.reply with
       | .u64 => Ret.val (leVal r.body)
       | .empty => .unit
       | _ => .bytes r.body) := by
  unfold callRecv
  simp only [hty, h]
  cases req.m.reply <;> rfl

/-- methods that read no reply return without touching the incoming stream -/
theorem gpu_no_reply_reads_nothing {σ : Type} (ch : Chooser σ) (cl : Bool) (st : GSt) (req : Req) (cst : σ) (str : List Cell)
    (hty : req.m.reply.ty = none) :
    (callRecv ch cl st req cst str).ret = .unit ∧ (callRecv ch cl st req cst str).rest = str := by
  simp [callRecv, hty]

end Gpu

/-! ### non-vacuity -/
example : isReplyFor backendCodes ⟨6, 5, 8⟩ ⟨6, 9, 16⟩ = true := by decide
example : isReplyFor backendCodes ⟨7, 5, 8⟩ ⟨6, 9, 16⟩ = false := by decide
example : isReplyFor backendCodes ⟨6, 1, 8⟩ ⟨6, 9, 16⟩ = false := by decide
example : isReplyFor gpuCodes ⟨1, 4, 8⟩ ⟨1, 0, 0⟩ = true := by decide
example : hdrValidGpu (encHdr 1 5 8) = false := by decide
example : hdrValidGpu (encHdr 1 4 8) = true := by decide
/-- a correct acknowledgement with value 0 is accepted (so the hypotheses of `proxy_ack_ok_is_reply_for` are satisfiable) -/
example : ∃ r, (Model.BackendProxy.waitAck (kernelChooser false) false { replyAck := true } ⟨6, 9, 16⟩ ()
    (segCells (encHdr 6 5 8 ++ leBytes 8 0) [])).res = .ok r := by
  obtain ⟨h, _, _⟩ := recvBody_of_prefix (kernelChooser false) false hdrValidB 8 u64Ok () (encHdr 6 5 8 ++ leBytes 8 0) []
    (by simp [encHdr]) (by decide) (by decide)
  simp only [List.append_nil] at h
  refine ⟨⟨parseHdr (List.take 12 (encHdr 6 5 8 ++ leBytes 8 0)), List.drop 12 (encHdr 6 5 8 ++ leBytes 8 0), [], none⟩, ?_⟩
  unfold Model.BackendProxy.waitAck
  simp only [h]
  rw [if_neg (by decide), if_neg (by decide)]
  exact h

end Props.C06b
