import VhostModel.Props.C06b
/-!
# C18 — backend-initiated requests reach the frontend handler faithfully, with status

Models: `Model.BackendProxy` (`backend_req.rs`: gate → `send_message` → `wait_for_ack`) and `Model.FrontendSrv`
(`frontend_req_handler.rs`: `handle_request`), tied to the code by the correspondence families `proxy` (real `Backend`
against the real `FrontendReqHandler` / the raw peer) and `besrv` (raw peer feeding the real `FrontendReqHandler`).
Spec: `Spec.BackendChannel`.  Every clause is also judged by the spec driver on every observed session (the identity of
the passed *open file* — fstat — can only be observed there); proved here, for all inputs:

* `proxy_reaches_handler` — a protocol-valid request issued through the proxy (any kind, any argument values, any padding
  bytes) is read by one `handle_request` — whatever is queued behind it, however the socket segments it — and the
  application's handler is invoked exactly once with equal arguments (`argOf_encodeArg`: decode ∘ encode = id) and the
  same descriptor token; `proxy_call_end_to_end` — composed with the proxy's reader: with REPLY_ACK the call succeeds iff
  the handler returned zero and never blocks, without REPLY_ACK nothing is written or awaited;

* `ack_value`, `ack_value_meets_spec` — the value `send_ack_message` writes as a function of the handler outcome:
  `Ok(n) ↦ n`, errno `e ↦ 2^64 − e`, otherwise `2^64 − 22`; it is the value the Spec prescribes;
* `proxy_ok_iff_zero` — with REPLY_ACK, `wait_for_ack` returns `Ok` iff the accepted acknowledgement carries 0, and then
  returns 0 — for every stream and chooser; `proxy_ok_iff_handler_zero` — composed with the acknowledgement the server
  writes for handler outcome `h` (whatever follows on the stream, however it is segmented): the call succeeds iff `h = Ok(0)`;
* `no_ack_without_replyack` — without REPLY_ACK the proxy reads nothing and sets no NEED_REPLY, the server writes nothing;
* `proxy_gate` — shared-object / shared-memory calls are refused locally, nothing written, unless the flag is set
  (this is also the proxy clause of C07);
* `kth_ack_answers_kth` — over every history of framed requests and REPLY_ACK changes: the acknowledgements written are,
  in order, exactly those of the requests that reached `send_ack_message` with NEED_REPLY while REPLY_ACK was in force, each
  carrying its own request's code, flags 5 (REPLY set, NEED_REPLY clear, version 1), size 8 (`ack_shape`);
* `fe_server_handler_only_wellformed` — for every stream, chooser and handler script, every handler invocation of
  `handle_request` comes from a request the Spec classifies as well-formed (`Spec.BackendChannel.classify = accept`: valid
  header, exact size, valid body, exactly the prescribed descriptors, not a reply), with the arguments the Spec decodes
  and the received files; `step_never_panics` — `files.unwrap()[0]` is total (C06, last sentence);
* `accepted_request_meets_spec` — conversely a well-formed request is handed to the handler once and acknowledged as
  the Spec prescribes.
Recorded, outside the statement (C18 speaks about valid requests): a request the protocol declares invalid (nil / all-ones
UUID, zero length, wrapping range, undefined flag, wrong size) returns from `handle_request` *before* `send_ack_message`, so
a proxy that sent it with NEED_REPLY is answered only by the frontend closing the channel; request codes without an arm
(1, 3, 4, 5) are acknowledged with −EINVAL.  The proxy itself does not validate its arguments.
Limits: a handler error carrying errno 0 (or a negative number) is outside "every errno class": `-0 as u64` is 0.
The server's own send failing (peer gone while the acknowledgement is written) is not exhibited by the model.
-/
namespace Props.C18
open Base Model.Stream Model.Msgs Model.RecvBody Lemmas.Stream Lemmas.BackendChannel Props.C06b
open Model.BackendSrv (Err Hdr encHdr hdrNewFlags Call)
open Model.Frontend (Reply RecvRes RecvOut parseHdr)
open Model.FrontendSrv
open Spec.BackendChannel (classify expectedCall HRes Arg MMap encodeArg argOf validArg)

/-! ## the acknowledgement value -/

/-- `send_ack_message`: the value written, as a function of the handler outcome -/
theorem ack_value (n e : Nat) :
    ackVal (.handler (.okv n)) = n ∧ ackVal (.handler (.errno e)) = 2^64 - e ∧ ackVal (.handler .err) = 2^64 - 22 ∧
    ackVal .invalid = 2^64 - 22 := ⟨rfl, rfl, rfl, rfl⟩

/-- scripted handler outcome ↦ the Spec's handler result -/
def specOf : HOut → HRes
  | .okv n => .ok n
  | .errno e => .errno e
  | .err => .err

/-- values a real handler can produce: a `u64`, resp. a positive `i32` errno -/
def InRange : HOut → Prop
  | .okv n => n < 2^64
  | .errno e => 0 < e ∧ e < 2^31
  | .err => True

theorem ackVal_lt (h : HOut) (hr : InRange h) : ackVal (.handler h) < 2^64 := by
  cases h with
  | okv n => exact hr
  | errno e => simp only [ackVal]; have := hr.1; omega
  | err => simp [ackVal]

/-- the 8 bytes on the wire decode to the value the Spec prescribes: the handler's value, resp. the negated errno -/
theorem ack_value_meets_spec (h : HOut) (hr : InRange h) :
    Spec.BackendChannel.ackValueOk (specOf h) (leVal (leBytes 8 (ackVal (.handler h)))) = true := by
  rw [leVal_leBytes 8 _ (by have := ackVal_lt h hr; simpa using this)]
  cases h with
  | okv n => simp [specOf, ackVal, Spec.BackendChannel.ackValueOk]
  | errno e => simp [specOf, ackVal, Spec.BackendChannel.ackValueOk]
  | err => simp [specOf, ackVal, Spec.BackendChannel.ackValueOk]

/-- the handler's result is zero iff the acknowledged value is zero -/
theorem ackVal_zero_iff (h : HOut) (hr : InRange h) : ackVal (.handler h) = 0 ↔ h = .okv 0 := by
  cases h with
  | okv n => simp [ackVal]
  | errno e =>
    simp only [ackVal]
    have := hr.2
    constructor
    · intro hh; omega
    · intro hh; cases hh
  | err => simp [ackVal]

/-- shape of every acknowledgement: 20 bytes; the request's code; flags = 5, i.e. REPLY set, NEED_REPLY clear, version 1;
size 8; then the value -/
theorem ack_shape (code v : Nat) (hc : code < 2^32) (hv : v < 2^64) :
    (ackBytes code v).length = 20 ∧ parseHdr ((ackBytes code v).take 12) = ⟨code, 5, 8⟩ ∧
    leVal ((ackBytes code v).drop 12) = v := by
  have e : hdrNewFlags 4 = 5 := by decide
  unfold ackBytes
  rw [e]
  refine ⟨by simp [encHdr], ?_, ?_⟩
  · rw [List.take_append_of_le_length (by simp [encHdr]), List.take_of_length_le (by simp [encHdr])]
    exact parseHdr_encHdr code 5 8 hc (by decide) (by decide)
  · rw [List.drop_append_of_le_length (by simp [encHdr]), List.drop_of_length_le (by simp [encHdr])]
    simpa using leVal_leBytes 8 v (by simpa using hv)

/-- … and the Spec accepts it as the acknowledgement of that request for that handler result -/
theorem ack_bytes_meet_spec (code : Nat) (h : HOut) (hc : code < 2^32) (hr : InRange h) :
    Spec.BackendChannel.ackBytesOk code (specOf h) (ackBytes code (ackVal (.handler h))) = true := by
  obtain ⟨a, b, c⟩ := ack_shape code (ackVal (.handler h)) hc (ackVal_lt h hr)
  have hb : parseHdr ((ackBytes code (ackVal (.handler h))).take 12) = ⟨code, 5, 8⟩ := b
  have hv := ack_value_meets_spec h hr
  rw [leVal_leBytes 8 _ (by have := ackVal_lt h hr; simpa using this)] at hv
  simp only [parseHdr, Hdr.mk.injEq] at hb
  obtain ⟨b1, b2, b3⟩ := hb
  have t4 : (ackBytes code (ackVal (.handler h))).take 4 = ((ackBytes code (ackVal (.handler h))).take 12).take 4 := by
    rw [List.take_take]; rfl
  have d4 : ((ackBytes code (ackVal (.handler h))).drop 4).take 4 = (((ackBytes code (ackVal (.handler h))).take 12).drop 4).take 4 := by
    rw [List.drop_take, List.take_take]; rfl
  have d8 : ((ackBytes code (ackVal (.handler h))).drop 8).take 4 = (((ackBytes code (ackVal (.handler h))).take 12).drop 8).take 4 := by
    rw [List.drop_take, List.take_take]; rfl
  simp only [Spec.BackendChannel.ackBytesOk, a, t4, d4, d8, b1, b2, b3, c, hv]
  simp

/-! ## the proxy -/
section Proxy
open Model.BackendProxy

/-- **with REPLY_ACK the proxy call succeeds iff the accepted acknowledgement carries zero** — every stream, every chooser -/
theorem proxy_ok_iff_zero {σ : Type} (ch : Chooser σ) (cl : Bool) (st : PSt) (rh : Hdr) (cst : σ) (str : List Cell)
    (hra : st.replyAck = true) (herr : st.error = none) :
    (∃ r, (waitAck ch cl st rh cst str).res = .ok r) ↔
    (∃ r, (recvBody ch cl hdrValidB 8 u64Ok cst str).res = .ok r ∧ isReplyFor backendCodes r.hdr rh = true ∧
          r.files = none ∧ leVal r.body = 0) := by
  unfold waitAck
  simp only [herr, hra, Bool.not_true, Bool.false_eq_true, if_false]
  constructor
  · rintro ⟨r, h⟩
    split at h
    · rename_i rr hrr
      split at h
      · simp at h
      · split at h
        · simp at h
        · rename_i hc hv
          simp only [Bool.or_eq_true, Bool.not_eq_true', not_or, Bool.not_eq_false] at hc
          refine ⟨rr, hrr, by simpa using hc.1.1, ?_, by simpa using hv⟩
          cases hf : rr.files <;> simp_all
    · rename_i hn; exact absurd h (by intro hh; exact hn r hh)
  · rintro ⟨r, h1, h2, h3, h4⟩
    obtain ⟨hb, _, hl, _, _, hbo, _, _⟩ := recvBody_ok_sound ch cl hdrValidB 8 u64Ok cst str r h1
    refine ⟨r, ?_⟩
    simp only [h1, h2, h3, h4, hbo]
    simp [h1]

/-- … and the value it returns is that zero (`Ok(body.value)`) -/
theorem proxy_ok_returns_zero {σ : Type} (ch : Chooser σ) (cl : Bool) (st : PSt) (req : Req) (cst : σ) (str : List Cell) (v : Nat)
    (h : (callRecv ch cl st req cst str).ret = .ok v) : v = 0 := by
  unfold callRecv at h
  simp only at h
  split at h
  · simp at h
  · simp at h
  · rename_i r hr
    simp only [Ret.ok.injEq] at h
    subst h
    unfold waitAck at hr
    cases he : st.error with
    | some e => simp [he] at hr
    | none =>
      simp only [he] at hr
      cases hra : st.replyAck with
      | false =>
        simp only [hra, Bool.not_false, if_true, RecvRes.ok.injEq] at hr
        rw [← hr]; exact leVal_leBytes 8 0 (by decide)
      | true => exact (proxy_ack_ok_is_reply_for ch cl st req.hdr cst str r hra (by unfold waitAck; simp only [he]; exact hr)).2.2.2.2.2.2

/-- header of every request the proxy writes: version 1, no REPLY, NEED_REPLY iff REPLY_ACK was negotiated -/
theorem proxy_request_flags (st : PSt) : reqFlags st = (if st.replyAck then 9 else 1) := by
  cases h : st.replyAck <;> simp [reqFlags, h] <;> decide

/-- **composition with the server's acknowledgement**: if what arrives is the acknowledgement the frontend's server writes
for handler outcome `h` — followed by anything, delivered in any segmentation — the proxy call succeeds iff the handler
returned zero, consumes exactly the acknowledgement, and never blocks -/
theorem proxy_ok_iff_handler_zero {σ : Type} (ch : Chooser σ) (cl : Bool) (st : PSt) (k : Kind) (n : Nat) (h : HOut)
    (cst : σ) (rest : List Cell) (hra : st.replyAck = true) (herr : st.error = none) (hr : InRange h) :
    let rh : Hdr := ⟨k.code, reqFlags st, n⟩
    let o := waitAck ch cl st rh cst (segCells (ackBytes k.code (ackVal (.handler h))) [] ++ rest)
    ((∃ r, o.res = .ok r) ↔ h = .okv 0) ∧ o.res ≠ .blocked ∧ o.rest = rest := by
  intro rh o
  have hk : k.code ∈ [1, 2, 3, 4, 5, 6, 7, 8, 9, 10] := by cases k <;> simp [Kind.code]
  have hk32 : k.code < 2^32 := by cases k <;> simp [Kind.code]
  have hv := ackVal_lt h hr
  have e5 : hdrNewFlags 4 = 5 := by decide
  have hlen : (ackBytes k.code (ackVal (.handler h))).length = 12 + 8 := by simp [ackBytes, encHdr]
  have htake : (ackBytes k.code (ackVal (.handler h))).take 12 = encHdr k.code 5 8 := by
    unfold ackBytes; rw [e5, List.take_append_of_le_length (by simp [encHdr]), List.take_of_length_le (by simp [encHdr])]
  have hdrop : (ackBytes k.code (ackVal (.handler h))).drop 12 = leBytes 8 (ackVal (.handler h)) := by
    unfold ackBytes; rw [e5, List.drop_append_of_le_length (by simp [encHdr]), List.drop_of_length_le (by simp [encHdr])]; simp
  obtain ⟨r1, r2, r3⟩ := recvBody_of_prefix ch cl hdrValidB 8 u64Ok cst (ackBytes k.code (ackVal (.handler h))) rest hlen
    (by rw [htake]; exact hdrValidB_ack _ hk) (by rw [hdrop]; exact u64Ok_of_length _ (by simp))
  rw [htake, hdrop, parseHdr_encHdr k.code 5 8 hk32 (by decide) (by decide)] at r1
  have hrf : isReplyFor backendCodes ⟨k.code, 5, 8⟩ rh = true := by
    have : reqFlags st = 9 := by rw [proxy_request_flags, hra]; rfl
    simp only [rh, this]
    have hmem : k.code ∈ backendCodes := by cases k <;> decide
    exact (isReplyFor_iff _ _ _).2 ⟨hmem, hmem, (by decide : Nat.testBit 5 2 = true), (by decide : Nat.testBit 9 2 = false), rfl⟩
  have hval : leVal (leBytes 8 (ackVal (.handler h))) = ackVal (.handler h) := leVal_leBytes 8 _ (by simpa using hv)
  have hu : u64Ok (leBytes 8 (ackVal (.handler h))) = true := u64Ok_of_length _ (by simp)
  have ho : o = waitAck ch cl st rh cst (segCells (ackBytes k.code (ackVal (.handler h))) [] ++ rest) := rfl
  unfold waitAck at ho
  simp only [herr, hra, Bool.not_true, Bool.false_eq_true, if_false, r1, hrf, hu, hval, Option.isSome_none, Bool.or_self,
    Option.getD_none, List.append_nil] at ho
  by_cases hz : ackVal (.handler h) = 0
  · have hh : h = .okv 0 := (ackVal_zero_iff h hr).1 hz
    have : (ackVal (.handler h) != 0) = false := by simp [hz]
    simp only [this, Bool.false_eq_true, if_false] at ho
    rw [ho]
    exact ⟨⟨fun _ => hh, fun _ => ⟨_, r1⟩⟩, by rw [r1]; simp, r2⟩
  · have hh : h ≠ .okv 0 := fun e => hz ((ackVal_zero_iff h hr).2 e)
    have : (ackVal (.handler h) != 0) = true := by simpa using hz
    simp only [this, if_true] at ho
    rw [ho]
    exact ⟨⟨fun ⟨r, hr'⟩ => by simp at hr', fun e => absurd e hh⟩, by simp, r2⟩

/-- **without REPLY_ACK nothing is awaited**: `wait_for_ack` returns `Ok(0)` without reading a byte, and the request
header carries no NEED_REPLY -/
theorem no_ack_without_replyack_proxy {σ : Type} (ch : Chooser σ) (cl : Bool) (st : PSt) (rh : Hdr) (cst : σ) (str : List Cell)
    (hra : st.replyAck = false) (herr : st.error = none) :
    (waitAck ch cl st rh cst str).res = .ok ⟨rh, leBytes 8 0, [], none⟩ ∧ (waitAck ch cl st rh cst str).rest = str ∧
    (waitAck ch cl st rh cst str).closed = [] ∧ (reqFlags st).testBit 3 = false := by
  have hf : (reqFlags st).testBit 3 = false := by rw [proxy_request_flags, hra]; decide
  simp [waitAck, herr, hra, hf]

/-- **feature gate** (also C07's proxy clause): a shared-object / shared-memory call is refused locally — error returned,
nothing written, incoming stream untouched — unless the corresponding flag was set -/
theorem proxy_gate {σ : Type} (ch : Chooser σ) (cl : Bool) (st : PSt) (c : Model.BackendProxy.Call) (cst : σ) (str : List Cell)
    (hg : c.kind.gate st = false) :
    (call ch cl st c cst str).ret = .err .notNegotiated ∧ (call ch cl st c cst str).wire = [] ∧
    (call ch cl st c cst str).wireFds = [] ∧ (call ch cl st c cst str).rest = str := by
  simp [call, request, hg]

/-- which flag gates which call: SHARED_OBJECT for add / remove / lookup, SHMEM for map / unmap -/
theorem proxy_gate_flags (st : PSt) :
    Kind.gate st .add = st.sharedObject ∧ Kind.gate st .remove = st.sharedObject ∧ Kind.gate st .lookup = st.sharedObject ∧
    Kind.gate st .map = st.shmem ∧ Kind.gate st .unmap = st.shmem := ⟨rfl, rfl, rfl, rfl, rfl⟩

/-- what an admitted call writes: one message, header `code, reqFlags, size_of::<T>()`, the argument's bytes, the
caller's descriptor exactly for lookup / map -/
theorem proxy_request_shape (st : PSt) (c : Model.BackendProxy.Call) (req : Req) (h : request st c = .ok req) :
    req.hdr.code = c.kind.code ∧ req.hdr.flags = reqFlags st ∧ req.hdr.size = c.body.length ∧ req.body = c.body ∧
    req.fds = (if c.kind.hasFd then c.fds else []) ∧ c.kind.gate st = true := by
  unfold request at h
  split at h
  · simp at h
  · rename_i hg
    split at h
    · simp at h
    · split at h
      · simp at h
      · split at h
        · simp at h
        · split at h
          · simp at h
          · rename_i hl
            simp only [Except.ok.injEq] at h
            subst h
            simp at hl hg
            exact ⟨rfl, rfl, hl.symm, rfl, rfl, hg⟩

end Proxy

/-! ## the frontend's server -/

/-- the request reached `send_ack_message` (no early return of `extract_msg_body` / `check_msg_size`, no panic) -/
def handled (hdr : Hdr) (buf : Bytes) (files : Option (List Fd)) : Bool :=
  match arms.find? (·.code == hdr.code) with
  | none => true
  | some a => extractOk a hdr buf && (!a.file || (match files with | some (_ :: _) => true | _ => false))

/-- `res` as `send_ack_message` sees it for a handled request -/
def outcomeOf (hdr : Hdr) (h : HOut) : Model.FrontendSrv.Outcome :=
  match arms.find? (·.code == hdr.code) with
  | none => .invalid
  | some _ => .handler h

/-- what `handle_request` writes for a framed request -/
theorem dispatch_out (st : FSt) (hdr : Hdr) (buf : Bytes) (files : Option (List Fd)) (h : HOut) :
    (dispatch st hdr buf files h).out = if handled hdr buf files then sendAck st hdr (outcomeOf hdr h) else [] := by
  unfold dispatch handled outcomeOf
  cases arms.find? (·.code == hdr.code) with
  | none => simp
  | some a =>
    simp only
    cases he : extractOk a hdr buf with
    | false => simp
    | true =>
      cases hf : a.file with
      | false => simp
      | true =>
        cases files with
        | none => simp
        | some fs => cases fs <;> simp

/-- **without REPLY_ACK the server writes nothing** — every stream, chooser, handler outcome -/
theorem no_ack_without_replyack_server {σ : Type} (ch : Chooser σ) (cl : Bool) (st : FSt) (cst : σ) (s : List Cell) (h : HOut)
    (hra : st.replyAck = false) : (step ch cl st cst s h).o.out = [] := by
  rcases step_cases ch cl st cst s h with ⟨_, h2, _⟩ | ⟨hb, buf, files, _, _, _, _, _, ho, _⟩
  · exact h2
  · rw [ho, dispatch_out]
    simp [sendAck, hra]

/-- **without REPLY_ACK no acknowledgement is written or awaited** (both ends, every stream and chooser): the proxy's request
carries no NEED_REPLY and `wait_for_ack` returns `Ok(0)` without reading; the server's `handle_request` writes nothing -/
theorem no_ack_without_replyack {σ τ : Type} (ch : Chooser σ) (ch' : Chooser τ) (cl cl' : Bool) (pst : Model.BackendProxy.PSt)
    (sst : FSt) (rh : Hdr) (cst : σ) (cst' : τ) (s str : List Cell) (h : HOut)
    (hp : pst.replyAck = false) (hs : sst.replyAck = false) (herr : pst.error = none) :
    (Model.BackendProxy.reqFlags pst).testBit 3 = false ∧
    (Model.BackendProxy.waitAck ch' cl' pst rh cst' str).res = .ok ⟨rh, leBytes 8 0, [], none⟩ ∧
    (Model.BackendProxy.waitAck ch' cl' pst rh cst' str).rest = str ∧
    (step ch cl sst cst s h).o.out = [] := by
  obtain ⟨a, b, _, d⟩ := no_ack_without_replyack_proxy ch' cl' pst rh cst' str hp herr
  exact ⟨d, a, b, no_ack_without_replyack_server ch cl sst cst s h hs⟩

/-- **no acknowledgement without NEED_REPLY** either -/
theorem no_ack_without_need_reply (st : FSt) (hdr : Hdr) (buf : Bytes) (files : Option (List Fd)) (h : HOut)
    (hn : hdr.needReply = false) : (dispatch st hdr buf files h).out = [] := by
  rw [dispatch_out]; simp [sendAck, hn]

/-! ### histories -/

structure Framed where
  hdr : Hdr
  buf : Bytes
  files : Option (List Fd)
  h : HOut

/-- an event on the server: a framed request arrives, or the application changes the REPLY_ACK setting -/
inductive Ev where
  | req (f : Framed)
  | setAck (b : Bool)

/-- the acknowledgements written over a history, in order -/
def acksOf : FSt → List Ev → List Bytes
  | _, [] => []
  | st, .setAck b :: rest => acksOf { st with replyAck := b } rest
  | st, .req f :: rest =>
    let o := dispatch st f.hdr f.buf f.files f.h
    (if o.out.isEmpty then [] else [o.out]) ++ acksOf st rest

/-- the acknowledgements owed over a history: one per request that was handled with NEED_REPLY while REPLY_ACK was in
force, carrying that request's code and its own outcome's value -/
def owedAcks : Bool → List Ev → List Bytes
  | _, [] => []
  | _, .setAck b :: rest => owedAcks b rest
  | ra, .req f :: rest =>
    (if ra && f.hdr.needReply && handled f.hdr f.buf f.files then [ackBytes f.hdr.code (ackVal (outcomeOf f.hdr f.h))] else [])
      ++ owedAcks ra rest

theorem ackBytes_ne_nil (c v : Nat) : ackBytes c v ≠ [] := by
  intro h; have := congrArg List.length h; simp [ackBytes, encHdr] at this

/-- **the k-th acknowledgement answers the k-th acknowledged request** — all histories, failing handlers included -/
theorem kth_ack_answers_kth : ∀ (hist : List Ev) (st : FSt), acksOf st hist = owedAcks st.replyAck hist := by
  intro hist
  induction hist with
  | nil => intro st; rfl
  | cons e rest ih =>
    intro st
    cases e with
    | setAck b => simp only [acksOf, owedAcks]; exact ih _
    | req f =>
      simp only [acksOf, owedAcks, ih st, dispatch_out, sendAck]
      congr 1
      cases hh : handled f.hdr f.buf f.files <;> cases hra : st.replyAck <;> cases hn : f.hdr.needReply <;>
        simp [ackBytes_ne_nil]

/-! ### the handler only sees well-formed requests (C06, last sentence) -/

theorem g_eq_fld_shared (buf : Bytes) :
    g buf "VhostUserSharedMsg" ["uuid"] = Spec.BackendChannel.fld buf "VhostUserSharedMsg" ["uuid"] := by
  have : Spec.fieldAt Spec.layoutOf Spec.nestedOf "VhostUserSharedMsg" ["uuid"] = some (0, 16) := by decide
  simp [g, Spec.BackendChannel.fld, getField, Spec.getField, fieldAt_shared_uuid, this]

theorem g_eq_fld_mmap (buf : Bytes) :
    g buf "VhostUserMMap" ["shmid"] = Spec.BackendChannel.fld buf "VhostUserMMap" ["shmid"] ∧
    g buf "VhostUserMMap" ["fd_offset"] = Spec.BackendChannel.fld buf "VhostUserMMap" ["fd_offset"] ∧
    g buf "VhostUserMMap" ["shm_offset"] = Spec.BackendChannel.fld buf "VhostUserMMap" ["shm_offset"] ∧
    g buf "VhostUserMMap" ["len"] = Spec.BackendChannel.fld buf "VhostUserMMap" ["len"] ∧
    g buf "VhostUserMMap" ["flags"] = Spec.BackendChannel.fld buf "VhostUserMMap" ["flags"] := by
  have h1 : Spec.fieldAt Spec.layoutOf Spec.nestedOf "VhostUserMMap" ["shmid"] = some (0, 1) := by decide
  have h2 : Spec.fieldAt Spec.layoutOf Spec.nestedOf "VhostUserMMap" ["fd_offset"] = some (8, 8) := by decide
  have h3 : Spec.fieldAt Spec.layoutOf Spec.nestedOf "VhostUserMMap" ["shm_offset"] = some (16, 8) := by decide
  have h4 : Spec.fieldAt Spec.layoutOf Spec.nestedOf "VhostUserMMap" ["len"] = some (24, 8) := by decide
  have h5 : Spec.fieldAt Spec.layoutOf Spec.nestedOf "VhostUserMMap" ["flags"] = some (32, 8) := by decide
  simp [g, Spec.BackendChannel.fld, getField, Spec.getField, fieldAt_mmap_shmid, fieldAt_mmap_fd_offset,
    fieldAt_mmap_shm_offset, fieldAt_mmap_len, fieldAt_mmap_flags, h1, h2, h3, h4, h5]

/-- generated UUID validator ⇔ Spec: neither nil nor all-ones -/
theorem bodyValid_shared_spec (buf : Bytes) (hl : buf.length = 16) :
    bodyValid "VhostUserSharedMsg" buf = some true ↔ Spec.validUuid (g buf "VhostUserSharedMsg" ["uuid"]) := by
  have hv : leVal (buf.take 16) < 2^128 := by simpa using leVal_take_lt buf 16
  have := Props.C20.isValid_shared_iff ⟨bv 128 (leVal (buf.take 16))⟩
  simp only [bv, BitVec.toNat_ofNat, Nat.mod_eq_of_lt hv] at this
  simp [bodyValid, decShared, g, getField, structSize_shared, fieldAt_shared_uuid, hl, bv, this]

/-- generated MMAP validator ⇔ Spec: non-zero length, no wrapping range, only the defined flag -/
theorem bodyValid_mmap_spec (buf : Bytes) (hl : buf.length = 40) :
    bodyValid "VhostUserMMap" buf = some true ↔
      Spec.validMMap (g buf "VhostUserMMap" ["fd_offset"]) (g buf "VhostUserMMap" ["shm_offset"]) (g buf "VhostUserMMap" ["len"])
        (g buf "VhostUserMMap" ["flags"]) := by
  have h1 : leVal ((buf.drop 8).take 8) < 2^64 := by simpa using leVal_take_lt (buf.drop 8) 8
  have h2 : leVal ((buf.drop 16).take 8) < 2^64 := by simpa using leVal_take_lt (buf.drop 16) 8
  have h3 : leVal ((buf.drop 24).take 8) < 2^64 := by simpa using leVal_take_lt (buf.drop 24) 8
  have h4 : leVal ((buf.drop 32).take 8) < 2^64 := by simpa using leVal_take_lt (buf.drop 32) 8
  have := Props.C20.isValid_mmap_iff ⟨bv 8 (leVal (buf.take 1)), bv 64 (leVal ((buf.drop 8).take 8)), bv 64 (leVal ((buf.drop 16).take 8)),
    bv 64 (leVal ((buf.drop 24).take 8)), bv 64 (leVal ((buf.drop 32).take 8))⟩
  simp only [bv, BitVec.toNat_ofNat, Nat.mod_eq_of_lt h1, Nat.mod_eq_of_lt h2, Nat.mod_eq_of_lt h3, Nat.mod_eq_of_lt h4] at this
  simp [bodyValid, decMMap, g, getField, structSize_mmap, fieldAt_mmap_shmid, fieldAt_mmap_fd_offset, fieldAt_mmap_shm_offset,
    fieldAt_mmap_len, fieldAt_mmap_flags, hl, bv, this]

/-- the Spec's classification, spelled out as a conjunction -/
theorem classify_accept_iff (r : Spec.BackendChannel.Req) :
    classify r = .accept ↔
      (Spec.validHeader Spec.backendCodes r.code r.flags r.size ∧ r.nfds ≤ 32 ∧ r.body.length = r.size ∧
       Spec.BackendChannel.served.contains r.code = true ∧ Spec.BackendChannel.fixedSize r.code = some r.size ∧
       Spec.BackendChannel.argValid r.code r.body = true ∧
       r.nfds = Spec.BackendChannel.filesPrescribed r.code ∧ r.isReply = false) := by
  constructor
  · intro h
    unfold classify at h
    by_cases c1 : (!decide (Spec.validHeader Spec.backendCodes r.code r.flags r.size)) = true
    · rw [if_pos c1] at h; cases h
    rw [if_neg c1] at h
    by_cases c2 : r.nfds > 32
    · rw [if_pos c2] at h; cases h
    rw [if_neg c2] at h
    by_cases c3 : (r.body.length != r.size) = true
    · rw [if_pos c3] at h; cases h
    rw [if_neg c3] at h
    by_cases c4 : (!Spec.BackendChannel.served.contains r.code) = true
    · rw [if_pos c4] at h; cases h
    rw [if_neg c4] at h
    by_cases c5 : (Spec.BackendChannel.fixedSize r.code != some r.size) = true
    · rw [if_pos c5] at h; cases h
    rw [if_neg c5] at h
    by_cases c6 : (!Spec.BackendChannel.argValid r.code r.body) = true
    · rw [if_pos c6] at h; cases h
    rw [if_neg c6] at h
    by_cases c7 : (r.nfds != Spec.BackendChannel.filesPrescribed r.code) = true
    · rw [if_pos c7] at h; cases h
    rw [if_neg c7] at h
    by_cases c8 : r.isReply = true
    · rw [if_pos c8] at h; cases h
    simp at c1 c3 c4 c5 c6 c7 c8
    exact ⟨c1, by omega, c3, by simpa using c4, c5, by simpa using c6, c7, c8⟩
  · rintro ⟨h1, h2, h3, h4, h5, h6, h7, h8⟩
    unfold classify
    rw [if_neg (by simp [h1]), if_neg (by omega), if_neg (by simp [h3]), if_neg (by rw [h4]; simp), if_neg (by simp [h5]),
      if_neg (by simp [h6]), if_neg (by simp [h7]), if_neg (by simp [h8])]

open Model.BackendSrv (bitSet) in
/-- `extract_msg_body::<VhostUserSharedMsg>` succeeded ⇒ exact size, not a reply, UUID valid by the Spec's rule -/
theorem extractOk_shared (code : Nat) (file : Bool) (m : String) (flags size : Nat) (buf : Bytes)
    (h : extractOk ⟨code, some "VhostUserSharedMsg", file, m⟩ ⟨code, flags, size⟩ buf = true) :
    size = 16 ∧ buf.length = 16 ∧ flags.testBit 2 = false ∧
    Spec.validUuid (Spec.BackendChannel.fld buf "VhostUserSharedMsg" ["uuid"]) := by
  simp only [extractOk, structSize_shared, checkSize, Bool.and_eq_true, beq_iff_eq, Hdr.isReply, bitSet,
    Bool.not_eq_true'] at h
  obtain ⟨⟨⟨⟨h1, h2⟩, _⟩, h4⟩, h5⟩ := h
  refine ⟨h1, h4, h2, ?_⟩
  rw [← g_eq_fld_shared]; exact (bodyValid_shared_spec buf h4).1 h5

open Model.BackendSrv (bitSet) in
/-- `extract_msg_body::<VhostUserMMap>` succeeded ⇒ exact size, not a reply, mapping valid by the Spec's rule -/
theorem extractOk_mmap (code : Nat) (file : Bool) (m : String) (flags size : Nat) (buf : Bytes)
    (h : extractOk ⟨code, some "VhostUserMMap", file, m⟩ ⟨code, flags, size⟩ buf = true) :
    size = 40 ∧ buf.length = 40 ∧ flags.testBit 2 = false ∧
    Spec.validMMap (Spec.BackendChannel.fld buf "VhostUserMMap" ["fd_offset"]) (Spec.BackendChannel.fld buf "VhostUserMMap" ["shm_offset"])
      (Spec.BackendChannel.fld buf "VhostUserMMap" ["len"]) (Spec.BackendChannel.fld buf "VhostUserMMap" ["flags"]) := by
  simp only [extractOk, structSize_mmap, checkSize, Bool.and_eq_true, beq_iff_eq, Hdr.isReply, bitSet,
    Bool.not_eq_true'] at h
  obtain ⟨⟨⟨⟨h1, h2⟩, _⟩, h4⟩, h5⟩ := h
  refine ⟨h1, h4, h2, ?_⟩
  obtain ⟨_, e2, e3, e4, e5⟩ := g_eq_fld_mmap buf
  rw [← e2, ← e3, ← e4, ← e5]; exact (bodyValid_mmap_spec buf h4).1 h5

open Model.BackendSrv (bitSet) in
theorem extractOk_config (code : Nat) (file : Bool) (m : String) (flags size : Nat) (buf : Bytes)
    (h : extractOk ⟨code, none, file, m⟩ ⟨code, flags, size⟩ buf = true) :
    size = 0 ∧ buf.length = 0 ∧ flags.testBit 2 = false := by
  simp only [extractOk, checkSize, Bool.and_eq_true, beq_iff_eq, Hdr.isReply, bitSet, Bool.not_eq_true'] at h
  obtain ⟨⟨⟨h1, h2⟩, _⟩, h4⟩ := h
  exact ⟨h1, h4, h2⟩

/-- `check_attached_files` spelled out -/
theorem filesOk_iff (code : Nat) (files : Option (List Fd)) :
    filesOk code files = true ↔ (if code = 8 ∨ code = 9 then ∃ f, files = some [f] else files = none) := by
  unfold filesOk fileCodes
  by_cases h8 : code = 8
  · subst h8
    simp only [List.contains_cons, beq_self_eq_true, Bool.true_or, if_true, true_or]
    cases files with
    | none => simp
    | some fs => match fs with
      | [] => simp
      | [f] => simp
      | _ :: _ :: _ => simp
  · by_cases h9 : code = 9
    · subst h9
      simp only [List.contains_cons, beq_self_eq_true, Bool.true_or, Bool.or_true, if_true, or_true]
      cases files with
      | none => simp
      | some fs => match fs with
        | [] => simp
        | [f] => simp
        | _ :: _ :: _ => simp
    · have : ([8, 9] : List Nat).contains code = false := by simp [h8, h9]
      simp [this, h8, h9]

/-- a framed request that passed the header validator and `check_attached_files`: every handler invocation of the
dispatch is for a request the Spec classifies as well-formed, with the Spec's decoding of the arguments and the files -/
theorem dispatch_wellformed (st : FSt) (hdr : Hdr) (buf : Bytes) (files : Option (List Fd)) (h : HOut)
    (hv : Spec.validHeader Spec.backendCodes hdr.code hdr.flags hdr.size) (hf : filesOk hdr.code files = true)
    (hl : buf.length = hdr.size) :
    ∀ c ∈ (dispatch st hdr buf files h).calls,
      classify ⟨hdr.code, hdr.flags, hdr.size, buf, (files.getD []).length⟩ = .accept ∧ c.fds = files.getD [] ∧
      (c.name, c.args, c.payload) = expectedCall hdr.code buf := by
  intro c hc
  obtain ⟨code, flags, size⟩ := hdr
  simp only at hv hf hl
  rw [filesOk_iff] at hf
  unfold dispatch at hc
  cases ha : arms.find? (·.code == code) with
  | none => simp [ha] at hc
  | some a =>
    obtain ⟨hm, hcode⟩ := find_arm ha
    simp only [ha] at hc
    by_cases he : extractOk a ⟨code, flags, size⟩ buf = true
    · simp only [he, Bool.not_true, Bool.false_eq_true, if_false] at hc
      simp only [arms, List.mem_cons, List.mem_nil_iff, or_false] at hm
      rcases hm with rfl | rfl | rfl | rfl | rfl | rfl <;> simp only at hcode <;> subst hcode
      · -- CONFIG_CHANGE_MSG
        obtain ⟨e1, e2, e3⟩ := extractOk_config _ _ _ _ _ _ he
        simp only [show ¬((2 : Nat) = 8 ∨ (2 : Nat) = 9) by decide, if_false] at hf
        subst hf e1
        simp only [Bool.false_eq_true, if_false, List.mem_singleton] at hc
        subst hc
        refine ⟨(classify_accept_iff _).2 ⟨hv, by simp, hl, by rfl, rfl, rfl, by simp [Spec.BackendChannel.filesPrescribed], e3⟩,
          rfl, rfl⟩
      · -- SHARED_OBJECT_ADD
        obtain ⟨e1, e2, e3, e4⟩ := extractOk_shared _ _ _ _ _ _ he
        simp only [show ¬((6 : Nat) = 8 ∨ (6 : Nat) = 9) by decide, if_false] at hf
        subst hf e1
        simp only [Bool.false_eq_true, if_false, List.mem_singleton] at hc
        subst hc
        refine ⟨(classify_accept_iff _).2 ⟨hv, by simp, hl, by rfl, rfl, ?_, by simp [Spec.BackendChannel.filesPrescribed], e3⟩, rfl, ?_⟩
        · simp [Spec.BackendChannel.argValid, Spec.BackendChannel.argOf, Spec.BackendChannel.validArg, e4]
        · simp [callOf, expectedCall, Spec.BackendChannel.argOf, Spec.BackendChannel.methodOf, g_eq_fld_shared]
      · -- SHARED_OBJECT_REMOVE
        obtain ⟨e1, e2, e3, e4⟩ := extractOk_shared _ _ _ _ _ _ he
        simp only [show ¬((7 : Nat) = 8 ∨ (7 : Nat) = 9) by decide, if_false] at hf
        subst hf e1
        simp only [Bool.false_eq_true, if_false, List.mem_singleton] at hc
        subst hc
        refine ⟨(classify_accept_iff _).2 ⟨hv, by simp, hl, by rfl, rfl, ?_, by simp [Spec.BackendChannel.filesPrescribed], e3⟩, rfl, ?_⟩
        · simp [Spec.BackendChannel.argValid, Spec.BackendChannel.argOf, Spec.BackendChannel.validArg, e4]
        · simp [callOf, expectedCall, Spec.BackendChannel.argOf, Spec.BackendChannel.methodOf, g_eq_fld_shared]
      · -- SHARED_OBJECT_LOOKUP
        obtain ⟨e1, e2, e3, e4⟩ := extractOk_shared _ _ _ _ _ _ he
        simp only [show ((8 : Nat) = 8 ∨ (8 : Nat) = 9) by decide, if_true] at hf
        obtain ⟨f, hf⟩ := hf
        subst hf e1
        simp only [if_true, List.mem_singleton] at hc
        subst hc
        refine ⟨(classify_accept_iff _).2 ⟨hv, by simp, hl, by rfl, rfl, ?_, by simp [Spec.BackendChannel.filesPrescribed], e3⟩, rfl, ?_⟩
        · simp [Spec.BackendChannel.argValid, Spec.BackendChannel.argOf, Spec.BackendChannel.validArg, e4]
        · simp [callOf, expectedCall, Spec.BackendChannel.argOf, Spec.BackendChannel.methodOf, g_eq_fld_shared]
      · -- SHMEM_MAP
        obtain ⟨e1, e2, e3, e4⟩ := extractOk_mmap _ _ _ _ _ _ he
        simp only [show ((9 : Nat) = 8 ∨ (9 : Nat) = 9) by decide, if_true] at hf
        obtain ⟨f, hf⟩ := hf
        subst hf e1
        simp only [if_true, List.mem_singleton] at hc
        subst hc
        obtain ⟨g1, g2, g3, g4, g5⟩ := g_eq_fld_mmap buf
        refine ⟨(classify_accept_iff _).2 ⟨hv, by simp, hl, by rfl, rfl, ?_, by simp [Spec.BackendChannel.filesPrescribed], e3⟩, rfl, ?_⟩
        · simp [Spec.BackendChannel.argValid, Spec.BackendChannel.argOf, Spec.BackendChannel.validArg, e4]
        · simp [callOf, expectedCall, Spec.BackendChannel.argOf, Spec.BackendChannel.methodOf, g1, g2, g3, g4, g5]
      · -- SHMEM_UNMAP
        obtain ⟨e1, e2, e3, e4⟩ := extractOk_mmap _ _ _ _ _ _ he
        simp only [show ¬((10 : Nat) = 8 ∨ (10 : Nat) = 9) by decide, if_false] at hf
        subst hf e1
        simp only [Bool.false_eq_true, if_false, List.mem_singleton] at hc
        subst hc
        obtain ⟨g1, g2, g3, g4, g5⟩ := g_eq_fld_mmap buf
        refine ⟨(classify_accept_iff _).2 ⟨hv, by simp, hl, by rfl, rfl, ?_, by simp [Spec.BackendChannel.filesPrescribed], e3⟩, rfl, ?_⟩
        · simp [Spec.BackendChannel.argValid, Spec.BackendChannel.argOf, Spec.BackendChannel.validArg, e4]
        · simp [callOf, expectedCall, Spec.BackendChannel.argOf, Spec.BackendChannel.methodOf, g1, g2, g3, g4, g5]
    · simp [he] at hc

/-- `files.unwrap()[0]` is total: after `check_attached_files` the dispatch never reaches the panic -/
theorem dispatch_no_panic (st : FSt) (hdr : Hdr) (buf : Bytes) (files : Option (List Fd)) (h : HOut)
    (hf : filesOk hdr.code files = true) : (dispatch st hdr buf files h).res ≠ .panic := by
  rw [filesOk_iff] at hf
  unfold dispatch
  cases ha : arms.find? (·.code == hdr.code) with
  | none => simp
  | some a =>
    obtain ⟨hm, hcode⟩ := find_arm ha
    simp only
    split
    · simp
    · split
      · rename_i hfile
        -- only the arms of codes 8 and 9 take a file, and for them exactly one file is attached
        have h89 : hdr.code = 8 ∨ hdr.code = 9 := by
          simp only [arms, List.mem_cons, List.mem_nil_iff, or_false] at hm
          rcases hm with rfl | rfl | rfl | rfl | rfl | rfl <;> simp_all
        simp only [h89, if_true] at hf
        obtain ⟨f, hf⟩ := hf
        rw [hf]
        cases h <;> simp [Outcome.res]
      · cases h <;> simp [Outcome.res]

/-- **the application's handler is invoked only for well-formed requests carrying exactly the prescribed descriptors**
— every stream, every chooser (segmentation / timing), every handler script; at most once per `handle_request` -/
theorem fe_server_handler_only_wellformed {σ : Type} (ch : Chooser σ) (cl : Bool) (st : FSt) (cst : σ) (s : List Cell) (h : HOut) :
    (step ch cl st cst s h).o.calls.length ≤ 1 ∧
    ∀ c ∈ (step ch cl st cst s h).o.calls, ∃ (hdr : Hdr) (buf : Bytes) (files : List Fd),
      classify ⟨hdr.code, hdr.flags, hdr.size, buf, files.length⟩ = .accept ∧ c.fds = files ∧
      (c.name, c.args, c.payload) = expectedCall hdr.code buf := by
  rcases step_cases ch cl st cst s h with ⟨h1, _, _⟩ | ⟨hb, buf, files, hlen, hval, hfo, hsz, hc, _, _⟩
  · rw [h1]; exact ⟨by simp, by simp⟩
  · rw [hc]
    refine ⟨dispatch_calls_le_one _ _ _ _ _, ?_⟩
    intro c hcm
    obtain ⟨a, b, d⟩ := dispatch_wellformed st (parseHdr hb) buf files h ((hdrValidB_spec hb hlen).1 hval) hfo hsz c hcm
    exact ⟨parseHdr hb, buf, files.getD [], a, b, d⟩

/-- **`handle_request` never panics** — whatever bytes and descriptors arrive -/
theorem step_never_panics {σ : Type} (ch : Chooser σ) (cl : Bool) (st : FSt) (cst : σ) (s : List Cell) (h : HOut) :
    (step ch cl st cst s h).o.res ≠ .panic := by
  rcases step_cases ch cl st cst s h with ⟨_, _, h3⟩ | ⟨hb, buf, files, _, _, hfo, _, _, _, hr⟩
  · exact h3
  · rw [hr]; exact dispatch_no_panic _ _ _ _ _ hfo

/-! ### conversely: a well-formed request is handed over once and acknowledged as prescribed -/

open Model.BackendSrv (bitSet) in
theorem extractOk_shared_of (code : Nat) (file : Bool) (m : String) (flags size : Nat) (buf : Bytes)
    (hs : size = 16) (hl : buf.length = 16) (hrp : flags.testBit 2 = false) (hver : flags % 4 = 1)
    (hu : Spec.validUuid (Spec.BackendChannel.fld buf "VhostUserSharedMsg" ["uuid"])) :
    extractOk ⟨code, some "VhostUserSharedMsg", file, m⟩ ⟨code, flags, size⟩ buf = true := by
  rw [← g_eq_fld_shared] at hu
  have := (bodyValid_shared_spec buf hl).2 hu
  simp [extractOk, structSize_shared, checkSize, Hdr.isReply, bitSet, hs, hl, hrp, hver, this]

open Model.BackendSrv (bitSet) in
theorem extractOk_mmap_of (code : Nat) (file : Bool) (m : String) (flags size : Nat) (buf : Bytes)
    (hs : size = 40) (hl : buf.length = 40) (hrp : flags.testBit 2 = false) (hver : flags % 4 = 1)
    (hu : Spec.validMMap (Spec.BackendChannel.fld buf "VhostUserMMap" ["fd_offset"]) (Spec.BackendChannel.fld buf "VhostUserMMap" ["shm_offset"])
      (Spec.BackendChannel.fld buf "VhostUserMMap" ["len"]) (Spec.BackendChannel.fld buf "VhostUserMMap" ["flags"])) :
    extractOk ⟨code, some "VhostUserMMap", file, m⟩ ⟨code, flags, size⟩ buf = true := by
  obtain ⟨_, e2, e3, e4, e5⟩ := g_eq_fld_mmap buf
  rw [← e2, ← e3, ← e4, ← e5] at hu
  have := (bodyValid_mmap_spec buf hl).2 hu
  simp [extractOk, structSize_mmap, checkSize, Hdr.isReply, bitSet, hs, hl, hrp, hver, this]

/-- what the server owes for an accepted request, in the Spec's words -/
def OwedOk (st : FSt) (hdr : Hdr) (h : HOut) (out : Bytes) : Prop :=
  if Spec.BackendChannel.ackOwed st.replyAck (hdr.flags.testBit 3) then
    Spec.BackendChannel.ackBytesOk hdr.code (specOf h) out = true
  else out = []

theorem sendAck_owed (st : FSt) (hdr : Hdr) (h : HOut) (hc : hdr.code < 2^32) (hr : InRange h) :
    OwedOk st hdr h (sendAck st hdr (.handler h)) := by
  unfold OwedOk sendAck Spec.BackendChannel.ackOwed
  have : hdr.needReply = hdr.flags.testBit 3 := rfl
  rw [this]
  cases st.replyAck <;> cases hdr.flags.testBit 3 <;> simp [ack_bytes_meet_spec hdr.code h hc hr]

/-- **a request the Spec classifies as well-formed** (valid header, exact size, valid body, exactly the prescribed
descriptors) **reaches the handler exactly once with the Spec's decoding of its arguments and the received file, and is
acknowledged exactly as the Spec prescribes**: iff REPLY_ACK ∧ NEED_REPLY, with the request's code, REPLY set, NEED_REPLY
clear, version 1, size 8 and the handler's value resp. the negated errno -/
theorem accepted_request_meets_spec (st : FSt) (hdr : Hdr) (buf : Bytes) (files : Option (List Fd)) (h : HOut)
    (hacc : classify ⟨hdr.code, hdr.flags, hdr.size, buf, (files.getD []).length⟩ = .accept)
    (hfiles : files ≠ some []) (hr : InRange h) :
    (∃ c, (dispatch st hdr buf files h).calls = [c] ∧ c.fds = files.getD [] ∧
      (c.name, c.args, c.payload) = expectedCall hdr.code buf) ∧
    (dispatch st hdr buf files h).out = sendAck st hdr (.handler h) ∧
    OwedOk st hdr h (dispatch st hdr buf files h).out := by
  obtain ⟨code, flags, size⟩ := hdr
  obtain ⟨hv, _, hl, hserved, hfix, harg, hnf, hrp⟩ := (classify_accept_iff _).1 hacc
  simp only at hv hl hserved hfix harg hnf hrp
  have hver : flags % 4 = 1 := hv.2.2.1
  have hrp' : flags.testBit 2 = false := hrp
  have hc32 : code < 2^32 := by
    have : code ∈ Spec.backendCodes := hv.1
    simp [Spec.backendCodes] at this; omega
  have hcases : code = 2 ∨ code = 6 ∨ code = 7 ∨ code = 8 ∨ code = 9 ∨ code = 10 := by
    simpa [Spec.BackendChannel.served] using hserved
  have hown := sendAck_owed st ⟨code, flags, size⟩ h hc32 hr
  rcases hcases with rfl | rfl | rfl | rfl | rfl | rfl
  · -- CONFIG_CHANGE_MSG
    have hs : size = 0 := by simpa [Spec.BackendChannel.fixedSize] using hfix.symm
    have hf : files = none := by
      cases files with
      | none => rfl
      | some fs => cases fs with
        | nil => exact absurd rfl hfiles
        | cons f fs => simp [Spec.BackendChannel.filesPrescribed] at hnf
    subst hs hf
    have he : extractOk ⟨2, none, false, "handle_config_change"⟩ ⟨2, flags, 0⟩ buf = true := by
      simp [extractOk, checkSize, Hdr.isReply, Model.BackendSrv.bitSet, hl, hrp', hver]
    have ha : arms.find? (·.code == (⟨2, flags, 0⟩ : Hdr).code) = some ⟨2, none, false, "handle_config_change"⟩ := by rfl
    unfold dispatch
    simp only [ha, he, Bool.not_true, Bool.false_eq_true, if_false]
    exact ⟨⟨_, rfl, rfl, rfl⟩, trivial, hown⟩
  · -- SHARED_OBJECT_ADD
    have hs : size = 16 := by simpa [Spec.BackendChannel.fixedSize] using hfix.symm
    have hf : files = none := by
      cases files with
      | none => rfl
      | some fs => cases fs with
        | nil => exact absurd rfl hfiles
        | cons f fs => simp [Spec.BackendChannel.filesPrescribed] at hnf
    have hu : Spec.validUuid (Spec.BackendChannel.fld buf "VhostUserSharedMsg" ["uuid"]) := by
      simpa [Spec.BackendChannel.argValid, Spec.BackendChannel.argOf, Spec.BackendChannel.validArg] using harg
    subst hf
    have he := extractOk_shared_of 6 false "shared_object_add" flags size buf hs (by omega) hrp' hver hu
    have ha : arms.find? (·.code == (⟨6, flags, size⟩ : Hdr).code) = some ⟨6, some "VhostUserSharedMsg", false, "shared_object_add"⟩ := by rfl
    unfold dispatch
    simp only [ha, he, Bool.not_true, Bool.false_eq_true, if_false]
    refine ⟨⟨_, rfl, rfl, ?_⟩, trivial, hown⟩
    simp [callOf, expectedCall, Spec.BackendChannel.argOf, Spec.BackendChannel.methodOf, g_eq_fld_shared]
  · -- SHARED_OBJECT_REMOVE
    have hs : size = 16 := by simpa [Spec.BackendChannel.fixedSize] using hfix.symm
    have hf : files = none := by
      cases files with
      | none => rfl
      | some fs => cases fs with
        | nil => exact absurd rfl hfiles
        | cons f fs => simp [Spec.BackendChannel.filesPrescribed] at hnf
    have hu : Spec.validUuid (Spec.BackendChannel.fld buf "VhostUserSharedMsg" ["uuid"]) := by
      simpa [Spec.BackendChannel.argValid, Spec.BackendChannel.argOf, Spec.BackendChannel.validArg] using harg
    subst hf
    have he := extractOk_shared_of 7 false "shared_object_remove" flags size buf hs (by omega) hrp' hver hu
    have ha : arms.find? (·.code == (⟨7, flags, size⟩ : Hdr).code) = some ⟨7, some "VhostUserSharedMsg", false, "shared_object_remove"⟩ := by rfl
    unfold dispatch
    simp only [ha, he, Bool.not_true, Bool.false_eq_true, if_false]
    refine ⟨⟨_, rfl, rfl, ?_⟩, trivial, hown⟩
    simp [callOf, expectedCall, Spec.BackendChannel.argOf, Spec.BackendChannel.methodOf, g_eq_fld_shared]
  · -- SHARED_OBJECT_LOOKUP
    have hs : size = 16 := by simpa [Spec.BackendChannel.fixedSize] using hfix.symm
    have hf : ∃ f, files = some [f] := by
      cases files with
      | none => simp [Spec.BackendChannel.filesPrescribed] at hnf
      | some fs => match fs with
        | [] => exact absurd rfl hfiles
        | [f] => exact ⟨f, rfl⟩
        | _ :: _ :: _ => simp [Spec.BackendChannel.filesPrescribed] at hnf
    have hu : Spec.validUuid (Spec.BackendChannel.fld buf "VhostUserSharedMsg" ["uuid"]) := by
      simpa [Spec.BackendChannel.argValid, Spec.BackendChannel.argOf, Spec.BackendChannel.validArg] using harg
    obtain ⟨f, hf⟩ := hf
    subst hf
    have he := extractOk_shared_of 8 true "shared_object_lookup" flags size buf hs (by omega) hrp' hver hu
    have ha : arms.find? (·.code == (⟨8, flags, size⟩ : Hdr).code) = some ⟨8, some "VhostUserSharedMsg", true, "shared_object_lookup"⟩ := by rfl
    unfold dispatch
    simp only [ha, he, Bool.not_true, Bool.false_eq_true, if_false, if_true]
    refine ⟨⟨_, rfl, rfl, ?_⟩, trivial, hown⟩
    simp [callOf, expectedCall, Spec.BackendChannel.argOf, Spec.BackendChannel.methodOf, g_eq_fld_shared]
  · -- SHMEM_MAP
    have hs : size = 40 := by simpa [Spec.BackendChannel.fixedSize] using hfix.symm
    have hf : ∃ f, files = some [f] := by
      cases files with
      | none => simp [Spec.BackendChannel.filesPrescribed] at hnf
      | some fs => match fs with
        | [] => exact absurd rfl hfiles
        | [f] => exact ⟨f, rfl⟩
        | _ :: _ :: _ => simp [Spec.BackendChannel.filesPrescribed] at hnf
    have hu : Spec.validMMap (Spec.BackendChannel.fld buf "VhostUserMMap" ["fd_offset"]) (Spec.BackendChannel.fld buf "VhostUserMMap" ["shm_offset"])
        (Spec.BackendChannel.fld buf "VhostUserMMap" ["len"]) (Spec.BackendChannel.fld buf "VhostUserMMap" ["flags"]) := by
      simpa [Spec.BackendChannel.argValid, Spec.BackendChannel.argOf, Spec.BackendChannel.validArg] using harg
    obtain ⟨f, hf⟩ := hf
    subst hf
    have he := extractOk_mmap_of 9 true "shmem_map" flags size buf hs (by omega) hrp' hver hu
    have ha : arms.find? (·.code == (⟨9, flags, size⟩ : Hdr).code) = some ⟨9, some "VhostUserMMap", true, "shmem_map"⟩ := by rfl
    obtain ⟨g1, g2, g3, g4, g5⟩ := g_eq_fld_mmap buf
    unfold dispatch
    simp only [ha, he, Bool.not_true, Bool.false_eq_true, if_false, if_true]
    refine ⟨⟨_, rfl, rfl, ?_⟩, trivial, hown⟩
    simp [callOf, expectedCall, Spec.BackendChannel.argOf, Spec.BackendChannel.methodOf, g1, g2, g3, g4, g5]
  · -- SHMEM_UNMAP
    have hs : size = 40 := by simpa [Spec.BackendChannel.fixedSize] using hfix.symm
    have hf : files = none := by
      cases files with
      | none => rfl
      | some fs => cases fs with
        | nil => exact absurd rfl hfiles
        | cons f fs => simp [Spec.BackendChannel.filesPrescribed] at hnf
    have hu : Spec.validMMap (Spec.BackendChannel.fld buf "VhostUserMMap" ["fd_offset"]) (Spec.BackendChannel.fld buf "VhostUserMMap" ["shm_offset"])
        (Spec.BackendChannel.fld buf "VhostUserMMap" ["len"]) (Spec.BackendChannel.fld buf "VhostUserMMap" ["flags"]) := by
      simpa [Spec.BackendChannel.argValid, Spec.BackendChannel.argOf, Spec.BackendChannel.validArg] using harg
    subst hf
    have he := extractOk_mmap_of 10 false "shmem_unmap" flags size buf hs (by omega) hrp' hver hu
    have ha : arms.find? (·.code == (⟨10, flags, size⟩ : Hdr).code) = some ⟨10, some "VhostUserMMap", false, "shmem_unmap"⟩ := by rfl
    obtain ⟨g1, g2, g3, g4, g5⟩ := g_eq_fld_mmap buf
    unfold dispatch
    simp only [ha, he, Bool.not_true, Bool.false_eq_true, if_false]
    refine ⟨⟨_, rfl, rfl, ?_⟩, trivial, hown⟩
    simp [callOf, expectedCall, Spec.BackendChannel.argOf, Spec.BackendChannel.methodOf, g1, g2, g3, g4, g5]

/-! ## composition: proxy ∘ server -/

/-- field values that fit the wire format -/
def ArgInRange : Arg → Prop
  | .uuid u => u < 2^128
  | .mmap m => m.shmid < 256 ∧ m.padding.length = 7 ∧ m.fdOffset < 2^64 ∧ m.shmOffset < 2^64 ∧ m.len < 2^64 ∧ m.flags < 2^64

/-- request codes that carry this kind of payload -/
def codesFor : Arg → List Nat
  | .uuid _ => [6, 7, 8]
  | .mmap _ => [9, 10]

/-- size of the encoded payload -/
def argLen : Arg → Nat
  | .uuid _ => 16
  | .mmap _ => 40

/-- what the handler is to see for payload `a` of request `code`: method, the caller's values, the MMAP padding bytes -/
def callOfArg (code : Nat) : Arg → String × List Nat × Bytes
  | .uuid u => (Spec.BackendChannel.methodOf code, [u], [])
  | .mmap m => (Spec.BackendChannel.methodOf code, [m.shmid, m.fdOffset, m.shmOffset, m.len, m.flags], m.padding)

theorem take_drop_append {α : Type} (a b : List α) (k : Nat) (h : a.length = k) : (a ++ b).take k = a ∧ (a ++ b).drop k = b := by
  subst h; simp

theorem spec_fieldAt_shared : Spec.fieldAt Spec.layoutOf Spec.nestedOf "VhostUserSharedMsg" ["uuid"] = some (0, 16) := by decide
theorem spec_fieldAt_mmap :
    Spec.fieldAt Spec.layoutOf Spec.nestedOf "VhostUserMMap" ["shmid"] = some (0, 1) ∧
    Spec.fieldAt Spec.layoutOf Spec.nestedOf "VhostUserMMap" ["fd_offset"] = some (8, 8) ∧
    Spec.fieldAt Spec.layoutOf Spec.nestedOf "VhostUserMMap" ["shm_offset"] = some (16, 8) ∧
    Spec.fieldAt Spec.layoutOf Spec.nestedOf "VhostUserMMap" ["len"] = some (24, 8) ∧
    Spec.fieldAt Spec.layoutOf Spec.nestedOf "VhostUserMMap" ["flags"] = some (32, 8) := by decide

theorem fld_eq (bs : Bytes) (s : String) (p : List String) (off w : Nat) (v : Nat) (chunk : Bytes)
    (hf : Spec.fieldAt Spec.layoutOf Spec.nestedOf s p = some (off, w)) (hl : off + w ≤ bs.length)
    (hc : (bs.drop off).take w = chunk) (hv : leVal chunk = v) : Spec.BackendChannel.fld bs s p = v := by
  simp [Spec.BackendChannel.fld, Spec.getField, hf, hl, hc, hv]

/-- **decode ∘ encode = id** on the request payloads: the Spec's decoding of the Spec's encoding gives the values back -/
theorem argOf_encodeArg (code : Nat) (a : Arg) (hr : ArgInRange a) (hk : code ∈ codesFor a) :
    argOf code (encodeArg a) = some a := by
  cases a with
  | uuid u =>
    have hu : u < 256 ^ 16 := by simpa [ArgInRange] using hr
    have hf : Spec.BackendChannel.fld (leBytes 16 u) "VhostUserSharedMsg" ["uuid"] = u :=
      fld_eq _ _ _ 0 16 u (leBytes 16 u) spec_fieldAt_shared (by simp) (by simp [List.take_of_length_le]) (leVal_leBytes 16 u hu)
    simp only [codesFor, List.mem_cons, List.mem_nil_iff, or_false] at hk
    rcases hk with rfl | rfl | rfl <;> simp [argOf, encodeArg, hf]
  | mmap m =>
    simp only [codesFor, List.mem_cons, List.mem_nil_iff, or_false] at hk
    obtain ⟨h1, h2, h3, h4, h5, h6⟩ := hr
    obtain ⟨f1, f2, f3, f4, f5⟩ := spec_fieldAt_mmap
    have hpad : (m.padding ++ List.replicate 7 0).take 7 = m.padding := by
      rw [List.take_append_of_le_length (by omega), List.take_of_length_le (by omega)]
    -- the body, grouped as [shmid] ++ padding ++ fd_offset ++ shm_offset ++ len ++ flags
    have hbody : encodeArg (.mmap m) = leBytes 1 m.shmid ++ (m.padding ++ (leBytes 8 m.fdOffset ++ (leBytes 8 m.shmOffset ++
        (leBytes 8 m.len ++ leBytes 8 m.flags)))) := by
      simp only [encodeArg]; rw [hpad]; simp only [List.append_assoc]
    have e1 : (encodeArg (.mmap m)).take 1 = leBytes 1 m.shmid := by
      rw [hbody]; exact (take_drop_append _ _ 1 (by simp)).1
    have d1 : (encodeArg (.mmap m)).drop 1 = m.padding ++ (leBytes 8 m.fdOffset ++ (leBytes 8 m.shmOffset ++
        (leBytes 8 m.len ++ leBytes 8 m.flags))) := by
      rw [hbody]; exact (take_drop_append _ _ 1 (by simp)).2
    have d8 : (encodeArg (.mmap m)).drop 8 = leBytes 8 m.fdOffset ++ (leBytes 8 m.shmOffset ++ (leBytes 8 m.len ++ leBytes 8 m.flags)) := by
      have : (encodeArg (.mmap m)).drop 8 = ((encodeArg (.mmap m)).drop 1).drop 7 := by rw [List.drop_drop]
      rw [this, d1]; exact (take_drop_append _ _ 7 h2).2
    have d16 : (encodeArg (.mmap m)).drop 16 = leBytes 8 m.shmOffset ++ (leBytes 8 m.len ++ leBytes 8 m.flags) := by
      have : (encodeArg (.mmap m)).drop 16 = ((encodeArg (.mmap m)).drop 8).drop 8 := by rw [List.drop_drop]
      rw [this, d8]; exact (take_drop_append _ _ 8 (by simp)).2
    have d24 : (encodeArg (.mmap m)).drop 24 = leBytes 8 m.len ++ leBytes 8 m.flags := by
      have : (encodeArg (.mmap m)).drop 24 = ((encodeArg (.mmap m)).drop 16).drop 8 := by rw [List.drop_drop]
      rw [this, d16]; exact (take_drop_append _ _ 8 (by simp)).2
    have d32 : (encodeArg (.mmap m)).drop 32 = leBytes 8 m.flags := by
      have : (encodeArg (.mmap m)).drop 32 = ((encodeArg (.mmap m)).drop 24).drop 8 := by rw [List.drop_drop]
      rw [this, d24]; exact (take_drop_append _ _ 8 (by simp)).2
    have hl : (encodeArg (.mmap m)).length = 40 := by rw [hbody]; simp [h2]
    have g1 : Spec.BackendChannel.fld (encodeArg (.mmap m)) "VhostUserMMap" ["shmid"] = m.shmid :=
      fld_eq _ _ _ 0 1 _ _ f1 (by omega) (by simpa using e1) (leVal_leBytes 1 m.shmid (by simpa using h1))
    have g2 : Spec.BackendChannel.fld (encodeArg (.mmap m)) "VhostUserMMap" ["fd_offset"] = m.fdOffset :=
      fld_eq _ _ _ 8 8 _ _ f2 (by omega) (by rw [d8]; exact (take_drop_append _ _ 8 (leBytes_length 8 m.fdOffset)).1)
        (leVal_leBytes 8 m.fdOffset (by simpa using h3))
    have g3 : Spec.BackendChannel.fld (encodeArg (.mmap m)) "VhostUserMMap" ["shm_offset"] = m.shmOffset :=
      fld_eq _ _ _ 16 8 _ _ f3 (by omega) (by rw [d16]; exact (take_drop_append _ _ 8 (leBytes_length 8 m.shmOffset)).1)
        (leVal_leBytes 8 m.shmOffset (by simpa using h4))
    have g4 : Spec.BackendChannel.fld (encodeArg (.mmap m)) "VhostUserMMap" ["len"] = m.len :=
      fld_eq _ _ _ 24 8 _ _ f4 (by omega) (by rw [d24]; exact (take_drop_append _ _ 8 (leBytes_length 8 m.len)).1)
        (leVal_leBytes 8 m.len (by simpa using h5))
    have g5 : Spec.BackendChannel.fld (encodeArg (.mmap m)) "VhostUserMMap" ["flags"] = m.flags :=
      fld_eq _ _ _ 32 8 _ _ f5 (by omega) (by rw [d32]; exact List.take_of_length_le (by simp))
        (leVal_leBytes 8 m.flags (by simpa using h6))
    have g6 : ((encodeArg (.mmap m)).drop 1).take 7 = m.padding := by
      rw [d1]; exact (take_drop_append _ _ 7 h2).1
    rcases hk with rfl | rfl <;> simp only [argOf, g1, g2, g3, g4, g5, g6]

section Compose
open Model.BackendProxy

/-- the API's typing: shared-object calls take a `VhostUserSharedMsg`, mapping calls a `VhostUserMMap` -/
def argFits : Kind → Arg → Prop
  | .add, .uuid _ | .remove, .uuid _ | .lookup, .uuid _ | .map, .mmap _ | .unmap, .mmap _ => True
  | _, _ => False

theorem encodeArg_length (a : Arg) : (encodeArg a).length = argLen a := by
  cases a with
  | uuid u => simp [encodeArg, argLen]
  | mmap m => simp [encodeArg, argLen]

/-- **a protocol-valid request issued through the proxy reaches the frontend application's handler exactly once, with
equal arguments and the same descriptor, and is acknowledged as prescribed** — for every request kind, every argument
value, every REPLY_ACK setting (the same on both ends), every handler outcome, whatever else is queued behind the request
and however the socket segments the bytes -/
theorem proxy_reaches_handler {σ : Type} (ch : Chooser σ) (cl : Bool) (pst : PSt) (sst : FSt) (c : Model.BackendProxy.Call)
    (a : Arg) (req : Req) (cst : σ) (rest : List Cell) (h : HOut)
    (hreq : request pst c = .ok req) (hb : c.body = encodeArg a) (hfit : argFits c.kind a)
    (hvalid : validArg a = true) (hrange : ArgInRange a) (hfd : c.kind.hasFd = true → c.fds.length = 1)
    (hra : sst.replyAck = pst.replyAck) (herr : sst.error = none) (hr : InRange h) :
    (∃ call, (step ch cl sst cst (segCells (wire req) req.fds ++ rest) h).o.calls = [call] ∧ call.fds = req.fds ∧
       (call.name, call.args, call.payload) = callOfArg c.kind.code a) ∧
    (step ch cl sst cst (segCells (wire req) req.fds ++ rest) h).rest = rest ∧
    (step ch cl sst cst (segCells (wire req) req.fds ++ rest) h).o.out =
      (if pst.replyAck then ackBytes c.kind.code (ackVal (.handler h)) else []) ∧
    (if pst.replyAck then
       Spec.BackendChannel.ackBytesOk c.kind.code (specOf h) (step ch cl sst cst (segCells (wire req) req.fds ++ rest) h).o.out = true
     else (step ch cl sst cst (segCells (wire req) req.fds ++ rest) h).o.out = []) := by
  obtain ⟨s1, s2, s3, s4, s5, _⟩ := proxy_request_shape pst c req hreq
  have hflags : reqFlags pst = Spec.BackendChannel.reqFlags pst.replyAck := by
    rw [proxy_request_flags]; rfl
  -- the code, the size and the file list of the request
  have hcode : c.kind.code ∈ codesFor a := by
    cases hk : c.kind <;> cases a <;> simp_all [argFits, Kind.code, codesFor]
  have hlen := encodeArg_length a
  have hc32 : c.kind.code < 2^32 := by cases c.kind <;> simp [Kind.code]
  have hf32 : reqFlags pst < 2^32 := by rw [proxy_request_flags]; cases pst.replyAck <;> simp
  have hsz : c.body.length ≤ Gen.Consts.MAX_MSG_SIZE := by
    have : Gen.Consts.MAX_MSG_SIZE = 4096 := by decide
    rw [hb, hlen]; cases a <;> simp [argLen] <;> omega
  have hvh : Spec.validHeader Spec.backendCodes c.kind.code (reqFlags pst) c.body.length := by
    refine ⟨by cases c.kind <;> decide, ?_, ?_, ?_⟩
    · have : Gen.Consts.MAX_MSG_SIZE = 4096 := by decide
      omega
    · rw [proxy_request_flags]; cases pst.replyAck <;> simp
    · rw [proxy_request_flags]; cases pst.replyAck <;> simp
  have hval : hdrValidB (encHdr c.kind.code (reqFlags pst) c.body.length) = true := by
    rw [hdrValidB_spec _ (encHdr_length _ _ _), parseHdr_encHdr _ _ _ hc32 hf32 (by
      have : Gen.Consts.MAX_MSG_SIZE = 4096 := by decide
      omega)]
    exact hvh
  have hfds : req.fds.length ≤ 1 ∧ (c.kind.hasFd = true → ∃ f, req.fds = [f]) ∧ (c.kind.hasFd = false → req.fds = []) := by
    rw [s5]
    cases hh : c.kind.hasFd with
    | false => simp
    | true =>
      have := hfd hh
      match hcf : c.fds, this with
      | [f], _ => simp
  have hfo : filesOk c.kind.code (if req.fds.isEmpty then none else some req.fds) = true := by
    rw [filesOk_iff]
    cases hh : c.kind.hasFd with
    | true =>
      obtain ⟨f, hf⟩ := hfds.2.1 hh
      have : c.kind.code = 8 ∨ c.kind.code = 9 := by cases hk : c.kind <;> simp_all [Kind.hasFd, Kind.code]
      simp [this, hf]
    | false =>
      have hf := hfds.2.2 hh
      have : ¬ (c.kind.code = 8 ∨ c.kind.code = 9) := by cases hk : c.kind <;> simp_all [Kind.hasFd, Kind.code]
      simp [this, hf]
  have hwire : wire req = encHdr c.kind.code (reqFlags pst) c.body.length ++ c.body := by
    simp [wire, s1, s2, s3, s4]
  rw [hwire]
  obtain ⟨t1, t2, t3, t4⟩ := step_of_message ch cl sst cst c.kind.code (reqFlags pst) c.body.length c.body req.fds rest h herr hc32 hf32
    hsz rfl hval hfo (by omega)
  -- the Spec classifies the request as well-formed
  have hargof := argOf_encodeArg c.kind.code a hrange hcode
  have hfiles_ne : (if req.fds.isEmpty then none else some req.fds : Option (List Fd)) ≠ some [] := by
    cases hq : req.fds <;> simp
  have hgetD : ((if req.fds.isEmpty then none else some req.fds : Option (List Fd)).getD []) = req.fds := by
    cases hq : req.fds <;> simp
  have hacc : classify ⟨c.kind.code, reqFlags pst, c.body.length, c.body, ((if req.fds.isEmpty then none else some req.fds : Option (List Fd)).getD []).length⟩ = .accept := by
    rw [hgetD]
    refine (classify_accept_iff _).2 ⟨hvh, by simp; omega, rfl, ?_, ?_, ?_, ?_, ?_⟩
    · cases c.kind <;> rfl
    · simp only; rw [hb, hlen]
      cases a with
      | uuid u =>
        simp only [codesFor, List.mem_cons, List.mem_nil_iff, or_false] at hcode
        rcases hcode with hc | hc | hc <;> simp [hc, Spec.BackendChannel.fixedSize, argLen]
      | mmap m =>
        simp only [codesFor, List.mem_cons, List.mem_nil_iff, or_false] at hcode
        rcases hcode with hc | hc <;> simp [hc, Spec.BackendChannel.fixedSize, argLen]
    · simp only [Spec.BackendChannel.argValid]; rw [hb, hargof]; exact hvalid
    · simp only [Spec.BackendChannel.filesPrescribed]
      cases hh : c.kind.hasFd with
      | true =>
        obtain ⟨f, hf⟩ := hfds.2.1 hh
        have : c.kind.code = 8 ∨ c.kind.code = 9 := by cases hk : c.kind <;> simp_all [Kind.hasFd, Kind.code]
        rcases this with e | e <;> simp [e, hf]
      | false =>
        have hf := hfds.2.2 hh
        have : c.kind.code ≠ 8 ∧ c.kind.code ≠ 9 := by cases hk : c.kind <;> simp_all [Kind.hasFd, Kind.code]
        simp [this.1, this.2, hf]
    · show (reqFlags pst).testBit 2 = false
      rw [proxy_request_flags]; cases pst.replyAck <;> decide
  obtain ⟨⟨call, k1, k2, k3⟩, kexact, kown⟩ := accepted_request_meets_spec sst ⟨c.kind.code, reqFlags pst, c.body.length⟩ c.body
    (if req.fds.isEmpty then none else some req.fds) h hacc hfiles_ne hr
  have hneed : (⟨c.kind.code, reqFlags pst, c.body.length⟩ : Hdr).needReply = pst.replyAck := by
    show (reqFlags pst).testBit 3 = pst.replyAck
    rw [proxy_request_flags]; cases pst.replyAck <;> decide
  refine ⟨⟨call, by rw [t1]; exact k1, by rw [k2, hgetD], ?_⟩, t4, ?_, ?_⟩
  · rw [k3]
    simp only [expectedCall, hb, hargof]
    cases a <;> rfl
  · rw [t2, kexact]
    simp only [sendAck, hneed, hra]
    cases pst.replyAck <;> simp
  · rw [t2]
    have hbit : (reqFlags pst).testBit 3 = pst.replyAck := hneed
    simp only [OwedOk, Spec.BackendChannel.ackOwed, hra, hbit] at kown
    cases hp : pst.replyAck <;> simp [hp] at kown ⊢ <;> exact kown

/-- **C18, end to end over both models.**  A protocol-valid request issued through the proxy is served by one
`handle_request`; what the server writes back is what the proxy reads.  With REPLY_ACK (negotiated on both ends) the proxy
call succeeds iff the application's handler returned zero — it fails for every non-zero value, every errno and errors
without errno — and never waits indefinitely; without REPLY_ACK the server writes nothing, the proxy awaits nothing and
returns `Ok(0)`.  For every request kind and argument value, handler outcome, chooser (segmentation / timing) on both
directions, and whatever is queued behind the messages. -/
theorem proxy_call_end_to_end {σ τ : Type} (ch : Chooser σ) (ch' : Chooser τ) (cl cl' : Bool) (pst : PSt) (sst : FSt)
    (c : Model.BackendProxy.Call) (a : Arg) (req : Req) (cst : σ) (cst' : τ) (rest rest' : List Cell) (h : HOut)
    (hreq : request pst c = .ok req) (hb : c.body = encodeArg a) (hfit : argFits c.kind a)
    (hvalid : validArg a = true) (hrange : ArgInRange a) (hfd : c.kind.hasFd = true → c.fds.length = 1)
    (hra : sst.replyAck = pst.replyAck) (herr : sst.error = none) (hperr : pst.error = none) (hr : InRange h) :
    let srv := step ch cl sst cst (segCells (wire req) req.fds ++ rest) h
    let co := callRecv ch' cl' pst req cst' (segCells srv.o.out [] ++ rest')
    (pst.replyAck = true → ((∃ v, co.ret = .ok v) ↔ h = .okv 0) ∧ co.ret ≠ .blocked ∧ co.rest = rest') ∧
    (pst.replyAck = false → srv.o.out = [] ∧ co.ret = .ok 0 ∧ co.rest = rest') := by
  intro srv co
  obtain ⟨_, _, hout, _⟩ := proxy_reaches_handler ch cl pst sst c a req cst rest h hreq hb hfit hvalid hrange hfd hra herr hr
  obtain ⟨s1, s2, s3, _, _, _⟩ := proxy_request_shape pst c req hreq
  have hhdr : req.hdr = ⟨c.kind.code, reqFlags pst, c.body.length⟩ := by
    cases hq : req.hdr; simp_all
  constructor
  · intro hp
    have ho : srv.o.out = ackBytes c.kind.code (ackVal (.handler h)) := by simp only [srv, hout, hp, if_true]
    obtain ⟨w1, w2, w3⟩ := proxy_ok_iff_handler_zero ch' cl' pst c.kind c.body.length h cst' rest' hp hperr hr
    simp only [co, callRecv, ho, hhdr]
    refine ⟨?_, ?_, ?_⟩
    · rw [← w1]
      constructor
      · rintro ⟨v, hv⟩
        split at hv
        · simp at hv
        · simp at hv
        · rename_i r hr'; exact ⟨r, hr'⟩
      · rintro ⟨r, hr'⟩
        exact ⟨leVal r.body, by simp only [hr']⟩
    · intro hb'
      split at hb'
      · rename_i hbl; exact w2 hbl
      · simp at hb'
      · simp at hb'
    · split <;> exact w3
  · intro hp
    have ho : srv.o.out = [] := by simp only [srv, hout, hp]; rfl
    obtain ⟨n1, n2, _, _⟩ := no_ack_without_replyack_proxy ch' cl' pst req.hdr cst' (segCells srv.o.out [] ++ rest') hp hperr
    rw [ho] at n1 n2
    simp only [segCells, List.nil_append] at n1 n2
    refine ⟨ho, ?_, ?_⟩
    · simp only [co, callRecv, ho, segCells, List.nil_append, n1]
      show Ret.ok (leVal (leBytes 8 0)) = Ret.ok 0
      rw [leVal_leBytes 8 0 (by decide)]
    · simp only [co, callRecv, ho, segCells, List.nil_append, n1, n2]

end Compose

/-! ## non-vacuity -/
section Examples
open Model.BackendProxy

/-- a valid SHARED_OBJECT_ADD (uuid 0x1234) with NEED_REPLY, REPLY_ACK negotiated, handler fails with ENOENT (2):
one handler call, acknowledgement carries 2^64 − 2 -/
example : (dispatch { replyAck := true } ⟨6, 9, 16⟩ (leBytes 16 0x1234) none (.errno 2)).calls =
    [⟨"shared_object_add", [0x1234], [], []⟩] := by decide
example : (dispatch { replyAck := true } ⟨6, 9, 16⟩ (leBytes 16 0x1234) none (.errno 2)).out = ackBytes 6 (2^64 - 2) := by decide
example : classify ⟨6, 9, 16, leBytes 16 0x1234, 0⟩ = .accept := by decide
/-- nil UUID: the handler is not invoked and nothing is acknowledged (early return) -/
example : (dispatch { replyAck := true } ⟨6, 9, 16⟩ (leBytes 16 0) none (.okv 0)).calls = [] ∧
    (dispatch { replyAck := true } ⟨6, 9, 16⟩ (leBytes 16 0) none (.okv 0)).out = [] := by decide
/-- an unserved request code with NEED_REPLY is acknowledged with −EINVAL -/
example : (dispatch { replyAck := true } ⟨1, 9, 0⟩ [] none (.okv 0)).out = ackBytes 1 (2^64 - 22) := by decide
/-- SHMEM_MAP without a file does not get past `check_attached_files` -/
example : filesOk 9 none = false ∧ filesOk 9 (some [7]) = true ∧ filesOk 6 (some [7]) = false := by decide
example : InRange (.errno 2) ∧ InRange (.okv 0) := by simp [InRange]
/-- the gate is satisfiable both ways -/
example : Kind.gate { sharedObject := true } .add = true ∧ Kind.gate {} .add = false := by decide
example : (request { sharedObject := true, replyAck := true } ⟨.add, leBytes 16 0x1234, []⟩).toOption.map (·.hdr) =
    some ⟨6, 9, 16⟩ := by decide
/-- the hypotheses of `proxy_reaches_handler` / `proxy_call_end_to_end` are satisfiable: a SHARED_OBJECT_ADD and a SHMEM_MAP -/
example : ∃ req, request { replyAck := true, sharedObject := true } ⟨.add, leBytes 16 0x1234, []⟩ = .ok req ∧
    leBytes 16 0x1234 = encodeArg (.uuid 0x1234) ∧ argFits .add (.uuid 0x1234) ∧ validArg (.uuid 0x1234) = true ∧
    ArgInRange (.uuid 0x1234) := ⟨_, rfl, rfl, trivial, by decide, by simp [ArgInRange]⟩
example : ∃ req, request { shmem := true } ⟨.map, encodeArg (.mmap ⟨3, [1, 2, 3, 4, 5, 6, 7], 0x1000, 2^64 - 0x2000, 0x1000, 1⟩), [42]⟩ = .ok req ∧
    req.fds = [42] ∧ argFits .map (.mmap ⟨3, [1, 2, 3, 4, 5, 6, 7], 0x1000, 2^64 - 0x2000, 0x1000, 1⟩) ∧
    validArg (.mmap ⟨3, [1, 2, 3, 4, 5, 6, 7], 0x1000, 2^64 - 0x2000, 0x1000, 1⟩) = true ∧
    ArgInRange (.mmap ⟨3, [1, 2, 3, 4, 5, 6, 7], 0x1000, 2^64 - 0x2000, 0x1000, 1⟩) :=
  ⟨_, rfl, rfl, trivial, by decide, by simp [ArgInRange]⟩
/-- a history mixing a failing and a succeeding request and a request without NEED_REPLY: two acknowledgements, in order -/
example : acksOf { replyAck := true }
    [.req ⟨⟨6, 9, 16⟩, leBytes 16 0x1234, none, .errno 2⟩, .req ⟨⟨7, 1, 16⟩, leBytes 16 0x1234, none, .okv 0⟩,
     .req ⟨⟨7, 9, 16⟩, leBytes 16 0x1234, none, .okv 0⟩] = [ackBytes 6 (2^64 - 2), ackBytes 7 0] := by decide

end Examples

end Props.C18
