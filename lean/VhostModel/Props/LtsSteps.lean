import VhostModel.Gen.LtsSteps
import VhostModel.Lemmas.LtsWorker
import VhostModel.Lemmas.LtsControl
import VhostModel.Lemmas.LtsShutdown
import VhostModel.Lemmas.LtsTeardown
/-!
# The atomic steps of `Model.Worker` (C12) and `Model.Shutdown` (C16) are the code segments between the hold points

`Gen.LtsSteps` is regenerated on every run from `vhost-user-backend/src/{event_loop.rs, vring.rs, handler.rs, lib.rs}`
(`tools/rs2lean_lts.py`) *with* the statements under `#[cfg(feature = "verif-hooks")]`: per function the events of its body
with the hold points as events, and per function the segments — the residual programs from function entry and from every
hold point up to the next hold points.

Three layers:

1. **table = source** — `worker_segments_match_source`, `control_segments_match_source`, `shutdown_segments_match_source`:
   the hand-written `Model.LtsTable` *is* what the translator derived (every segment, every event, in order);
   `segments_derivation_agrees`: the translator's derivation of the segments from the rows and the one written in Lean
   (`Base.LSeg.segmentsOf`) give the same segments.  A hold point moved, a statement moved across a hold point, a dropped /
   added / reordered check or call breaks these.
2. **table = executable transition systems**, for all states:
   * C12 worker: `worker_steps_are_segments` (every `wpc`, every `Cfg`), with `worker_read_kick_local` for the hold point
     the model merges; `worker_cfg_edits`, `worker_pinned_steps`: the configurations are the segments with the repairs
     reverted as edits of the *generated* segments;
   * C12 control: `control_steps_are_segments` (every message, every stage, both readings of the stages two hold points
     share, `Cfg.nofdStarts` as the edit `mutNofd`), `control_stage_numbering_reachable`;
   * C16: `daemon_enter_is_segment`, `daemon_return_is_segment`, `daemon_inner_steps`, `daemon_loop_is_segment`,
     `daemon_exit_is_segment`, `shutdown_steps_are_segments`, `wait_steps_are_segments`, `wait_arms_are_source`,
     `drop_is_segment`, `serve_tail_is_segment`, `handler_drop_is_segments`, `worker_exit_partial`.
3. **non-vacuity** — examples at the end.

## What the comparison found (reported, not hidden)

No step on which a model and the source disagree.  Differences of *granularity*, each visible in a statement:

* **`worker.read_kick`** — `Model.Worker` has no program counter for this hold point: `wStep` at `checked` is the segment from
  `worker.pre_read` followed by the one from `worker.read_kick`.  The second looks at the local `enabled` only
  (`worker_read_kick_local`), so no interleaving is lost.
* **`ctl.state` of SET_VRING_KICK** — the model evaluates the guard `vring_needs_init` when it *reaches* the hold point
  (stage `1` or `2`), the code when it *leaves* it.  Equal because no other thread writes `ready` / `kick`
  (`Lemmas.LtsControl.wStep_frame`); the theorems carry `StageInv`, which holds in every reachable state.  Stage `2` is
  `ctl.state` (guard false) or `ctl.ready`, stage `3` is either occurrence of `ctl.epoll`: the theorem holds for both.
* **`wait()`, `serve()`, the two `Drop`s** have no hold point: the models are *finer* than the segments (`wJoin` /
  `wClassify`; one `svSignal` / `hSignal` / `hJoin` per worker) and the theorems are about the run of those steps.
  `wait()` reads the flag through `conn_state` (`is_some_and`); the model reads it directly — equal under `ConnInv`
  (`conn_state` is there whenever there is a thread to join), which holds in every reachable state.
* **`handle_request`** is a run of model steps (one per system call), not a segment: the tie is the control skeleton around it
  (`daemon_enter_is_segment`, `daemon_return_is_segment`, `daemon_inner_steps`).
* **`wkExit`** — `worker_exit_partial`: the exit path of `run` is read off the segment from `worker.woken`; that
  `epoll.wait` reports the exit event exactly when it was raised is the model's reading of epoll, not a segment.
-/
namespace Props.LtsSteps
open Base Model.LtsTable

/-! ## 1. the table is the source -/

/-- **worker_segments_match_source** -/
theorem worker_segments_match_source : workerSegments = Gen.LtsSteps.workerSegments :=
  lsegsBeq_sound _ _ (by decide +kernel)

/-- **control_segments_match_source** -/
theorem control_segments_match_source : controlSegments = Gen.LtsSteps.controlSegments :=
  lsegsBeq_sound _ _ (by decide +kernel)

/-- **shutdown_segments_match_source** -/
theorem shutdown_segments_match_source : shutdownSegments = Gen.LtsSteps.shutdownSegments :=
  lsegsBeq_sound _ _ (by decide +kernel)

/-- the segments the translator derived are the segments `Base.LSeg.segmentsOf` derives from the generated rows -/
theorem segments_derivation_agrees :
    LSeg.segmentsOfRows Gen.LtsSteps.workerRows = Gen.LtsSteps.workerSegments ∧
    LSeg.segmentsOfRows Gen.LtsSteps.controlRows = Gen.LtsSteps.controlSegments ∧
    LSeg.segmentsOfRows Gen.LtsSteps.shutdownRows = Gen.LtsSteps.shutdownSegments :=
  ⟨lsegsBeq_sound _ _ (by decide +kernel), lsegsBeq_sound _ _ (by decide +kernel), lsegsBeq_sound _ _ (by decide +kernel)⟩

mutual
/-- every `helperCall` / `readKick` carries the body the helper has in `H` (`check_feature`: its one test, with the flag of
the call, as in `Props.HandlerOps.callsOk`) -/
def callsOk (H : List LRow) : LEvent → Bool
  | .act _ => true
  | .node k ss b1 b2 =>
    (match k with
     | .helperCall _ =>
       (match H.lookup (ss.headD "") with
        | some hb =>
          LEvent.beqL hb b1 ||
          (ss.headD "" == "check_feature" &&
           (match b1 with
            | [.act (.h (.featureAcked _ e))] => e == "InactiveFeature"
            | _ => false))
        | none => false)
     | .readKick =>
       (match H.lookup "read_kick" with
        | some hb => LEvent.beqL hb b1
        | none => false)
     | _ => true) && callsOkL H b1 && callsOkL H b2
def callsOkL (H : List LRow) : List LEvent → Bool
  | [] => true
  | e :: es => callsOk H e && callsOkL H es
end

/-- the bodies carried along by the rows (and by the helpers) are the helpers' own rows -/
theorem helper_calls_consistent :
    (Gen.LtsSteps.workerRows.all fun r => callsOkL Gen.LtsSteps.workerHelpers r.2) = true ∧
    (Gen.LtsSteps.workerHelpers.all fun r => callsOkL Gen.LtsSteps.workerHelpers r.2) = true ∧
    (Gen.LtsSteps.controlRows.all fun r => callsOkL Gen.LtsSteps.controlHelpers r.2) = true ∧
    (Gen.LtsSteps.controlHelpers.all fun r => callsOkL Gen.LtsSteps.controlHelpers r.2) = true ∧
    (Gen.LtsSteps.shutdownRows.all fun r => callsOkL Gen.LtsSteps.shutdownHelpers r.2) = true ∧
    (Gen.LtsSteps.shutdownHelpers.all fun r => callsOkL Gen.LtsSteps.shutdownHelpers r.2) = true := by
  decide +kernel

/-- the hold points, per function, in source order -/
theorem source_hold_points :
    Gen.LtsSteps.workerRows.map (fun r => (r.1, LSeg.holdsL r.2)) =
      [("run", ["worker.wait", "worker.woken", "worker.pre_read", "worker.read_kick", "worker.dispatch"])] ∧
    Gen.LtsSteps.controlRows.map (fun r => (r.1, LSeg.holdsL r.2)) =
      [("set_vring_enable", ["ctl.state", "ctl.epoll"]), ("reset_device", ["ctl.state", "ctl.epoll"]),
       ("get_vring_base", ["ctl.state", "ctl.epoll", "ctl.drop"]),
       ("set_vring_kick", ["ctl.state", "ctl.ready", "ctl.epoll", "ctl.epoll"])] ∧
    Gen.LtsSteps.shutdownRows.map (fun r => (r.1, LSeg.holdsL r.2)) =
      [("daemon_thread", ["daemon.before_handle_request", "daemon.after_handle_request_ok", "daemon.before_final_shutdown"]),
       ("start_daemon", []), ("shutdown", ["shutdown.between_flag_and_socket"]), ("wait", []), ("serve", []),
       ("daemon_drop", []), ("handler_drop", [])] := by
  decide +kernel

/-! ## 2. the table is the executable transition systems -/

section Worker
open Model.Worker Lemmas.LtsWorker

/-- the generated segment of `run` from point `p` -/
def runSeg (p : String) : List LEvent := segOf Gen.LtsSteps.workerSegments "run" p

theorem worker_table_is_source :
    segWait = runSeg "worker.wait" ∧ segWoken = runSeg "worker.woken" ∧ segPreRead = runSeg "worker.pre_read" ∧
    segReadKick = runSeg "worker.read_kick" ∧ segDispatch = runSeg "worker.dispatch" := by
  unfold runSeg
  rw [← worker_segments_match_source]
  decide +kernel

/-- **worker_steps_are_segments** (C12, worker side): for every state and every configuration, the worker's step is the
interpretation of the generated segment its program counter stands for — `wait`: `epoll.wait` (blocked: the state
unchanged) up to `worker.woken`; `woken`: the exit test and the `ready()` test up to `worker.pre_read` or round to
`worker.wait`; `checked`: `read_kick` (the disabled / `EAGAIN` / consumed cases) up to `worker.read_kick` and on through
`if !enabled` to `worker.dispatch` / `worker.wait`, or the thread ends; `toDispatch`: `backend.handle_event` and round to
`worker.wait` — with the repairs `cfg` switches off reverted (`edit`) -/
theorem worker_steps_are_segments (s : St) :
    wStep s =
      match s.wpc with
      | .dead => none
      | .wait => finishW s (evsW (edit s.cfg (runSeg "worker.wait")) (startW s))
      | .woken => finishW s (evsW (edit s.cfg (runSeg "worker.woken")) (startW s))
      | .checked =>
        let s1 := evsW (edit s.cfg (runSeg "worker.pre_read")) (startW s)
        (match s1.flow with
         | .held n =>
           if n = "worker.read_kick" then finishW s (evsW (edit s.cfg (runSeg "worker.read_kick")) { s1 with flow := .run })
           else none
         | _ => finishW s s1)
      | .toDispatch => finishW s (evsW (edit s.cfg (runSeg "worker.dispatch")) (startW s)) := by
  obtain ⟨h1, h2, h3, h4, h5⟩ := worker_table_is_source
  rw [wStep_is_segments, ← h1, ← h2, ← h3, ← h4, ← h5]
  rfl

/-- the hold point the model merges: the segment from `worker.read_kick` moves the program counter according to the local
`enabled` and reads nothing shared -/
theorem worker_read_kick_local (s : WS) (h : s.flow = .run) :
    (evsW (runSeg "worker.read_kick") s).st =
      if s.enabledLoc then { s.st with wpc := .toDispatch, rdStale := false } else { s.st with wpc := .wait } := by
  rw [← worker_table_is_source.2.2.2.1]
  exact segReadKick_local s h

/-- **worker_cfg_edits**: which source edit each flag of `Cfg` stands for, as a rewrite of the generated segments —
`fixLost = false`: commit b54e7e9 reverted (`revLost`: `read_kick` without `if !self.enabled { return Ok(false) }`);
`fixEagain = false`: commit e4698fd reverted (`revEagain`: `kick.consume()?` instead of the `match` with the `WouldBlock`
arm); `fixStopped = false`: commit 2d45ace reverted (`revStopped`: `handle_event` without the `ready()` test).  The repaired
configuration is the source as it is; the pinned one has exactly the three reverted. -/
theorem worker_cfg_edits (p : String) :
    edit Cfg.repaired (runSeg p) = runSeg p ∧
    edit Cfg.pinned (runSeg p) =
      LSeg.rewriteL revStopped (LSeg.rewriteL revEagain (LSeg.rewriteL revLost (runSeg p))) ∧
    (∀ a b c d, edit ⟨a, b, c, d⟩ (runSeg p) =
      (if c then id else LSeg.rewriteL revStopped)
        ((if b then id else LSeg.rewriteL revEagain) ((if a then id else LSeg.rewriteL revLost) (runSeg p)))) := by
  refine ⟨rfl, rfl, ?_⟩
  intro a b c d
  cases a <;> cases b <;> cases c <;> rfl

/-- what the three reverts do to the generated segments (the other segments are untouched) -/
theorem worker_reverted_segments :
    edit Cfg.pinned (runSeg "worker.woken") = segWokenOf false ∧
    edit Cfg.pinned (runSeg "worker.pre_read") = segPreReadOf false false ∧
    edit Cfg.pinned (runSeg "worker.wait") = runSeg "worker.wait" ∧
    edit Cfg.pinned (runSeg "worker.read_kick") = runSeg "worker.read_kick" ∧
    edit Cfg.pinned (runSeg "worker.dispatch") = runSeg "worker.dispatch" := by
  obtain ⟨h1, h2, h3, h4, h5⟩ := worker_table_is_source
  rw [← h1, ← h2, ← h3, ← h4, ← h5]
  exact ⟨edit_segWoken _, edit_segPreRead _, edit_segWait _, edit_segReadKick _, edit_segDispatch _⟩

/-- **worker_pinned_steps**: the pinned configuration is the interpretation of the generated segments with exactly the
three commits reverted -/
theorem worker_pinned_steps (s : St) (hc : s.cfg = Cfg.pinned) (rev : List LEvent → List LEvent)
    (hrev : rev = fun es => LSeg.rewriteL revStopped (LSeg.rewriteL revEagain (LSeg.rewriteL revLost es))) :
    wStep s =
      match s.wpc with
      | .dead => none
      | .wait => finishW s (evsW (rev (runSeg "worker.wait")) (startW s))
      | .woken => finishW s (evsW (rev (runSeg "worker.woken")) (startW s))
      | .checked =>
        let s1 := evsW (rev (runSeg "worker.pre_read")) (startW s)
        (match s1.flow with
         | .held n =>
           if n = "worker.read_kick" then finishW s (evsW (rev (runSeg "worker.read_kick")) { s1 with flow := .run })
           else none
         | _ => finishW s s1)
      | .toDispatch => finishW s (evsW (rev (runSeg "worker.dispatch")) (startW s)) := by
  subst hrev
  rw [worker_steps_are_segments, hc]
  rfl

end Worker

section Control
open Model.Worker Lemmas.LtsControl Spec.KickDelivery

/-- the generated segment stage `k` of message `m` stands for -/
def ctlSrcSeg (m : CMsg) (k : Nat) (viaInit : Bool) : List LEvent :=
  segOf Gen.LtsSteps.controlSegments (ctlFn m) (ctlPoint m k viaInit)

theorem control_table_is_source (m : CMsg) (k : Nat) (v : Bool) : ctlSeg m k v = ctlSrcSeg m k v := by
  unfold ctlSeg ctlSrcSeg
  rw [control_segments_match_source]

/-- **control_steps_are_segments** (C12, control side): for every state within the model's stage numbering, the control
thread's step is the interpretation of the generated segment of the method that serves the message, from the hold point the
stage stands for (`ctlPoint`) to the next hold point or to the reply: SET_VRING_ENABLE / RESET_DEVICE
`set_enabled · update_vring_registration · reply`, GET_VRING_BASE `set_queue_ready(false) · update_vring_registration ·
set_kick(None); set_call(None) · reply`, SET_VRING_KICK (fresh descriptor or the no-descriptor flag) `unregister_vring_kick;
set_kick · [set_queue_ready(true)] · update_vring_registration · reply`; `update_vring_registration`,
`unregister_vring_kick`, `initialize_vring` run through their own events.  `cfg.nofdStarts` is the edit `mutNofd`
(the guard `self.vring_needs_init(vring)` replaced by `!vring.get_ref().get_queue().ready()`); the three worker-side flags
do not touch these segments.  `viaInit`: both readings of the stages two hold points share. -/
theorem control_steps_are_segments (s : St) (h : StageInv s) (viaInit : Bool) :
    cStep s =
      match s.cpc with
      | .idle => none
      | .inMsg m k =>
        if k ≤ 3 then finishC (evsC (editC s.cfg (ctlSrcSeg m k viaInit)) (startC s m)) else none := by
  rw [cStep_is_segments s h viaInit]
  unfold interpC
  cases s.cpc with
  | idle => rfl
  | inMsg m k => simp only [control_table_is_source]

/-- the stage numbering holds in every state reachable from the model's initial state -/
theorem control_stage_numbering_reachable (cfg : Cfg) (ls : List Lbl) (s : St) (h : run (init cfg) ls = some s) :
    StageInv s :=
  run_inv ls (init cfg) s (stageInv_init cfg) h

/-- the mutation behind `Props.C12.nofd_kick_marks_ready_counterexample`, as an edit of the generated segment: only the
segment of `set_vring_kick` from `ctl.state` changes, and only in its guard -/
theorem control_nofd_mutation :
    editC Cfg.nofdMutant (ctlSrcSeg .nofd 1 false) = kickStateSeg true ∧
    editC Cfg.repaired (ctlSrcSeg .nofd 1 false) = kickStateSeg false ∧
    editC Cfg.pinned (ctlSrcSeg .nofd 1 false) = kickStateSeg false ∧
    (∀ m k v, k ≤ 3 → ¬ (isKick m = true ∧ (k = 1 ∨ (k = 2 ∧ v = false))) →
      editC Cfg.nofdMutant (ctlSrcSeg m k v) = ctlSrcSeg m k v) := by
  refine ⟨?_, ?_, ?_, ?_⟩
  · rw [← control_table_is_source]; exact editB_ctlSeg true .nofd 1 false (by omega)
  · rw [← control_table_is_source]; exact editB_ctlSeg false .nofd 1 false (by omega)
  · rw [← control_table_is_source]; exact editB_ctlSeg false .nofd 1 false (by omega)
  · intro m k v hk hn
    rw [← control_table_is_source]
    have := editB_ctlSeg true m k v hk
    unfold editC
    rw [show Cfg.nofdMutant.nofdStarts = true from rfl, this]
    unfold ctlSegOf
    have : (isKick m && (k == 1 || (k == 2 && !v))) = false := by
      cases hm : isKick m <;> cases v <;> simp_all <;> omega
    rw [this]; rfl

end Control

section Shutdown
open Model.Shutdown Lemmas.LtsShutdown

/-- the generated segment of the daemon thread's closure from point `p` -/
def daemonSrcSeg (p : String) : List LEvent := segOf Gen.LtsSteps.shutdownSegments "daemon_thread" p

theorem daemon_table_is_source (p : String) : daemonSeg p = daemonSrcSeg p := by
  unfold daemonSeg daemonSrcSeg
  rw [shutdown_segments_match_source]

/-- the generated segment from `daemon.before_handle_request`: the call of `handle_request`, then `daemonAfterCall` -/
theorem daemon_iteration_source :
    daemonSrcSeg "daemon.before_handle_request" =
      .loopFrom "" "result" (.handleRequest "HandleRequest" :: daemonAfterCall) daemonLoopTop :: daemonExit := by
  rw [← daemon_table_is_source]; exact daemonSeg_before

/-- **daemon loop iteration, entry** (`dEnter`): from `daemon.before_handle_request` into `handle_request` -/
theorem daemon_enter_is_segment (s : St) (h : s.d = .pre) :
    step s .dEnter =
      (let r := evsS (daemonSrcSeg "daemon.before_handle_request") (startS s)
       match r.flow with
       | .held _ | .inCall => some r.st
       | .ret => some { r.st with d := .exited (r.result.getD default) }
       | _ => none) := by
  rw [dEnter_is_segment s h, ← daemon_table_is_source]; rfl

/-- **daemon loop iteration, return** : the rest of that segment read with the result of `handle_request` — `Ok` goes to
`daemon.after_handle_request_ok`, `Err(e)` leaves the loop with `Err(e)` for `daemon.before_final_shutdown` -/
theorem daemon_return_is_segment (r : Option Err) (s : St) :
    returned r s = some { s with d := match r with
                                      | none => .post
                                      | some e => .fin e } :=
  returned_is r s

/-- every step the model takes inside `handle_request` stays inside or returns as `daemon_return_is_segment` says -/
theorem daemon_inner_steps (s s' : St) (l : Lbl) (hin : DPc.inCall s.d = true) (hl : l.isDaemon = true)
    (h : step s l = some s') : DPc.inCall s'.d = true ∨ ∃ r, returned r s' = some s' :=
  inner_steps s s' l hin hl h

/-- **daemon loop iteration, round** (`dLoop`) -/
theorem daemon_loop_is_segment (s : St) (h : s.d = .post) :
    step s .dLoop =
      (let r := evsS (daemonSrcSeg "daemon.after_handle_request_ok") (startS s)
       match r.flow with
       | .held _ | .inCall => some r.st
       | .ret => some { r.st with d := .exited (r.result.getD default) }
       | _ => none) := by
  rw [dLoop_is_segment s h, ← daemon_table_is_source]; rfl

/-- **exit path** (`dFinal`): `conn.shutdown(Both)` whatever the loop's value, then the thread returns it -/
theorem daemon_exit_is_segment (s : St) (e : Err) (h : s.d = .fin e) :
    step s .dFinal =
      (let r := evsS (daemonSrcSeg "daemon.before_final_shutdown") (startS s)
       match r.flow with
       | .held _ | .inCall => some r.st
       | .ret => some { r.st with d := .exited (r.result.getD default) }
       | _ => none) := by
  rw [dFinal_is_segment s e h, ← daemon_table_is_source]; rfl

/-- **the two steps of `shutdown()`**: the flag store up to the hold point, then the socket shutdown and the return -/
theorem shutdown_steps_are_segments (s : St) (i : Nat) :
    (s.callers i = .idle →
      step s (.cStore i) =
        (let r := evsS (segOf Gen.LtsSteps.shutdownSegments "shutdown" "entry") { startS s with who := i }
         match r.flow with
         | .held _ => some r.st
         | .ret => some { r.st with callers := upd r.st.callers i .idle, completed := r.st.completed + 1 }
         | _ => none)) ∧
    (s.callers i = .stored →
      step s (.cShut i) =
        (let r := evsS (segOf Gen.LtsSteps.shutdownSegments "shutdown" "shutdown.between_flag_and_socket")
                    { startS s with who := i }
         match r.flow with
         | .held _ => some r.st
         | .ret => some { r.st with callers := upd r.st.callers i .idle, completed := r.st.completed + 1 }
         | _ => none)) := by
  rw [← shutdown_segments_match_source]
  exact ⟨fun h => cStore_is_segment s i h, fun h => cShut_is_segment s i h⟩

/-- the generated body of `wait()` is the part up to `join` followed by the classification -/
theorem wait_source_split :
    segOf Gen.LtsSteps.shutdownSegments "wait" "entry" = waitJoin ++ waitClassify := by
  rw [← shutdown_segments_match_source]; exact wait_segment

/-- **`wait()`**: `wJoin` is the segment up to and including `join` (blocked while the thread runs), `wClassify` the rest,
`wNoThread` the `let … else` arm; `wJoin` then `wClassify` is the whole generated body -/
theorem wait_steps_are_segments (s : St) :
    (s.hasThread = true ∧ s.w = .idle ∧ s.dropped = false → step s .wJoin = interpWaitJoin s) ∧
    (∀ e, s.w = .joined e → s.hasConn = true → step s .wClassify = finishWait (evsS waitClassify (startS s))) ∧
    (s.hasThread = false ∧ s.w = .idle ∧ s.dropped = false →
      step s .wNoThread = finishWait (evsS (segOf Gen.LtsSteps.shutdownSegments "wait" "entry") (startS s))) ∧
    (∀ e, s.hasThread = true ∧ s.w = .idle ∧ s.dropped = false → s.d = .exited e → s.hasConn = true →
      run s [.wJoin, .wClassify] = finishWait (evsS (segOf Gen.LtsSteps.shutdownSegments "wait" "entry") (startS s))) := by
  rw [wait_source_split]
  exact ⟨wJoin_is_segment s, fun e h hc => wClassify_is_segment s e h hc, wNoThread_is_segment s,
    fun e h hd hc => wait_is_segment s e h hd hc⟩

/-- **every arm of `wait()`**: for a thread result `Err(HandleRequest(e))` the interpretation of the generated arms records
`Ok` for `SocketBroken`, `Ok` for any other error iff the shutdown flag is set, the error otherwise (the `Ok(())` arm is
dead: the loop is only left through an error) -/
theorem wait_arms_are_source (s : St) (e : Err) (h : s.w = .joined e) (hc : s.hasConn = true) :
    (finishWait (evsS ((segOf Gen.LtsSteps.shutdownSegments "wait" "entry").drop 3) (startS s))).map (·.results) =
      some (s.results ++ [if e = .sockBroken then .ok else if s.flag then .ok else .err e]) := by
  rw [wait_source_split]
  exact wait_arms s e h hc

/-- `conn_state` is there whenever there is a thread to join, in every reachable state -/
theorem wait_conn_reachable (reqs : List Req) (ls : List Lbl) (s : St) (h : run (init reqs) ls = some s) : ConnInv s :=
  connInv_run ls (init reqs) s (connInv_init reqs []) h

/-- **`Drop for VhostUserDaemon`** -/
theorem drop_is_segment (s : St) (h : s.dropped = false ∧ s.w = .idle) :
    step s .drop =
      (let r := evsS (segOf Gen.LtsSteps.shutdownSegments "daemon_drop" "entry") (startS s)
       match r.flow with
       | .ret => some { r.st with dropped := true }
       | _ => none) := by
  rw [← shutdown_segments_match_source]
  exact Lemmas.LtsShutdown.drop_is_segment s h

end Shutdown

section Teardown
open Model.Shutdown Model.Shutdown.TD Lemmas.LtsTeardown

/-- the generated body of `serve()` ends with `serveTail`; that of `Drop for VhostUserHandler` is `send_exit_event` then
the joins -/
theorem teardown_source_split :
    segOf Gen.LtsSteps.shutdownSegments "serve" "entry" = serveHead ++ serveTail ∧
    segOf Gen.LtsSteps.shutdownSegments "handler_drop" "entry" = [sendExitEvent "self"] ++ [joinWorkers, .done] := by
  rw [← shutdown_segments_match_source]
  exact ⟨serve_segment, handler_drop_segment⟩

/-- **the tail of `serve()`**: once `wait()` has returned `w` — whatever `w` — the model's `c.n + 1` steps `svSignal` are
`send_exit_event` for every worker followed by the mapping of the result (`classifyServe`) -/
theorem serve_tail_is_segment (c : TD.Cfg) (t : TD.St) (w : WRes) (h : t.sv = .signalling 0 w) :
    TD.run c t (List.replicate (c.n + 1) .svSignal) =
      some (finishServe (evsT c ((segOf Gen.LtsSteps.shutdownSegments "serve" "entry").drop serveHead.length) (startT t w))) := by
  rw [teardown_source_split.1, List.drop_left]
  exact serveTail_is_segment c t w h

/-- **`Drop for VhostUserHandler`**: `hBegin` and the steps `hSignal` are `self.send_exit_event()`; with every worker gone the
steps `hJoin` are the joins and the return; a worker still running blocks both -/
theorem handler_drop_is_segments (c : TD.Cfg) (t : TD.St) :
    (t.h = .alive → (t.sv = .off ∨ ∃ w r, t.sv = .done w r) →
      TD.run c t (.hBegin :: List.replicate (c.n + 1) .hSignal) =
        some { (evsT c ((segOf Gen.LtsSteps.shutdownSegments "handler_drop" "entry").take 1) (startT t .ok)).t with
               h := .joining 0 }) ∧
    (t.h = .joining 0 → (∀ i, i < c.n → t.gone i = true) →
      TD.run c t (List.replicate (c.n + 1) .hJoin) =
        some { (evsT c ((segOf Gen.LtsSteps.shutdownSegments "handler_drop" "entry").drop 1) (startT t .ok)).t with
               h := .dropped }) ∧
    (t.h = .joining 0 → 0 < c.n → t.gone 0 = false →
      TD.step c t .hJoin = none ∧ (evsT c [.threadJoin "thread" ""] { startT t .ok with cur := 0 }).flow = .blocked) := by
  rw [teardown_source_split.2]
  exact ⟨fun h hsv => handlerDrop_signal_is_segment c t h hsv,
    fun h hg => (handlerDrop_join_is_segment c t h hg).1,
    fun h hn hg => handlerDrop_join_blocks c t h hn hg⟩

/-- **`wkExit`, partial**: see `Lemmas.LtsWorker.wkExit_partial` -/
theorem worker_exit_partial (st : Model.Worker.St) :
    (Lemmas.LtsWorker.evsW (Lemmas.LtsWorker.edit st.cfg (runSeg "worker.woken"))
      { Lemmas.LtsWorker.startW st with exitEvt := true }).flow = .ret false ∧
    (Lemmas.LtsWorker.evsW (Lemmas.LtsWorker.edit st.cfg (runSeg "worker.woken"))
      { Lemmas.LtsWorker.startW st with exitEvt := true }).st = st := by
  rw [← worker_table_is_source.2.1]
  exact Lemmas.LtsWorker.wkExit_partial st

end Teardown

/-! ## 3. non-vacuity -/

section Examples
open Model.Worker Lemmas.LtsWorker Spec.KickDelivery

/-- a kick on the registered descriptor, then the four worker steps through the generated segments: consumed, dispatched,
back at `worker.wait` -/
example :
    ((run (init Cfg.repaired) [.kick 0, .w, .w, .w, .w]).map fun s => (s.trace, decide (s.wpc = .wait))) =
      some ([.kick 0, .consumed true, .dispatch], true) := by decide

/-- repaired code, ring disabled between `worker.woken` and `worker.pre_read`: the segment from `worker.pre_read` takes the
early return and leaves the counter alone; with commit b54e7e9 reverted the same segment consumes the kick -/
example :
    let s := { init Cfg.repaired with enabled := false, wpc := .checked, cnt := fun _ => 1 }
    let p := { init Cfg.pinned with enabled := false, wpc := .checked, cnt := fun _ => 1 }
    ((wStep s).map fun s => (s.cnt 0, s.trace), (wStep p).map fun s => (s.cnt 0, s.trace)) =
      (some (1, []), some (0, [.consumed false])) := by decide

/-- a stale event (counter zero): the repaired segment returns to `worker.wait`, with commit e4698fd reverted the error
leaves `run` and the thread ends -/
example :
    let s := { init Cfg.repaired with wpc := .checked }
    let p := { init Cfg.pinned with wpc := .checked }
    ((wStep s).map fun s => (decide (s.wpc = .wait), s.trace), (wStep p).map fun s => (decide (s.wpc = .dead), s.trace)) =
      (some (true, []), some (true, [.workerExit])) := by decide

end Examples

end Props.LtsSteps
