import VhostModel.Lemmas.Stream
import VhostModel.Model.BackendSrv
/-!
# C09 — every descriptor received is handed over exactly once or closed; none leak

Descriptors are linear tokens riding on stream cells.  Proved for every chooser (segmentation / timing), every
stream and every request size, by counting occurrences of an arbitrary token `f`:
* `recvAll_fds_linear` — after `recv_into_iovec_all` each token that rode on the stream is in exactly one of:
  handed to the caller, closed by the library (dropped `File`s of later reads, `MSG_CTRUNC` teardown), still unread;
* `recvData_fds_linear` — same for `recv_data` (no control buffer: arriving descriptors are discarded by the kernel);
* `recvAll_fds_nil_of_not_first` — descriptors of later reads are never handed out; `recvAll_fds_le_cap`.
The token flow inside the dispatch arms (`files` → handler by value / closed) is modelled (`Out.closed`, `Call.fds`)
and exercised by the correspondence, where the real process is inspected: after every scenario (valid, invalid,
truncated, over-stuffed histories; teardown after every message and error path) no open descriptor of the process may
refer to an object that travelled over the socket (`L=`), descriptors lent to the frontend API must still be open
after the call (`lc=`).  Not counted (DESIGN.md): the exit-event consumer `VringEpollHandler::new` turns into a raw
descriptor and never closes — it never travelled over a vhost-user socket.
-/
namespace Props.C09
open Base Model.Stream Lemmas.Stream

def fdsOf (s : List Cell) : List Fd := s.flatMap (·.fds)

theorem fdsOf_split (s : List Cell) (k : Nat) (f : Fd) :
    (fdsOf s).count f = (fdsOf (s.take k)).count f + (fdsOf (s.drop k)).count f := by
  unfold fdsOf
  conv => lhs; rw [← List.take_append_drop k s]
  rw [List.flatMap_append, List.count_append]

/-- descriptors of later reads are never handed to the caller (`if data_read == 0 { rfds = fds }`) -/
theorem recvAll_fds_nil_of_not_first {σ : Type} (ch : Chooser σ) (cap : Nat) (cl : Bool) :
    ∀ (want : Nat) (st : σ) (s : List Cell) (first : Bool), first = false → (recvAll ch cap cl want st s first).fds = [] := by
  intro want st s first
  fun_induction recvAll ch cap cl want st s first with
  | case1 first st s => intro _; rfl
  | case2 first n st => intro _; rfl
  | case3 want st c s first k0 st' hnext k chunk rest cf hgt r ih => intro h; exact ih h
  | case4 want st c s first k0 st' hnext k chunk rest cf hle r ih => intro h; subst h; exact ih rfl

/-- **descriptor linearity of the receive loop**: every descriptor that rode on the stream is, after the loop, in exactly
one place — handed to the caller, closed by the library, or still in the unread rest — for every chooser -/
theorem recvAll_fds_linear {σ : Type} (ch : Chooser σ) (cap : Nat) (cl : Bool) (f : Fd) :
    ∀ (want : Nat) (st : σ) (s : List Cell) (first : Bool),
      (fdsOf s).count f = (recvAll ch cap cl want st s first).fds.count f + (recvAll ch cap cl want st s first).closed.count f +
        (fdsOf (recvAll ch cap cl want st s first).rest).count f := by
  intro want st s first
  fun_induction recvAll ch cap cl want st s first with
  | case1 first st s => simp [fdsOf]
  | case2 first n st => simp [fdsOf]
  | case3 want st c s first k0 st' hnext k chunk rest cf hgt r ih =>
    have := fdsOf_split (c :: s) k f
    simp only [List.count_append]
    simp only [fdsOf, chunk, rest, cf, r] at this ih ⊢
    omega
  | case4 want st c s first k0 st' hnext k chunk rest cf hle r ih =>
    have := fdsOf_split (c :: s) k f
    simp only [fdsOf, chunk, rest, cf, r] at this ih ⊢
    have hr := recvAll_fds_nil_of_not_first ch cap cl (want + 1 - k) st' (List.drop k (c :: s)) false rfl
    cases first <;> simp only [List.count_append, if_true, if_false, Bool.false_eq_true, List.count_nil, hr] at ih ⊢ <;> omega

theorem recvData_fds_linear {σ : Type} (ch : Chooser σ) (cl : Bool) (f : Fd) :
    ∀ (want : Nat) (st : σ) (s : List Cell),
      (fdsOf s).count f = (recvData ch cl want st s).lost.count f + (fdsOf (recvData ch cl want st s).rest).count f := by
  intro want st s
  fun_induction recvData ch cl want st s with
  | case1 st s => simp [fdsOf]
  | case2 n st => simp [fdsOf]
  | case3 want st c s k0 st' hnext k chunk rest cf hne =>
    have := fdsOf_split (c :: s) k f
    simp only [fdsOf, chunk, rest, cf] at this ⊢
    omega
  | case4 want st c s k0 st' hnext k chunk rest cf he r ih =>
    have := fdsOf_split (c :: s) k f
    have hcf : cf = [] := by simpa using he
    simp only [fdsOf, chunk, rest, cf, r] at this ih hcf ⊢
    rw [hcf] at this
    simp only [List.count_nil] at this
    omega

/-- the caller never gets more descriptors than the receive limit -/
theorem recvAll_fds_le_cap {σ : Type} (ch : Chooser σ) (cap : Nat) (cl : Bool) :
    ∀ (want : Nat) (st : σ) (s : List Cell) (first : Bool), (recvAll ch cap cl want st s first).fds.length ≤ cap := by
  intro want st s first
  fun_induction recvAll ch cap cl want st s first with
  | case1 first st s => simp
  | case2 first n st => simp
  | case3 want st c s first k0 st' hnext k chunk rest cf hgt r ih => exact ih
  | case4 want st c s first k0 st' hnext k chunk rest cf hle r ih =>
    cases first
    · exact ih
    · simp only [if_true]; omega

/-! ### non-vacuity -/
example : fdsOf (segCells [1, 2, 3] [7, 8]) = [7, 8] := by decide

end Props.C09
