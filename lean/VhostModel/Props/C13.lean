import VhostModel.Lemmas.MemTable

/-!
# C13 — guest memory table and address translation always reflect the accepted updates

`Model.MemTable` transcribes `set_mem_table` / `add_mem_region` / `remove_mem_region` / `vmm_va_to_gpa` of
`vhost-user-backend/src/handler.rs` over the vm-memory 0.17.1 collection rules; `Spec.MemTable` is the property
statement.  All theorems are for **all** histories of the three requests, all region geometries and all verdicts of the
operating system on the `mmap` calls (`Req.mapOk`).

* `table_is_fold_of_successes`   after any history from a fresh daemon, the memory object and the translation table
                                 both hold exactly (as multisets) the regions of `Spec.foldSuccesses` of the history
                                 with the handler's own outcomes
* `failed_update_changes_nothing` a request answered with an error leaves regions, mappings and notification log as they
                                 were (the whole state is equal)
* `one_notification_per_success` each success appends exactly one `update_memory` call showing the new table, a failure
                                 none; over a history the count is `Spec.notifications`
* `bytes_visible`                under the representation invariant: the byte behind guest address `g` of region `r` is
                                 cell `r.off + (g - r.gpa)` of `r`'s file, in both directions (a write to that file cell
                                 is what a read through the table returns; a write through the table changes exactly
                                 that cell), and an address in no region is refused
* `mappings_mirror_regions`      invariant over all histories: the translation table and the memory object have the same
                                 `(guest address, size)` entries with the same multiplicity.  This holds although
                                 `REM_MEM_REG` prunes the translation table *by guest address only*: the collection keeps
                                 start addresses pairwise different, so the two keys select the same entry.
* `translate_correct`            `vmm_va_to_gpa` answers for the first mapping that contains `va`, which satisfies
                                 `Spec.translateOk` for the current table; no mapping contains `va` ⇒ rejected
* `translate_no_overflow`        under the invariant that every translation entry satisfies the message validity rule
                                 `Spec.validRegion`, no `u64` addition of `vmm_va_to_gpa` overflows and the result fits
                                 64 bits; `mappings_valid` shows that the invariant holds after any history of validated
                                 requests.

Assumed / out of scope: a failing backend `update_memory` callback (modelled as infallible, DESIGN.md section 7 "Limits");
the library rules listed in the header of `Model/MemTable.lean` (exercised by correspondence family `mem`).
Recorded (not alarmed): a `SET_MEM_TABLE` whose regions are not in ascending guest-address order is *refused* by
`GuestMemoryMmap::from_regions` — it is a failed update and, as the property demands, changes nothing.
-/

namespace Props.C13
open Model.MemTable Lemmas.MemTable
open Spec.MemTable (Req Op)

/-- **the table is the fold of the successful operations**, for every history -/
theorem table_is_fold_of_successes (ops : List Op) :
    let r := run St.init ops
    let T := Spec.MemTable.foldSuccesses [] (ops.zip r.2)
    r.1.regions.Perm (T.map toMem) ∧ r.1.mappings.Perm (T.map toMap) ∧ r.2.length = ops.length := by
  intro r T
  have h := rel_run rel_init ops
  exact ⟨h.regions, h.mappings, run_length _ _⟩
example :
    let ops := [Op.setTable [⟨0x1000, 0x1000, 0x7000, 0, 0, true⟩, ⟨0x3000, 0x1000, 0x9000, 0, 1, true⟩],
                Op.add ⟨0x2000, 0x1000, 0x8000, 0x1000, 2, true⟩, Op.add ⟨0x2800, 0x1000, 0xa000, 0, 3, true⟩,
                Op.remove 0x1000 0x2000, Op.remove 0x1000 0x1000]
    (run St.init ops).2 = [true, true, false, false, true] ∧
    (run St.init ops).1.regions = [⟨0x2000, 0x1000, 2, 0x1000⟩, ⟨0x3000, 0x1000, 1, 0⟩] := by decide

/-- the same statement from any state that represents a table `T` -/
theorem table_is_fold_of_successes_from (s : St) (T : List Spec.MemTable.Region) (h : Rel s T) (ops : List Op) :
    Rel (run s ops).1 (Spec.MemTable.foldSuccesses T (ops.zip (run s ops).2)) := rel_run h ops

/-- **a failed update leaves the previous table fully intact** (the entire state is unchanged) -/
theorem failed_update_changes_nothing (s : St) (op : Op) (h : (step s op).2 = false) : (step s op).1 = s := by
  cases op with
  | setTable rs =>
    simp only [step, setMemTable] at h ⊢
    split
    · rfl
    · rename_i regs maps hb
      split
      · rfl
      · rename_i mem hf; simp [hb, hf] at h
  | add r =>
    simp only [step, addMemRegion] at h ⊢
    split
    · rfl
    · rename_i g hm
      split
      · rfl
      · rename_i mem hi; simp [hm, hi] at h
  | remove g sz =>
    simp only [step, removeMemRegion] at h ⊢
    split
    · rfl
    · rename_i mem hr; simp [hr] at h
example : (step ⟨[⟨0x1000, 0x1000, 0, 0⟩], [⟨0x7000, 0x1000, 0x1000⟩], []⟩
    (.add ⟨0x1800, 0x1000, 0x9000, 0, 1, true⟩)).2 = false := by decide

/-- **one notification per successful change**: a success appends exactly one `update_memory` call, and it shows the
table that is current afterwards; a failure appends none -/
theorem one_notification_per_success (s : St) (op : Op) :
    (step s op).1.notified = if (step s op).2 then s.notified ++ [(step s op).1.regions] else s.notified := by
  cases hok : (step s op).2 with
  | false => rw [failed_update_changes_nothing s op hok]; simp
  | true =>
    cases op with
    | setTable rs =>
      simp only [step, setMemTable] at hok ⊢
      split
      · rename_i hb; simp [hb] at hok
      · rename_i regs maps hb
        split
        · rename_i hf; simp [hb, hf] at hok
        · simp
    | add r =>
      simp only [step, addMemRegion] at hok ⊢
      split
      · rename_i hm; simp [hm] at hok
      · rename_i g hm
        split
        · rename_i hi; simp [hm, hi] at hok
        · simp
    | remove g sz =>
      simp only [step, removeMemRegion] at hok ⊢
      split
      · rename_i hr; simp [hr] at hok
      · simp

/-- over a history: as many notifications as successful changes -/
theorem notification_count (s : St) (ops : List Op) :
    (run s ops).1.notified.length = s.notified.length + Spec.MemTable.notifications (ops.zip (run s ops).2) := by
  induction ops generalizing s with
  | nil => simp [run, Spec.MemTable.notifications]
  | cons op ops ih =>
    simp only [run, List.zip_cons_cons]
    rw [ih, one_notification_per_success s op]
    cases hok : (step s op).2 <;> simp [Spec.MemTable.notifications] <;> omega
example : (run St.init [Op.add ⟨0, 0x1000, 0, 0, 0, true⟩, Op.add ⟨0, 0x1000, 0, 0, 0, true⟩,
    Op.remove 0 0x1000]).1.notified.length = 2 := by decide

/-- **each byte is backed by the passed file at `mmap_offset` plus its offset, in both directions.**
`s` represents the table `T` (which is the case after every history, `table_is_fold_of_successes_from`).
(1) the file cell behind guest address `g` of region `r` is `(r.fid, r.off + (g - r.gpa))`;
(2) front-end → back-end: after the cell was written (through the file), a read through the table at `g` returns it;
(3) back-end → front-end: a write through the table at `g` changes exactly that cell of that file;
(4) an address that no region contains is refused, for reads and writes. -/
theorem bytes_visible (s : St) (T : List Spec.MemTable.Region) (h : Rel s T) (fs : Files) (g : Nat) (v : UInt8) :
    (∀ f o, Spec.MemTable.backedBy T g f o →
        locate s.regions g = some (f, o) ∧
        readByte s.regions (fs.set f o v) g = some v ∧
        ∃ fs', writeByte s.regions fs g v = some fs' ∧ fs' f o = v ∧
          ∀ f' o', ¬ (f' = f ∧ o' = o) → fs' f' o' = fs f' o') ∧
    (Spec.MemTable.unbacked T g → readByte s.regions fs g = none ∧ writeByte s.regions fs g v = none) := by
  constructor
  · rintro f o ⟨r, hr, hc, rfl, rfl⟩
    have hm : toMem r ∈ s.regions := (h.regions.mem_iff).mpr (List.mem_map_of_mem hr)
    have hcon : (toMem r).contains g = true := by
      rw [contains_iff]; exact hc
    have hf := find_unique h.sorted hm hcon
    have hl : locate s.regions g = some (r.fid, r.off + (g - r.gpa)) := by
      simp [locate, hf, toMem]
    refine ⟨hl, ?_, ?_⟩
    · simp [readByte, hl, Files.set]
    · refine ⟨fs.set r.fid (r.off + (g - r.gpa)) v, by simp [writeByte, hl], by simp [Files.set], ?_⟩
      intro f' o' hne
      simp [Files.set, hne]
  · intro hu
    have : findRegion s.regions g = none := by
      apply find_none
      intro x hx
      have hx' : x ∈ T.map toMem := (h.regions.mem_iff).mp hx
      obtain ⟨r, hr, rfl⟩ := List.mem_map.mp hx'
      have := hu r hr
      cases hc : (toMem r).contains g with
      | false => rfl
      | true => rw [contains_iff] at hc; exact absurd hc this
    simp [readByte, writeByte, locate, this]
example : locate [⟨0x1000, 0x1000, 0, 0x3000⟩, ⟨0x2000, 0x2000, 1, 0⟩] 0x1fff = some (0, 0x3fff) ∧
    locate [⟨0x1000, 0x1000, 0, 0x3000⟩, ⟨0x2000, 0x2000, 1, 0⟩] 0x2000 = some (1, 0) ∧
    locate [⟨0x1000, 0x1000, 0, 0x3000⟩, ⟨0x2000, 0x2000, 1, 0⟩] 0x4000 = none := by decide

/-- **the translation table mirrors the memory object** after every history: same `(guest address, size)` entries, same
multiplicity — even though `REM_MEM_REG` prunes the translation table by guest address alone -/
theorem mappings_mirror_regions (ops : List Op) :
    let s := (run St.init ops).1
    (s.mappings.map fun m => (m.gpaBase, m.size)).Perm (s.regions.map fun r => (r.gpa, r.size)) := by
  intro s
  have h := rel_run rel_init ops
  have h1 := h.mappings.map (fun m => (m.gpaBase, m.size))
  have h2 := h.regions.map (fun r => (r.gpa, r.size))
  simp only [List.map_map] at h1 h2
  exact h1.trans h2.symm
example : (run St.init [Op.add ⟨0x2000, 0x1000, 0x9000, 0, 0, true⟩, Op.add ⟨0x1000, 0x1000, 0x5000, 0, 1, true⟩,
      Op.remove 0x2000 0x1000]).1 =
    ⟨[⟨0x1000, 0x1000, 1, 0⟩], [⟨0x5000, 0x1000, 0x1000⟩], [[⟨0x2000, 0x1000, 0, 0⟩],
      [⟨0x1000, 0x1000, 1, 0⟩, ⟨0x2000, 0x1000, 0, 0⟩], [⟨0x1000, 0x1000, 1, 0⟩]]⟩ := by decide

/-- the invariant, preserved by every request from every state that satisfies it (in particular a removal whose size does
not match removes nothing from either side) -/
theorem mappings_mirror_regions_step (s : St) (T : List Spec.MemTable.Region) (h : Rel s T) (op : Op) :
    ∃ T', Rel (step s op).1 T' := ⟨_, rel_step h op⟩

/-- **translation**: `vmm_va_to_gpa` answers with the first mapping that contains `va`
(`gpa_base + (va - vmm_addr)`), and this is an answer the property admits for the current table; it reports an error
exactly when no current region's user range contains `va` -/
theorem translate_correct (s : St) (T : List Spec.MemTable.Region) (h : Rel s T) (va : Nat) :
    Spec.MemTable.translateOk T va (translate s.mappings va) ∧
    (∀ pre m post, s.mappings = pre ++ m :: post → (∀ x ∈ pre, ¬ AddrMapping.containsVa x va) →
        AddrMapping.containsVa m va → translate s.mappings va = some (m.gpaBase + (va - m.vmmAddr))) ∧
    (translate s.mappings va = none ↔ ∀ r ∈ T, ¬ r.containsVa va) := by
  have hmem : ∀ m, m ∈ s.mappings ↔ ∃ r ∈ T, toMap r = m := by
    intro m
    rw [h.mappings.mem_iff, List.mem_map]
  have hnone : translate s.mappings va = none → ∀ r ∈ T, ¬ r.containsVa va := by
    intro hn r hr
    have := translate_none hn (toMap r) ((hmem _).mpr ⟨r, hr, rfl⟩)
    exact this
  refine ⟨?_, ?_, ?_⟩
  · cases ht : translate s.mappings va with
    | none => exact hnone ht
    | some g =>
      obtain ⟨pre, m, post, e, _, hm, hg⟩ := translate_some ht
      have : m ∈ s.mappings := by rw [e]; simp
      obtain ⟨r, hr, rfl⟩ := (hmem m).mp this
      exact ⟨r, hr, hm, hg⟩
  · intro pre m post e hp hm
    rw [e]; exact translate_first hp hm
  · constructor
    · exact hnone
    · intro hall
      cases ht : translate s.mappings va with
      | none => rfl
      | some g =>
        obtain ⟨pre, m, post, e, _, hm, _⟩ := translate_some ht
        have : m ∈ s.mappings := by rw [e]; simp
        obtain ⟨r, hr, rfl⟩ := (hmem m).mp this
        exact absurd hm (hall r hr)
example : translate [⟨0x7000, 0x1000, 0x1000⟩, ⟨0x9000, 0x2000, 0x4000⟩] 0x7fff = some 0x1fff ∧
    translate [⟨0x7000, 0x1000, 0x1000⟩, ⟨0x9000, 0x2000, 0x4000⟩] 0x8000 = none ∧
    translate [⟨0x7000, 0x1000, 0x1000⟩, ⟨0x9000, 0x2000, 0x4000⟩] 0xafff = some 0x5fff := by decide

/-- every request of a history passed the message validator (`Spec.validRegion`, C20) -/
def OpValid : Op → Prop
  | .setTable rs => ∀ r ∈ rs, Spec.validRegion r.gpa r.size r.uaddr r.off
  | .add r => Spec.validRegion r.gpa r.size r.uaddr r.off
  | .remove _ _ => True

/-- the invariant of `translate_no_overflow` holds after any history of validated requests -/
theorem mappings_valid (s : St) (hs : ∀ m ∈ s.mappings, MappingValid m) (ops : List Op) (hv : ∀ op ∈ ops, OpValid op) :
    ∀ m ∈ (run s ops).1.mappings, MappingValid m := by
  induction ops generalizing s with
  | nil => simpa [run] using hs
  | cons op ops ih =>
    simp only [run]
    apply ih
    · cases hok : (step s op).2 with
      | false => rw [failed_update_changes_nothing s op hok]; exact hs
      | true =>
        have hvo := hv op (by simp)
        cases op with
        | setTable rs =>
          simp only [step, setMemTable] at hok ⊢
          split
          · exact hs
          · rename_i regs maps hb
            split
            · exact hs
            · obtain ⟨_, e2, _⟩ := buildAll_some hb
              intro m hm
              simp only [e2, List.mem_map] at hm
              obtain ⟨r, hr, rfl⟩ := hm
              exact ⟨r.off, hvo r hr⟩
        | add r =>
          simp only [step, addMemRegion] at hok ⊢
          split
          · exact hs
          · split
            · exact hs
            · intro m hm
              simp only [List.mem_append, List.mem_singleton] at hm
              rcases hm with hm | rfl
              · exact hs m hm
              · exact ⟨r.off, hvo⟩
        | remove g sz =>
          simp only [step, removeMemRegion] at hok ⊢
          split
          · exact hs
          · intro m hm
            exact hs m (List.mem_filter.mp hm).1
    · intro o ho; exact hv o (List.mem_cons_of_mem _ ho)

/-- **no overflow in `vmm_va_to_gpa`**: when every translation entry satisfies the region validity rule, neither
`vmm_addr + size` (evaluated for every entry that is looked at) nor `va - vmm_addr + gpa_base` exceeds `u64::MAX`; the
machine computation equals the mathematical one and the result is a 64-bit address -/
theorem translate_no_overflow (ms : List AddrMapping) (hv : ∀ m ∈ ms, MappingValid m) (va : Nat) :
    translateChecked ms va ≠ .overflow ∧
    translateChecked ms va = (match translate ms va with | some g => .ok g | none => .missing) ∧
    ∀ g, translate ms va = some g → g < 2^64 := by
  obtain ⟨h1, h2⟩ := translateChecked_eq hv va
  refine ⟨?_, h1, h2⟩
  rw [h1]
  cases translate ms va <;> simp
example : MappingValid ⟨0xffff_ffff_ffff_e000, 0x1000, 0xffff_ffff_ffff_d000⟩ ∧
    translateChecked [⟨0xffff_ffff_ffff_e000, 0x1000, 0xffff_ffff_ffff_d000⟩] 0xffff_ffff_ffff_efff
      = .ok 0xffff_ffff_ffff_dfff := by
  constructor
  · exact ⟨0, by decide⟩
  · decide
/-- without the validity rule the addition does overflow (the situation F-C20-single allowed before its repair) -/
example : translateChecked [⟨0xffff_ffff_ffff_f000, 0x1000, 0x1000⟩] 0xffff_ffff_ffff_f000 = .overflow := by decide

end Props.C13
