import VhostModel.Lemmas.BitmapC15

/-!
# C15 — dirty-page logging records every backend write, precisely and atomically

`Model.Bitmap` transcribes `bitmap.rs` (`AtomicBitmapMmap::new`, the `mark_dirty` page loop with its `break` and saturating
add, `BitmapMmapRegion` base / `slice_at` / `checked_add`, `MmapLogReg`'s bounds-asserted indexing, one `fetch_or` = one
atomic step) and the log handling of `handler.rs` as repaired by `fix-c15-log-retain.patch` (the handler keeps the
`Arc<MmapLogReg>`; regions created by later SET_MEM_TABLE / ADD_MEM_REG get a bitmap on it or the request is refused).
`Spec.DirtyLog` is the property statement.  `usize` values are naturals with explicit `≤ usizeMax` hypotheses.

Theorems:
* `accept_iff_log_covers`          SET_LOG_BASE accepted ⇔ the log has the byte of every region's highest page
* `indices_in_bounds`, `markDirty_total`   every index touched is `< logLen`: the `assert!(index < self.len)` never fires
* `mark_exact`                     page-aligned region, any slice chain, any offset/length (0, huge, overflowing):
                                   log' = log OR exactly the bits (bit p%8 of byte p/8) of the touched pages in the region
* `write_exact`                    corollary for a write that lies inside the region: exactly `Spec.pages`
* `concurrent_no_lost_bits`, `interleavings_agree`   k writers, every interleaving of their `fetch_or`s gives the OR of all
* `logging_survives_table_change`  after ANY history of SET_LOG_BASE / SET_MEM_TABLE / ADD_MEM_REG / REM_MEM_REG, if a log
                                   is in force every region of the current table logs into it, exactly (`mark_exact`);
  `logging_stays_in_force`         and a log, once accepted, stays in force
* `logging_lost_counterexample`    the handler of the UNMODIFIED tree (`stepOld`) violates this: a region added after
                                   SET_LOG_BASE has no bitmap, a write to it marks nothing — finding F-C15-retain.

Outside the domain (recorded, not alarmed): regions whose start or size is not a multiple of 4096 (F-C15-unaligned).
-/

namespace Props.C15
open Model.Bitmap Lemmas.Bitmap
open Spec.DirtyLog (Region touched covers LoggedExactly)
open Lemmas.BitmapC15

/-- **every index touched is inside the log mapping** (the `assert!(index < self.len)` of `MmapLogReg::index` can never
fire), for every bitmap that `AtomicBitmapMmap::new` accepted, through any slice, for any offset and length -/
theorem indices_in_bounds (start size logLen : Nat) (bm : AtomicBitmapMmap)
    (hnew : AtomicBitmapMmap.new start size logLen = some bm) (base offset len : Nat) :
    ∀ s ∈ ({ inner := some bm, base := base } : BitmapMmapRegion).markSteps offset len, s.idx < logLen := by
  intro s hs
  obtain ⟨_, hs⟩ := (mem_region_markSteps _ _ _ _ _).1 hs
  obtain ⟨p, _, _, _, hp, rfl⟩ := (mem_markSteps _ _ _ _).1 hs
  obtain ⟨_, _, hc, rfl⟩ := (new_eq_some_iff _ _ _ _).1 hnew
  simp only [stepOf, pageWord, logWordSize] at *
  exact arith_bounds start size logLen p hc hp
/-- consequently `mark_dirty` never panics on a log of the mapped length -/
theorem markDirty_total (start size logLen : Nat) (bm : AtomicBitmapMmap)
    (hnew : AtomicBitmapMmap.new start size logLen = some bm) (log : List UInt8) (hlog : log.length = logLen)
    (base offset len : Nat) :
    (({ inner := some bm, base := base } : BitmapMmapRegion).markDirty log offset len).isSome = true := by
  obtain ⟨log', h, _⟩ := runSteps_spec _ log (by
    intro s hs; rw [hlog]; exact indices_in_bounds start size logLen bm hnew base offset len s hs)
  unfold BitmapMmapRegion.markDirty; rw [h]; rfl
/-- **exactness**: after `mark_dirty(offset, len)` on any slice (`slice_at` chain `sl`) of the bitmap of a page-aligned
region `r` whose bitmap was accepted for a log of `logLen` bytes, the log is the old log OR-ed with exactly the bits of
the pages that the write `[r.gpa + Σsl + offset, +len)` touches inside the region: bit `p % 8` of byte `p / 8`.
Holds for `len = 0`, for lengths up to `usize::MAX`, and for offsets whose sum exceeds `usize` (nothing is marked and
nothing inside the region is touched). -/
theorem mark_exact (r : Region) (logLen : Nat) (bm : AtomicBitmapMmap) (log : List UInt8) (sl : List Nat) (offset len : Nat)
    (hal : r.aligned) (hsz : r.size ≤ usizeMax)
    (hnew : AtomicBitmapMmap.new r.gpa r.size logLen = some bm) (hlog : log.length = logLen) :
    ∃ log', (({ inner := some bm, base := 0 } : BitmapMmapRegion).slices sl).markDirty log offset len = some log' ∧
      LoggedExactly log log' (fun p => touched (r.gpa + sl.sum + offset) len p ∧ r.hasPage p) := by
  obtain ⟨hin, hbase⟩ := slices_base { inner := some bm, base := 0 } sl (by simp [usizeMax])
  simp only [Nat.zero_add] at hbase
  have hb : (({ inner := some bm, base := 0 } : BitmapMmapRegion).slices sl)
      = { inner := some bm, base := min sl.sum usizeMax } := by
    cases h : (({ inner := some bm, base := 0 } : BitmapMmapRegion).slices sl) with
    | mk i b => rw [h] at hin hbase; simp at hin hbase; rw [hin, hbase]
  rw [hb]
  obtain ⟨log', hrun, hlen, hbits⟩ := runSteps_spec
    (({ inner := some bm, base := min sl.sum usizeMax } : BitmapMmapRegion).markSteps offset len) log (by
      intro s hs; rw [hlog]; exact indices_in_bounds r.gpa r.size logLen bm hnew _ offset len s hs)
  refine ⟨log', hrun, hlen, ?_⟩
  intro P hP
  rw [bitAt_eq, bitAt_eq, hbits]
  obtain ⟨hpos, hfit, hc, rfl⟩ := (new_eq_some_iff _ _ _ _).1 hnew
  obtain ⟨ha1, ha2, ha3⟩ := hal
  simp only [Spec.DirtyLog.pageSize] at ha1 ha2
  have hj : P % 8 < 8 := by omega
  simp only [Bool.or_eq_true, any_hits_iff, mem_region_markSteps, mem_markSteps]
  apply or_congr Iff.rfl
  simp only [usizeMax, satAdd] at *
  -- which absolute pages get a step
  have key : (∃ s, (min sl.sum (2 ^ 64 - 1) + offset ≤ 2 ^ 64 - 1 ∧
        ∃ p, 0 < len ∧ (min sl.sum (2 ^ 64 - 1) + offset) / 4096 ≤ p ∧
          p ≤ (if min sl.sum (2 ^ 64 - 1) + offset + (len - 1) ≤ 2 ^ 64 - 1 then min sl.sum (2 ^ 64 - 1) + offset + (len - 1)
                else 2 ^ 64 - 1) / 4096 ∧ p < r.size / 4096 ∧ s = stepOf (r.gpa / 4096 + p)) ∧
        hits (P / 8) (P % 8) s = true) ↔
      (min sl.sum (2 ^ 64 - 1) + offset ≤ 2 ^ 64 - 1 ∧
        ∃ p, 0 < len ∧ (min sl.sum (2 ^ 64 - 1) + offset) / 4096 ≤ p ∧
          p ≤ (if min sl.sum (2 ^ 64 - 1) + offset + (len - 1) ≤ 2 ^ 64 - 1 then min sl.sum (2 ^ 64 - 1) + offset + (len - 1)
                else 2 ^ 64 - 1) / 4096 ∧ p < r.size / 4096 ∧ r.gpa / 4096 + p = P) := by
    constructor
    · rintro ⟨s, ⟨h1, p, h2, h3, h4, h5, rfl⟩, h6⟩
      rw [hits_stepOf _ _ _ hj] at h6
      exact ⟨h1, p, h2, h3, h4, h5, (eight_split _ _).1 (of_decide_eq_true h6)⟩
    · rintro ⟨h1, p, h2, h3, h4, h5, h6⟩
      refine ⟨stepOf (r.gpa / 4096 + p), ⟨h1, p, h2, h3, h4, h5, rfl⟩, ?_⟩
      rw [hits_stepOf _ _ _ hj]; exact decide_eq_true ((eight_split _ _).2 h6)
  apply Iff.trans key
  unfold touched Region.hasPage Spec.DirtyLog.firstPage Spec.DirtyLog.lastPage Spec.DirtyLog.pageSize
  by_cases hov : sl.sum + offset ≤ 2 ^ 64 - 1
  · -- no overflow anywhere: the region-relative offset is the true one
    have hm : min sl.sum (2 ^ 64 - 1) = sl.sum := min_nosat _ _ hov
    rw [hm]
    have := arith_exact r.gpa r.size (sl.sum + offset) len P ha1 ha2 hfit hov
    rw [assoc3] at this
    constructor
    · rintro ⟨_, h⟩
      obtain ⟨a, b, c, d, e⟩ := this.1 h
      exact ⟨⟨a, b, c⟩, d, e⟩
    · rintro ⟨⟨a, b, c⟩, d, e⟩
      exact ⟨hov, this.2 ⟨a, b, c, d, e⟩⟩
  · -- the true offset does not fit `usize`: nothing is marked, nothing in the region is touched
    have hno := arith_overflow r.gpa r.size (sl.sum + offset) P hfit ha3 (Nat.lt_of_not_le hov)
    constructor
    · rintro ⟨h1, p, h2, h3, h4, h5, h6⟩
      exfalso
      obtain ⟨hm, ho⟩ := min_sat _ _ hov h1
      rw [hm, ho, Nat.add_zero] at h3
      exact arith_sat r.size p hsz ⟨h3, h5⟩
    · rintro ⟨⟨_, h1, _⟩, _, h2⟩
      exfalso; apply hno
      rw [assoc3]; exact ⟨h1, h2⟩
/-- the hypotheses of `mark_exact` / `indices_in_bounds` are satisfiable: an aligned region at a non-zero address whose pages
share log byte 0 with a neighbour, a log of exactly the needed size -/
example : (⟨0x5000, 0x3000⟩ : Region).aligned ∧
    AtomicBitmapMmap.new 0x5000 0x3000 1 = some { logLen := 1, pagesBeforeRegion := 5, numberOfPages := 3 } ∧
    (({ inner := some { logLen := 1, pagesBeforeRegion := 5, numberOfPages := 3 }, base := 0 } : BitmapMmapRegion).slices [0, 0xfff]).markDirty
      [0x00] 0 2 = some [0x60] := by
  refine ⟨by unfold Region.aligned Spec.DirtyLog.pageSize; decide, by decide, by decide⟩
/-! ### concurrency -/
/-- **no lost bits**: for any number of writers and ANY interleaving of their atomic `fetch_or` steps, the resulting log
is the old log OR-ed with every bit any writer set — nothing is lost, nothing else changes -/
theorem concurrent_no_lost_bits (ws : List (List Step)) (tr : List Step) (log : List UInt8)
    (hint : Interleave ws tr) (hin : ∀ w ∈ ws, ∀ s ∈ w, s.idx < log.length) :
    ∃ log', runSteps log tr = some log' ∧ log'.length = log.length ∧
      ∀ i j, byteBit log' i j = (byteBit log i j || ws.any (fun w => w.any (hits i j))) := by
  have hm := interleave_mem ws tr hint
  obtain ⟨log', h1, h2, h3⟩ := runSteps_spec tr log (by
    intro s hs; obtain ⟨w, hw, hsw⟩ := (hm s).1 hs; exact hin w hw s hsw)
  refine ⟨log', h1, h2, ?_⟩
  intro i j
  rw [h3]
  congr 1
  rw [Bool.eq_iff_iff]
  simp only [List.any_eq_true]
  constructor
  · rintro ⟨s, hs, hh⟩
    obtain ⟨w, hw, hsw⟩ := (hm s).1 hs
    exact ⟨w, hw, s, hsw, hh⟩
  · rintro ⟨w, hw, s, hsw, hh⟩
    exact ⟨s, (hm s).2 ⟨w, hw, hsw⟩, hh⟩
example : Interleave [[⟨0, 1⟩, ⟨0, 4⟩], [⟨0, 2⟩]] [⟨0, 1⟩, ⟨0, 2⟩, ⟨0, 4⟩] :=
  .pick _ 0 ⟨0, 1⟩ [⟨0, 4⟩] _ rfl (.pick _ 1 ⟨0, 2⟩ [] _ rfl (.pick _ 0 ⟨0, 4⟩ [] _ rfl (.done _ (by decide))))
/-- all interleavings agree (and agree with running the writers one after the other) -/
theorem interleavings_agree (ws : List (List Step)) (tr1 tr2 : List Step) (log : List UInt8)
    (h1 : Interleave ws tr1) (h2 : Interleave ws tr2) (hin : ∀ w ∈ ws, ∀ s ∈ w, s.idx < log.length) :
    runSteps log tr1 = runSteps log tr2 := by
  obtain ⟨l1, e1, n1, b1⟩ := concurrent_no_lost_bits ws tr1 log h1 hin
  obtain ⟨l2, e2, n2, b2⟩ := concurrent_no_lost_bits ws tr2 log h2 hin
  rw [e1, e2]
  congr 1
  apply log_ext _ _ (by omega)
  intro i j; rw [b1, b2]
/-! ### SET_LOG_BASE acceptance -/
/-- **SET_LOG_BASE is accepted iff the log covers every region** (the byte of each region's highest page exists);
regions are non-empty and end below `2^64` (which vm-memory guarantees) -/
theorem accept_iff_log_covers (s : HState) (logLen : Nat)
    (hreg : ∀ r ∈ s.regions, 0 < r.len ∧ r.start + r.len - 1 ≤ usizeMax) :
    (setLogBase s logLen).isSome = true ↔ ∀ r ∈ s.regions, covers logLen ⟨r.start, r.len⟩ := by
  have : (setLogBase s logLen).isSome = (buildAll logLen s.regions).isSome := by
    unfold setLogBase; cases buildAll logLen s.regions <;> rfl
  rw [this, buildAll_isSome_iff]
  constructor
  · intro h r hr
    exact (accept_region_iff ⟨r.start, r.len⟩ logLen (hreg r hr).1 (hreg r hr).2).1 (h r hr)
  · intro h r hr
    exact (accept_region_iff ⟨r.start, r.len⟩ logLen (hreg r hr).1 (hreg r hr).2).2 (h r hr)
example : (setLogBase { regions := [⟨0x5000, 0x3000, none⟩, ⟨0x8000, 0x2000, none⟩], logmem := none, nextLog := 0 } 2).isSome = true
    ∧ (setLogBase { regions := [⟨0x5000, 0x3000, none⟩, ⟨0x8000, 0x2000, none⟩], logmem := none, nextLog := 0 } 1).isSome = false := by
  decide
/-! ### logging survives table changes -/
/-- every region of the table logs into the handler's current log -/
def Inv (s : HState) : Prop :=
  ∀ id logLen, s.logmem = some (id, logLen) →
    ∀ r ∈ s.regions, ∃ bm, r.bitmap = some (id, bm) ∧ AtomicBitmapMmap.new r.start r.len logLen = some bm
theorem step_inv (s s' : HState) (op : Op) (h : step s op = some s') (hi : Inv s) : Inv s' := by
  cases op with
  | setLogBase n =>
    simp only [step, setLogBase] at h
    cases hb : buildAll n s.regions with
    | none => simp [hb] at h
    | some bms =>
      simp [hb] at h; subst h
      intro id logLen hl r hr
      simp only [Option.some.injEq, Prod.mk.injEq] at hl
      obtain ⟨rfl, rfl⟩ := hl
      exact buildAll_zip _ _ _ _ hb r hr
  | setMemTable regs =>
    simp only [step, setMemTable] at h
    cases hm : mapOpt (fun x : Nat × Nat => logRegion s x.1 x.2) regs with
    | none => simp [hm] at h
    | some rs =>
      simp only [hm] at h
      split at h
      · simp at h; subst h
        intro id logLen hl r hr
        obtain ⟨x, _, e⟩ := mapOpt_mem _ _ _ hm r hr
        exact logRegion_inv s x.1 x.2 r e id logLen hl
      · cases h
  | addMemReg a l =>
    simp only [step, addMemReg] at h
    cases hr : logRegion s a l with
    | none => simp [hr] at h
    | some r =>
      simp only [hr] at h
      split at h
      · simp at h; subst h
        intro id logLen hl x hx
        rcases (mem_insertSorted r x s.regions).1 hx with rfl | hx
        · exact logRegion_inv s a l _ hr id logLen hl
        · exact hi id logLen hl x hx
      · cases h
  | remMemReg a l =>
    simp only [step, remMemReg] at h
    split at h
    · simp at h; subst h
      intro id logLen hl x hx
      exact hi id logLen hl x (List.mem_filter.1 hx).1
    · cases h
theorem run_inv (ops : List Op) (s : HState) (hi : Inv s) : Inv (run step s ops) := by
  induction ops generalizing s with
  | nil => exact hi
  | cons op ops ih =>
    unfold run
    cases h : step s op with
    | none => exact ih s hi
    | some s' => exact ih s' (step_inv s s' op h hi)
/-- once a log has been accepted the handler never forgets it -/
theorem logmem_sticky (ops : List Op) (s : HState) (h : s.logmem.isSome = true) :
    (run step s ops).logmem.isSome = true := by
  induction ops generalizing s with
  | nil => exact h
  | cons op ops ih =>
    unfold run
    cases hs : step s op with
    | none => exact ih s h
    | some s' =>
      apply ih s'
      cases op with
      | setLogBase n =>
        simp only [step, setLogBase] at hs
        cases hb : buildAll n s.regions <;> simp [hb] at hs
        subst hs; rfl
      | setMemTable regs =>
        simp only [step, setMemTable] at hs
        cases hm : mapOpt (fun x : Nat × Nat => logRegion s x.1 x.2) regs <;> simp [hm] at hs
        obtain ⟨_, rfl⟩ := hs; exact h
      | addMemReg a l =>
        simp only [step, addMemReg] at hs
        cases hr : logRegion s a l <;> simp [hr] at hs
        obtain ⟨_, rfl⟩ := hs; exact h
      | remMemReg a l =>
        simp only [step, remMemReg] at hs
        split at hs
        · simp at hs; subst hs; exact h
        · cases hs
/-! ### the property's history clause -/
/-- a write that lies inside the region: exactly the pages of `Spec.pages` -/
theorem write_exact (r : Region) (logLen : Nat) (bm : AtomicBitmapMmap) (log : List UInt8) (sl : List Nat) (offset len : Nat)
    (hal : r.aligned) (hsz : r.size ≤ usizeMax)
    (hnew : AtomicBitmapMmap.new r.gpa r.size logLen = some bm) (hlog : log.length = logLen)
    (hin : sl.sum + offset + len ≤ r.size) :
    ∃ log', (({ inner := some bm, base := 0 } : BitmapMmapRegion).slices sl).markDirty log offset len = some log' ∧
      LoggedExactly log log' (fun p => touched (r.gpa + sl.sum + offset) len p) := by
  obtain ⟨log', h1, h2, h3⟩ := mark_exact r logLen bm log sl offset len hal hsz hnew hlog
  refine ⟨log', h1, h2, ?_⟩
  intro p hp
  rw [h3 p hp]
  apply or_congr Iff.rfl
  constructor
  · exact fun h => h.1
  · intro h
    refine ⟨h, ?_⟩
    obtain ⟨a1, a2, a3⟩ := hal
    obtain ⟨t1, t2, t3⟩ := h
    unfold Region.hasPage
    simp only [Spec.DirtyLog.firstPage, Spec.DirtyLog.lastPage, Spec.DirtyLog.pageSize] at *
    omega
example : Spec.DirtyLog.pages 0x5fff 2 = [5, 6] ∧ Spec.DirtyLog.pages 0x5000 0 = [] := by decide
/-- **logging stays in force for all guest memory across later memory-table changes** (repaired handler): after any
history, if the handler has a log (id, length), every region of the current table has a bitmap on that very log, the
bitmap `AtomicBitmapMmap::new` built for it; hence (for page-aligned regions) every write through it is logged exactly. -/
theorem logging_survives_table_change (ops : List Op) (id logLen : Nat)
    (hl : (run step HState.init ops).logmem = some (id, logLen)) :
    ∀ r ∈ (run step HState.init ops).regions,
      ∃ bm, r.bitmap = some (id, bm) ∧ AtomicBitmapMmap.new r.start r.len logLen = some bm ∧
        ((⟨r.start, r.len⟩ : Region).aligned → r.len ≤ usizeMax →
          ∀ (log : List UInt8) (sl : List Nat) (offset len : Nat), log.length = logLen →
            ∃ log', (r.bm.slices sl).markDirty log offset len = some log' ∧
              LoggedExactly log log'
                (fun p => touched (r.start + sl.sum + offset) len p ∧ (⟨r.start, r.len⟩ : Region).hasPage p)) := by
  intro r hr
  have hinv : Inv (run step HState.init ops) := run_inv ops HState.init (by intro _ _ h; cases h)
  obtain ⟨bm, hb, hn⟩ := hinv id logLen hl r hr
  refine ⟨bm, hb, hn, ?_⟩
  intro hal hsz log sl offset len hlog
  have : r.bm = { inner := some bm, base := 0 } := by unfold Reg.bm; rw [hb]; rfl
  rw [this]
  exact mark_exact ⟨r.start, r.len⟩ logLen bm log sl offset len hal hsz hn hlog
/-- an accepted SET_LOG_BASE stays in force whatever requests follow -/
theorem logging_stays_in_force (before after : List Op) (n : Nat)
    (hacc : (step (run step HState.init before) (.setLogBase n)).isSome = true) :
    (run step HState.init (before ++ [.setLogBase n] ++ after)).logmem.isSome = true := by
  rw [run_append, run_append]
  apply logmem_sticky
  obtain ⟨s', hs⟩ := Option.isSome_iff_exists.1 hacc
  simp only [run, hs]
  simp only [step, setLogBase] at hs
  cases hb : buildAll n (run step HState.init before).regions <;> simp [hb] at hs
  subst hs; rfl
example : (run step HState.init [.setMemTable [(0x5000, 0x3000)], .setLogBase 8, .addMemReg 0x10000 0x1000]).regions.map (·.bitmap.isSome)
    = [true, true] := by decide
/-- **F-C15-retain**: in the handler of the unmodified tree a region added after SET_LOG_BASE has no bitmap; a one-byte
write at its first address touches page 16 but produces no `fetch_or` at all — logging silently stopped for it, while the
older region still logs -/
theorem logging_lost_counterexample :
    let s := run stepOld HState.init [.setMemTable [(0x5000, 0x3000)], .setLogBase 8, .addMemReg 0x10000 0x1000]
    s.logmem.isSome = true ∧
    s.regions.map (fun r => (r.start, r.bitmap.isSome)) = [(0x5000, true), (0x10000, false)] ∧
    (s.regions.map (fun r => r.bm.markSteps 0 1)) = [[⟨0, bitMask 5⟩], []] ∧
    touched 0x10000 1 16 := by
  decide
/-- …and the same after a SET_MEM_TABLE that follows SET_LOG_BASE: no region logs any more -/
theorem logging_lost_after_set_mem_table_counterexample :
    let s := run stepOld HState.init [.setLogBase 8, .setMemTable [(0x0, 0x8000)]]
    s.logmem.isSome = true ∧ s.regions.map (fun r => r.bm.markSteps 0 0x8000) = [[]] ∧ touched 0 0x8000 3 := by
  decide

end Props.C15
