import VhostModel.Model.Frontend
import VhostModel.Lemmas.Stream
/-!
# C06 — frontend-side parsers accept only the matching reply

Over `Model.Frontend.recv` (the four reply readers of `frontend.rs`, tied by the `fe` correspondence family, peer
mode with mutated replies): for every stream, chooser and request, a reply is accepted only if it carries
the REPLY flag, the request's own code, a valid header and body, and descriptors exactly as the reply type
allows; the value handed to the caller is computed from the accepted bytes only (`Model.Frontend.finish`).
The proxies (`backend_req.rs`, `gpu_backend_req.rs`) and the frontend's request server are covered by the
`proxy`/`besrv` families (see Props.C18).
Recorded limit (DESIGN.md): the fixed-size readers do not compare the header's size field with the bytes read.
-/
namespace Props.C06
open Base Model.Stream Model.Frontend Lemmas.Stream
open Model.BackendSrv (Err Hdr bitSet)

/-- what `recv_body::<ty>` accepts: exactly 12 + sizeof(ty) bytes, a valid header and a valid body -/
theorem recvBody_ok_sound {σ : Type} (ch : Chooser σ) (cl : Bool) (ty : String) (cst : σ) (s : List Cell) (r : Reply)
    (h : (recvBody ch cl ty cst s).res = .ok r) :
    ∃ n hb, sizeOfTy ty = some n ∧ hb.length = 12 ∧ r.body.length = n ∧ hdrValid hb = true ∧ r.hdr = parseHdr hb ∧
      bodyValidTy ty r.body = some true ∧ r.payload = [] := by
  unfold recvBody at h
  cases hs : sizeOfTy ty with
  | none => simp [hs] at h
  | some n =>
    simp only [hs] at h
    split at h
    · simp at h
    · split at h
      · simp at h
      · split at h
        · simp at h
        · rename_i hlen hval
          simp only [RecvRes.ok.injEq] at h
          refine ⟨n, (recvAll ch 32 cl (12 + n) cst s true).bytes.take 12, rfl, ?_, ?_, ?_, ?_, ?_, ?_⟩
          · simp at hlen; simp [List.length_take]; omega
          · rw [← h]; simp at hlen; simp [List.length_drop]; omega
          · simp at hval; exact hval.1
          · rw [← h]
          · rw [← h]; simp at hval; exact hval.2
          · rw [← h]

/-- **accept only the matching reply**: whenever a reply-reading call accepts bytes, they carry the REPLY flag, the
request's own code, a valid header and body, and descriptors exactly as the reply type allows -/
theorem recv_ok_is_reply_for {σ : Type} (ch : Chooser σ) (cl : Bool) (s : FSt) (req : Req) (cst : σ) (str : List Cell) (r : Reply)
    (h : (recv ch cl s req cst str).res = .ok r)
    (hwait : match req.kind with
      | .noWait => False
      | .ack => bitSet s.ackedProto 3 = true ∧ (reqHdr s req).needReply = true
      | _ => True) :
    isReplyFor r.hdr (reqHdr s req) = true ∧
    (match req.kind with
     | .ack | .body _ | .payload _ => r.files = none
     | .bodyFiles _ => r.files.isSome = true
     | _ => True) := by
  unfold recv at h
  cases hk : req.kind with
  | noWait => simp [hk] at hwait
  | ack =>
    simp only [hk] at h hwait
    obtain ⟨h1, h2⟩ := hwait
    simp only [h1, h2, Bool.not_true, Bool.or_self, Bool.false_eq_true, if_false] at h
    split at h
    · rename_i rr hrr
      split at h
      · simp at h
      · split at h
        · simp at h
        · rename_i hc _
          rw [hrr] at h; simp only [RecvRes.ok.injEq] at h; subst h
          simp at hc
          exact ⟨hc.1, by simpa using hc.2⟩
    · rename_i hn; exact absurd h (by intro hh; exact hn r hh)
  | body ty =>
    simp only [hk] at h
    split at h
    · simp at h
    · split at h
      · rename_i rr hrr
        split at h
        · simp at h
        · rename_i hc
          rw [hrr] at h; simp only [RecvRes.ok.injEq] at h; subst h
          simp at hc
          exact ⟨hc.1, by simpa using hc.2⟩
      · rename_i hn; exact absurd h (by intro hh; exact hn r hh)
  | bodyOptFiles ty =>
    simp only [hk] at h
    split at h
    · simp at h
    · split at h
      · rename_i rr hrr
        split at h
        · simp at h
        · rename_i hc
          rw [hrr] at h; simp only [RecvRes.ok.injEq] at h; subst h
          simp at hc
          exact ⟨hc, trivial⟩
      · rename_i hn; exact absurd h (by intro hh; exact hn r hh)
  | bodyFiles ty =>
    simp only [hk] at h
    split at h
    · simp at h
    · split at h
      · rename_i rr hrr
        split at h
        · simp at h
        · split at h
          · simp at h
          · rename_i hc hf
            rw [hrr] at h; simp only [RecvRes.ok.injEq] at h; subst h
            simp at hc hf
            exact ⟨hc, by cases hfl : rr.files <;> simp_all⟩
      · rename_i hn; exact absurd h (by intro hh; exact hn r hh)
  | payload ty =>
    simp only [hk] at h
    split at h
    · simp at h
    · split at h
      · simp at h
      · split at h
        · rename_i rr hrr
          split at h
          · simp at h
          · split at h
            · simp at h
            · split at h
              · simp at h
              · rename_i hc _ _
                split at h
                · simp at h
                · simp at h
                · simp at h
                · simp only [RecvRes.ok.injEq] at h; subst h
                  simp at hc
                  exact ⟨hc.1, by simpa using hc.2⟩
        · rename_i hn; exact absurd h (by intro hh; exact hn r hh)

/-- the value handed to the caller is a function of the accepted reply alone -/
theorem never_fabricates (s : FSt) (op : Op) (r₁ r₂ : Reply) (h : r₁ = r₂) : finish s op r₁ = finish s op r₂ := by rw [h]

/-! ### non-vacuity -/
example : isReplyFor ⟨1, 5, 8⟩ ⟨1, 1, 0⟩ = true := by decide
example : isReplyFor ⟨2, 5, 8⟩ ⟨1, 1, 0⟩ = false := by decide
example : isReplyFor ⟨1, 1, 8⟩ ⟨1, 1, 0⟩ = false := by decide

end Props.C06
