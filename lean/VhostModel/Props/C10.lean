import VhostModel.Spec.Locks
import VhostModel.Model.Locks
import VhostModel.Lemmas.Locks

/-!
# C10 — concurrent callers get their own replies: request/response pairs are atomic

`Model.Locks` is the transition system of N caller threads over one `Arc<Mutex<…Internal>>` endpoint
(`Frontend`, `Backend` proxy, `GpuBackend`), with the per-call steps `acquire · send · recv|skip ·
release` of the Rust methods and a peer that answers in arrival order.  All theorems are for every
configuration `c` (any number of callers, any mix of reply-bearing / acknowledged / fire-and-forget /
locally-rejected calls, REPLY_ACK on or off, any assignment of reply faults `bad` / `close` to callers) and every schedule, i.e. every label sequence `ls`
accepted by `step` from `init`.

* `pending_implies_holder` — state invariant: a request whose reply has not been consumed is on the
  wire ⇒ it is the only one, and its sender holds the lock;
* `transaction_atomic` — the history satisfies `Spec.Locks.Atomic`: between `req i` and the
  consumption of its reply no `req j` occurs;
* `own_reply` — every reply consumed is tagged with the consumer's own request, and every completed
  reply-reading call did consume one;
* `all_complete` — no deadlock (some label enabled while a caller is unfinished), the measure
  "remaining steps" strictly decreases with every step, hence every maximal run finishes all callers and
  no run is longer than `8·n` steps;
* `faulty_reply_releases_lock`, `faulty_call_returns_error` — a caller whose reply is faulty (refused by the reader,
  or end-of-file because the peer closed the socket) consumes it, returns an error and never a value, and its
  release frees the lock with nothing outstanding;
* `others_unaffected_by_faulty_reply` — atomicity and own-reply hold for everybody under any assignment of faults; a
  caller without a fault of its own gets its own reply and no error, unless it wrote nothing (local rejection, or a
  socket the peer had closed before);
* `model_fault_clauses` — Model ⊨ `Spec.Locks.FaultClauses` (a mistreated request ⇒ its caller gets an error; an
  answered one ⇒ its own reply; one the peer never saw ⇒ an error); `faultClausesB_sound` for the executable form;
* `relock_on_error_deadlocks` (+ `relock_reached_by_every_faulty_reply`) — the *mutated* rule `Cfg.relock` (the error
  path of the reply reader takes the endpoint lock again): every schedule that reaches it is stuck for good with the
  lock held; `no_deadlock` / `all_complete` are for the code's rule `relock = false`, the safety theorems for both;
* `scan_sound`, `ownReplyB_iff` — the executable judges used by the spec driver on the implementation's
  observed histories imply the declarative Spec clauses;
* `trace_is_projection` — the ghost history is exactly the projection of the schedule to its send/recv
  labels;
* `broken_variant_not_atomic`, `broken_variant_wrong_reply` — in the variant that drops the guard
  between send and receive a schedule violates atomicity, and one hands a caller another caller's reply.

The invariant (`Lemmas.Locks.Inv`: lock ⇔ program counters, at most one outstanding reply and it
belongs to the lock holder, consumed tags are own tags, the history is accepted by `Spec.Locks.scan`
with the outstanding caller as its state) and its preservation by each label, and the measure lemmas,
are in `Lemmas/Locks.lean`.

Assumed (DESIGN §6): `std::sync::Mutex` gives mutual exclusion; the socket is a FIFO per direction;
the peer produces a reply exactly for the requests whose caller reads one (a faulty reply has the size of the correct
one, so the reader consumes exactly it; a closing peer closes instead of that reply); fairness of the OS
scheduler for liveness ("every maximal run").
-/

namespace Props.C10
open Model.Locks Spec.Locks Lemmas.Locks

/-! ## the judges of `Spec.Locks` are sound -/

/-- A history accepted by the executable judge satisfies the declarative atomicity clause. -/
theorem scan_sound (ex : Nat → Bool) (o0 o : Option Nat) (tr : List Ev)
    (h : scan ex o0 tr = some o) : Atomic ex tr := by
  intro pre mid post i j htr hex
  subst htr
  rw [scan_append] at h
  cases h1 : scan ex o0 pre with
  | none => simp [h1] at h
  | some o1 =>
    simp only [h1, Option.bind_some] at h
    cases o1 with
    | some k => simp [scan, scanStep] at h
    | none =>
      simp only [scan, scanStep, hex, if_true] at h
      exact scan_open_mid ex i j mid post o h

theorem atomicB_sound (ex : Nat → Bool) (tr : List Ev) (h : atomicB ex tr = true) : Atomic ex tr := by
  unfold atomicB at h
  cases h1 : scan ex none tr with
  | none => simp [h1] at h
  | some o => exact scan_sound ex none o tr h1

theorem ownReplyB_iff (tr : List Ev) : ownReplyB tr = true ↔ OwnReply tr := by
  unfold ownReplyB OwnReply
  rw [List.all_eq_true]
  constructor
  · intro h i t hm
    have := h _ hm
    simpa using this
  · intro h e he
    cases e with
    | req i => rfl
    | rep i t => simpa using h i t he

example : atomicB (fun _ => true) [.req 0, .rep 0 0, .req 1, .rep 1 1] = true := by decide
example : atomicB (fun _ => true) [.req 0, .req 1, .rep 0 0, .rep 1 1] = false := by decide
example : ¬ Atomic (fun _ => true) [.req 0, .req 1] := by
  intro h
  obtain ⟨t, ht⟩ := h [] [] [] 0 1 rfl rfl
  simp at ht

/-! ## C10, clause 1: transactions are atomic -/

/-- State form: a reply that is owed or in flight (its request has been written, the reply has not
been consumed) is the only one, and the caller it belongs to holds the lock and sits between its send
and its receive. -/
theorem pending_implies_holder (c : Cfg) (ls : List Lbl) (s : St) (hr : run c init ls = some s)
    (i : Nat) (hi : i ∈ outstanding c s) :
    outstanding c s = [i] ∧ s.holder = some i ∧ s.pc i = .sent := by
  have h := inv_reachable c ls s hr
  rcases h.out with h0 | ⟨j, hj, hpc, _⟩
  · rw [h0] at hi; cases hi
  · rw [hj] at hi; simp at hi; subst hi
    exact ⟨hj, h.lock i (Or.inr (Or.inl hpc)), hpc⟩

/-- Consequently no caller other than the one with the outstanding reply can write a request. -/
theorem no_foreign_send_while_pending (c : Cfg) (ls : List Lbl) (s : St) (hr : run c init ls = some s)
    (i j : Nat) (hi : i ∈ outstanding c s) : step c s (.send j) = none := by
  obtain ⟨_, hold, hpc⟩ := pending_implies_holder c ls s hr i hi
  have h := inv_reachable c ls s hr
  simp only [step]
  split
  · rename_i hc
    have := h.lock j (Or.inl hc.1)
    rw [hold] at this; cases this
    rw [hpc] at hc; cases hc.1
  · rfl

/-- Trace form (the property's first clause): in the history of every schedule, between a request that
has a reply and the consumption of that reply no other request is written. -/
theorem transaction_atomic (c : Cfg) (ls : List Lbl) (s : St) (hr : run c init ls = some s) :
    Atomic c.reads s.trace :=
  scan_sound c.reads none _ s.trace (inv_reachable c ls s hr).tr

/-! The ghost history is the projection of the schedule to its wire labels. -/

def wireLbl : Ev → Lbl
  | .req i => .send i
  | .rep i _ => .recv i

def isWire : Lbl → Bool
  | .send _ => true
  | .recv _ => true
  | _ => false

theorem trace_is_projection_from (c : Cfg) (s s' : St) (ls : List Lbl) (hr : run c s ls = some s') :
    s'.trace.map wireLbl = s.trace.map wireLbl ++ ls.filter isWire := by
  induction ls generalizing s with
  | nil => simp [run] at hr; subst hr; simp
  | cons l ls ih =>
    simp only [run] at hr
    split at hr
    · simp at hr
    · rename_i s1 hs1
      rw [ih s1 hr]
      cases l with
      | acquire i =>
        simp only [step] at hs1
        split at hs1
        · simp at hs1; subst hs1; simp [List.filter, isWire]
        · split at hs1 <;> simp at hs1
          subst hs1; simp [List.filter, isWire]
      | send i =>
        simp only [step] at hs1; split at hs1 <;> simp at hs1
        subst hs1; simp [List.filter, isWire, wireLbl]
      | peer =>
        simp only [step] at hs1; split at hs1 <;> simp at hs1
        subst hs1; simp [List.filter, isWire]
      | recv i =>
        simp only [step] at hs1
        split at hs1
        · split at hs1 <;> simp at hs1
          subst hs1; simp [List.filter, isWire, wireLbl]
        · simp at hs1
      | release i =>
        simp only [step] at hs1; split at hs1 <;> simp at hs1
        subst hs1; simp [List.filter, isWire]

theorem trace_is_projection (c : Cfg) (ls : List Lbl) (s : St) (hr : run c init ls = some s) :
    s.trace.map wireLbl = ls.filter isWire := by
  simpa [init] using trace_is_projection_from c init s ls hr

/-! ## C10, clause 2: every caller receives the reply to its own request -/

/-- Every reply consumed is the consumer's own; a finished reply-reading call that did not end in an error
(faulty reply, dead socket — see `err_only_by_fault`) consumed its own reply; no caller ever holds a foreign value. -/
theorem own_reply (c : Cfg) (ls : List Lbl) (s : St) (hr : run c init ls = some s) :
    OwnReply s.trace ∧
    (∀ i, s.pc i = .done → c.reads i = true → s.err i = false → s.got i = some i) ∧
    (∀ i t, s.got i = some t → t = i) := by
  have h := inv_reachable c ls s hr
  refine ⟨h.trOwn, fun i hd hrd he => h.gotOwn i (Or.inr ⟨hd, hrd⟩) he, ?_⟩
  -- `got` is only ever written by `recv`, which stores the caller's own tag
  suffices H : ∀ (s0 : St), Inv c s0 → (∀ i t, s0.got i = some t → t = i) →
      ∀ s1, run c s0 ls = some s1 → ∀ i t, s1.got i = some t → t = i from
    H init (inv_init c) (by simp [init]) s hr
  clear hr h s
  induction ls with
  | nil => intro s0 _ hg s1 hr; simp [run] at hr; subst hr; exact hg
  | cons l ls ih =>
    intro s0 h0 hg s1 hr
    simp only [run] at hr
    split at hr
    · simp at hr
    · rename_i s2 hs2
      refine ih s2 (inv_step c s0 s2 l h0 hs2) ?_ s1 hr
      cases l with
      | recv k =>
        have hk := (inv_recv c s0 s2 k h0 hs2).2
        intro i t hit
        simp only [step] at hs2
        split at hs2
        · split at hs2 <;> simp only [Option.some.injEq, reduceCtorEq] at hs2
          subst hs2
          cases hf : c.faulty k
          · by_cases e : i = k
            · subst e; rw [hk hf] at hit; cases hit; rfl
            · simp only [hf, Bool.false_eq_true, if_false, upd_other _ _ e] at hit; exact hg i t hit
          · simp only [hf, if_true] at hit; exact hg i t hit
        · simp at hs2
      | acquire k =>
        simp only [step] at hs2
        split at hs2
        · simp at hs2; subst hs2; exact hg
        · split at hs2 <;> simp at hs2
          subst hs2; exact hg
      | send k =>
        simp only [step] at hs2; split at hs2 <;> simp at hs2
        subst hs2; exact hg
      | peer =>
        simp only [step] at hs2; split at hs2 <;> simp at hs2
        subst hs2; exact hg
      | release k =>
        simp only [step] at hs2; split at hs2 <;> simp at hs2
        subst hs2; exact hg

/-! ## C10, clause 3: all calls complete -/

/-- No deadlock (in particular no self-deadlock), faulty replies and a closed socket included: in every reachable
state of the code's rule (`relock = false`) in which some caller has not finished, some label is enabled. -/
theorem no_deadlock (c : Cfg) (hrl : c.relock = false) (ls : List Lbl) (s : St) (hr : run c init ls = some s)
    (i : Nat) (hi : i < c.n) (hnd : s.pc i ≠ .done) : enabled c s ≠ [] := by
  have h := inv_reachable c ls s hr
  have f := finv_reachable c ls s hr
  have norl : ∀ j, s.pc j ≠ .relock := by
    intro j hj; have := (f.relockPc j hj).1; rw [hrl] at this; cases this
  suffices H : ∃ l, l ∈ allLabels c.n ∧ (step c s l).isSome = true by
    obtain ⟨l, hl, hsome⟩ := H
    intro hnil
    have : l ∈ enabled c s := by simp [enabled, hl, hsome]
    rw [hnil] at this; cases this
  cases hh : s.holder with
  | none =>
    have hidle : s.pc i = .idle := by
      cases hp : s.pc i with
      | idle => rfl
      | done => exact absurd hp hnd
      | locked => have := h.lock i (Or.inl hp); rw [hh] at this; cases this
      | sent => have := h.lock i (Or.inr (Or.inl hp)); rw [hh] at this; cases this
      | got => have := h.lock i (Or.inr (Or.inr (Or.inl hp))); rw [hh] at this; cases this
      | relock => exact absurd hp (norl i)
    exact ⟨.acquire i, (mem_allLabels c.n i hi).1, by simp [step, hi, hidle, hh]⟩
  | some k =>
    have hk := h.held k hh
    have hkn : k < c.n := h.range k (by rcases hk with hp | hp | hp | hp <;> rw [hp] <;> simp)
    have hm := mem_allLabels c.n k hkn
    rcases hk with hp | hp | hp | hp
    · cases hsn : c.sends k
      · exact ⟨.release k, hm.2.2.2, by simp [step, hh, hp, hsn]⟩
      · cases hcl : s.closed
        · exact ⟨.send k, hm.2.1, by simp [step, hp, hsn, hcl]⟩
        · -- the socket is dead: the send fails, the method returns and drops its guard
          exact ⟨.release k, hm.2.2.2, by simp [step, hh, hp, hcl]⟩
    · cases hrd : c.reads k
      · exact ⟨.release k, hm.2.2.2, by simp [step, hh, hp, hrd]⟩
      · have hopn := h.opn k hp hrd
        cases hq : s.repQ with
        | cons t w => exact ⟨.recv k, hm.2.2.1, by simp [step, hp, hrd, hq]⟩
        | nil =>
          cases hrq : s.reqQ with
          | nil => simp [outstanding, hq, hrq] at hopn
          | cons r q => exact ⟨.peer, mem_allLabels_peer c.n, by simp [step, hrq]⟩
    · exact ⟨.release k, hm.2.2.2, by simp [step, hh, hp]⟩
    · exact absurd hp (norl k)

/-- Progress, faulty replies included.  For every schedule `ls` reaching `s`:
(1) if some caller is unfinished, some label is enabled (no deadlock, no self-deadlock) — for the code's rule;
(2) every further step strictly decreases the measure "remaining steps" (a faulty reply costs the same steps as a
    good one), and `|ls| + measure s ≤ 8·n`, so no run is longer than `8·n` steps — for both rules;
(3) hence a maximal run (no label enabled at its end) has finished all callers — for the code's rule. -/
theorem all_complete (c : Cfg) (ls : List Lbl) (s : St) (hr : run c init ls = some s) :
    (c.relock = false → ∀ i, i < c.n → s.pc i ≠ .done → enabled c s ≠ []) ∧
    (∀ l s', step c s l = some s' → Model.Locks.measure c s' < Model.Locks.measure c s) ∧
    ls.length + Model.Locks.measure c s ≤ 8 * c.n ∧
    (c.relock = false → enabled c s = [] → ∀ i, i < c.n → s.pc i = .done) := by
  have h := inv_reachable c ls s hr
  refine ⟨fun hrl i hi hnd => no_deadlock c hrl ls s hr i hi hnd,
          fun l s' hs => measure_step c s s' l h hs, ?_, ?_⟩
  · have := run_measure c init s ls (inv_init c) hr
    rw [measure_init] at this; exact this
  · intro hrl hnil i hi
    cases hp : s.pc i with
    | done => rfl
    | _ => exact absurd hnil (no_deadlock c hrl ls s hr i hi (by rw [hp]; simp))

/-! ## faulty replies: the error paths of the reply readers

`Cfg.fault` lets the peer answer chosen requests with a reply the reader refuses (`bad`) or close the socket instead
of answering (`close`); see the header of `Model/Locks.lean`.  All theorems above are for every `fault` assignment.
The ones below say what a faulty reply does to its own caller, that it does nothing to the others, and that the
mutated rule `Cfg.relock` (error path takes the lock again) is a deadlock. -/

/-- in a state where caller `i` holds the lock at program counter `p`, a label other than `peer` that is enabled
is a label of caller `i` -/
theorem only_holder_moves (c : Cfg) (s : St) (h : Inv c s) (i : Nat) (hh : s.holder = some i) (l : Lbl) (s1 : St)
    (hs : step c s l = some s1) : l = .peer ∨ l = .send i ∨ l = .recv i ∨ l = .release i := by
  cases l with
  | peer => exact Or.inl rfl
  | acquire j =>
    simp only [step] at hs
    split at hs
    · rename_i hc; rw [hh] at hc; cases hc.2.2
    · split at hs
      · rename_i _ hc; rw [hh] at hc; cases hc.2
      · cases hs
  | send j =>
    simp only [step] at hs
    split at hs
    · rename_i hc
      have := h.lock j (Or.inl hc.1); rw [hh] at this; cases this
      exact Or.inr (Or.inl rfl)
    · cases hs
  | recv j =>
    simp only [step] at hs
    split at hs
    · rename_i hc
      have := h.lock j (Or.inr (Or.inl hc.1)); rw [hh] at this; cases this
      exact Or.inr (Or.inr (Or.inl rfl))
    · cases hs
  | release j =>
    simp only [step] at hs
    split at hs
    · rename_i hc
      have := hc.1; rw [hh] at this; cases this
      exact Or.inr (Or.inr (Or.inr rfl))
    · cases hs

/-- **A faulty reply releases the lock.**  For every configuration of the code's rule and every schedule: the
`recv` step of a caller whose reply is faulty (refused by the reader, or end-of-file) leaves that caller with an
error and without a value, still holding the lock; the only labels enabled then are the peer and `release i`; and
that release frees the lock with the caller done — with the error, without a value — and nothing outstanding on
the wire (the faulty reply was consumed whole: the next caller starts on an aligned stream). -/
theorem faulty_reply_releases_lock (c : Cfg) (hrl : c.relock = false) (ls : List Lbl) (s s1 : St) (i : Nat)
    (hr : run c init ls = some s) (hf : c.faulty i = true) (hs : step c s (.recv i) = some s1) :
    s1.err i = true ∧ s1.got i = none ∧ s1.holder = some i ∧
    (∀ l s', step c s1 l = some s' → l = .peer ∨ l = .release i) ∧
    ∃ s2, step c s1 (.release i) = some s2 ∧ s2.holder = none ∧ s2.pc i = .done ∧
          s2.err i = true ∧ s2.got i = none ∧ outstanding c s2 = [] := by
  have hr1 : run c init (ls ++ [.recv i]) = some s1 := by
    rw [run_append, hr]; simp [run, hs]
  have h1 := inv_reachable c _ s1 hr1
  have f1 := finv_reachable c _ s1 hr1
  have h0 := inv_reachable c ls s hr
  have hpc : s1.pc i = .got ∧ s1.holder = some i := by
    simp only [step] at hs
    split at hs
    · rename_i hc
      split at hs
      · cases hs
      · simp only [Option.some.injEq] at hs; subst hs
        exact ⟨by simp [hrl, upd_same], h0.lock i (Or.inr (Or.inl hc.1))⟩
    · cases hs
  have herr := f1.faultyErr i hf (Or.inl hpc.1)
  have hgot := f1.faultyNoVal i hf
  have hne : ¬ (s1.pc i = .locked) := by rw [hpc.1]; simp
  refine ⟨herr, hgot, hpc.2, ?_, ?_⟩
  · intro l s' hl
    rcases only_holder_moves c s1 h1 i hpc.2 l s' hl with e | e | e | e
    · exact Or.inl e
    · subst e; simp [step, hpc.1] at hl
    · subst e; simp [step, hpc.1] at hl
    · exact Or.inr e
  · have hstep : step c s1 (.release i) =
        some { s1 with pc := upd s1.pc i .done, holder := none,
                       err := if s1.pc i = .locked then upd s1.err i true else s1.err } := by
      simp [step, hpc.1, hpc.2]
    refine ⟨_, hstep, rfl, by simp [upd_same], ?_, hgot, ?_⟩
    · simp [hne, herr]
    · have hr2 : run c init (ls ++ [.recv i] ++ [.release i]) =
          some { s1 with pc := upd s1.pc i .done, holder := none,
                         err := if s1.pc i = .locked then upd s1.err i true else s1.err } := by
        rw [run_append, hr1]; simp [run, hstep]
      have h2 := inv_reachable c _ _ hr2
      rcases h2.out with h | ⟨j, _, hj, _⟩
      · exact h
      · have := h2.lock j (Or.inr (Or.inl hj)); cases this

/-- The faulted call returns an error, never a value — in every state of every schedule, under both rules. -/
theorem faulty_call_returns_error (c : Cfg) (ls : List Lbl) (s : St) (hr : run c init ls = some s)
    (i : Nat) (hf : c.faulty i = true) :
    s.got i = none ∧ (s.pc i = .done → s.err i = true) := by
  have f := finv_reachable c ls s hr
  exact ⟨f.faultyNoVal i hf, fun hd => f.faultyErr i hf (Or.inr (Or.inr hd))⟩

/-- **The other callers are unaffected.**  With any assignment of faults, in every schedule: the history is atomic
and every consumed reply is the consumer's own (clauses 1 and 2 for everybody); a caller whose own reply is not
faulty and whose request was written gets the reply to its own request and no error; such a caller ends in an error
only if it wrote nothing — refused locally, or the peer had closed the socket before its send; and the socket is
never closed unless some configured fault is a `close`. -/
theorem others_unaffected_by_faulty_reply (c : Cfg) (ls : List Lbl) (s : St) (hr : run c init ls = some s) :
    Atomic c.reads s.trace ∧ OwnReply s.trace ∧
    (∀ j, c.faulty j = false → s.pc j = .done → c.reads j = true → Ev.req j ∈ s.trace →
        s.got j = some j ∧ s.err j = false) ∧
    (∀ j, c.faulty j = false → s.err j = true →
        Ev.req j ∉ s.trace ∧ (c.sends j = false ∨ s.closed = true)) ∧
    ((∀ k, c.closes k = false) → s.closed = false) := by
  have h := inv_reachable c ls s hr
  have f := finv_reachable c ls s hr
  refine ⟨scan_sound c.reads none _ s.trace h.tr, h.trOwn, ?_, ?_, ?_⟩
  · intro j hnf hd hrd hreq
    have he : s.err j = false := by
      cases he : s.err j with
      | false => rfl
      | true =>
        rcases f.errWhy j he with h1 | h1
        · rw [hnf] at h1; cases h1
        · exact absurd hreq h1
    exact ⟨h.gotOwn j (Or.inr ⟨hd, hrd⟩) he, he⟩
  · intro j hnf he
    refine ⟨?_, ?_⟩
    · rcases f.errWhy j he with h1 | h1
      · rw [hnf] at h1; cases h1
      · exact h1
    · rcases f.errClosed j he with h1 | h1
      · rw [hnf] at h1; cases h1
      · exact h1
  · intro hno
    cases hcl : s.closed with
    | false => rfl
    | true =>
      obtain ⟨k, hk⟩ := f.closedWhy hcl
      rw [hno k] at hk; cases hk

/-- a caller at `relock` holds the lock it is waiting for: nothing but the peer can ever move again -/
theorem relock_stuck (c : Cfg) (i : Nat) (s : St) (h : Inv c s) (hp : s.pc i = .relock) :
    s.holder = some i ∧ (∀ l, l ≠ .peer → step c s l = none) ∧
    (∀ ls' s', run c s ls' = some s' → (∀ l ∈ ls', l = .peer) ∧ s'.pc = s.pc ∧ s'.holder = some i) := by
  have stuck : ∀ (s : St), Inv c s → s.pc i = .relock → ∀ l, l ≠ .peer → step c s l = none := by
    intro s h hp l hl
    have hh : s.holder = some i := h.lock i (Or.inr (Or.inr (Or.inr hp)))
    cases hs : step c s l with
    | none => rfl
    | some s1 =>
      exfalso
      rcases only_holder_moves c s h i hh l s1 hs with e | e | e | e
      · exact hl e
      · subst e; simp [step, hp] at hs
      · subst e; simp [step, hp] at hs
      · subst e; simp [step, hp] at hs
  refine ⟨h.lock i (Or.inr (Or.inr (Or.inr hp))), stuck s h hp, ?_⟩
  intro ls'
  induction ls' generalizing s with
  | nil =>
    intro s' hr'; simp [run] at hr'; subst hr'
    exact ⟨by simp, rfl, h.lock i (Or.inr (Or.inr (Or.inr hp)))⟩
  | cons l ls' ih =>
    intro s' hr'
    simp only [run] at hr'
    split at hr'
    · cases hr'
    · rename_i s1 hs1
      have hl : l = .peer := by
        cases hlp : decide (l = .peer) with
        | true => exact of_decide_eq_true hlp
        | false =>
          have := stuck s h hp l (of_decide_eq_false hlp)
          rw [this] at hs1; cases hs1
      subst hl
      have hsame : s1.pc = s.pc := by
        simp only [step] at hs1
        split at hs1
        · cases hs1
        · simp only [Option.some.injEq] at hs1; subst hs1; rfl
      have := ih s1 (inv_step c s s1 .peer h hs1) (by rw [hsame]; exact hp) s' hr'
      refine ⟨?_, ?_, this.2.2⟩
      · intro l hl
        simp only [List.mem_cons] at hl
        rcases hl with e | e
        · exact e
        · exact this.1 l e
      · rw [this.2.1, hsame]

/-- **The mutated rule deadlocks.**  In the variant in which the error path of the reply reader takes the endpoint
lock again (`Cfg.relock`), every schedule that reaches that point — caller `i` has read a faulty reply — is stuck for
good with the lock held: no label of any caller is enabled (`i` waits for the lock it holds itself, everybody else
waits for `i`), in every continuation only the peer moves, no program counter ever changes again — `i` never returns
and neither does any caller that had not finished. -/
theorem relock_on_error_deadlocks (c : Cfg) (ls : List Lbl) (s : St) (hr : run c init ls = some s)
    (i : Nat) (hp : s.pc i = .relock) :
    c.relock = true ∧ c.faulty i = true ∧ s.holder = some i ∧
    (∀ l, l ≠ .peer → step c s l = none) ∧
    (∀ ls' s', run c s ls' = some s' → (∀ l ∈ ls', l = .peer) ∧ s'.pc = s.pc ∧ s'.holder = some i) := by
  have f := finv_reachable c ls s hr
  have := relock_stuck c i s (inv_reachable c ls s hr) hp
  exact ⟨(f.relockPc i hp).1, (f.relockPc i hp).2, this.1, this.2.1, this.2.2⟩

/-- … and every faulty reply leads there: under the mutated rule the receipt of a faulty reply *is* that point. -/
theorem relock_reached_by_every_faulty_reply (c : Cfg) (hrl : c.relock = true) (s s1 : St) (i : Nat)
    (hf : c.faulty i = true) (hs : step c s (.recv i) = some s1) : s1.pc i = .relock := by
  simp only [step] at hs
  split at hs
  · split at hs
    · cases hs
    · simp only [Option.some.injEq] at hs; subst hs; simp [hf, hrl, upd]
  · cases hs

/-- the mutated configuration of the examples: caller 0's reply is faulty, caller 1 is an ordinary call -/
def rlCfg : Cfg := { n := 2, kind := fun _ => .reply, ackMode := false,
                     fault := fun i => if i = 0 then .bad else .none, relock := true }

/-- the same configuration under the code's rule -/
def okCfg : Cfg := { n := 2, kind := fun _ => .reply, ackMode := false,
                     fault := fun i => if i = 0 then .bad else .none }

/-- the hypothesis of `relock_on_error_deadlocks` is reachable, nothing is enabled there, and caller 1 (which has
not even started) can never run: the whole endpoint is dead -/
example : (run rlCfg init [.acquire 0, .send 0, .peer, .recv 0]).map
    (fun s => (s.pc 0, s.pc 1, s.holder, enabled rlCfg s)) = some (.relock, .idle, some 0, []) := by decide
/-- the code's rule on the same configuration and schedule: the faulty reply is an error for caller 0 only,
caller 1 gets its own reply, everything completes -/
example : (run okCfg init
      [.acquire 0, .send 0, .peer, .recv 0, .release 0, .acquire 1, .send 1, .peer, .recv 1, .release 1]).map
    (fun s => ([s.err 0, s.err 1], [s.got 0, s.got 1, s.holder], enabled okCfg s)) =
    some ([true, false], [none, some 1, none], []) := by decide

/-- the executable form of the fault clauses implies the declarative one for the callers it looks at -/
theorem faultClausesB_sound (n : Nat) (ex fl an : Nat → Bool) (out : Nat → Outcome)
    (hpend : ∀ i, n ≤ i → out i = .pending) (h : faultClausesB n ex fl an out = true) :
    FaultClauses ex fl an out := by
  intro i hne hex
  have hi : i < n := by
    cases Nat.lt_or_ge i n with
    | inl h => exact h
    | inr h => exact absurd (hpend i h) hne
  unfold faultClausesB at h
  rw [List.all_eq_true] at h
  have := h i (List.mem_range.mpr hi)
  cases hf : fl i <;> cases ha : an i <;> simp [hf, ha, hex, hne] at this ⊢ <;> exact this

/-- **Model ⊨ fault clauses.**  In every state of every schedule, with any assignment of faults: the callers'
outcomes satisfy `Spec.Locks.FaultClauses`, where a request counts as answered correctly when it was written and
is not one the peer mistreats. -/
theorem model_fault_clauses (c : Cfg) (ls : List Lbl) (s : St) (hr : run c init ls = some s) :
    FaultClauses c.reads c.faulty (fun i => !c.faulty i && decide (Ev.req i ∈ s.trace)) (outcome s) := by
  have h := inv_reachable c ls s hr
  have f := finv_reachable c ls s hr
  intro i hne hex
  have hd : s.pc i = .done := by
    unfold outcome at hne
    by_cases hd : s.pc i = .done
    · exact hd
    · simp [hd] at hne
  refine ⟨?_, ?_, ?_⟩
  · intro hf
    have := f.faultyErr i hf (Or.inr (Or.inr hd))
    simp [outcome, hd, this]
  · intro hf ha
    simp only [hf, Bool.not_false, Bool.true_and, decide_eq_true_eq] at ha
    have := (others_unaffected_by_faulty_reply c ls s hr).2.2.1 i hf hd hex ha
    simp [outcome, hd, this.1, this.2]
  · intro hf ha
    simp only [hf, Bool.not_false, Bool.true_and, decide_eq_false_iff_not] at ha
    have := f.doneNoReq i hd ha
    simp [outcome, hd, this]

example : faultClausesB 2 (fun _ => true) (fun i => i == 0) (fun i => i == 1)
    (fun i => if i = 0 then .error else .value 1) = true := by decide
example : faultClausesB 2 (fun _ => true) (fun i => i == 0) (fun i => i == 1)
    (fun i => if i = 0 then .value 0 else .value 1) = false := by decide

/-- a closing peer: caller 0's request is answered by closing the socket; caller 1 comes later, finds the socket
dead and returns an error without having written anything; caller 2 (a locally rejected call) is as always -/
def clCfg : Cfg := { n := 3, kind := fun i => if i = 2 then .rejected else .reply, ackMode := false,
                     fault := fun i => if i = 0 then .close else .none }

example : (run clCfg init [.acquire 0, .send 0, .peer, .recv 0, .release 0, .acquire 1, .release 1,
                            .acquire 2, .release 2]).map
    (fun s => ([s.err 0, s.err 1, s.err 2, s.closed], [s.got 0, s.got 1], s.trace, enabled clCfg s)) =
    some ([true, true, true, true], [none, none], [.req 0, .rep 0 0], []) := by decide
/-- on the dead socket the send is not enabled -/
example : (run clCfg init [.acquire 0, .send 0, .peer, .recv 0, .release 0, .acquire 1, .send 1]).isSome = false := by
  decide
/-- before the close everybody is served as usual -/
example : (run clCfg init [.acquire 1, .send 1, .peer, .recv 1, .release 1, .acquire 0, .send 0, .peer, .recv 0,
                            .release 0]).map (fun s => ([s.err 0, s.err 1], [s.got 0, s.got 1])) =
    some ([true, false], [none, some 1]) := by decide

/-! ## the hypotheses are satisfiable: a concrete mixed configuration and schedule -/

/-- three callers: reply-bearing, acknowledged (REPLY_ACK on), fire-and-forget -/
def exCfg : Cfg := { n := 3, kind := fun i => match i with | 0 => .reply | 1 => .ack | _ => .fire, ackMode := true }

def exSched : List Lbl :=
  [.acquire 1, .send 1, .peer, .recv 1, .release 1,
   .acquire 2, .send 2, .release 2,
   .acquire 0, .send 0, .peer, .peer, .recv 0, .release 0]

example : (run exCfg init exSched).isSome = true := by decide
example : (run exCfg init exSched).map (fun s => (s.trace, enabled exCfg s)) =
    some ([.req 1, .rep 1 1, .req 2, .req 0, .rep 0 0], []) := by decide
example : (run exCfg init exSched).map (fun s => [s.got 0, s.got 1, s.got 2]) =
    some [some 0, some 1, none] := by decide
/-- a blocked acquire: caller 0 cannot take the lock while caller 1 is between send and receive -/
example : (run exCfg init [.acquire 1, .send 1, .acquire 0]).isSome = false := by decide
/-- a blocked read: the peer has not answered yet -/
example : (run exCfg init [.acquire 1, .send 1, .recv 1]).isSome = false := by decide
/-- an outstanding reply exists in a reachable state (hypothesis of `pending_implies_holder`) -/
example : (run exCfg init [.acquire 1, .send 1]).map (fun s => outstanding exCfg s) = some [1] := by decide

/-! ## the invariant is not vacuous: the variant that drops the guard between send and receive -/

def brCfg : Cfg := { n := 2, kind := fun _ => .reply, ackMode := false }

/-- In the broken variant a second request is written between a request and the consumption of its reply. -/
theorem broken_variant_not_atomic :
    ∃ (ls : List Lbl) (s : St), runBroken brCfg init ls = some s ∧ ¬ Atomic brCfg.reads s.trace := by
  refine ⟨[.acquire 0, .send 0, .acquire 1, .send 1], _, rfl, ?_⟩
  intro h
  obtain ⟨t, ht⟩ := h [] [] [] 0 1 rfl rfl
  simp at ht

/-- … and a caller consumes the reply to another caller's request. -/
theorem broken_variant_wrong_reply :
    ∃ (ls : List Lbl) (s : St), runBroken brCfg init ls = some s ∧ ¬ OwnReply s.trace ∧ s.got 1 = some 0 := by
  refine ⟨[.acquire 0, .send 0, .acquire 1, .send 1, .peer, .peer, .recv 1], _, rfl, ?_, rfl⟩
  intro h
  have := h 1 0 (by decide)
  cases this

/-- the same schedule is refused by the faithful model (the second acquire blocks) -/
example : (run brCfg init [.acquire 0, .send 0, .acquire 1, .send 1]).isSome = false := by decide

end Props.C10
