import VhostModel.Spec.Locks
import VhostModel.Model.Locks
import VhostModel.Lemmas.Locks

/-!
# C10 — concurrent callers get their own replies: request/response pairs are atomic

`Model.Locks` is the transition system of N caller threads over one `Arc<Mutex<…Internal>>` endpoint
(`Frontend`, `Backend` proxy, `GpuBackend`), with the per-call steps `acquire · send · recv|skip ·
release` of the Rust methods and a peer that answers in arrival order.  All theorems are for every
configuration `c` (any number of callers, any mix of reply-bearing / acknowledged / fire-and-forget /
locally-rejected calls, REPLY_ACK on or off) and every schedule, i.e. every label sequence `ls`
accepted by `step` from `init`.

* `pending_implies_holder` — state invariant: a request whose reply has not been consumed is on the
  wire ⇒ it is the only one, and its sender holds the lock;
* `transaction_atomic` — the history satisfies `Spec.Locks.Atomic`: between `req i` and the
  consumption of its reply no `req j` occurs;
* `own_reply` — every reply consumed is tagged with the consumer's own request, and every completed
  reply-reading call did consume one;
* `all_complete` — no deadlock (some label enabled while a caller is unfinished), the measure
  "remaining steps" strictly decreases with every step, hence every maximal run finishes all callers and
  no run is longer than `8·n` steps;
* `scan_sound`, `ownReplyB_iff` — the executable judges used by the spec driver on the implementation's
  observed histories imply the declarative Spec clauses;
* `trace_is_projection` — the ghost history is exactly the projection of the schedule to its send/recv
  labels;
* `broken_variant_not_atomic`, `broken_variant_wrong_reply` — in the variant that drops the guard
  between send and receive a schedule violates atomicity, and one hands a caller another caller's reply.

The invariant (`Lemmas.Locks.Inv`: lock ⇔ program counters, at most one outstanding reply and it
belongs to the lock holder, consumed tags are own tags, the history is accepted by `Spec.Locks.scan`
with the outstanding caller as its state) and its preservation by each label, and the measure lemmas,
are in `Lemmas/Locks.lean`.

Assumed (DESIGN §6): `std::sync::Mutex` gives mutual exclusion; the socket is a FIFO per direction;
the peer produces a reply exactly for the requests whose caller reads one; fairness of the OS
scheduler for liveness ("every maximal run").
-/

namespace Props.C10
open Model.Locks Spec.Locks Lemmas.Locks

/-! ## the judges of `Spec.Locks` are sound -/

/-- A history accepted by the executable judge satisfies the declarative atomicity clause. -/
theorem scan_sound (ex : Nat → Bool) (o0 o : Option Nat) (tr : List Ev)
    (h : scan ex o0 tr = some o) : Atomic ex tr := by
  intro pre mid post i j htr hex
  subst htr
  rw [scan_append] at h
  cases h1 : scan ex o0 pre with
  | none => simp [h1] at h
  | some o1 =>
    simp only [h1, Option.bind_some] at h
    cases o1 with
    | some k => simp [scan, scanStep] at h
    | none =>
      simp only [scan, scanStep, hex, if_true] at h
      exact scan_open_mid ex i j mid post o h

theorem atomicB_sound (ex : Nat → Bool) (tr : List Ev) (h : atomicB ex tr = true) : Atomic ex tr := by
  unfold atomicB at h
  cases h1 : scan ex none tr with
  | none => simp [h1] at h
  | some o => exact scan_sound ex none o tr h1

theorem ownReplyB_iff (tr : List Ev) : ownReplyB tr = true ↔ OwnReply tr := by
  unfold ownReplyB OwnReply
  rw [List.all_eq_true]
  constructor
  · intro h i t hm
    have := h _ hm
    simpa using this
  · intro h e he
    cases e with
    | req i => rfl
    | rep i t => simpa using h i t he

example : atomicB (fun _ => true) [.req 0, .rep 0 0, .req 1, .rep 1 1] = true := by decide
example : atomicB (fun _ => true) [.req 0, .req 1, .rep 0 0, .rep 1 1] = false := by decide
example : ¬ Atomic (fun _ => true) [.req 0, .req 1] := by
  intro h
  obtain ⟨t, ht⟩ := h [] [] [] 0 1 rfl rfl
  simp at ht

/-! ## C10, clause 1: transactions are atomic -/

/-- State form: a reply that is owed or in flight (its request has been written, the reply has not
been consumed) is the only one, and the caller it belongs to holds the lock and sits between its send
and its receive. -/
theorem pending_implies_holder (c : Cfg) (ls : List Lbl) (s : St) (hr : run c init ls = some s)
    (i : Nat) (hi : i ∈ outstanding c s) :
    outstanding c s = [i] ∧ s.holder = some i ∧ s.pc i = .sent := by
  have h := inv_reachable c ls s hr
  rcases h.out with h0 | ⟨j, hj, hpc, _⟩
  · rw [h0] at hi; cases hi
  · rw [hj] at hi; simp at hi; subst hi
    exact ⟨hj, h.lock i (Or.inr (Or.inl hpc)), hpc⟩

/-- Consequently no caller other than the one with the outstanding reply can write a request. -/
theorem no_foreign_send_while_pending (c : Cfg) (ls : List Lbl) (s : St) (hr : run c init ls = some s)
    (i j : Nat) (hi : i ∈ outstanding c s) : step c s (.send j) = none := by
  obtain ⟨_, hold, hpc⟩ := pending_implies_holder c ls s hr i hi
  have h := inv_reachable c ls s hr
  simp only [step]
  split
  · rename_i hc
    have := h.lock j (Or.inl hc.1)
    rw [hold] at this; cases this
    rw [hpc] at hc; cases hc.1
  · rfl

/-- Trace form (the property's first clause): in the history of every schedule, between a request that
has a reply and the consumption of that reply no other request is written. -/
theorem transaction_atomic (c : Cfg) (ls : List Lbl) (s : St) (hr : run c init ls = some s) :
    Atomic c.reads s.trace :=
  scan_sound c.reads none _ s.trace (inv_reachable c ls s hr).tr

/-! The ghost history is the projection of the schedule to its wire labels. -/

def wireLbl : Ev → Lbl
  | .req i => .send i
  | .rep i _ => .recv i

def isWire : Lbl → Bool
  | .send _ => true
  | .recv _ => true
  | _ => false

theorem trace_is_projection_from (c : Cfg) (s s' : St) (ls : List Lbl) (hr : run c s ls = some s') :
    s'.trace.map wireLbl = s.trace.map wireLbl ++ ls.filter isWire := by
  induction ls generalizing s with
  | nil => simp [run] at hr; subst hr; simp
  | cons l ls ih =>
    simp only [run] at hr
    split at hr
    · simp at hr
    · rename_i s1 hs1
      rw [ih s1 hr]
      cases l with
      | acquire i =>
        simp only [step] at hs1; split at hs1 <;> simp at hs1
        subst hs1; simp [List.filter, isWire]
      | send i =>
        simp only [step] at hs1; split at hs1 <;> simp at hs1
        subst hs1; simp [List.filter, isWire, wireLbl]
      | peer =>
        simp only [step] at hs1; split at hs1 <;> simp at hs1
        subst hs1; simp [List.filter, isWire]
      | recv i =>
        simp only [step] at hs1
        split at hs1
        · split at hs1 <;> simp at hs1
          subst hs1; simp [List.filter, isWire, wireLbl]
        · simp at hs1
      | release i =>
        simp only [step] at hs1; split at hs1 <;> simp at hs1
        subst hs1; simp [List.filter, isWire]

theorem trace_is_projection (c : Cfg) (ls : List Lbl) (s : St) (hr : run c init ls = some s) :
    s.trace.map wireLbl = ls.filter isWire := by
  simpa [init] using trace_is_projection_from c init s ls hr

/-! ## C10, clause 2: every caller receives the reply to its own request -/

theorem own_reply (c : Cfg) (ls : List Lbl) (s : St) (hr : run c init ls = some s) :
    OwnReply s.trace ∧
    (∀ i, s.pc i = .done → c.reads i = true → s.got i = some i) ∧
    (∀ i t, s.got i = some t → t = i) := by
  have h := inv_reachable c ls s hr
  refine ⟨h.trOwn, fun i hd hrd => h.gotOwn i (Or.inr ⟨hd, hrd⟩), ?_⟩
  -- `got` is only ever written by `recv`, which stores the caller's own tag
  suffices H : ∀ (s0 : St), Inv c s0 → (∀ i t, s0.got i = some t → t = i) →
      ∀ s1, run c s0 ls = some s1 → ∀ i t, s1.got i = some t → t = i from
    H init (inv_init c) (by simp [init]) s hr
  clear hr h s
  induction ls with
  | nil => intro s0 _ hg s1 hr; simp [run] at hr; subst hr; exact hg
  | cons l ls ih =>
    intro s0 h0 hg s1 hr
    simp only [run] at hr
    split at hr
    · simp at hr
    · rename_i s2 hs2
      refine ih s2 (inv_step c s0 s2 l h0 hs2) ?_ s1 hr
      cases l with
      | recv k =>
        have hk := (inv_recv c s0 s2 k h0 hs2).2
        intro i t hit
        simp only [step] at hs2
        split at hs2
        · split at hs2 <;> simp at hs2
          subst hs2
          by_cases e : i = k
          · subst e; rw [hk] at hit; cases hit; rfl
          · simp only [upd_other _ _ e] at hit; exact hg i t hit
        · simp at hs2
      | acquire k =>
        simp only [step] at hs2; split at hs2 <;> simp at hs2
        subst hs2; exact hg
      | send k =>
        simp only [step] at hs2; split at hs2 <;> simp at hs2
        subst hs2; exact hg
      | peer =>
        simp only [step] at hs2; split at hs2 <;> simp at hs2
        subst hs2; exact hg
      | release k =>
        simp only [step] at hs2; split at hs2 <;> simp at hs2
        subst hs2; exact hg

/-! ## C10, clause 3: all calls complete -/

/-- No deadlock (in particular no self-deadlock): in every reachable state in which some caller has
not finished, some label is enabled. -/
theorem no_deadlock (c : Cfg) (ls : List Lbl) (s : St) (hr : run c init ls = some s)
    (i : Nat) (hi : i < c.n) (hnd : s.pc i ≠ .done) : enabled c s ≠ [] := by
  have h := inv_reachable c ls s hr
  suffices H : ∃ l, l ∈ allLabels c.n ∧ (step c s l).isSome = true by
    obtain ⟨l, hl, hsome⟩ := H
    intro hnil
    have : l ∈ enabled c s := by simp [enabled, hl, hsome]
    rw [hnil] at this; cases this
  cases hh : s.holder with
  | none =>
    have hidle : s.pc i = .idle := by
      cases hp : s.pc i with
      | idle => rfl
      | done => exact absurd hp hnd
      | locked => have := h.lock i (Or.inl hp); rw [hh] at this; cases this
      | sent => have := h.lock i (Or.inr (Or.inl hp)); rw [hh] at this; cases this
      | got => have := h.lock i (Or.inr (Or.inr hp)); rw [hh] at this; cases this
    exact ⟨.acquire i, (mem_allLabels c.n i hi).1, by simp [step, hi, hidle, hh]⟩
  | some k =>
    have hk := h.held k hh
    have hkn : k < c.n := h.range k (by rcases hk with hp | hp | hp <;> rw [hp] <;> simp)
    have hm := mem_allLabels c.n k hkn
    rcases hk with hp | hp | hp
    · cases hsn : c.sends k
      · exact ⟨.release k, hm.2.2.2, by simp [step, hh, hp, hsn]⟩
      · exact ⟨.send k, hm.2.1, by simp [step, hp, hsn]⟩
    · cases hrd : c.reads k
      · exact ⟨.release k, hm.2.2.2, by simp [step, hh, hp, hrd]⟩
      · have hopn := h.opn k hp hrd
        cases hq : s.repQ with
        | cons t w => exact ⟨.recv k, hm.2.2.1, by simp [step, hp, hrd, hq]⟩
        | nil =>
          cases hrq : s.reqQ with
          | nil => simp [outstanding, hq, hrq] at hopn
          | cons r q => exact ⟨.peer, mem_allLabels_peer c.n, by simp [step, hrq]⟩
    · exact ⟨.release k, hm.2.2.2, by simp [step, hh, hp]⟩

/-- Progress.  For every schedule `ls` reaching `s`:
(1) if some caller is unfinished, some label is enabled (no deadlock, no self-deadlock);
(2) every further step strictly decreases the measure, and `|ls| + measure s ≤ 8·n`, so no run is
    longer than `8·n` steps;
(3) hence a maximal run (no label enabled at its end) has finished all callers. -/
theorem all_complete (c : Cfg) (ls : List Lbl) (s : St) (hr : run c init ls = some s) :
    (∀ i, i < c.n → s.pc i ≠ .done → enabled c s ≠ []) ∧
    (∀ l s', step c s l = some s' → Model.Locks.measure c s' < Model.Locks.measure c s) ∧
    ls.length + Model.Locks.measure c s ≤ 8 * c.n ∧
    (enabled c s = [] → ∀ i, i < c.n → s.pc i = .done) := by
  have h := inv_reachable c ls s hr
  refine ⟨fun i hi hnd => no_deadlock c ls s hr i hi hnd,
          fun l s' hs => measure_step c s s' l h hs, ?_, ?_⟩
  · have := run_measure c init s ls (inv_init c) hr
    rw [measure_init] at this; exact this
  · intro hnil i hi
    cases hp : s.pc i with
    | done => rfl
    | _ => exact absurd hnil (no_deadlock c ls s hr i hi (by rw [hp]; simp))

/-! ## the hypotheses are satisfiable: a concrete mixed configuration and schedule -/

/-- three callers: reply-bearing, acknowledged (REPLY_ACK on), fire-and-forget -/
def exCfg : Cfg := ⟨3, fun i => match i with | 0 => .reply | 1 => .ack | _ => .fire, true⟩

def exSched : List Lbl :=
  [.acquire 1, .send 1, .peer, .recv 1, .release 1,
   .acquire 2, .send 2, .release 2,
   .acquire 0, .send 0, .peer, .peer, .recv 0, .release 0]

example : (run exCfg init exSched).isSome = true := by decide
example : (run exCfg init exSched).map (fun s => (s.trace, enabled exCfg s)) =
    some ([.req 1, .rep 1 1, .req 2, .req 0, .rep 0 0], []) := by decide
example : (run exCfg init exSched).map (fun s => [s.got 0, s.got 1, s.got 2]) =
    some [some 0, some 1, none] := by decide
/-- a blocked acquire: caller 0 cannot take the lock while caller 1 is between send and receive -/
example : (run exCfg init [.acquire 1, .send 1, .acquire 0]).isSome = false := by decide
/-- a blocked read: the peer has not answered yet -/
example : (run exCfg init [.acquire 1, .send 1, .recv 1]).isSome = false := by decide
/-- an outstanding reply exists in a reachable state (hypothesis of `pending_implies_holder`) -/
example : (run exCfg init [.acquire 1, .send 1]).map (fun s => outstanding exCfg s) = some [1] := by decide

/-! ## the invariant is not vacuous: the variant that drops the guard between send and receive -/

def brCfg : Cfg := ⟨2, fun _ => .reply, false⟩

/-- In the broken variant a second request is written between a request and the consumption of its reply. -/
theorem broken_variant_not_atomic :
    ∃ (ls : List Lbl) (s : St), runBroken brCfg init ls = some s ∧ ¬ Atomic brCfg.reads s.trace := by
  refine ⟨[.acquire 0, .send 0, .acquire 1, .send 1], _, rfl, ?_⟩
  intro h
  obtain ⟨t, ht⟩ := h [] [] [] 0 1 rfl rfl
  simp at ht

/-- … and a caller consumes the reply to another caller's request. -/
theorem broken_variant_wrong_reply :
    ∃ (ls : List Lbl) (s : St), runBroken brCfg init ls = some s ∧ ¬ OwnReply s.trace ∧ s.got 1 = some 0 := by
  refine ⟨[.acquire 0, .send 0, .acquire 1, .send 1, .peer, .peer, .recv 1], _, rfl, ?_, rfl⟩
  intro h
  have := h 1 0 (by decide)
  cases this

/-- the same schedule is refused by the faithful model (the second acquire blocks) -/
example : (run brCfg init [.acquire 0, .send 0, .acquire 1, .send 1]).isSome = false := by decide

end Props.C10
