import VhostModel.Lemmas.HelpersModel
import VhostModel.Props.C04Owed
/-!
# The helper logic of the model is the helper code of the source

`Gen/Helpers.lean` is regenerated on every run from the bodies of the private helper functions of
`impl BackendReqHandler` (`backend_req_handler.rs`) and of `take_single_file` (`mod.rs`): for each helper the ordered
early exits (the Rust condition translated to a `Bool` function of the inputs, the side condition under which its `usize`
arithmetic is defined, the error), the raw reads of the message buffer (raw pointer casts) and the terminal action (which
handler method with which argument expressions / which reply / what is returned); vocabulary and evaluation
(`HelperSig.run`: first failing check, or `pass`, or `fault` when undefined arithmetic or a read outside the buffer is
reached first) in `Base/HelperSig.lean`.

The theorems say, for **all** states, headers, bodies, file lists and handler outcomes, that the hand-transcribed helper
logic of `Model.BackendSrv.runGuard` / `runAct` does what the generated program does: it refuses exactly when a generated
check fails (with that check's error), it never reaches a `fault`, and when every check passes it invokes the same
handler method with the values of the generated argument expressions.  The inputs of the generated program are read off
the model's context by `Lemmas.Helpers.inOf` & co. (`size = buf.len() =` length of the received body).

Preconditions under which the model's formulation is the source's (each is established by an earlier stage of
`handle_request`, and the statement is false without it — see the `…_counterexample`s):
* `check_request_size` tests `hdr.get_version() != 1`; the model's `checkSize` does not: every header that reaches the
  dispatch passed the header validator, which demands version 1 (`version_of_valid_header`,
  `step_dispatch_version_1`);
* `handle_vring_fd_request` tests `buf.len() > MAX_MSG_SIZE`; the model's `.vringFd` guard does not: in every arm it
  directly follows `.sizeIs (.ofT "VhostUserU64")`, after which the body has 8 bytes (`vring_fd_preceded_by_size`).
Redundant in the source, absent from the model: `VhostUserConfigFlags::from_bits(msg.flags)` after `msg.is_valid()`
(`Lemmas.Helpers.cfg_flags_of_valid`).
-/
namespace Props.Helpers
open Base HelperSig Model.Stream Model.Msgs Model.BackendSrv Gen.Helpers Lemmas.Helpers

/-- `mem::size_of::<T>()` as the translator computed it = the size the generated layout table gives -/
theorem sizes_match_layout : Gen.Helpers.sizes.all (fun p => structSize p.1 == some p.2) = true := by decide

/-! ## (a) `check_request_size` -/

/-- the model's size guard accepts exactly when the generated check of `check_request_size` passes -/
theorem check_request_size_matches (h : Hdr) (size expected : Nat) (hv : h.flags &&& 3 = 1) :
    checkSize h size expected = true ↔
      run check_request_size.bufLen check_request_size.steps
        { size := size, expected := expected, hdrSize := h.size, hdrFlags := h.flags } = .pass := by
  simp only [check_request_size.steps, run, crs_cond h size expected hv]
  cases checkSize h size expected <;> simp

/-- … and refuses with `InvalidMessage` otherwise; the program has no `fault` -/
theorem check_request_size_refuses (h : Hdr) (size expected : Nat) (hv : h.flags &&& 3 = 1) :
    checkSize h size expected = false ↔
      run check_request_size.bufLen check_request_size.steps
        { size := size, expected := expected, hdrSize := h.size, hdrFlags := h.flags } = .err .invalidMessage := by
  simp only [check_request_size.steps, run, crs_cond h size expected hv]
  cases checkSize h size expected <;> simp

/-- without the version precondition the two differ: version 2, everything else in order -/
theorem check_request_size_version_counterexample :
    checkSize ⟨3, 2, 0⟩ 0 0 = true ∧
      run check_request_size.bufLen check_request_size.steps { size := 0, expected := 0, hdrSize := 0, hdrFlags := 2 } =
        .err .invalidMessage := by decide

/-- the protocol rule for headers (which `Props.C20` proves equivalent to the generated header validator) gives version 1 -/
theorem version_of_valid_header {codes : List Nat} {code flags size : Nat}
    (h : Spec.validHeader codes code flags size) : flags &&& 3 = 1 := by
  rw [and3_eq_mod]; exact h.2.2.1

/-- whatever one `handle_request` hands to the handler went through `dispatch` with a header of version 1 -/
theorem step_dispatch_version_1 {σ : Type} (ch : Chooser σ) (cl : Bool) (st : BSt) (cst : σ) (s : List Cell) (h : HOut) :
    (step ch cl st cst s h).o.calls = [] ∨
      ∃ hdr buf files, (step ch cl st cst s h).o.calls = (dispatch st hdr buf files h).calls ∧ hdr.flags &&& 3 = 1 := by
  rcases Props.C04Owed.step_calls_via_guarded_dispatch ch cl st cst s h with h0 | ⟨hdr, buf, files, hc, _, _, hvh, _⟩
  · exact Or.inl h0
  · exact Or.inr ⟨hdr, buf, files, hc, version_of_valid_header hvh⟩

/-- the three size guards of the model are `check_request_size` with the expected size the arm passes -/
theorem sizeIs_matches (st : BSt) (c : Ctx) (s : SizeReq) (n : Nat) (hv : c.hdr.flags &&& 3 = 1)
    (hn : match s with | .zero => n = 0 | .any => n = c.hdr.size | .ofT ty => structSize ty = some n) :
    (runGuard st c (.sizeIs s) = .ok c ∧
      run check_request_size.bufLen check_request_size.steps { inOf st c with expected := n } = .pass) ∨
    (runGuard st c (.sizeIs s) = .error .invalidMsg ∧
      run check_request_size.bufLen check_request_size.steps { inOf st c with expected := n } = .err .invalidMessage) := by
  simp only [check_request_size.steps, run, inOf, crs_cond c.hdr c.buf.length n hv]
  cases s with
  | zero => subst hn; simp only [runGuard]; cases checkSize c.hdr c.buf.length 0 <;> simp
  | any => subst hn; simp only [runGuard]; cases checkSize c.hdr c.buf.length c.hdr.size <;> simp
  | ofT ty => simp only [runGuard, hn]; cases checkSize c.hdr c.buf.length n <;> simp

/-! ## (b) `check_attached_files` -/

theorem fdCodes_match : fdCodes = check_attached_files.fileCodes := by decide

/-- the attached-file policy `step` applies (`files.isSome && !fdCodes.contains code` ⇒ `InvalidMessage`) is the generated one -/
theorem check_attached_files_matches (code : Nat) (files : Option (List Fd)) :
    run check_attached_files.bufLen check_attached_files.steps
        { code := code, filesIsSome := files.isSome, nfiles := (files.getD []).length } =
      if files.isSome && !fdCodes.contains code then .err .invalidMessage else .pass := by
  simp only [check_attached_files.steps, run, ← fdCodes_match]
  cases files.isSome <;> cases fdCodes.contains code <;> rfl

/-! ## (c) `handle_vring_fd_request` -/

/-- the model's `.vringFd` guard accepts exactly when the generated checks pass, never faults, and hands over the ring
index `value % 256` and the single received file, which is present iff bit 8 of the value is clear -/
theorem vring_fd_matches (st : BSt) (c : Ctx) (hlen : c.buf.length ≤ 0x1000) :
    (run handle_vring_fd_request.bufLen handle_vring_fd_request.steps (vringEnv st c) = .err .invalidMessage ∧
      runGuard st c .vringFd = .error .invalidMsg) ∨
    (run handle_vring_fd_request.bufLen handle_vring_fd_request.steps (vringEnv st c) = .pass ∧
      ∃ c', runGuard st c .vringFd = .ok c' ∧
        Val.nats handle_vring_fd_request.rets (vringEnv st c) = [c'.index8] ∧
        Val.optFileOf handle_vring_fd_request.rets (vringEnv st c) = some c'.file.isSome ∧
        c'.file = (takeSingle c.files).1 ∧
        c'.index8 = (u64N c.buf).value % 256 ∧
        c'.file.isSome = !bitSet (u64N c.buf).value 8) := by
  have hb := and_two_pow_beq_zero (u64N c.buf).value 8
  simp only [Nat.reducePow] at hb
  by_cases h8 : c.buf.length < 8
  · left
    simp [handle_vring_fd_request.steps, run, vringEnv, inOf, runGuard, h8]
  · have h8' : 8 ≤ c.buf.length := by omega
    have hv := u64N_value h8'
    simp only [handle_vring_fd_request.steps, run, handle_vring_fd_request.bufLen, vringEnv, inOf, runGuard,
      handle_vring_fd_request.rets, Val.nats, Val.optFileOf, take_single_file.isSome, hb, ← hv, bitSet,
      Gen.VhostUserU64.isValid]
    cases hbit : (u64N c.buf).value.testBit 8 <;>
      rcases hf : c.files with _ | (_ | ⟨f, _ | ⟨f2, t⟩⟩) <;>
      simp [takeSingle, h8, hlen, h8'] <;> omega

/-- in every arm of the dispatch table the `.vringFd` guard directly follows the 8-byte size guard … -/
theorem vring_fd_preceded_by_size :
    ∀ a ∈ arms, Guard.vringFd ∈ a.guards → a.guards = [.sizeIs (.ofT "VhostUserU64"), .vringFd] := by decide

/-- … after which the body has exactly 8 bytes: the bound `vring_fd_matches` needs -/
theorem size_guard_gives_8 (st : BSt) (c c' : Ctx) (h : runGuard st c (.sizeIs (.ofT "VhostUserU64")) = .ok c') :
    c' = c ∧ c.buf.length = 8 := by
  have hs : structSize "VhostUserU64" = some 8 := by decide
  simp only [runGuard, hs] at h
  split at h
  · rename_i hc
    simp only [checkSize, Bool.and_eq_true, beq_iff_eq] at hc
    exact ⟨by simpa using h.symm, hc.2⟩
  · simp at h

/-- taken alone, the model's `.vringFd` guard lacks the upper bound of the source: any body of 4097 bytes that starts
with eight zero bytes, with one file -/
theorem vring_fd_upper_bound_counterexample (tail : Bytes) (ht : tail.length = 4089) :
    let c : Ctx := { hdr := ⟨12, 1, 8⟩, buf := [0, 0, 0, 0, 0, 0, 0, 0] ++ tail, files := some [5] }
    (∃ c', runGuard {} c .vringFd = .ok c') ∧
      run handle_vring_fd_request.bufLen handle_vring_fd_request.steps (vringEnv {} c) = .err .invalidMessage := by
  refine ⟨?_, ?_⟩
  · simp [runGuard, takeSingle, bitSet, leVal, ht]
  · simp [handle_vring_fd_request.steps, run, vringEnv, inOf, ht]

/-! ## (d) `set_mem_table` -/

/-- the model's memory-table action is refused (with `InvalidMessage`, handler not invoked) exactly when one of the
generated checks of `set_mem_table` fails — request size consistent, `size ≥ header`, header valid,
`size = header + n·region`, files present, `files.len() = n`, every region valid, evaluated in the order of the source
(no read of the buffer is reached before the length checks that cover it: no `fault`) — and otherwise invokes
`set_mem_table` with the `n` regions decoded at offset 8 and all the received files, returning the handler's result -/
theorem set_mem_table_matches (st : BSt) (c : Ctx) (h : HOut) (hv : c.hdr.flags &&& 3 = 1) :
    (run set_mem_table.bufLen set_mem_table.steps (memEnv st c) = .err .invalidMessage ∧
      runAct st c h .memTable = refused st c) ∨
    (run set_mem_table.bufLen set_mem_table.steps (memEnv st c) = .pass ∧
      ∃ fs, c.files = some fs ∧
        Val.sliceOf set_mem_table.args (memEnv st c) = some (8, (memN c.buf).num_regions) ∧
        Val.hasFiles set_mem_table.args = true ∧
        runAct st c h .memTable =
          { st := st,
            calls := [⟨"set_mem_table",
              (regionsOf c.buf (memN c.buf).num_regions 8).flatMap (fun r =>
                [(regionN r).guest_phys_addr, (regionN r).memory_size, (regionN r).user_addr, (regionN r).mmap_offset]),
              [], fs⟩],
            out := ackOf st c.hdr h.ok, res := if h.ok then .ok else .err .handlerErr }) := by
  have hs1 : structSize "VhostUserMemory" = some 8 := by decide
  have hs2 : structSize "VhostUserMemoryRegion" = some 32 := by decide
  have hn := memN_lt c.buf
  have hd2 : decide ((memN c.buf).num_regions * 32 < 18446744073709551616) = true := by
    simp only [decide_eq_true_eq]; omega
  have hd3 : decide (8 + (memN c.buf).num_regions * 32 < 18446744073709551616) = true := by
    simp only [decide_eq_true_eq]; omega
  have hgn : g c.buf "VhostUserMemory" ["num_regions"] = (memN c.buf).num_regions := rfl
  simp only [set_mem_table.steps, run, set_mem_table.bufLen, memEnv, inOf, crs_cond c.hdr c.buf.length c.hdr.size hv,
    hd2, hd3, runAct, hs1, hs2, refused, set_mem_table.args, Val.sliceOf, Val.hasFiles, hgn]
  cases hcs : checkSize c.hdr c.buf.length c.hdr.size
  · simp
  by_cases h8 : c.buf.length < 8
  · simp [h8]
  have h8' : 8 ≤ c.buf.length := by omega
  simp only [bodyValid_memory_take h8']
  by_cases hval : Gen.VhostUserMemory.isValid (memN c.buf).bv = true
  · by_cases hsz : c.buf.length ≠ 8 + (memN c.buf).num_regions * 32
    · simp [hsz, hval]
    have hsz' : c.buf.length = 8 + (memN c.buf).num_regions * 32 := by omega
    cases hf : c.files with
    | none => simp [hsz', hval]
    | some fs =>
      by_cases hnf : fs.length ≠ (memN c.buf).num_regions
      · simp [hsz', hnf, hval]
      have hnf' : fs.length = (memN c.buf).num_regions := by omega
      have hall := regions_all_iff c.buf (memN c.buf).num_regions hsz'
      by_cases hany : ((regionsOf c.buf (memN c.buf).num_regions 8).map regionN).any
          (fun r => !(Gen.VhostUserMemoryRegion.isValid r.bv)) = true
      · rw [hany] at hall
        simp [hsz', hnf', hval, hany, hall]
      · have hany' : ((regionsOf c.buf (memN c.buf).num_regions 8).map regionN).any
            (fun r => !(Gen.VhostUserMemoryRegion.isValid r.bv)) = false := by simpa using hany
        rw [hany'] at hall
        have hlt : ¬ (8 + (memN c.buf).num_regions * 32 < 8) := by omega
        simp [hsz', hnf', hval, hany', hall, hlt, regionN]
  · simp [h8, hval]

/-- the handler's result is what `set_mem_table` returns -/
theorem set_mem_table_returns : set_mem_table.term.retOf = some .res := rfl

/-- the reads of `set_mem_table`: the 8-byte head at 0, then `n` regions of 32 bytes at 8 -/
theorem set_mem_table_reads (st : BSt) (c : Ctx) :
    decodes set_mem_table.steps (memEnv st c) = [(0, 8), (8, (memN c.buf).num_regions * 32)] := rfl

/-- corollary: the handler is not invoked iff the generated program does not pass -/
theorem set_mem_table_refused_iff (st : BSt) (c : Ctx) (h : HOut) (hv : c.hdr.flags &&& 3 = 1) :
    (runAct st c h .memTable).calls = [] ↔
      run set_mem_table.bufLen set_mem_table.steps (memEnv st c) ≠ .pass := by
  rcases set_mem_table_matches st c h hv with ⟨hr, ho⟩ | ⟨hr, fs, _, _, _, ho⟩
  · rw [hr, ho]; simp [refused]
  · rw [hr, ho]; simp

/-! ## (e) `get_config`, `set_config` -/

/-- the model's GET_CONFIG action refuses exactly when a generated check of `get_config` fails (no acknowledgement: the
error leaves `handle_request` through `?`), never faults, and otherwise invokes `get_config(msg.offset, msg.size, flags)`
and replies by the first arm of the generated `match res` whose guard holds: the handler's buffer is echoed (reply
`(offset, buf.len(), flags)` + payload) iff the handler returned `Ok(buf)` with `buf.len() = msg.size`, otherwise the
zero-size reply `(offset, 0, flags)`; the reply always fits `new_reply_header`'s bound -/
theorem get_config_matches (st : BSt) (c : Ctx) (h : HOut) :
    (run get_config.bufLen get_config.steps (getCfgEnv st c h) = .err .invalidMessage ∧
      runAct st c h .getConfig = refusedNoAck st c) ∨
    (run get_config.bufLen get_config.steps (getCfgEnv st c h) = .pass ∧
      ∃ arm, selectArm get_config.arms (getCfgEnv st c h) = some arm ∧
        arm.payload = (h.ok && h.b.length == (cfgN c.buf).size) ∧
        12 + arm.payloadLen (getCfgEnv st c h) ≤ 0x1000 ∧
        runAct st c h .getConfig =
          { st := st, calls := [⟨"get_config", Val.nats get_config.args (getCfgEnv st c h), [], []⟩],
            out := replyHdr c.hdr (12 + arm.payloadLen (getCfgEnv st c h)) ++
              (arm.fields.map (fun f => f (getCfgEnv st c h))).flatMap (leBytes 4) ++ (if arm.payload then h.b else []),
            closed := c.leftover }) := by
  have hs : structSize "VhostUserConfig" = some 12 := by decide
  have hg1 : g c.buf "VhostUserConfig" ["offset"] = (cfgN c.buf).offset := rfl
  have hg2 : g c.buf "VhostUserConfig" ["size"] = (cfgN c.buf).size := rfl
  have hg3 : g c.buf "VhostUserConfig" ["flags"] = (cfgN c.buf).flags := rfl
  simp only [get_config.steps, run, get_config.bufLen, getCfgEnv, inOf, runAct, hs, refusedNoAck, get_config.args,
    get_config.arms, Val.nats, selectArm, hg1, hg2, hg3]
  by_cases hl : c.buf.length > 0x1000 ∨ c.buf.length < 12
  · have : (decide (c.buf.length > 0x1000) || decide (c.buf.length < 12)) = true := by simpa using hl
    simp [this]
  have hl1 : ¬ c.buf.length > 0x1000 := fun x => hl (Or.inl x)
  have hl2 : 12 ≤ c.buf.length := by omega
  have hl3 : ¬ c.buf.length < 12 := by omega
  simp only [bodyValid_config_take hl2]
  by_cases hval : Gen.VhostUserConfig.isValid (cfgN c.buf).bv = true
  · have hfl := cfg_flags_of_valid hval
    by_cases hsz : c.buf.length - 12 ≠ (cfgN c.buf).size
    · simp [hl1, hl2, hl3, hval, hsz]
    have hsz' : c.buf.length - 12 = (cfgN c.buf).size := by omega
    have hlt := (cfgN_lt c.buf).2.1
    have hfit : 12 + (cfgN c.buf).size ≤ 4096 := by omega
    cases hok : h.ok
    · simp [hl1, hl2, hl3, hval, hsz', hfl, leBytes]
    · by_cases hb : h.b.length = (cfgN c.buf).size
      · simp [hl1, hl2, hl3, hval, hsz', hfl, hb, Nat.mod_eq_of_lt hlt, hfit]
      · simp [hl1, hl2, hl3, hval, hsz', hfl, hb]
  · simp [hl1, hl3, hval]

/-- the model's SET_CONFIG action: refused exactly when a generated check of `set_config` fails, no fault; otherwise
`set_config(msg.offset, &buf[12..], flags)`, whose result is returned -/
theorem set_config_matches (st : BSt) (c : Ctx) (h : HOut) :
    (run set_config.bufLen set_config.steps (setCfgEnv st c) = .err .invalidMessage ∧
      runAct st c h .setConfig = refused st c) ∨
    (run set_config.bufLen set_config.steps (setCfgEnv st c) = .pass ∧
      ∃ off, Val.payloadOff set_config.args (setCfgEnv st c) = some off ∧
        runAct st c h .setConfig =
          { st := st, calls := [⟨"set_config", Val.nats set_config.args (setCfgEnv st c), c.buf.drop off, []⟩],
            out := ackOf st c.hdr h.ok, closed := c.leftover, res := if h.ok then .ok else .err .handlerErr }) := by
  have hs : structSize "VhostUserConfig" = some 12 := by decide
  have hg1 : g c.buf "VhostUserConfig" ["offset"] = (cfgN c.buf).offset := rfl
  have hg2 : g c.buf "VhostUserConfig" ["size"] = (cfgN c.buf).size := rfl
  have hg3 : g c.buf "VhostUserConfig" ["flags"] = (cfgN c.buf).flags := rfl
  simp only [set_config.steps, run, set_config.bufLen, setCfgEnv, inOf, runAct, hs, refused, set_config.args,
    Val.nats, Val.payloadOff, hg1, hg2, hg3]
  by_cases hl : c.buf.length > 0x1000 ∨ c.buf.length < 12
  · have : (decide (c.buf.length > 0x1000) || decide (c.buf.length < 12)) = true := by simpa using hl
    simp [this]
  have hl1 : ¬ c.buf.length > 0x1000 := fun x => hl (Or.inl x)
  have hl2 : 12 ≤ c.buf.length := by omega
  have hl3 : ¬ c.buf.length < 12 := by omega
  simp only [bodyValid_config_take hl2]
  by_cases hval : Gen.VhostUserConfig.isValid (cfgN c.buf).bv = true
  · have hfl := cfg_flags_of_valid hval
    by_cases hsz : c.buf.length - 12 ≠ (cfgN c.buf).size
    · simp [hl1, hl2, hl3, hval, hsz]
    have hsz' : c.buf.length - 12 = (cfgN c.buf).size := by omega
    simp [hl1, hl2, hl3, hval, hsz', hfl]
  · simp [hl1, hl3, hval]

theorem set_config_returns : set_config.term.retOf = some .res := rfl
theorem get_config_reads (st : BSt) (c : Ctx) (h : HOut) : decodes get_config.steps (getCfgEnv st c h) = [(0, 12)] := rfl
theorem set_config_reads (st : BSt) (c : Ctx) : decodes set_config.steps (setCfgEnv st c) = [(0, 12)] := rfl

/-! ## (f) `send_ack_message` -/

def ackEnv (st : BSt) (hdr : Hdr) (ok : Bool) : HIn :=
  { code := hdr.code, hdrFlags := hdr.flags, hdrSize := hdr.size, replyAck := st.replyAck, resOk := ok }

/-- `send_ack_message` has no early exit of its own; it writes iff `reply_ack_enabled ∧ need_reply`; what it writes is
the header `new_reply_header::<VhostUserU64>(req, 0)` builds (whose checks pass for a known request code on a socket
that has not failed) followed by the value 0 iff the handler's result is `Ok`; then the handler's result is returned.
The model's `ackOf` (and the `.ack` action around it) is exactly that. -/
theorem ack_matches (st : BSt) (hdr : Hdr) (ok : Bool) :
    send_ack_message.steps = [] ∧
    send_ack_message.term.sendCond (ackEnv st hdr ok) = some (st.replyAck && hdr.needReply) ∧
    send_ack_message.term.returnsRes = true ∧
    (Base.codeOk Gen.Codes.FrontendReq.table hdr.code = true →
      run send_ack_message.bufLen send_ack_message.sendSteps (ackEnv st hdr ok) = .pass) ∧
    send_ack_message.sendHdr.map (fun f => f (ackEnv st hdr ok)) = [hdr.code, hdrNewFlags 4, 8] ∧
    send_ack_message.sendFields.map (fun f => f (ackEnv st hdr ok)) = [if ok then 0 else 1] ∧
    ackOf st hdr ok =
      (if st.replyAck && hdr.needReply then
        (send_ack_message.sendHdr.map (fun f => f (ackEnv st hdr ok))).flatMap (leBytes 4) ++
          (send_ack_message.sendFields.map (fun f => f (ackEnv st hdr ok))).flatMap (leBytes 8)
       else []) := by
  have hb := and_two_pow_bne_zero hdr.flags 3
  simp only [Nat.reducePow] at hb
  refine ⟨rfl, ?_, rfl, ?_, ?_, ?_, ?_⟩
  · simp [send_ack_message.term, Term.sendCond, ackEnv, Hdr.needReply, bitSet, hb]
  · intro hc
    simp [send_ack_message.sendSteps, run, ackEnv, hc]
  · simp [send_ack_message.sendHdr, ackEnv, hdrNewFlags]
  · cases ok <;> simp [send_ack_message.sendFields, ackEnv]
  · cases ok <;> simp [send_ack_message.sendHdr, send_ack_message.sendFields, ackEnv, ackOf, replyHdr, encHdr, hdrNewFlags]

/-- the `.ack m` action: one handler invocation, `send_ack_message` on its result, the result returned -/
theorem ack_action (st : BSt) (c : Ctx) (h : HOut) (m : String) :
    (runAct st c h (.ack m)).out = ackOf st c.hdr h.ok ∧
      (runAct st c h (.ack m)).res = (if h.ok then .ok else .err .handlerErr) := ⟨rfl, rfl⟩

/-! ## the remaining helpers -/

/-- `take_single_file(files).is_some()` as translated from `mod.rs` = the model's `takeSingle` yields a file -/
theorem take_single_file_matches (st : BSt) (c : Ctx) :
    take_single_file.isSome (inOf st c) = (takeSingle c.files).1.isSome := by
  rcases hf : c.files with _ | (_ | ⟨f, _ | ⟨f2, t⟩⟩) <;> simp [take_single_file.isSome, inOf, takeSingle, hf]

/-- `extract_request_body::<T>`: the model's `.body ty` guard (`checkSize` with `size_of::<T>()`, then the generated
validator on the decoded body) passes exactly when the generated checks do; the read of `T` at 0 lies in the buffer -/
theorem extract_request_body_matches (st : BSt) (c : Ctx) (ty : String) (n : Nat) (hn : structSize ty = some n)
    (hv : c.hdr.flags &&& 3 = 1) :
    let e : HIn := { inOf st c with sizeOfT := n, msgValid := bodyValid ty c.buf == some true }
    (runGuard st c (.body ty) = .ok c ∧ run extract_request_body.bufLen extract_request_body.steps e = .pass) ∨
    (runGuard st c (.body ty) = .error .invalidMsg ∧
      run extract_request_body.bufLen extract_request_body.steps e = .err .invalidMessage) := by
  simp only [extract_request_body.steps, run, extract_request_body.bufLen, inOf, crs_cond c.hdr c.buf.length n hv,
    runGuard, hn]
  cases hcs : checkSize c.hdr c.buf.length n
  · simp
  have hl : c.buf.length = n := by
    simp only [checkSize, Bool.and_eq_true, beq_iff_eq] at hcs; exact hcs.2
  rcases hb : bodyValid ty c.buf with _ | (_ | _) <;> simp [hl]

/-- `check_feature(feat)` / `check_proto_feature(feat)` for a single-bit feature = the model's `.virtio bit` / `.proto bit` -/
theorem check_feature_matches (st : BSt) (c : Ctx) (bit : Nat) :
    (runGuard st c (.virtio bit) = .ok c ∧
      run check_feature.bufLen check_feature.steps { inOf st c with feat := 2 ^ bit } = .pass) ∨
    (runGuard st c (.virtio bit) = .error .inactiveFeature ∧
      run check_feature.bufLen check_feature.steps { inOf st c with feat := 2 ^ bit } = .err .inactiveFeature) := by
  simp only [check_feature.steps, run, inOf, runGuard, bitSet, and_two_pow_bne_zero]
  by_cases hb : st.acked.testBit bit = true <;> simp [hb]

theorem check_proto_feature_matches (st : BSt) (c : Ctx) (bit : Nat) :
    (runGuard st c (.proto bit) = .ok c ∧
      run check_proto_feature.bufLen check_proto_feature.steps { inOf st c with feat := 2 ^ bit } = .pass) ∨
    (runGuard st c (.proto bit) = .error .inactiveOperation ∧
      run check_proto_feature.bufLen check_proto_feature.steps { inOf st c with feat := 2 ^ bit } = .err .inactiveOperation) := by
  simp only [check_proto_feature.steps, run, inOf, runGuard, bitSet, and_two_pow_bne_zero]
  by_cases hb : st.ackedProto.testBit bit = true <;> simp [hb]

/-- `new_reply_header::<T>(req, p)` for a known request code, a socket that has not failed and `size_of::<T>() + p ≤
MAX_MSG_SIZE`: no check fails, no arithmetic overflows, and the header is the model's `replyHdr req (size_of::<T>() + p)` -/
theorem new_reply_header_matches (req : Hdr) (n p : Nat) (hfit : n + p ≤ 0x1000)
    (hc : Base.codeOk Gen.Codes.FrontendReq.table req.code = true) :
    let e : HIn := { code := req.code, hdrFlags := req.flags, hdrSize := req.size, sizeOfT := n, payloadSize := p }
    run new_reply_header.bufLen new_reply_header.steps e = .pass ∧
      new_reply_header.term.hdrOf e = some (req.code, hdrNewFlags 4, n + p) ∧
      replyHdr req (n + p) = encHdr req.code (hdrNewFlags 4) (n + p) := by
  have h1 : ¬ n > 4096 := by omega
  have h2 : ¬ p > 4096 := by omega
  have h3 : ¬ n + p > 4096 := by omega
  have h4 : n + p < 18446744073709551616 := by omega
  have h5 : (n + p) % 4294967296 = n + p := by omega
  simp [new_reply_header.steps, run, new_reply_header.term, Term.hdrOf, hc, h1, h2, h3, h4, h5, hdrNewFlags, replyHdr]

/-- … and it refuses with `InvalidParam` when the reply would exceed `MAX_MSG_SIZE` (sizes below `2^63`: no overflow) -/
theorem new_reply_header_refuses (req : Hdr) (n p : Nat) (hbig : n + p > 0x1000) (hn : n < 2 ^ 63) (hp : p < 2 ^ 63) :
    run new_reply_header.bufLen new_reply_header.steps
      { code := req.code, hdrFlags := req.flags, hdrSize := req.size, sizeOfT := n, payloadSize := p } =
        .err .invalidParam := by
  have h4 : n + p < 18446744073709551616 := by omega
  have h3 : n + p > 4096 := hbig
  simp [new_reply_header.steps, run, h3, h4]

/-- `set_backend_req_fd`: refused (handler not invoked) unless exactly one file arrived; then the handler gets that file
and the helper returns `Ok(())` whatever the handler does -/
theorem set_backend_req_fd_matches (st : BSt) (c : Ctx) (h : HOut) :
    (run set_backend_req_fd.bufLen set_backend_req_fd.steps (inOf st c) = .err .invalidMessage ∧
      (runAct st c h .backendReqFd).calls = [] ∧ (runAct st c h .backendReqFd).res = .err .invalidMsg ∧
      (runAct st c h .backendReqFd).out = ackOf st c.hdr false) ∨
    (run set_backend_req_fd.bufLen set_backend_req_fd.steps (inOf st c) = .pass ∧
      Val.hasFile set_backend_req_fd.args = true ∧ set_backend_req_fd.term.retOf = some .ok ∧
      ∃ f, c.files = some [f] ∧
        runAct st c h .backendReqFd =
          { st := st, calls := [⟨"set_backend_req_fd", [], [], [f]⟩], out := ackOf st c.hdr true }) := by
  simp only [set_backend_req_fd.steps, run, take_single_file_matches, runAct, set_backend_req_fd.args, Val.hasFile,
    set_backend_req_fd.term, Term.retOf]
  rcases hf : c.files with _ | (_ | ⟨f, _ | ⟨f2, t⟩⟩) <;> simp [takeSingle]

/-- `set_gpu_socket`: the same file rule; the handler's result is returned -/
theorem set_gpu_socket_matches (st : BSt) (c : Ctx) (h : HOut) :
    (run set_gpu_socket.bufLen set_gpu_socket.steps (inOf st c) = .err .invalidMessage ∧
      (runAct st c h .gpuSocket).calls = [] ∧ (runAct st c h .gpuSocket).res = .err .invalidMsg ∧
      (runAct st c h .gpuSocket).out = ackOf st c.hdr false) ∨
    (run set_gpu_socket.bufLen set_gpu_socket.steps (inOf st c) = .pass ∧
      Val.hasFile set_gpu_socket.args = true ∧ set_gpu_socket.term.retOf = some .res ∧
      ∃ f, c.files = some [f] ∧
        runAct st c h .gpuSocket =
          { st := st, calls := [⟨"set_gpu_socket", [], [], [f]⟩], out := ackOf st c.hdr h.ok,
            res := if h.ok then .ok else .err .handlerErr }) := by
  simp only [set_gpu_socket.steps, run, take_single_file_matches, runAct, set_gpu_socket.args, Val.hasFile,
    set_gpu_socket.term, Term.retOf]
  rcases hf : c.files with _ | (_ | ⟨f, _ | ⟨f2, t⟩⟩) <;> simp [takeSingle]

/-! ## non-vacuity -/

/-- SET_MEM_TABLE, one region -/
def exMem (files : Option (List Fd)) : Ctx :=
  { hdr := ⟨5, 1, 40⟩, files := files,
    buf := leBytes 4 1 ++ leBytes 4 0 ++ leBytes 8 0 ++ leBytes 8 0x1000 ++ leBytes 8 0x7000 ++ leBytes 8 0 }
/-- SET_CONFIG, offset 0, 4 bytes of payload -/
def exCfg : Ctx := { hdr := ⟨25, 1, 16⟩, files := none, buf := leBytes 4 0 ++ leBytes 4 4 ++ leBytes 4 0 ++ [1, 2, 3, 4] }
/-- SET_VRING_KICK, ring 2 -/
def exKick (files : Option (List Fd)) : Ctx := { hdr := ⟨12, 1, 8⟩, files := files, buf := leBytes 8 2 }

example : run set_mem_table.bufLen set_mem_table.steps (memEnv {} (exMem (some [7]))) = .pass := by decide
example : run set_mem_table.bufLen set_mem_table.steps (memEnv {} (exMem none)) = .err .invalidMessage := by decide
example : run set_config.bufLen set_config.steps (setCfgEnv {} exCfg) = .pass := by decide
example : run handle_vring_fd_request.bufLen handle_vring_fd_request.steps (vringEnv {} (exKick (some [5]))) = .pass := by
  decide
example : run handle_vring_fd_request.bufLen handle_vring_fd_request.steps (vringEnv {} (exKick none)) =
    .err .invalidMessage := by decide

end Props.Helpers
