import VhostModel.Gen.HandlerOps
import VhostModel.Lemmas.HandlerVringRows
import VhostModel.Lemmas.HandlerRingRows
import VhostModel.Lemmas.HandlerMemRows
import VhostModel.Lemmas.HandlerLogRows
/-!
# The daemon's request handler of the four models is the request handler of the source

`Gen.HandlerOps` is regenerated on every run from `vhost-user-backend/src/handler.rs` (`tools/rs2lean_handler.py`): for
every method of `impl VhostUserBackendReqHandlerMut for VhostUserHandler<T>`, in source order, the events of its body
(guards with their errors, effects, calls of private helpers with the helper's own events, loops, branches, the result),
the private helpers themselves, and the conditions / values that are pure arithmetic as Lean functions of `Base.HIn`.

Three layers, each a theorem:

1. **table = source** — `handler_ops_match_source` (the hand-written `Model.HandlerTable.modelHandlerOps` *is*
   `Gen.HandlerOps.rows`: no projection, every method, every event, in order), `helpers_match_source`,
   `helper_calls_consistent` (the events carried by a `helperCall` are the helper's body), `exprs_match_source` (same
   identifiers, and the same functions for all inputs).  A dropped, added, reordered or altered check, call, assignment
   or condition in `handler.rs` breaks these.  `source_guards`, `source_ring_calls`, `source_mem_shape`,
   `source_log_calls` restate slices of the generated table on their own, so that a change shows up by name.
2. **table = executable models**, for all states and arguments — the operations of the models are the *interpretation* of
   the rows (one interpreter per model over the same event type):
   * C14 `Model.Vring`: `vring_step_is_row` (every per-ring message, SET_FEATURES, SET_PROTOCOL_FEATURES,
     SET_BACKEND_REQ_FD: state and result), `vring_refused_iff` (refused with `e` iff the first event of the row that does
     not let the method go on ends it with `e`);
   * C11 `Model.RingReg`: `ring_control_is_rows` (SET_VRING_KICK/CALL/ENABLE, GET_VRING_BASE, SET_FEATURES, RESET_DEVICE —
     the helper calls `update_vring_registration` / `unregister_vring_kick` / `initialize_vring` run through their own
     events down to `epollRegister` / `epollUnregister`), `ring_control_pinned_kick` (the pinned rule of F-C11-rekick is
     the row with the two calls the repair added removed);
   * C13 `Model.MemTable`: `mem_step_is_rows`, `mem_effects_after_fallible`, `mem_update_memory_window`;
   * C15 `Model.Bitmap`: `log_step_is_rows`, `log_old_is_rows_without_log_region`, `log_events_where`.
3. **non-vacuity** — examples at the end.

## What the comparison found (reported, not hidden)

No row on which a model and the source disagree.  Recorded assumptions of the models, now visible in the table:

* **update_memory** (C13, known limit of `Model/MemTable.lean`): in `set_mem_table`, `add_mem_region`,
  `remove_mem_region` the source calls `self.backend.update_memory(..)` with `?` *after* `atomic_mem…replace(mem)` and
  *before* touching `self.mappings` (`mem_update_memory_window`).  The model takes the callback to be infallible; if it
  failed, the request would be refused with the new memory object installed and the old translation table kept — "a failed
  update changes nothing" holds of the source for every fallible step except this one.
* **queue masks** (C11 / C17): `update_vring_registration` and `unregister_vring_kick` compute `queues_mask >> index`;
  the extracted side condition of that expression is `index < 64` (`shift_needs_small_index`): for a ring index ≥ 64 the
  shift overflows (a panic in a build with overflow checks).  `Model.RingReg` reads the loop as "the one worker owns every
  ring" and identifies `index as u8` with `index`.
* **library steps outside a model**: `Model.Bitmap` takes `mmap_region`, `GuestRegionMmap::new`, `MmapLogReg::from_file`
  to succeed (it starts after the mapping was made); `Model.MemTable` reads `log_region` as the identity;
  `Model.Vring` does not read the epoll helpers; `Model.RingReg` keeps bit 30 of the feature word only.
-/
namespace Props.HandlerOps
open Base Model.HandlerTable

/-! ## 1. the table is the source -/

/-- **handler_ops_match_source**: every method of the `impl`, in source order, event by event -/
theorem handler_ops_match_source : modelHandlerOps = Gen.HandlerOps.rows :=
  rowsBeq_sound _ _ (by decide +kernel)

/-- the private helpers reached from the methods -/
theorem helpers_match_source : modelHelpers = Gen.HandlerOps.helpers :=
  rowsBeq_sound _ _ (by decide +kernel)

mutual
/-- every `helperCall` carries the body the helper has in `H` (`check_feature`: its one test, with the flag of the call) -/
def callsOk (H : List HRow) : HEvent → Bool
  | .act _ => true
  | .helperCall n _ _ b =>
    (match H.lookup n with
     | some hb =>
       HEvent.beqL hb b ||
       (n == "check_feature" &&
        HEvent.beqL hb [.ifCond "self.acked_features & feat.bits() != 0" [.ok] [.err "InactiveFeature"]] &&
        (match b with
         | [.act (.featureAcked _ e)] => e == "InactiveFeature"
         | _ => false))
     | none => false) && callsOkL H b
  | .forEachVring b => callsOkL H b
  | .forEach _ b => callsOkL H b
  | .ifCond _ t f => callsOkL H t && callsOkL H f
  | .ifSome _ t f => callsOkL H t && callsOkL H f
def callsOkL (H : List HRow) : List HEvent → Bool
  | [] => true
  | e :: es => callsOk H e && callsOkL H es
end

/-- the bodies carried by the `helperCall` events (in the methods and in the helpers) are the helpers' bodies -/
theorem helper_calls_consistent :
    (Gen.HandlerOps.rows.all fun r => callsOkL Gen.HandlerOps.helpers r.2) = true ∧
    (Gen.HandlerOps.helpers.all fun r => callsOkL Gen.HandlerOps.helpers r.2) = true := by
  decide +kernel

/-- **exprs_match_source**: the conditions and values the models compute are the translated ones — the same identifiers,
in order, and the same value and side condition for every input -/
theorem exprs_match_source :
    modelBoolExprs.map (·.1) = Gen.HandlerOps.boolExprs.map (·.1) ∧
    modelNatExprs.map (·.1) = Gen.HandlerOps.natExprs.map (·.1) ∧
    modelOpaqueExprs = Gen.HandlerOps.opaqueExprs ∧
    (∀ x : HIn, modelBoolExprs.map (fun e => (e.2.1 x, e.2.2 x)) = Gen.HandlerOps.boolExprs.map (fun e => (e.2.1 x, e.2.2 x))) ∧
    (∀ x : HIn, modelNatExprs.map (fun e => (e.2.1 x, e.2.2 x)) = Gen.HandlerOps.natExprs.map (fun e => (e.2.1 x, e.2.2 x))) :=
  ⟨by decide +kernel, by decide +kernel, by decide +kernel, fun _ => rfl, fun _ => rfl⟩

/-- the one constant the translator cannot read from /repo: `VIRTIO_RING_F_EVENT_IDX` of virtio-bindings; the model's value
(`Model.Vring.eventIdxBit`) is the same -/
theorem external_consts : Gen.HandlerOps.externalConsts = [("VIRTIO_RING_F_EVENT_IDX", Model.Vring.eventIdxBit)] := by decide

/-- `queues_mask >> index` is defined for ring indices below 64 only -/
theorem shift_needs_small_index (x : HIn) :
    ((Gen.HandlerOps.natExprs.lookup "queues_mask >> index").map (·.2 x)) = some (decide (x.index < 64)) := rfl

/-! ### slices of the generated table, by name -/

mutual
/-- the events of a row in order, loops and branches flattened; a helper call is listed by name as `bind "self" name`
(its body is not entered) -/
def flat : HEvent → List HAct
  | .act a => [a]
  | .helperCall n _ _ _ => [.bind "self" n]
  | .forEachVring b => flatL b
  | .forEach _ b => flatL b
  | .ifCond _ t f => flatL t ++ flatL f
  | .ifSome _ t f => flatL t ++ flatL f
def flatL : List HEvent → List HAct
  | [] => []
  | e :: es => flat e ++ flatL es
end

def isGuard : HAct → Bool
  | .indexBound _ | .featureAcked _ _ | .valueCheck _ _ | .requireSome _ _ | .addrTranslate _ _ _ | .vringTry _ _ _ _ => true
  | _ => false

def isRingCall : HAct → Bool
  | .vringCall m _ => m == "set_enabled" || m == "set_queue_ready" || m == "set_kick" || m == "set_call"
  | .bind "self" w => w == "update_vring_registration" || w == "unregister_vring_kick" || w == "initialize_vring"
  | _ => false

def isQueueCall : HAct → Bool
  | .vringCall m _ => !(m == "set_enabled" || m == "set_queue_ready" || m == "set_kick" || m == "set_call")
  | .vringTry _ _ _ _ => true
  | _ => false

def isMemStep : HAct → Bool
  | .libTry _ _ | .memReplace | .mappingsAssign | .mappingsPush _ | .mappingsRetain _ | .backendTry _ _ _ | .logAssign
  | .bitmapReplace => true
  | .bind "self" w => w == "log_region"
  | _ => false

def slice (p : HAct → Bool) (t : List HRow) : List (String × List HAct) :=
  (t.map fun r => (r.1, (flatL r.2).filter p)).filter fun r => !r.2.isEmpty

/-- **source_guards**: the guards of the source (own guards of the methods; `check_feature` is the helper call in front of
`set_vring_enable`'s), per method, in order -/
theorem source_guards : slice isGuard Gen.HandlerOps.rows = [
    ("set_owner", [.valueCheck "self.owned" "InvalidOperation"]),
    ("set_features", [.valueCheck "(features & !self.backend.features()) != 0" "InvalidParam"]),
    ("set_vring_num", [.indexBound "InvalidParam",
      .valueCheck "num == 0 || num as usize > self.max_queue_size" "InvalidParam"]),
    ("set_vring_addr", [.indexBound "InvalidParam",
      .addrTranslate "descriptor" "ReqHandlerError" "desc_table", .addrTranslate "available" "ReqHandlerError" "avail_ring",
      .addrTranslate "used" "ReqHandlerError" "used_ring",
      .vringTry "set_queue_info" ["desc_table", "avail_ring", "used_ring"] "InvalidParam" "",
      .vringTry "queue_used_idx" [] "BackendInternalError" "idx"]),
    ("set_vring_base", [.indexBound "InvalidParam"]),
    ("get_vring_base", [.indexBound "InvalidParam"]),
    ("set_vring_kick", [.indexBound "InvalidParam"]),
    ("set_vring_call", [.indexBound "InvalidParam"]),
    ("set_vring_err", [.indexBound "InvalidParam"]),
    ("set_vring_enable", [.indexBound "InvalidParam"]),
    ("postcopy_advice", [.valueCheck "uffd_dup < 0" "ReqHandlerError"]),
    ("postcopy_listen", [.requireSome "self.uffd" "ReqHandlerError"])] := by
  decide +kernel

/-- **source_ring_calls**: per method, the state changes on the vring object that matter to the registration and the
calls of the three registration helpers, in source order (C11) -/
theorem source_ring_calls : slice isRingCall Gen.HandlerOps.rows = [
    ("reset_device", [.vringCall "set_enabled" ["false"], .bind "self" "update_vring_registration"]),
    ("set_features", [.vringCall "set_enabled" ["true"], .bind "self" "update_vring_registration"]),
    ("get_vring_base", [.vringCall "set_queue_ready" ["false"], .bind "self" "update_vring_registration",
      .vringCall "set_kick" ["None"], .vringCall "set_call" ["None"]]),
    ("set_vring_kick", [.bind "self" "unregister_vring_kick", .vringCall "set_kick" ["file"],
      .bind "self" "initialize_vring", .bind "self" "update_vring_registration"]),
    ("set_vring_call", [.vringCall "set_call" ["file"], .bind "self" "initialize_vring"]),
    ("set_vring_enable", [.vringCall "set_enabled" ["enable"], .bind "self" "update_vring_registration"])] := by
  decide +kernel

/-- **source_queue_calls**: per method, the calls that configure the queue, with the values handed over (C14) -/
theorem source_queue_calls : slice isQueueCall Gen.HandlerOps.rows = [
    ("set_features", [.vringCall "set_queue_event_idx" ["event_idx"]]),
    ("set_vring_num", [.vringCall "set_queue_size" ["num as u16"]]),
    ("set_vring_addr", [.vringTry "set_queue_info" ["desc_table", "avail_ring", "used_ring"] "InvalidParam" "",
      .vringTry "queue_used_idx" [] "BackendInternalError" "idx", .vringCall "set_queue_next_used" ["idx"]]),
    ("set_vring_base", [.vringCall "set_queue_next_avail" ["base as u16"]]),
    ("set_vring_err", [.vringCall "set_err" ["file"]])] := by
  decide +kernel

/-- **source_mem_shape**: the fallible library steps, the calls of `log_region`, and the changes of memory object,
translation table and log, per method, in source order (C13, C15) -/
theorem source_mem_shape :
    (slice isMemStep Gen.HandlerOps.rows).filter (fun r => Lemmas.HandlerMem.memRows.contains r.1 || r.1 == "set_log_base") = [
    ("set_mem_table", [.libTry "mmap_region" "*", .libTry "GuestRegionMmap::new" "ReqHandlerError",
      .bind "self" "log_region", .libTry "GuestMemoryMmap::from_regions" "ReqHandlerError", .memReplace,
      .backendTry "update_memory" ["self.atomic_mem.clone()"] "ReqHandlerError", .mappingsAssign]),
    ("add_mem_region", [.libTry "mmap_region" "*", .libTry "GuestRegionMmap::new" "ReqHandlerError",
      .bind "self" "log_region", .libTry "insert_region" "ReqHandlerError", .memReplace,
      .backendTry "update_memory" ["self.atomic_mem.clone()"] "ReqHandlerError", .mappingsPush "addr_mapping"]),
    ("remove_mem_region", [.libTry "remove_region" "ReqHandlerError", .memReplace,
      .backendTry "update_memory" ["self.atomic_mem.clone()"] "ReqHandlerError",
      .mappingsRetain "mapping.gpa_base != region.guest_phys_addr"]),
    ("set_log_base", [.libTry "MmapLogReg::from_file" "ReqHandlerError", .libTry "InnerBitmap::new" "ReqHandlerError",
      .bitmapReplace, .logAssign])] := by
  decide +kernel

/-- the shape "state changes last" read off the *generated* rows (see `mem_effects_after_fallible`) -/
theorem source_effects_after_fallible :
    (Lemmas.HandlerMem.memRows.all fun n =>
      Lemmas.HandlerMem.effectsLast Lemmas.HandlerMem.HAct.fallible Lemmas.HandlerMem.HAct.assignsMappings
        (rowOf Gen.HandlerOps.rows n)) = true ∧
    (Lemmas.HandlerMem.memRows.all fun n =>
      Lemmas.HandlerMem.effectsLast Lemmas.HandlerMem.HAct.fallibleLib Lemmas.HandlerMem.HAct.replacesMemory
        (rowOf Gen.HandlerOps.rows n)) = true := by
  decide +kernel

/-! ## 2. the table is the executable models -/

section C14
open Model.Vring Lemmas.HandlerVring

/-- **vring_step_is_row** (C14): every message of `Model.Vring` that `handler.rs` serves with a method of its own is that
method's row, run on the daemon — state *and* result, for all states and arguments.  (`x`: the arguments by their Rust
names; the ring descriptor messages carry `payload as u8` as `index`.) -/
theorem vring_step_is_row (d : Daemon) :
    (∀ index num, step d (.setVringNum index num) = runRow "set_vring_num" d { index := index.toNat, num := num.toNat } none) ∧
    (∀ index desc used avail, step d (.setVringAddr index desc used avail) =
      runRow "set_vring_addr" d { index := index.toNat, descriptor := desc.toNat, used := used.toNat, available := avail.toNat } none) ∧
    (∀ index base, step d (.setVringBase index base) = runRow "set_vring_base" d { index := index.toNat, base := base.toNat } none) ∧
    (∀ index, step d (.getVringBase index) = runRow "get_vring_base" d { index := index.toNat } none) ∧
    (∀ payload fd, step d (.setVringKick payload fd) = runRow "set_vring_kick" d { index := fdIndex payload } fd) ∧
    (∀ payload fd, step d (.setVringCall payload fd) = runRow "set_vring_call" d { index := fdIndex payload } fd) ∧
    (∀ payload fd, step d (.setVringErr payload fd) = runRow "set_vring_err" d { index := fdIndex payload } fd) ∧
    (∀ index enable, step d (.setVringEnable index enable) =
      runRow "set_vring_enable" d { index := index.toNat, enable := enable } none) ∧
    (∀ f, step d (.setFeatures f) = runRow "set_features" d { features := f.toNat } none) ∧
    (∀ f, step d (.setProtocolFeatures f) = runRow "set_protocol_features" d { features := f.toNat } none) ∧
    step d .setBackendReqFd = runRow "set_backend_req_fd" d {} none :=
  ⟨set_vring_num_is_row d, set_vring_addr_is_row d, set_vring_base_is_row d, get_vring_base_is_row d,
   set_vring_kick_is_row d, set_vring_call_is_row d, set_vring_err_is_row d, set_vring_enable_is_row d,
   set_features_is_row d, set_protocol_features_is_row d, set_backend_req_fd_is_row d⟩

/-- **vring_refused_iff** (C14): whatever the method, it is refused with `e` exactly when some event of its row — the first,
in the row's order, that does not let the method go on — ends it with `e`, on the state the events before it produced -/
theorem vring_refused_iff (name : String) (d : Daemon) (x : HIn) (file : Option Nat) (e : Err) :
    (runRow name d x file).2 = .error e ↔
    ∃ pre g post, row name = pre ++ g :: post ∧ (evsV pre (startV d x file)).flow = .run ∧
      (evV g (evsV pre (startV d x file))).flow = .ret (.error e) := by
  rw [← first_refusing_event (row name) (startV d x file) rfl e]
  unfold runRow resultV
  cases h : (evsV (row name) (startV d x file)).flow with
  | run => simp
  | brk => simp
  | ret r => simp

/-- what the guards of the per-ring rows mean in `Model.Vring` (each by evaluation of `actV`) -/
theorem vring_guard_meaning (s : VS) (e : String) :
    (actV (.indexBound e) s).flow = (if s.d.vrings[s.x.index]?.isNone then .ret (.error (errOf e)) else s.flow) ∧
    (actV (.featureAcked 30 e) s).flow =
      (if s.d.ackedFeatures &&& protocolFeaturesBit == 0 then .ret (.error (errOf e)) else s.flow) ∧
    (actV (.valueCheck "num == 0 || num as usize > self.max_queue_size" e) s).flow =
      (if s.x.num == 0 || decide (s.x.num > s.d.maxQueueSize) then .ret (.error (errOf e)) else s.flow) := by
  refine ⟨?_, ?_, ?_⟩
  · cases h : s.d.vrings[s.x.index]? <;> simp [actV, VS.ring, h, fail]
  · rw [protocol_bit_clear]
    cases h : bitOf s.d.ackedFeatures 30 <;> simp [actV, h, fail]
  · by_cases h : (s.x.num == 0 || decide (s.x.num > s.d.maxQueueSize)) = true
    · simp only [actV, cond_num, sync, h, if_true, fail]
    · simp only [actV, cond_num, sync, h]; rfl

end C14

section C11
open Model.RingReg Lemmas.HandlerRing
open Spec.RingAutomaton (Msg)

/-- **ring_control_is_rows** (C11, repaired tree): with the connection open, every control message of `Model.RingReg` is
(a) what lies outside the handler — the descriptor carried by the message, the crate's own feature check in front of
SET_VRING_ENABLE, the reply owed for the handler's result — around (b) the method's row run by `evsR`, in which
`update_vring_registration`, `unregister_vring_kick`, `initialize_vring` are run through their own events where the row
has them -/
theorem ring_control_is_rows (s : St) (hc : s.conn = true) (hold : s.old = false) :
    (∀ r fd, control s (.setKick r fd) = ackReply (handle "set_vring_kick" (received s fd) r {} (carried s fd))) ∧
    (∀ r fd, control s (.setCall r fd) = ackReply (handle "set_vring_call" (received s fd) r {} (carried s fd))) ∧
    (∀ r on, control s (.setEnable r on) =
      if !s.ackedC then ({ s with conn := false }, .closed)
      else ackReply (handle "set_vring_enable" s r { enable := on } none)) ∧
    (∀ r, control s (.getBase r) = baseReply (handle "get_vring_base" s r {} none)) ∧
    (∀ proto, control s (.setFeatures proto) =
      ackReply (handle "set_features" { s with ackedC := proto } 0 { features := if proto then 0x40000000 else 0 } none)) ∧
    control s .reset = ackReply (handle "reset_device" s 0 {} none) :=
  control_is_rows s hc hold

/-- **ring_control_pinned_kick** (C11, F-C11-rekick): the variant of the model with the pinned rule (`old = true`) is the
row of `set_vring_kick` with the call of `unregister_vring_kick` removed and nothing done for a ring that needs no
initialisation — the two calls the repair added; every other message is the same row in both variants
(`setVringCall_is_row` … do not mention `old`) -/
theorem ring_control_pinned_kick (s : St) (hc : s.conn = true) (hold : s.old = true) (r : Nat) (fd : Bool) :
    control s (.setKick r fd) =
      ackReply (handleEvs (pinned (row "set_vring_kick")) (received s fd) r {} (carried s fd)) ∧
    pinned (row "set_vring_kick") = [
      .indexBound "InvalidParam", .vringCall "set_kick" ["file"],
      .ifCond needsInit [initializeVring] [], .ok] :=
  ⟨control_pinned_kick s hc hold r fd, pinned_row⟩

/-- the three helpers, event by event, are the model's functions -/
theorem ring_helpers (s : RS) (hs : s.flow = .run) (idx : String) :
    evR (updateReg idx) s = { s with st := Model.RingReg.updateReg s.st s.r } ∧
    evR (.helperCall "unregister_vring_kick" ["vring", "index"] false unregisterKickBody) s =
      { s with st := match (s.st.ring s.r).kick with
                     | some k => epollDel s.st k
                     | none => s.st } ∧
    evR initializeVring s = { s with st := Model.RingReg.initializeVring s.st s.r } :=
  ⟨evR_updateReg idx s hs, evR_unregister s hs, evR_initializeVring s hs⟩

end C11

section C13
open Model.MemTable Lemmas.HandlerMem
open Spec.MemTable (Req Op)

/-- **mem_step_is_rows** (C13): the three operations of `Model.MemTable` are their rows — refused exactly when one of the
row's fallible library steps fails, in the row's order, with the row's state changes otherwise -/
theorem mem_step_is_rows (s : St) (op : Op) :
    Model.MemTable.step s op =
      match op with
      | .setTable rs => runRow "set_mem_table" s rs ⟨0, 0, 0, 0, 0, false⟩
      | .add r => runRow "add_mem_region" s [] r
      | .remove g sz => runRow "remove_mem_region" s [] ⟨g, sz, 0, 0, 0, false⟩ :=
  step_is_rows s op

/-- **mem_effects_after_fallible** (C13, the shape of "a failed update changes nothing"): in the three rows `self.mappings`
is assigned / pushed to / pruned only after every step that can fail; the memory object is replaced only after every
fallible step other than the backend's `update_memory` -/
theorem mem_effects_after_fallible :
    (memRows.all fun n => effectsLast HAct.fallible HAct.assignsMappings (row n)) = true ∧
    (memRows.all fun n => effectsLast HAct.fallibleLib HAct.replacesMemory (row n)) = true ∧
    (memRows.all fun n => anyEvs HAct.replacesMemory (row n) && anyEvs HAct.assignsMappings (row n)) = true :=
  effects_after_fallible

/-- **mem_update_memory_window**: the one fallible step that follows a state change (see the header) -/
theorem mem_update_memory_window :
    (memRows.all fun n => effectsLast HAct.fallible HAct.replacesMemory (row n)) = false ∧
    (memRows.all fun n =>
      (row n).dropWhile (fun e => !anyEv HAct.replacesMemory e) |>.drop 1 |>.head? |>.any
        (fun e => e == HEvent.backendTry "update_memory" ["self.atomic_mem.clone()"] "ReqHandlerError")) = true :=
  update_memory_follows_replace

end C13

section C15
open Model.Bitmap Lemmas.HandlerLog

/-- **log_step_is_rows** (C15): `setLogBase`, `setMemTable`, `addMemReg`, `remMemReg` are their rows: `log_region` runs
(through its own events) for every region entering the table, before the table is replaced; `set_log_base` builds every
bitmap before it replaces any, and remembers the log last -/
theorem log_step_is_rows (s : HState) (op : Op) :
    Model.Bitmap.step s op =
      match op with
      | .setLogBase n => runRow "set_log_base" s n [] (0, 0)
      | .setMemTable regs => runRow "set_mem_table" s 0 regs (0, 0)
      | .addMemReg a l => runRow "add_mem_region" s 0 [] (a, l)
      | .remMemReg a l => runRow "remove_mem_region" s 0 [] (a, l) :=
  step_is_rows s op

/-- **log_old_is_rows_without_log_region** (F-C15-retain): the operations of the unrepaired tree are the same rows with the
calls of `log_region` removed -/
theorem log_old_is_rows_without_log_region (s : HState) :
    (∀ regs, setMemTableOld s regs = runEvs (dropLogRegions (row "set_mem_table")) s 0 regs (0, 0)) ∧
    (∀ a l, addMemRegOld s a l = runEvs (dropLogRegions (row "add_mem_region")) s 0 [] (a, l)) :=
  ⟨fun regs => setMemTableOld_is_row s regs 0 (0, 0), fun a l => addMemRegOld_is_row s a l 0 []⟩

/-- **log_events_where**: `log_region` is called by `set_mem_table` and `add_mem_region` and by no other method; the log
is remembered by `set_log_base` only -/
theorem log_events_where :
    (modelHandlerOps.filter fun r => r.2.any (callsHelper "log_region")).map (·.1) = ["set_mem_table", "add_mem_region"] ∧
    (modelHandlerOps.filter fun r => r.2.any (fun e => e == HEvent.logAssign)).map (·.1) = ["set_log_base"] :=
  Lemmas.HandlerLog.log_events_where

/-- `log_region`, event by event, is `Model.Bitmap.logRegion` -/
theorem log_region_helper (s : LS) (hs : s.flow = .run) (r : Reg) (hc : s.cur = some r) (hb : r.bitmap = none)
    (ht : s.inTable = false) :
    match Model.Bitmap.logRegion s.st r.start r.len with
    | none => (evL Model.HandlerTable.logRegion s).flow = .ret false ∧ (evL Model.HandlerTable.logRegion s).st = s.st
    | some r' => ∃ b l, evL Model.HandlerTable.logRegion s = { s with cur := some r', bm := b, log := l } :=
  evL_logRegion s hs r hc hb ht

end C15

/-! ## 3. non-vacuity -/

section Examples
open Model.Vring Lemmas.HandlerVring

def exDaemon : Daemon :=
  { vrings := [⟨⟨256, 256, false, 0, 0, false, 0, 0, 0, 0⟩, none, none, none, false⟩], maxQueueSize := 256, offered := 0xffffffff,
    ackedFeatures := 0, featuresAcked := false, ackedProto := 0, mem := Model.MemTable.St.init, files := fun _ _ => 0,
    counters := fun _ => 0, log := [] }

/-- an accepted SET_VRING_NUM through the row: the size is installed -/
example : ((runRow "set_vring_num" exDaemon { index := 0, num := 64 } none).1.vrings.map (·.queue.size),
    (runRow "set_vring_num" exDaemon { index := 0, num := 64 } none).2) = ([64], .ok .unit) := by decide

/-- the second guard of the row fires: refused with its error, nothing changed -/
example : ((runRow "set_vring_num" exDaemon { index := 0, num := 257 } none).1.vrings.map (·.queue.size),
    (runRow "set_vring_num" exDaemon { index := 0, num := 257 } none).2) = ([256], .error .invalidParam) := by decide

/-- the first guard of the row fires before the second is looked at -/
example : (runRow "set_vring_num" exDaemon { index := 1, num := 0 } none).2 = .error .invalidParam := by decide

/-- SET_VRING_ENABLE without bit 30 acknowledged: the feature guard, not the index guard -/
example : (runRow "set_vring_enable" exDaemon { index := 7, enable := true } none).2 = .error .inactiveFeature := by decide

open Model.RingReg Lemmas.HandlerRing in
/-- C11: SET_FEATURES without bit 30, then two SET_VRING_KICK on ring 0 through the rows: the second descriptor is
registered and the first is gone (repaired rule); with the pinned rule the first stays and the second is missing -/
example :
    let s0 := (handle "set_features" (Model.RingReg.init 1 (fun _ => 0) false) 0 { features := 0 } none).1
    let s1 := (handle "set_vring_kick" (alloc s0) 0 {} (some 0)).1
    let s2 := (handle "set_vring_kick" (alloc s1) 0 {} (some 1)).1
    let p1 := (handleEvs (pinned (row "set_vring_kick")) (alloc s0) 0 {} (some 0)).1
    let p2 := (handleEvs (pinned (row "set_vring_kick")) (alloc p1) 0 {} (some 1)).1
    (s2.reg 0, s2.reg 1, p2.reg 0, p2.reg 1) = (none, some 0, some 0, none) := by decide

open Model.MemTable Lemmas.HandlerMem in
/-- C13: an overlapping table is refused by the row's `from_regions` step and nothing changes -/
example :
    Lemmas.HandlerMem.runRow "set_mem_table" St.init [⟨0x1000, 0x2000, 0x7000, 0, 0, true⟩, ⟨0x2000, 0x1000, 0x9000, 0, 1, true⟩]
      ⟨0, 0, 0, 0, 0, false⟩ = (St.init, false) := by decide

open Model.Bitmap Lemmas.HandlerLog in
/-- C15: after SET_LOG_BASE the row of `add_mem_region` gives the new region a bitmap on the log; the row without
`log_region` does not -/
example :
    let s1 := (Lemmas.HandlerLog.runRow "set_log_base" HState.init 16 [] (0, 0)).getD HState.init
    ((Lemmas.HandlerLog.runRow "add_mem_region" s1 0 [] (0x1000, 0x1000)).map fun s => s.regions.map (·.bitmap.isSome),
     (runEvs (dropLogRegions (row "add_mem_region")) s1 0 [] (0x1000, 0x1000)).map fun s => s.regions.map (·.bitmap.isSome)) =
    (some [true], some [false]) := by decide

end Examples

end Props.HandlerOps
