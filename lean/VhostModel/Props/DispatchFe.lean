import VhostModel.Model.FrontendSrv
import VhostModel.Gen.DispatchFe
/-!
# The dispatch table of the frontend's request server model is the dispatch code of the source

`Gen.DispatchFe` is regenerated on every run from `FrontendReqHandler::handle_request` and `check_attached_files`
(`frontend_req_handler.rs`): per `Ok(BackendReq::X) => { … }` arm the size check or body extraction, the handler
method and whether it is handed `&files.unwrap()[0]`; the request codes for which exactly one descriptor is demanded
(every other code: none — the translator refuses any other shape of `check_attached_files`); the calls in front of and
behind the dispatch.  The theorems say the hand-written table interpreted by `Model.FrontendSrv.dispatch` is that list.
In particular `file_arms_are_file_codes` is what makes `files.unwrap()[0]` total: an arm uses the file iff
`check_attached_files` has demanded exactly one for its code.
-/
namespace Props.DispatchFe
open Base Model.FrontendSrv

def Arm.sig (a : Arm) : Nat × List Sig :=
  (a.code, (match a.body with | some t => [Sig.body t] | none => [Sig.sizeZero]) ++ [Sig.call a.method] ++
    (if a.file then [Sig.file "unwrap0"] else []))

theorem arms_match_source : arms.map Arm.sig = Gen.DispatchFe.sigs := by decide

theorem file_codes_match_source : fileCodes = Gen.DispatchFe.fileCodes := by decide

/-- an arm dereferences `files.unwrap()[0]` exactly when `check_attached_files` demanded one file for its code -/
theorem file_arms_are_file_codes :
    ∀ p ∈ Gen.DispatchFe.sigs, (p.2.contains (Sig.file "unwrap0")) = Gen.DispatchFe.fileCodes.contains p.1 := by decide

theorem prelude_order :
    Gen.DispatchFe.prelude = ["check_state", "recv_header", "check_attached_files", "recv_data"] ∧
    Gen.DispatchFe.epilogue = ["send_ack_message", "res"] := by decide

end Props.DispatchFe
