import VhostModel.Model.BackendSrv
import VhostModel.Gen.Dispatch
/-!
# The dispatch table of the model is the dispatch code of the source

`Gen.Dispatch.sigs` is regenerated on every run from `BackendReqHandler::handle_request`
(`backend_req_handler.rs`): for every `Ok(FrontendReq::X) => { … }` arm, the guard calls in front of the handler
invocation, in source order (feature checks, size checks, body extraction, file extraction, vring-fd parsing, enable
check), closed by the handler method (or the helper the arm delegates to).  The theorem says the hand-written table that
`Model.BackendSrv.dispatch` interprets is exactly that list — same arms, same order, same guards in the same order, same
handler method.  A dropped, added or reordered guard in the source therefore breaks this theorem (and with it the
checks of C04, C05 and C07, whose theorems are about the table).

Two kinds of generated entries are conversions that cannot fail once the body validator has passed and have no
counterpart in the table: `frombits:<Flags>` (`VhostUserVringAddrFlags::from_bits` after `VhostUserVringAddr::is_valid`
checked the same bits) and `convert` (direction/phase `try_into` after `VhostUserTransferDeviceState::is_valid`).
-/
namespace Props.Dispatch
open Model.BackendSrv

open Base

theorem arms_match_source :
    arms.map Arm.sig = Gen.Dispatch.sigs.map (fun p => (p.1, p.2.filter (fun s => !s.redundant))) := by
  decide

/-- header read, attached-file policy and body read come before the dispatch, in this order -/
theorem prelude_order : Gen.Dispatch.prelude = ["check_state", "recv_header", "check_attached_files", "recv_data"] := by
  decide

end Props.Dispatch
