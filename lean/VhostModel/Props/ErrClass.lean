import VhostModel.Gen.ErrClass
/-!
# How a raw socket errno becomes a vhost-user error class (C08, C16)

`Gen.ErrClass` is regenerated on every run by `tools/rs2lean_errno.py` from
`impl From<vmm_sys_util::errno::Error> for Error` (`vhost_user/mod.rs`): the arms of the `match err.errno()`.
The models use three facts about it as rules (`Model/BackendSrv.lean`, `Model/Frontend.lean`, `Model/FrontendSrv.lean`:
`ENOBUFS ↦ sockRetry`; `Model/Shutdown.lean`, the proxies: `EPIPE` / `ECONNRESET ↦ sockBroken`; everything the
kernel reports otherwise is `sockError`), and the correspondence harness prints exactly these classes.  Here they are
theorems about the generated table, for **every** errno value:

* `arms_are_model`          — the generated arms are the expected ones, in order, and the scrutinee is `err.errno()`;
* `classify_keeps_errno`    — for every errno `e` the error built carries `e` itself (no arm substitutes another code);
* `retry_iff`, `broken_iff`, `connect_iff`, `error_otherwise` — the class as a function of the errno, for all `e`;
* `model_rules`             — the three facts the models rely on.

Trusted here: the numeric values of the Linux errno constants (`errnoVal`, from `<asm-generic/errno*.h>`; on Linux
`EWOULDBLOCK = EAGAIN`).  Core Lean only.
-/
namespace Props.ErrClass

/-- Linux (asm-generic) values of the errno constants that occur in the table -/
def errnoVal : String → Option Nat
  | "EINTR" => some 4 | "EAGAIN" => some 11 | "EWOULDBLOCK" => some 11 | "ENOMEM" => some 12 | "EACCES" => some 13
  | "EPIPE" => some 32 | "ECONNRESET" => some 104 | "ENOBUFS" => some 105
  | _ => none

theorem arms_are_model :
    Gen.ErrClass.scrutinee = "err.errno()" ∧
    Gen.ErrClass.arms = [("EAGAIN", "SocketRetry", "EAGAIN"), ("EWOULDBLOCK", "SocketRetry", "EWOULDBLOCK"),
      ("EINTR", "SocketRetry", "EINTR"), ("ENOBUFS", "SocketRetry", "ENOBUFS"), ("ENOMEM", "SocketRetry", "ENOMEM"),
      ("ECONNRESET", "SocketBroken", "ECONNRESET"), ("EPIPE", "SocketBroken", "EPIPE"),
      ("EACCES", "SocketConnect", "EACCES")] ∧
    Gen.ErrClass.dflt = ("SocketError", "=") := by decide

/-- every constant of the table has a known value -/
theorem constants_known : ∀ a ∈ Gen.ErrClass.arms, (errnoVal a.1).isSome ∧ (errnoVal a.2.2).isSome := by decide

/-- first arm whose constant has value `e`: (variant, errno carried); the catch-all carries `e` -/
def classifyWith (arms : List (String × String × String)) (dflt : String × String) (e : Nat) : String × Option Nat :=
  match arms.find? (fun a => errnoVal a.1 == some e) with
  | some a => (a.2.1, errnoVal a.2.2)
  | none => (dflt.1, if dflt.2 == "=" then some e else none)

def classify (e : Nat) : String × Option Nat := classifyWith Gen.ErrClass.arms Gen.ErrClass.dflt e

private theorem classify_cases (e : Nat) :
    (e = 4 ∨ e = 11 ∨ e = 12 ∨ e = 13 ∨ e = 32 ∨ e = 104 ∨ e = 105) ∨
    (e ≠ 4 ∧ e ≠ 11 ∧ e ≠ 12 ∧ e ≠ 13 ∧ e ≠ 32 ∧ e ≠ 104 ∧ e ≠ 105) := by omega

private theorem classify_other (e : Nat)
    (h : e ≠ 4 ∧ e ≠ 11 ∧ e ≠ 12 ∧ e ≠ 13 ∧ e ≠ 32 ∧ e ≠ 104 ∧ e ≠ 105) : classify e = ("SocketError", some e) := by
  obtain ⟨h1, h2, h3, h4, h5, h6, h7⟩ := h
  have hne : ∀ k : Nat, k ≠ e → ((some k == some e) = false) := by
    intro k hk; simp [hk]
  simp only [classify, classifyWith, Gen.ErrClass.arms, Gen.ErrClass.dflt, List.find?, errnoVal,
    hne 11 (Ne.symm h2), hne 4 (Ne.symm h1), hne 105 (Ne.symm h7), hne 12 (Ne.symm h3), hne 104 (Ne.symm h6),
    hne 32 (Ne.symm h5), hne 13 (Ne.symm h4)]
  simp

/-- the error carries the errno it was built from — for every errno -/
theorem classify_keeps_errno (e : Nat) : (classify e).2 = some e := by
  rcases classify_cases e with h | h
  · rcases h with h | h | h | h | h | h | h <;> subst h <;> decide
  · rw [classify_other e h]

theorem retry_iff (e : Nat) : (classify e).1 = "SocketRetry" ↔ (e = 4 ∨ e = 11 ∨ e = 12 ∨ e = 105) := by
  rcases classify_cases e with h | h
  · rcases h with h | h | h | h | h | h | h <;> subst h <;> decide
  · rw [classify_other e h]; constructor
    · intro h'; exact absurd (show ("SocketError" : String) = "SocketRetry" from h') (by decide)
    · intro h'; omega

theorem broken_iff (e : Nat) : (classify e).1 = "SocketBroken" ↔ (e = 32 ∨ e = 104) := by
  rcases classify_cases e with h | h
  · rcases h with h | h | h | h | h | h | h <;> subst h <;> decide
  · rw [classify_other e h]; constructor
    · intro h'; exact absurd (show ("SocketError" : String) = "SocketBroken" from h') (by decide)
    · intro h'; omega

theorem connect_iff (e : Nat) : (classify e).1 = "SocketConnect" ↔ e = 13 := by
  rcases classify_cases e with h | h
  · rcases h with h | h | h | h | h | h | h <;> subst h <;> decide
  · rw [classify_other e h]; constructor
    · intro h'; exact absurd (show ("SocketError" : String) = "SocketConnect" from h') (by decide)
    · intro h'; omega

theorem error_otherwise (e : Nat) (h : e ≠ 4 ∧ e ≠ 11 ∧ e ≠ 12 ∧ e ≠ 13 ∧ e ≠ 32 ∧ e ≠ 104 ∧ e ≠ 105) :
    (classify e).1 = "SocketError" := by rw [classify_other e h]

/-- the rules the models use: a full queue (`ENOBUFS`) and a would-block are "retry", a reset or closed peer is
"broken", anything else (e.g. `EBADF` 9, `ENOTCONN` 107, `EMSGSIZE` 90) is a plain socket error -/
theorem model_rules :
    classify 105 = ("SocketRetry", some 105) ∧ classify 11 = ("SocketRetry", some 11) ∧
    classify 104 = ("SocketBroken", some 104) ∧ classify 32 = ("SocketBroken", some 32) ∧
    classify 9 = ("SocketError", some 9) ∧ classify 107 = ("SocketError", some 107) ∧ classify 90 = ("SocketError", some 90) := by
  decide

end Props.ErrClass
