import VhostModel.Lemmas.Vring
import VhostModel.Gen.Adapters

/-!
# C14 — ring configuration and negotiated features reach queues and backend unchanged

`Model.Vring` transcribes the ring part of `vhost-user-backend/src/handler.rs`, `vring.rs`, the `u8` index path of
`backend_req_handler.rs` and the setter rules of virtio-queue 0.17.0; `Spec.Vring` is the property statement;
`Gen.Adapters` is the delegation table regenerated from the adapter impls on every run.

* `num_applied`        a power of two up to the maximum is accepted and becomes the ring's size
* `num_rejected`       zero or a value above the maximum is refused with `InvalidParam`, nothing changes
* `num_other_ignored`  (recorded ambiguity, DESIGN.md "Limits") a value within the maximum that is not a power of two is
                       accepted by the handler and ignored by virtio-queue: answer Ok, ring unchanged
* `addr_applied`       after a successful SET_VRING_ADDR the three ring addresses are the translations of the three user
                       addresses (admissible for the current table in the sense of C13) and next-used is the 16-bit
                       little-endian value at `used + 2` of the *current* guest memory
* `base_roundtrip`     after SET_VRING_BASE b and any messages that are not a SET_VRING_BASE for that ring, GET_VRING_BASE
                       answers b (b ≤ 65535)
* `bad_index_rejected` every per-ring message (NUM, ADDR, BASE, GET_BASE, KICK, CALL, ERR, ENABLE — the `u32` index path and
                       the `payload as u8` path) with an index that is not a ring is refused and changes nothing
* `features_subset`    SET_FEATURES f is accepted iff f ⊆ offered
* `features_delivered` then the handler holds f, every ring's event-index flag is bit 29 of f, and the backend is told
                       `set_event_idx(bit 29)` and `acked_features(f)` — exactly these two calls
* `channel_inherits`   SET_BACKEND_REQ_FD hands the backend a channel with reply-ack / shared-object / shared-memory set to
                       bits 3 / 18 / 21 of the protocol features most recently set
* `ops_use_latest_table_and_call_fd`  after any history the memory the ring operations work on is the table of C13's fold
                       of the successful updates; `add_used` writes the element through that table at
                       `used + 4 + 8·(next_used % size)` and stores the new index at `used + 2`; `signal_used_queue`
                       increments exactly the counter of `Spec.currentCall` of the history, and nothing when there is none
* `adapters_delegate`  every method of the `Arc`/`Mutex`/`RwLock` adapter impls calls the same-named inner method with the
                       same arguments in the same order (generated table, `decide`)

Assumed: virtio-queue / vm-memory rules listed in the header of `Model/Vring.lean`; eventfd counter semantics.
-/

namespace Props.C14
open Model.Vring Lemmas.Vring
open Model.MemTable (translate)

/-! ### SET_VRING_NUM -/

/-- invariant established by `Daemon.new`: every queue's maximum is the backend's `max_queue_size` (which fits `u16`) -/
def MaxInv (d : Daemon) : Prop := ∀ v ∈ d.vrings, v.queue.maxSize = d.maxQueueSize

theorem maxInv_new (n max : Nat) (off : BitVec 64) (d : Daemon) (h : Daemon.new n max off = some d) (hm : max < 65536) :
    MaxInv d ∧ d.vrings.length = n ∧ d.maxQueueSize = max := by
  unfold Daemon.new at h
  cases hq : Queue.new (max % 65536) with
  | none => simp [hq] at h
  | some q =>
    simp only [hq, Option.map_some, Option.some.injEq] at h
    subst h
    refine ⟨?_, by simp, rfl⟩
    intro v hv
    simp only [List.mem_replicate] at hv
    rw [hv.2]
    unfold Queue.new at hq
    split at hq
    · cases hq
    · cases hq; simp; omega

/-- **a power of two up to the maximum is applied** -/
theorem num_applied (d : Daemon) (hinv : MaxInv d) (i n : BitVec 32) (hi : i.toNat < d.vrings.length)
    (hp : Spec.Vring.IsPow2 n.toNat) (hle : n.toNat ≤ d.maxQueueSize) (hmax : d.maxQueueSize ≤ 32768) :
    (step d (.setVringNum i n)).2 = .ok .unit ∧
    ((step d (.setVringNum i n)).1.vrings[i.toNat]?).map (·.queue.size) = some n.toNat ∧
    ∀ j, j ≠ i.toNat → (step d (.setVringNum i n)).1.vrings[j]? = d.vrings[j]? := by
  have hv : d.vrings[i.toNat]? = some d.vrings[i.toNat] := List.getElem?_eq_getElem hi
  have hn0 : n.toNat ≠ 0 := by
    obtain ⟨k, hk⟩ := hp; rw [hk]; exact Nat.ne_of_gt (Nat.two_pow_pos k)
  have hc : (n.toNat == 0 || decide (n.toNat > d.maxQueueSize)) = false := by simp [hn0]; omega
  simp only [step, hv, hc, Bool.false_eq_true, ↓reduceIte]
  refine ⟨trivial, ?_, ?_⟩
  · rw [setRing_get, hv]
    have hmod : n.toNat % 65536 = n.toNat := by omega
    have hq : d.vrings[i.toNat].queue.maxSize = d.maxQueueSize := hinv _ (List.getElem_mem hi)
    simp [hmod, setSize_pow2 _ _ (by omega : n.toNat ≤ d.vrings[i.toNat].queue.maxSize) hp]
  · intro j hj
    rw [setRing_get]
    cases d.vrings[j]? with
    | none => rfl
    | some v => simp [Ne.symm hj]
example : ∃ d, Daemon.new 3 1024 0 = some d ∧
    ((step d (.setVringNum 2 256)).1.vrings.map (·.queue.size)) = [1024, 1024, 256] := ⟨_, rfl, by decide⟩

/-- **zero or a value above the maximum is rejected, nothing changes** -/
theorem num_rejected (d : Daemon) (i n : BitVec 32) (h : n.toNat = 0 ∨ n.toNat > d.maxQueueSize) :
    (step d (.setVringNum i n)).2 = .error .invalidParam ∧ (step d (.setVringNum i n)).1 = d := by
  have hc : (n.toNat == 0 || decide (n.toNat > d.maxQueueSize)) = true := by
    rcases h with h | h <;> simp [h]
  simp only [step]
  cases d.vrings[i.toNat]? with
  | none => exact ⟨rfl, rfl⟩
  | some v => simp [hc]
example : ∃ d, Daemon.new 3 1024 0 = some d ∧ (step d (.setVringNum 1 1025)).2 = .error .invalidParam ∧
    (step d (.setVringNum 1 0)).2 = .error .invalidParam := ⟨_, rfl, by decide, by decide⟩

/-- **recorded ambiguity**: within the maximum but not a power of two — the handler answers Ok and the ring keeps its size
(virtio-queue logs and ignores the value).  The property statement is read as not covering this case. -/
theorem num_other_ignored (d : Daemon) (i n : BitVec 32) (hi : i.toNat < d.vrings.length)
    (h0 : n.toNat ≠ 0) (hle : n.toNat ≤ d.maxQueueSize) (hmax : d.maxQueueSize ≤ 32768) (hp : ¬ Spec.Vring.IsPow2 n.toNat) :
    (step d (.setVringNum i n)).2 = .ok .unit ∧ (step d (.setVringNum i n)).1.vrings = d.vrings := by
  have hv : d.vrings[i.toNat]? = some d.vrings[i.toNat] := List.getElem?_eq_getElem hi
  have hc : (n.toNat == 0 || decide (n.toNat > d.maxQueueSize)) = false := by simp [h0]; omega
  simp only [step, hv, hc, Bool.false_eq_true, ↓reduceIte]
  refine ⟨trivial, ?_⟩
  have hmod : n.toNat % 65536 = n.toNat := by omega
  apply List.ext_getElem?
  intro j
  rw [setRing_get]
  cases hj : d.vrings[j]? with
  | none => rfl
  | some v =>
    by_cases e : i.toNat = j
    · simp [e, hmod, setSize_not_pow2 _ _ hp]
    · simp [e]
example : ∃ d, Daemon.new 2 1024 0 = some d ∧ (step d (.setVringNum 0 768)).2 = .ok .unit ∧
    ((step d (.setVringNum 0 768)).1.vrings.map (·.queue.size)) = [1024, 1024] := ⟨_, rfl, by decide, by decide⟩

/-! ### SET_VRING_ADDR -/

/-- **the ring addresses are the translated user addresses and next-used is the used index in guest memory** -/
theorem addr_applied (d d' : Daemon) (i : BitVec 32) (desc used avail : BitVec 64)
    (h : step d (.setVringAddr i desc used avail) = (d', .ok .unit)) :
    ∃ v dt ar ur idx, d.vrings[i.toNat]? = some v ∧
      translate d.mem.mappings desc.toNat = some dt ∧ translate d.mem.mappings avail.toNat = some ar ∧
      translate d.mem.mappings used.toNat = some ur ∧
      dt % 16 = 0 ∧ ar % 2 = 0 ∧ ur % 4 = 0 ∧
      d.guestMem.loadU16 (ur + 2) = some idx ∧
      d'.vrings[i.toNat]? = some { v with queue := { v.queue with descTable := dt, availRing := ar, usedRing := ur, nextUsed := idx } } ∧
      (∀ j, j ≠ i.toNat → d'.vrings[j]? = d.vrings[j]?) ∧ d'.mem = d.mem := by
  simp only [step] at h
  split at h
  · cases h
  · rename_i v hv
    split at h
    · cases h
    · split at h
      · cases h
      · rename_i dt hdt
        split at h
        · cases h
        · rename_i ar har
          split at h
          · cases h
          · rename_i ur hur
            split at h
            · cases h
            · rename_i q1 hq
              split at h
              · cases h
              · rename_i idx hidx
                cases h
                -- the three alignment checks all passed
                have hq' : dt % 16 = 0 ∧ ar % 2 = 0 ∧ ur % 4 = 0 ∧
                    q1 = { v.queue with descTable := dt, availRing := ar, usedRing := ur } := by
                  unfold Queue.setQueueInfo Queue.trySetDesc Queue.trySetAvail Queue.trySetUsed at hq
                  by_cases h1 : dt % 16 = 0
                  · by_cases h2 : ar % 2 = 0
                    · by_cases h3 : ur % 4 = 0
                      · simp [h1, h2, h3] at hq
                        exact ⟨h1, h2, h3, hq.symm⟩
                      · simp [h1, h2, h3] at hq
                    · have h2' : ar % 2 = 1 := by omega
                      simp [h1, h2'] at hq
                  · simp [h1] at hq
                obtain ⟨h1, h2, h3, hq⟩ := hq'
                subst hq
                have hidx' : d.guestMem.loadU16 (ur + 2) = some idx := by
                  unfold Queue.usedIdx at hidx
                  split at hidx
                  · exact hidx
                  · cases hidx
                refine ⟨v, dt, ar, ur, idx, hv, hdt, har, hur, h1, h2, h3, hidx', ?_, ?_, rfl⟩
                · rw [setRing_get, hv]; simp
                · intro j hj
                  rw [setRing_get]
                  cases d.vrings[j]? with
                  | none => rfl
                  | some w => simp [Ne.symm hj]

/-- the installed addresses are answers the property admits for the table the state represents (C13) -/
theorem addr_applied_spec (d d' : Daemon) (T : List Spec.MemTable.Region) (hT : Lemmas.MemTable.Rel d.mem T)
    (i : BitVec 32) (desc used avail : BitVec 64) (h : step d (.setVringAddr i desc used avail) = (d', .ok .unit)) :
    ∃ v', d'.vrings[i.toNat]? = some v' ∧
      Spec.MemTable.translateOk T desc.toNat (some v'.queue.descTable) ∧
      Spec.MemTable.translateOk T avail.toNat (some v'.queue.availRing) ∧
      Spec.MemTable.translateOk T used.toNat (some v'.queue.usedRing) := by
  obtain ⟨v, dt, ar, ur, idx, _, h1, h2, h3, _, _, _, _, hv', _, _⟩ := addr_applied d d' i desc used avail h
  refine ⟨_, hv', ?_, ?_, ?_⟩
  · have := (Props_translate hT desc.toNat); rw [h1] at this; exact this
  · have := (Props_translate hT avail.toNat); rw [h2] at this; exact this
  · have := (Props_translate hT used.toNat); rw [h3] at this; exact this
where
  Props_translate {s : Model.MemTable.St} {T : List Spec.MemTable.Region} (h : Lemmas.MemTable.Rel s T) (va : Nat) :
      Spec.MemTable.translateOk T va (translate s.mappings va) := by
    have hmem : ∀ m, m ∈ s.mappings ↔ ∃ r ∈ T, Lemmas.MemTable.toMap r = m := by
      intro m; rw [h.mappings.mem_iff, List.mem_map]
    cases ht : translate s.mappings va with
    | none =>
      intro r hr
      exact Lemmas.MemTable.translate_none ht (Lemmas.MemTable.toMap r) ((hmem _).mpr ⟨r, hr, rfl⟩)
    | some g =>
      obtain ⟨pre, m, post, e, _, hm, hg⟩ := Lemmas.MemTable.translate_some ht
      have : m ∈ s.mappings := by rw [e]; simp
      obtain ⟨r, hr, rfl⟩ := (hmem m).mp this
      exact ⟨r, hr, hm, hg⟩

/-! ### SET_VRING_BASE / GET_VRING_BASE -/

theorem run_nextAvail (d : Daemon) (ms : List Msg) (i : Nat) (h : ∀ m ∈ ms, setsBase i m = false) :
    ((run d ms).1.vrings[i]?).map (·.queue.nextAvail) = (d.vrings[i]?).map (·.queue.nextAvail) := by
  induction ms generalizing d with
  | nil => rfl
  | cons m ms ih =>
    simp only [run]
    rw [ih _ (fun x hx => h x (List.mem_cons_of_mem _ hx)), step_nextAvail d m i (h m (by simp))]

/-- **GET_VRING_BASE returns the base unchanged when nothing was processed**: after `SET_VRING_BASE i b` and any further
messages and ring operations of the model other than a `SET_VRING_BASE` for ring `i` (none of them consumes an available
buffer), `GET_VRING_BASE i` answers `b` -/
theorem base_roundtrip (d : Daemon) (i b : BitVec 32) (ms : List Msg) (hi : i.toNat < d.vrings.length)
    (hb : b.toNat < 65536) (hms : ∀ m ∈ ms, setsBase i.toNat m = false) :
    (step d (.setVringBase i b)).2 = .ok .unit ∧
    (step (run (step d (.setVringBase i b)).1 ms).1 (.getVringBase i)).2 = .ok (.vringState i.toNat b.toNat) := by
  have hv : d.vrings[i.toNat]? = some d.vrings[i.toNat] := List.getElem?_eq_getElem hi
  have h1 : (step d (.setVringBase i b)).2 = .ok .unit := by simp [step, hv]
  refine ⟨h1, ?_⟩
  have hna : ((step d (.setVringBase i b)).1.vrings[i.toNat]?).map (·.queue.nextAvail) = some b.toNat := by
    simp only [step, hv]
    rw [setRing_get, hv]
    simp; omega
  have hrun := run_nextAvail (step d (.setVringBase i b)).1 ms i.toNat hms
  rw [hna] at hrun
  generalize (run (step d (.setVringBase i b)).1 ms).1 = d1 at hrun ⊢
  cases hv2 : d1.vrings[i.toNat]? with
  | none => rw [hv2] at hrun; simp at hrun
  | some v2 =>
    rw [hv2] at hrun
    simp only [Option.map_some, Option.some.injEq] at hrun
    simp [step, hv2, hrun]
example : ∃ d, Daemon.new 2 256 0 = some d ∧
    (step (run (step d (.setVringBase 1 0xfffe)).1 [.setVringNum 1 64, .setVringBase 0 7, .setVringKick 1 (some 3)]).1
      (.getVringBase 1)).2 = .ok (.vringState 1 0xfffe) := ⟨_, rfl, by decide⟩

/-! ### ring indexes -/

/-- the ring index the server derives from a per-ring message (`index as usize` for the `u32` messages, `payload as u8`
for the descriptor messages) -/
def ringIndex : Msg → Option Nat
  | .setVringNum i _ => some i.toNat
  | .setVringAddr i _ _ _ => some i.toNat
  | .setVringBase i _ => some i.toNat
  | .getVringBase i => some i.toNat
  | .setVringKick p _ => some (p.toNat % 256)
  | .setVringCall p _ => some (p.toNat % 256)
  | .setVringErr p _ => some (p.toNat % 256)
  | .setVringEnable i _ => some i.toNat
  | _ => none

theorem fdIndex_eq (p : BitVec 64) : fdIndex p = Spec.Vring.fdIndex p.toNat := by
  unfold fdIndex Spec.Vring.fdIndex
  rw [BitVec.toNat_setWidth]

/-- **an out-of-range ring index is rejected by every per-ring message**, and nothing changes -/
theorem bad_index_rejected (d : Daemon) (m : Msg) (i : Nat) (hm : ringIndex m = some i) (hi : d.vrings.length ≤ i) :
    (∃ e, (step d m).2 = .error e) ∧ (step d m).1 = d := by
  cases m with
  | setVringNum idx n =>
    simp only [ringIndex, Option.some.injEq] at hm
    have := getElem?_none_of_le (l := d.vrings) (i := idx.toNat) (by omega)
    simp [step, this]
  | setVringAddr idx a b c =>
    simp only [ringIndex, Option.some.injEq] at hm
    have := getElem?_none_of_le (l := d.vrings) (i := idx.toNat) (by omega)
    simp [step, this]
  | setVringBase idx n =>
    simp only [ringIndex, Option.some.injEq] at hm
    have := getElem?_none_of_le (l := d.vrings) (i := idx.toNat) (by omega)
    simp [step, this]
  | getVringBase idx =>
    simp only [ringIndex, Option.some.injEq] at hm
    have := getElem?_none_of_le (l := d.vrings) (i := idx.toNat) (by omega)
    simp [step, this]
  | setVringKick p fd =>
    simp only [ringIndex, Option.some.injEq] at hm
    have := getElem?_none_of_le (l := d.vrings) (i := fdIndex p) (by rw [fdIndex_eq]; unfold Spec.Vring.fdIndex; omega)
    simp [step, this]
  | setVringCall p fd =>
    simp only [ringIndex, Option.some.injEq] at hm
    have := getElem?_none_of_le (l := d.vrings) (i := fdIndex p) (by rw [fdIndex_eq]; unfold Spec.Vring.fdIndex; omega)
    simp [step, this]
  | setVringErr p fd =>
    simp only [ringIndex, Option.some.injEq] at hm
    have := getElem?_none_of_le (l := d.vrings) (i := fdIndex p) (by rw [fdIndex_eq]; unfold Spec.Vring.fdIndex; omega)
    simp [step, this]
  | setVringEnable idx en =>
    simp only [ringIndex, Option.some.injEq] at hm
    have := getElem?_none_of_le (l := d.vrings) (i := idx.toNat) (by omega)
    simp only [step, this]
    split <;> exact ⟨⟨_, rfl⟩, rfl⟩
  | setFeatures _ => cases hm
  | setProtocolFeatures _ => cases hm
  | setBackendReqFd => cases hm
  | mem _ => cases hm
  | addUsed _ _ _ => cases hm
  | signalUsed _ => cases hm
example : ∃ d, Daemon.new 3 256 0 = some d ∧ (step d (.setVringKick 0x103 (some 1))).2 = .error .invalidParam ∧
    (step d (.setVringKick 0x102 (some 1))).2 = .ok .unit ∧ (step d (.setVringNum 3 16)).2 = .error .invalidParam :=
  ⟨_, rfl, by decide, by decide, by decide⟩

/-! ### SET_FEATURES -/

/-- **SET_FEATURES is accepted only for a subset of the offered features** (iff) -/
theorem features_subset (d : Daemon) (f : BitVec 64) :
    ((step d (.setFeatures f)).2 = .ok .unit ↔ f &&& ~~~d.offered = 0#64) ∧
    ((step d (.setFeatures f)).2 = .ok .unit ↔ Spec.Vring.FeaturesSubset d.offered.toNat f.toNat) ∧
    ((step d (.setFeatures f)).2 ≠ .ok .unit → (step d (.setFeatures f)).1 = d) := by
  have key : (step d (.setFeatures f)).2 = .ok .unit ↔ f &&& ~~~d.offered = 0#64 := by
    simp only [step]
    by_cases h : f &&& ~~~d.offered = 0#64
    · simp [h]
    · simp [h]
  refine ⟨key, key.trans (and_not_eq_zero_iff_subset f d.offered), ?_⟩
  intro hne
  have : ¬ f &&& ~~~d.offered = 0#64 := fun h => hne (key.mpr h)
  simp [step, this]
example : ∃ d, Daemon.new 2 256 0x1_7000_0000 = some d ∧ (step d (.setFeatures 0x1_2000_0000)).2 = .ok .unit ∧
    (step d (.setFeatures 0x1_2000_0001)).2 = .error .invalidParam := ⟨_, rfl, by decide, by decide⟩

/-- **an accepted SET_FEATURES delivers exactly those bits to the backend and the EVENT_IDX setting to every queue and to
the backend** -/
theorem features_delivered (d : Daemon) (f : BitVec 64) (h : (step d (.setFeatures f)).2 = .ok .unit) :
    let d' := (step d (.setFeatures f)).1
    d'.ackedFeatures = f ∧
    (∀ v ∈ d'.vrings, v.queue.eventIdx = Spec.Vring.eventIdx f.toNat) ∧
    d'.vrings.length = d.vrings.length ∧
    d'.log = d.log ++ [.setEventIdx (Spec.Vring.eventIdx f.toNat), .ackedFeatures f] := by
  have hz : f &&& ~~~d.offered = 0#64 := (features_subset d f).1.mp h
  have hev : f.getLsbD eventIdxBit = Spec.Vring.eventIdx f.toNat := by
    unfold Spec.Vring.eventIdx eventIdxBit; rw [BitVec.testBit_toNat]
  have hcond : (f &&& ~~~d.offered != 0) = false := by rw [hz]; rfl
  simp only [step, hcond, Bool.false_eq_true, if_false]
  refine ⟨trivial, ?_, by simp, by rw [hev]⟩
  intro v hv
  simp only [List.mem_map] at hv
  obtain ⟨w, _, rfl⟩ := hv
  exact hev
example : ∃ d, Daemon.new 3 256 0x1_7000_0000 = some d ∧
    ((step d (.setFeatures 0x1_2000_0000)).1.vrings.map (·.queue.eventIdx)) = [true, true, true] ∧
    (step d (.setFeatures 0x1_2000_0000)).1.log = [.setEventIdx true, .ackedFeatures 0x1_2000_0000] := ⟨_, rfl, by decide, by decide⟩

/-! ### backend-request channel -/

theorem run_ackedProto (d : Daemon) (ms : List Msg) (h : ∀ m ∈ ms, ∀ p, m ≠ .setProtocolFeatures p) :
    (run d ms).1.ackedProto = d.ackedProto := by
  induction ms generalizing d with
  | nil => rfl
  | cons m ms ih =>
    simp only [run]
    rw [ih _ (fun x hx => h x (List.mem_cons_of_mem _ hx))]
    have hm := h m (by simp)
    cases m <;> simp only [step] <;> (repeat' split) <;> first | rfl | (exact absurd rfl (hm _))

/-- **a newly attached backend-request channel inherits the negotiated reply-ack, shared-object and shared-memory
settings**: the flags handed to the backend are bits 3, 18 and 21 of the protocol features most recently set -/
theorem channel_inherits (d : Daemon) (p : BitVec 64) (ms : List Msg) (h : ∀ m ∈ ms, ∀ q, m ≠ .setProtocolFeatures q) :
    let d1 := (run (step d (.setProtocolFeatures p)).1 ms).1
    (step d1 .setBackendReqFd).2 = .ok .unit ∧
    (step d1 .setBackendReqFd).1.log = d1.log ++
      [.setBackendReqFd (Spec.Vring.channelFlags p.toNat).1 (Spec.Vring.channelFlags p.toNat).2.1
        (Spec.Vring.channelFlags p.toNat).2.2] := by
  intro d1
  have hp : d1.ackedProto = p := by
    show (run (step d (.setProtocolFeatures p)).1 ms).1.ackedProto = p
    rw [run_ackedProto _ ms h]; rfl
  have b3 : protoBit d1 Gen.Flags.VhostUserProtocolFeatures.REPLY_ACK = p.toNat.testBit 3 := by
    have := protoBit_eq d1 3 (by decide); rw [hp, ← BitVec.testBit_toNat] at this; exact this
  have b18 : protoBit d1 Gen.Flags.VhostUserProtocolFeatures.SHARED_OBJECT = p.toNat.testBit 18 := by
    have := protoBit_eq d1 18 (by decide); rw [hp, ← BitVec.testBit_toNat] at this; exact this
  have b21 : protoBit d1 Gen.Flags.VhostUserProtocolFeatures.SHMEM = p.toNat.testBit 21 := by
    have := protoBit_eq d1 21 (by decide); rw [hp, ← BitVec.testBit_toNat] at this; exact this
  simp only [step, Spec.Vring.channelFlags, b3, b18, b21]
  exact ⟨trivial, trivial⟩
example : ∃ d, Daemon.new 1 256 0 = some d ∧
    (step (step d (.setProtocolFeatures 0x240008)).1 .setBackendReqFd).1.log = [.setBackendReqFd true true true] ∧
    (step (step d (.setProtocolFeatures 0x200000)).1 .setBackendReqFd).1.log = [.setBackendReqFd false false true] :=
  ⟨_, rfl, by decide, by decide⟩

/-! ### ring operations -/

/-- **ring operations act on the guest memory of the latest accepted table and signal the call descriptor most recently
installed.**  For every history `ms` from a fresh daemon `d0`, with `d` the state reached:
(1) the memory the ring operations use represents `Spec.foldSuccesses` of the memory requests of the history with the
    handler's own outcomes (C13);
(2) a successful `add_used(head, len)` on ring `ring` wrote the element `le32 head ++ le32 len` through that table at
    `used + 4 + 8·(next_used % size)` — every one of the 8 byte addresses is a cell the property's table names — then stored
    the incremented index at `used + 2`, where it reads back;
(3) `signal_used_queue` on ring `ring` adds 1 to the counter of `Spec.currentCall ring` of the history's accepted
    SET_VRING_CALL / GET_VRING_BASE messages and changes no other counter; when that is `none` no counter changes. -/
theorem ops_use_latest_table_and_call_fd (n max : Nat) (off : BitVec 64) (d0 : Daemon)
    (h0 : Daemon.new n max off = some d0) (ms : List Msg) :
    let d := (run d0 ms).1
    let outs := (Model.MemTable.run Model.MemTable.St.init (memOps ms)).2
    let T := Spec.MemTable.foldSuccesses [] ((memOps ms).zip outs)
    Lemmas.MemTable.Rel d.mem T ∧
    (∀ ring v head len d', d.vrings[ring]? = some v → step d (.addUsed ring head len) = (d', .ok .unit) →
      ∃ m1, d.guestMem.writeBytes (Spec.Vring.usedSlot v.queue.usedRing v.queue.nextUsed v.queue.size)
              (le32 head ++ le32 len) = (true, m1) ∧
        (∀ k, k < 8 → ∃ f o, Spec.MemTable.backedBy T
            (Spec.Vring.usedSlot v.queue.usedRing v.queue.nextUsed v.queue.size + k) f o) ∧
        d'.guestMem.loadU16 (Spec.Vring.usedIdxAddr v.queue.usedRing) = some ((v.queue.nextUsed + 1) % 65536) ∧
        (d'.vrings[ring]?).map (·.queue.nextUsed) = some ((v.queue.nextUsed + 1) % 65536) ∧ d'.mem = d.mem) ∧
    (∀ ring, ring < n →
      (step d (.signalUsed ring)).2 = .ok .unit ∧
      (step d (.signalUsed ring)).1.counters =
        match Spec.Vring.currentCall ring (callEvs n ms) with
        | none => d.counters
        | some fd => fun x => if x = fd then d.counters x + 1 else d.counters x) := by
  intro d outs T
  -- facts about the fresh daemon
  have hd0 : d0.mem = Model.MemTable.St.init ∧ d0.vrings.length = n ∧ ∀ v ∈ d0.vrings, v.call = none := by
    unfold Daemon.new at h0
    cases hq : Queue.new (max % 65536) with
    | none => simp [hq] at h0
    | some q =>
      simp only [hq, Option.map_some, Option.some.injEq] at h0
      subst h0
      refine ⟨rfl, by simp, ?_⟩
      intro v hv
      simp only [List.mem_replicate] at hv
      rw [hv.2]
  have hmem : d.mem = (Model.MemTable.run Model.MemTable.St.init (memOps ms)).1 := by
    have := run_mem d0 ms; rw [hd0.1] at this; exact this
  have hrel : Lemmas.MemTable.Rel d.mem T := by
    rw [hmem]; exact Lemmas.MemTable.rel_run Lemmas.MemTable.rel_init (memOps ms)
  refine ⟨hrel, ?_, ?_⟩
  · intro ring v head len d' hv hstep
    simp only [step, hv] at hstep
    cases hau : v.queue.addUsed d.guestMem head len with
    | mk q1 rest =>
      obtain ⟨m2, ok⟩ := rest
      rw [hau] at hstep
      simp only at hstep
      cases ok with
      | false => simp at hstep
      | true =>
        simp only [if_true, Prod.mk.injEq, and_true] at hstep
        subst hstep
        obtain ⟨_, hq1, m1, hw, hs⟩ := addUsed_ok _ _ _ _ _ _ hau
        have hreg1 : m1.regions = d.mem.regions := by
          have := writeBytes_regions d.guestMem (Spec.Vring.usedSlot v.queue.usedRing v.queue.nextUsed v.queue.size)
            (le32 head ++ le32 len)
          rw [hw] at this; exact this
        obtain ⟨hload, hreg2⟩ := storeU16_load m1 m2 _ _ (Nat.mod_lt _ (by decide)) hs
        refine ⟨m1, hw, ?_, ?_, ?_, rfl⟩
        · intro k hk
          have hl := writeBytes_ok_located _ _ _ _ hw k (by simpa [le32] using hk)
          obtain ⟨f, o, _, hb⟩ := locate_some_backed hrel (g := _) hl
          exact ⟨f, o, hb⟩
        · have : ({ d.setRing ring (fun v => { v with queue := q1 }) with files := m2.files } : Daemon).guestMem = m2 := by
            unfold Daemon.guestMem
            show (⟨d.mem.regions, m2.files⟩ : GuestMem) = m2
            rw [← hreg1, ← hreg2]
          rw [this]; exact hload
        · show ((d.setRing ring _).vrings[ring]?).map _ = _
          rw [setRing_get, hv, hq1]; simp
  · intro ring hring
    have hlen : d.vrings.length = n := by
      show (run d0 ms).1.vrings.length = n
      rw [run_length, hd0.2.1]
    have hlt0 : ring < d0.vrings.length := by rw [hd0.2.1]; exact hring
    have hcall := run_call d0 ms ring
    rw [List.getElem?_eq_getElem hlt0] at hcall
    have hnone : d0.vrings[ring].call = none := hd0.2.2 _ (List.getElem_mem hlt0)
    simp only [Option.map_some, hnone, hd0.2.1] at hcall
    have hlt : ring < d.vrings.length := by rw [hlen]; exact hring
    have hv : d.vrings[ring]? = some d.vrings[ring] := List.getElem?_eq_getElem hlt
    have hc : d.vrings[ring].call = Spec.Vring.currentCall ring (callEvs n ms) := by
      have : (run d0 ms).1.vrings[ring]? = some d.vrings[ring] := hv
      rw [this] at hcall
      simpa [Spec.Vring.currentCall] using hcall
    simp only [step, hv]
    rw [hc]
    cases Spec.Vring.currentCall ring (callEvs n ms) with
    | none => exact ⟨rfl, rfl⟩
    | some fd => exact ⟨rfl, rfl⟩
example : Spec.Vring.currentCall 1 [.install 1 (some 7), .install 0 (some 8), .install 1 (some 9), .stop 0] = some 9 ∧
    Spec.Vring.currentCall 0 [.install 1 (some 7), .install 0 (some 8), .install 1 (some 9), .stop 0] = none := by decide

/-! ### adapter table -/

/-- **every adapter method calls the same-named inner method with the same arguments in the same order** (table
regenerated from `vhost-user-backend/src/backend.rs` (`Arc`, `Mutex`, `RwLock`), `backend_req_handler.rs` (`Mutex`) and
`frontend_req_handler.rs` (`Mutex`) on every run) -/
theorem adapters_delegate : ∀ row ∈ Gen.Adapters.table, row.inner = row.outer ∧ row.args = row.params := by
  decide
example : Gen.Adapters.table.length ≥ 90 ∧
    (Gen.Adapters.table.filter fun r => r.outer == "set_vring_addr").map (·.args) =
      [["index", "flags", "descriptor", "used", "available", "log"]] := by decide

end Props.C14
