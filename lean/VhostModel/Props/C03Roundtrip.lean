import VhostModel.Lemmas.RoundtripOps
import VhostModel.Props.C02Reach
import VhostModel.Props.C03
/-!
# C03 — end-to-end composition: the API call returns exactly what the handler produced, or an error in bounded time

Composition of the two endpoint models over the wire, in both directions: `Model.Frontend.request` → `wire` →
`Model.BackendSrv.step` (any chooser) → the bytes and descriptors the server writes (`replyCells`) →
`Model.Frontend.call`'s reader (`recv`, any other chooser) → `finish`.  For **all** frontend states `s`, server states
`bst` with `InStep s bst`, operations, argument values, handler outcomes `h`, files and choosers of both directions:

* `roundtrip_ok` — the call awaits a reply or acknowledgement and `Usable op h`: the call returns `expectedValue op h file`
  (the handler's value as the operation defines it, the *same* file), the frontend state becomes `feAfter s' op h`, the
  reply is consumed entirely — whether or not the connection is closed afterwards;
* `roundtrip_fail` — the call awaits and `h` is not usable (handler failed, wrong-length configuration data, missing file,
  non-zero status, queue number beyond the library's limit): the frontend state is not advanced and the call returns an
  error, or — only while the stream is still open and the server wrote nothing, in which case its `handle_request`
  returned the handler's error and the serve loop closes the connection — it is still waiting.  Corollaries:
  `roundtrip_fail_bounded` (connection closed whenever `handle_request` failed ⟹ an error, never `blocked`, never
  success), `roundtrip_fail_inband` (something was written — negative acknowledgement, payload-less GET_CONFIG reply,
  status word, reply without file ⟹ an error even with the connection open), `roundtrip_fail_not_ok`;
* `unawaited_ok` — nothing is awaited (no REPLY_ACK, or no NEED_REPLY): `Ok(())` without touching the stream, any
  stream, no hypothesis on the server; `unawaited_server_silent`: the server then writes nothing;
* `instep_preserved`, `session_roundtrip` — `InStep` is an invariant of sessions of usable turns, every call of such a
  session returns `expectedValue`.

Hypotheses (all decidable): `ArgsInRange op`, `ServerAccepts bst s req` (from `Props.C02Reach`; `ServerAccepts` excludes
`set_log_fd` and `set_log_base` without region, which never reach a handler: `Props.C02Reach.set_log_fd_counterexample`,
`set_log_base_plain_counterexample`; `not_accepted_*` below), `BufLen op` (`get_config`: the model's fourth argument is
the length of the caller's buffer) and `InStep s bst`.

`expectedValue` vs the spec driver's sampled decision (`SpecDrv.Fe.expectedRet` on `Spec.Proto.owed`): the same mapping
per operation; stated here on the handler's outcome instead of the reply bytes, hence with the truncations of the wire
explicit (`h.v % 2^64`, `% 2^32` for the ring base and the region count; GET_PROTOCOL_FEATURES: the server adds REPLY_ACK
— `h.v ||| 8` — and the frontend masks with the protocol features it knows, `&&& (2^22 - 1)`).  Decided here and left open
by the spec driver: `set_device_state_fd` / `check_device_state` status words, and `get_queue_num` beyond 0x8000
(unusable: the frontend answers `InvalidMessage`).

**Finding** (`features_flip_counterexample`): `InStep` is *not* preserved by a GET_FEATURES whose handler drops
VHOST_USER_F_PROTOCOL_FEATURES (bit 30) after REPLY_ACK was acknowledged: the server stops acknowledging
(`update_reply_ack_flag`), the frontend keeps waiting for acknowledgements — the next acknowledged set-operation succeeds
on the server, which stays connected, and the caller waits indefinitely.  `instep_preserved` therefore assumes
`FeaturesStable` (the spec driver excludes the same sessions as "outside what the properties quantify over").
-/
namespace Props.C03Roundtrip
open Base Model.Stream Model.Msgs Model.Frontend Lemmas.Encode Lemmas.Roundtrip Lemmas.RequestInv Props.C02Reach
open Model.BackendSrv (BSt HOut Out Res Err Hdr dispatch step bitSet bodyValid replyHdr ackOf)
export Lemmas.Roundtrip (expectedValue sendState feAfter replyCells TurnSpec awaits)

/-- `h` is a success the call can return (see `Lemmas.Roundtrip.usable`) -/
abbrev Usable (op : Op) (h : HOut) : Bool := Lemmas.Roundtrip.usable op h

/-- the negotiation states of the two endpoints are in step (see `Lemmas.Roundtrip.inStep`) -/
def InStep (s : FSt) (bst : BSt) : Prop := inStep s bst = true
instance (s : FSt) (bst : BSt) : Decidable (InStep s bst) := inferInstanceAs (Decidable (_ = true))

theorem instep_inv {s : FSt} {bst : BSt} (h : InStep s bst) : Props.C04.Inv bst := by
  simp only [InStep, inStep, Bool.and_eq_true, beq_iff_eq] at h
  exact h.1.2

/-- `get_config`: the fourth argument is the length of the caller's buffer -/
def bufLen (op : Op) : Bool :=
  match op.name, op.a with
  | "get_config", [_, _, _, x] => x == op.payload.length
  | _, _ => true
def BufLen (op : Op) : Prop := bufLen op = true
instance (op : Op) : Decidable (BufLen op) := inferInstanceAs (Decidable (_ = true))

/-! ## one turn, on the framed request: the case split over the operations -/

set_option hygiene false in
local macro "ack_case" : tactic => `(tactic| (
  obtain ⟨o1, o2, _, _⟩ := dispatch_of_calls _ rfl hne
  exact turn_ack ch cl _ _ _ h _ cst file bst h.ok rfl (fun _ => rfl) o1 o2 i3 rfl rfl rfl hq))

theorem turn_dispatch {σ : Type} (ch : Chooser σ) (cl : Bool) (cst : σ) (file : Fd)
    (s : FSt) (bst : BSt) (op : Op) (req : Req) (s' : FSt) (h : HOut)
    (hreq : request s op = .ok (req, s')) (hb : ArgsInRange op) (hbuf : BufLen op) (hsrv : ServerAccepts bst s req)
    (hin : InStep s bst) :
    TurnSpec ch cl s' op req h (dispatch bst (reqHdr s req) req.body (filesOf req) h) cst file := by
  obtain ⟨hs', hspf⟩ := request_state s op req s' hreq
  have hB := request_built s op req s' hreq
  obtain ⟨c, _, hcalls⟩ := call_reaches_handler s bst op req s' h hreq hb hsrv
  have hne : (dispatch bst (reqHdr s req) req.body (filesOf req) h).calls ≠ [] := by
    show (dispatch bst (reqHdr s req) req.body (if req.fds.isEmpty then none else some req.fds) h).calls ≠ []
    rw [hcalls]; simp
  obtain ⟨himpl, hgate, h18, hfl, hfds, hbody⟩ := serverAccepts_parts hsrv
  obtain ⟨w1, w2, w3, w4⟩ := built_wire_facts hB
  obtain ⟨i1, i2, i3, i4⟩ := inStep_parts hin
  have hrh : reqHdr s' req = reqHdr s req := by rw [hs']; exact reqHdr_sendState s op req
  have hq : ReqOk (reqHdr s' req) := by rw [hrh]; exact ⟨w1, w2, hfl⟩
  subst hs'
  clear hreq hcalls hsrv
  cases hB with
  | get_features a pl fds bad regs =>
    obtain ⟨o1, o2, _, o4⟩ := dispatch_of_calls _ rfl hne
    exact turn_body_simple ch cl _ _ _ h _ cst file "VhostUserU64" 8 (leBytes 8 h.v) rfl (by decide) (by omega) o1 o2
      (fun hw => by rw [o4, actRes, hw]; rfl) (by simp) (bvU64 _ (by simp)) rfl (fin_get_features _ _ _ _ _ _ _ _ _) hq
  | set_features v pl fds bad regs =>
    obtain ⟨o1, o2, _, _⟩ := dispatch_of_calls _ rfl hne
    have j3 : bst.replyAck = (bitSet bst.virtio 30 && bitSet bst.ackedProto 3) := by
      have := hin; simp only [InStep, inStep, Bool.and_eq_true, beq_iff_eq] at this; exact this.1.2
    exact turn_ack ch cl _ _ _ h _ cst file _ h.ok rfl (fun _ => rfl) o1 o2 (j3.symm.trans i3) rfl rfl rfl hq
  | set_owner a pl fds bad regs => ack_case
  | reset_owner a pl fds bad regs => ack_case
  | set_mem_table a pl fds bad regs h1 h32 => ack_case
  | set_log_base_plain base pl fds bad regs => exact absurd (show (0 : Nat) = 1 from hfds) (by decide)
  | set_log_base_region base size off pl fds bad regs hp =>
    obtain ⟨o1, o2, _, o4⟩ := dispatch_of_calls _ rfl hne
    exact turn_body_simple ch cl _ _ _ h _ cst file "VhostUserLog" 16 (u64 size ++ u64 off) rfl (by decide) (by omega) o1 o2
      (fun hw => by rw [o4, actRes, hw]; rfl) (by simp [u64])
      (by rw [bodyValidTy_of _ _ (by decide) (by decide)]; exact eq_of_beq hbody) rfl rfl hq
  | set_log_base_noshm base size off pl fds bad regs hp => exact absurd (show (0 : Nat) = 1 from hfds) (by decide)
  | set_log_fd a pl fds bad regs => exact absurd (show false = true from himpl) (by decide)
  | set_vring_num i n pl fds bad regs hq' => ack_case
  | set_vring_addr i fg d u a lg pl fds bad regs hq' => ack_case
  | set_vring_base i n pl fds bad regs hq' => ack_case
  | get_vring_base i pl fds bad regs hq' =>
    change decide (i < 2^32) = true at hb
    have hi := of_decide_eq_true hb
    obtain ⟨o1, o2, _, o4⟩ := dispatch_of_calls _ rfl hne
    exact turn_body_simple ch cl _ _ _ h _ cst file "VhostUserVringState" 8 (leBytes 4 i ++ leBytes 4 h.v) rfl (by decide) (by omega)
      (o1.trans (actOut_getVringBase bst _ h i hi)) o2 (fun hw => by rw [o4, actRes, hw]; rfl) (by simp)
      (bvVringState _ (by simp)) rfl (fin_get_vring_base _ _ _ _ _ _ _ _ _ i hi) hq
  | set_vring_call i pl fds bad regs hq' h8 => ack_case
  | set_vring_kick i pl fds bad regs hq' h8 => ack_case
  | set_vring_err i pl fds bad regs hq' h8 => ack_case
  | get_protocol_features a pl fds bad regs =>
    obtain ⟨o1, o2, _, o4⟩ := dispatch_of_calls _ rfl hne
    exact turn_body_simple ch cl _ _ _ h _ cst file "VhostUserU64" 8 (leBytes 8 (h.v ||| 8)) rfl (by decide) (by omega) o1 o2
      (fun hw => by rw [o4, actRes, hw]; rfl) (by simp) (bvU64 _ (by simp)) rfl
      (fin_get_protocol_features _ _ _ _ _ _ _ _ _) hq
  | set_protocol_features v pl fds bad regs =>
    change decide (v < 2^64) = true at hb
    have hv := of_decide_eq_true hb
    obtain ⟨o1, o2, _, _⟩ := dispatch_of_calls _ rfl hne
    have hra : (({ bst with ackedProto := v } : BSt).updateFlag).replyAck = bitSet v 3 := by
      show (bitSet bst.virtio 30 && bitSet v 3) = bitSet v 3
      rw [← i1, hspf rfl]; simp
    exact turn_ack ch cl _ _ _ h _ cst file _ h.ok rfl (fun _ => rfl)
      (o1.trans (actOut_setProtocolFeatures bst _ h v hv)) o2 hra rfl rfl rfl hq
  | get_queue_num a pl fds bad regs =>
    obtain ⟨o1, o2, _, o4⟩ := dispatch_of_calls _ rfl hne
    exact turn_body ch cl _ _ _ h _ cst file "VhostUserU64" 8 (leBytes 8 h.v) h.ok rfl (by decide) (by omega) o1 o2
      (fun hw => by rw [o4, actRes, hw]; rfl) (by simp) (fun _ => bvU64 _ (by simp))
      (fun hu => by
        have : (h.ok && decide (h.v % 2^64 ≤ 0x8000)) = true := hu
        simp only [Bool.and_eq_true] at this; exact this.1)
      (fun _ hu => fin_get_queue_num_ok _ _ _ _ _ _ _ _ _ hu)
      (fun hw hu => ⟨_, fin_get_queue_num_err _ _ _ _ _ _ _ _ hw hu⟩) hq
  | reset_device a pl fds bad regs => ack_case
  | set_vring_enable i e pl fds bad regs hq' => ack_case
  | get_config off size cf x pl fds bad regs hv hmax =>
    change (decide (off < 2^32) && decide (size < 2^32) && decide (cf < 2^32) && pl.length == size) = true at hb
    simp only [Bool.and_eq_true, decide_eq_true_eq, beq_iff_eq] at hb
    obtain ⟨⟨⟨b1, b2⟩, b3⟩, b4⟩ := hb
    have hx : x = size := by
      have : (x == pl.length) = true := hbuf
      rw [← b4]; exact eq_of_beq this
    obtain ⟨o1, o2, _, _⟩ := dispatch_of_calls _ rfl hne
    exact turn_config ch cl _ off size cf x pl fds bad regs h _ cst file b1 b2 b3 b4 hx hmax (config_valid_of hv)
      (o1.trans (actOut_getConfig bst _ h off size cf pl b1 b2 b3)) o2 hq
  | set_config off cf pl fds bad regs hv hmax => ack_case
  | set_backend_req_fd a pl fds bad regs =>
    obtain ⟨o1, o2, _, _⟩ := dispatch_of_calls _ rfl hne
    exact turn_ack ch cl _ _ _ h _ cst file bst true rfl (fun _ => rfl) o1 o2 i3 rfl rfl rfl hq
  | get_shared_object u pl fds bad regs hv =>
    obtain ⟨o1, o2, _, _⟩ := dispatch_of_calls _ rfl hne
    exact turn_bodyFiles ch cl _ _ _ h _ cst file "VhostUserEmpty" 0 [] true rfl (by decide) (by omega)
      (o1.trans (List.append_nil _).symm) o2 (fun hw => by cases hw) rfl (fun _ => rfl) (fun _ => rfl) rfl (fun _ => rfl) hq
  | get_inflight_fd ms mo nq qs pl fds bad regs =>
    change (decide (ms < 2^64) && decide (mo < 2^64) && decide (nq < 2^16) && decide (qs < 2^16)) = true at hb
    simp only [Bool.and_eq_true, decide_eq_true_eq] at hb
    obtain ⟨⟨⟨b1, b2⟩, b3⟩, b4⟩ := hb
    obtain ⟨o1, o2, _, o4⟩ := dispatch_of_calls _ rfl hne
    exact turn_bodyFiles ch cl _ _ _ h _ cst file "VhostUserInflight" 24
      (u64 (h.v % 2^64) ++ u64 mo ++ u16 nq ++ u16 qs ++ [0, 0, 0, 0]) h.ok rfl (by decide) (by omega)
      (o1.trans (actOut_getInflight bst _ h ms mo nq qs b1 b2 b3 b4)) o2 (fun hw => by rw [o4, actRes, hw]; rfl)
      (by simp [u64, u16])
      (fun _ => inflight_reply_valid ms mo nq qs _ b1 b2 b3 b4 (Nat.mod_lt _ (by decide)) (eq_of_beq hbody))
      (fun hw => hw) rfl (fun _ => fin_get_inflight _ _ _ _ _ _ _ _ ms mo nq qs b2 b3 b4) hq
  | set_inflight_fd ms mo nq qs pl fds bad regs hnq hqs => ack_case
  | get_max_mem_slots a pl fds bad regs =>
    obtain ⟨o1, o2, _, o4⟩ := dispatch_of_calls _ rfl hne
    exact turn_body_simple ch cl _ _ _ h _ cst file "VhostUserU64" 8 (leBytes 8 h.v) rfl (by decide) (by omega) o1 o2
      (fun hw => by rw [o4, actRes, hw]; rfl) (by simp) (bvU64 _ (by simp)) rfl (fin_get_max_mem_slots _ _ _ _ _ _ _ _ _) hq
  | add_mem_region gp sz ua mo pl fds bad regs => ack_case
  | remove_mem_region gp sz ua mo pl fds bad regs => ack_case
  | get_shmem_config a pl fds bad regs =>
    obtain ⟨o1, o2, _, o4⟩ := dispatch_of_calls _ rfl hne
    exact turn_body_simple ch cl _ _ _ h _ cst file "VhostUserShMemConfig" 2056
      (leBytes 4 h.v ++ leBytes 4 0 ++ (h.b ++ List.replicate 2048 0).take 2048) rfl (by decide) (by omega)
      (o1.trans (actOut_getShmem bst _ h)) o2 (fun hw => by rw [o4, actRes, hw]; rfl) (shmem_body_length _ _) rfl rfl
      (fin_shmem _ _ _ _ _ _ _ _ _) hq
  | set_device_state_fd d p pl fds bad regs =>
    obtain ⟨o1, o2, _, _⟩ := dispatch_of_calls _ rfl hne
    exact turn_device_state ch cl _ _ _ _ _ _ _ h _ cst file rfl o1 o2 hq
  | check_device_state a pl fds bad regs =>
    obtain ⟨o1, o2, _, _⟩ := dispatch_of_calls _ rfl hne
    refine turn_body ch cl _ _ _ h _ cst file "VhostUserU64" 8 (leBytes 8 (if h.ok then 0 else 1)) true rfl (by decide) (by omega)
      o1 o2 (fun hw => by cases hw) (by simp) (fun _ => bvU64 _ (by simp)) (fun _ => rfl) ?_ ?_ hq
    · intro _ hu
      have hok : h.ok = true := hu
      have e : (if h.ok then (0 : Nat) else 1) = 0 := by simp [hok]
      rw [e, fin_check_device_state _ _ _ _ _ _ _ 0 (by omega)]; rfl
    · intro _ hu
      have hok : h.ok = false := hu
      have e : (if h.ok then (0 : Nat) else 1) = 1 := by simp [hok]
      rw [e, fin_check_device_state _ _ _ _ _ _ _ 1 (by omega)]; exact ⟨_, rfl⟩
  | postcopy_advise a pl fds bad regs =>
    obtain ⟨o1, o2, _, _⟩ := dispatch_of_calls _ rfl hne
    exact turn_bodyFiles ch cl _ _ _ h _ cst file "VhostUserEmpty" 0 [] true rfl (by decide) (by omega)
      (o1.trans (List.append_nil _).symm) o2 (fun hw => by cases hw) rfl (fun _ => rfl) (fun _ => rfl) rfl (fun _ => rfl) hq
  | postcopy_listen a pl fds bad regs => ack_case
  | postcopy_end a pl fds bad regs => ack_case


/-! ## one turn, on the wire: for every chooser of either direction -/

/-- the server's half: fed with the cells of the request (one `sendmsg`), under any chooser, `handle_request` writes,
attaches, returns and leaves behind what `dispatch` does on the framed request; the request is consumed entirely -/
theorem step_out {σ : Type} (ch : Chooser σ) (cl : Bool) (cst : σ)
    (s : FSt) (bst : BSt) (op : Op) (req : Req) (s' : FSt) (h : HOut)
    (hreq : request s op = .ok (req, s')) (hsrv : ServerAccepts bst s req) :
    let r := step ch cl bst cst (segCells (wire s req) req.fds) h
    let d := dispatch bst (reqHdr s req) req.body (filesOf req) h
    r.o.out = d.out ∧ r.o.outFds = d.outFds ∧ r.o.res = d.res ∧ r.o.st = d.st ∧ r.o.calls = d.calls ∧ r.rest = [] := by
  have hB := request_built s op req s' hreq
  obtain ⟨_, _, _, hfl, hfds, _⟩ := serverAccepts_parts hsrv
  obtain ⟨w1, w2, w3, w4⟩ := built_wire_facts hB
  obtain ⟨e, hr⟩ := step_segCells_full ch cl bst cst h req.code (reqFlags s) req.body req.fds w1 w2 (reqFlags_cases s hfl) w3
    (built_fds_le hB hfds) w4
  intro r d
  have e' : r.o = { d with closed := [] ++ d.closed } := e
  refine ⟨?_, ?_, ?_, ?_, ?_, hr⟩ <;> rw [e']

theorem _root_.Lemmas.Roundtrip.TurnSpec.of_eq {σ : Type} {ch : Chooser σ} {cl : Bool} {s' : FSt} {op : Op} {req : Req} {h : HOut} {d o : Out}
    {cst : σ} {file : Fd} (h1 : o.out = d.out) (h2 : o.outFds = d.outFds) (h3 : o.res = d.res)
    (t : TurnSpec ch cl s' op req h d cst file) : TurnSpec ch cl s' op req h o cst file := by
  have e : replyCells o file = replyCells d file := by simp only [replyCells, h1, h2]
  obtain ⟨t1, t2, t3⟩ := t
  constructor
  · intro hw; rw [e, h1]; exact t1 hw
  · intro hw hu; rw [e]; exact t2 hw hu
  · intro hw hu; rw [e, h1, h3]; exact t3 hw hu

/-- **the turn**: the API call against what the server turn it caused has written, for every chooser of the request
direction (`chS`, open or closed `clS`) and every chooser of the reply direction (`chF`, `clF`) -/
theorem turn {σ τ : Type} (chS : Chooser σ) (clS : Bool) (cstS : σ) (chF : Chooser τ) (clF : Bool) (cstF : τ) (file : Fd)
    (s : FSt) (bst : BSt) (op : Op) (req : Req) (s' : FSt) (h : HOut)
    (hreq : request s op = .ok (req, s')) (hb : ArgsInRange op) (hbuf : BufLen op) (hsrv : ServerAccepts bst s req)
    (hin : InStep s bst) :
    TurnSpec chF clF s' op req h (step chS clS bst cstS (segCells (wire s req) req.fds) h).o cstF file := by
  obtain ⟨e1, e2, e3, _, _, _⟩ := step_out chS clS cstS s bst op req s' h hreq hsrv
  exact (turn_dispatch chF clF cstF file s bst op req s' h hreq hb hbuf hsrv hin).of_eq e1 e2 e3

theorem call_eq {τ : Type} (ch : Chooser τ) (cl : Bool) (cst : τ) (str : List Cell) {s : FSt} {op : Op} {req : Req} {s' : FSt}
    (hreq : request s op = .ok (req, s')) : call ch cl s op cst str = callRecv ch cl s' op req cst str := by
  simp only [call, hreq]

/-- the bytes and descriptors the call puts on the wire are the ones the server turn was fed with -/
theorem call_writes_request {τ : Type} (ch : Chooser τ) (cl : Bool) (cst : τ) (str : List Cell)
    (s : FSt) (op : Op) (req : Req) (s' : FSt) (hreq : request s op = .ok (req, s')) :
    (call ch cl s op cst str).wire = wire s req ∧ (call ch cl s op cst str).wireFds = req.fds := by
  obtain ⟨hs', _⟩ := request_state s op req s' hreq
  have hw : wire s' req = wire s req := by
    subst hs'; simp only [wire, reqFlags, sendState_hdrFlags]
  rw [call_eq ch cl cst str hreq, ← hw]
  simp only [callRecv]
  generalize recv ch cl s' req cst str = rv
  rcases rv with ⟨res, rest, c, closed⟩
  cases res <;> exact ⟨rfl, rfl⟩

/-! ## the three statements -/

section
variable {σ τ : Type} (chS : Chooser σ) (clS : Bool) (cstS : σ) (chF : Chooser τ) (cstF : τ) (file : Fd)
  (s : FSt) (bst : BSt) (op : Op) (req : Req) (s' : FSt) (h : HOut)
  (hreq : request s op = .ok (req, s')) (hb : ArgsInRange op) (hbuf : BufLen op) (hsrv : ServerAccepts bst s req)
  (hin : InStep s bst)
include hreq hb hbuf hsrv hin

/-- **1. roundtrip_ok**: the call awaits a reply or acknowledgement and the handler's outcome is usable ⟹ fed with what the
server wrote (bytes and the handler's file), the call returns exactly the handler's value — `expectedValue op h file` —
updates the frontend state accordingly and leaves nothing of the reply in the stream.  (`clF`: the connection may even
be closed after the reply.) -/
theorem roundtrip_ok (clF : Bool) (haw : awaits s' req = true) (hu : Usable op h = true) :
    let o := (step chS clS bst cstS (segCells (wire s req) req.fds) h).o
    (call chF clF s op cstF (replyCells o file)).ret = expectedValue op h file ∧
    (call chF clF s op cstF (replyCells o file)).st = feAfter s' op h ∧
    (call chF clF s op cstF (replyCells o file)).rest = [] := by
  intro o
  rw [call_eq chF clF cstF _ hreq]
  exact (turn chS clS cstS chF clF cstF file s bst op req s' h hreq hb hbuf hsrv hin).ok haw hu

/-- **2. roundtrip_fail**: the call awaits and the outcome is not usable ⟹ the frontend state is the one after sending, and
the call returns an error — or it is still waiting, which happens only while the reply direction is open, the server has
written nothing and its `handle_request` has returned the handler's error (so that the serve loop closes the connection) -/
theorem roundtrip_fail (clF : Bool) (haw : awaits s' req = true) (hu : Usable op h = false) :
    let o := (step chS clS bst cstS (segCells (wire s req) req.fds) h).o
    (call chF clF s op cstF (replyCells o file)).st = s' ∧
    ((∃ e, (call chF clF s op cstF (replyCells o file)).ret = .err e) ∨
     ((call chF clF s op cstF (replyCells o file)).ret = .blocked ∧ clF = false ∧ o.out = [] ∧ o.res = .err .handlerErr)) := by
  intro o
  rw [call_eq chF clF cstF _ hreq]
  exact (turn chS clS cstS chF clF cstF file s bst op req s' h hreq hb hbuf hsrv hin).fail haw hu

/-- bounded time: the serve loop closes the connection when `handle_request` fails (`clF = true` whenever the server
turn did not return `Ok`) ⟹ the call returns an error — never success, never `blocked` -/
theorem roundtrip_fail_bounded (clF : Bool) (haw : awaits s' req = true) (hu : Usable op h = false)
    (hclose : (step chS clS bst cstS (segCells (wire s req) req.fds) h).o.res ≠ .ok → clF = true) :
    ∃ e, (call chF clF s op cstF (replyCells (step chS clS bst cstS (segCells (wire s req) req.fds) h).o file)).ret = .err e := by
  obtain ⟨_, r⟩ := roundtrip_fail chS clS cstS chF cstF file s bst op req s' h hreq hb hbuf hsrv hin clF haw hu
  rcases r with r | ⟨_, h2, _, h4⟩
  · exact r
  · have := hclose (by rw [h4]; intro hh; cases hh)
    rw [h2] at this; cases this

/-- once the connection is closed: an error, whatever the server did -/
theorem roundtrip_fail_closed (haw : awaits s' req = true) (hu : Usable op h = false) :
    ∃ e, (call chF true s op cstF (replyCells (step chS clS bst cstS (segCells (wire s req) req.fds) h).o file)).ret = .err e :=
  roundtrip_fail_bounded chS clS cstS chF cstF file s bst op req s' h hreq hb hbuf hsrv hin true haw hu (fun _ => rfl)

/-- in-band failure (negative acknowledgement, payload-less GET_CONFIG reply, status word, reply without the file): the
error is returned even with the connection still open -/
theorem roundtrip_fail_inband (clF : Bool) (haw : awaits s' req = true) (hu : Usable op h = false)
    (hwr : (step chS clS bst cstS (segCells (wire s req) req.fds) h).o.out ≠ []) :
    ∃ e, (call chF clF s op cstF (replyCells (step chS clS bst cstS (segCells (wire s req) req.fds) h).o file)).ret = .err e := by
  obtain ⟨_, r⟩ := roundtrip_fail chS clS cstS chF cstF file s bst op req s' h hreq hb hbuf hsrv hin clF haw hu
  rcases r with r | ⟨_, _, h3, _⟩
  · exact r
  · exact absurd h3 hwr

/-- a failure is never reported as success: the result is an error or (not yet) a result at all -/
theorem roundtrip_fail_not_ok (clF : Bool) (haw : awaits s' req = true) (hu : Usable op h = false) :
    (∃ e, (call chF clF s op cstF (replyCells (step chS clS bst cstS (segCells (wire s req) req.fds) h).o file)).ret = .err e) ∨
    (call chF clF s op cstF (replyCells (step chS clS bst cstS (segCells (wire s req) req.fds) h).o file)).ret = .blocked := by
  obtain ⟨_, r⟩ := roundtrip_fail chS clS cstS chF cstF file s bst op req s' h hreq hb hbuf hsrv hin clF haw hu
  rcases r with r | ⟨h1, _⟩
  · exact Or.inl r
  · exact Or.inr h1

/-- when nothing is awaited the server writes nothing: no stray bytes are left for the next call -/
theorem unawaited_server_silent (haw : awaits s' req = false) :
    (step chS clS bst cstS (segCells (wire s req) req.fds) h).o.out = [] :=
  ((turn chS clS cstS chS false cstS 0 s bst op req s' h hreq hb hbuf hsrv hin).unawaited haw).2.2.2.1

end

/-! ## 3. nothing awaited: the call succeeds without reading (frontend alone, any stream) -/

theorem finish_unit_of_unawaited {s : FSt} {op : Op} {req : Req} (hB : Built s op req)
    (hk : req.kind = .ack ∨ req.kind = .noWait) : ∀ (s' : FSt) (r : Reply), finish s' op r = (.unit, s') := by
  cases hB <;> first | (intro s' r; rfl) | (rcases hk with hk | hk <;> cases hk)

/-- **3. unawaited_ok** (`Props.C03.no_wait_without_ack` lifted to `call`): when the call awaits nothing — a set-operation
without REPLY_ACK acknowledged or without NEED_REPLY, or an operation without reply — it returns `Ok(())` and leaves the
incoming stream, whatever it holds, untouched -/
theorem unawaited_ok {τ : Type} (ch : Chooser τ) (cl : Bool) (cst : τ) (str : List Cell)
    (s : FSt) (op : Op) (req : Req) (s' : FSt) (hreq : request s op = .ok (req, s')) (haw : awaits s' req = false) :
    (call ch cl s op cst str).ret = .unit ∧ (call ch cl s op cst str).st = s' ∧ (call ch cl s op cst str).rest = str := by
  have hB := request_built s op req s' hreq
  rw [call_eq ch cl cst str hreq]
  have hk : req.kind = .ack ∨ req.kind = .noWait := by
    unfold awaits at haw
    cases hk : req.kind <;> simp [hk] at haw ⊢
  have hfin := finish_unit_of_unawaited hB hk
  have hr : ∃ rep, (recv ch cl s' req cst str).res = .ok rep ∧ (recv ch cl s' req cst str).rest = str := by
    rcases hk with hk | hk
    · simp only [awaits, hk] at haw
      have : (!bitSet s'.ackedProto 3 || !(reqHdr s' req).needReply) = true := by
        cases h1 : bitSet s'.ackedProto 3 <;> cases h2 : (reqHdr s' req).needReply <;> simp_all
      have e : recv ch cl s' req cst str = ⟨.ok ⟨reqHdr s' req, u64 0, [], none⟩, str, cst, []⟩ := by
        unfold recv; simp only [hk, this, if_true]
      exact ⟨_, by rw [e], by rw [e]⟩
    · have e : recv ch cl s' req cst str = ⟨.ok ⟨reqHdr s' req, [], [], none⟩, str, cst, []⟩ := by
        unfold recv; simp only [hk]
      exact ⟨_, by rw [e], by rw [e]⟩
  obtain ⟨rep, h1, h2⟩ := hr
  obtain ⟨a, b, c⟩ := callRecv_of_ok ch cl s' op req cst str h1
  rw [hfin] at a b
  exact ⟨a, b, c.trans h2⟩

/-! ## `InStep` is an invariant -/

/-- the device's feature set is stable: a GET_FEATURES answered while REPLY_ACK is acknowledged still offers
VHOST_USER_F_PROTOCOL_FEATURES -/
def featuresStable (bst : BSt) (op : Op) (h : HOut) : Bool :=
  op.name != "get_features" || !h.ok || !bitSet bst.ackedProto 3 || bitSet (h.v % 2^64) 30
def FeaturesStable (bst : BSt) (op : Op) (h : HOut) : Prop := featuresStable bst op h = true
instance (bst : BSt) (op : Op) (h : HOut) : Decidable (FeaturesStable bst op h) := inferInstanceAs (Decidable (_ = true))

theorem inStep_intro {s : FSt} {bst : BSt} (h1 : s.virtio = bst.virtio) (h2 : s.ackedProto = bst.ackedProto)
    (h3 : bst.replyAck = (bitSet bst.virtio 30 && bitSet bst.ackedProto 3))
    (h4 : bitSet bst.ackedProto 3 = true → bitSet bst.virtio 30 = true) : InStep s bst := by
  simp only [InStep, inStep, h1, h2, h3, beq_self_eq_true, Bool.true_and]
  cases hb : bitSet bst.ackedProto 3 with
  | false => rfl
  | true => simp [h4 hb]

theorem actSt_setProtocolFeatures (bst : BSt) (h : HOut) (v : Nat) (hv : v < 2^64) :
    actSt bst (u64 v) h .setProtocolFeatures = ({ bst with ackedProto := v } : BSt).updateFlag := by
  have f := dec_U64 [] v hv
  simp only [List.append_nil] at f
  simp only [actSt, srv_g _ _ _ _ f]

set_option hygiene false in
local macro "st_case" : tactic => `(tactic| (
  obtain ⟨_, _, o3, _⟩ := dispatch_of_calls _ rfl hne
  rw [o3]; split <;> exact hin))

/-- **InStep is preserved by a turn**: whatever the handler did — the frontend ends in `feAfter s' op h` after a usable
outcome and in `s'` otherwise (`roundtrip_ok`, `roundtrip_fail`, `unawaited_ok`), the server in the state `dispatch`
leaves — provided the device's feature set is stable -/
theorem instep_preserved (s : FSt) (bst : BSt) (op : Op) (req : Req) (s' : FSt) (h : HOut)
    (hreq : request s op = .ok (req, s')) (hb : ArgsInRange op) (hsrv : ServerAccepts bst s req)
    (hin : InStep s bst) (hst : FeaturesStable bst op h) :
    InStep (if Usable op h then feAfter s' op h else s') (dispatch bst (reqHdr s req) req.body (filesOf req) h).st := by
  obtain ⟨hs', hspf⟩ := request_state s op req s' hreq
  have hB := request_built s op req s' hreq
  obtain ⟨c, _, hcalls⟩ := call_reaches_handler s bst op req s' h hreq hb hsrv
  have hne : (dispatch bst (reqHdr s req) req.body (filesOf req) h).calls ≠ [] := by
    show (dispatch bst (reqHdr s req) req.body (if req.fds.isEmpty then none else some req.fds) h).calls ≠ []
    rw [hcalls]; simp
  obtain ⟨himpl, _, _, _, hfds, _⟩ := serverAccepts_parts hsrv
  obtain ⟨i1, i2, _, i4⟩ := inStep_parts hin
  subst hs'
  clear hreq hcalls hsrv
  cases hB with
  | get_features a pl fds bad regs =>
    obtain ⟨_, _, o3, _⟩ := dispatch_of_calls _ rfl hne
    rw [o3]
    show InStep (if h.ok = true then ({ s with virtio := h.v % 2^64 } : FSt) else s)
      (if h.ok then ({ bst with virtio := h.v % 2^64 } : BSt).updateFlag else bst)
    cases hok : h.ok with
    | false => exact hin
    | true =>
      have hs : bitSet bst.ackedProto 3 = true → bitSet (h.v % 2^64) 30 = true := by
        intro hb3
        have := hst
        simp only [FeaturesStable, featuresStable, hok, hb3, Bool.not_true, Bool.or_false, Bool.or_eq_true] at this
        rcases this with this | this
        · exact absurd this (by decide)
        · exact this
      exact inStep_intro rfl i2 (Props.C04.updateFlag_inv _) hs
  | set_features v pl fds bad regs =>
    obtain ⟨_, _, o3, _⟩ := dispatch_of_calls _ rfl hne
    rw [o3]
    show InStep _ (({ bst with acked := Model.BackendSrv.g (u64 v) "VhostUserU64" ["value"] } : BSt).updateFlag)
    generalize Model.BackendSrv.g (u64 v) "VhostUserU64" ["value"] = x
    split
    all_goals
      show InStep ({ s with acked := v &&& s.virtio } : FSt) (({ bst with acked := x } : BSt).updateFlag)
      exact inStep_intro i1 i2 (Props.C04.updateFlag_inv _) i4
  | get_protocol_features a pl fds bad regs =>
    obtain ⟨_, _, o3, _⟩ := dispatch_of_calls _ rfl hne
    rw [o3]
    show InStep (if h.ok = true then ({ s with proto := (h.v ||| 8) % 2^64 } : FSt) else s) (if h.ok then bst.updateFlag else bst)
    cases hok : h.ok with
    | false => exact hin
    | true => exact inStep_intro i1 i2 (Props.C04.updateFlag_inv _) i4
  | set_protocol_features v pl fds bad regs =>
    change decide (v < 2^64) = true at hb
    have hv := of_decide_eq_true hb
    obtain ⟨_, _, o3, _⟩ := dispatch_of_calls _ rfl hne
    rw [o3, actSt_setProtocolFeatures bst h v hv]
    have h30 : bitSet bst.virtio 30 = true := by rw [← i1]; exact hspf rfl
    split
    all_goals
      show InStep ({ s with ackedProto := v } : FSt) (({ bst with ackedProto := v } : BSt).updateFlag)
      exact inStep_intro i1 rfl (Props.C04.updateFlag_inv _) (fun _ => h30)
  | set_log_base_plain base pl fds bad regs => exact absurd (show (0 : Nat) = 1 from hfds) (by decide)
  | set_log_base_noshm base size off pl fds bad regs hp => exact absurd (show (0 : Nat) = 1 from hfds) (by decide)
  | set_log_fd a pl fds bad regs => exact absurd (show false = true from himpl) (by decide)
  | set_owner a pl fds bad regs => st_case
  | reset_owner a pl fds bad regs => st_case
  | set_mem_table a pl fds bad regs h1 h32 => st_case
  | set_log_base_region base size off pl fds bad regs hp => st_case
  | set_vring_num i n pl fds bad regs hq' => st_case
  | set_vring_addr i fg d u a lg pl fds bad regs hq' => st_case
  | set_vring_base i n pl fds bad regs hq' => st_case
  | get_vring_base i pl fds bad regs hq' => st_case
  | set_vring_call i pl fds bad regs hq' h8 => st_case
  | set_vring_kick i pl fds bad regs hq' h8 => st_case
  | set_vring_err i pl fds bad regs hq' h8 => st_case
  | get_queue_num a pl fds bad regs =>
    obtain ⟨_, _, o3, _⟩ := dispatch_of_calls _ rfl hne
    rw [o3]; split <;> exact inStep_intro i1 i2 (instep_inv hin) i4
  | reset_device a pl fds bad regs => st_case
  | set_vring_enable i e pl fds bad regs hq' => st_case
  | get_config off size cf x pl fds bad regs hv hmax => st_case
  | set_config off cf pl fds bad regs hv hmax => st_case
  | set_backend_req_fd a pl fds bad regs => st_case
  | get_shared_object u pl fds bad regs hv => st_case
  | get_inflight_fd ms mo nq qs pl fds bad regs => st_case
  | set_inflight_fd ms mo nq qs pl fds bad regs hnq hqs => st_case
  | get_max_mem_slots a pl fds bad regs => st_case
  | add_mem_region gp sz ua mo pl fds bad regs => st_case
  | remove_mem_region gp sz ua mo pl fds bad regs => st_case
  | get_shmem_config a pl fds bad regs => st_case
  | set_device_state_fd d p pl fds bad regs => st_case
  | check_device_state a pl fds bad regs => st_case
  | postcopy_advise a pl fds bad regs => st_case
  | postcopy_listen a pl fds bad regs => st_case
  | postcopy_end a pl fds bad regs => st_case

/-! ## 4. sessions: both endpoint models run against each other -/

/-- one API call of a session: the operation, the scripted outcome of the application's handler for it, and the file the
handler returns (for the operations that return one) -/
structure Turn where
  op : Op
  h : HOut
  file : Fd := 0

/-- the two endpoint models run against each other over two streams: each call's request (one `sendmsg`) is read by one
`handle_request`, the call reads what that turn wrote; both negotiation states and both chooser states are threaded.
Returns the results of the calls (a locally refused call ends the run). -/
def run {σ τ : Type} (chS : Chooser σ) (chF : Chooser τ) : FSt → BSt → σ → τ → List Turn → List Ret
  | _, _, _, _, [] => []
  | s, bst, cs, cf, t :: ts =>
    match request s t.op with
    | .error e => [.err e]
    | .ok (req, _) =>
      let r := step chS false bst cs (segCells (wire s req) req.fds) t.h
      let c := call chF false s t.op cf (replyCells r.o t.file)
      c.ret :: run chS chF c.st r.o.st r.cst c.cst ts

/-- every call of the session is accepted by the API and not refused by the server in the states reached by then, the
handler's outcome is usable and the device's feature set stable -/
def SessionOk : FSt → BSt → List Turn → Prop
  | _, _, [] => True
  | s, bst, t :: ts =>
    ∃ req s', request s t.op = .ok (req, s') ∧ ArgsInRange t.op ∧ BufLen t.op ∧ ServerAccepts bst s req ∧
      Usable t.op t.h = true ∧ FeaturesStable bst t.op t.h ∧
      SessionOk (feAfter s' t.op t.h) (dispatch bst (reqHdr s req) req.body (filesOf req) t.h).st ts

/-- **4. session_roundtrip**: from states in step, over a session of usable turns — for every chooser of either direction —
`InStep` holds before every call and every call returns exactly its handler's value (awaited or not) -/
theorem session_roundtrip {σ τ : Type} (chS : Chooser σ) (chF : Chooser τ) :
    ∀ (ts : List Turn) (s : FSt) (bst : BSt) (cs : σ) (cf : τ), InStep s bst → SessionOk s bst ts →
      run chS chF s bst cs cf ts = ts.map (fun t => expectedValue t.op t.h t.file) := by
  intro ts
  induction ts with
  | nil => intro _ _ _ _ _ _; rfl
  | cons t ts ih =>
    intro s bst cs cf hin hok
    obtain ⟨req, s', hreq, hb, hbuf, hsrv, hu, hst, hrest⟩ := hok
    have T := turn chS false cs chF false cf t.file s bst t.op req s' t.h hreq hb hbuf hsrv hin
    obtain ⟨_, _, _, e4, _, _⟩ := step_out chS false cs s bst t.op req s' t.h hreq hsrv
    have hin' := instep_preserved s bst t.op req s' t.h hreq hb hsrv hin hst
    rw [show (Usable t.op t.h) = true from hu, if_pos rfl] at hin'
    have hc : (call chF false s t.op cf (replyCells (step chS false bst cs (segCells (wire s req) req.fds) t.h).o t.file)).ret =
          expectedValue t.op t.h t.file ∧
        (call chF false s t.op cf (replyCells (step chS false bst cs (segCells (wire s req) req.fds) t.h).o t.file)).st =
          feAfter s' t.op t.h := by
      rw [call_eq chF false cf _ hreq]
      cases haw : awaits s' req with
      | true => obtain ⟨a, b, _⟩ := T.ok haw hu; exact ⟨a, b⟩
      | false => obtain ⟨a, b, _, _, e, f⟩ := T.unawaited haw; exact ⟨a.trans e.symm, b.trans f.symm⟩
    simp only [run, hreq, List.map_cons]
    rw [hc.1, hc.2, e4, ih _ _ _ _ hin' hrest]

/-! ## operations excluded through `ServerAccepts`, and the finding -/

/-- `set_log_fd` is never accepted by this server (`Props.C02Reach.set_log_fd_counterexample`: no handler is reached) -/
theorem not_accepted_set_log_fd (bst : BSt) (s : FSt) (fds : List Fd) : ¬ ServerAccepts bst s ⟨7, [], fds, .ack⟩ := by
  intro h
  exact absurd (show false = true from (serverAccepts_parts h).1) (by decide)

/-- `set_log_base` without a region (or without LOG_SHMFD on the frontend) is never accepted by this server
(`Props.C02Reach.set_log_base_plain_counterexample`) -/
theorem not_accepted_set_log_base_plain (bst : BSt) (s : FSt) (base : Nat) : ¬ ServerAccepts bst s ⟨6, u64 base, [], .noWait⟩ := by
  intro h
  exact absurd (show (0 : Nat) = 1 from (serverAccepts_parts h).2.2.2.2.1) (by decide)

theorem recvBody_nil_open {τ : Type} (ch : Chooser τ) (ty : String) (n : Nat) (cst : τ) (hty : sizeOfTy ty = some n) :
    (recvBody ch false ty cst []).res = .blocked := by
  obtain ⟨b1, b2, b3⟩ := Lemmas.Stream.recvAll_short ch 32 false (12 + n) cst [] true (by show 0 < 12 + n; omega) (by simp)
  unfold recvBody
  simp only [hty, b3, Bool.false_eq_true, if_false]

/-- **F-C03-flip** (`InStep` is not preserved without `FeaturesStable`, and then C03 fails).  States in step with REPLY_ACK in
force and NEED_REPLY requested.  Turn 1: GET_FEATURES, the handler succeeds with a feature set *without*
VHOST_USER_F_PROTOCOL_FEATURES — a usable outcome, the call returns it (`roundtrip_ok` applies) — but the server
recomputes `reply_ack_enabled = false` while the frontend still has REPLY_ACK acknowledged: the states are out of step.
Turn 2: SET_OWNER: the request is accepted, the handler is invoked and succeeds, `handle_request` returns `Ok` (the
connection stays open) and writes **no** acknowledgement; the frontend awaits one: for every chooser the call waits —
indefinitely, the connection being alive. -/
theorem features_flip_counterexample :
    let s0 : FSt := { virtio := 0x40000000, ackedProto := 8, hdrFlags := 8 }
    let b0 : BSt := { virtio := 0x40000000, ackedProto := 8, replyAck := true }
    let getf : Op := ⟨"get_features", [], [], [], false, []⟩
    let r1 : Req := ⟨1, [], [], .body "VhostUserU64"⟩
    let h1 : HOut := { v := 0 }
    let s1 : FSt := { virtio := 0, ackedProto := 8, hdrFlags := 8 }
    let b1 : BSt := { virtio := 0, ackedProto := 8, replyAck := false }
    let seto : Op := ⟨"set_owner", [], [], [], false, []⟩
    let r2 : Req := ⟨3, [], [], .ack⟩
    InStep s0 b0 ∧ request s0 getf = .ok (r1, s0) ∧ ArgsInRange getf ∧ BufLen getf ∧ ServerAccepts b0 s0 r1 ∧
    Usable getf h1 = true ∧ ¬ FeaturesStable b0 getf h1 ∧
    feAfter s0 getf h1 = s1 ∧ (dispatch b0 (reqHdr s0 r1) r1.body (filesOf r1) h1).st = b1 ∧ ¬ InStep s1 b1 ∧
    request s1 seto = .ok (r2, s1) ∧ ArgsInRange seto ∧ BufLen seto ∧ ServerAccepts b1 s1 r2 ∧ awaits s1 r2 = true ∧
    Usable seto {} = true ∧
    (dispatch b1 (reqHdr s1 r2) r2.body (filesOf r2) {}).calls = [⟨"set_owner", [], [], []⟩] ∧
    (dispatch b1 (reqHdr s1 r2) r2.body (filesOf r2) {}).res = .ok ∧
    (dispatch b1 (reqHdr s1 r2) r2.body (filesOf r2) {}).out = [] ∧
    (∀ {τ : Type} (ch : Chooser τ) (cst : τ) (file : Fd),
      (call ch false s1 seto cst (replyCells (dispatch b1 (reqHdr s1 r2) r2.body (filesOf r2) {}) file)).ret = .blocked) := by
  refine ⟨by decide, rfl, by decide, by decide, by decide, by decide, by decide, rfl, by decide, by decide, rfl, by decide,
    by decide, by decide, by decide, by decide, by decide, by decide, by decide, ?_⟩
  intro τ ch cst file
  have e : replyCells (dispatch { virtio := 0, ackedProto := 8, replyAck := false }
      (reqHdr { virtio := 0, ackedProto := 8, hdrFlags := 8 } ⟨3, [], [], .ack⟩) (⟨3, [], [], .ack⟩ : Req).body
      (filesOf ⟨3, [], [], .ack⟩) {}) file = [] := by
    have : (dispatch { virtio := 0, ackedProto := 8, replyAck := false }
      (reqHdr { virtio := 0, ackedProto := 8, hdrFlags := 8 } ⟨3, [], [], .ack⟩) (⟨3, [], [], .ack⟩ : Req).body
      (filesOf ⟨3, [], [], .ack⟩) {}).out = [] := by decide
    simp only [replyCells, this, segCells_nil]
  rw [e, call_eq ch false cst [] (show request { virtio := 0, ackedProto := 8, hdrFlags := 8 } ⟨"set_owner", [], [], [], false, []⟩ =
    .ok (⟨3, [], [], .ack⟩, { virtio := 0, ackedProto := 8, hdrFlags := 8 }) from rfl)]
  have hr : (recv ch false { virtio := 0, ackedProto := 8, hdrFlags := 8 } ⟨3, [], [], .ack⟩ cst []).res = .blocked := by
    have hb := recvBody_nil_open ch "VhostUserU64" 8 cst (by decide)
    have h1 : bitSet ({ virtio := 0, ackedProto := 8, hdrFlags := 8 } : FSt).ackedProto 3 = true := by decide
    have h2 : (reqHdr { virtio := 0, ackedProto := 8, hdrFlags := 8 } ⟨3, [], [], .ack⟩).needReply = true := by decide
    unfold recv
    simp only [h1, h2, Bool.not_true, Bool.or_self, Bool.false_eq_true, if_false, hb]
  exact (callRecv_of_blocked ch false _ _ _ cst [] hr).1

/-! ## non-vacuity: the hypotheses are satisfiable, and what the theorems give on concrete turns -/

/-- a state pair with REPLY_ACK in force and NEED_REPLY requested by the frontend -/
def sAck : FSt := { virtio := 0x40000000, ackedProto := 0x3208, maxQ := 2, hdrFlags := 8 }
def bAck : BSt := { virtio := 0x40000000, ackedProto := 0x3208, replyAck := true }

example : InStep {} {} := by decide
example : InStep sAck bAck := by decide

/-- a u64 getter -/
example : ∃ req s', request {} ⟨"get_features", [], [], [], false, []⟩ = .ok (req, s') ∧
    ArgsInRange ⟨"get_features", [], [], [], false, []⟩ ∧ BufLen ⟨"get_features", [], [], [], false, []⟩ ∧
    ServerAccepts {} {} req ∧ InStep {} {} ∧ awaits s' req = true ∧
    Usable ⟨"get_features", [], [], [], false, []⟩ { v := 0x140000000 } = true ∧
    expectedValue ⟨"get_features", [], [], [], false, []⟩ { v := 0x140000000 } 0 = .val 0x140000000 :=
  ⟨_, _, rfl, by decide, by decide, by decide, by decide, by decide, by decide, rfl⟩

/-- `get_config` with payload -/
example : ∃ req s', request sAck ⟨"get_config", [8, 4, 0, 4], [0, 0, 0, 0], [], false, []⟩ = .ok (req, s') ∧
    ArgsInRange ⟨"get_config", [8, 4, 0, 4], [0, 0, 0, 0], [], false, []⟩ ∧
    BufLen ⟨"get_config", [8, 4, 0, 4], [0, 0, 0, 0], [], false, []⟩ ∧
    ServerAccepts bAck sAck req ∧ awaits s' req = true ∧
    Usable ⟨"get_config", [8, 4, 0, 4], [0, 0, 0, 0], [], false, []⟩ { b := [1, 2, 3, 4] } = true ∧
    Usable ⟨"get_config", [8, 4, 0, 4], [0, 0, 0, 0], [], false, []⟩ { b := [1, 2, 3] } = false ∧
    Usable ⟨"get_config", [8, 4, 0, 4], [0, 0, 0, 0], [], false, []⟩ { ok := false } = false ∧
    expectedValue ⟨"get_config", [8, 4, 0, 4], [0, 0, 0, 0], [], false, []⟩ { b := [1, 2, 3, 4] } 0 = .config 8 4 0 [1, 2, 3, 4] :=
  ⟨_, _, rfl, by decide, by decide, by decide, by decide, by decide, by decide, by decide, rfl⟩

/-- `get_inflight_fd`: values and the handler's file -/
example : ∃ req s', request sAck ⟨"get_inflight_fd", [0x1000, 0, 2, 0x100], [], [], false, []⟩ = .ok (req, s') ∧
    ArgsInRange ⟨"get_inflight_fd", [0x1000, 0, 2, 0x100], [], [], false, []⟩ ∧
    BufLen ⟨"get_inflight_fd", [0x1000, 0, 2, 0x100], [], [], false, []⟩ ∧
    ServerAccepts bAck sAck req ∧ awaits s' req = true ∧
    Usable ⟨"get_inflight_fd", [0x1000, 0, 2, 0x100], [], [], false, []⟩ { v := 0x2000 } = true ∧
    expectedValue ⟨"get_inflight_fd", [0x1000, 0, 2, 0x100], [], [], false, []⟩ { v := 0x2000 } 77 = .inflight 0x2000 0 2 0x100 77 :=
  ⟨_, _, rfl, by decide, by decide, by decide, by decide, by decide, rfl⟩

/-- a set-operation with acknowledgement, and a failing handler answered by a negative acknowledgement (in band) -/
example : ∃ req s', request sAck ⟨"set_vring_num", [1, 0x100], [], [], false, []⟩ = .ok (req, s') ∧
    ArgsInRange ⟨"set_vring_num", [1, 0x100], [], [], false, []⟩ ∧ BufLen ⟨"set_vring_num", [1, 0x100], [], [], false, []⟩ ∧
    ServerAccepts bAck sAck req ∧ awaits s' req = true ∧
    Usable ⟨"set_vring_num", [1, 0x100], [], [], false, []⟩ {} = true ∧
    Usable ⟨"set_vring_num", [1, 0x100], [], [], false, []⟩ { ok := false } = false ∧
    (dispatch bAck (reqHdr sAck req) req.body (filesOf req) { ok := false }).out ≠ [] ∧
    (dispatch bAck (reqHdr sAck req) req.body (filesOf req) { ok := false }).res = .err .handlerErr :=
  ⟨_, _, rfl, by decide, by decide, by decide, by decide, by decide, by decide, by decide, by decide⟩

/-- the same call without NEED_REPLY awaits nothing -/
example : ∃ req s', request { sAck with hdrFlags := 0 } ⟨"set_vring_num", [1, 0x100], [], [], false, []⟩ = .ok (req, s') ∧
    awaits s' req = false := ⟨_, _, rfl, by decide⟩

/-- the theorems applied: a getter under the Linux chooser in both directions -/
example : (call (kernelChooser false) false {} ⟨"get_features", [], [], [], false, []⟩ ()
    (replyCells (step (kernelChooser true) false {} () (segCells (wire {} ⟨1, [], [], .body "VhostUserU64"⟩) []) { v := 0x140000000 }).o 0)).ret =
    .val 0x140000000 :=
  (roundtrip_ok (kernelChooser true) false () (kernelChooser false) () 0 {} {} ⟨"get_features", [], [], [], false, []⟩
    ⟨1, [], [], .body "VhostUserU64"⟩ {} { v := 0x140000000 } rfl (by decide) (by decide) (by decide) (by decide) false
    (by decide) (by decide)).1

/-- a failing handler with negative acknowledgement: the error is returned with the connection still open -/
example : ∃ e, (call (kernelChooser false) false sAck ⟨"set_vring_num", [1, 0x100], [], [], false, []⟩ ()
    (replyCells (step (kernelChooser false) false bAck () (segCells (wire sAck ⟨8, u32 1 ++ u32 0x100, [], .ack⟩) []) { ok := false }).o 0)).ret =
    .err e :=
  roundtrip_fail_inband (kernelChooser false) false () (kernelChooser false) () 0 sAck bAck ⟨"set_vring_num", [1, 0x100], [], [], false, []⟩
    ⟨8, u32 1 ++ u32 0x100, [], .ack⟩ sAck { ok := false } rfl (by decide) (by decide) (by decide) (by decide) false
    (by decide) (by decide)
    (by rw [(step_out (kernelChooser false) false () sAck bAck ⟨"set_vring_num", [1, 0x100], [], [], false, []⟩
          ⟨8, u32 1 ++ u32 0x100, [], .ack⟩ sAck { ok := false } rfl (by decide)).1]; decide)

/-- a session: negotiate, then use gated operations -/
example : SessionOk { virtio := 0x40000000, hdrFlags := 8 } ({ virtio := 0x40000000 } : BSt)
    [⟨⟨"set_protocol_features", [0x1208], [], [], false, []⟩, {}, 0⟩,
     ⟨⟨"get_config", [0, 4, 0, 4], [0, 0, 0, 0], [], false, []⟩, { b := [9, 9, 9, 9] }, 0⟩,
     ⟨⟨"get_inflight_fd", [0x1000, 0, 2, 0x100], [], [], false, []⟩, { v := 0x2000 }, 5⟩] :=
  ⟨_, _, rfl, by decide, by decide, by decide, by decide, by decide,
   _, _, rfl, by decide, by decide, by decide, by decide, by decide,
   _, _, rfl, by decide, by decide, by decide, by decide, by decide, trivial⟩

end Props.C03Roundtrip
