import VhostModel.Lemmas.FrontendTable
import VhostModel.Gen.FrontendOps
import VhostModel.Gen.Consts
/-!
# The frontend endpoint of the model is the frontend endpoint of the source

`Gen.FrontendOps.rows` is regenerated on every run from `vhost/src/vhost_user/frontend.rs` (`tools/rs2lean_frontend.py`):
for every method of `impl VhostBackend for Frontend` and `impl VhostUserFrontend for Frontend`, in source order, the
local checks in front of the send (the method's own, then those of the `FrontendInternal` send helper it calls; feature
constants resolved to bit numbers, named constants to values), the `FrontendReq` code, the body type, whether
descriptors are attached, the reply reader, the assignments to the node and the handling of the reply.
`Gen.FrontendOps.helpers` lists the helper methods of `FrontendInternal` statement by statement.

Three layers, each a theorem:

1. **table = source** — `model_ops_match_source`: the hand-written `Model.FrontendTable.modelOps` (what
   `Model.Frontend.request` / `finish` do, per operation) is the generated table, row by row and check by check, through
   the projection `toModel`; `helpers_match_source` the same for the reply readers.  A dropped, added, reordered or
   altered check, a different request code, body type, reply reader or state update in `frontend.rs` breaks these.
2. **what the projection drops is justified** — `error_field_never_written`, `body_sizes_fit`, `feature_helpers`,
   `payload_reader_refuses_files`, `not_in_model_all_used`, and the three theorems about the source checks that have no
   counterpart in the model (below).
3. **table = executable model**, for all states and calls — `request_ok_table`, `request_error_table`,
   `check_fires_refused`, `first_check_decides`, `accepted_iff_no_check_fires`, `refused_sends_nothing`, `finish_table`,
   and the reply readers' local refusals.

## Differences between model and source (reported, not hidden)

`Model.FrontendTable.notInModel` lists the source checks for which `Model.Frontend.request` has no counterpart; the
comparison theorem removes exactly these (and `not_in_model_all_used` says none of the three is stale):

* **D1 `set_mem_table` / `msgSizeAbove 4096`** (`send_request_with_payload`: `size_of::<VhostUserMemory>() + payload.len() >
  MAX_MSG_SIZE`).  The model does not test it.  Not observable: `mem_table_size_implied` — every memory table the model
  accepts has `8 + 32·n ≤ 0x1000` bytes.
* **D2 `set_mem_table` / `fdCountAbove 32`** (`send_request_with_payload`: `fds.len() > MAX_ATTACHED_FD_ENTRIES`).  In the
  source the descriptors are collected from the regions, one each, so the check is implied by `regions.len() <= 32`.  The
  model sends `op.fds`, whatever their number: `mem_table_fds_from_call`.  With one descriptor per region (what the
  harness does) the bound holds: `mem_table_fd_count_implied`.
* **D3 `set_device_state_fd` / `invalid VhostUserTransferDeviceState`** (`!body.is_valid()` on a body built from the typed
  `direction` / `phase` enums).  The model performs no such check and its arguments are untyped numbers:
  `devstate_check_absent_from_model` exhibits an accepted call whose body the generated validator refuses.  For values of
  the two enums the check cannot fail: `devstate_typed_valid`.

Further, `toModel` drops the assignment to `protocol_features_ready` (no such field in the model; the source never reads
it) and `get_config`'s re-test of the descriptors after `recv_reply_with_payload` (`payload_reader_refuses_files`).
-/
namespace Props.FrontendOps
open Base Model.Stream Model.Msgs Model.Frontend Model.FrontendTable Lemmas.FrontendTable Lemmas.RequestInv
open Model.BackendSrv (Err bitSet)

/-! ## 1. the table is the source -/

/-- **model_ops_match_source**: per operation (model name mapped to the Rust method by `srcName`), in source order: the
same checks in the same order with the same errors, the same request code, body type, descriptor flag, reply reader,
state updates and reply errors. -/
theorem model_ops_match_source :
    modelOps.map (fun r => { r with name := srcName r.name }) = Gen.FrontendOps.rows.map toModel := by
  decide +kernel

/-- the reply readers of the model (`recv`) follow the helpers' statements, in order (the helpers' `check_state` call and
static size test aside) -/
theorem helpers_match_source :
    modelHelpers =
      (Gen.FrontendOps.helpers.filter (fun h => modelHelpers.any (fun m => m.1 == h.1))).map
        (fun h => (h.1, h.2.filter (fun st => !FeStep.neverFires st))) := by
  decide +kernel

/-! ## 2. what the projection drops -/

/-- `check_state` reads `self.error`; no impl of `frontend.rs` assigns the field (it is `None` from `Frontend::new`) -/
theorem error_field_never_written :
    Gen.FrontendOps.errorFieldWrites = 0 ∧
    Gen.FrontendOps.helpers.lookup "check_state" = some [.check .errorSet "SocketBroken"] := by
  decide

def bodySizeOk (r : FeRow) : Bool :=
  (match r.body with
   | .none => true
   | .fixed ty | .withPayload ty => match sizeOfTy ty with
     | some n => decide (n ≤ Gen.Consts.MAX_MSG_SIZE)
     | none => false) &&
  r.checks.all (fun c => match c.1 with
    | .bodySizeAbove m => m == Gen.Consts.MAX_MSG_SIZE
    | _ => true)

/-- the static test `size_of::<T>() > MAX_MSG_SIZE` of `send_request_with_body` fails for none of the body types sent
(sizes from the generated layout) -/
theorem body_sizes_fit : Gen.FrontendOps.rows.all bodySizeOk = true := by
  decide +kernel

/-- `check_feature` tests the *offered* virtio features, `check_proto_feature` the *acknowledged* protocol features -/
theorem feature_helpers :
    Gen.FrontendOps.helpers.lookup "check_feature" = some [.check (.paramBitClear "virtio_features") "InactiveFeature"] ∧
    Gen.FrontendOps.helpers.lookup "check_proto_feature" =
      some [.check (.paramBitClear "acked_protocol_features") "InactiveOperation"] := by
  decide

/-- `recv_reply_with_payload` refuses a reply that carries descriptors: `get_config`'s own test of them is dead -/
theorem payload_reader_refuses_files :
    ((Gen.FrontendOps.helpers.lookup "recv_reply_with_payload").getD []).contains (.check .filesPresent "InvalidMessage") = true := by
  decide

/-- every entry of `notInModel` removes a check that the source has (no stale exception), and nothing else is removed
by it -/
theorem not_in_model_all_used :
    Gen.FrontendOps.rows.flatMap (fun r =>
      ((dedup (r.checks.filter (fun c => !FeCond.neverFires c.1))).filter
        (fun c => notInModel.contains (r.name, c.1))).map (fun c => (r.name, c.1))) = notInModel := by
  decide +kernel

theorem flatMap_regionBytes_length (rs : List (Nat × Nat × Nat × Nat × Bool)) :
    (rs.flatMap regionBytes).length = 32 * rs.length := by
  induction rs with
  | nil => rfl
  | cons r rs ih =>
    simp only [List.flatMap_cons, List.length_append, ih, List.length_cons, regionBytes, u64, leBytes_length]
    omega

/-- **D1**: the total-size check of `send_request_with_payload` cannot fail on a memory table the model accepts -/
theorem mem_table_size_implied (s : FSt) (op : Op) (req : Req) (s' : FSt) (hreq : request s op = .ok (req, s'))
    (hn : op.name = "set_mem_table") :
    req.body.length = 8 + 32 * op.regions.length ∧ req.body.length ≤ 0x1000 := by
  have hB := request_built s op req s' hreq
  cases hB
  case set_mem_table a pl fds bad regs h1 h32 =>
    dsimp only
    simp only [List.length_append, u32, leBytes_length, flatMap_regionBytes_length]
    have h32' : regs.length ≤ 32 := h32
    exact ⟨trivial, by omega⟩
  all_goals (simp at hn)

/-- **D2** (the difference): the model attaches the descriptors of the call, not one per region -/
theorem mem_table_fds_from_call (s : FSt) (op : Op) (req : Req) (s' : FSt) (hreq : request s op = .ok (req, s'))
    (hn : op.name = "set_mem_table") : req.fds = op.fds ∧ 1 ≤ op.regions.length ∧ op.regions.length ≤ 32 := by
  have hB := request_built s op req s' hreq
  cases hB
  case set_mem_table a pl fds bad regs h1 h32 => exact ⟨rfl, h1, h32⟩
  all_goals (simp at hn)

/-- **D2**: with one descriptor per region the descriptor-count check cannot fail -/
theorem mem_table_fd_count_implied (s : FSt) (op : Op) (req : Req) (s' : FSt) (hreq : request s op = .ok (req, s'))
    (hn : op.name = "set_mem_table") (hfds : op.fds.length = op.regions.length) : req.fds.length ≤ 32 := by
  obtain ⟨e, _, h32⟩ := mem_table_fds_from_call s op req s' hreq hn
  rw [e, hfds]; exact h32

/-- **D3**: for values of `VhostTransferStateDirection` (0, 1) and `VhostTransferStatePhase` (0) the generated validator
accepts the body: the source's `!body.is_valid()` cannot fail -/
theorem devstate_typed_valid (d p : Nat) (hd : d ≤ 1) (hp : p = 0) :
    Model.BackendSrv.bodyValid "VhostUserTransferDeviceState" (u32 d ++ u32 p) = some true := by
  subst hp
  have : d = 0 ∨ d = 1 := by omega
  rcases this with rfl | rfl <;> decide

/-- **D3** (the difference): the model accepts a `set_device_state_fd` whose body the validator refuses -/
theorem devstate_check_absent_from_model :
    ∃ s op req s', request s op = .ok (req, s') ∧ op.name = "set_device_state_fd" ∧
      Model.BackendSrv.bodyValid "VhostUserTransferDeviceState" req.body = some false :=
  ⟨{ ackedProto := 0x80000 }, ⟨"set_device_state_fd", [5, 7], [], [3], false, []⟩, _, _, rfl, rfl, by decide⟩

/-! ## 3. the table is the executable model -/

theorem firstErr_none_iff (cs : List FeCheck) (s : FSt) (op : Op) :
    firstErr cs s op = none ↔ ∀ c ∈ cs, fires c.1 s op = false := by
  induction cs with
  | nil => simp [firstErr]
  | cons c cs ih =>
    simp only [firstErr, List.mem_cons, forall_eq_or_imp]
    cases h : fires c.1 s op with
    | true => simp
    | false => simpa using ih

theorem firstErr_some_fires {cs : List FeCheck} {s : FSt} {op : Op} {e : Err} (h : firstErr cs s op = some e) :
    ∃ c ∈ cs, fires c.1 s op = true ∧ errOf c.2 = e := by
  induction cs with
  | nil => simp [firstErr] at h
  | cons c cs ih =>
    simp only [firstErr] at h
    cases hf : fires c.1 s op with
    | true =>
      rw [hf] at h
      simp only [if_true, Option.some.injEq] at h
      exact ⟨c, List.mem_cons_self, hf, h⟩
    | false =>
      rw [hf] at h
      simp only [Bool.false_eq_true, if_false] at h
      obtain ⟨c', hm, hc⟩ := ih h
      exact ⟨c', List.mem_cons_of_mem _ hm, hc⟩

/-- **request_ok_table**: whatever the state and the call, if the model's API accepts it then there is a row of the
table, of the operation's name, such that: the request carries the row's code; it is awaited by the row's reply reader;
every protocol feature the row requires is acknowledged; a virtio feature the row requires is acknowledged
(`acked = true`) resp. offered (`acked = false`); the queue index is below `maxQ` (and at most the row's bound) where the
row checks it; no other check of the row fires either; descriptors are the caller's exactly where the row attaches them;
the body has the size of the row's body type; the state after the send is the row's pre-reply updates applied. -/
theorem request_ok_table (s : FSt) (op : Op) (req : Req) (s' : FSt) (hreq : request s op = .ok (req, s')) :
    ∃ row ∈ modelOps, rowFor s op = some row ∧ row.name = op.name ∧
      req.code = row.code ∧ awaitOf req.kind = row.await ∧
      (∀ b e, (FeCond.protoMissing b, e) ∈ row.checks → hasProto s b = true) ∧
      (∀ b e, (FeCond.virtioMissing b true, e) ∈ row.checks → bitSet s.acked b = true) ∧
      (∀ b e, (FeCond.virtioMissing b false, e) ∈ row.checks → bitSet s.virtio b = true) ∧
      (∀ e, (FeCond.queueIdxOob, e) ∈ row.checks → arg op 0 < s.maxQ) ∧
      (∀ m e, (FeCond.idxAbove m, e) ∈ row.checks → arg op 0 ≤ m) ∧
      (∀ c ∈ row.checks, fires c.1 s op = false) ∧
      req.fds = (if row.fds then op.fds else []) ∧
      bodyFits row.body req.body = true ∧
      s' = applyPre row.updates s op := by
  obtain ⟨row, hrow, hfe, hcode, haw, hfds, hbody, hst⟩ := request_ok_row s op req s' hreq
  obtain ⟨hmem, hname, _⟩ := rowFor_mem hrow
  have hall := (firstErr_none_iff _ _ _).1 hfe
  refine ⟨row, hmem, hrow, hname, hcode, haw, ?_, ?_, ?_, ?_, ?_, hall, hfds, hbody, hst⟩
  · intro b e h; simpa [fires] using hall _ h
  · intro b e h; simpa [fires] using hall _ h
  · intro b e h; simpa [fires] using hall _ h
  · intro e h; simpa [fires] using hall _ h
  · intro m e h; simpa [fires] using hall _ h

/-- **request_error_table**: a refused call is refused with `.other` (argument list of a shape the operation does not
have — an artefact of the untyped `Op`, or an unknown operation) or with the error of the first check, in table order,
that fires; the firing check is exhibited -/
theorem request_error_table (s : FSt) (op : Op) (e : Err) (h : request s op = .error e) :
    e = .other ∨ ∃ row ∈ modelOps, rowFor s op = some row ∧ row.name = op.name ∧ firstErr row.checks s op = some e ∧
      ∃ c ∈ row.checks, fires c.1 s op = true ∧ errOf c.2 = e := by
  rcases request_error_row s op e h with h | ⟨row, hrow, hfe⟩
  · exact Or.inl h
  · obtain ⟨hmem, hname, _⟩ := rowFor_mem hrow
    exact Or.inr ⟨row, hmem, hrow, hname, hfe, firstErr_some_fires hfe⟩

/-- **first_check_decides**: if some check of the call's row fires, the call is refused — with the error of the first
such check (or `.other` for an argument list of the wrong shape) -/
theorem first_check_decides (s : FSt) (op : Op) (row : FeRow) (e : Err) (hrow : rowFor s op = some row)
    (hfe : firstErr row.checks s op = some e) :
    request s op = .error .other ∨ request s op = .error e := by
  cases hr : request s op with
  | ok p =>
    obtain ⟨req, s'⟩ := p
    obtain ⟨row', hrow', hfe', _⟩ := request_ok_row s op req s' hr
    rw [hrow] at hrow'; cases hrow'
    rw [hfe] at hfe'; cases hfe'
  | error e' =>
    rcases request_error_row s op e' hr with h | ⟨row', hrow', hfe'⟩
    · exact Or.inl (by rw [h])
    · rw [hrow] at hrow'; cases hrow'
      rw [hfe] at hfe'; cases hfe'
      exact Or.inr rfl

/-- **check_fires_refused** (converse for refusal): a firing check of the call's row — any of them — means the API
returns an error -/
theorem check_fires_refused (s : FSt) (op : Op) (row : FeRow) (c : FeCheck) (hrow : rowFor s op = some row)
    (hc : c ∈ row.checks) (hf : fires c.1 s op = true) : ∃ e, request s op = .error e := by
  cases hfe : firstErr row.checks s op with
  | none => exact absurd ((firstErr_none_iff _ _ _).1 hfe c hc) (by rw [hf]; decide)
  | some e => rcases first_check_decides s op row e hrow hfe with h | h <;> exact ⟨_, h⟩

/-- **accepted_iff_no_check_fires**: the table's checks are *all* the model's checks — a call of the right shape is
accepted exactly when no check of its row fires -/
theorem accepted_iff_no_check_fires (s : FSt) (op : Op) (row : FeRow) (hrow : rowFor s op = some row)
    (hshape : request s op ≠ .error .other) :
    (∃ req s', request s op = .ok (req, s')) ↔ ∀ c ∈ row.checks, fires c.1 s op = false := by
  constructor
  · rintro ⟨req, s', hr⟩
    obtain ⟨row', hrow', hfe', _⟩ := request_ok_row s op req s' hr
    rw [hrow] at hrow'; cases hrow'
    exact (firstErr_none_iff _ _ _).1 hfe'
  · intro hall
    cases hr : request s op with
    | ok p => exact ⟨p.1, p.2, rfl⟩
    | error e =>
      rcases request_error_row s op e hr with h | ⟨row', hrow', hfe'⟩
      · exact absurd (by rw [hr, h]) hshape
      · rw [hrow] at hrow'; cases hrow'
        rw [(firstErr_none_iff _ _ _).2 hall] at hfe'; cases hfe'

/-- **refused_sends_nothing**: a refused call writes no byte and no descriptor, reads nothing and leaves the state -/
theorem refused_sends_nothing {σ : Type} (ch : Chooser σ) (cl : Bool) (s : FSt) (op : Op) (cst : σ) (str : List Cell)
    (e : Err) (h : request s op = .error e) :
    let o := call ch cl s op cst str
    o.wire = [] ∧ o.wireFds = [] ∧ o.st = s ∧ o.rest = str ∧ o.closed = [] := by
  simp only [call, h, and_self]

/-- a firing check: nothing reaches the wire -/
theorem check_fires_sends_nothing {σ : Type} (ch : Chooser σ) (cl : Bool) (s : FSt) (op : Op) (cst : σ) (str : List Cell)
    (row : FeRow) (c : FeCheck) (hrow : rowFor s op = some row) (hc : c ∈ row.checks) (hf : fires c.1 s op = true) :
    (call ch cl s op cst str).wire = [] ∧ (call ch cl s op cst str).wireFds = [] ∧ (call ch cl s op cst str).st = s := by
  obtain ⟨e, he⟩ := check_fires_refused s op row c hrow hc hf
  obtain ⟨h1, h2, h3, _⟩ := refused_sends_nothing ch cl s op cst str e he
  exact ⟨h1, h2, h3⟩

/-- **finish_table**: for every row of the operation's name: an error raised while post-processing an accepted reply
is one of the row's reply errors (`.other`: `get_config` with a malformed argument list), and the state afterwards is
the row's post-reply updates applied to the value of the reply (unchanged when an error is raised) -/
theorem finish_table (s : FSt) (op : Op) (r : Reply) (row : FeRow) (hrow : row ∈ modelOps) (hname : row.name = op.name) :
    (∀ e, (finish s op r).1 = .err e → e = .other ∨ e ∈ postErrs row.post) ∧
    (finish s op r).2 = (if Ret.isErr (finish s op r).1 then s else applyPost row.updates s op (leVal r.body)) :=
  finish_rows s op r row (by simp [rowsNamed, List.mem_filter, hrow, hname])

def FePost.conditional : FePost → Bool
  | .bind _ _ | .errIf _ _ | .okIf _ _ | .takeSingleIf _ _ => true
  | _ => false

/-- **reply_handling_pinned**: the methods that look *into* the reply, with the conditions as the source states them.
`model_ops_match_source` compares only the errors (`FePost.skeleton`); the conditions are compared with
`Model.Frontend.finish` by reading (and by the differential `fe` family), so a change of any of them must show up here. -/
theorem reply_handling_pinned :
    (Gen.FrontendOps.rows.filter (fun r => r.post.any FePost.conditional)).map (fun r => (r.name, r.post)) =
    [("get_queue_num", [.errIf "val.value > VHOST_USER_MAX_VRINGS" "InvalidMessage", .ok "node.max_queue_num"]),
     ("get_config",
       [.errIf "rfds.is_some()" "InvalidMessage", .errIf "body_reply.size == 0" "BackendInternalError",
        .errIf "body_reply.size != body.size || body_reply.size as usize != buf.len() || body_reply.offset != body.offset || buf_reply.len() != buf.len()"
          "InvalidMessage",
        .ok "(body_reply, buf_reply)"]),
     ("set_device_state_fd",
       [.bind "msg" "body.value", .okIf "msg == 256 && files.is_none()" "None",
        .takeSingleIf "msg == 0 && files.is_some()" "IncorrectFds", .err "BackendInternalError"]),
     ("check_device_state", [.errIf "body.value != 0" "BackendInternalError", .ok "()"])] := by
  decide +kernel

/-- the model's counterparts of these conditions, as equations of `finish` (constants from the generated tables) -/
theorem finish_conditions (s : FSt) (a : List Nat) (pl : Bytes) (fds : List Fd) (bad : Bool)
    (regs : List (Nat × Nat × Nat × Nat × Bool)) (r : Reply) :
    finish s ⟨"get_queue_num", a, pl, fds, bad, regs⟩ r =
      (if leVal r.body > Gen.Consts.VHOST_USER_MAX_VRINGS then (.err .invalidMsg, s)
       else (.val (leVal r.body), { s with maxQ := leVal r.body })) ∧
    finish s ⟨"check_device_state", a, pl, fds, bad, regs⟩ r =
      (if leVal r.body != 0 then (.err .backendInternal, s) else (.unit, s)) ∧
    finish s ⟨"set_device_state_fd", a, pl, fds, bad, regs⟩ r =
      (if leVal r.body == 0x100 && r.files.isNone then (.noFile, s)
       else if leVal r.body == 0 && r.files.isSome then
         (match takeSingle r.files with | some f => .file f | none => .err .incorrectFds, s)
       else (.err .backendInternal, s)) :=
  ⟨rfl, rfl, rfl⟩

/-- the header of every request: the row's code, `hdr_flags | 1` through `VhostUserMsgHeader::new`, the body's size
(`new_request_header`, as listed in `modelHelpers`) -/
theorem request_header (s : FSt) (req : Req) :
    reqHdr s req = ⟨req.code, Model.BackendSrv.hdrNewFlags (s.hdrFlags ||| 1), req.body.length⟩ := rfl

/-! ### the reply readers' local refusals (`Lemmas.FrontendTable`, restated) -/

/-- `wait_for_ack` returns at once — reading nothing — unless REPLY_ACK (bit 3) is acknowledged and the request asked
for a reply -/
theorem ack_skipped {σ : Type} (ch : Chooser σ) (cl : Bool) (s : FSt) (req : Req) (cst : σ) (str : List Cell)
    (hk : req.kind = .ack) (h : bitSet s.ackedProto 3 = false ∨ (reqHdr s req).needReply = false) :
    (recv ch cl s req cst str).res = .ok ⟨reqHdr s req, u64 0, [], none⟩ ∧ Untouched (recv ch cl s req cst str) cst str :=
  recv_ack_skipped ch cl s req cst str hk h

/-- `recv_reply*`: a request header with the REPLY flag is refused with `InvalidParam` before anything is read -/
theorem reply_header_refused {σ : Type} (ch : Chooser σ) (cl : Bool) (s : FSt) (req : Req) (cst : σ) (str : List Cell)
    (ty : String) (hk : req.kind = .body ty ∨ req.kind = .bodyOptFiles ty ∨ req.kind = .bodyFiles ty)
    (h : (reqHdr s req).isReply = true) :
    (recv ch cl s req cst str).res = .err .invalidParam ∧ Untouched (recv ch cl s req cst str) cst str :=
  recv_reply_header_refused ch cl s req cst str ty hk h

/-- `recv_reply_with_payload`: request size not above the body size, above `MAX_MSG_SIZE`, or a REPLY header —
`InvalidParam` before anything is read -/
theorem payload_window_refused {σ : Type} (ch : Chooser σ) (cl : Bool) (s : FSt) (req : Req) (cst : σ) (str : List Cell)
    (ty : String) (n : Nat) (hk : req.kind = .payload ty) (hn : sizeOfTy ty = some n)
    (h : (reqHdr s req).size ≤ n ∨ (reqHdr s req).size > 0x1000 ∨ (reqHdr s req).isReply = true) :
    (recv ch cl s req cst str).res = .err .invalidParam ∧ Untouched (recv ch cl s req cst str) cst str :=
  recv_payload_refused ch cl s req cst str ty n hk hn h

/-! ## consequences for single operations (the statements the seeded source changes falsify) -/

/-- ring enable needs PROTOCOL_FEATURES *acknowledged* (not merely offered) and an index below `maxQ` -/
theorem set_vring_enable_needs (s : FSt) (op : Op) (req : Req) (s' : FSt) (hn : op.name = "set_vring_enable")
    (hreq : request s op = .ok (req, s')) : bitSet s.acked 30 = true ∧ arg op 0 < s.maxQ ∧ req.code = 18 := by
  obtain ⟨row, hmem, hrow, hname, hcode, _, _, hacked, _, hq, _⟩ := request_ok_table s op req s' hreq
  obtain ⟨n, a, pl, fds, bad, regs⟩ := op
  simp only at hn; subst hn
  rw [show rowFor s ⟨"set_vring_enable", a, pl, fds, bad, regs⟩ = some _ from rfl] at hrow
  cases hrow
  exact ⟨hacked 30 "InactiveFeature" (by decide), hq "InvalidParam" (by decide), hcode⟩

/-- `get_config` needs CONFIG (bit 9) acknowledged -/
theorem get_config_needs (s : FSt) (op : Op) (req : Req) (s' : FSt) (hn : op.name = "get_config")
    (hreq : request s op = .ok (req, s')) : hasProto s 9 = true ∧ req.code = 24 ∧ req.kind = .payload "VhostUserConfig" := by
  obtain ⟨row, hmem, hrow, hname, hcode, haw, hproto, _⟩ := request_ok_table s op req s' hreq
  obtain ⟨n, a, pl, fds, bad, regs⟩ := op
  simp only at hn; subst hn
  rw [show rowFor s ⟨"get_config", a, pl, fds, bad, regs⟩ = some _ from rfl] at hrow
  cases hrow
  refine ⟨hproto 9 "InactiveOperation" (by decide), hcode, ?_⟩
  cases hk : req.kind <;> rw [hk] at haw <;> first | (cases haw; done) | skip
  cases haw; rfl

/-! ## non-vacuity -/

/-- an accepted call and its row -/
example : ∃ req s' row, request { maxQ := 2, acked := 0x40000000 } ⟨"set_vring_enable", [1, 1], [], [], false, []⟩ = .ok (req, s') ∧
    rowFor { maxQ := 2, acked := 0x40000000 } ⟨"set_vring_enable", [1, 1], [], [], false, []⟩ = some row ∧
    row.checks = [(.virtioMissing 30 true, "InactiveFeature"), (.queueIdxOob, "InvalidParam")] ∧ req.code = row.code :=
  ⟨_, _, _, rfl, rfl, rfl, rfl⟩

/-- offered but not acknowledged: the first check fires, the call is refused with its error -/
example : firstErr [(.virtioMissing 30 true, "InactiveFeature"), (.queueIdxOob, "InvalidParam")]
      { maxQ := 2, virtio := 0x40000000 } ⟨"set_vring_enable", [1, 1], [], [], false, []⟩ = some .inactiveFeature ∧
    request { maxQ := 2, virtio := 0x40000000 } ⟨"set_vring_enable", [1, 1], [], [], false, []⟩ = .error .inactiveFeature :=
  ⟨by decide, rfl⟩

/-- both send paths of `set_log_base` are rows -/
example : (rowFor { ackedProto := 2 } ⟨"set_log_base", [0, 0x1000, 0], [], [5], false, []⟩).map (·.await) = some (.reply "VhostUserLog") ∧
    (rowFor {} ⟨"set_log_base", [0, 0x1000, 0], [], [5], false, []⟩).map (·.await) = some .none ∧
    (rowFor { ackedProto := 2 } ⟨"set_log_base", [0], [], [], false, []⟩).map (·.await) = some .none := by
  decide

end Props.FrontendOps
