import VhostModel.Lemmas.ConnSend
import VhostModel.Lemmas.ConnRecv
import VhostModel.Lemmas.ConnData
import VhostModel.Lemmas.ConnFrameRecv
import VhostModel.Lemmas.ConnFrameSend
import VhostModel.Model.RecvBody

set_option linter.unusedSimpArgs false
set_option linter.unusedVariables false
/-!
# Translator tie: the loops and framing functions of `connection.rs` against the hand-written models

`tools/rs2lean_conn.py` translates the bodies of `get_sub_iovs_offset`, `Endpoint::{send_iovec_all, send_header,
send_message, send_message_with_payload, recv_data, recv_into_iovec_all, recv_header, recv_body, recv_body_into_buf,
recv_payload_into_buf}` into terms of the imperative language of `Base/Imp.lean` (`Gen/ConnLoops.lean`).  The theorems
below interpret these terms (`Imp.exec`) and compare with `Model.Endpoint.subIovsOffset` / `sendAll`,
`Model.Stream.recvAll` / `recvData`, the header reading of `Model.BackendSrv.step` and `Model.Frontend.recvBody` /
`Model.RecvBody.recvBody` — for every input, send script, chooser and stream, and for every fuel above the stated
bound (`while` consumes one unit of fuel per evaluation of its condition):

* send side: `fuel > script.length` (every iteration consumes one script entry);
* receive side: `fuel ≥ stream.length + 1` (every iteration consumes at least one cell, or ends the loop).

Full equalities: `get_sub_iovs_offset_matches`, `send_iovec_all_matches`, `recv_into_iovec_all_matches`,
`recv_data_matches`, `recv_header_matches` (+ `step_reads_header`: `Model.BackendSrv.step` factors through exactly these
decisions), `recv_body_matches` (+ `recv_body_frontend`, `recv_body_generic`: equality with `Model.Frontend.recvBody` /
`Model.RecvBody.recvBody`).
Against reference definitions written here (the framework has no hand-written model of these): `recv_body_into_buf_matches`,
`recv_payload_into_buf_matches` (relative to `recvAll`), `send_header_matches`, `send_message_matches`,
`send_message_with_payload_matches` (relative to `sendAll`: iovec order, `PartialMessage` check, size guards).

Where model and source are phrased differently (no disagreement found):
* `SendEv.other` of the model = errno classes `SocketConnect` (`EACCES`) and `SocketError` of the source (`toEv`);
* the model's `RecvAll.fds : List Fd` is the source's `Option<Vec<File>>` with `None` = `[]` (`optOf`); `Some(vec![])`
  does not occur (`recv_into_iovec` returns `None` for zero descriptors);
* on `blocked` the model reports the descriptors received so far in `fds`; in the interpreter they are the live value
  of `rfds` in the blocked activation (`recvAllOf` reads them from the returned frame).
-/
namespace Props.ConnLoops
open Imp Gen.ConnLoops Model.Endpoint
open Model.Stream (Cell Chooser clampK recvAll recvData RecvAll RecvData)
open Lemmas.ConnSub Lemmas.ConnSend Lemmas.ConnRecv Lemmas.ConnFrameRecv Lemmas.ConnFrameSend

/-! ### the errno classification (`impl From<vmm_sys_util::errno::Error> for Error`) -/

/-- the generated table, evaluated: exactly `EAGAIN`/`EWOULDBLOCK`(11), `EINTR`(4), `ENOBUFS`(105), `ENOMEM`(12) retry,
`ECONNRESET`(104), `EPIPE`(32) are a broken socket, `EACCES`(13) is `SocketConnect`, everything else `SocketError` -/
theorem classify_spec (e : Nat) :
    classify e = if e = 11 ∨ e = 4 ∨ e = 105 ∨ e = 12 then .retry
                 else if e = 104 ∨ e = 32 then .broken
                 else if e = 13 then .connect else .other := by
  simp only [classify, errnoTable, classifyIn, errnoDefault]
  by_cases h1 : e = 11 <;> by_cases h2 : e = 4 <;> by_cases h3 : e = 105 <;> by_cases h4 : e = 12 <;>
    by_cases h5 : e = 104 <;> by_cases h6 : e = 32 <;> by_cases h7 : e = 13 <;> simp_all

/-- `MSG_CTRUNC` ⇒ `ENOBUFS` ⇒ `SocketRetry`: what `Model.Stream` assumes of the crate -/
theorem enobufs_is_retry : classify ENOBUFS = .retry := by decide

/-- the model's send events are the source's classes: `retry` = `SocketRetry`, `broken` = `SocketBroken`,
`other` = `SocketConnect` or `SocketError` -/
theorem toEv_spec (e : Nat) :
    toEv classify (.errno e) = if e = 11 ∨ e = 4 ∨ e = 105 ∨ e = 12 then .retry else if e = 104 ∨ e = 32 then .broken else .other := by
  simp only [toEv, classify_spec]
  by_cases h1 : e = 11 ∨ e = 4 ∨ e = 105 ∨ e = 12
  · simp [h1]
  · by_cases h2 : e = 104 ∨ e = 32
    · simp [h1, h2]
    · by_cases h3 : e = 13 <;> simp [h1, h2, h3]

/-- the descriptor array handed to `recv_with_fds` by `recv_into_iovec` has the model's 32 slots -/
theorem recv_cap : recvFdCap = 32 := rfl

/-! ### (a) `get_sub_iovs_offset` -/

/-- parameters of `get_sub_iovs_offset(iov_lens, skip_size)` -/
def gsioArgs (lens : List Nat) (skip : Nat) : Frame :=
  { l := upd (fun _ => []) GetSubIovsOffset.iov_lens.id lens, n := upd (fun _ => 0) GetSubIovsOffset.skip_size.id skip }

theorem get_sub_iovs_offset_matches {σ : Type} (env : Env σ) (lens : List Nat) (skip fuel : Nat) (w : World σ) :
    (exec env getSubIovsOffset fuel (gsioArgs lens skip) w).1 =
      .done (.ok { nats := [(subIovsOffset lens skip 0).1, (subIovsOffset lens skip 0).2] }) ∧
    (exec env getSubIovsOffset fuel (gsioArgs lens skip) w).2.2 = w := by
  obtain ⟨fr', h⟩ := get_sub_iovs_offset_exec env fuel (gsioArgs lens skip) w
  unfold getSubIovsOffset
  rw [h]
  simp [gsioArgs]

example : (exec (σ := Unit) { ch := ⟨fun _ _ _ => (1, ())⟩ } getSubIovsOffset 0 (gsioArgs [4, 4, 5] 6) { cst := () }).1
    = .done (.ok { nats := [1, 2] }) := by decide

/-! ### (b) `send_iovec_all` -/

/-- parameters of `send_iovec_all(iovs, fds)`: the message pieces lie in store 0 -/
def sendArgs (iovs : List Bytes) (fds : Option (List Fd)) : Frame :=
  { io := upd (fun _ => {}) SendIovecAll.iovs.id { store := 0, start := 0, lens := iovs.map (·.length) },
    f := upd (fun _ => none) SendIovecAll.fds.id fds }

def sendWorld {σ : Type} (iovs : List Bytes) (script : List SendOut) (st : σ) : World σ :=
  { mem := [iovs.flatten], script := script, cst := st }

/-- for every message split into iovecs, descriptor list and send script: the successful `sendmsg` calls (bytes taken,
descriptors attached) are the model's wire and the result is the model's `SendRes` -/
theorem send_iovec_all_matches {σ : Type} (env : Env σ) (hc : env.classify = classify) (iovs : List Bytes) (fds : Option (List Fd))
    (script : List SendOut) (st : σ) (fuel : Nat) (hF : script.length < fuel) :
    wireOf (exec env sendIovecAll fuel (sendArgs iovs fds) (sendWorld iovs script st)).2.2.sent =
      (sendAll (fds.getD []) iovs.flatten 0 (script.map (toEv classify)) []).1 ∧
    sendResOf (exec env sendIovecAll fuel (sendArgs iovs fds) (sendWorld iovs script st)).1 =
      some (sendAll (fds.getD []) iovs.flatten 0 (script.map (toEv classify)) []).2 := by
  have hb : IoVal.bytes [iovs.flatten] { store := 0, start := 0, lens := iovs.map (·.length) } = iovs.flatten := by
    have := bytes_alloc [] iovs
    simpa using this
  have h := send_iovec_all_exec env fuel (sendArgs iovs fds) (sendWorld iovs script st) hF
    (by simp only [sendArgs, sendWorld, upd_apply, reduceIte]; rw [hb, List.length_flatten])
  simp only [sendArgs, sendWorld, upd_apply, reduceIte, hb, hc] at h
  exact ⟨h.1, h.2.2⟩

/-- descriptors ride on the first successful `sendmsg` only; `Ok(0)` ends the loop with the short count; `SocketRetry`
retries without advancing (a concrete run) -/
example :
    ((exec (σ := Unit) { ch := ⟨fun _ _ _ => (1, ())⟩, classify := classify } sendIovecAll 9
      (sendArgs [[1, 2], [3]] (some [7])) (sendWorld [[1, 2], [3]] [.errno 11, .accept 1, .errno 4, .accept 1, .accept 0] ())).1,
     (exec (σ := Unit) { ch := ⟨fun _ _ _ => (1, ())⟩, classify := classify } sendIovecAll 9
      (sendArgs [[1, 2], [3]] (some [7])) (sendWorld [[1, 2], [3]] [.errno 11, .accept 1, .errno 4, .accept 1, .accept 0] ())).2.2.sent.map
        (fun c => (c.offered, c.fds))) =
      (Ctl.done (.ok { nats := [2] }), [([1, 2, 3], [7]), ([1, 2, 3], [7]), ([2, 3], []), ([2, 3], []), ([3], [])]) := by
  decide

/-! ### (e) `send_header`, `send_message`, `send_message_with_payload` -/

theorem send_header_matches {σ : Type} (env : Env σ) (F : Nat) (fr : Frame) (w : World σ) (hF : w.script.length < F) :
    FrameSendSpec (sendAll ((fr.f SendHeader.fds.id).getD []) (fr.b SendHeader.hdr.id) 0 (w.script.map (toEv env.classify)) (wireOf w.sent))
      env.sizeH (exec env sendHeader F fr w) :=
  send_header_exec env F fr w hF

theorem send_message_matches {σ : Type} (env : Env σ) (F : Nat) (fr : Frame) (w : World σ) (hF : w.script.length < F) :
    if env.sizeT > env.maxMsg then
      (exec env sendMessage F fr w).1 = .done (.err .oversizedMsg) ∧ (exec env sendMessage F fr w).2.2.sent = w.sent
    else
      FrameSendSpec (sendAll ((fr.f SendMessage.fds.id).getD []) (fr.b SendMessage.hdr.id ++ fr.b SendMessage.body.id) 0
          (w.script.map (toEv env.classify)) (wireOf w.sent))
        (env.sizeH + env.sizeT) (exec env sendMessage F fr w) :=
  send_message_exec env F fr w hF

theorem send_message_with_payload_matches {σ : Type} (env : Env σ) (F : Nat) (fr : Frame) (w : World σ) (hF : w.script.length < F) :
    if env.sizeT > env.maxMsg ∨ (fr.b SendMessageWithPayload.payload.id).length > env.maxMsg - env.sizeT then
      (exec env sendMessageWithPayload F fr w).1 = .done (.err .oversizedMsg) ∧
      (exec env sendMessageWithPayload F fr w).2.2.sent = w.sent
    else if (fr.f SendMessageWithPayload.fds.id).isSome ∧ ((fr.f SendMessageWithPayload.fds.id).getD []).length > 32 then
      (exec env sendMessageWithPayload F fr w).1 = .done (.err .incorrectFds) ∧
      (exec env sendMessageWithPayload F fr w).2.2.sent = w.sent
    else
      FrameSendSpec (sendAll ((fr.f SendMessageWithPayload.fds.id).getD [])
          (fr.b SendMessageWithPayload.hdr.id ++ fr.b SendMessageWithPayload.body.id ++ fr.b SendMessageWithPayload.payload.id) 0
          (w.script.map (toEv env.classify)) (wireOf w.sent))
        (env.sizeH + env.sizeT + (fr.b SendMessageWithPayload.payload.id).length) (exec env sendMessageWithPayload F fr w) :=
  send_message_with_payload_exec env F fr w hF


/-! ### (c) `recv_into_iovec_all`, `recv_data` -/

/-- parameters of `recv_into_iovec_all(iovs)`: the destination iovecs cover store 0 -/
def recvArgs (lens : List Nat) : Frame :=
  { io := upd (fun _ => {}) RecvIntoIovecAll.iovs.id { store := 0, start := 0, lens := lens } }

def recvWorld {σ : Type} (n : Nat) (s : List Cell) (st : σ) : World σ :=
  { mem := [List.replicate n 0], stream := s, cst := st }

/-- the interpreter's result read as the model's record: bytes = what the call wrote into the buffer, `fds` = the returned
`Option<Vec<File>>` (on `blocked`: the value of `rfds` in the waiting activation), `closed` = everything closed,
`done`/`eof` by the returned count -/
def recvAllOf {σ : Type} (store want : Nat) (res : Res σ) : RecvAll σ :=
  match res.1 with
  | .done (.ok ⟨[n], fo, _⟩) =>
    ⟨(res.2.2.mem.getD store []).take n, fo.getD [], res.2.2.closed, res.2.2.stream, res.2.2.cst, if n = want then .done else .eof⟩
  | .stuck .blocked =>
    ⟨(res.2.2.mem.getD store []).take (res.2.1.n RecvIntoIovecAll.data_read.id), (res.2.1.f RecvIntoIovecAll.rfds.id).getD [],
      res.2.2.closed, res.2.2.stream, res.2.2.cst, .blocked⟩
  | _ => ⟨[], [], [], [], res.2.2.cst, .done⟩

theorem take_writeAt_zeros (n : Nat) (b : Bytes) (h : b.length ≤ n) : (writeAt (List.replicate n 0) 0 b).take b.length = b := by
  rw [writeAt_zeros n b h]; simp

/-- for every list of iovec lengths, chooser, stream and closedness: bytes, descriptors handed out, descriptors closed,
rest of the stream, chooser state and outcome are those of `Model.Stream.recvAll` -/
theorem recv_into_iovec_all_matches {σ : Type} (env : Env σ) (hc : env.classify = classify) (lens : List Nat) (s : List Cell) (st : σ)
    (fuel : Nat) (hF : s.length + 1 ≤ fuel) :
    recvAllOf 0 lens.sum (exec env recvIntoIovecAll fuel (recvArgs lens) (recvWorld lens.sum s st)) =
      recvAll env.ch recvFdCap env.isClosed lens.sum st s true := by
  have h := recv_into_iovec_all_exec env fuel (recvArgs lens) (recvWorld lens.sum s st) (by rw [hc]; exact enobufs_is_retry) hF
    (by simp [recvArgs]) (by simp [recvArgs, recvWorld]) (by simp [recvArgs, recvWorld])
  have hol := recvAll_outcome_len env.ch 32 env.isClosed lens.sum st s true
  simp only [recvArgs, recvWorld, upd_apply, reduceIte, List.getD_cons_zero, List.set_cons_zero] at h hol
  unfold recvIntoIovecAll recvFdCap
  simp only [recvArgs, recvWorld]
  rcases hx : exec env RecvIntoIovecAll.fnBody fuel
    { io := upd (fun _ => {}) 0 { store := 0, start := 0, lens := lens } } { mem := [List.replicate lens.sum 0], stream := s, cst := st } with ⟨c, fr', w'⟩
  rw [hx] at h
  rcases hR : recvAll env.ch 32 env.isClosed lens.sum st s true with ⟨rb, rf, rc, rr, rs, ro⟩
  rw [hR] at h hol
  obtain ⟨t1, t2, t3, t4, t5, t6⟩ := h
  simp only [List.nil_append] at t1 t2 t3 t4 t5 t6 hol
  cases c with
  | normal => exact t6.elim
  | brk => exact t6.elim
  | done rv =>
    obtain ⟨v1, v2⟩ : _ ∧ _ := t6
    subst v2
    have hopt : (optOf rf).getD [] = rf := optOf_getD rf
    simp only [recvAllOf, t1, t2, t3, t4, hopt, List.getD_cons_zero, take_writeAt_zeros _ _ t5]
    congr 1
    by_cases hd : ro = .done
    · rw [if_pos (hol.1 hd), hd]
    · have := hol.2 hd
      rw [if_neg (by omega)]
      cases ro <;> simp_all
  | stuck sk =>
    cases sk with
    | blocked =>
      obtain ⟨v1, v2, v3⟩ : _ ∧ _ ∧ _ := t6
      have hopt : (optOf rf).getD [] = rf := optOf_getD rf
      simp only [recvAllOf, t1, t2, t3, t4, v2, v3, hopt, List.getD_cons_zero, take_writeAt_zeros _ _ t5]
      rw [v1]
    | _ => exact t6.elim

/-- parameters of `recv_data(len)` -/
def dataArgs (len : Nat) : Frame := { n := upd (fun _ => 0) RecvData.len.id len }

/-- the interpreter's result read as the model's record (`lost` = descriptors discarded by the receive without control
buffer; `full`/`short` by the returned count; `SocketRetry` = `enobufs`).  `store` = the `Vec` allocated by the call. -/
def recvDataOf {σ : Type} (store want : Nat) (res : Res σ) : RecvData σ :=
  match res.1 with
  | .done (.ok ⟨[n], _, _⟩) =>
    ⟨(res.2.2.mem.getD store []).take n, res.2.2.closed, res.2.2.stream, res.2.2.cst, if n = want then .full else .short⟩
  | .done (.err (.sock .retry _)) =>
    ⟨(res.2.2.mem.getD store []).take (res.2.1.n RecvData.data_read.id), res.2.2.closed, res.2.2.stream, res.2.2.cst, .enobufs⟩
  | .stuck .blocked =>
    ⟨(res.2.2.mem.getD store []).take (res.2.1.n RecvData.data_read.id), res.2.2.closed, res.2.2.stream, res.2.2.cst, .blocked⟩
  | _ => ⟨[], [], [], res.2.2.cst, .full⟩


/-- for every length, chooser, stream and closedness: bytes, discarded descriptors, rest of the stream, chooser state and
outcome are those of `Model.Stream.recvData` -/
theorem recv_data_matches {σ : Type} (env : Env σ) (hc : env.classify = classify) (len : Nat) (s : List Cell) (st : σ)
    (fuel : Nat) (hF : s.length + 1 ≤ fuel) :
    recvDataOf 0 len (exec env Gen.ConnLoops.recvData fuel (dataArgs len) { stream := s, cst := st }) =
      Model.Stream.recvData env.ch env.isClosed len st s := by
  have h := Lemmas.ConnData.recv_data_exec env fuel (dataArgs len) { stream := s, cst := st } (by rw [hc]; exact enobufs_is_retry) hF
  have hol := Lemmas.ConnData.recvData_outcome_len env.ch env.isClosed len st s
  simp only [dataArgs, upd_apply, reduceIte, List.nil_append] at h hol
  unfold Gen.ConnLoops.recvData
  simp only [dataArgs]
  rcases hx : exec env RecvData.fnBody fuel { n := upd (fun _ => 0) 0 len } { stream := s, cst := st } with ⟨c, fr', w'⟩
  rw [hx] at h
  rcases hR : Model.Stream.recvData env.ch env.isClosed len st s with ⟨rb, rl, rr, rs, ro⟩
  rw [hR] at h hol
  obtain ⟨t1, t2, t3, t4, t5, t6⟩ := h
  simp only at t1 t2 t3 t4 t5 t6 hol
  cases c with
  | normal => exact t6.elim
  | brk => exact t6.elim
  | done rv =>
    cases rv with
    | ok v =>
      obtain ⟨v1, v2⟩ : _ ∧ _ := t6
      subst v2
      simp only [recvDataOf, t1, t2, t3, t4, List.getD_cons_zero, take_writeAt_zeros _ _ t5]
      congr 1
      rcases v1 with hd | hd
      · rw [if_pos (hol.1 hd), hd]
      · have := hol.2 hd
        rw [if_neg (by omega), hd]
    | err e =>
      obtain ⟨v1, v2, v3⟩ : _ ∧ _ ∧ _ := t6
      subst v2
      simp only [recvDataOf, t1, t2, t3, t4, v3, List.getD_cons_zero, take_writeAt_zeros _ _ t5]
      rw [v1]
  | stuck sk =>
    cases sk with
    | blocked =>
      obtain ⟨v1, v2⟩ : _ ∧ _ := t6
      simp only [recvDataOf, t1, t2, t3, t4, v2, List.getD_cons_zero, take_writeAt_zeros _ _ t5]
      rw [v1]
    | _ => exact t6.elim

/-- a concrete run: 3 bytes wanted, delivered 2 + 1 by the chooser; the descriptors of the first chunk are kept, those
of the second are closed -/
example :
    (fun r : RecvAll Unit => (r.bytes, r.fds, r.closed, r.rest, r.outcome))
      (recvAllOf 0 3 (exec (σ := Unit) { ch := ⟨fun _ _ _ => (2, ())⟩, classify := classify } recvIntoIovecAll 9 (recvArgs [1, 2])
        (recvWorld 3 [⟨1, [5], true⟩, ⟨2, [], false⟩, ⟨3, [6], true⟩, ⟨4, [], false⟩] ()))) =
    ([1, 2, 3], [5], [6], [⟨4, [], false⟩], .done) := by decide


/-! ### (d) `recv_header`, `recv_body`, `recv_body_into_buf`, `recv_payload_into_buf` -/

/-- the decisions of `recv_header` as a function of `recvAll` over `size_of::<H>()` bytes (`Lemmas.ConnFrameRecv.HeaderSpec`):
blocked / `Disconnected` (0 bytes) / `PartialMessage` (≠ `size_of::<H>()`) / `InvalidMessage` (`!hdr.is_valid()`) / the header
bytes with the received files; every error path closes the received files -/
theorem recv_header_matches {σ : Type} (env : Env σ) (hc : env.classify = classify) (F : Nat) (fr : Frame) (w : World σ)
    (hF : w.stream.length + 1 ≤ F) :
    HeaderSpec env w (recvAll env.ch recvFdCap env.isClosed env.sizeH w.cst w.stream true) (exec env recvHeader F fr w) :=
  recv_header_exec env F fr w (by rw [hc]; exact enobufs_is_retry) hF

/-- the decisions of `recv_body::<T>` (`BodySpec`): one read of `size_of::<H>() + size_of::<T>()` bytes; `PartialMessage`
unless exactly that many arrived; `InvalidMessage` if `!hdr.is_valid() || !body.is_valid()` -/
theorem recv_body_matches {σ : Type} (env : Env σ) (hc : env.classify = classify) (F : Nat) (fr : Frame) (w : World σ)
    (hF : w.stream.length + 1 ≤ F) :
    BodySpec env w (recvAll env.ch recvFdCap env.isClosed (env.sizeH + env.sizeT) w.cst w.stream true) (exec env Gen.ConnLoops.recvBody F fr w) :=
  recv_body_exec env F fr w (by rw [hc]; exact enobufs_is_retry) hF

/-- `recv_body_into_buf(buf)` (`BodyIntoBufSpec`): one read of `size_of::<H>() + buf.len()` bytes; `PartialMessage` if fewer
than a header arrived; `InvalidMessage` on an invalid header; the body size returned is `bytes - size_of::<H>()`; `buf` holds
the bytes after the header.  (No hand-written model of this function exists in the framework: the statement is relative
to `recvAll`.) -/
theorem recv_body_into_buf_matches {σ : Type} (env : Env σ) (hc : env.classify = classify) (F : Nat) (fr : Frame) (w : World σ)
    (hF : w.stream.length + 1 ≤ F) :
    BodyIntoBufSpec env w (fr.b RecvBodyIntoBuf.buf.id).length
      (recvAll env.ch recvFdCap env.isClosed (env.sizeH + (fr.b RecvBodyIntoBuf.buf.id).length) w.cst w.stream true)
      (exec env recvBodyIntoBuf F fr w) :=
  recv_body_into_buf_exec env F fr w (by rw [hc]; exact enobufs_is_retry) hF

/-- `recv_payload_into_buf::<T>(buf)` (`PayloadIntoBufSpec`): one read of `size_of::<H>() + size_of::<T>() + buf.len()` bytes;
`PartialMessage` if fewer than header + body arrived; `InvalidMessage` if header or body is invalid; payload size
`bytes - (size_of::<H>() + size_of::<T>())`.  (No hand-written model; relative to `recvAll`.) -/
theorem recv_payload_into_buf_matches {σ : Type} (env : Env σ) (hc : env.classify = classify) (F : Nat) (fr : Frame) (w : World σ)
    (hF : w.stream.length + 1 ≤ F) :
    PayloadIntoBufSpec env w (fr.b RecvPayloadIntoBuf.buf.id).length
      (recvAll env.ch recvFdCap env.isClosed (env.sizeH + env.sizeT + (fr.b RecvPayloadIntoBuf.buf.id).length) w.cst w.stream true)
      (exec env recvPayloadIntoBuf F fr w) :=
  recv_payload_into_buf_exec env F fr w (by rw [hc]; exact enobufs_is_retry) hF

/-! #### `recv_body` against `Model.RecvBody.recvBody` / `Model.Frontend.recvBody` -/

open Model.Frontend (RecvOut RecvRes Reply parseHdr)

/-- the interpreter's result of `recv_body` read as the model's `RecvOut` -/
def recvOutOf {σ : Type} (res : Res σ) : RecvOut σ :=
  match res.1 with
  | .stuck .blocked => ⟨.blocked, res.2.2.stream, res.2.2.cst, res.2.2.closed ++ (res.2.1.f RecvIntoIovecAll.rfds.id).getD []⟩
  | .done (.err .partialMessage) => ⟨.err .partialMsg, res.2.2.stream, res.2.2.cst, res.2.2.closed⟩
  | .done (.err .invalidMessage) => ⟨.err .invalidMsg, res.2.2.stream, res.2.2.cst, res.2.2.closed⟩
  | .done (.ok ⟨_, fo, [hb, body]⟩) => ⟨.ok ⟨parseHdr hb, body, [], fo⟩, res.2.2.stream, res.2.2.cst, res.2.2.closed⟩
  | _ => ⟨.err .other, res.2.2.stream, res.2.2.cst, res.2.2.closed⟩

theorem optOf_eq (l : List Fd) : optOf l = if l.isEmpty then none else some l := rfl

/-- `Endpoint::<H>::recv_body::<T>` with a 12-byte header is `Model.RecvBody.recvBody`, for every header / body validator -/
theorem recv_body_generic {σ : Type} (env : Env σ) (hc : env.classify = classify) (hH : env.sizeH = 12) (F : Nat) (fr : Frame)
    (w : World σ) (hw : w.closed = []) (hF : w.stream.length + 1 ≤ F) :
    recvOutOf (exec env Gen.ConnLoops.recvBody F fr w) =
      Model.RecvBody.recvBody env.ch env.isClosed env.validH env.sizeT env.validT w.cst w.stream := by
  have h := recv_body_matches env hc F fr w hF
  unfold BodySpec recvFdCap at h
  unfold Model.RecvBody.recvBody
  rw [hH] at h
  rcases hx : exec env Gen.ConnLoops.recvBody F fr w with ⟨c, fr', w'⟩
  rw [hx] at h
  generalize recvAll env.ch 32 env.isClosed (12 + env.sizeT) w.cst w.stream true = R at *
  obtain ⟨t1, t2, t3⟩ := h
  simp only [hw, List.nil_append] at t1 t2 t3
  by_cases hb : R.outcome = .blocked
  · simp only [hb, if_true] at t3
    obtain ⟨u1, u2, u3⟩ := t3
    subst u1
    simp only [recvOutOf, hb, t1, t2, u2, u3, optOf_getD]
  · simp only [hb, if_false] at t3
    have hgoal : (if R.bytes.length != 12 + env.sizeT then (⟨.err .partialMsg, R.rest, R.st, R.closed ++ R.fds⟩ : RecvOut σ)
          else if !env.validH (R.bytes.take 12) || !env.validT (R.bytes.drop 12) then ⟨.err .invalidMsg, R.rest, R.st, R.closed ++ R.fds⟩
          else ⟨.ok ⟨parseHdr (R.bytes.take 12), R.bytes.drop 12, [], if R.fds.isEmpty then none else some R.fds⟩, R.rest, R.st, R.closed⟩)
        = recvOutOf (c, fr', w') → recvOutOf (c, fr', w') =
          (have r := R;
           match r.outcome with
           | .blocked => (⟨.blocked, r.rest, r.st, r.closed ++ r.fds⟩ : RecvOut σ)
           | _ =>
             if r.bytes.length != 12 + env.sizeT then ⟨.err .partialMsg, r.rest, r.st, r.closed ++ r.fds⟩
             else
               have hb := r.bytes.take 12
               have body := r.bytes.drop 12
               if !env.validH hb || !env.validT body then ⟨.err .invalidMsg, r.rest, r.st, r.closed ++ r.fds⟩
               else ⟨.ok ⟨parseHdr hb, body, [], if r.fds.isEmpty then none else some r.fds⟩, r.rest, r.st, r.closed⟩) := by
      intro hh
      rw [← hh]
      cases ho : R.outcome <;> simp_all
    apply hgoal
    symm
    by_cases h1 : R.bytes.length = 12 + env.sizeT
    · simp only [h1, ne_eq, not_true_eq_false, if_false, bne_self_eq_false, Bool.false_eq_true] at t3 ⊢
      by_cases hv : (!env.validH (R.bytes.take 12) || !env.validT (R.bytes.drop 12)) = true
      · simp only [hv, if_true] at t3 ⊢
        obtain ⟨u1, u2⟩ := t3
        subst u1
        simp only [recvOutOf, t1, t2, u2]
      · simp only [hv, if_false, Bool.false_eq_true] at t3 ⊢
        obtain ⟨u1, u2⟩ := t3
        subst u1
        simp only [recvOutOf, t1, t2, u2, optOf_eq]
    · have h1' : (R.bytes.length != 12 + env.sizeT) = true := by simp [h1]
      simp only [h1, ne_eq, not_false_eq_true, if_true, h1'] at t3 ⊢
      obtain ⟨u1, u2⟩ := t3
      subst u1
      simp only [recvOutOf, t1, t2, u2]


/-- `FrontendInternal`'s use: `recv_body::<T>` over `VhostUserMsgHeader<FrontendReq>` is `Model.Frontend.recvBody` -/
theorem recv_body_frontend {σ : Type} (env : Env σ) (hc : env.classify = classify) (hH : env.sizeH = 12) (ty : String) (n : Nat)
    (hn : Model.Frontend.sizeOfTy ty = some n) (hT : env.sizeT = n) (hvH : env.validH = Model.Frontend.hdrValid)
    (hvT : env.validT = fun b => Model.Frontend.bodyValidTy ty b == some true) (F : Nat) (fr : Frame)
    (w : World σ) (hw : w.closed = []) (hF : w.stream.length + 1 ≤ F) :
    recvOutOf (exec env Gen.ConnLoops.recvBody F fr w) = Model.Frontend.recvBody env.ch env.isClosed ty w.cst w.stream := by
  rw [recv_body_generic env hc hH F fr w hw hF]
  unfold Model.Frontend.recvBody Model.RecvBody.recvBody
  rw [hn, hT, hvH, hvT]
  rfl

/-! #### `recv_header` against the header reading of `Model.BackendSrv.step` -/

open Model.BackendSrv in
/-- what `handle_request` learns from `recv_header` -/
inductive HdrOut where
  | blocked (closed : List Fd)
  | err (e : Model.BackendSrv.Err) (closed : List Fd)
  | ok (bytes : Bytes) (files : Option (List Fd)) (closed : List Fd)

/-- the header reading of `Model.BackendSrv.step`, as written there -/
def hdrOfModel {σ : Type} (validH : Bytes → Bool) (r : RecvAll σ) : HdrOut :=
  match r.outcome with
  | .blocked => .blocked (r.closed ++ r.fds)
  | _ =>
    if r.bytes.length == 0 then .err .disconnected (r.closed ++ r.fds)
    else if r.bytes.length != 12 then .err .partialMsg (r.closed ++ r.fds)
    else if validH r.bytes then .ok r.bytes (if r.fds.isEmpty then none else some r.fds) r.closed
    else .err .invalidMsg (r.closed ++ r.fds)

/-- the interpreter's result of `recv_header` read the same way -/
def hdrOfExec {σ : Type} (res : Res σ) : Option HdrOut :=
  match res.1 with
  | .stuck .blocked => some (.blocked (res.2.2.closed ++ (res.2.1.f RecvIntoIovecAll.rfds.id).getD []))
  | .done (.err .disconnected) => some (.err .disconnected res.2.2.closed)
  | .done (.err .partialMessage) => some (.err .partialMsg res.2.2.closed)
  | .done (.err .invalidMessage) => some (.err .invalidMsg res.2.2.closed)
  | .done (.ok ⟨_, fo, [hb]⟩) => some (.ok hb fo res.2.2.closed)
  | _ => none

/-- the translated `recv_header` takes exactly the decisions the model's `step` takes on the header -/
theorem recv_header_decisions {σ : Type} (env : Env σ) (hc : env.classify = classify) (hH : env.sizeH = 12) (F : Nat) (fr : Frame)
    (w : World σ) (hw : w.closed = []) (hF : w.stream.length + 1 ≤ F) :
    hdrOfExec (exec env recvHeader F fr w) = some (hdrOfModel env.validH (recvAll env.ch 32 env.isClosed 12 w.cst w.stream true)) ∧
    (exec env recvHeader F fr w).2.2.stream = (recvAll env.ch 32 env.isClosed 12 w.cst w.stream true).rest ∧
    (exec env recvHeader F fr w).2.2.cst = (recvAll env.ch 32 env.isClosed 12 w.cst w.stream true).st := by
  have h := recv_header_matches env hc F fr w hF
  unfold HeaderSpec recvFdCap at h
  rw [hH] at h
  rcases hx : exec env recvHeader F fr w with ⟨c, fr', w'⟩
  rw [hx] at h
  generalize recvAll env.ch 32 env.isClosed 12 w.cst w.stream true = R at *
  obtain ⟨t1, t2, t3⟩ := h
  simp only [hw, List.nil_append] at t1 t2 t3
  refine ⟨?_, t1, t2⟩
  unfold hdrOfModel
  by_cases hb : R.outcome = .blocked
  · simp only [hb, if_true] at t3
    obtain ⟨u1, u2, u3⟩ := t3
    subst u1
    simp only [hdrOfExec, hb, u2, u3, optOf_getD]
  · simp only [hb, if_false] at t3
    have hm : ∀ x : HdrOut, (match R.outcome with | .blocked => HdrOut.blocked (R.closed ++ R.fds) | _ => x) = x := by
      intro x; cases ho : R.outcome <;> simp_all
    rw [hm]
    by_cases h0 : R.bytes.length = 0
    · simp only [h0, if_true, beq_self_eq_true] at t3 ⊢
      obtain ⟨u1, u2⟩ := t3
      subst u1
      simp only [hdrOfExec, u2]
    · have h0' : (R.bytes.length == 0) = false := by simp [h0]
      simp only [h0, if_false, h0', Bool.false_eq_true] at t3 ⊢
      by_cases h1 : R.bytes.length = 12
      · have h1' : (R.bytes.length != 12) = false := by simp [h1]
        simp only [h1, ne_eq, not_true_eq_false, if_false, h1', Bool.false_eq_true] at t3 ⊢
        by_cases hv : env.validH R.bytes = true
        · simp only [hv, Bool.not_true, Bool.false_eq_true, if_false, if_true] at t3 ⊢
          obtain ⟨u1, u2⟩ := t3
          subst u1
          simp [hdrOfExec, u2, optOf_eq]
        · have hv' : env.validH R.bytes = false := by simpa using hv
          simp only [hv', Bool.not_false, if_true, Bool.false_eq_true, if_false] at t3 ⊢
          obtain ⟨u1, u2⟩ := t3
          subst u1
          simp [hdrOfExec, u2]
      · have h1' : (R.bytes.length != 12) = true := by simp [h1]
        simp only [h1, ne_eq, not_false_eq_true, if_true, h1'] at t3 ⊢
        obtain ⟨u1, u2⟩ := t3
        subst u1
        simp only [hdrOfExec, u2]


section step
open Model.BackendSrv Model.Msgs Base

/-- `handle_request` after `recv_header`: attached-files check, body by `recv_data`, dispatch (as in `Model.BackendSrv.step`) -/
def stepAfterHeader {σ : Type} (ch : Chooser σ) (isClosed : Bool) (st : BSt) (h : HOut) (r : RecvAll σ) : HdrOut → StepOut σ
  | .blocked c => ⟨{ st := st, res := .blocked, closed := c }, r.rest, r.st⟩
  | .err e c => ⟨{ st := st, res := .err e, closed := c }, r.rest, r.st⟩
  | .ok bytes files c =>
    let hdr : Hdr := ⟨leVal (bytes.take 4), leVal ((bytes.drop 4).take 4), leVal ((bytes.drop 8).take 4)⟩
    if files.isSome && !fdCodes.contains hdr.code then
      ⟨{ st := st, res := .err .invalidMsg, closed := c ++ files.getD [] }, r.rest, r.st⟩
    else if hdr.size == 0 then
      let o := dispatch st hdr [] files h
      ⟨{ o with closed := c ++ o.closed }, r.rest, r.st⟩
    else
      let d := Model.Stream.recvData ch isClosed hdr.size r.st r.rest
      match d.outcome with
      | .blocked => ⟨{ st := st, res := .blocked, closed := c ++ files.getD [] }, d.rest, d.st⟩
      | .short => ⟨{ st := st, res := .err .invalidMsg, closed := c ++ files.getD [] }, d.rest, d.st⟩
      | .enobufs => ⟨{ st := st, res := .err .sockRetry, closed := c ++ files.getD [] ++ d.lost }, d.rest, d.st⟩
      | .full =>
        let o := dispatch st hdr d.bytes files h
        ⟨{ o with closed := c ++ o.closed }, d.rest, d.st⟩

theorem getD_files (l : List Fd) : (if l.isEmpty then none else some l).getD [] = l := by
  cases l <;> rfl

/-- `Model.BackendSrv.step` reads the header exactly through the decisions `recv_header_decisions` proves of the
translated `recv_header` (and reads the body with `recvData`, which `recv_data_matches` ties to `recv_data`) -/
theorem step_reads_header {σ : Type} (ch : Chooser σ) (isClosed : Bool) (st : BSt) (cst : σ) (s : List Cell) (h : HOut) :
    step ch isClosed st cst s h =
      stepAfterHeader ch isClosed st h (recvAll ch 32 isClosed 12 cst s true)
        (hdrOfModel Model.Frontend.hdrValid (recvAll ch 32 isClosed 12 cst s true)) := by
  unfold step
  generalize recvAll ch 32 isClosed 12 cst s true = r
  simp only []
  unfold hdrOfModel
  cases ho : r.outcome
  all_goals simp only [stepAfterHeader]
  all_goals
    by_cases h0 : (r.bytes.length == 0) = true
    · simp only [h0, if_true, stepAfterHeader]
    · simp only [h0, if_false, Bool.false_eq_true]
      by_cases h1 : (r.bytes.length != 12) = true
      · simp only [h1, if_true, stepAfterHeader]
      · simp only [h1, if_false, Bool.false_eq_true]
        unfold Model.Frontend.hdrValid
        cases hv : (decHeader r.bytes).map (·.isValid (Gen.Codes.FrontendReq.table.map (·.2))) with
        | none => simp only [stepAfterHeader, Bool.false_eq_true, if_false]
        | some b =>
          cases b
          · simp only [stepAfterHeader, Bool.false_eq_true, if_false]
          · simp only [stepAfterHeader, if_true, getD_files]
            rfl

end step

end Props.ConnLoops
