import VhostModel.Lemmas.FeRecvReaders2
import VhostModel.Lemmas.FeRecvPost
import VhostModel.Lemmas.BackendChannel
import VhostModel.Props.C06
import VhostModel.Gen.FrontendOps

set_option linter.unusedSimpArgs false
set_option linter.unusedVariables false
/-!
# Translator tie: the reply readers of the frontend and what every API method does with the reply

`tools/rs2lean_ferecv.py` translates, on every run, from `vhost/src/vhost_user/{frontend,message,mod}.rs` into terms of
the imperative language of `Base/ImpFe.lean` (`Gen/FeRecv.lean`):

* `FrontendInternal::{recv_reply, recv_reply_with_optional_files, recv_reply_with_files, recv_reply_with_payload,
  wait_for_ack, check_state, check_feature, check_proto_feature, new_request_header}`;
* `VhostUserMsgHeader::{get_size, is_reply, is_need_reply, is_reply_for, new}` and `take_single_file`;
* for every API method of `impl VhostBackend for Frontend` / `impl VhostUserFrontend for Frontend` that reads a reply:
  the reader call and the statements after it (`Api.<Method>.{readCall, finish, post}`).

Calls of `self.main_sock.recv_body::<T>()` / `recv_data(n)` are calls of the terms of `Gen/ConnLoops.lean`, whose
behaviour is the one proved in `Props/ConnLoops.lean` (`Lemmas.FeRecv.callConn_recvBody` / `callConn_recvData`).

The terms are interpreted in `Lemmas.FeRecv.stdEnv ch cl`: header size 12 with the generated header validator,
`size_of::<T>()` from the generated layout, `T::is_valid` = the generated `Gen.<T>.isValid` (through
`Model.Frontend.bodyValidTy`), struct fields through the generated layout, `R::try_from` succeeds on the values of the
generated `Gen.Codes.FrontendReq.table`, errno classes of the generated `Gen.ConnLoops.classify`.

## Theorems (all for every frontend state, request, stream, chooser and closedness; fuel `≥ stream.length + 1`)

Full equalities with the hand-written model:
* `is_reply_for_matches` (+ `is_reply_matches`, `is_need_reply_matches`, `get_size_matches`): the translated
  `is_reply_for` is `Model.Frontend.isReplyFor` on the parsed headers;
* `recv_reply_matches`, `recv_reply_with_optional_files_matches`, `recv_reply_with_files_matches`,
  `recv_reply_with_payload_matches`, `wait_for_ack_matches`: value / error / blocked, rest of the stream, chooser state and
  descriptors closed (`viewOfExec`) are those of `Model.Frontend.recv` (`viewOfModel`), the node is unchanged.  The
  hypotheses `size_of::<T>() = n ≤ MAX_MSG_SIZE` hold for every type the API methods use (`reader_types_fit`);
* `finish_matches_<method>` for `get_features`, `get_protocol_features`, `get_queue_num`, `get_vring_base`,
  `get_max_mem_slots`, `check_device_state`, `set_log_base`, `get_shmem_config`, `get_shared_object`, `postcopy_advise`,
  `get_inflight_fd`, `set_device_state_fd`, `get_config`, and `finish_matches_ack` for the 21 methods that only wait for
  the acknowledgement (`ack_finish_terms`, `ack_methods_listed`, `ack_methods_finish_unit`): returned value, error and
  node afterwards are `Model.Frontend.finish`;
* `post_matches_<method>` (13 methods) and `post_matches_ack` (+ `ack_post_terms`): the whole generated post part
  `Api.<Method>.post = readCall ;; finish` — started with the request header in `hdr` — is `Model.Frontend.callRecv`: returned
  value, node, rest of the stream, chooser state, descriptors closed (`callViewOfExec` / `callViewOfModel`; for the
  methods that call `take_single_file` and for `set_device_state_fd` the right-hand side is `callOfRecv … extra` with the
  descriptors the source closes while post-processing, which the model does not record);
* `take_single_file_matches` (= `Model.Frontend.takeSingle`), `check_state_matches`, `check_feature_matches`,
  `check_proto_feature_matches`, `new_request_header_matches` (= the model's `reqHdr` bytes);
* `readers_agree_with_rows`: reader and body type per method are those of `Gen.FrontendOps.rows`.

## Where model and source are phrased differently (proved equivalent, or reported)

* the source's readers return only part of what they read (`recv_reply`: the body; `wait_for_ack`: `()`); the model's
  `Reply` also keeps the header.  The comparison is on what is returned (`View`); for `wait_for_ack` the body is
  forgotten (`View.unit`): `Model.Frontend.finish` ignores it for these methods (`ack_methods_finish_unit`);
* `recv_reply*` test `!body.is_valid()` again after `recv_body::<T>` has tested it: never fires (inside the proofs);
* `mem::size_of::<T>() > MAX_MSG_SIZE`: static, false for every `T` used (`reader_types_fit`); the model has no such test;
* `check_state()`: `self.error` is never assigned (`Props.FrontendOps.error_field_never_written`), the model has no
  such field; the theorems assume `error = None`, `check_state_matches` gives both cases;
* `get_config` re-tests the descriptors of the reply (`rfds.is_some()`), the model does not:
  `finish_get_config_files_source` / `finish_get_config_files_model` show the two differ on a reply with descriptors,
  which `recv_reply_with_payload` never returns — `finish_matches_get_config` assumes `r.files = none`;
* descriptors dropped while post-processing (`take_single_file` with a count other than one; `set_device_state_fd`
  refusing) are closed by the source; `Model.Frontend.callRecv` does not add them to `CallOut.closed`.  The
  `finish_matches_*` theorems state what the source closes (`dropsOf`); the model is silent about it (coarser, no
  contradiction).

No genuine disagreement between `Model.Frontend.recv` / `finish` / `isReplyFor` and the source was found.
-/
namespace Props.FeRecv
open ImpFe Lemmas.FeRecv
open Imp (Var World upd upd_apply Stuck Fd Bytes)
open Model.Stream (Cell Chooser)
open Model.Frontend (FSt Req Op Reply RecvOut RecvRes ReplyKind Ret CallOut parseHdr hdrValid sizeOfTy bodyValidTy isReplyFor recv recvBody
  reqHdr finish takeSingle reqFlags callRecv)
open Model.BackendSrv (Err Hdr bitSet encHdr)

/-! ## reading the interpreter's result -/

/-- the node of the model as `struct FrontendInternal` (`error` is `None`: no impl assigns it) -/
def selfOf (s : FSt) : Self :=
  { virtio_features := s.virtio, acked_virtio_features := s.acked, protocol_features := s.proto,
    acked_protocol_features := s.ackedProto, max_queue_num := s.maxQ, hdr_flags := s.hdrFlags, error := none }

def fstOf (sf : Self) : FSt :=
  { virtio := sf.virtio_features, acked := sf.acked_virtio_features, proto := sf.protocol_features,
    ackedProto := sf.acked_protocol_features, maxQ := sf.max_queue_num, hdrFlags := sf.hdr_flags }

@[simp] theorem fstOf_selfOf (s : FSt) : fstOf (selfOf s) = s := rfl

inductive VRes where
  | ok (body payload : Bytes) (files : Option (List Fd))
  | err (e : Err)
  | blocked
  | fault
  deriving DecidableEq, Repr

/-- what a reader call amounts to: value / error / blocked, rest of the stream, chooser state, descriptors closed -/
structure View (σ : Type) where
  res : VRes
  rest : List Cell
  cst : σ
  closed : List Fd

def viewOfModel {σ : Type} (o : RecvOut σ) : View σ :=
  ⟨match o.res with
   | .ok r => .ok r.body r.payload r.files
   | .err e => .err e
   | .blocked => .blocked, o.rest, o.cst, o.closed⟩

/-- `Ok(..)`: first / second buffer component and the descriptors; `Err(e)` through `errMap`; blocked inside
`connection.rs`: the descriptors held by the blocked activation count as closed (as in `Model.Stream`) -/
def viewOfExec {σ : Type} (out : FRes σ) : View σ :=
  match out.1 with
  | .done (.ok v) => ⟨.ok (v.bufs.getD 0 []) (v.bufs.getD 1 []) v.fds, out.2.2.2.stream, out.2.2.2.cst, out.2.2.2.closed⟩
  | .done (.err e) => ⟨.err (errMap e), out.2.2.2.stream, out.2.2.2.cst, out.2.2.2.closed⟩
  | .stuck .blocked inner => ⟨.blocked, out.2.2.2.stream, out.2.2.2.cst, out.2.2.2.closed ++ (inner.f 0).getD []⟩
  | _ => ⟨.fault, out.2.2.2.stream, out.2.2.2.cst, out.2.2.2.closed⟩

/-- forget what an accepted reply carried (`wait_for_ack` returns `()`) -/
def View.unit {σ : Type} (v : View σ) : View σ :=
  { v with res := match v.res with | .ok _ _ _ => .ok [] [] none | r => r }

theorem view_of_spec {σ : Type} {w : World σ} {sf : Self} {shape : Reply → FVal} {M : RecvOut σ} {out : FRes σ}
    (h : ReaderSpec w sf shape M out) (hw : w.closed = [])
    (hs : ∀ r, M.res = .ok r → (shape r).bufs.getD 0 [] = r.body ∧ (shape r).bufs.getD 1 [] = r.payload ∧ (shape r).fds = r.files) :
    viewOfExec out = viewOfModel M ∧ out.2.2.1 = sf := by
  obtain ⟨h1, h2, h3, h4⟩ := h
  refine ⟨?_, h3⟩
  rcases out with ⟨c, fr, sf', w'⟩
  rcases M with ⟨mres, mrest, mcst, mclosed⟩
  simp only at h1 h2 h3 h4 hs
  cases mres with
  | ok r =>
    obtain ⟨u1, u2⟩ := h4
    try simp only at u1 u2
    subst u1
    obtain ⟨a, b, c⟩ := hs r rfl
    simp only [List.getD_eq_getElem?_getD] at a b
    simp [viewOfExec, viewOfModel, h1, h2, u2, hw, a, b, c]
  | err e =>
    obtain ⟨⟨fe, u1, u2⟩, u3⟩ := h4
    try simp only at u1 u3
    subst u1
    simp [viewOfExec, viewOfModel, h1, h2, u2, u3, hw]
  | blocked =>
    obtain ⟨inner, u1, u2⟩ := h4
    try simp only at u1 u2
    subst u1
    simp [viewOfExec, viewOfModel, h1, h2, u2, hw]


theorem view_of_spec_unit {σ : Type} {w : World σ} {sf : Self} {M : RecvOut σ} {out : FRes σ}
    (h : ReaderSpec w sf (fun _ => {}) M out) (hw : w.closed = []) :
    viewOfExec out = (viewOfModel M).unit ∧ out.2.2.1 = sf := by
  obtain ⟨h1, h2, h3, h4⟩ := h
  refine ⟨?_, h3⟩
  rcases out with ⟨c, fr, sf', w'⟩
  rcases M with ⟨mres, mrest, mcst, mclosed⟩
  simp only at h1 h2 h3 h4
  cases mres with
  | ok r =>
    obtain ⟨u1, u2⟩ := h4
    try simp only at u1 u2
    subst u1
    simp [viewOfExec, viewOfModel, View.unit, h1, h2, u2, hw]
  | err e =>
    obtain ⟨⟨fe, u1, u2⟩, u3⟩ := h4
    try simp only at u1 u3
    subst u1
    simp [viewOfExec, viewOfModel, View.unit, h1, h2, u2, u3, hw]
  | blocked =>
    obtain ⟨inner, u1, u2⟩ := h4
    try simp only at u1 u2
    subst u1
    simp [viewOfExec, viewOfModel, View.unit, h1, h2, u2, hw]

/-- the frame of a reader call: the request header `hdr` (12 bytes) -/
def hdrFrame (hb : Bytes) : FFrame := { b := upd (fun _ => []) 0 hb }

/-- the socket: what the peer has written / will have written, and the chooser's state -/
def sockWorld {σ : Type} (cst : σ) (str : List Cell) : World σ := { stream := str, cst := cst }

theorem recvBody_ok_payload {σ : Type} {ch : Chooser σ} {cl : Bool} {ty : String} {cst : σ} {s : List Cell} {r : Reply}
    (h : (recvBody ch cl ty cst s).res = .ok r) : r.payload = [] := by
  obtain ⟨_, _, _, _, _, _, _, _, h9⟩ := Props.C06.recvBody_ok_sound ch cl ty cst s r h
  exact h9

section readers
variable {σ : Type} (ch : Chooser σ) (cl : Bool) (s : FSt) (req : Req) (cst : σ) (str : List Cell)

theorem recv_body_ok_facts (ty : String) (hk : req.kind = .body ty) (r : Reply) (h : (recv ch cl s req cst str).res = .ok r) :
    r.payload = [] ∧ r.files = none := by
  have hf := (Props.C06.recv_ok_is_reply_for ch cl s req cst str r h (by rw [hk]; trivial)).2
  rw [hk] at hf
  refine ⟨?_, hf⟩
  rw [recv_eq_recvH, hk, recvH_body] at h
  split at h
  · simp at h
  · split at h
    · rename_i r' hr'
      split at h
      · simp at h
      · rw [hr'] at h; injection h with h; subst h; exact recvBody_ok_payload hr'
    · rename_i hne; exact absurd h (hne r)


theorem recvH_optFiles_ok_payload (ap : Nat) (rh : Hdr) (ty : String) (r : Reply)
    (h : (recvH ch cl ap rh (.bodyOptFiles ty) cst str).res = .ok r) : r.payload = [] := by
  rw [recvH_bodyOptFiles] at h
  split at h
  · simp at h
  · split at h
    · rename_i r' hr'
      split at h
      · simp at h
      · rw [hr'] at h; injection h with h; subst h; exact recvBody_ok_payload hr'
    · rename_i hne; exact absurd h (hne r)

theorem recvH_files_ok_payload (ap : Nat) (rh : Hdr) (ty : String) (r : Reply)
    (h : (recvH ch cl ap rh (.bodyFiles ty) cst str).res = .ok r) : r.payload = [] := by
  rw [recvH_bodyFiles] at h
  split at h
  · rename_i r' hr'
    split at h
    · simp at h
    · rw [hr'] at h; injection h with h; subst h; exact recvH_optFiles_ok_payload ch cl cst str ap rh ty _ hr'
  · rename_i hne; exact absurd h (hne r)

/-! ## the readers -/

/-- **`recv_reply::<T>`** is `Model.Frontend.recv` for a `.body T` request: for every state, request (whose header is
`hb`), stream, chooser and closedness, and every fuel above the length of the stream -/
theorem recv_reply_matches (ty : String) (n : Nat) (hk : req.kind = .body ty) (hn : sizeOfTy ty = some n) (hsz : n ≤ 0x1000)
    (hb : Bytes) (hlen : hb.length = 12) (hparse : parseHdr hb = reqHdr s req) (F : Nat) (hF : str.length + 1 ≤ F) :
    viewOfExec (ImpFe.exec (stdEnv ch cl) (Gen.FeRecv.recvReply ty) F (hdrFrame hb) (selfOf s) (sockWorld cst str)) =
      viewOfModel (recv ch cl s req cst str) ∧
    (ImpFe.exec (stdEnv ch cl) (Gen.FeRecv.recvReply ty) F (hdrFrame hb) (selfOf s) (sockWorld cst str)).2.2.1 = selfOf s := by
  have hS := recv_reply_exec ch cl ty n hn hsz F (hdrFrame hb) (selfOf s) (sockWorld cst str) hF (by simpa [hdrFrame] using hlen) rfl
  have hM : recvH ch cl (selfOf s).acked_protocol_features (parseHdr ((hdrFrame hb).b 0)) (.body ty) (sockWorld cst str).cst (sockWorld cst str).stream
      = recv ch cl s req cst str := by
    rw [recv_eq_recvH, hk, ← hparse]; rfl
  rw [hM] at hS
  exact view_of_spec hS rfl (fun r hr => by
    obtain ⟨a, b⟩ := recv_body_ok_facts ch cl s req cst str ty hk r hr
    simp [a, b])

/-- **`recv_reply_with_optional_files::<T>`** is `Model.Frontend.recv` for a `.bodyOptFiles T` request -/
theorem recv_reply_with_optional_files_matches (ty : String) (n : Nat) (hk : req.kind = .bodyOptFiles ty) (hn : sizeOfTy ty = some n)
    (hsz : n ≤ 0x1000) (hb : Bytes) (hlen : hb.length = 12) (hparse : parseHdr hb = reqHdr s req) (F : Nat) (hF : str.length + 1 ≤ F) :
    viewOfExec (ImpFe.exec (stdEnv ch cl) (Gen.FeRecv.recvReplyWithOptionalFiles ty) F (hdrFrame hb) (selfOf s) (sockWorld cst str)) =
      viewOfModel (recv ch cl s req cst str) ∧
    (ImpFe.exec (stdEnv ch cl) (Gen.FeRecv.recvReplyWithOptionalFiles ty) F (hdrFrame hb) (selfOf s) (sockWorld cst str)).2.2.1 = selfOf s := by
  have hS := recv_reply_with_optional_files_exec ch cl ty n hn hsz F (hdrFrame hb) (selfOf s) (sockWorld cst str) hF
    (by simpa [hdrFrame] using hlen) rfl
  have hM : recvH ch cl (selfOf s).acked_protocol_features (parseHdr ((hdrFrame hb).b 0)) (.bodyOptFiles ty) (sockWorld cst str).cst
      (sockWorld cst str).stream = recv ch cl s req cst str := by
    rw [recv_eq_recvH, hk, ← hparse]; rfl
  have hp := recvH_optFiles_ok_payload ch cl (sockWorld cst str).cst (sockWorld cst str).stream (selfOf s).acked_protocol_features
    (parseHdr ((hdrFrame hb).b 0)) ty
  rw [hM] at hS hp
  exact view_of_spec hS rfl (fun r hr => by simp [hp r hr])

/-- **`recv_reply_with_files::<T>`** is `Model.Frontend.recv` for a `.bodyFiles T` request -/
theorem recv_reply_with_files_matches (ty : String) (n : Nat) (hk : req.kind = .bodyFiles ty) (hn : sizeOfTy ty = some n)
    (hsz : n ≤ 0x1000) (hb : Bytes) (hlen : hb.length = 12) (hparse : parseHdr hb = reqHdr s req) (F : Nat) (hF : str.length + 1 ≤ F) :
    viewOfExec (ImpFe.exec (stdEnv ch cl) (Gen.FeRecv.recvReplyWithFiles ty) F (hdrFrame hb) (selfOf s) (sockWorld cst str)) =
      viewOfModel (recv ch cl s req cst str) ∧
    (ImpFe.exec (stdEnv ch cl) (Gen.FeRecv.recvReplyWithFiles ty) F (hdrFrame hb) (selfOf s) (sockWorld cst str)).2.2.1 = selfOf s := by
  have hS := recv_reply_with_files_exec ch cl ty n hn hsz F (hdrFrame hb) (selfOf s) (sockWorld cst str) hF
    (by simpa [hdrFrame] using hlen) rfl
  have hM : recvH ch cl (selfOf s).acked_protocol_features (parseHdr ((hdrFrame hb).b 0)) (.bodyFiles ty) (sockWorld cst str).cst
      (sockWorld cst str).stream = recv ch cl s req cst str := by
    rw [recv_eq_recvH, hk, ← hparse]; rfl
  have hp := recvH_files_ok_payload ch cl (sockWorld cst str).cst (sockWorld cst str).stream (selfOf s).acked_protocol_features
    (parseHdr ((hdrFrame hb).b 0)) ty
  rw [hM] at hS hp
  exact view_of_spec hS rfl (fun r hr => by simp [hp r hr])

/-- **`recv_reply_with_payload::<T>`** is `Model.Frontend.recv` for a `.payload T` request: the window checks on the
request size, the fixed part by `recv_body::<T>`, then exactly `reply.get_size() - size_of::<T>()` payload bytes by
`recv_data` (never more than the request announced) -/
theorem recv_reply_with_payload_matches (ty : String) (n : Nat) (hk : req.kind = .payload ty) (hn : sizeOfTy ty = some n)
    (hsz : n ≤ 0x1000) (hb : Bytes) (hlen : hb.length = 12) (hparse : parseHdr hb = reqHdr s req) (F : Nat) (hF : str.length + 1 ≤ F) :
    viewOfExec (ImpFe.exec (stdEnv ch cl) (Gen.FeRecv.recvReplyWithPayload ty) F (hdrFrame hb) (selfOf s) (sockWorld cst str)) =
      viewOfModel (recv ch cl s req cst str) ∧
    (ImpFe.exec (stdEnv ch cl) (Gen.FeRecv.recvReplyWithPayload ty) F (hdrFrame hb) (selfOf s) (sockWorld cst str)).2.2.1 = selfOf s := by
  have hS := recv_reply_with_payload_exec ch cl ty n hn hsz F (hdrFrame hb) (selfOf s) (sockWorld cst str) hF
    (by simpa [hdrFrame] using hlen) rfl
  have hM : recvH ch cl (selfOf s).acked_protocol_features (parseHdr ((hdrFrame hb).b 0)) (.payload ty) (sockWorld cst str).cst
      (sockWorld cst str).stream = recv ch cl s req cst str := by
    rw [recv_eq_recvH, hk, ← hparse]; rfl
  rw [hM] at hS
  exact view_of_spec hS rfl (fun r hr => by simp)

/-- **`wait_for_ack`** is `Model.Frontend.recv` for an `.ack` request (the value of an accepted acknowledgement is not
returned: `View.unit`): no read at all unless REPLY_ACK is acknowledged and the request carries NEED_REPLY -/
theorem wait_for_ack_matches (hk : req.kind = .ack)
    (hb : Bytes) (hlen : hb.length = 12) (hparse : parseHdr hb = reqHdr s req) (F : Nat) (hF : str.length + 1 ≤ F) :
    viewOfExec (ImpFe.exec (stdEnv ch cl) Gen.FeRecv.waitForAck F (hdrFrame hb) (selfOf s) (sockWorld cst str)) =
      (viewOfModel (recv ch cl s req cst str)).unit ∧
    (ImpFe.exec (stdEnv ch cl) Gen.FeRecv.waitForAck F (hdrFrame hb) (selfOf s) (sockWorld cst str)).2.2.1 = selfOf s := by
  have hS := wait_for_ack_exec ch cl F (hdrFrame hb) (selfOf s) (sockWorld cst str) hF (by simpa [hdrFrame] using hlen) rfl
  have hM : recvH ch cl (selfOf s).acked_protocol_features (parseHdr ((hdrFrame hb).b 0)) .ack (sockWorld cst str).cst
      (sockWorld cst str).stream = recv ch cl s req cst str := by
    rw [recv_eq_recvH, hk, ← hparse]; rfl
  rw [hM] at hS
  exact view_of_spec_unit hS rfl

end readers
/-! ## what the API methods do with the reply -/

/-- the shape of an API method's `Ok(..)` value -/
inductive RetKind where
  | unit | val | config | inflight | file | optFile | shmem

/-- an `Ok(..)` value of the interpreter as the model's `Ret` -/
def decodeOk : RetKind → FVal → Ret
  | .unit, _ => .unit
  | .val, v => .val (v.nats.getD 0 0)
  | .config, v =>
    .config (Model.Frontend.g (v.bufs.getD 0 []) "VhostUserConfig" ["offset"]) (Model.Frontend.g (v.bufs.getD 0 []) "VhostUserConfig" ["size"])
      (Model.Frontend.g (v.bufs.getD 0 []) "VhostUserConfig" ["flags"]) (v.bufs.getD 1 [])
  | .inflight, v =>
    match v.file with
    | some f => .inflight (Model.Frontend.g (v.bufs.getD 0 []) "VhostUserInflight" ["mmap_size"])
        (Model.Frontend.g (v.bufs.getD 0 []) "VhostUserInflight" ["mmap_offset"])
        (Model.Frontend.g (v.bufs.getD 0 []) "VhostUserInflight" ["num_queues"])
        (Model.Frontend.g (v.bufs.getD 0 []) "VhostUserInflight" ["queue_size"]) f
    | none => .err .other
  | .file, v => match v.file with | some f => .file f | none => .err .other
  | .optFile, v => match v.file with | some f => .file f | none => .noFile
  | .shmem, v => .shmem (Model.Frontend.g (v.bufs.getD 0 []) "VhostUserShMemConfig" ["nregions"]) (((v.bufs.getD 0 []).drop 8).take 2048)

/-- returned value / error, and the node afterwards -/
def retOf {σ : Type} (k : RetKind) (out : FRes σ) : Ret × FSt :=
  (match out.1 with
   | .done (.ok v) => decodeOk k v
   | .done (.err e) => .err (errMap e)
   | .stuck .blocked _ => .blocked
   | _ => .err .other, fstOf out.2.2.1)

section finish
variable {σ : Type} (ch : Chooser σ) (cl : Bool) (s : FSt) (a : List Nat) (pl : Bytes) (fds : List Fd) (bad : Bool)
  (regs : List (Nat × Nat × Nat × Nat × Bool)) (r : Reply) (F : Nat) (fr : FFrame) (sf : Self) (w : World σ)

theorem std_field (b : Bytes) (st : String) (p : List String) : (stdEnv ch cl).fieldVal b st p = Model.Frontend.g b st p := rfl

theorem finish_matches_get_features (hr : r.body.length = 8) (hval : fr.b Gen.FeRecv.Api.GetFeatures.val.id = r.body) :
    retOf .val (ImpFe.exec (stdEnv ch cl) Gen.FeRecv.Api.GetFeatures.finish F fr (selfOf s) w) =
      finish s ⟨"get_features", a, pl, fds, bad, regs⟩ r ∧
    (ImpFe.exec (stdEnv ch cl) Gen.FeRecv.Api.GetFeatures.finish F fr (selfOf s) w).2.2.2 = w := by
  have hv : fr.b 1 = r.body := hval
  simp [Gen.FeRecv.Api.GetFeatures.finish, exec_seq, exec_assignSelf, exec_ret, evalX, evalXs, evalFd, std_field, hv, g_u64_value _ hr,
    retOf, decodeOk, fstOf, selfOf, Self.set, Self.get, finish]


/-- what `take_single_file(files)` closes: every file unless there is exactly one -/
def dropsOf (files : Option (List Fd)) : List Fd :=
  match files with
  | some [_] => []
  | some l => l
  | none => []

/-- **`take_single_file`** (mod.rs) is `Model.Frontend.takeSingle`; with a count other than one every file is dropped -/
theorem callFe_takeSingle (env : FEnv σ) (nm : String) (files res : Var) :
    ImpFe.exec env (.callFe nm Gen.FeRecv.TakeSingleFile.fnBody [] [] [(Gen.FeRecv.TakeSingleFile.files, files)] res) F fr sf w =
      (.normal, { fr with f := upd fr.f files.id none, r := upd fr.r res.id (.ok { file := takeSingle (fr.f files.id) }) }, sf,
        { w with closed := w.closed ++ dropsOf (fr.f files.id) }) := by
  rw [exec_callFe]
  simp only [argsN, argsB, argsF, movedF, Gen.FeRecv.TakeSingleFile.fnBody]
  cases hf : fr.f files.id with
  | none =>
    simp [exec_seq, exec_ite, evalC, upd_apply, hf, exec_ret, evalXs, evalFd, takeSingle, dropsOf]
  | some l =>
    rcases l with _ | ⟨x, _ | ⟨y, t⟩⟩
    · simp [exec_seq, exec_ite, evalC, evalX, upd_apply, hf, exec_ret, evalXs, evalFd, exec_assignF, exec_dropF, takeSingle, dropsOf]
    · simp [exec_seq, exec_ite, evalC, evalX, upd_apply, hf, exec_ret, evalXs, evalFd, exec_assignF, exec_dropF, exec_takeFd, swapRemove,
        takeSingle, dropsOf]
    · simp [exec_seq, exec_ite, evalC, evalX, upd_apply, hf, exec_ret, evalXs, evalFd, exec_assignF, exec_dropF, takeSingle, dropsOf]


theorem finish_matches_get_protocol_features (hr : r.body.length = 8) (hval : fr.b Gen.FeRecv.Api.GetProtocolFeatures.val.id = r.body) :
    retOf .val (ImpFe.exec (stdEnv ch cl) Gen.FeRecv.Api.GetProtocolFeatures.finish F fr (selfOf s) w) =
      finish s ⟨"get_protocol_features", a, pl, fds, bad, regs⟩ r ∧
    (ImpFe.exec (stdEnv ch cl) Gen.FeRecv.Api.GetProtocolFeatures.finish F fr (selfOf s) w).2.2.2 = w := by
  have hv : fr.b 1 = r.body := hval
  simp [Gen.FeRecv.Api.GetProtocolFeatures.finish, exec_seq, exec_assignSelf, exec_ret, evalX, evalXs, evalFd, std_field, hv,
    g_u64_value _ hr, retOf, decodeOk, fstOf, selfOf, Self.set, Self.get, finish]

theorem finish_matches_get_queue_num (hr : r.body.length = 8) (hval : fr.b Gen.FeRecv.Api.GetQueueNum.val.id = r.body) :
    retOf .val (ImpFe.exec (stdEnv ch cl) Gen.FeRecv.Api.GetQueueNum.finish F fr (selfOf s) w) =
      finish s ⟨"get_queue_num", a, pl, fds, bad, regs⟩ r ∧
    (ImpFe.exec (stdEnv ch cl) Gen.FeRecv.Api.GetQueueNum.finish F fr (selfOf s) w).2.2.2 = w := by
  have hv : fr.b 1 = r.body := hval
  by_cases hgt : Base.leVal r.body > 0x8000
  · simp [Gen.FeRecv.Api.GetQueueNum.finish, exec_seq, exec_ite, evalC, exec_retErr, evalErr, evalX, std_field, hv,
      g_u64_value _ hr, retOf, fstOf, selfOf, finish, hgt, errMap]
  · simp [Gen.FeRecv.Api.GetQueueNum.finish, exec_seq, exec_ite, evalC, exec_assignSelf, exec_ret, evalX, evalXs, evalFd, std_field, hv,
      g_u64_value _ hr, retOf, decodeOk, fstOf, selfOf, Self.set, Self.get, finish, hgt]

theorem finish_matches_get_vring_base (hval : fr.b Gen.FeRecv.Api.GetVringBase.reply.id = r.body) :
    retOf .val (ImpFe.exec (stdEnv ch cl) Gen.FeRecv.Api.GetVringBase.finish F fr (selfOf s) w) =
      finish s ⟨"get_vring_base", a, pl, fds, bad, regs⟩ r ∧
    (ImpFe.exec (stdEnv ch cl) Gen.FeRecv.Api.GetVringBase.finish F fr (selfOf s) w).2.2.2 = w := by
  have hv : fr.b 2 = r.body := hval
  simp [Gen.FeRecv.Api.GetVringBase.finish, exec_ret, evalX, evalXs, evalFd, std_field, hv, retOf, decodeOk, fstOf, selfOf, finish]

theorem finish_matches_get_max_mem_slots (hr : r.body.length = 8) (hval : fr.b Gen.FeRecv.Api.GetMaxMemSlots.val.id = r.body) :
    retOf .val (ImpFe.exec (stdEnv ch cl) Gen.FeRecv.Api.GetMaxMemSlots.finish F fr (selfOf s) w) =
      finish s ⟨"get_max_mem_slots", a, pl, fds, bad, regs⟩ r ∧
    (ImpFe.exec (stdEnv ch cl) Gen.FeRecv.Api.GetMaxMemSlots.finish F fr (selfOf s) w).2.2.2 = w := by
  have hv : fr.b 1 = r.body := hval
  simp [Gen.FeRecv.Api.GetMaxMemSlots.finish, exec_ret, evalX, evalXs, evalFd, std_field, hv, g_u64_value _ hr, retOf, decodeOk, fstOf,
    selfOf, finish]

theorem finish_matches_check_device_state (hr : r.body.length = 8) (hval : fr.b Gen.FeRecv.Api.CheckDeviceState.body.id = r.body) :
    retOf .unit (ImpFe.exec (stdEnv ch cl) Gen.FeRecv.Api.CheckDeviceState.finish F fr (selfOf s) w) =
      finish s ⟨"check_device_state", a, pl, fds, bad, regs⟩ r ∧
    (ImpFe.exec (stdEnv ch cl) Gen.FeRecv.Api.CheckDeviceState.finish F fr (selfOf s) w).2.2.2 = w := by
  have hv : fr.b 1 = r.body := hval
  by_cases hz : Base.leVal r.body = 0
  · simp [Gen.FeRecv.Api.CheckDeviceState.finish, exec_seq, exec_ite, evalC, exec_ret, evalX, evalXs, evalFd, std_field, hv,
      g_u64_value _ hr, retOf, decodeOk, fstOf, selfOf, finish, hz]
  · simp [Gen.FeRecv.Api.CheckDeviceState.finish, exec_seq, exec_ite, evalC, exec_retErr, evalErr, evalX, std_field, hv,
      g_u64_value _ hr, retOf, fstOf, selfOf, finish, hz, errMap]

theorem finish_matches_set_log_base :
    retOf .unit (ImpFe.exec (stdEnv ch cl) Gen.FeRecv.Api.SetLogBase.finish F fr (selfOf s) w) =
      finish s ⟨"set_log_base", a, pl, fds, bad, regs⟩ r ∧
    (ImpFe.exec (stdEnv ch cl) Gen.FeRecv.Api.SetLogBase.finish F fr (selfOf s) w).2.2.2 = w := by
  simp [Gen.FeRecv.Api.SetLogBase.finish, exec_ret, evalXs, evalFd, retOf, decodeOk, fstOf, selfOf, finish]

theorem finish_matches_get_shmem_config (hval : fr.b Gen.FeRecv.Api.GetShmemConfig.config.id = r.body) :
    retOf .shmem (ImpFe.exec (stdEnv ch cl) Gen.FeRecv.Api.GetShmemConfig.finish F fr (selfOf s) w) =
      finish s ⟨"get_shmem_config", a, pl, fds, bad, regs⟩ r ∧
    (ImpFe.exec (stdEnv ch cl) Gen.FeRecv.Api.GetShmemConfig.finish F fr (selfOf s) w).2.2.2 = w := by
  have hv : fr.b 1 = r.body := hval
  simp [Gen.FeRecv.Api.GetShmemConfig.finish, exec_ret, evalXs, evalFd, hv, retOf, decodeOk, fstOf, selfOf, finish]


/-- `get_shared_object`: `take_single_file(files)`: the file, or `IncorrectFds`; the files of a reply with several are closed -/
theorem finish_matches_get_shared_object (hfiles : fr.f Gen.FeRecv.Api.GetSharedObject.files.id = r.files) :
    retOf .file (ImpFe.exec (stdEnv ch cl) Gen.FeRecv.Api.GetSharedObject.finish F fr (selfOf s) w) =
      finish s ⟨"get_shared_object", a, pl, fds, bad, regs⟩ r ∧
    (ImpFe.exec (stdEnv ch cl) Gen.FeRecv.Api.GetSharedObject.finish F fr (selfOf s) w).2.2.2 =
      { w with closed := w.closed ++ dropsOf r.files } := by
  have hv : fr.f 0 = r.files := hfiles
  unfold Gen.FeRecv.Api.GetSharedObject.finish
  rw [exec_seq, callFe_takeSingle]
  simp only [exec_matchFile, upd_apply, reduceIte, hv]
  cases ht : takeSingle r.files <;>
    simp [exec_ret, exec_retErr, evalErr, evalXs, evalFd, retOf, decodeOk, fstOf, selfOf, finish, ht, errMap, hv]

theorem finish_matches_postcopy_advise (hfiles : fr.f Gen.FeRecv.Api.PostcopyAdvise.files.id = r.files) :
    retOf .file (ImpFe.exec (stdEnv ch cl) Gen.FeRecv.Api.PostcopyAdvise.finish F fr (selfOf s) w) =
      finish s ⟨"postcopy_advise", a, pl, fds, bad, regs⟩ r ∧
    (ImpFe.exec (stdEnv ch cl) Gen.FeRecv.Api.PostcopyAdvise.finish F fr (selfOf s) w).2.2.2 =
      { w with closed := w.closed ++ dropsOf r.files } := by
  have hv : fr.f 0 = r.files := hfiles
  unfold Gen.FeRecv.Api.PostcopyAdvise.finish
  rw [exec_seq, callFe_takeSingle]
  simp only [exec_matchFile, upd_apply, reduceIte, hv]
  cases ht : takeSingle r.files <;>
    simp [exec_ret, exec_retErr, evalErr, evalXs, evalFd, retOf, decodeOk, fstOf, selfOf, finish, ht, errMap, hv]

theorem finish_matches_get_inflight_fd (hfiles : fr.f Gen.FeRecv.Api.GetInflightFd.files.id = r.files)
    (hval : fr.b Gen.FeRecv.Api.GetInflightFd.inflight_buf.id = r.body) :
    retOf .inflight (ImpFe.exec (stdEnv ch cl) Gen.FeRecv.Api.GetInflightFd.finish F fr (selfOf s) w) =
      finish s ⟨"get_inflight_fd", a, pl, fds, bad, regs⟩ r ∧
    (ImpFe.exec (stdEnv ch cl) Gen.FeRecv.Api.GetInflightFd.finish F fr (selfOf s) w).2.2.2 =
      { w with closed := w.closed ++ dropsOf r.files } := by
  have hv : fr.f 0 = r.files := hfiles
  have hb : fr.b 2 = r.body := hval
  unfold Gen.FeRecv.Api.GetInflightFd.finish
  rw [exec_seq, callFe_takeSingle]
  simp only [exec_matchFile, upd_apply, reduceIte, hv]
  cases ht : takeSingle r.files <;>
    simp [exec_ret, exec_retErr, evalErr, evalXs, evalFd, retOf, decodeOk, fstOf, selfOf, finish, ht, errMap, hv, hb]

/-- `set_device_state_fd`: `0x100` without descriptors = no file; `0` with descriptors = the single file (or
`IncorrectFds`); anything else — in particular the invalid-fd bit set *with* a descriptor, or clear *without* one —
is `BackendInternalError`, and the descriptors are closed -/
theorem finish_matches_set_device_state_fd (hr : r.body.length = 8) (hfiles : fr.f Gen.FeRecv.Api.SetDeviceStateFd.files.id = r.files)
    (hval : fr.b Gen.FeRecv.Api.SetDeviceStateFd.body_buf.id = r.body) :
    retOf .optFile (ImpFe.exec (stdEnv ch cl) Gen.FeRecv.Api.SetDeviceStateFd.finish F fr (selfOf s) w) =
      finish s ⟨"set_device_state_fd", a, pl, fds, bad, regs⟩ r ∧
    (ImpFe.exec (stdEnv ch cl) Gen.FeRecv.Api.SetDeviceStateFd.finish F fr (selfOf s) w).2.2.2 =
      { w with closed := w.closed ++
          (if Base.leVal r.body = 0x100 ∧ r.files = none then []
           else if Base.leVal r.body = 0 ∧ r.files.isSome then dropsOf r.files else r.files.getD []) } := by
  have hv : fr.f 0 = r.files := hfiles
  have hb : fr.b 2 = r.body := hval
  unfold Gen.FeRecv.Api.SetDeviceStateFd.finish
  rw [exec_seq, exec_assign]
  simp only [evalX, std_field, hb, g_u64_value _ hr]
  rw [exec_seq, exec_ite]
  simp only [evalC, evalX, upd_apply, reduceIte, hv, Option.map_some]
  by_cases h1 : Base.leVal r.body = 0x100
  · cases hf : r.files with
    | none =>
      simp [h1, hf, hv, exec_seq, exec_dropF, exec_ret, evalXs, evalFd, retOf, decodeOk, fstOf, selfOf, finish]
    | some l =>
      simp [h1, hf, hv, exec_seq, exec_ite, evalC, evalX, exec_dropF, exec_retErr, evalErr, retOf, fstOf, selfOf, finish, errMap]
  · by_cases h0 : Base.leVal r.body = 0
    · cases hf : r.files with
      | none =>
        simp [h1, h0, hf, hv, exec_seq, exec_ite, evalC, evalX, exec_dropF, exec_retErr, evalErr, retOf, fstOf, selfOf, finish, errMap]
      | some l =>
        simp only [h1, h0, hf, Nat.reduceEqDiff, decide_false, decide_true, Option.isSome_some, Bool.false_and, Bool.true_and, exec_ite,
          evalC, evalX, upd_apply, reduceIte, hv, Option.map_some, Bool.not_true, Bool.and_false]
        rw [exec_seq, callFe_takeSingle]
        simp only [exec_matchFile, upd_apply, reduceIte, hv, hf]
        cases ht : takeSingle (some l) <;>
          simp [exec_ret, exec_retErr, evalErr, evalXs, evalFd, retOf, decodeOk, fstOf, selfOf, finish, ht, errMap, hv, hf, h0]
    · cases hf : r.files <;>
        simp [h1, h0, hf, hv, exec_seq, exec_ite, evalC, evalX, exec_dropF, exec_retErr, evalErr, retOf, fstOf, selfOf, finish, errMap]


/-- `get_config`: the reply's `size` must be non-zero (`BackendInternalError` otherwise), equal to the request's `size` and
to `buf.len()`, its `offset` the request's, and the payload as long as `buf` (`InvalidMessage` otherwise).  `body` = the
request struct built before the send, `buf` = the caller's buffer; the model keeps them as `op.a = [offset, size, flags,
buf.len()]` -/
theorem finish_matches_get_config (roff rsz fl blen : Nat) (hfiles : fr.f Gen.FeRecv.Api.GetConfig.rfds.id = r.files)
    (hnone : r.files = none) (hbody : fr.b Gen.FeRecv.Api.GetConfig.body_reply.id = r.body)
    (hpay : fr.b Gen.FeRecv.Api.GetConfig.buf_reply.id = r.payload)
    (hsize : Model.Frontend.g (fr.b Gen.FeRecv.Api.GetConfig.body.id) "VhostUserConfig" ["size"] = rsz)
    (hoff : Model.Frontend.g (fr.b Gen.FeRecv.Api.GetConfig.body.id) "VhostUserConfig" ["offset"] = roff)
    (hbuf : (fr.b Gen.FeRecv.Api.GetConfig.buf.id).length = blen) :
    retOf .config (ImpFe.exec (stdEnv ch cl) Gen.FeRecv.Api.GetConfig.finish F fr (selfOf s) w) =
      finish s ⟨"get_config", [roff, rsz, fl, blen], pl, fds, bad, regs⟩ r ∧
    (ImpFe.exec (stdEnv ch cl) Gen.FeRecv.Api.GetConfig.finish F fr (selfOf s) w).2.2.2 = w := by
  have h1 : fr.f 0 = none := by rw [← hnone]; exact hfiles
  have h2 : fr.b 3 = r.body := hbody
  have h3 : fr.b 4 = r.payload := hpay
  have h4 : Model.Frontend.g (fr.b 1) "VhostUserConfig" ["size"] = rsz := hsize
  have h5 : Model.Frontend.g (fr.b 1) "VhostUserConfig" ["offset"] = roff := hoff
  have h6 : (fr.b 0).length = blen := hbuf
  have ne2 : ∀ x y : Nat, decide (x ≠ y) = (x != y) := by
    intro x y; cases h : x != y <;> simp_all
  have hc3 : evalC (stdEnv ch cl) fr (selfOf s)
      (.or (.or (.or (.ne (.field Gen.FeRecv.Api.GetConfig.body_reply "VhostUserConfig" ["size"]) (.field Gen.FeRecv.Api.GetConfig.body "VhostUserConfig" ["size"]))
        (.ne (.field Gen.FeRecv.Api.GetConfig.body_reply "VhostUserConfig" ["size"]) (.lenB Gen.FeRecv.Api.GetConfig.buf)))
        (.ne (.field Gen.FeRecv.Api.GetConfig.body_reply "VhostUserConfig" ["offset"]) (.field Gen.FeRecv.Api.GetConfig.body "VhostUserConfig" ["offset"])))
        (.ne (.lenB Gen.FeRecv.Api.GetConfig.buf_reply) (.lenB Gen.FeRecv.Api.GetConfig.buf)))
      = some (Model.Frontend.g r.body "VhostUserConfig" ["size"] != rsz || Model.Frontend.g r.body "VhostUserConfig" ["size"] != blen ||
          Model.Frontend.g r.body "VhostUserConfig" ["offset"] != roff || r.payload.length != blen) := by
    simp only [evalC, evalX, std_field, h2, h3, h4, h5, h6, ne2]
    cases Model.Frontend.g r.body "VhostUserConfig" ["size"] != rsz <;>
      cases Model.Frontend.g r.body "VhostUserConfig" ["size"] != blen <;>
      cases Model.Frontend.g r.body "VhostUserConfig" ["offset"] != roff <;> rfl
  have hc2 : evalC (stdEnv ch cl) fr (selfOf s) (.eq (.field Gen.FeRecv.Api.GetConfig.body_reply "VhostUserConfig" ["size"]) (.lit 0))
      = some (Model.Frontend.g r.body "VhostUserConfig" ["size"] == 0) := by
    simp only [evalC, evalX, std_field, h2, eq_dec]
  have hc1 : evalC (stdEnv ch cl) fr (selfOf s) (.fIsSome Gen.FeRecv.Api.GetConfig.rfds) = some false := by
    simp [evalC, h1]
  unfold Gen.FeRecv.Api.GetConfig.finish
  rw [exec_seq, exec_ite, hc1]
  simp only [exec_ite, hc2, hc3]
  cases hz : Model.Frontend.g r.body "VhostUserConfig" ["size"] == 0
  · cases hbad : (Model.Frontend.g r.body "VhostUserConfig" ["size"] != rsz || Model.Frontend.g r.body "VhostUserConfig" ["size"] != blen ||
        Model.Frontend.g r.body "VhostUserConfig" ["offset"] != roff || r.payload.length != blen)
    · simp [exec_seq, exec_skip, exec_dropF, exec_ret, evalXs, evalFd, retOf, decodeOk, fstOf, selfOf, finish, h1, h2, h3, hz, hbad]
    · simp [exec_seq, exec_dropF, exec_retErr, evalErr, retOf, fstOf, selfOf, finish, errMap, h1, hz, hbad]
  · simp [exec_seq, exec_dropF, exec_retErr, evalErr, retOf, fstOf, selfOf, finish, errMap, h1, hz]


/-- where source and model are phrased differently: `get_config` re-tests the descriptors after `recv_reply_with_payload`
(`InvalidMessage`, the files are closed); `Model.Frontend.finish` has no such test.  Not observable: the reader never
returns descriptors (`recv_reply_with_payload_matches` + `Props.C06.recv_ok_is_reply_for`). -/
theorem finish_get_config_files_source (l : List Fd) (hfiles : fr.f Gen.FeRecv.Api.GetConfig.rfds.id = some l) :
    (retOf .config (ImpFe.exec (stdEnv ch cl) Gen.FeRecv.Api.GetConfig.finish F fr (selfOf s) w)).1 = .err .invalidMsg ∧
    (ImpFe.exec (stdEnv ch cl) Gen.FeRecv.Api.GetConfig.finish F fr (selfOf s) w).2.2.2 = { w with closed := w.closed ++ l } := by
  have h1 : fr.f 0 = some l := hfiles
  simp [Gen.FeRecv.Api.GetConfig.finish, exec_seq, exec_ite, evalC, h1, exec_dropF, exec_retErr, evalErr, retOf, errMap]

theorem finish_get_config_files_model :
    ∃ (s : FSt) (op : Op) (r : Reply), op.name = "get_config" ∧ r.files = some [7] ∧
      (finish s op r).1 = .config 0 4 0 [1, 2, 3, 4] :=
  ⟨{}, ⟨"get_config", [0, 4, 0, 4], [], [], false, []⟩,
    ⟨⟨24, 5, 16⟩, Model.Frontend.u32 0 ++ Model.Frontend.u32 4 ++ Model.Frontend.u32 0, [1, 2, 3, 4], some [7]⟩, rfl, rfl, by rfl⟩

/-! ### the methods that only wait for the acknowledgement -/

/-- `node.wait_for_ack(&hdr).map_err(|e| e.into())`: `Ok(())`, or the reader's error -/
theorem finish_matches_ack (name : String) (hname : finish s ⟨name, a, pl, fds, bad, regs⟩ r = (.unit, s))
    (hres : fr.r Gen.FeRecv.Api.SetFeatures.r_wait_for_ack.id = .ok {}) :
    retOf .unit (ImpFe.exec (stdEnv ch cl) Gen.FeRecv.Api.SetFeatures.finish F fr (selfOf s) w) = finish s ⟨name, a, pl, fds, bad, regs⟩ r ∧
    (ImpFe.exec (stdEnv ch cl) Gen.FeRecv.Api.SetFeatures.finish F fr (selfOf s) w).2.2.2 = w := by
  have h : fr.r 0 = .ok {} := hres
  rw [hname]
  simp [Gen.FeRecv.Api.SetFeatures.finish, exec_matchOk, h, exec_ret, evalXs, evalFd, retOf, decodeOk, fstOf, selfOf]

/-- the reader's error is handed on -/
theorem finish_ack_error (e : FErr) (hres : fr.r Gen.FeRecv.Api.SetFeatures.r_wait_for_ack.id = .err e) :
    (ImpFe.exec (stdEnv ch cl) Gen.FeRecv.Api.SetFeatures.finish F fr (selfOf s) w).1 = .done (.err e) := by
  have h : fr.r 0 = .err e := hres
  simp [Gen.FeRecv.Api.SetFeatures.finish, exec_matchOk, h, exec_retErr, evalErr, errOfR]

end finish

/-- the methods whose reader is `wait_for_ack`, from the generated table -/
def ackMethods : List String := (Gen.FeRecv.apiReaders.filter (fun x => x.2.1 == "wait_for_ack")).map (·.1)

/-- all of them post-process the acknowledgement with the same term … -/
theorem ack_finish_terms :
    [Gen.FeRecv.Api.SetFeatures.finish, Gen.FeRecv.Api.SetOwner.finish, Gen.FeRecv.Api.ResetOwner.finish, Gen.FeRecv.Api.SetMemTable.finish,
     Gen.FeRecv.Api.SetLogFd.finish, Gen.FeRecv.Api.SetVringNum.finish, Gen.FeRecv.Api.SetVringAddr.finish, Gen.FeRecv.Api.SetVringBase.finish,
     Gen.FeRecv.Api.SetVringCall.finish, Gen.FeRecv.Api.SetVringKick.finish, Gen.FeRecv.Api.SetVringErr.finish,
     Gen.FeRecv.Api.SetProtocolFeatures.finish, Gen.FeRecv.Api.ResetDevice.finish, Gen.FeRecv.Api.SetVringEnable.finish,
     Gen.FeRecv.Api.SetConfig.finish, Gen.FeRecv.Api.SetBackendRequestFd.finish, Gen.FeRecv.Api.SetInflightFd.finish,
     Gen.FeRecv.Api.AddMemRegion.finish, Gen.FeRecv.Api.RemoveMemRegion.finish, Gen.FeRecv.Api.PostcopyListen.finish,
     Gen.FeRecv.Api.PostcopyEnd.finish] = List.replicate 21 Gen.FeRecv.Api.SetFeatures.finish := rfl

/-- … these are all the `wait_for_ack` methods of the source (the Rust names; `set_backend_request_fd` is the model's
`set_backend_req_fd`) … -/
theorem ack_methods_listed :
    ackMethods = ["set_features", "set_owner", "reset_owner", "set_mem_table", "set_log_fd", "set_vring_num", "set_vring_addr",
      "set_vring_base", "set_vring_call", "set_vring_kick", "set_vring_err", "set_protocol_features", "reset_device",
      "set_vring_enable", "set_config", "set_backend_request_fd", "set_inflight_fd", "add_mem_region", "remove_mem_region",
      "postcopy_listen", "postcopy_end"] := by decide

/-- … and for each of them `Model.Frontend.finish` is `(.unit, s)` -/
theorem ack_methods_finish_unit (s : FSt) (a : List Nat) (pl : Bytes) (fds : List Fd) (bad : Bool)
    (regs : List (Nat × Nat × Nat × Nat × Bool)) (r : Reply) :
    ∀ name ∈ ackMethods.map (fun n => if n = "set_backend_request_fd" then "set_backend_req_fd" else n),
      finish s ⟨name, a, pl, fds, bad, regs⟩ r = (.unit, s) := by
  rw [ack_methods_listed]
  intro name hm
  simp only [List.map, List.mem_cons, List.not_mem_nil, or_false] at hm
  rcases hm with h | h | h | h | h | h | h | h | h | h | h | h | h | h | h | h | h | h | h | h | h <;> subst h <;> rfl

/-! ## the header accessors, `take_single_file`, the small helpers -/

section helpers
variable {σ : Type} (ch : Chooser σ) (cl : Bool) (fr : FFrame) (sf : Self) (F : Nat) (w : World σ)

/-- **`is_reply_for`** (message.rs), translated: both codes are values of `FrontendReq`, the reply has REPLY, the request
has not, the codes are equal — `Model.Frontend.isReplyFor` on the parsed headers -/
theorem is_reply_for_matches (a b : Var) (ha : (fr.b a.id).length = 12) (hb : (fr.b b.id).length = 12) :
    evalC (stdEnv ch cl) fr sf (Gen.FeRecv.Hdr.isReplyFor a b) = some (isReplyFor (parseHdr (fr.b a.id)) (parseHdr (fr.b b.id))) :=
  evalC_isReplyFor ch cl fr sf a b ha hb

theorem is_reply_matches (v : Var) (h : (fr.b v.id).length = 12) :
    evalC (stdEnv ch cl) fr sf (Gen.FeRecv.Hdr.isReply v) = some (parseHdr (fr.b v.id)).isReply :=
  evalC_isReply ch cl fr sf v h

theorem is_need_reply_matches (v : Var) (h : (fr.b v.id).length = 12) :
    evalC (stdEnv ch cl) fr sf (Gen.FeRecv.Hdr.isNeedReply v) = some (parseHdr (fr.b v.id)).needReply :=
  evalC_isNeedReply ch cl fr sf v h

theorem get_size_matches (v : Var) (h : (fr.b v.id).length = 12) :
    evalX (stdEnv ch cl) fr sf (Gen.FeRecv.Hdr.getSize v) = some (parseHdr (fr.b v.id)).size :=
  evalX_getSize ch cl fr sf v h

/-- **`take_single_file`**: `Some(file)` for exactly one file, `None` otherwise (`Model.Frontend.takeSingle`); every file
of a list of another length is closed -/
theorem take_single_file_matches (files : Option (List Fd)) (hf : fr.f Gen.FeRecv.TakeSingleFile.files.id = files) :
    (ImpFe.exec (stdEnv ch cl) Gen.FeRecv.takeSingleFile F fr sf w).1 = .done (.ok { file := takeSingle files }) ∧
    (ImpFe.exec (stdEnv ch cl) Gen.FeRecv.takeSingleFile F fr sf w).2.2.2 = { w with closed := w.closed ++ dropsOf files } := by
  have h : fr.f 0 = files := hf
  unfold Gen.FeRecv.takeSingleFile Gen.FeRecv.TakeSingleFile.fnBody
  cases files with
  | none => simp [exec_seq, exec_ite, evalC, upd_apply, h, exec_ret, evalXs, evalFd, takeSingle, dropsOf]
  | some l =>
    rcases l with _ | ⟨x, _ | ⟨y, t⟩⟩
    · simp [exec_seq, exec_ite, evalC, evalX, upd_apply, h, exec_ret, evalXs, evalFd, exec_assignF, exec_dropF, takeSingle, dropsOf]
    · simp [exec_seq, exec_ite, evalC, evalX, upd_apply, h, exec_ret, evalXs, evalFd, exec_assignF, exec_dropF, exec_takeFd, swapRemove,
        takeSingle, dropsOf]
    · simp [exec_seq, exec_ite, evalC, evalX, upd_apply, h, exec_ret, evalXs, evalFd, exec_assignF, exec_dropF, takeSingle, dropsOf]

/-- **`check_state`**: `Err(SocketBroken(from_raw_os_error(e)))` iff `self.error` is `Some(e)`; nothing else changes -/
theorem check_state_matches :
    (ImpFe.exec (stdEnv ch cl) Gen.FeRecv.checkState F fr sf w).1 =
      (match sf.error with
       | none => .done (.ok {})
       | some e => .done (.err (.conn (.sock .broken e)))) ∧
    (ImpFe.exec (stdEnv ch cl) Gen.FeRecv.checkState F fr sf w).2.2 = (sf, w) :=
  check_state_spec (stdEnv ch cl) F fr sf w

/-- **`check_feature(feat)`** for a single-bit `feat`: `Ok` iff the bit is set in the *offered* virtio features
(`Model.Frontend.request`: `bitSet s.virtio 30`) -/
theorem check_feature_matches (s : FSt) (bit : Nat) (hfeat : fr.n Gen.FeRecv.CheckFeature.feat.id = 2 ^ bit) :
    (ImpFe.exec (stdEnv ch cl) Gen.FeRecv.checkFeature F fr (selfOf s) w).1 =
      (if bitSet s.virtio bit then .done (.ok {}) else .done (.err (.inactiveFeature (2 ^ bit)))) := by
  have h : fr.n 0 = 2 ^ bit := hfeat
  have hb := Lemmas.Helpers.and_two_pow_bne_zero s.virtio bit
  unfold Gen.FeRecv.checkFeature Gen.FeRecv.CheckFeature.fnBody
  rw [exec_ite]
  simp only [evalC, evalX, Self.get, selfOf, h, ne_dec, hb, bitSet]
  by_cases hx : s.virtio.testBit bit = true <;> simp [hx, exec_ret, exec_retErr, evalErr, evalX, evalXs, evalFd, h]

/-- **`check_proto_feature(feat)`** for a single-bit `feat`: `Ok` iff the bit is set in the *acknowledged* protocol
features (`Model.Frontend.hasProto`) -/
theorem check_proto_feature_matches (s : FSt) (bit : Nat) (hfeat : fr.n Gen.FeRecv.CheckProtoFeature.feat.id = 2 ^ bit) :
    (ImpFe.exec (stdEnv ch cl) Gen.FeRecv.checkProtoFeature F fr (selfOf s) w).1 =
      (if Model.Frontend.hasProto s bit then .done (.ok {}) else .done (.err (.inactiveOperation (2 ^ bit)))) := by
  have h : fr.n 0 = 2 ^ bit := hfeat
  have hb := Lemmas.Helpers.and_two_pow_bne_zero s.ackedProto bit
  unfold Gen.FeRecv.checkProtoFeature Gen.FeRecv.CheckProtoFeature.fnBody
  rw [exec_ite]
  simp only [evalC, evalX, Self.get, selfOf, h, ne_dec, hb, Model.Frontend.hasProto, bitSet]
  by_cases hx : s.ackedProto.testBit bit = true <;> simp [hx, exec_ret, exec_retErr, evalErr, evalX, evalXs, evalFd, h]

/-- **`new_request_header(request, size)`** (through the translated `VhostUserMsgHeader::new`): the 12 bytes the model
puts on the wire — code, `(hdr_flags | 1) & ALL_FLAGS | 1`, size -/
theorem new_request_header_matches (s : FSt) (code size : Nat) (h1 : fr.n Gen.FeRecv.NewRequestHeader.request.id = code)
    (h2 : fr.n Gen.FeRecv.NewRequestHeader.size.id = size) :
    (ImpFe.exec (stdEnv ch cl) Gen.FeRecv.newRequestHeader F fr (selfOf s) w).1 =
      .done (.ok { bufs := [encHdr code (reqFlags s) size] }) := by
  have e1 : fr.n 0 = code := h1
  have e2 : fr.n 1 = size := h2
  simp [Gen.FeRecv.newRequestHeader, Gen.FeRecv.NewRequestHeader.fnBody, Gen.FeRecv.HdrNew.fnBody, exec_seq, exec_callFe, argsN, argsB,
    argsF, movedF, evalX, Self.get, selfOf, exec_assign, exec_mkBuf, evalFields, exec_ret, evalXs, evalFd, exec_matchOk, upd_apply, e1,
    e2, encHdr, reqFlags, Model.BackendSrv.hdrNewFlags]

/-- the header of a request the model builds, as the 12 bytes the readers are called with -/
theorem hdr_of_request (s : FSt) (req : Req) (hc : req.code < 2 ^ 32) (hs : req.body.length < 2 ^ 32) :
    (encHdr req.code (reqFlags s) req.body.length).length = 12 ∧
    parseHdr (encHdr req.code (reqFlags s) req.body.length) = reqHdr s req := by
  have hf : reqFlags s < 2 ^ 32 := by
    unfold reqFlags Model.BackendSrv.hdrNewFlags
    have h1 : (s.hdrFlags ||| 1) &&& 12 ≤ 12 := Nat.and_le_right
    have h2 : (s.hdrFlags ||| 1) &&& 12 < 2 ^ 4 := by omega
    have : ((s.hdrFlags ||| 1) &&& 12) ||| 1 < 2 ^ 4 := Nat.or_lt_two_pow h2 (by decide)
    omega
  exact ⟨Lemmas.BackendChannel.encHdr_length _ _ _, Lemmas.BackendChannel.parseHdr_encHdr _ _ _ hc hf hs⟩

end helpers

/-! ## reader call and post-processing together: `Model.Frontend.callRecv` -/

/-- what the second half of an API call amounts to -/
structure CallView (σ : Type) where
  ret : Ret
  st : FSt
  rest : List Cell
  cst : σ
  closed : List Fd

def callViewOfModel {σ : Type} (C : CallOut σ) : CallView σ := ⟨C.ret, C.st, C.rest, C.cst, C.closed⟩

def heldOf : FCtl → List Fd
  | .stuck .blocked inner => (inner.f 0).getD []
  | _ => []

def callViewOfExec {σ : Type} (k : RetKind) (out : FRes σ) : CallView σ :=
  ⟨(retOf k out).1, (retOf k out).2, out.2.2.2.stream, out.2.2.2.cst, out.2.2.2.closed ++ heldOf out.1⟩

/-- `Model.Frontend.callRecv` from the reader's result; `extra` = descriptors the source closes while post-processing
(which the model does not record) -/
def callOfRecv {σ : Type} (M : RecvOut σ) (s : FSt) (op : Op) (extra : Reply → List Fd) : CallView σ :=
  match M.res with
  | .blocked => ⟨.blocked, s, M.rest, M.cst, M.closed⟩
  | .err e => ⟨.err e, s, M.rest, M.cst, M.closed⟩
  | .ok rep => ⟨(finish s op rep).1, (finish s op rep).2, M.rest, M.cst, M.closed ++ extra rep⟩

theorem callView_callRecv {σ : Type} (ch : Chooser σ) (cl : Bool) (s : FSt) (op : Op) (req : Req) (cst : σ) (str : List Cell) :
    callViewOfModel (callRecv ch cl s op req cst str) = callOfRecv (recv ch cl s req cst str) s op (fun _ => []) := by
  unfold callRecv callOfRecv callViewOfModel
  generalize recv ch cl s req cst str = M
  rcases M with ⟨mres, mrest, mcst, mclosed⟩
  cases mres <;> simp

theorem heldOf_not_blocked (c : FCtl) (h : c.isBlocked = false) : heldOf c = [] := by
  cases c with
  | normal => rfl
  | done r => rfl
  | stuck s i => cases s <;> first | rfl | (simp [FCtl.isBlocked] at h)

/-- reader call, then post-processing -/
theorem post_compose {σ : Type} (env : FEnv σ) (k : RetKind) (readCall fin : FStmt) (F : Nat) (fr : FFrame) (s : FSt) (w : World σ)
    (hw : w.closed = []) (M : RecvOut σ) (op : Op) (frOk : Reply → FFrame) (extra : Reply → List Fd) (hnc : noConn fin = true)
    (hR : ∀ out, ImpFe.exec env readCall F fr (selfOf s) w = out →
      out.2.2.2.stream = M.rest ∧ out.2.2.2.cst = M.cst ∧ out.2.2.1 = selfOf s ∧
      (match M.res with
       | .ok r => out.1 = .normal ∧ out.2.2.2.closed = w.closed ++ M.closed ∧ out.2.1 = frOk r
       | .err e => (∃ fe, out.1 = .done (.err fe) ∧ errMap fe = e) ∧ out.2.2.2.closed = w.closed ++ M.closed
       | .blocked => ∃ inner, out.1 = .stuck .blocked inner ∧ out.2.2.2.closed ++ (inner.f 0).getD [] = w.closed ++ M.closed))
    (hfin : ∀ r (w' : World σ), M.res = .ok r →
      retOf k (ImpFe.exec env fin F (frOk r) (selfOf s) w') = finish s op r ∧
      (ImpFe.exec env fin F (frOk r) (selfOf s) w').2.2.2 = { w' with closed := w'.closed ++ extra r }) :
    callViewOfExec k (ImpFe.exec env (.seq readCall fin) F fr (selfOf s) w) = callOfRecv M s op extra := by
  rw [exec_seq]
  rcases hx : ImpFe.exec env readCall F fr (selfOf s) w with ⟨c, fr2, sf2, w2⟩
  obtain ⟨r1, r2, r3, r4⟩ := hR _ hx
  simp only at r1 r2 r3 r4
  subst r3
  unfold callOfRecv
  rcases M with ⟨mres, mrest, mcst, mclosed⟩
  cases mres with
  | blocked =>
    obtain ⟨inner, u1, u2⟩ := r4
    try simp only at u1 u2
    subst u1
    simp [callViewOfExec, retOf, heldOf, r1, r2, u2, hw, fstOf, selfOf]
  | err e =>
    obtain ⟨⟨fe, u1, u2⟩, u3⟩ := r4
    try simp only at u1 u3
    subst u1
    simp [callViewOfExec, retOf, heldOf, r1, r2, u2, u3, hw, fstOf, selfOf]
  | ok r =>
    obtain ⟨u1, u2, u3⟩ := r4
    try simp only at u1 u2 u3
    subst u1 u3
    obtain ⟨f1, f2⟩ := hfin r w2 rfl
    have hb := noConn_not_blocked env fin hnc F (frOk r) (selfOf s) w2
    simp only [callViewOfExec, f1, f2, heldOf_not_blocked _ hb, r1, r2, u2, hw, List.nil_append, List.append_nil]


/-! ### what an accepted reply looks like -/
section okfacts
variable {σ : Type} (ch : Chooser σ) (cl : Bool) (ap : Nat) (rh : Hdr) (ty : String) (n : Nat) (cst : σ) (str : List Cell) (r : Reply)

theorem recvBody_ok_len (hn : sizeOfTy ty = some n) (h : (recvBody ch cl ty cst str).res = .ok r) : r.body.length = n := by
  obtain ⟨n', _, h1, _, h3, _⟩ := Props.C06.recvBody_ok_sound ch cl ty cst str r h
  rw [hn] at h1; cases h1; exact h3

theorem recvH_body_ok_len (hn : sizeOfTy ty = some n) (h : (recvH ch cl ap rh (.body ty) cst str).res = .ok r) : r.body.length = n := by
  rw [recvH_body] at h
  split at h
  · simp at h
  · split at h
    · rename_i r' hr'
      split at h
      · simp at h
      · rw [hr'] at h; injection h with h; subst h; exact recvBody_ok_len ch cl ty n cst str _ hn hr'
    · rename_i hne; exact absurd h (hne r)

theorem recvH_optFiles_ok_len (hn : sizeOfTy ty = some n) (h : (recvH ch cl ap rh (.bodyOptFiles ty) cst str).res = .ok r) :
    r.body.length = n := by
  rw [recvH_bodyOptFiles] at h
  split at h
  · simp at h
  · split at h
    · rename_i r' hr'
      split at h
      · simp at h
      · rw [hr'] at h; injection h with h; subst h; exact recvBody_ok_len ch cl ty n cst str _ hn hr'
    · rename_i hne; exact absurd h (hne r)

theorem recvH_files_ok_len (hn : sizeOfTy ty = some n) (h : (recvH ch cl ap rh (.bodyFiles ty) cst str).res = .ok r) :
    r.body.length = n := by
  rw [recvH_bodyFiles] at h
  split at h
  · rename_i r' hr'
    split at h
    · simp at h
    · rw [hr'] at h; injection h with h; subst h; exact recvH_optFiles_ok_len ch cl ap rh ty n cst str _ hn hr'
  · rename_i hne; exact absurd h (hne r)

end okfacts

/-! ## the second half of every reply-reading API call is `Model.Frontend.callRecv` -/
section post
variable {σ : Type} (ch : Chooser σ) (cl : Bool) (s : FSt) (req : Req) (cst : σ) (str : List Cell)
  (a : List Nat) (pl : Bytes) (fds : List Fd) (bad : Bool) (regs : List (Nat × Nat × Nat × Nat × Bool))
  (hb : Bytes) (F : Nat) (fr : FFrame)

/-- the frame of the reader called by an API method: its `hdr` parameter -/
def calleeFrame (hb : Bytes) : FFrame := { n := fun _ => 0, b := upd (fun _ => []) 0 hb, f := fun _ => none }

theorem so_VringState : sizeOfTy "VhostUserVringState" = some 8 := by decide
theorem so_Log : sizeOfTy "VhostUserLog" = some 16 := by decide
theorem so_ShMem : sizeOfTy "VhostUserShMemConfig" = some 2056 := by decide
theorem so_Empty : sizeOfTy "VhostUserEmpty" = some 0 := by decide
theorem so_Inflight : sizeOfTy "VhostUserInflight" = some 24 := by decide
theorem so_Config : sizeOfTy "VhostUserConfig" = some 12 := by decide

theorem post_matches_get_features (hk : req.kind = .body "VhostUserU64") (hlen : hb.length = 12) (hparse : parseHdr hb = reqHdr s req)
    (hF : str.length + 1 ≤ F) (hfr : fr.b Gen.FeRecv.Api.GetFeatures.hdr.id = hb) :
    callViewOfExec .val (ImpFe.exec (stdEnv ch cl) Gen.FeRecv.Api.GetFeatures.post F fr (selfOf s) (sockWorld cst str)) =
      callViewOfModel (callRecv ch cl s ⟨"get_features", a, pl, fds, bad, regs⟩ req cst str) := by
  have hS := recv_reply_exec ch cl "VhostUserU64" 8 so_U64 (by decide) F (calleeFrame (fr.b Gen.FeRecv.Api.GetFeatures.hdr.id)) (selfOf s)
    (sockWorld cst str) hF (by simpa [calleeFrame, hfr] using hlen) rfl
  have hM : recvH ch cl (selfOf s).acked_protocol_features (parseHdr ((calleeFrame (fr.b Gen.FeRecv.Api.GetFeatures.hdr.id)).b 0)) (.body "VhostUserU64")
      (sockWorld cst str).cst (sockWorld cst str).stream = recv ch cl s req cst str := by
    rw [recv_eq_recvH, hk, ← hparse, ← hfr]; rfl
  rw [hM] at hS
  rw [callView_callRecv]
  unfold Gen.FeRecv.Api.GetFeatures.post
  refine post_compose (stdEnv ch cl) .val _ _ F fr s (sockWorld cst str) rfl _ _ _ (fun _ => []) (by rfl)
    (fun out hout => readCall_exec (stdEnv ch cl) _ _ _ _ _ _ _ F fr (selfOf s) (sockWorld cst str) _ _ hS out hout) ?_
  intro r w' hr
  have hl : r.body.length = 8 := by
    rw [← hM] at hr
    exact recvH_body_ok_len ch cl _ _ "VhostUserU64" 8 _ _ r so_U64 hr
  constructor
  · exact (finish_matches_get_features ch cl s a pl fds bad regs r F _ w' hl (by simp)).1
  · rw [(finish_matches_get_features ch cl s a pl fds bad regs r F _ w' hl (by simp)).2]; simp

theorem post_matches_get_protocol_features (hk : req.kind = .body "VhostUserU64") (hlen : hb.length = 12) (hparse : parseHdr hb = reqHdr s req)
    (hF : str.length + 1 ≤ F) (hfr : fr.b Gen.FeRecv.Api.GetProtocolFeatures.hdr.id = hb) :
    callViewOfExec .val (ImpFe.exec (stdEnv ch cl) Gen.FeRecv.Api.GetProtocolFeatures.post F fr (selfOf s) (sockWorld cst str)) =
      callViewOfModel (callRecv ch cl s ⟨"get_protocol_features", a, pl, fds, bad, regs⟩ req cst str) := by
  have hS := recv_reply_exec ch cl "VhostUserU64" 8 so_U64 (by decide) F (calleeFrame (fr.b Gen.FeRecv.Api.GetProtocolFeatures.hdr.id)) (selfOf s)
    (sockWorld cst str) hF (by simpa [calleeFrame, hfr] using hlen) rfl
  have hM : recvH ch cl (selfOf s).acked_protocol_features (parseHdr ((calleeFrame (fr.b Gen.FeRecv.Api.GetProtocolFeatures.hdr.id)).b 0)) (.body "VhostUserU64")
      (sockWorld cst str).cst (sockWorld cst str).stream = recv ch cl s req cst str := by
    rw [recv_eq_recvH, hk, ← hparse, ← hfr]; rfl
  rw [hM] at hS
  rw [callView_callRecv]
  unfold Gen.FeRecv.Api.GetProtocolFeatures.post
  refine post_compose (stdEnv ch cl) .val _ _ F fr s (sockWorld cst str) rfl _ _ _ (fun _ => []) (by rfl)
    (fun out hout => readCall_exec (stdEnv ch cl) _ _ _ _ _ _ _ F fr (selfOf s) (sockWorld cst str) _ _ hS out hout) ?_
  intro r w' hr
  have hl : r.body.length = 8 := by
    rw [← hM] at hr
    exact recvH_body_ok_len ch cl _ _ "VhostUserU64" 8 _ _ r so_U64 hr
  constructor
  · exact (finish_matches_get_protocol_features ch cl s a pl fds bad regs r F _ w' hl (by simp)).1
  · rw [(finish_matches_get_protocol_features ch cl s a pl fds bad regs r F _ w' hl (by simp)).2]; simp

theorem post_matches_get_queue_num (hk : req.kind = .body "VhostUserU64") (hlen : hb.length = 12) (hparse : parseHdr hb = reqHdr s req)
    (hF : str.length + 1 ≤ F) (hfr : fr.b Gen.FeRecv.Api.GetQueueNum.hdr.id = hb) :
    callViewOfExec .val (ImpFe.exec (stdEnv ch cl) Gen.FeRecv.Api.GetQueueNum.post F fr (selfOf s) (sockWorld cst str)) =
      callViewOfModel (callRecv ch cl s ⟨"get_queue_num", a, pl, fds, bad, regs⟩ req cst str) := by
  have hS := recv_reply_exec ch cl "VhostUserU64" 8 so_U64 (by decide) F (calleeFrame (fr.b Gen.FeRecv.Api.GetQueueNum.hdr.id)) (selfOf s)
    (sockWorld cst str) hF (by simpa [calleeFrame, hfr] using hlen) rfl
  have hM : recvH ch cl (selfOf s).acked_protocol_features (parseHdr ((calleeFrame (fr.b Gen.FeRecv.Api.GetQueueNum.hdr.id)).b 0)) (.body "VhostUserU64")
      (sockWorld cst str).cst (sockWorld cst str).stream = recv ch cl s req cst str := by
    rw [recv_eq_recvH, hk, ← hparse, ← hfr]; rfl
  rw [hM] at hS
  rw [callView_callRecv]
  unfold Gen.FeRecv.Api.GetQueueNum.post
  refine post_compose (stdEnv ch cl) .val _ _ F fr s (sockWorld cst str) rfl _ _ _ (fun _ => []) (by rfl)
    (fun out hout => readCall_exec (stdEnv ch cl) _ _ _ _ _ _ _ F fr (selfOf s) (sockWorld cst str) _ _ hS out hout) ?_
  intro r w' hr
  have hl : r.body.length = 8 := by
    rw [← hM] at hr
    exact recvH_body_ok_len ch cl _ _ "VhostUserU64" 8 _ _ r so_U64 hr
  constructor
  · exact (finish_matches_get_queue_num ch cl s a pl fds bad regs r F _ w' hl (by simp)).1
  · rw [(finish_matches_get_queue_num ch cl s a pl fds bad regs r F _ w' hl (by simp)).2]; simp

theorem post_matches_get_max_mem_slots (hk : req.kind = .body "VhostUserU64") (hlen : hb.length = 12) (hparse : parseHdr hb = reqHdr s req)
    (hF : str.length + 1 ≤ F) (hfr : fr.b Gen.FeRecv.Api.GetMaxMemSlots.hdr.id = hb) :
    callViewOfExec .val (ImpFe.exec (stdEnv ch cl) Gen.FeRecv.Api.GetMaxMemSlots.post F fr (selfOf s) (sockWorld cst str)) =
      callViewOfModel (callRecv ch cl s ⟨"get_max_mem_slots", a, pl, fds, bad, regs⟩ req cst str) := by
  have hS := recv_reply_exec ch cl "VhostUserU64" 8 so_U64 (by decide) F (calleeFrame (fr.b Gen.FeRecv.Api.GetMaxMemSlots.hdr.id)) (selfOf s)
    (sockWorld cst str) hF (by simpa [calleeFrame, hfr] using hlen) rfl
  have hM : recvH ch cl (selfOf s).acked_protocol_features (parseHdr ((calleeFrame (fr.b Gen.FeRecv.Api.GetMaxMemSlots.hdr.id)).b 0)) (.body "VhostUserU64")
      (sockWorld cst str).cst (sockWorld cst str).stream = recv ch cl s req cst str := by
    rw [recv_eq_recvH, hk, ← hparse, ← hfr]; rfl
  rw [hM] at hS
  rw [callView_callRecv]
  unfold Gen.FeRecv.Api.GetMaxMemSlots.post
  refine post_compose (stdEnv ch cl) .val _ _ F fr s (sockWorld cst str) rfl _ _ _ (fun _ => []) (by rfl)
    (fun out hout => readCall_exec (stdEnv ch cl) _ _ _ _ _ _ _ F fr (selfOf s) (sockWorld cst str) _ _ hS out hout) ?_
  intro r w' hr
  have hl : r.body.length = 8 := by
    rw [← hM] at hr
    exact recvH_body_ok_len ch cl _ _ "VhostUserU64" 8 _ _ r so_U64 hr
  constructor
  · exact (finish_matches_get_max_mem_slots ch cl s a pl fds bad regs r F _ w' hl (by simp)).1
  · rw [(finish_matches_get_max_mem_slots ch cl s a pl fds bad regs r F _ w' hl (by simp)).2]; simp

theorem post_matches_check_device_state (hk : req.kind = .body "VhostUserU64") (hlen : hb.length = 12) (hparse : parseHdr hb = reqHdr s req)
    (hF : str.length + 1 ≤ F) (hfr : fr.b Gen.FeRecv.Api.CheckDeviceState.hdr.id = hb) :
    callViewOfExec .unit (ImpFe.exec (stdEnv ch cl) Gen.FeRecv.Api.CheckDeviceState.post F fr (selfOf s) (sockWorld cst str)) =
      callViewOfModel (callRecv ch cl s ⟨"check_device_state", a, pl, fds, bad, regs⟩ req cst str) := by
  have hS := recv_reply_exec ch cl "VhostUserU64" 8 so_U64 (by decide) F (calleeFrame (fr.b Gen.FeRecv.Api.CheckDeviceState.hdr.id)) (selfOf s)
    (sockWorld cst str) hF (by simpa [calleeFrame, hfr] using hlen) rfl
  have hM : recvH ch cl (selfOf s).acked_protocol_features (parseHdr ((calleeFrame (fr.b Gen.FeRecv.Api.CheckDeviceState.hdr.id)).b 0)) (.body "VhostUserU64")
      (sockWorld cst str).cst (sockWorld cst str).stream = recv ch cl s req cst str := by
    rw [recv_eq_recvH, hk, ← hparse, ← hfr]; rfl
  rw [hM] at hS
  rw [callView_callRecv]
  unfold Gen.FeRecv.Api.CheckDeviceState.post
  refine post_compose (stdEnv ch cl) .unit _ _ F fr s (sockWorld cst str) rfl _ _ _ (fun _ => []) (by rfl)
    (fun out hout => readCall_exec (stdEnv ch cl) _ _ _ _ _ _ _ F fr (selfOf s) (sockWorld cst str) _ _ hS out hout) ?_
  intro r w' hr
  have hl : r.body.length = 8 := by
    rw [← hM] at hr
    exact recvH_body_ok_len ch cl _ _ "VhostUserU64" 8 _ _ r so_U64 hr
  constructor
  · exact (finish_matches_check_device_state ch cl s a pl fds bad regs r F _ w' hl (by simp)).1
  · rw [(finish_matches_check_device_state ch cl s a pl fds bad regs r F _ w' hl (by simp)).2]; simp

theorem post_matches_get_vring_base (hk : req.kind = .body "VhostUserVringState") (hlen : hb.length = 12) (hparse : parseHdr hb = reqHdr s req)
    (hF : str.length + 1 ≤ F) (hfr : fr.b Gen.FeRecv.Api.GetVringBase.hdr.id = hb) :
    callViewOfExec .val (ImpFe.exec (stdEnv ch cl) Gen.FeRecv.Api.GetVringBase.post F fr (selfOf s) (sockWorld cst str)) =
      callViewOfModel (callRecv ch cl s ⟨"get_vring_base", a, pl, fds, bad, regs⟩ req cst str) := by
  have hS := recv_reply_exec ch cl "VhostUserVringState" 8 so_VringState (by decide) F (calleeFrame (fr.b Gen.FeRecv.Api.GetVringBase.hdr.id)) (selfOf s)
    (sockWorld cst str) hF (by simpa [calleeFrame, hfr] using hlen) rfl
  have hM : recvH ch cl (selfOf s).acked_protocol_features (parseHdr ((calleeFrame (fr.b Gen.FeRecv.Api.GetVringBase.hdr.id)).b 0)) (.body "VhostUserVringState")
      (sockWorld cst str).cst (sockWorld cst str).stream = recv ch cl s req cst str := by
    rw [recv_eq_recvH, hk, ← hparse, ← hfr]; rfl
  rw [hM] at hS
  rw [callView_callRecv]
  unfold Gen.FeRecv.Api.GetVringBase.post
  refine post_compose (stdEnv ch cl) .val _ _ F fr s (sockWorld cst str) rfl _ _ _ (fun _ => []) (by rfl)
    (fun out hout => readCall_exec (stdEnv ch cl) _ _ _ _ _ _ _ F fr (selfOf s) (sockWorld cst str) _ _ hS out hout) ?_
  intro r w' hr
  have hl : r.body.length = 8 := by
    rw [← hM] at hr
    exact recvH_body_ok_len ch cl _ _ "VhostUserVringState" 8 _ _ r so_VringState hr
  constructor
  · exact (finish_matches_get_vring_base ch cl s a pl fds bad regs r F _ w' (by simp)).1
  · rw [(finish_matches_get_vring_base ch cl s a pl fds bad regs r F _ w' (by simp)).2]; simp

theorem post_matches_get_shmem_config (hk : req.kind = .body "VhostUserShMemConfig") (hlen : hb.length = 12) (hparse : parseHdr hb = reqHdr s req)
    (hF : str.length + 1 ≤ F) (hfr : fr.b Gen.FeRecv.Api.GetShmemConfig.hdr.id = hb) :
    callViewOfExec .shmem (ImpFe.exec (stdEnv ch cl) Gen.FeRecv.Api.GetShmemConfig.post F fr (selfOf s) (sockWorld cst str)) =
      callViewOfModel (callRecv ch cl s ⟨"get_shmem_config", a, pl, fds, bad, regs⟩ req cst str) := by
  have hS := recv_reply_exec ch cl "VhostUserShMemConfig" 2056 so_ShMem (by decide) F (calleeFrame (fr.b Gen.FeRecv.Api.GetShmemConfig.hdr.id)) (selfOf s)
    (sockWorld cst str) hF (by simpa [calleeFrame, hfr] using hlen) rfl
  have hM : recvH ch cl (selfOf s).acked_protocol_features (parseHdr ((calleeFrame (fr.b Gen.FeRecv.Api.GetShmemConfig.hdr.id)).b 0)) (.body "VhostUserShMemConfig")
      (sockWorld cst str).cst (sockWorld cst str).stream = recv ch cl s req cst str := by
    rw [recv_eq_recvH, hk, ← hparse, ← hfr]; rfl
  rw [hM] at hS
  rw [callView_callRecv]
  unfold Gen.FeRecv.Api.GetShmemConfig.post
  refine post_compose (stdEnv ch cl) .shmem _ _ F fr s (sockWorld cst str) rfl _ _ _ (fun _ => []) (by rfl)
    (fun out hout => readCall_exec (stdEnv ch cl) _ _ _ _ _ _ _ F fr (selfOf s) (sockWorld cst str) _ _ hS out hout) ?_
  intro r w' hr
  have hl : r.body.length = 2056 := by
    rw [← hM] at hr
    exact recvH_body_ok_len ch cl _ _ "VhostUserShMemConfig" 2056 _ _ r so_ShMem hr
  constructor
  · exact (finish_matches_get_shmem_config ch cl s a pl fds bad regs r F _ w' (by simp)).1
  · rw [(finish_matches_get_shmem_config ch cl s a pl fds bad regs r F _ w' (by simp)).2]; simp

theorem post_matches_set_log_base (hk : req.kind = .body "VhostUserLog") (hlen : hb.length = 12) (hparse : parseHdr hb = reqHdr s req)
    (hF : str.length + 1 ≤ F) (hfr : fr.b Gen.FeRecv.Api.SetLogBase.hdr.id = hb) :
    callViewOfExec .unit (ImpFe.exec (stdEnv ch cl) Gen.FeRecv.Api.SetLogBase.post F fr (selfOf s) (sockWorld cst str)) =
      callViewOfModel (callRecv ch cl s ⟨"set_log_base", a, pl, fds, bad, regs⟩ req cst str) := by
  have hS := recv_reply_exec ch cl "VhostUserLog" 16 so_Log (by decide) F (calleeFrame (fr.b Gen.FeRecv.Api.SetLogBase.hdr.id)) (selfOf s)
    (sockWorld cst str) hF (by simpa [calleeFrame, hfr] using hlen) rfl
  have hM : recvH ch cl (selfOf s).acked_protocol_features (parseHdr ((calleeFrame (fr.b Gen.FeRecv.Api.SetLogBase.hdr.id)).b 0)) (.body "VhostUserLog")
      (sockWorld cst str).cst (sockWorld cst str).stream = recv ch cl s req cst str := by
    rw [recv_eq_recvH, hk, ← hparse, ← hfr]; rfl
  rw [hM] at hS
  rw [callView_callRecv]
  unfold Gen.FeRecv.Api.SetLogBase.post
  refine post_compose (stdEnv ch cl) .unit _ _ F fr s (sockWorld cst str) rfl _ _ _ (fun _ => []) (by rfl)
    (fun out hout => readCall_exec (stdEnv ch cl) _ _ _ _ _ _ _ F fr (selfOf s) (sockWorld cst str) _ _ hS out hout) ?_
  intro r w' hr
  have hl : r.body.length = 16 := by
    rw [← hM] at hr
    exact recvH_body_ok_len ch cl _ _ "VhostUserLog" 16 _ _ r so_Log hr
  constructor
  · exact (finish_matches_set_log_base ch cl s a pl fds bad regs r F _ w' ).1
  · rw [(finish_matches_set_log_base ch cl s a pl fds bad regs r F _ w' ).2]; simp

theorem post_matches_get_shared_object (hk : req.kind = .bodyFiles "VhostUserEmpty") (hlen : hb.length = 12) (hparse : parseHdr hb = reqHdr s req)
    (hF : str.length + 1 ≤ F) (hfr : fr.b Gen.FeRecv.Api.GetSharedObject.hdr.id = hb) :
    callViewOfExec .file (ImpFe.exec (stdEnv ch cl) Gen.FeRecv.Api.GetSharedObject.post F fr (selfOf s) (sockWorld cst str)) =
      callOfRecv (recv ch cl s req cst str) s ⟨"get_shared_object", a, pl, fds, bad, regs⟩ (fun r => dropsOf r.files) := by
  have hS := recv_reply_with_files_exec ch cl "VhostUserEmpty" 0 so_Empty (by decide) F (calleeFrame (fr.b Gen.FeRecv.Api.GetSharedObject.hdr.id)) (selfOf s)
    (sockWorld cst str) hF (by simpa [calleeFrame, hfr] using hlen) rfl
  have hM : recvH ch cl (selfOf s).acked_protocol_features (parseHdr ((calleeFrame (fr.b Gen.FeRecv.Api.GetSharedObject.hdr.id)).b 0)) (.bodyFiles "VhostUserEmpty")
      (sockWorld cst str).cst (sockWorld cst str).stream = recv ch cl s req cst str := by
    rw [recv_eq_recvH, hk, ← hparse, ← hfr]; rfl
  rw [hM] at hS
  unfold Gen.FeRecv.Api.GetSharedObject.post
  refine post_compose (stdEnv ch cl) .file _ _ F fr s (sockWorld cst str) rfl _ _ _ (fun r => dropsOf r.files) (by rfl)
    (fun out hout => readCall_exec (stdEnv ch cl) _ _ _ _ _ _ _ F fr (selfOf s) (sockWorld cst str) _ _ hS out hout) ?_
  intro r w' hr
  exact finish_matches_get_shared_object ch cl s a pl fds bad regs r F _ w' (by simp)

theorem post_matches_postcopy_advise (hk : req.kind = .bodyFiles "VhostUserEmpty") (hlen : hb.length = 12) (hparse : parseHdr hb = reqHdr s req)
    (hF : str.length + 1 ≤ F) (hfr : fr.b Gen.FeRecv.Api.PostcopyAdvise.hdr.id = hb) :
    callViewOfExec .file (ImpFe.exec (stdEnv ch cl) Gen.FeRecv.Api.PostcopyAdvise.post F fr (selfOf s) (sockWorld cst str)) =
      callOfRecv (recv ch cl s req cst str) s ⟨"postcopy_advise", a, pl, fds, bad, regs⟩ (fun r => dropsOf r.files) := by
  have hS := recv_reply_with_files_exec ch cl "VhostUserEmpty" 0 so_Empty (by decide) F (calleeFrame (fr.b Gen.FeRecv.Api.PostcopyAdvise.hdr.id)) (selfOf s)
    (sockWorld cst str) hF (by simpa [calleeFrame, hfr] using hlen) rfl
  have hM : recvH ch cl (selfOf s).acked_protocol_features (parseHdr ((calleeFrame (fr.b Gen.FeRecv.Api.PostcopyAdvise.hdr.id)).b 0)) (.bodyFiles "VhostUserEmpty")
      (sockWorld cst str).cst (sockWorld cst str).stream = recv ch cl s req cst str := by
    rw [recv_eq_recvH, hk, ← hparse, ← hfr]; rfl
  rw [hM] at hS
  unfold Gen.FeRecv.Api.PostcopyAdvise.post
  refine post_compose (stdEnv ch cl) .file _ _ F fr s (sockWorld cst str) rfl _ _ _ (fun r => dropsOf r.files) (by rfl)
    (fun out hout => readCall_exec (stdEnv ch cl) _ _ _ _ _ _ _ F fr (selfOf s) (sockWorld cst str) _ _ hS out hout) ?_
  intro r w' hr
  exact finish_matches_postcopy_advise ch cl s a pl fds bad regs r F _ w' (by simp)

theorem post_matches_get_inflight_fd (hk : req.kind = .bodyFiles "VhostUserInflight") (hlen : hb.length = 12) (hparse : parseHdr hb = reqHdr s req)
    (hF : str.length + 1 ≤ F) (hfr : fr.b Gen.FeRecv.Api.GetInflightFd.hdr.id = hb) :
    callViewOfExec .inflight (ImpFe.exec (stdEnv ch cl) Gen.FeRecv.Api.GetInflightFd.post F fr (selfOf s) (sockWorld cst str)) =
      callOfRecv (recv ch cl s req cst str) s ⟨"get_inflight_fd", a, pl, fds, bad, regs⟩ (fun r => dropsOf r.files) := by
  have hS := recv_reply_with_files_exec ch cl "VhostUserInflight" 24 so_Inflight (by decide) F (calleeFrame (fr.b Gen.FeRecv.Api.GetInflightFd.hdr.id)) (selfOf s)
    (sockWorld cst str) hF (by simpa [calleeFrame, hfr] using hlen) rfl
  have hM : recvH ch cl (selfOf s).acked_protocol_features (parseHdr ((calleeFrame (fr.b Gen.FeRecv.Api.GetInflightFd.hdr.id)).b 0)) (.bodyFiles "VhostUserInflight")
      (sockWorld cst str).cst (sockWorld cst str).stream = recv ch cl s req cst str := by
    rw [recv_eq_recvH, hk, ← hparse, ← hfr]; rfl
  rw [hM] at hS
  unfold Gen.FeRecv.Api.GetInflightFd.post
  refine post_compose (stdEnv ch cl) .inflight _ _ F fr s (sockWorld cst str) rfl _ _ _ (fun r => dropsOf r.files) (by rfl)
    (fun out hout => readCall_exec (stdEnv ch cl) _ _ _ _ _ _ _ F fr (selfOf s) (sockWorld cst str) _ _ hS out hout) ?_
  intro r w' hr
  exact finish_matches_get_inflight_fd ch cl s a pl fds bad regs r F _ w' (by simp) (by simp)

/-- what `set_device_state_fd` closes while post-processing -/
def devStateDrops (r : Reply) : List Fd :=
  if Base.leVal r.body = 0x100 ∧ r.files = none then []
  else if Base.leVal r.body = 0 ∧ r.files.isSome then dropsOf r.files else r.files.getD []

theorem post_matches_set_device_state_fd (hk : req.kind = .bodyOptFiles "VhostUserU64") (hlen : hb.length = 12)
    (hparse : parseHdr hb = reqHdr s req) (hF : str.length + 1 ≤ F) (hfr : fr.b Gen.FeRecv.Api.SetDeviceStateFd.hdr.id = hb) :
    callViewOfExec .optFile (ImpFe.exec (stdEnv ch cl) Gen.FeRecv.Api.SetDeviceStateFd.post F fr (selfOf s) (sockWorld cst str)) =
      callOfRecv (recv ch cl s req cst str) s ⟨"set_device_state_fd", a, pl, fds, bad, regs⟩ devStateDrops := by
  have hS := recv_reply_with_optional_files_exec ch cl "VhostUserU64" 8 so_U64 (by decide) F
    (calleeFrame (fr.b Gen.FeRecv.Api.SetDeviceStateFd.hdr.id)) (selfOf s) (sockWorld cst str) hF (by simpa [calleeFrame, hfr] using hlen) rfl
  have hM : recvH ch cl (selfOf s).acked_protocol_features (parseHdr ((calleeFrame (fr.b Gen.FeRecv.Api.SetDeviceStateFd.hdr.id)).b 0))
      (.bodyOptFiles "VhostUserU64") (sockWorld cst str).cst (sockWorld cst str).stream = recv ch cl s req cst str := by
    rw [recv_eq_recvH, hk, ← hparse, ← hfr]; rfl
  rw [hM] at hS
  unfold Gen.FeRecv.Api.SetDeviceStateFd.post
  refine post_compose (stdEnv ch cl) .optFile _ _ F fr s (sockWorld cst str) rfl _ _ _ devStateDrops (by rfl)
    (fun out hout => readCall_exec (stdEnv ch cl) _ _ _ _ _ _ _ F fr (selfOf s) (sockWorld cst str) _ _ hS out hout) ?_
  intro r w' hr
  have hl : r.body.length = 8 := by
    rw [← hM] at hr
    exact recvH_optFiles_ok_len ch cl _ _ "VhostUserU64" 8 _ _ r so_U64 hr
  exact finish_matches_set_device_state_fd ch cl s a pl fds bad regs r F _ w' hl (by simp) (by simp)

/-- `get_config`: `body` = the request struct (`size`, `offset` as in `op.a`), `buf` = the caller's buffer -/
theorem post_matches_get_config (roff rsz fl blen : Nat) (hk : req.kind = .payload "VhostUserConfig") (hlen : hb.length = 12)
    (hparse : parseHdr hb = reqHdr s req) (hF : str.length + 1 ≤ F) (hfr : fr.b Gen.FeRecv.Api.GetConfig.hdr.id = hb)
    (hsize : Model.Frontend.g (fr.b Gen.FeRecv.Api.GetConfig.body.id) "VhostUserConfig" ["size"] = rsz)
    (hoff : Model.Frontend.g (fr.b Gen.FeRecv.Api.GetConfig.body.id) "VhostUserConfig" ["offset"] = roff)
    (hbuf : (fr.b Gen.FeRecv.Api.GetConfig.buf.id).length = blen) :
    callViewOfExec .config (ImpFe.exec (stdEnv ch cl) Gen.FeRecv.Api.GetConfig.post F fr (selfOf s) (sockWorld cst str)) =
      callViewOfModel (callRecv ch cl s ⟨"get_config", [roff, rsz, fl, blen], pl, fds, bad, regs⟩ req cst str) := by
  have hS := recv_reply_with_payload_exec ch cl "VhostUserConfig" 12 so_Config (by decide) F
    (calleeFrame (fr.b Gen.FeRecv.Api.GetConfig.hdr.id)) (selfOf s) (sockWorld cst str) hF (by simpa [calleeFrame, hfr] using hlen) rfl
  have hM : recvH ch cl (selfOf s).acked_protocol_features (parseHdr ((calleeFrame (fr.b Gen.FeRecv.Api.GetConfig.hdr.id)).b 0))
      (.payload "VhostUserConfig") (sockWorld cst str).cst (sockWorld cst str).stream = recv ch cl s req cst str := by
    rw [recv_eq_recvH, hk, ← hparse, ← hfr]; rfl
  rw [hM] at hS
  rw [callView_callRecv]
  unfold Gen.FeRecv.Api.GetConfig.post
  refine post_compose (stdEnv ch cl) .config _ _ F fr s (sockWorld cst str) rfl _ _ _ (fun _ => []) (by rfl)
    (fun out hout => readCall_exec (stdEnv ch cl) _ _ _ _ _ _ _ F fr (selfOf s) (sockWorld cst str) _ _ hS out hout) ?_
  intro r w' hr
  have hnone : r.files = none := by
    have := (Props.C06.recv_ok_is_reply_for ch cl s req cst str r hr (by rw [hk]; trivial)).2
    rw [hk] at this; exact this
  have h2 : fr.b 1 = fr.b Gen.FeRecv.Api.GetConfig.body.id := rfl
  have h3 : fr.b 0 = fr.b Gen.FeRecv.Api.GetConfig.buf.id := rfl
  constructor
  · exact (finish_matches_get_config ch cl s pl fds bad regs r F _ w' roff rsz fl blen (by simp [hnone]) hnone (by simp) (by simp)
      (by simpa [h2] using hsize) (by simpa [h2] using hoff) (by simpa [h3] using hbuf)).1
  · rw [(finish_matches_get_config ch cl s pl fds bad regs r F _ w' roff rsz fl blen (by simp [hnone]) hnone (by simp) (by simp)
      (by simpa [h2] using hsize) (by simpa [h2] using hoff) (by simpa [h3] using hbuf)).2]; simp

/-! ### the methods that only wait for the acknowledgement -/

/-- `let hdr = ..; node.wait_for_ack(&hdr).map_err(|e| e.into())` with `hdr` in buffer slot `hdr` -/
def ackPost (hdr : Var) : FStmt :=
  .seq (.callFe "wait_for_ack" Gen.FeRecv.WaitForAck.fnBody [] [(Gen.FeRecv.WaitForAck.hdr, hdr)] [] Gen.FeRecv.Api.SetFeatures.r_wait_for_ack)
    Gen.FeRecv.Api.SetFeatures.finish

/-- the post parts of the 21 `wait_for_ack` methods are this term (they differ in the slot of `hdr` only) -/
theorem ack_post_terms :
    [Gen.FeRecv.Api.SetFeatures.post, Gen.FeRecv.Api.SetOwner.post, Gen.FeRecv.Api.ResetOwner.post, Gen.FeRecv.Api.SetMemTable.post,
     Gen.FeRecv.Api.SetLogFd.post, Gen.FeRecv.Api.SetVringNum.post, Gen.FeRecv.Api.SetVringAddr.post, Gen.FeRecv.Api.SetVringBase.post,
     Gen.FeRecv.Api.SetVringCall.post, Gen.FeRecv.Api.SetVringKick.post, Gen.FeRecv.Api.SetVringErr.post,
     Gen.FeRecv.Api.SetProtocolFeatures.post, Gen.FeRecv.Api.ResetDevice.post, Gen.FeRecv.Api.SetVringEnable.post,
     Gen.FeRecv.Api.SetConfig.post, Gen.FeRecv.Api.SetBackendRequestFd.post, Gen.FeRecv.Api.SetInflightFd.post,
     Gen.FeRecv.Api.AddMemRegion.post, Gen.FeRecv.Api.RemoveMemRegion.post, Gen.FeRecv.Api.PostcopyListen.post,
     Gen.FeRecv.Api.PostcopyEnd.post] =
    [ackPost Gen.FeRecv.Api.SetFeatures.hdr, ackPost Gen.FeRecv.Api.SetOwner.hdr, ackPost Gen.FeRecv.Api.ResetOwner.hdr,
     ackPost Gen.FeRecv.Api.SetMemTable.hdr, ackPost Gen.FeRecv.Api.SetLogFd.hdr, ackPost Gen.FeRecv.Api.SetVringNum.hdr,
     ackPost Gen.FeRecv.Api.SetVringAddr.hdr, ackPost Gen.FeRecv.Api.SetVringBase.hdr, ackPost Gen.FeRecv.Api.SetVringCall.hdr,
     ackPost Gen.FeRecv.Api.SetVringKick.hdr, ackPost Gen.FeRecv.Api.SetVringErr.hdr, ackPost Gen.FeRecv.Api.SetProtocolFeatures.hdr,
     ackPost Gen.FeRecv.Api.ResetDevice.hdr, ackPost Gen.FeRecv.Api.SetVringEnable.hdr, ackPost Gen.FeRecv.Api.SetConfig.hdr,
     ackPost Gen.FeRecv.Api.SetBackendRequestFd.hdr, ackPost Gen.FeRecv.Api.SetInflightFd.hdr, ackPost Gen.FeRecv.Api.AddMemRegion.hdr,
     ackPost Gen.FeRecv.Api.RemoveMemRegion.hdr, ackPost Gen.FeRecv.Api.PostcopyListen.hdr, ackPost Gen.FeRecv.Api.PostcopyEnd.hdr] := rfl

/-- for every operation whose `finish` is `(.unit, s)` (`ack_methods_finish_unit`): the acknowledgement wait followed by
`map_err(into)` is `Model.Frontend.callRecv` -/
theorem post_matches_ack (op : Op) (hop : ∀ r, finish s op r = (.unit, s)) (hdr : Var) (hk : req.kind = .ack) (hlen : hb.length = 12)
    (hparse : parseHdr hb = reqHdr s req) (hF : str.length + 1 ≤ F) (hfr : fr.b hdr.id = hb) :
    callViewOfExec .unit (ImpFe.exec (stdEnv ch cl) (ackPost hdr) F fr (selfOf s) (sockWorld cst str)) =
      callViewOfModel (callRecv ch cl s op req cst str) := by
  have hS := wait_for_ack_exec ch cl F (calleeFrame (fr.b hdr.id)) (selfOf s) (sockWorld cst str) hF
    (by simpa [calleeFrame, hfr] using hlen) rfl
  have hM : recvH ch cl (selfOf s).acked_protocol_features (parseHdr ((calleeFrame (fr.b hdr.id)).b 0)) .ack
      (sockWorld cst str).cst (sockWorld cst str).stream = recv ch cl s req cst str := by
    rw [recv_eq_recvH, hk, ← hparse, ← hfr]; rfl
  rw [hM] at hS
  rw [callView_callRecv]
  unfold ackPost
  rw [exec_seq, exec_callFe]
  simp only [argsN, argsB, argsF, movedF]
  rcases hx : ImpFe.exec (stdEnv ch cl) Gen.FeRecv.WaitForAck.fnBody F (calleeFrame (fr.b hdr.id)) (selfOf s) (sockWorld cst str)
    with ⟨c, fr2, sf2, w2⟩
  rw [hx] at hS
  have hx' : ImpFe.exec (stdEnv ch cl) Gen.FeRecv.WaitForAck.fnBody F
      { n := fun _ => 0, b := upd (fun _ => []) Gen.FeRecv.WaitForAck.hdr.id (fr.b hdr.id), f := fun _ => none } (selfOf s)
      (sockWorld cst str) = (c, fr2, sf2, w2) := hx
  rw [hx']
  obtain ⟨s1, s2, s3, s4⟩ := hS
  simp only at s1 s2 s3 s4
  subst s3
  unfold callOfRecv
  generalize recv ch cl s req cst str = M at s1 s2 s4 ⊢
  rcases M with ⟨mres, mrest, mcst, mclosed⟩
  cases mres with
  | blocked =>
    obtain ⟨inner, u1, u2⟩ := s4
    try simp only at u1 u2
    subst u1
    simp [callViewOfExec, retOf, heldOf, s1, s2, fstOf, selfOf]
    simpa [sockWorld] using u2
  | err e =>
    obtain ⟨⟨fe, u1, u2⟩, u3⟩ := s4
    try simp only at u1 u3
    subst u1
    simp [Gen.FeRecv.Api.SetFeatures.finish, exec_matchOk, exec_retErr, evalErr, errOfR, callViewOfExec, retOf, heldOf, s1, s2, u2,
      fstOf, selfOf]
    simpa [sockWorld] using u3
  | ok r =>
    obtain ⟨u1, u3⟩ := s4
    try simp only at u1 u3
    subst u1
    simp [Gen.FeRecv.Api.SetFeatures.finish, exec_matchOk, exec_ret, evalXs, evalFd, callViewOfExec, retOf, decodeOk, heldOf, s1, s2,
      fstOf, selfOf, hop]
    simpa [sockWorld] using u3

end post

/-! ## the generated tables -/

/-- `size_of::<T>()` of every type a reader is instantiated with is known and at most `MAX_MSG_SIZE` -/
theorem reader_types_fit :
    (Gen.FeRecv.apiReaders.filter (fun x => x.2.2 != "")).all
      (fun x => match sizeOfTy x.2.2 with | some n => decide (n ≤ 0x1000) | none => false) = true := by
  decide +kernel

/-- the four `recv_reply*` functions of the file are the ones tied here -/
theorem readers_listed :
    Gen.FeRecv.readerNames = ["recv_reply", "recv_reply_with_optional_files", "recv_reply_with_files", "recv_reply_with_payload"] := by
  decide

def awaitOfReader (r T : String) : Base.FeAwait :=
  if r = "wait_for_ack" then .ack
  else if r = "recv_reply" then .reply T
  else if r = "recv_reply_with_optional_files" then .replyOptFiles T
  else if r = "recv_reply_with_files" then .replyFiles T
  else if r = "recv_reply_with_payload" then .replyPayload T
  else .none

/-- reader and body type per API method, as read here, are those of `Gen.FrontendOps.rows` (the table
`Props.FrontendOps.model_ops_match_source` ties to `Model.Frontend.request`) -/
theorem readers_agree_with_rows :
    Gen.FeRecv.apiReaders.map (fun x => (x.1, awaitOfReader x.2.1 x.2.2)) =
      (Gen.FrontendOps.rows.filter (fun r => r.await != .none)).map (fun r => (r.name, r.await)) := by
  decide +kernel

/-! ## non-vacuity: concrete runs of the generated terms -/

/-- a GET_FEATURES reply (code 1, flags REPLY|v1, size 8) of value `0x40000000`, delivered two bytes at a time -/
def sampleReply : List Cell := ([1, 0, 0, 0, 5, 0, 0, 0, 8, 0, 0, 0, 0, 0, 0, 0x40, 0, 0, 0, 0] : List UInt8).map (fun b => ⟨b, [], false⟩)

def sampleHdr : Bytes := encHdr 1 1 0

def runReader (closed : Bool) (term : FStmt) (sf : Self) (str : List Cell) : View Unit :=
  viewOfExec (ImpFe.exec (stdEnv (σ := Unit) ⟨fun _ _ _ => (2, ())⟩ closed) term 40 (hdrFrame sampleHdr) sf (sockWorld () str))

/-- the matching reply is accepted: the body is returned, nothing is closed, the stream is consumed -/
example : ((runReader false (Gen.FeRecv.recvReply "VhostUserU64") {} sampleReply).res,
      (runReader false (Gen.FeRecv.recvReply "VhostUserU64") {} sampleReply).rest.length,
      (runReader false (Gen.FeRecv.recvReply "VhostUserU64") {} sampleReply).closed) =
    (.ok [0, 0, 0, 0x40, 0, 0, 0, 0] [] none, 0, []) := by decide +kernel

/-- a reply that carries a descriptor: `InvalidMessage`, the descriptor is closed -/
example : ((runReader false (Gen.FeRecv.recvReply "VhostUserU64") {} (⟨1, [9], true⟩ :: sampleReply.tail)).res,
      (runReader false (Gen.FeRecv.recvReply "VhostUserU64") {} (⟨1, [9], true⟩ :: sampleReply.tail)).closed) =
    (.err .invalidMsg, [9]) := by decide +kernel

/-- … which `recv_reply_with_optional_files` hands out instead -/
example : (runReader false (Gen.FeRecv.recvReplyWithOptionalFiles "VhostUserU64") {} (⟨1, [9], true⟩ :: sampleReply.tail)).res =
    .ok [0, 0, 0, 0x40, 0, 0, 0, 0] [] (some [9]) := by decide +kernel

/-- the reply of another request (code 2): `InvalidMessage` -/
example : (runReader false (Gen.FeRecv.recvReply "VhostUserU64") {} (⟨2, [], true⟩ :: sampleReply.tail)).res = .err .invalidMsg := by
  decide +kernel

/-- a short reply on a closed stream: `PartialMessage`; on an open one the call blocks -/
example : ((runReader true (Gen.FeRecv.recvReply "VhostUserU64") {} (sampleReply.take 15)).res,
      (runReader false (Gen.FeRecv.recvReply "VhostUserU64") {} (sampleReply.take 15)).res,
      (runReader false (Gen.FeRecv.recvReply "VhostUserU64") {} []).res) = (.err .partialMsg, .blocked, .blocked) := by decide +kernel

/-- `wait_for_ack` without REPLY_ACK: nothing is read; with REPLY_ACK and NEED_REPLY in the request header the zero
acknowledgement is accepted and a non-zero one is `BackendInternalError` -/
example :
    ((viewOfExec (ImpFe.exec (stdEnv (σ := Unit) ⟨fun _ _ _ => (2, ())⟩ false) Gen.FeRecv.waitForAck 40 (hdrFrame (encHdr 1 9 0)) {}
        (sockWorld () sampleReply))).rest.length,
     (viewOfExec (ImpFe.exec (stdEnv (σ := Unit) ⟨fun _ _ _ => (2, ())⟩ false) Gen.FeRecv.waitForAck 40 (hdrFrame (encHdr 1 9 0))
        { acked_protocol_features := 8 } (sockWorld () sampleReply))).res,
     (viewOfExec (ImpFe.exec (stdEnv (σ := Unit) ⟨fun _ _ _ => (2, ())⟩ false) Gen.FeRecv.waitForAck 40 (hdrFrame (encHdr 1 9 0))
        { acked_protocol_features := 8 } (sockWorld () (sampleReply.take 12 ++ List.replicate 8 ⟨0, [], false⟩)))).res) =
    (20, .err .backendInternal, .ok [] [] none) := by decide +kernel

end Props.FeRecv
