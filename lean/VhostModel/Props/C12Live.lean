import VhostModel.Props.C12
import VhostModel.Lemmas.WorkerLive

/-!
# C12, liveness half — a kick raised while the ring is (or becomes) active is eventually dispatched

`Props/C12.lean` proves the safety half of P2 for `Model.Worker` (no wake-up consumed without a handler call, the worker
never ends: `no_lost_wakeup_repaired`).  This file adds "eventually", under an explicit scheduler-fairness hypothesis, in
the style of `Props/C16.lean` (`shutdown_then_wait_ok_fair`).

## Executions, fairness, events

* `Exec` — an infinite schedule: `st : Nat → St`, `lbl : Nat → Lbl`, every label enabled (`step (st k) (lbl k) = some
  (st (k+1))`).  `Exec.run_pre` / `Exec.reach`: every prefix is a finite run of `Model.Worker.run`, so every state of
  an execution from `init cfg` is `Props.C12.Reach cfg` and all invariants of `Lemmas/Worker.lean` apply (`Exec.inv`).
* `WeakFair x` — weak fairness for the worker thread: if from some position on the worker's step `w` is always
  enabled, it is taken at some later position.  Because `w` is enabled in every state in which the worker thread has
  not ended, and (with `fix-c12-stale-eagain`) it never ends, this is the same as "the worker steps infinitely often"
  (`weakFair_iff_infinitely_often`); strong fairness would be no stronger.  Nothing is assumed about the control
  thread or the guest: they may stall, or act for ever.
* `EmitsAt x j e` — step `j` appends `e` to the history; `ConsumedAt x j` = `EmitsAt x j (.consumed true)` (a granted
  read of the kick counter), `DispatchAt x j` = `EmitsAt x j .dispatch` (handler entry; `dispatchAt_iff`: exactly the
  worker's step from `worker.dispatch`).  `Served x k` — at or after position `k` the counter is read with a grant and
  later the handler is entered: the kick that was pending at `k` has been *processed*, not merely followed by some
  handler call that had been granted earlier.
* `Active d s` — ready ∧ enabled ∧ `kick = some d` ∧ `reg d`.

## Theorems (repaired configuration; the flags each one needs are hypotheses)

1. `kick_eventually_dispatched` (`fixLost`, `fixEagain`) — every execution from `init cfg` that is weakly fair to the
   worker: if `cnt d > 0` at position `k1` and the ring is `Active d` at every position from some `k0 ≥ k1` on, then
   `Served x k1`.  `fixStopped` and `nofdStarts = false` are **not** needed.  The stability hypothesis is persistence of
   `Active d` ("eventually always"), *not* finiteness of control traffic: the control thread may go on for ever with
   messages that keep the ring active (e.g. repeated SET_VRING_ENABLE 1).
   * `kick_served_of_active` — the core, for **every** configuration (pinned included) and every execution (no
     initial-state hypothesis beyond `kick d ⇒ d < next`): worker alive, `cnt d > 0` and `Active d` from `k0` on ⇒
     `Served x k0`.  Ranking argument: `Lemmas.WorkerLive.rank` (`toDispatch ↦ 4, wait ↦ 3, woken ↦ 2, checked ↦ 1`)
     strictly decreases with every worker step until the read (`w_progress`), is untouched by guest kicks and by
     control segments (`other_frame`; control segments cannot reset it — they can only destroy `Active`, which the
     hypothesis excludes); after the read the next worker step is the handler entry (`granted_dispatched`).
   * `kick_eventually_dispatched_finite_control` — the "finitely many control messages" form: if no message arrives
     from `k0` on, it is enough that the ring is active **infinitely often** (`control_quiet`: the control thread then
     takes at most 4 more segments, after which the ring state is constant).
   * Why not weaker: `flapping_counterexample` — repaired configuration, one kick pending for ever, the control thread
     alternating SET_VRING_ENABLE 0 / SET_VRING_ENABLE 1 for ever (every message completed and answered), the worker
     stepping infinitely often (weakly *and* strongly fair), the ring `Active 0` infinitely often — and no handler
     entry, ever: the worker happens to run only while the ring is disabled.  So "infinitely often active" (or "every
     started message is eventually completed") does not suffice without finiteness of control traffic; persistence does.
2. `worker_never_exits` (`fixEagain`) — along every execution, no fairness: `wpc ≠ dead`, the worker's step is
   enabled, `workerExit` is not in the history.  `worker_never_exits_run` is the same for finite runs.
3. `retained_kick_delivered_after_enable` (`fixLost`, `fixEagain`) — a guest kick on `d` at position `k1` (whatever
   the ring state — disabled, stopped, mid-message): (a) retention: at every later position `cnt d > 0` unless a
   granted read happened in between, and no `consumed false` ever; (b) if the reply of an activating message
   (SET_VRING_ENABLE 1 or SET_VRING_KICK with a descriptor) is sent at `k2 ≥ k1` and the ring is `Active d` from then
   on, then `Served x (k1+1)`.  `retained_kick_delivered_after_enable_quiet` derives the activity instead of assuming
   it: reply of SET_VRING_ENABLE(1) at `k2`, ring started on `d` at that moment, no further message ⇒ served.
4. Counterexamples: `unfair_counterexample` (no worker fairness: the guest kicks for ever, the worker is never
   scheduled, all other hypotheses of 1 hold, no dispatch); `pinned_retained_kick_lost` (`fixLost = false`): the
   kick that arrives after the reply of SET_VRING_ENABLE(0) is consumed by the worker's stale wake-up, then
   SET_VRING_ENABLE(1) completes, the ring is active for ever, the worker runs for ever — no handler entry in the
   whole execution; `pinned_no_dispatch_without_new_kick`: from the state after that read, **no** continuation without
   a new guest kick (fair or not, whatever the control thread does) ever enters the handler.

The hypotheses of 1 and 3 are satisfiable: the `example` at the end of the file (disable · kick · enable · worker runs,
repaired configuration, weakly fair, `Served`).  Executions are built with `Exec.cons`, `exists_prepend`, `exists_lasso`
(a finite schedule, then one label for ever) and, for the periodic one, by iterating `step` (`flapSt`, `flap_inv`).
`Lemmas/WorkerLive.lean` holds the step-level lemmas (frames, `rank`, `w_progress`, `retained_step`, `alive_step`,
`InvE` / `active_after_enable_reply` / `active_after_restart_reply`, `cnt_noninc`, `drained_step`).

Assumed, not proved: OS scheduling is fair to the worker (hypothesis `WeakFair`); the modelling assumptions of
`Model/Worker.lean` (atomic segments, level-triggered epoll, one ring / one worker).
-/

namespace Props.C12Live
open Model.Worker Spec.KickDelivery Lemmas.Worker Lemmas.WorkerLive Props.C12

/-! ## infinite executions -/

/-- an infinite schedule: a sequence of states and labels in which every label is enabled -/
structure Exec where
  st : Nat → St
  lbl : Nat → Lbl
  ok : ∀ k, step (st k) (lbl k) = some (st (k + 1))

/-- the first `k` labels -/
def Exec.pre (x : Exec) (k : Nat) : List Lbl := (List.range k).map x.lbl

theorem run_append (s : St) (a b : List Lbl) : run s (a ++ b) = (run s a).bind fun s' => run s' b := by
  induction a generalizing s with
  | nil => simp [run]
  | cons l a ih =>
    simp only [List.cons_append, run]
    cases step s l with
    | none => simp
    | some s1 => simp [ih]

/-- every prefix of an execution is a finite run in the sense of `Model.Worker.run` -/
theorem Exec.run_pre (x : Exec) (k : Nat) : run (x.st 0) (x.pre k) = some (x.st k) := by
  induction k with
  | zero => simp [Exec.pre, run]
  | succ k ih =>
    have : x.pre (k + 1) = x.pre k ++ [x.lbl k] := by simp [Exec.pre, List.range_succ]
    rw [this, run_append, ih]
    simp [run, x.ok k]

/-- … so every state of an execution from `init cfg` is reachable in the sense of `Props.C12` -/
theorem Exec.reach (x : Exec) (cfg : Cfg) (h0 : x.st 0 = init cfg) (k : Nat) : Reach cfg (x.st k) :=
  ⟨x.pre k, by rw [← h0]; exact x.run_pre k⟩

theorem Exec.inv (x : Exec) (cfg : Cfg) (h0 : x.st 0 = init cfg) (k : Nat) :
    Inv (x.st k) ∧ Linked cfg (x.st k) ∧ InvE (x.st k) := by
  induction k with
  | zero => rw [h0]; exact ⟨inv_init cfg, linked_init cfg, invE_init cfg⟩
  | succ k ih => exact ⟨inv_step ih.1 (x.ok k), linked_step ih.2.1 (x.ok k), invE_step ih.2.2 (x.ok k)⟩

theorem Exec.cfg_eq (x : Exec) (cfg : Cfg) (h0 : x.st 0 = init cfg) (k : Nat) : (x.st k).cfg = cfg :=
  (x.inv cfg h0 k).2.1.cfg_eq

theorem Exec.kick_lt_next (x : Exec) (cfg : Cfg) (h0 : x.st 0 = init cfg) (k : Nat) (d : Evt)
    (h : (x.st k).kick = some d) : d < (x.st k).next := (x.inv cfg h0 k).1.c.c5 d h

/-! ## fairness and events -/

/-- the worker's step is enabled -/
def WorkerEnabled (s : St) : Prop := (step s .w).isSome = true

theorem workerEnabled_iff (s : St) : WorkerEnabled s ↔ s.wpc ≠ .dead := w_enabled_iff s

/-- weak fairness for the worker thread: if from some position on its step is always enabled, it eventually steps -/
def WeakFair (x : Exec) : Prop :=
  ∀ k, (∀ j, k ≤ j → WorkerEnabled (x.st j)) → ∃ j, k ≤ j ∧ x.lbl j = .w

/-- step `j` appends `e` to the history -/
def EmitsAt (x : Exec) (j : Nat) (e : Ev) : Prop := (x.st (j + 1)).trace = (x.st j).trace ++ [e]
/-- step `j` is a read of the kick counter that grants a handler call -/
abbrev ConsumedAt (x : Exec) (j : Nat) : Prop := EmitsAt x j (.consumed true)
/-- step `j` enters the backend's event handler -/
abbrev DispatchAt (x : Exec) (j : Nat) : Prop := EmitsAt x j .dispatch

/-- a kick pending at position `k` is processed: the counter is read (granted) at some `i ≥ k` and the handler is
entered at some `j > i` -/
def Served (x : Exec) (k : Nat) : Prop := ∃ i j, k ≤ i ∧ i < j ∧ ConsumedAt x i ∧ DispatchAt x j

theorem dispatchAt_iff (x : Exec) (j : Nat) : DispatchAt x j ↔ x.lbl j = .w ∧ (x.st j).wpc = .toDispatch :=
  emits_dispatch_iff (x.ok j)

theorem Served.mono {x : Exec} {k k' : Nat} (h : Served x k) (hk : k' ≤ k) : Served x k' := by
  obtain ⟨i, j, h1, h2, h3, h4⟩ := h
  exact ⟨i, j, Nat.le_trans hk h1, h2, h3, h4⟩

/-- the history only grows -/
theorem Exec.trace_mono (x : Exec) (j n : Nat) : ∃ t, (x.st (j + n)).trace = (x.st j).trace ++ t := by
  induction n with
  | zero => exact ⟨[], by simp⟩
  | succ n ih =>
    obtain ⟨t, ht⟩ := ih
    rcases (step_trace (x.ok (j + n))).2 with ⟨h, _⟩ | ⟨e, h, _⟩
    · exact ⟨t, by rw [← Nat.add_assoc, h, ht]⟩
    · exact ⟨t ++ [e], by rw [← Nat.add_assoc, h, ht, List.append_assoc]⟩

theorem Exec.mem_trace_mono (x : Exec) {j k : Nat} (h : j ≤ k) {e : Ev} (he : e ∈ (x.st j).trace) :
    e ∈ (x.st k).trace := by
  obtain ⟨n, rfl⟩ : ∃ n, k = j + n := ⟨k - j, by omega⟩
  obtain ⟨t, ht⟩ := x.trace_mono j n
  rw [ht]; exact List.mem_append_left _ he

theorem Served.dispatch {x : Exec} {k : Nat} (h : Served x k) :
    ∃ j, k < j ∧ x.lbl j = .w ∧ (x.st j).wpc = .toDispatch ∧ Ev.dispatch ∈ (x.st (j + 1)).trace := by
  obtain ⟨i, j, h1, h2, _, h4⟩ := h
  have := (dispatchAt_iff x j).1 h4
  refine ⟨j, by omega, this.1, this.2, ?_⟩
  have h4' : (x.st (j + 1)).trace = (x.st j).trace ++ [Ev.dispatch] := h4
  rw [h4']; simp

/-- least witness at or after `k` -/
theorem exists_least (p : Nat → Prop) : ∀ n k, p (k + n) → ∃ j, k ≤ j ∧ p j ∧ ∀ i, k ≤ i → i < j → ¬ p i := by
  intro n
  induction n with
  | zero => intro k h; exact ⟨k, Nat.le_refl _, h, fun i h1 h2 => by omega⟩
  | succ n ih =>
    intro k h
    by_cases hk : p k
    · exact ⟨k, Nat.le_refl _, hk, fun i h1 h2 => by omega⟩
    · obtain ⟨j, h1, h2, h3⟩ := ih (k + 1) (by rw [Nat.add_assoc, Nat.add_comm 1 n]; exact h)
      refine ⟨j, by omega, h2, ?_⟩
      intro i hi hij
      by_cases hik : i = k
      · subst hik; exact hk
      · exact h3 i (by omega) hij

/-! ## 2. the worker never exits (safety) -/

/-- **`worker_never_exits`**, finite runs: with `fix-c12-stale-eagain` the worker thread has not ended in any reachable
state. -/
theorem worker_never_exits_run (cfg : Cfg) (hE : cfg.fixEagain = true) (s : St) (h : Reach cfg s) :
    s.wpc ≠ .dead ∧ Ev.workerExit ∉ s.trace := by
  refine ⟨?_, (no_lost_wakeup_repaired_exit cfg hE s h)⟩
  obtain ⟨ls, hls⟩ := h
  have key : ∀ (ls : List Lbl) (s0 s : St), s0.cfg = cfg → s0.wpc ≠ .dead → run s0 ls = some s → s.wpc ≠ .dead := by
    intro ls
    induction ls with
    | nil => intro s0 s _ ha hr; simp only [run, Option.some.injEq] at hr; subst hr; exact ha
    | cons l ls ih =>
      intro s0 s hc ha hr
      simp only [run] at hr
      cases hst : step s0 l with
      | none => simp [hst] at hr
      | some s1 =>
        simp only [hst] at hr
        exact ih s1 s ((step_cfg hst).trans hc) (alive_step (by rw [hc]; exact hE) ha hst) hr
  exact key ls (init cfg) s rfl (by simp [init]) hls
where
  no_lost_wakeup_repaired_exit (cfg : Cfg) (hE : cfg.fixEagain = true) (s : St) (h : Reach cfg s) :
      Ev.workerExit ∉ s.trace := by
    intro hm
    have := (reach_inv h).2.exit hm
    rw [hE] at this; cases this

/-- **`worker_never_exits`**: along every execution of a configuration with `fix-c12-stale-eagain` (no fairness
needed) the worker thread is alive at every position — its step is enabled, and its exit is not in the history. -/
theorem worker_never_exits (cfg : Cfg) (hE : cfg.fixEagain = true) (x : Exec) (h0 : x.st 0 = init cfg) (k : Nat) :
    (x.st k).wpc ≠ .dead ∧ WorkerEnabled (x.st k) ∧ Ev.workerExit ∉ (x.st k).trace := by
  have := worker_never_exits_run cfg hE (x.st k) (x.reach cfg h0 k)
  exact ⟨this.1, (workerEnabled_iff _).2 this.1, this.2⟩

/-- the hypothesis is needed: the pinned worker does end (`Props.C12.stale_event_reads_new_fd_counterexample`) -/
example : (run (init Cfg.pinned) schedStale).map (fun s => s.wpc) = some .dead := by decide

/-- while the worker lives, weak fairness is "the worker steps infinitely often" (and so is strong fairness) -/
theorem weakFair_iff_infinitely_often (x : Exec) (ha : ∀ k, (x.st k).wpc ≠ .dead) :
    WeakFair x ↔ ∀ k, ∃ j, k ≤ j ∧ x.lbl j = .w :=
  ⟨fun hf k => hf k (fun j _ => (workerEnabled_iff _).2 (ha j)), fun h k _ => h k⟩

/-! ## 1. a pending kick on an active ring is served -/

/-- after a granted read the next worker step is the handler entry, and fairness provides it — any configuration -/
theorem granted_dispatched (x : Exec) (hf : WeakFair x) (i : Nat) (hc : ConsumedAt x i) : ∃ j, i < j ∧ DispatchAt x j := by
  have hw0 : (x.st (i + 1)).wpc = .toDispatch := (emits_consumed_imp (x.ok i) hc).2.2.2
  by_cases hex : ∃ j, i < j ∧ DispatchAt x j
  · exact hex
  · exfalso
    have hall : ∀ n, (x.st (i + 1 + n)).wpc = .toDispatch := by
      intro n
      induction n with
      | zero => exact hw0
      | succ n ih =>
        by_cases hl : x.lbl (i + 1 + n) = .w
        · exact absurd ⟨i + 1 + n, by omega, (dispatchAt_iff x _).2 ⟨hl, ih⟩⟩ hex
        · rw [← Nat.add_assoc, (other_frame (x.ok (i + 1 + n)) hl).1]; exact ih
    have hen : ∀ j, i + 1 ≤ j → WorkerEnabled (x.st j) := by
      intro j hj
      obtain ⟨n, rfl⟩ : ∃ n, j = i + 1 + n := ⟨j - (i + 1), by omega⟩
      exact (workerEnabled_iff _).2 (by rw [hall n]; simp)
    obtain ⟨j, hj, hl⟩ := hf (i + 1) hen
    obtain ⟨n, rfl⟩ : ∃ n, j = i + 1 + n := ⟨j - (i + 1), by omega⟩
    exact hex ⟨i + 1 + n, by omega, (dispatchAt_iff x _).2 ⟨hl, hall n⟩⟩

/-- the ranking argument: on a ring that stays active, a pending kick is read (with a grant) — any configuration -/
theorem pending_read (x : Exec) (hf : WeakFair x)
    (hn : ∀ k d, (x.st k).kick = some d → d < (x.st k).next)
    (d : Evt) (k0 : Nat) (halive : (x.st k0).wpc ≠ .dead) (hpend : 0 < (x.st k0).cnt d)
    (hact : ∀ j, k0 ≤ j → Active d (x.st j)) : ∃ i, k0 ≤ i ∧ ConsumedAt x i := by
  by_cases hex : ∃ i, k0 ≤ i ∧ ConsumedAt x i
  · exact hex
  · exfalso
    -- one step, as long as nothing has been read
    have stepfact : ∀ j, k0 ≤ j → 0 < (x.st j).cnt d → (x.st j).wpc ≠ .dead →
        (0 < (x.st (j + 1)).cnt d ∧ (x.st (j + 1)).wpc ≠ .dead) ∧
        rank (x.st (j + 1)).wpc ≤ rank (x.st j).wpc ∧
        (x.lbl j = .w → rank (x.st (j + 1)).wpc < rank (x.st j).wpc) := by
      intro j hj hc ha
      have hok := x.ok j
      by_cases hl : x.lbl j = .w
      · rw [hl] at hok
        rcases w_progress (hn j d (hact j hj).2.2.1) (hact j hj) hc hok with h | ⟨h1, h2, h3⟩
        · exact absurd ⟨j, hj, h⟩ hex
        · exact ⟨⟨by rw [h2]; exact hc, h3⟩, Nat.le_of_lt h1, fun _ => h1⟩
      · obtain ⟨h1, h2⟩ := other_frame hok hl
        exact ⟨⟨Nat.lt_of_lt_of_le hc (h2 d), by rw [h1]; exact ha⟩, by rw [h1]; exact Nat.le_refl _,
          fun h => absurd h hl⟩
    have hP : ∀ n, 0 < (x.st (k0 + n)).cnt d ∧ (x.st (k0 + n)).wpc ≠ .dead := by
      intro n
      induction n with
      | zero => exact ⟨hpend, halive⟩
      | succ n ih => exact (stepfact (k0 + n) (by omega) ih.1 ih.2).1
    have hP' : ∀ j, k0 ≤ j → 0 < (x.st j).cnt d ∧ (x.st j).wpc ≠ .dead := by
      intro j hj
      obtain ⟨n, rfl⟩ : ∃ n, j = k0 + n := ⟨j - k0, by omega⟩
      exact hP n
    have hmono : ∀ j, k0 ≤ j → ∀ n, rank (x.st (j + n)).wpc ≤ rank (x.st j).wpc := by
      intro j hj n
      induction n with
      | zero => exact Nat.le_refl _
      | succ n ih =>
        have := (stepfact (j + n) (by omega) (hP' _ (by omega)).1 (hP' _ (by omega)).2).2.1
        exact Nat.le_trans this ih
    have hen : ∀ j, k0 ≤ j → WorkerEnabled (x.st j) := fun j hj => (workerEnabled_iff _).2 (hP' j hj).2
    have key : ∀ n j, k0 ≤ j → rank (x.st j).wpc ≤ n → False := by
      intro n
      induction n with
      | zero =>
        intro j hj hr
        have := rank_pos (hP' j hj).2
        omega
      | succ n ih =>
        intro j hj hr
        obtain ⟨j', hj', hl⟩ := hf j (fun i hi => hen i (by omega))
        obtain ⟨m, rfl⟩ : ∃ m, j' = j + m := ⟨j' - j, by omega⟩
        have h1 := hmono j hj m
        have h2 := (stepfact (j + m) (by omega) (hP' _ (by omega)).1 (hP' _ (by omega)).2).2.2 hl
        exact ih (j + m + 1) (by omega) (by omega)
    exact key _ k0 (Nat.le_refl _) (Nat.le_refl _)

/-- **Core of 1, every configuration** (pinned included), every execution (whatever its first state, as long as the
current kick descriptor is one that has been allocated): if the worker is alive, a kick is pending on `d` and the ring is
`Active d` from `k0` on, then under weak fairness for the worker the kick is read and the handler entered. -/
theorem kick_served_of_active (x : Exec) (hf : WeakFair x)
    (hn : ∀ k d, (x.st k).kick = some d → d < (x.st k).next)
    (d : Evt) (k0 : Nat) (halive : (x.st k0).wpc ≠ .dead) (hpend : 0 < (x.st k0).cnt d)
    (hact : ∀ j, k0 ≤ j → Active d (x.st j)) : Served x k0 := by
  obtain ⟨i, hi, hc⟩ := pending_read x hf hn d k0 halive hpend hact
  obtain ⟨j, hj, hd⟩ := granted_dispatched x hf i hc
  exact ⟨i, j, hi, hj, hc, hd⟩

/-- retention along an execution (`fix-c12-lost-kick`): a counter that is positive at `k1` is positive at every later
position up to the first granted read -/
theorem retained (cfg : Cfg) (hL : cfg.fixLost = true) (x : Exec) (h0 : x.st 0 = init cfg) (d : Evt) (k1 : Nat)
    (hpend : 0 < (x.st k1).cnt d) (n : Nat) :
    0 < (x.st (k1 + n)).cnt d ∨ ∃ i, k1 ≤ i ∧ i < k1 + n ∧ ConsumedAt x i := by
  induction n with
  | zero => exact Or.inl hpend
  | succ n ih =>
    rcases ih with h | ⟨i, h1, h2, h3⟩
    · rcases retained_step (by rw [x.cfg_eq cfg h0]; exact hL) h (x.ok (k1 + n)) with h' | h'
      · exact Or.inl h'
      · exact Or.inr ⟨k1 + n, by omega, by omega, h'⟩
    · exact Or.inr ⟨i, h1, by omega, h3⟩

/-- **1. `kick_eventually_dispatched`.**  Configuration with `fix-c12-lost-kick` and `fix-c12-stale-eagain` (in
particular `Cfg.repaired`); every infinite execution from `init cfg` that is weakly fair to the worker.  If a kick is
pending on descriptor `d` at position `k1` and from some position `k0 ≥ k1` on the ring stays started and enabled with
`d` its registered kick descriptor, then at or after `k1` the counter is read with a grant and later the handler is
entered.  No hypothesis on the control thread or the guest. -/
theorem kick_eventually_dispatched (cfg : Cfg) (hL : cfg.fixLost = true) (hE : cfg.fixEagain = true)
    (x : Exec) (h0 : x.st 0 = init cfg) (hf : WeakFair x) (d : Evt) (k1 k0 : Nat) (hk : k1 ≤ k0)
    (hpend : 0 < (x.st k1).cnt d) (hact : ∀ j, k0 ≤ j → Active d (x.st j)) : Served x k1 := by
  obtain ⟨n, rfl⟩ : ∃ n, k0 = k1 + n := ⟨k0 - k1, by omega⟩
  rcases retained cfg hL x h0 d k1 hpend n with h | ⟨i, h1, _, h3⟩
  · exact (kick_served_of_active x hf (x.kick_lt_next cfg h0) d (k1 + n) (worker_never_exits cfg hE x h0 _).1 h
      hact).mono hk
  · obtain ⟨j, hj, hd⟩ := granted_dispatched x hf i h3
    exact ⟨i, j, h1, hj, h3, hd⟩

/-- 1, for the repaired configuration, in terms of labels: a later step of the execution is the worker's step from
`worker.dispatch`, and it puts `dispatch` into the history -/
theorem kick_eventually_dispatched_repaired (x : Exec) (h0 : x.st 0 = init Cfg.repaired) (hf : WeakFair x) (d : Evt)
    (k1 k0 : Nat) (hk : k1 ≤ k0) (hpend : 0 < (x.st k1).cnt d) (hact : ∀ j, k0 ≤ j → Active d (x.st j)) :
    ∃ j, k1 < j ∧ x.lbl j = .w ∧ (x.st j).wpc = .toDispatch ∧ Ev.dispatch ∈ (x.st (j + 1)).trace :=
  (kick_eventually_dispatched Cfg.repaired rfl rfl x h0 hf d k1 k0 hk hpend hact).dispatch

/-! ### finitely many control messages -/

/-- segments the control thread can still take without a new message -/
def cRemain (s : St) : Nat :=
  match s.cpc with
  | .idle => 0
  | .inMsg _ stage => 4 - stage

theorem cRemain_c {s s' : St} (h : step s .c = some s') : cRemain s' < cRemain s := by
  simp only [step, cStep] at h
  cases hc : s.cpc with
  | idle => simp [hc] at h
  | inMsg m k =>
    simp only [hc] at h
    split at h <;> cases h <;> simp [cRemain, hc, noteDisable, noteStop, reply, emit] <;> (try split) <;> omega

theorem cRemain_other {s s' : St} {l : Lbl} (h : step s l = some s') (h1 : l ≠ .c) (h2 : ∀ m, l ≠ .send m) :
    cRemain s' = cRemain s := by
  cases l with
  | c => exact absurd rfl h1
  | send m => exact absurd rfl (h2 m)
  | w => simp only [cRemain, (w_frame h).2.2.2.2.2.2]
  | kick d => simp only [cRemain, (kick_frame h).2.2.2.2.2.2.1]

/-- if no control message arrives from `k` on, the control thread takes only finitely many (at most 4) more segments -/
theorem control_quiet (x : Exec) (k : Nat) (hs : ∀ j, k ≤ j → ∀ m, x.lbl j ≠ .send m) :
    ∃ k', k ≤ k' ∧ ∀ j, k' ≤ j → x.lbl j ≠ .c := by
  have hle : ∀ j, k ≤ j → cRemain (x.st (j + 1)) ≤ cRemain (x.st j) := by
    intro j hj
    by_cases hc : x.lbl j = .c
    · have := x.ok j; rw [hc] at this; exact Nat.le_of_lt (cRemain_c this)
    · exact Nat.le_of_eq (cRemain_other (x.ok j) hc (hs j hj))
  have hmono : ∀ j, k ≤ j → ∀ n, cRemain (x.st (j + n)) ≤ cRemain (x.st j) := by
    intro j hj n
    induction n with
    | zero => exact Nat.le_refl _
    | succ n ih => exact Nat.le_trans (hle (j + n) (by omega)) ih
  have key : ∀ n j, k ≤ j → cRemain (x.st j) ≤ n → ∃ k', j ≤ k' ∧ ∀ i, k' ≤ i → x.lbl i ≠ .c := by
    intro n
    induction n with
    | zero =>
      intro j hj hr
      refine ⟨j, Nat.le_refl _, ?_⟩
      intro i hi hc
      obtain ⟨m, rfl⟩ : ∃ m, i = j + m := ⟨i - j, by omega⟩
      have h1 := hmono j hj m
      have h2 := x.ok (j + m); rw [hc] at h2
      have := cRemain_c h2
      omega
    | succ n ih =>
      intro j hj hr
      by_cases hex : ∃ i, j ≤ i ∧ x.lbl i = .c
      · obtain ⟨i, hi, hc⟩ := hex
        obtain ⟨m, rfl⟩ : ∃ m, i = j + m := ⟨i - j, by omega⟩
        have h1 := hmono j hj m
        have h2 := x.ok (j + m); rw [hc] at h2
        have h3 := cRemain_c h2
        obtain ⟨k', hk', hq⟩ := ih (j + m + 1) (by omega) (by omega)
        exact ⟨k', by omega, hq⟩
      · exact ⟨j, Nat.le_refl _, fun i hi hc => hex ⟨i, hi, hc⟩⟩
  obtain ⟨k', h1, h2⟩ := key _ k (Nat.le_refl _) (Nat.le_refl _)
  exact ⟨k', h1, h2⟩

/-- without control activity an active ring stays active -/
theorem active_stable (x : Exec) (d : Evt) (k : Nat) (hs : ∀ j, k ≤ j → ∀ m, x.lbl j ≠ .send m)
    (hc : ∀ j, k ≤ j → x.lbl j ≠ .c) (ha : Active d (x.st k)) : ∀ j, k ≤ j → Active d (x.st j) := by
  intro j hj
  obtain ⟨n, rfl⟩ : ∃ n, j = k + n := ⟨j - k, by omega⟩
  induction n with
  | zero => exact ha
  | succ n ih =>
    have hok := x.ok (k + n)
    cases hl : x.lbl (k + n) with
    | c => exact absurd hl (hc _ (by omega))
    | send m => exact absurd hl (hs _ (by omega) m)
    | w => rw [hl] at hok; exact active_w (ih (by omega)) hok
    | kick e => rw [hl] at hok; exact active_kick (ih (by omega)) hok

/-- **1, finite control traffic.**  If no control message arrives from `k0` on (the control thread performs finitely
many messages), it is enough that the ring is active *infinitely often*: the ring state is eventually constant. -/
theorem kick_eventually_dispatched_finite_control (cfg : Cfg) (hL : cfg.fixLost = true) (hE : cfg.fixEagain = true)
    (x : Exec) (h0 : x.st 0 = init cfg) (hf : WeakFair x) (d : Evt) (k1 k0 : Nat) (hk : k1 ≤ k0)
    (hpend : 0 < (x.st k1).cnt d) (hs : ∀ j, k0 ≤ j → ∀ m, x.lbl j ≠ .send m)
    (hact : ∀ j, ∃ j', j ≤ j' ∧ Active d (x.st j')) : Served x k1 := by
  obtain ⟨k', hk', hq⟩ := control_quiet x k0 hs
  obtain ⟨j', hj', ha⟩ := hact k'
  exact kick_eventually_dispatched cfg hL hE x h0 hf d k1 j' (by omega) hpend
    (active_stable x d j' (fun j hj => hs j (by omega)) (fun j hj => hq j (by omega)) ha)

/-! ## 3. a kick that arrives while the ring is not active is retained, and delivered once it is -/

/-- **3. `retained_kick_delivered_after_enable`.**  `fix-c12-lost-kick` + `fix-c12-stale-eagain`, fair execution from
`init cfg`, a guest kick on `d` at position `k1` — in whatever state the ring is (disabled, stopped, in the middle of a
message).  (a) The kick is retained: at every later position the counter of `d` is positive unless a *granted* read
happened since the kick, and the history never contains a read without a handler call.  (b) If the reply of an activating
message (SET_VRING_ENABLE 1, or SET_VRING_KICK with a descriptor) is sent at `k2 ≥ k1` and the ring is `Active d` from then
on, the kick is served after `k1`. -/
theorem retained_kick_delivered_after_enable (cfg : Cfg) (hL : cfg.fixLost = true) (hE : cfg.fixEagain = true)
    (x : Exec) (h0 : x.st 0 = init cfg) (hf : WeakFair x) (d : Evt) (k1 : Nat) (hkick : x.lbl k1 = .kick d) :
    (∀ j, k1 < j → 0 < (x.st j).cnt d ∨ ∃ i, k1 < i ∧ i < j ∧ ConsumedAt x i) ∧
    (∀ j, Ev.consumed false ∉ (x.st j).trace) ∧
    (∀ k2 m, k1 ≤ k2 → m.activates = true → EmitsAt x k2 (.reply m) → (∀ j, k2 < j → Active d (x.st j)) →
      Served x (k1 + 1)) := by
  have hok := x.ok k1
  rw [hkick] at hok
  have hp : 0 < (x.st (k1 + 1)).cnt d := (kick_frame hok).2.2.2.2.2.2.2.2.2.1
  refine ⟨?_, ?_, ?_⟩
  · intro j hj
    obtain ⟨n, rfl⟩ : ∃ n, j = k1 + 1 + n := ⟨j - (k1 + 1), by omega⟩
    rcases retained cfg hL x h0 d (k1 + 1) hp n with h | ⟨i, h1, h2, h3⟩
    · exact Or.inl h
    · exact Or.inr ⟨i, by omega, h2, h3⟩
  · intro j
    exact (no_lost_wakeup_repaired cfg hL hE (x.st j) (x.reach cfg h0 j)).1
  · intro k2 m hk2 _ _ hact
    exact kick_eventually_dispatched cfg hL hE x h0 hf d (k1 + 1) (k2 + 1) (by omega) hp (fun j hj => hact j (by omega))

/-- **3, with the activity derived instead of assumed.**  A guest kick on `d` at `k1`; the reply of SET_VRING_ENABLE(1) is
sent at `k2 ≥ k1`; at that moment the ring is started on descriptor `d`; no control message arrives afterwards.  Then the
ring is `Active d` for ever after the reply (`Lemmas.WorkerLive.active_after_enable_reply`) and the kick is served. -/
theorem retained_kick_delivered_after_enable_quiet (cfg : Cfg) (hL : cfg.fixLost = true) (hE : cfg.fixEagain = true)
    (x : Exec) (h0 : x.st 0 = init cfg) (hf : WeakFair x) (d : Evt) (k1 k2 : Nat) (hk : k1 ≤ k2)
    (hkick : x.lbl k1 = .kick d) (hreply : EmitsAt x k2 (.reply .enable))
    (hready : (x.st (k2 + 1)).ready = true) (hdesc : (x.st (k2 + 1)).kick = some d)
    (hs : ∀ j, k2 < j → ∀ m, x.lbl j ≠ .send m) : Served x (k1 + 1) := by
  -- the step at `k2` is a control segment
  have hlc : x.lbl k2 = .c := by
    have hok := x.ok k2
    have ht : (x.st (k2 + 1)).trace = (x.st k2).trace ++ [Ev.reply .enable] := hreply
    cases hl : x.lbl k2 with
    | c => rfl
    | kick e => rw [hl] at hok; have := (kick_frame hok).2.2.2.2.2.2.2.2.2.2; rw [this] at ht; simp at ht
    | send m => rw [hl] at hok; have := (send_frame hok).2.2.2.2.2.2.2.2.2.2; rw [this] at ht; simp at ht
    | w =>
      rw [hl] at hok
      rcases (step_trace hok).2 with ⟨h, _⟩ | ⟨e, h, _, h1, h2, h3⟩
      · rw [h] at ht; exact absurd ht (append_singleton_ne_self _ _)
      · exfalso
        rw [h] at ht
        have he : e = Ev.reply .enable := by simpa using ht
        subst he
        -- a worker step appends only `consumed _`, `dispatch` or `workerExit`
        simp only [step, wStep] at hok
        cases hw : (x.st k2).wpc <;> simp only [hw] at hok
        · simp only [Option.some.injEq] at hok; rw [← hok] at h; split at h <;> exact append_singleton_ne_self _ _ h
        · simp only [Option.some.injEq] at hok; rw [← hok] at h; split at h <;> exact append_singleton_ne_self _ _ h
        · (repeat' split at hok) <;> simp only [Option.some.injEq] at hok <;> rw [← hok] at h <;>
            first
              | exact append_singleton_ne_self _ _ h
              | (simp [emit] at h)
        · simp only [Option.some.injEq] at hok; rw [← hok] at h; simp [emit] at h
        · cases hok
  have hok := x.ok k2
  rw [hlc] at hok
  obtain ⟨hidle, _, hact⟩ := active_after_enable_reply (x.inv cfg h0 k2).2.2 hok hreply
  have ha : Active d (x.st (k2 + 1)) := hact hready d hdesc
  -- idle for ever: no control segment is enabled
  have hidle' : ∀ n, (x.st (k2 + 1 + n)).cpc = .idle := by
    intro n
    induction n with
    | zero => exact hidle
    | succ n ih =>
      have hok' := x.ok (k2 + 1 + n)
      cases hl : x.lbl (k2 + 1 + n) with
      | send m => exact absurd hl (hs _ (by omega) m)
      | c => rw [hl] at hok'; simp [step, cStep, ih] at hok'
      | w => rw [hl] at hok'; rw [← Nat.add_assoc, (w_frame hok').2.2.2.2.2.2]; exact ih
      | kick e => rw [hl] at hok'; rw [← Nat.add_assoc, (kick_frame hok').2.2.2.2.2.2.1]; exact ih
  have hq : ∀ j, k2 + 1 ≤ j → x.lbl j ≠ .c := by
    intro j hj hc
    obtain ⟨n, rfl⟩ : ∃ n, j = k2 + 1 + n := ⟨j - (k2 + 1), by omega⟩
    have hok' := x.ok (k2 + 1 + n)
    rw [hc] at hok'
    simp [step, cStep, hidle' n] at hok'
  have hstable := active_stable x d (k2 + 1) (fun j hj => hs j (by omega)) hq ha
  exact (retained_kick_delivered_after_enable cfg hL hE x h0 hf d k1 hkick).2.2 k2 .enable hk rfl hreply
    (fun j hj => hstable j (by omega))

/-! ## constructing executions -/

/-- prepend one step -/
def Exec.cons (s : St) (l : Lbl) (x : Exec) (h : step s l = some (x.st 0)) : Exec where
  st := fun k => match k with | 0 => s | k + 1 => x.st k
  lbl := fun k => match k with | 0 => l | k + 1 => x.lbl k
  ok := by
    intro k
    cases k with
    | zero => exact h
    | succ k => exact x.ok k

/-- one label for ever, on a state it leaves unchanged -/
def Exec.const (s : St) (l : Lbl) (h : step s l = some s) : Exec := ⟨fun _ => s, fun _ => l, fun _ => h⟩

theorem exists_prepend (ls : List Lbl) : ∀ (s0 : St) (x : Exec), run s0 ls = some (x.st 0) →
    ∃ y : Exec, y.st 0 = s0 ∧ (∀ k, y.st (ls.length + k) = x.st k) ∧ (∀ k, y.lbl (ls.length + k) = x.lbl k) ∧
      (∀ i, i < ls.length → some (y.lbl i) = ls[i]?) := by
  induction ls with
  | nil =>
    intro s0 x h
    simp only [run, Option.some.injEq] at h
    exact ⟨x, h.symm, by simp, by simp, by simp⟩
  | cons l ls ih =>
    intro s0 x h
    simp only [run] at h
    cases hst : step s0 l with
    | none => simp [hst] at h
    | some s1 =>
      simp only [hst] at h
      obtain ⟨y, h1, h2, h3, h4⟩ := ih s1 x h
      refine ⟨Exec.cons s0 l y (by rw [h1]; exact hst), rfl, ?_, ?_, ?_⟩
      · intro k
        have : (l :: ls).length + k = (ls.length + k) + 1 := by simp; omega
        rw [this]; exact h2 k
      · intro k
        have : (l :: ls).length + k = (ls.length + k) + 1 := by simp; omega
        rw [this]; exact h3 k
      · intro i hi
        cases i with
        | zero => simp [Exec.cons]
        | succ i =>
          have := h4 i (by simpa using hi)
          simpa [Exec.cons] using this

theorem pre_eq_take (y : Exec) (ls : List Lbl) (h : ∀ i, i < ls.length → some (y.lbl i) = ls[i]?) (i : Nat)
    (hi : i ≤ ls.length) : y.pre i = ls.take i := by
  apply List.ext_getElem?
  intro n
  simp only [Exec.pre, List.getElem?_map, List.getElem?_take]
  by_cases hn : n < i
  · simp only [hn, if_true]
    have := h n (by omega)
    rw [← this]; simp [hn]
  · simp [hn]

/-- a finite schedule followed by one label for ever -/
theorem exists_lasso (s0 : St) (ls : List Lbl) (sF : St) (l : Lbl) (hr : run s0 ls = some sF)
    (hl : step sF l = some sF) :
    ∃ y : Exec, y.st 0 = s0 ∧ (∀ j, ls.length ≤ j → y.st j = sF ∧ y.lbl j = l) ∧
      (∀ i, i < ls.length → some (y.lbl i) = ls[i]?) ∧
      (∀ i, i ≤ ls.length → run s0 (ls.take i) = some (y.st i)) := by
  obtain ⟨y, h1, h2, h3, h4⟩ := exists_prepend ls s0 (Exec.const sF l hl) hr
  refine ⟨y, h1, ?_, h4, ?_⟩
  · intro j hj
    obtain ⟨n, rfl⟩ : ∃ n, j = ls.length + n := ⟨j - ls.length, by omega⟩
    exact ⟨h2 n, h3 n⟩
  · intro i hi
    rw [← pre_eq_take y ls h4 i hi, ← h1]
    exact y.run_pre i

/-! ## 4a. without fairness for the worker -/

/-- one more guest kick on descriptor 0 -/
def kickSt (s : St) : St := emit { s with cnt := upd s.cnt 0 (s.cnt 0 + 1) } (.kick 0)

def unfairSt : Nat → St
  | 0 => init Cfg.repaired
  | k + 1 => kickSt (unfairSt k)

/-- the guest kicks for ever and the worker is never scheduled -/
def unfairExec : Exec := ⟨unfairSt, fun _ => .kick 0, fun _ => rfl⟩

/-- **4a.**  Without fairness for the worker the conclusion of 1 fails, in the repaired configuration, with every other
hypothesis in force: a kick is pending from position 1 on, the ring is `Active 0` at every position, the worker's step is
enabled at every position — and never taken; the handler is never entered. -/
theorem unfair_counterexample :
    unfairExec.st 0 = init Cfg.repaired ∧
    (∀ k, 0 < (unfairExec.st (k + 1)).cnt 0) ∧ (∀ k, Active 0 (unfairExec.st k)) ∧
    (∀ k, WorkerEnabled (unfairExec.st k)) ∧ (∀ k, unfairExec.lbl k ≠ .w) ∧
    ¬ WeakFair unfairExec ∧
    (∀ j, ¬ DispatchAt unfairExec j) ∧ (∀ k, ¬ Served unfairExec k) := by
  have hfr : ∀ k, Active 0 (unfairSt k) ∧ (unfairSt k).wpc = .wait := by
    intro k
    induction k with
    | zero => simp [unfairSt, Active, init]
    | succ k ih => simpa [unfairSt, kickSt, emit, Active] using ih
  have hen : ∀ k, WorkerEnabled (unfairExec.st k) := fun k => (workerEnabled_iff _).2 (by
    show (unfairSt k).wpc ≠ .dead
    rw [(hfr k).2]; simp)
  have hnd : ∀ j, ¬ DispatchAt unfairExec j := fun j h => by
    have := ((dispatchAt_iff _ j).1 h).1
    simp [unfairExec] at this
  refine ⟨rfl, ?_, fun k => (hfr k).1, hen, fun k => by simp [unfairExec], ?_, hnd, ?_⟩
  · intro k; simp [unfairExec, unfairSt, kickSt, emit, upd]
  · intro hf
    obtain ⟨j, _, hj⟩ := hf 0 (fun j _ => hen j)
    simp [unfairExec] at hj
  · rintro k ⟨i, j, _, _, _, hd⟩
    exact hnd j hd

/-! ## 4b. the pinned configuration loses the kick that arrives while the ring is disabled -/

/-- worker woken by a first kick · SET_VRING_ENABLE(0) handled and answered · **a kick arrives (position 6)** · the worker
serves its stale wake-up: ready-check, `read_kick` consumes the counter and only then sees `enabled = false` ·
SET_VRING_ENABLE(1) handled and answered (position 12) -/
def schedRetLost : List Lbl :=
  [.kick 0, .w, .send .disable, .c, .c, .c, .kick 0, .w, .w, .send .enable, .c, .c, .c]

theorem run_map_eq {α : Type} {s t : St} {ls : List Lbl} {f : St → α} {v : α} (hr : run s ls = some t)
    (h : (run s ls).map f = some v) : f t = v := by
  rw [hr] at h; simpa using h

theorem run_no_kick_drained (ls : List Lbl) : ∀ (s s' : St), Drained s → (∀ l, l ∈ ls → ∀ d, l ≠ .kick d) →
    run s ls = some s' → Drained s' ∧ (Ev.dispatch ∈ s'.trace → Ev.dispatch ∈ s.trace) := by
  induction ls with
  | nil => intro s s' hd _ hr; simp only [run, Option.some.injEq] at hr; subst hr; exact ⟨hd, id⟩
  | cons l ls ih =>
    intro s s' hd hl hr
    simp only [run] at hr
    cases hst : step s l with
    | none => simp [hst] at hr
    | some s1 =>
      simp only [hst] at hr
      obtain ⟨h1, h2⟩ := drained_step hd (hl l (by simp)) hst
      obtain ⟨h3, h4⟩ := ih s1 s' h1 (fun l' hl' => hl l' (by simp [hl'])) hr
      exact ⟨h3, fun hm => h2 (h4 hm)⟩

theorem run_cnt_noninc (e : Evt) (ls : List Lbl) : ∀ (s s' : St), (∀ l, l ∈ ls → ∀ d, l = .kick d → d ≠ e) →
    run s ls = some s' → s'.cnt e ≤ s.cnt e := by
  induction ls with
  | nil => intro s s' _ hr; simp only [run, Option.some.injEq] at hr; subst hr; exact Nat.le_refl _
  | cons l ls ih =>
    intro s s' hl hr
    simp only [run] at hr
    cases hst : step s l with
    | none => simp [hst] at hr
    | some s1 =>
      simp only [hst] at hr
      exact Nat.le_trans (ih s1 s' (fun l' hl' => hl l' (by simp [hl'])) hr) (cnt_noninc e hst (hl l (by simp)))

/-- the state of the pinned code after the stale read: every counter is 0, the worker waits, a wake-up has been consumed
without a handler call and the handler has not been entered -/
theorem pinned_lost_state : ∃ s, run (init Cfg.pinned) (schedRetLost.take 9) = some s ∧ Drained s ∧
    s.trace = [.kick 0, .start .disable, .reply .disable, .kick 0, .consumed false] := by
  have hd : (run (init Cfg.pinned) (schedRetLost.take 9)).map (fun s => (s.cnt 0, s.wpc, s.trace)) =
      some (0, .wait, [.kick 0, .start .disable, .reply .disable, .kick 0, .consumed false]) := by decide
  cases hr : run (init Cfg.pinned) (schedRetLost.take 9) with
  | none => rw [hr] at hd; simp at hd
  | some s =>
    have h := run_map_eq hr hd
    simp only [Prod.mk.injEq] at h
    refine ⟨s, rfl, ⟨?_, h.2.1⟩, h.2.2⟩
    intro d
    by_cases hd0 : d = 0
    · subst hd0; exact h.1
    · have := run_cnt_noninc d (schedRetLost.take 9) _ s (by
        intro l hl d' hd'
        subst hd'
        simp [schedRetLost] at hl
        subst hl
        exact fun h => hd0 h.symm) hr
      simpa [init] using this

/-- **4b, every continuation.**  Pinned configuration.  After the prefix (a kick that arrived after the reply of
SET_VRING_ENABLE(0) has been consumed by the stale wake-up) **no** continuation without a new guest kick — whatever the
control thread does (enable, restart, …), however often the worker runs — ever enters the handler: the counters are 0 and
stay 0.  The kick is lost for good; only a *new* kick can cause a handler call. -/
theorem pinned_no_dispatch_without_new_kick :
    ∃ s, run (init Cfg.pinned) (schedRetLost.take 9) = some s ∧ Ev.consumed false ∈ s.trace ∧ Ev.dispatch ∉ s.trace ∧
      ∀ (ls : List Lbl) (s' : St), (∀ l, l ∈ ls → ∀ d, l ≠ .kick d) → run s ls = some s' →
        Ev.dispatch ∉ s'.trace ∧ ∀ d, s'.cnt d = 0 := by
  obtain ⟨s, hr, hd, ht⟩ := pinned_lost_state
  refine ⟨s, hr, by simp [ht], by simp [ht], ?_⟩
  intro ls s' hl hr'
  obtain ⟨h1, h2⟩ := run_no_kick_drained ls s s' hd hl hr'
  exact ⟨fun hm => by have := h2 hm; simp [ht] at this, h1.1⟩

/-- **4b, a fair execution.**  Pinned configuration (`fixLost = false`): statement 3 fails even under fairness.  There
is an execution from `init Cfg.pinned`, weakly fair to the worker (which stays alive and runs for ever), in which a guest
kick arrives at position 6 — after the reply of SET_VRING_ENABLE(0): the ring is disabled and its descriptor unregistered —
is *not* retained (position 9: counter 0, `consumed false` in the history), the reply of SET_VRING_ENABLE(1) is sent at
position 12, the ring is `Active 0` at every later position, and the handler is never entered. -/
theorem pinned_retained_kick_lost : ∃ x : Exec,
    x.st 0 = init Cfg.pinned ∧ WeakFair x ∧ (∀ k, (x.st k).wpc ≠ .dead) ∧ (∀ k, 13 ≤ k → x.lbl k = .w) ∧
    (x.lbl 6 = .kick 0 ∧ (x.st 6).enabled = false ∧ (x.st 6).reg 0 = false ∧
      (x.st 6).trace = [.kick 0, .start .disable, .reply .disable]) ∧
    ((x.st 9).cnt 0 = 0 ∧ Ev.consumed false ∈ (x.st 9).trace) ∧
    EmitsAt x 12 (.reply .enable) ∧ (∀ j, 12 < j → Active 0 (x.st j)) ∧
    (∀ j, Ev.dispatch ∉ (x.st j).trace) ∧ (∀ j, ¬ DispatchAt x j) ∧ (∀ k, ¬ Served x k) := by
  -- the state after the whole prefix
  have hdF : (run (init Cfg.pinned) schedRetLost).map (fun s => (s.wpc, s.ready, s.enabled, s.kick)) =
      some (.wait, true, true, some 0) := by decide
  have hdF' : (run (init Cfg.pinned) schedRetLost).map (fun s => (s.reg 0, s.cnt 0, s.next, s.trace)) =
      some (true, 0, 1,
        [.kick 0, .start .disable, .reply .disable, .kick 0, .consumed false, .start .enable, .reply .enable]) := by
    decide
  cases hrF : run (init Cfg.pinned) schedRetLost with
  | none => rw [hrF] at hdF; simp at hdF
  | some sF =>
    have hF := run_map_eq hrF hdF
    have hF' := run_map_eq hrF hdF'
    simp only [Prod.mk.injEq] at hF hF'
    obtain ⟨hwpc, hready, hen, hkick⟩ := hF
    obtain ⟨hreg, hcnt, hnext, htrace⟩ := hF'
    have hra : readyAny sF = false := by simp [readyAny, hnext, List.range_succ, hcnt]
    have hloop : step sF .w = some sF := by simp [step, wStep, hwpc, hra]
    obtain ⟨x, h0, hconst, hlbl, htake⟩ := exists_lasso (init Cfg.pinned) schedRetLost sF .w hrF hloop
    have hlen : schedRetLost.length = 13 := rfl
    have hnd : ∀ j, Ev.dispatch ∉ (x.st j).trace := by
      intro j hm
      have : Ev.dispatch ∈ (x.st (max j 13)).trace := x.mem_trace_mono (Nat.le_max_left _ _) hm
      rw [(hconst _ (by rw [hlen]; exact Nat.le_max_right _ _)).1, htrace] at this
      simp at this
    have hndisp : ∀ j, ¬ DispatchAt x j := by
      intro j hd
      have hd' : (x.st (j + 1)).trace = (x.st j).trace ++ [Ev.dispatch] := hd
      exact hnd (j + 1) (by rw [hd']; simp)
    have h6 := htake 6 (by rw [hlen]; omega)
    have h9 := htake 9 (by rw [hlen]; omega)
    have h12 := htake 12 (by rw [hlen]; omega)
    have hd6 : (run (init Cfg.pinned) (schedRetLost.take 6)).map (fun s => (s.enabled, s.reg 0, s.trace)) =
        some (false, false, [.kick 0, .start .disable, .reply .disable]) := by decide
    have hd9 : (run (init Cfg.pinned) (schedRetLost.take 9)).map (fun s => (s.cnt 0, s.trace)) =
        some (0, [.kick 0, .start .disable, .reply .disable, .kick 0, .consumed false]) := by decide
    have hd12 : (run (init Cfg.pinned) (schedRetLost.take 12)).map (fun s => s.trace) =
        some [.kick 0, .start .disable, .reply .disable, .kick 0, .consumed false, .start .enable] := by decide
    have e6 := run_map_eq h6 hd6
    have e9 := run_map_eq h9 hd9
    have e12 := run_map_eq h12 hd12
    simp only [Prod.mk.injEq] at e6 e9
    refine ⟨x, h0, ?_, ?_, fun k hk => (hconst k (by rw [hlen]; exact hk)).2, ⟨?_, e6.1, e6.2.1, e6.2.2⟩,
      ⟨e9.1, by rw [e9.2]; simp⟩, ?_, ?_, hnd, hndisp, ?_⟩
    · intro k _
      exact ⟨max k 13, Nat.le_max_left _ _, (hconst _ (by rw [hlen]; exact Nat.le_max_right _ _)).2⟩
    · intro k hdead
      -- a dead worker stays dead, but the final state is alive
      have hstay : ∀ n, (x.st (k + n)).wpc = .dead := by
        intro n
        induction n with
        | zero => exact hdead
        | succ n ih =>
          by_cases hl : x.lbl (k + n) = .w
          · have := x.ok (k + n); rw [hl] at this; simp [step, wStep, ih] at this
          · rw [← Nat.add_assoc, (other_frame (x.ok (k + n)) hl).1]; exact ih
      have := hstay 13
      rw [(hconst (k + 13) (by rw [hlen]; omega)).1, hwpc] at this
      cases this
    · have := hlbl 6 (by rw [hlen]; omega)
      simpa [schedRetLost] using this
    · show (x.st 13).trace = (x.st 12).trace ++ [Ev.reply .enable]
      rw [(hconst 13 (by rw [hlen]; omega)).1, htrace, e12]; rfl
    · intro j hj
      rw [(hconst j (by rw [hlen]; omega)).1]
      exact ⟨hready, hen, hkick, hreg⟩
    · rintro k ⟨i, j, _, _, _, hd⟩
      exact hndisp j hd

/-! ## why persistence: SET_VRING_ENABLE 0 / 1 for ever -/

/-- one period: SET_VRING_ENABLE(0) handled and answered · one worker step · SET_VRING_ENABLE(1) handled and answered -/
def flapLbl (p : Nat) : Lbl :=
  match p with
  | 0 => .send .disable
  | 4 => .w
  | 5 => .send .enable
  | _ => .c

def flapSched (k : Nat) : Lbl := flapLbl (k % 9)

/-- the states of the flapping execution, by position in the period -/
def FlapInv (p : Nat) (s : St) : Prop :=
  (s.wpc = .wait ∧ s.kick = some 0 ∧ s.ready = true ∧ s.next = 1 ∧ 0 < s.cnt 0 ∧ Ev.dispatch ∉ s.trace) ∧
  match p with
  | 0 => s.cpc = .idle ∧ s.enabled = true ∧ s.reg 0 = true
  | 1 => s.cpc = .inMsg .disable 0
  | 2 => s.cpc = .inMsg .disable 1 ∧ s.enabled = false
  | 3 => s.cpc = .inMsg .disable 2 ∧ s.enabled = false ∧ s.reg 0 = false
  | 4 => s.cpc = .idle ∧ s.enabled = false ∧ s.reg 0 = false
  | 5 => s.cpc = .idle
  | 6 => s.cpc = .inMsg .enable 0
  | 7 => s.cpc = .inMsg .enable 1 ∧ s.enabled = true
  | _ => s.cpc = .inMsg .enable 2 ∧ s.enabled = true ∧ s.reg 0 = true

theorem flap_step (p : Nat) (hp : p < 9) (s : St) (h : FlapInv p s) :
    ∃ s', step s (flapLbl p) = some s' ∧ FlapInv ((p + 1) % 9) s' := by
  obtain ⟨⟨h1, h2, h3, h4, h5, h6⟩, hph⟩ := h
  match p, hp with
  | 0, _ =>
    have hc : s.cpc = .idle ∧ s.enabled = true ∧ s.reg 0 = true := hph
    cases hs : step s (flapLbl 0) with
    | none => simp [flapLbl, step, hc.1] at hs
    | some s' =>
      simp only [flapLbl, step, hc.1, Option.some.injEq] at hs
      subst hs
      exact ⟨_, rfl, by simp [FlapInv, emit, h1, h2, h3, h4, h5, h6]⟩
  | 1, _ =>
    have hc : s.cpc = .inMsg .disable 0 := hph
    cases hs : step s (flapLbl 1) with
    | none => simp [flapLbl, step, cStep, hc] at hs
    | some s' =>
      simp only [flapLbl, step, cStep, hc, Option.some.injEq] at hs
      subst hs
      exact ⟨_, rfl, by simp [FlapInv, noteDisable, h1, h2, h3, h4, h5, h6]⟩
  | 2, _ =>
    have hc : s.cpc = .inMsg .disable 1 ∧ s.enabled = false := hph
    cases hs : step s (flapLbl 2) with
    | none => simp [flapLbl, step, cStep, hc.1] at hs
    | some s' =>
      simp only [flapLbl, step, cStep, hc.1, Option.some.injEq] at hs
      subst hs
      exact ⟨_, rfl, by simp [FlapInv, epollUpdate_reg_kick _ 0 h2, h1, h2, h3, h4, h5, h6, hc.2]⟩
  | 3, _ =>
    have hc : s.cpc = .inMsg .disable 2 ∧ s.enabled = false ∧ s.reg 0 = false := hph
    cases hs : step s (flapLbl 3) with
    | none => simp [flapLbl, step, cStep, hc.1] at hs
    | some s' =>
      simp only [flapLbl, step, cStep, hc.1, Option.some.injEq] at hs
      subst hs
      exact ⟨_, rfl, by simp [FlapInv, reply, emit, h1, h2, h3, h4, h5, h6, hc.2.1, hc.2.2]⟩
  | 4, _ =>
    have hc : s.cpc = .idle ∧ s.enabled = false ∧ s.reg 0 = false := hph
    have hra : readyAny s = false := by simp [readyAny, h4, List.range_succ, hc.2.2]
    exact ⟨s, by simp [flapLbl, step, wStep, h1, hra], by simp [FlapInv, h1, h2, h3, h4, h5, h6, hc.1]⟩
  | 5, _ =>
    have hc : s.cpc = .idle := hph
    cases hs : step s (flapLbl 5) with
    | none => simp [flapLbl, step, hc] at hs
    | some s' =>
      simp only [flapLbl, step, hc, Option.some.injEq] at hs
      subst hs
      exact ⟨_, rfl, by simp [FlapInv, emit, h1, h2, h3, h4, h5, h6]⟩
  | 6, _ =>
    have hc : s.cpc = .inMsg .enable 0 := hph
    cases hs : step s (flapLbl 6) with
    | none => simp [flapLbl, step, cStep, hc] at hs
    | some s' =>
      simp only [flapLbl, step, cStep, hc, Option.some.injEq] at hs
      subst hs
      exact ⟨_, rfl, by simp [FlapInv, h1, h2, h3, h4, h5, h6]⟩
  | 7, _ =>
    have hc : s.cpc = .inMsg .enable 1 ∧ s.enabled = true := hph
    cases hs : step s (flapLbl 7) with
    | none => simp [flapLbl, step, cStep, hc.1] at hs
    | some s' =>
      simp only [flapLbl, step, cStep, hc.1, Option.some.injEq] at hs
      subst hs
      exact ⟨_, rfl, by simp [FlapInv, epollUpdate_reg_kick _ 0 h2, h1, h2, h3, h4, h5, h6, hc.2]⟩
  | 8, _ =>
    have hc : s.cpc = .inMsg .enable 2 ∧ s.enabled = true ∧ s.reg 0 = true := hph
    cases hs : step s (flapLbl 8) with
    | none => simp [flapLbl, step, cStep, hc.1] at hs
    | some s' =>
      simp only [flapLbl, step, cStep, hc.1, Option.some.injEq] at hs
      subst hs
      exact ⟨_, rfl, by simp [FlapInv, reply, emit, h1, h2, h3, h4, h5, h6, hc.2.1, hc.2.2]⟩

/-- the states, by iterating `step` along `flapSched` from the initial state with one kick pending -/
def flapSt : Nat → St
  | 0 => kickSt (init Cfg.repaired)
  | k + 1 => (step (flapSt k) (flapSched k)).getD (flapSt k)

theorem flap_inv (k : Nat) : FlapInv (k % 9) (flapSt k) ∧ step (flapSt k) (flapSched k) = some (flapSt (k + 1)) := by
  have hstep : ∀ k, FlapInv (k % 9) (flapSt k) →
      FlapInv ((k + 1) % 9) (flapSt (k + 1)) ∧ step (flapSt k) (flapSched k) = some (flapSt (k + 1)) := by
    intro k hk
    obtain ⟨s', h1, h2⟩ := flap_step (k % 9) (Nat.mod_lt _ (by omega)) _ hk
    have he : flapSt (k + 1) = s' := by
      show (step (flapSt k) (flapSched k)).getD (flapSt k) = s'
      simp [flapSched, h1]
    have hm : (k % 9 + 1) % 9 = (k + 1) % 9 := by omega
    rw [he]
    exact ⟨hm ▸ h2, h1⟩
  have hall : ∀ k, FlapInv (k % 9) (flapSt k) := by
    intro k
    induction k with
    | zero => simp [FlapInv, flapSt, kickSt, init, emit, upd]
    | succ k ih => exact (hstep k ih).1
  exact ⟨hall k, (hstep k (hall k)).2⟩

def flapExec : Exec := Exec.cons (init Cfg.repaired) (.kick 0) ⟨flapSt, flapSched, fun k => (flap_inv k).2⟩ rfl

/-- **Persistence of `Active` cannot be weakened to "infinitely often".**  Repaired configuration.  One guest kick
(position 0), pending for ever; the control thread alternates SET_VRING_ENABLE 0 / SET_VRING_ENABLE 1 for ever, every
message handled to its reply (the control thread is idle infinitely often); the worker steps infinitely often (weakly, and
strongly, fair); the ring is `Active 0` infinitely often — and the handler is never entered: the worker's turn always comes
while the ring is disabled and unregistered, so `epoll.wait` blocks.  Hence some bound on control interference is needed
(here: `Active d` from some position on — or finitely many messages, `kick_eventually_dispatched_finite_control`). -/
theorem flapping_counterexample :
    flapExec.st 0 = init Cfg.repaired ∧ flapExec.lbl 0 = .kick 0 ∧
    WeakFair flapExec ∧ (∀ k, ∃ j, k ≤ j ∧ flapExec.lbl j = .w) ∧
    (∀ k, 0 < (flapExec.st (k + 1)).cnt 0) ∧
    (∀ k, ∃ j, k ≤ j ∧ Active 0 (flapExec.st j)) ∧
    (∀ k, ∃ j, k ≤ j ∧ (flapExec.st j).cpc = .idle) ∧
    (∀ j, Ev.dispatch ∉ (flapExec.st j).trace) ∧ (∀ j, ¬ DispatchAt flapExec j) ∧ (∀ k, ¬ Served flapExec k) := by
  have hw : ∀ k, ∃ j, k ≤ j ∧ flapExec.lbl j = .w := by
    intro k
    refine ⟨(9 * k + 4) + 1, by omega, ?_⟩
    show flapSched (9 * k + 4) = .w
    have : (9 * k + 4) % 9 = 4 := by omega
    simp [flapSched, this, flapLbl]
  have hst : ∀ k, flapExec.st (k + 1) = flapSt k := fun _ => rfl
  have h0 : ∀ k, FlapInv 0 (flapSt (9 * k)) := by
    intro k
    have := (flap_inv (9 * k)).1
    have hm : (9 * k) % 9 = 0 := by omega
    rw [hm] at this; exact this
  have hnd : ∀ j, Ev.dispatch ∉ (flapExec.st j).trace := by
    intro j
    cases j with
    | zero => show Ev.dispatch ∉ (init Cfg.repaired).trace; simp [init]
    | succ j => rw [hst]; exact (flap_inv j).1.1.2.2.2.2.2
  have hndisp : ∀ j, ¬ DispatchAt flapExec j := by
    intro j hd
    have hd' : (flapExec.st (j + 1)).trace = (flapExec.st j).trace ++ [Ev.dispatch] := hd
    exact hnd (j + 1) (by rw [hd']; simp)
  refine ⟨rfl, rfl, fun k _ => hw k, hw, ?_, ?_, ?_, hnd, hndisp, ?_⟩
  · intro k; rw [hst]; exact (flap_inv k).1.1.2.2.2.2.1
  · intro k
    refine ⟨9 * k + 1, by omega, ?_⟩
    rw [hst]
    obtain ⟨⟨_, a2, a3, _⟩, _, b2, b3⟩ := h0 k
    exact ⟨a3, b2, a2, b3⟩
  · intro k
    refine ⟨9 * k + 1, by omega, ?_⟩
    rw [hst]
    exact (h0 k).2.1
  · rintro k ⟨i, j, _, _, _, hd⟩
    exact hndisp j hd

/-! ## the hypotheses are satisfiable -/

/-- SET_VRING_ENABLE(0) answered · **kick (position 4)** · SET_VRING_ENABLE(1) answered (position 8) · the worker runs -/
def schedServed : List Lbl := [.send .disable, .c, .c, .c, .kick 0, .send .enable, .c, .c, .c, .w, .w, .w, .w]

/-- An execution that satisfies the hypotheses of `retained_kick_delivered_after_enable_quiet` (hence, by its proof, those
of `retained_kick_delivered_after_enable` and of `kick_eventually_dispatched` with `k1 = 5`, `k0 = 9`): repaired
configuration, weakly fair, a kick at position 4 while the ring is disabled and unregistered, the reply of
SET_VRING_ENABLE(1) at position 8, the ring started on descriptor 0, no message afterwards; and the history it produces
(the kick is read and the handler entered after the enable). -/
example : ∃ x : Exec, x.st 0 = init Cfg.repaired ∧ WeakFair x ∧
    x.lbl 4 = .kick 0 ∧ (x.st 4).enabled = false ∧ (x.st 4).reg 0 = false ∧
    EmitsAt x 8 (.reply .enable) ∧ (x.st 9).ready = true ∧ (x.st 9).kick = some 0 ∧
    (∀ j, 8 < j → ∀ m, x.lbl j ≠ .send m) ∧
    0 < (x.st 5).cnt 0 ∧ (∀ j, 9 ≤ j → Active 0 (x.st j)) ∧ Served x 5 ∧
    (x.st 13).trace = [.start .disable, .reply .disable, .kick 0, .start .enable, .reply .enable, .consumed true,
      .dispatch] := by
  have hdF : (run (init Cfg.repaired) schedServed).map (fun s => (s.wpc, s.next, s.reg 0, s.cnt 0, s.trace)) =
      some (.wait, 1, true, 0, [.start .disable, .reply .disable, .kick 0, .start .enable, .reply .enable,
        .consumed true, .dispatch]) := by decide
  cases hrF : run (init Cfg.repaired) schedServed with
  | none => rw [hrF] at hdF; simp at hdF
  | some sF =>
    have hF := run_map_eq hrF hdF
    simp only [Prod.mk.injEq] at hF
    obtain ⟨hwpc, hnext, hreg, hcnt, htrace⟩ := hF
    have hra : readyAny sF = false := by simp [readyAny, hnext, List.range_succ, hcnt]
    have hloop : step sF .w = some sF := by simp [step, wStep, hwpc, hra]
    obtain ⟨x, h0, hconst, hlbl, htake⟩ := exists_lasso (init Cfg.repaired) schedServed sF .w hrF hloop
    have hlen : schedServed.length = 13 := rfl
    have hfair : WeakFair x := fun k _ =>
      ⟨max k 13, Nat.le_max_left _ _, (hconst _ (by rw [hlen]; exact Nat.le_max_right _ _)).2⟩
    have hd4 : (run (init Cfg.repaired) (schedServed.take 4)).map (fun s => (s.enabled, s.reg 0)) =
        some (false, false) := by decide
    have hd8 : (run (init Cfg.repaired) (schedServed.take 8)).map (fun s => s.trace) =
        some [.start .disable, .reply .disable, .kick 0, .start .enable] := by decide
    have hd9 : (run (init Cfg.repaired) (schedServed.take 9)).map (fun s => (s.ready, s.kick, s.trace)) =
        some (true, some 0, [.start .disable, .reply .disable, .kick 0, .start .enable, .reply .enable]) := by decide
    have hd9' : (run (init Cfg.repaired) (schedServed.take 9)).map (fun s => (s.enabled, s.reg 0)) =
        some (true, true) := by decide
    have hd5 : (run (init Cfg.repaired) (schedServed.take 5)).map (fun s => s.cnt 0) = some 1 := by decide
    have e5 := run_map_eq (htake 5 (by rw [hlen]; omega)) hd5
    have e9' := run_map_eq (htake 9 (by rw [hlen]; omega)) hd9'
    have e4 := run_map_eq (htake 4 (by rw [hlen]; omega)) hd4
    have e8 := run_map_eq (htake 8 (by rw [hlen]; omega)) hd8
    have e9 := run_map_eq (htake 9 (by rw [hlen]; omega)) hd9
    simp only [Prod.mk.injEq] at e4 e9 e9'
    have hl4 : x.lbl 4 = .kick 0 := by
      have := hlbl 4 (by rw [hlen]; omega)
      simpa [schedServed] using this
    have hreply : EmitsAt x 8 (.reply .enable) := by
      show (x.st 9).trace = (x.st 8).trace ++ [Ev.reply .enable]
      rw [e9.2.2, e8]; rfl
    have hquiet : ∀ j, 8 < j → ∀ m, x.lbl j ≠ .send m := by
      intro j hj m hm
      by_cases h13 : 13 ≤ j
      · rw [(hconst j (by rw [hlen]; exact h13)).2] at hm; cases hm
      · have := hlbl j (by rw [hlen]; omega)
        rw [hm] at this
        have hj' : j = 9 ∨ j = 10 ∨ j = 11 ∨ j = 12 := by omega
        rcases hj' with rfl | rfl | rfl | rfl <;> simp [schedServed] at this
    have hnoc : ∀ j, 9 ≤ j → x.lbl j ≠ .c := by
      intro j hj hm
      by_cases h13 : 13 ≤ j
      · rw [(hconst j (by rw [hlen]; exact h13)).2] at hm; cases hm
      · have := hlbl j (by rw [hlen]; omega)
        rw [hm] at this
        have hj' : j = 9 ∨ j = 10 ∨ j = 11 ∨ j = 12 := by omega
        rcases hj' with rfl | rfl | rfl | rfl <;> simp [schedServed] at this
    have hact : ∀ j, 9 ≤ j → Active 0 (x.st j) :=
      active_stable x 0 9 (fun j hj => hquiet j (by omega)) hnoc ⟨e9.1, e9'.1, e9.2.1, e9'.2⟩
    refine ⟨x, h0, hfair, hl4, e4.1, e4.2, hreply, e9.1, e9.2.1, hquiet, by rw [e5]; decide, hact, ?_, ?_⟩
    · exact retained_kick_delivered_after_enable_quiet Cfg.repaired rfl rfl x h0 hfair 0 4 8 (by omega) hl4 hreply
        e9.1 e9.2.1 hquiet
    · rw [(hconst 13 (by rw [hlen]; omega)).1]; exact htrace

end Props.C12Live
