import VhostModel.Base
import VhostModel.Gen.Codes
import VhostModel.Gen.Validators
import VhostModel.Spec.Valid

/-!
# C20 — message validators accept exactly the protocol-valid encodings

For every message type `X`: `Gen.X.isValid m = true ↔ Spec.validX (fields of m as naturals)`, for
all bit patterns.  `Gen.*` is regenerated from `message.rs` / `gpu_message.rs` on every run.
-/

namespace Props.C20
open Base Gen

/-! ### request-code tables -/

theorem frontend_codes : Codes.FrontendReq.table.map (·.2) = Spec.frontendCodes := by decide
theorem backend_codes : Codes.BackendReq.table.map (·.2) = Spec.backendCodes := by decide
theorem gpu_codes : Codes.GpuBackendReq.table.map (·.2) = Spec.gpuCodes := by decide

theorem codeOkN_iff (codes : List Nat) (v : Nat) : codeOkN codes v = true ↔ v ∈ codes := by
  simp [codeOkN]

theorem codeOk_iff (t : List (String × Nat)) (v : Nat) : codeOk t v = true ↔ v ∈ t.map (·.2) := by
  simp [codeOk, List.any_eq_true]

/-- every `u32`: the header's request code is accepted iff it is a code of the channel -/
theorem header_code_known_iff (v : BitVec 32) :
    codeOkN (Codes.FrontendReq.table.map (·.2)) v.toNat = true ↔ (1 ≤ v.toNat ∧ v.toNat ≤ 44) := by
  rw [codeOkN_iff, frontend_codes]
  simp [Spec.frontendCodes]
  constructor
  · rintro ⟨a, h, e⟩; omega
  · intro h; exact ⟨v.toNat - 1, by omega, by omega⟩

/-! ### headers -/

theorem isValid_header_iff (codes : List Nat) (m : VhostUserMsgHeader) :
    m.isValid codes = true ↔ Spec.validHeader codes m.request.toNat m.flags.toNat m.size.toNat := by
  have hv : (m.flags &&& 0x3#32 = 0x1#32) ↔ m.flags.toNat % 4 = 1 := by
    simpa using lo_eq_iff m.flags 2 1 (by omega) (by omega)
  have hr : (m.flags &&& 0xfffffff0#32 = 0#32) ↔ m.flags.toNat < 16 := by
    simpa using hi_zero_iff m.flags 4
  have hs : ((0x1000#64) < BitVec.setWidth 64 m.size) ↔ 4096 < m.size.toNat := by
    have := m.size.isLt
    simp [BitVec.lt_def]; rw [Nat.mod_eq_of_lt (by omega)]
  simp only [VhostUserMsgHeader.isValid, Spec.validHeader, bne_iff_ne, ne_eq, hv, hr, hs,
    Bool.not_eq_true', decide_eq_true_eq]
  have hc := codeOkN_iff codes m.request.toNat
  cases hcc : codeOkN codes m.request.toNat
  · have : ¬ m.request.toNat ∈ codes := by rw [← hc, hcc]; simp
    simp [this]
  · have : m.request.toNat ∈ codes := hc.1 hcc
    by_cases h2 : 4096 < m.size.toNat <;>
    by_cases h3 : m.flags.toNat % 4 = 1 <;> by_cases h4 : m.flags.toNat < 16 <;>
    simp [this, h2, h3, h4] <;> omega

/-- front-end channel header (the statement's "known request code" = 1..=44) -/
theorem isValid_frontend_header_iff (m : VhostUserMsgHeader) :
    m.isValid (Codes.FrontendReq.table.map (·.2)) = true ↔
      Spec.validHeader Spec.frontendCodes m.request.toNat m.flags.toNat m.size.toNat := by
  rw [isValid_header_iff, frontend_codes]

/-- back-end channel header (codes 1..=10) -/
theorem isValid_backend_header_iff (m : VhostUserMsgHeader) :
    m.isValid (Codes.BackendReq.table.map (·.2)) = true ↔
      Spec.validHeader Spec.backendCodes m.request.toNat m.flags.toNat m.size.toNat := by
  rw [isValid_header_iff, backend_codes]

theorem isValid_gpu_header_iff (m : VhostUserGpuMsgHeader) :
    m.isValid (Codes.GpuBackendReq.table.map (·.2)) = true ↔
      Spec.validGpuHeader m.request.toNat m.flags.toNat := by
  simp only [VhostUserGpuMsgHeader.isValid, Spec.validGpuHeader, Bool.and_eq_true, codeOkN_iff, gpu_codes,
    beq_iff_eq]
  have key : (m.flags &&& ~~~(0x4#32) = 0x0#32) ↔ (m.flags.toNat = 0 ∨ m.flags.toNat = 4) := by
    rw [and_not_eq_zero_iff]
    constructor
    · intro h
      have h3 := congrArg BitVec.toNat h
      rw [BitVec.toNat_and] at h3
      have := nat_and_two_pow_cases m.flags.toNat 2
      simp at h3 this
      omega
    · rintro (h | h)
      · have : m.flags = 0#32 := BitVec.eq_of_toNat_eq (by simpa using h)
        rw [this]; decide
      · have : m.flags = 4#32 := BitVec.eq_of_toNat_eq (by simpa using h)
        rw [this]; decide
  rw [key]

/-! ### bodies -/

theorem isValid_memory_iff (m : VhostUserMemory) :
    m.isValid = true ↔ Spec.validMemory m.num_regions.toNat m.padding1.toNat := by
  simp only [VhostUserMemory.isValid, Spec.validMemory]
  by_cases h1 : m.padding1 = 0#32
  · by_cases h2 : m.num_regions = 0#32
    · simp [h1, h2]
    · have h2' : m.num_regions.toNat ≠ 0 := fun h => h2 (BitVec.eq_of_toNat_eq (by simpa using h))
      simp [h1, h2, BitVec.lt_def]; omega
  · have h1' : m.padding1.toNat ≠ 0 := fun h => h1 (BitVec.eq_of_toNat_eq (by simpa using h))
    simp [h1, h1']

theorem ne_zero_iff {n : Nat} (x : BitVec n) : (x != 0#n) = true ↔ x.toNat ≠ 0 := by
  simp only [bne_iff_ne, ne_eq]
  constructor
  · intro h e; exact h (BitVec.eq_of_toNat_eq (by simpa using e))
  · intro h e; exact h (by simp [e])

theorem eq_zero_iff {n : Nat} (x : BitVec n) : (x == 0#n) = true ↔ x.toNat = 0 := by
  simp only [beq_iff_eq]
  constructor
  · intro e; simp [e]
  · intro e; exact BitVec.eq_of_toNat_eq (by simpa using e)

theorem isValid_region_iff (m : VhostUserMemoryRegion) :
    m.isValid = true ↔
      Spec.validRegion m.guest_phys_addr.toNat m.memory_size.toNat m.user_addr.toNat m.mmap_offset.toNat := by
  simp only [VhostUserMemoryRegion.isValid, Spec.validRegion, Bool.and_eq_true, checkedAdd_isSome_iff,
    ne_zero_iff]
  constructor
  · rintro ⟨⟨⟨a, b⟩, c⟩, d⟩; exact ⟨a, b, c, d⟩
  · rintro ⟨a, b, c, d⟩; exact ⟨⟨⟨a, b⟩, c⟩, d⟩

/-- single-region add/remove messages are held to the same region rules as the memory table -/
theorem isValid_single_iff (m : VhostUserSingleMemoryRegion) :
    m.isValid = true ↔
      Spec.validRegion m.region.guest_phys_addr.toNat m.region.memory_size.toNat m.region.user_addr.toNat
        m.region.mmap_offset.toNat := by
  simp only [VhostUserSingleMemoryRegion.isValid, Bool.and_eq_true, checkedAdd_isSome_iff, ne_zero_iff,
    Spec.validRegion]
  constructor
  · rintro ⟨⟨⟨a, b⟩, c⟩, d⟩; exact ⟨a, b, c, d⟩
  · rintro ⟨a, b, c, d⟩; exact ⟨⟨⟨a, b⟩, c⟩, d⟩

theorem isValid_vring_addr_iff (m : VhostUserVringAddr) :
    m.isValid = true ↔
      Spec.validVringAddr m.flags.toNat m.descriptor.toNat m.used.toNat m.available.toNat := by
  have hf := hi_zero_iff m.flags 1
  have hd := lo_zero_iff m.descriptor 4 (by omega)
  have ha := lo_zero_iff m.available 1 (by omega)
  have hu := lo_zero_iff m.used 2 (by omega)
  have e1 : (0x1#32) = BitVec.ofNat 32 (2^1 - 1) := by decide
  have e2 : (0xf#64) = BitVec.ofNat 64 (2^4 - 1) := by decide
  have e3 : (0x1#64) = BitVec.ofNat 64 (2^1 - 1) := by decide
  have e4 : (0x3#64) = BitVec.ofNat 64 (2^2 - 1) := by decide
  simp only [VhostUserVringAddr.isValid, Spec.validVringAddr, e1, e2, e3, e4, bne_iff_ne, ne_eq, hf, hd, ha, hu,
    ite_not]
  by_cases h1 : m.flags.toNat < 2 ^ 1 <;> by_cases h2 : m.descriptor.toNat % 2 ^ 4 = 0 <;>
    by_cases h3 : m.available.toNat % 2 ^ 1 = 0 <;> by_cases h4 : m.used.toNat % 2 ^ 2 = 0 <;>
    simp [h1, h2, h3, h4] <;> omega

theorem isValid_config_iff (m : VhostUserConfig) :
    m.isValid = true ↔ Spec.validConfig m.offset.toNat m.size.toNat m.flags.toNat := by
  have hf := hi_zero_iff m.flags 2
  have e1 : (0x3#32) = BitVec.ofNat 32 (2^2 - 1) := by decide
  simp only [VhostUserConfig.isValid, Spec.validConfig, e1]
  cases hc : checkedAdd m.size m.offset with
  | none =>
    have := (checkedAdd_eq_none _ _).1 hc
    have := m.size.isLt; have := m.offset.isLt
    simp; omega
  | some addr =>
    obtain ⟨h1, h2⟩ := (checkedAdd_eq_some _ _ _).1 hc
    simp only [bne_iff_ne, ne_eq, hf, ite_not, eq_zero_iff, BitVec.lt_def, Bool.or_eq_true, decide_eq_true_eq]
    by_cases h3 : m.flags.toNat < 2 ^ 2 <;> by_cases h4 : m.size.toNat = 0 <;>
      by_cases h5 : (0x1000#32).toNat < addr.toNat <;> simp [h3, h4, h5] <;> simp at h5 <;> omega

theorem isValid_inflight_iff (m : VhostUserInflight) :
    m.isValid = true ↔ Spec.validInflight m.num_queues.toNat m.queue_size.toNat := by
  simp only [VhostUserInflight.isValid, Spec.validInflight, eq_zero_iff, Bool.or_eq_true]
  by_cases h1 : m.num_queues.toNat = 0 <;> by_cases h2 : m.queue_size.toNat = 0 <;> simp [h1, h2]

theorem isValid_log_iff (m : VhostUserLog) :
    m.isValid = true ↔ Spec.validLog m.mmap_size.toNat m.mmap_offset.toNat := by
  simp only [VhostUserLog.isValid, Spec.validLog, eq_zero_iff, Bool.or_eq_true, checkedAdd_isNone_iff]
  by_cases h1 : m.mmap_size.toNat = 0 <;> by_cases h2 : 2^64 ≤ m.mmap_offset.toNat + m.mmap_size.toNat <;>
    simp [h1, h2] <;> omega

theorem transfer_direction_codes : Codes.VhostTransferStateDirection.table.map (·.2) = [0, 1] := by decide
theorem transfer_phase_codes : Codes.VhostTransferStatePhase.table.map (·.2) = [0] := by decide

theorem isValid_transfer_iff (m : VhostUserTransferDeviceState) :
    m.isValid = true ↔ Spec.validTransfer m.direction.toNat m.phase.toNat := by
  simp only [VhostUserTransferDeviceState.isValid, Spec.validTransfer, Bool.and_eq_true, codeOk_iff,
    transfer_direction_codes, transfer_phase_codes]
  simp; omega

theorem isValid_shared_iff (m : VhostUserSharedMsg) :
    m.isValid = true ↔ Spec.validUuid m.uuid.toNat := by
  simp only [VhostUserSharedMsg.isValid, Spec.validUuid]
  constructor
  · intro h
    simp at h
    refine ⟨fun e => h.1 (BitVec.eq_of_toNat_eq (by simpa using e)), fun e => h.2 (BitVec.eq_of_toNat_eq ?_)⟩
    rw [e]; decide
  · rintro ⟨h1, h2⟩
    simp
    refine ⟨fun e => h1 (by simp [e]), fun e => h2 (by rw [e]; decide)⟩

theorem isValid_mmap_iff (m : VhostUserMMap) :
    m.isValid = true ↔ Spec.validMMap m.fd_offset.toNat m.shm_offset.toNat m.len.toNat m.flags.toNat := by
  have hf := hi_zero_iff m.flags 1
  have e1 : (0x1#64) = BitVec.ofNat 64 (2^1 - 1) := by decide
  simp only [VhostUserMMap.isValid, Spec.validMMap, Bool.and_eq_true, checkedAdd_isSome_iff, ne_zero_iff, e1,
    beq_iff_eq, hf]
  constructor
  · rintro ⟨⟨⟨a, b⟩, c⟩, d⟩; exact ⟨c, a, b, by omega⟩
  · rintro ⟨a, b, c, d⟩; exact ⟨⟨⟨b, c⟩, a⟩, by omega⟩

/-! ### messages without protocol rules keep the default (always valid) -/

theorem u64_always_valid (m : VhostUserU64) : m.isValid = true := rfl
theorem vring_state_always_valid (m : VhostUserVringState) : m.isValid = true := rfl
theorem validator_kinds :
    (validatorKinds.filter (·.2 == "custom")).map (·.1) =
      ["VhostUserMsgHeader", "VhostUserMemory", "VhostUserMemoryRegion", "VhostUserSingleMemoryRegion",
       "VhostUserVringAddr", "VhostUserConfig", "VhostUserInflight", "VhostUserLog", "VhostUserSharedMsg",
       "VhostUserTransferDeviceState", "VhostUserMMap", "VhostUserGpuMsgHeader"] := by decide

/-! ### non-vacuity: each rule accepts something and rejects something -/

example : (⟨1, 1, 0⟩ : VhostUserMsgHeader).isValid (Codes.FrontendReq.table.map (·.2)) = true := by decide
example : (⟨45, 1, 0⟩ : VhostUserMsgHeader).isValid (Codes.FrontendReq.table.map (·.2)) = false := by decide
example : (⟨1, 1, 0x1001⟩ : VhostUserMsgHeader).isValid (Codes.FrontendReq.table.map (·.2)) = false := by decide
example : (⟨0x1000, 0x1000, 0xffffffffffffe000, 0⟩ : VhostUserMemoryRegion).isValid = true := by decide
example : (⟨0x1000, 0x1000, 0xfffffffffffff000, 0⟩ : VhostUserMemoryRegion).isValid = false := by decide
example : (⟨0, ⟨0x1000, 0, 0, 0⟩⟩ : VhostUserSingleMemoryRegion).isValid = false := by decide
example : (⟨0xfff, 1, 3⟩ : VhostUserConfig).isValid = true := by decide
example : (⟨0xfff, 2, 0⟩ : VhostUserConfig).isValid = false := by decide
example : (⟨0xffffffff, 1, 0⟩ : VhostUserConfig).isValid = false := by decide

end Props.C20
