import VhostModel.Gen.BitmapOps
import VhostModel.Lemmas.ArithOps
import VhostModel.Props.C15
/-!
# The bitmap arithmetic of the model is the bitmap arithmetic of the source

`Gen/BitmapOps.lean` is regenerated on every run from `vhost-user-backend/src/bitmap.rs`: the constants, `page_number`,
`page_word`, `page_bit`, the early exits and the fields computed by `AtomicBitmapMmap::new`, the early exit / range / break
test / word index / mask of the `fetch_or` loop of `AtomicBitmapMmap::mark_dirty`, `AtomicBitmapMmap::dirty_at`, and the
offset arithmetic of `BitmapMmapRegion::{mark_dirty, dirty_at, slice_at}` — as functions on naturals with explicit 64-bit
`usize` semantics and a definedness condition for every `+`, `-`, `<<` and every bounds-asserted index.

The theorems say, **for all inputs**, that the hand-written `Model.Bitmap` computes exactly what the generated functions
and descriptors say, and that no generated definedness condition can fail for a bitmap that `AtomicBitmapMmap::new`
accepted (`*_defined`, `*_never_faults`).  Nothing here is assumed about offsets or lengths.
-/
namespace Props.BitmapOps
open Model.Bitmap Lemmas.ArithOps

/-! ## constants and the three page functions -/

theorem logPageSize_eq : logPageSize = Gen.BitmapOps.LOG_PAGE_SIZE := rfl
theorem logWordSize_eq : logWordSize = Gen.BitmapOps.LOG_WORD_SIZE := rfl

theorem pageNumber_eq (a : Nat) : pageNumber a = Gen.BitmapOps.page_number a := rfl
theorem pageWord_eq (p : Nat) : pageWord p = Gen.BitmapOps.page_word p := rfl
theorem pageBit_eq (p : Nat) : pageBit p = Gen.BitmapOps.page_bit p := rfl

/-- the arithmetic of the three functions is always defined (division / remainder by non-zero constants) -/
theorem page_fns_defined (a : Nat) :
    Gen.BitmapOps.page_number.defd a = true ∧ Gen.BitmapOps.page_word.defd a = true ∧
      Gen.BitmapOps.page_bit.defd a = true := ⟨rfl, rfl, rfl⟩

/-! ## `AtomicBitmapMmap::new` -/

/-- the inputs of the generated `new` -/
def newIn (start len logLen : Nat) : Gen.BitmapOps.AtomicBitmapMmap.new.In :=
  { region_start := start, region_len := len, logmem_len := logLen }

/-- **`AtomicBitmapMmap.new` is the generated guard program**: it refuses exactly when a generated guard fires, the
generated arithmetic never faults, and when every guard passes the value built has the generated fields -/
theorem new_eq (start len logLen : Nat) :
    match ArithSig.runGuards Gen.BitmapOps.AtomicBitmapMmap.new.guards (newIn start len logLen) with
    | .pass => AtomicBitmapMmap.new start len logLen =
        some { logLen := logLen,
               pagesBeforeRegion := Gen.BitmapOps.AtomicBitmapMmap.new.ret_pages_before_region (newIn start len logLen),
               numberOfPages := Gen.BitmapOps.AtomicBitmapMmap.new.ret_number_of_pages (newIn start len logLen) }
    | .exit _ => AtomicBitmapMmap.new start len logLen = none
    | .fault => False := by
  unfold AtomicBitmapMmap.new
  rw [checkedAdd_model]
  simp only [ArithSig.runGuards, ArithSig.runGuardsFrom, Gen.BitmapOps.AtomicBitmapMmap.new.guards,
    Gen.BitmapOps.AtomicBitmapMmap.new.region_len, Gen.BitmapOps.AtomicBitmapMmap.new.region_start_addr,
    Gen.BitmapOps.AtomicBitmapMmap.new.region_end_log_word, Gen.BitmapOps.AtomicBitmapMmap.new.region_end_addr,
    Gen.BitmapOps.AtomicBitmapMmap.new.ret_pages_before_region, Gen.BitmapOps.AtomicBitmapMmap.new.ret_number_of_pages,
    Gen.BitmapOps.AtomicBitmapMmap.new.offset_pages, Gen.BitmapOps.AtomicBitmapMmap.new.size_page, newIn,
    ← pageNumber_eq, ← pageWord_eq]
  by_cases h0 : len = 0
  · simp [h0]
  · have h1 : 1 ≤ len := by omega
    simp only [h0, beq_iff_eq, if_false, h1, decide_true, if_true]
    unfold ArithSig.checkedAdd
    by_cases h2 : start + (len - 1) < 2 ^ 64
    · simp only [h2, if_true, Option.isSome_some, Bool.not_true, Bool.false_eq_true, if_false]
      by_cases h3 : pageWord (pageNumber (start + (len - 1))) ≥ logLen
      · simp [h3]
      · simp [h3]
    · simp [h2]

theorem new_never_faults (start len logLen : Nat) :
    ArithSig.runGuards Gen.BitmapOps.AtomicBitmapMmap.new.guards (newIn start len logLen) ≠ .fault := by
  intro h
  have := new_eq start len logLen
  rw [h] at this
  exact this

/-- accepted ⇔ every generated guard passes -/
theorem new_isSome_iff (start len logLen : Nat) :
    (AtomicBitmapMmap.new start len logLen).isSome = true ↔
      ArithSig.runGuards Gen.BitmapOps.AtomicBitmapMmap.new.guards (newIn start len logLen) = .pass := by
  have := new_eq start len logLen
  cases h : ArithSig.runGuards Gen.BitmapOps.AtomicBitmapMmap.new.guards (newIn start len logLen) with
  | pass => rw [h] at this; simp [this]
  | exit k => rw [h] at this; simp [this]
  | fault => rw [h] at this; exact this.elim

example : ArithSig.runGuards Gen.BitmapOps.AtomicBitmapMmap.new.guards (newIn 0x1000 0x2000 1) = .pass ∧
    ArithSig.runGuards Gen.BitmapOps.AtomicBitmapMmap.new.guards (newIn 0x1000 0 1) = .exit 0 ∧
    ArithSig.runGuards Gen.BitmapOps.AtomicBitmapMmap.new.guards (newIn (2 ^ 64 - 1) 2 1) = .exit 1 ∧
    ArithSig.runGuards Gen.BitmapOps.AtomicBitmapMmap.new.guards (newIn 0x8000 0x1000 1) = .exit 2 := by decide

/-! ## `AtomicBitmapMmap::mark_dirty` -/

/-- the inputs of the generated `mark_dirty` -/
def markIn (bm : AtomicBitmapMmap) (offset len : Nat) : Gen.BitmapOps.AtomicBitmapMmap.mark_dirty.In :=
  { offset := offset, len := len, number_of_pages := bm.numberOfPages, pages_before_region := bm.pagesBeforeRegion,
    logmem_len := bm.logLen }

/-- one generated `fetch_or` as a model step -/
def stepOfGen (p : Nat × Nat) : Step := { idx := p.1, mask := UInt8.ofNat p.2 }

/-- the generated descriptor is an inclusive range whose break test is `page >= number_of_pages` … -/
theorem loop_shape (bm : AtomicBitmapMmap) (offset len : Nat) :
    Gen.BitmapOps.AtomicBitmapMmap.mark_dirty.loop.inclusive = true ∧
    Gen.BitmapOps.AtomicBitmapMmap.mark_dirty.loop.first (markIn bm offset len) = pageNumber offset ∧
    Gen.BitmapOps.AtomicBitmapMmap.mark_dirty.loop.last (markIn bm offset len) = pageNumber (satAdd offset (len - 1)) ∧
    (∀ p, Gen.BitmapOps.AtomicBitmapMmap.mark_dirty.loop.brk (markIn bm offset len) p = decide (p ≥ bm.numberOfPages)) ∧
    (∀ p, stepOfGen (Gen.BitmapOps.AtomicBitmapMmap.mark_dirty.loop.idx (markIn bm offset len) p,
                     Gen.BitmapOps.AtomicBitmapMmap.mark_dirty.loop.mask (markIn bm offset len) p) =
          { idx := pageWord (bm.pagesBeforeRegion + p), mask := bitMask (pageBit (bm.pagesBeforeRegion + p)) }) := by
  refine ⟨rfl, rfl, ?_, fun _ => rfl, ?_⟩
  · rw [satAdd_model]; rfl
  · intro p
    simp only [stepOfGen, Gen.BitmapOps.AtomicBitmapMmap.mark_dirty.loop, Gen.BitmapOps.AtomicBitmapMmap.mark_dirty.page_1,
      markIn, ← pageWord_eq, ← pageBit_eq, bitMask_eq]

/-- **the model's loop is the generated loop**: `markLoop` over the generated range, cut by the generated break test,
emits the generated `(index, mask)` pairs -/
theorem markLoop_eq (bm : AtomicBitmapMmap) (offset len : Nat) :
    markLoop bm (Gen.BitmapOps.AtomicBitmapMmap.mark_dirty.loop.count (markIn bm offset len))
        (Gen.BitmapOps.AtomicBitmapMmap.mark_dirty.loop.first (markIn bm offset len)) =
      (Gen.BitmapOps.AtomicBitmapMmap.mark_dirty.loop.steps (markIn bm offset len)).map stepOfGen := by
  obtain ⟨_, _, _, hb, hs⟩ := loop_shape bm offset len
  rw [markLoop_eq_takeWhile]
  unfold ArithSig.AtomicLoop.steps ArithSig.AtomicLoop.iters
  rw [List.map_map]
  have hp : (fun p => !Gen.BitmapOps.AtomicBitmapMmap.mark_dirty.loop.brk (markIn bm offset len) p) =
      (fun q => decide (q < bm.numberOfPages)) := by
    funext p; rw [hb]; by_cases h : p < bm.numberOfPages <;> simp [h] <;> omega
  rw [hp]
  congr 1
  funext p
  exact (hs p).symm

/-- **`markSteps` is the generated program**: nothing when the generated early exit fires, otherwise the steps of the
generated loop -/
theorem markSteps_eq (bm : AtomicBitmapMmap) (offset len : Nat) :
    bm.markSteps offset len =
      match ArithSig.runGuards Gen.BitmapOps.AtomicBitmapMmap.mark_dirty.guards (markIn bm offset len) with
      | .pass => (Gen.BitmapOps.AtomicBitmapMmap.mark_dirty.loop.steps (markIn bm offset len)).map stepOfGen
      | _ => [] := by
  unfold AtomicBitmapMmap.markSteps
  simp only [ArithSig.runGuards, ArithSig.runGuardsFrom, Gen.BitmapOps.AtomicBitmapMmap.mark_dirty.guards]
  by_cases h0 : len = 0
  · simp [h0, markIn]
  · have h1 : 1 ≤ len := by omega
    have hl : (markIn bm offset len).len = len := rfl
    simp only [hl, h0, beq_iff_eq, if_false, h1, decide_true, if_true, Bool.false_eq_true]
    rw [← markLoop_eq]
    obtain ⟨hi, hf, hla, _, _⟩ := loop_shape bm offset len
    simp only [ArithSig.AtomicLoop.count, hi, if_true, hf, hla]

/-- the same in the explicit form: range start `first`, `n` values, cut at the first page `≥ number_of_pages`, word and
mask of the absolute page by the generated expressions -/
theorem markSteps_explicit (bm : AtomicBitmapMmap) (offset len : Nat) (h : len ≠ 0) :
    bm.markSteps offset len =
      ((List.range' (Gen.BitmapOps.AtomicBitmapMmap.mark_dirty.first_page (markIn bm offset len))
          (Gen.BitmapOps.AtomicBitmapMmap.mark_dirty.last_page (markIn bm offset len) + 1 -
            Gen.BitmapOps.AtomicBitmapMmap.mark_dirty.first_page (markIn bm offset len))).takeWhile
        (fun p => decide (p < bm.numberOfPages))).map
      (fun p => { idx := Gen.BitmapOps.page_word (bm.pagesBeforeRegion + p),
                  mask := UInt8.ofNat (ArithSig.shl 8 1 (Gen.BitmapOps.page_bit (bm.pagesBeforeRegion + p))) }) := by
  unfold AtomicBitmapMmap.markSteps
  simp only [h, if_false]
  rw [markLoop_eq_takeWhile]
  simp only [Gen.BitmapOps.AtomicBitmapMmap.mark_dirty.first_page, Gen.BitmapOps.AtomicBitmapMmap.mark_dirty.last_page,
    markIn, ← pageNumber_eq, ← satAdd_model]
  congr 1
  funext p
  simp only [Lemmas.Bitmap.stepOf, bitMask_eq, ← pageWord_eq, ← pageBit_eq]

/-- `markDirty` runs the generated steps -/
theorem markDirty_eq (bm : AtomicBitmapMmap) (log : List UInt8) (offset len : Nat) :
    bm.markDirty log offset len =
      runSteps log (match ArithSig.runGuards Gen.BitmapOps.AtomicBitmapMmap.mark_dirty.guards (markIn bm offset len) with
        | .pass => (Gen.BitmapOps.AtomicBitmapMmap.mark_dirty.loop.steps (markIn bm offset len)).map stepOfGen
        | _ => []) := by
  unfold AtomicBitmapMmap.markDirty; rw [markSteps_eq]

/-- the guards of `mark_dirty` never fault (the `len - 1` is evaluated after `len == 0` returned) -/
theorem mark_guards_never_fault (bm : AtomicBitmapMmap) (offset len : Nat) :
    ArithSig.runGuards Gen.BitmapOps.AtomicBitmapMmap.mark_dirty.guards (markIn bm offset len) ≠ .fault := by
  simp only [ArithSig.runGuards, ArithSig.runGuardsFrom, Gen.BitmapOps.AtomicBitmapMmap.mark_dirty.guards, markIn]
  by_cases h0 : len = 0
  · simp [h0]
  · have h1 : 1 ≤ len := by omega
    simp [h0, h1]

/-- **no definedness condition of the loop can fail** for a bitmap that `AtomicBitmapMmap::new` accepted: the absolute
page number does not overflow, the shift amount is below 8, and the word index passes `assert!(index < self.len)` -/
theorem mark_loop_defined (start size logLen : Nat) (bm : AtomicBitmapMmap)
    (hnew : AtomicBitmapMmap.new start size logLen = some bm) (offset len : Nat) :
    Gen.BitmapOps.AtomicBitmapMmap.mark_dirty.loop.defined (markIn bm offset len) = true := by
  obtain ⟨h0, h1, h2, rfl⟩ := (Lemmas.BitmapC15.new_eq_some_iff _ _ _ _).1 hnew
  unfold ArithSig.AtomicLoop.defined ArithSig.AtomicLoop.iters
  apply takeWhile_all
  intro p _ hp
  simp only [Gen.BitmapOps.AtomicBitmapMmap.mark_dirty.loop, markIn, Bool.not_eq_true', decide_eq_false_iff_not] at hp
  simp only [Gen.BitmapOps.AtomicBitmapMmap.mark_dirty.loop, Gen.BitmapOps.AtomicBitmapMmap.mark_dirty.page_1, markIn,
    Gen.BitmapOps.page_word, Gen.BitmapOps.page_bit, Gen.BitmapOps.LOG_WORD_SIZE, Bool.and_eq_true, decide_eq_true_eq]
  unfold usizeMax at h1
  refine ⟨⟨by omega, decide_eq_true ?_⟩, decide_eq_true (by omega)⟩
  exact Lemmas.BitmapC15.arith_bounds start size logLen p h2 (by omega)

/-- **the whole generated program, definedness included, is the model** under the invariant of `new` -/
theorem mark_prog_eq (start size logLen : Nat) (bm : AtomicBitmapMmap)
    (hnew : AtomicBitmapMmap.new start size logLen = some bm) (offset len : Nat) :
    ArithSig.AtomicOut.steps ((bm.markSteps offset len).map (fun s => (s.idx, s.mask.toNat))) =
      (Gen.BitmapOps.AtomicBitmapMmap.mark_dirty.prog.run (markIn bm offset len)) := by
  have hd := mark_loop_defined start size logLen bm hnew offset len
  have hg := mark_guards_never_fault bm offset len
  rw [markSteps_eq]
  unfold ArithSig.AtomicProg.run
  simp only [Gen.BitmapOps.AtomicBitmapMmap.mark_dirty.prog]
  cases h : ArithSig.runGuards Gen.BitmapOps.AtomicBitmapMmap.mark_dirty.guards (markIn bm offset len) with
  | fault => exact absurd h hg
  | exit k => simp
  | pass =>
    simp only [hd, if_true, List.map_map]
    congr 1
    unfold ArithSig.AtomicLoop.steps
    rw [List.map_map]
    apply List.map_congr_left
    intro p _
    simp only [Function.comp, stepOfGen, Gen.BitmapOps.AtomicBitmapMmap.mark_dirty.loop, UInt8.toNat_ofNat', shl_one,
      Nat.mod_mod]

/-! ## `AtomicBitmapMmap::dirty_at` (the read side; the model has no counterpart, the statement is against the property's
own `Spec.DirtyLog.bitAt`) -/

/-- the inputs of the generated `dirty_at`; `loaded` = what the atomic load returns -/
def dirtyIn (bm : AtomicBitmapMmap) (offset loaded : Nat) : Gen.BitmapOps.AtomicBitmapMmap.dirty_at.In :=
  { offset := offset, number_of_pages := bm.numberOfPages, pages_before_region := bm.pagesBeforeRegion,
    logmem_len := bm.logLen, loaded := loaded }

/-- for a bitmap that `new` accepted and a log of the mapped length: `dirty_at(offset)` returns `false` (exit 0) exactly
when the page lies outside the region, never faults, loads the byte of the absolute page and returns that page's bit —
the bit `mark_dirty` sets (`Props.C15.mark_exact`) -/
theorem dirty_at_reads_page_bit (start size logLen : Nat) (bm : AtomicBitmapMmap)
    (hnew : AtomicBitmapMmap.new start size logLen = some bm) (log : List UInt8) (hlog : log.length = logLen)
    (offset : Nat) :
    let idx := Gen.BitmapOps.AtomicBitmapMmap.dirty_at.load_idx (dirtyIn bm offset 0)
    let x := dirtyIn bm offset (log[idx]?.getD 0).toNat
    match ArithSig.runGuards Gen.BitmapOps.AtomicBitmapMmap.dirty_at.guards x with
    | .exit k => k = 0 ∧ pageNumber offset ≥ bm.numberOfPages
    | .pass => pageNumber offset < bm.numberOfPages ∧ idx = pageWord (bm.pagesBeforeRegion + pageNumber offset) ∧
        Gen.BitmapOps.AtomicBitmapMmap.dirty_at.result x =
          Spec.DirtyLog.bitAt log (bm.pagesBeforeRegion + pageNumber offset)
    | .fault => False := by
  obtain ⟨h0, h1, h2, rfl⟩ := (Lemmas.BitmapC15.new_eq_some_iff _ _ _ _).1 hnew
  unfold usizeMax at h1
  simp only [ArithSig.runGuards, ArithSig.runGuardsFrom, Gen.BitmapOps.AtomicBitmapMmap.dirty_at.guards,
    Gen.BitmapOps.AtomicBitmapMmap.dirty_at.page, Gen.BitmapOps.AtomicBitmapMmap.dirty_at.page_1,
    Gen.BitmapOps.AtomicBitmapMmap.dirty_at.load_idx, Gen.BitmapOps.AtomicBitmapMmap.dirty_at.result,
    Gen.BitmapOps.AtomicBitmapMmap.dirty_at.page_bit_1, dirtyIn, ← pageNumber_eq, ← pageWord_eq, ← pageBit_eq]
  by_cases hp : pageNumber offset ≥ size / 4096
  · simp [hp]
  · have hp' : pageNumber offset < size / 4096 := by omega
    have hb := Lemmas.BitmapC15.arith_bounds start size logLen (pageNumber offset) h2 hp'
    have ha : start / 4096 + pageNumber offset < 18446744073709551616 := by omega
    have hk : pageBit (start / 4096 + pageNumber offset) < 8 := by unfold pageBit logWordSize; omega
    have hw : pageWord (start / 4096 + pageNumber offset) < logLen := hb
    simp only [hp, decide_false, Bool.false_eq_true, if_false, ha, decide_true, if_true, hw, hk, Bool.and_self]
    refine ⟨hp', trivial, ?_⟩
    rw [and_shl_one_ne_zero _ _ hk, Lemmas.Bitmap.bitAt_eq]
    unfold Lemmas.Bitmap.byteBit
    have hw' : (start / 4096 + pageNumber offset) / 8 < log.length := by rw [hlog]; exact hb
    simp only [pageWord, logWordSize, pageBit, List.getElem?_eq_getElem hw', Option.getD_some]

/-! ## `BitmapMmapRegion::{mark_dirty, slice_at, dirty_at}` -/

def regionMarkIn (b : BitmapMmapRegion) (offset len : Nat) : Gen.BitmapOps.BitmapMmapRegion.mark_dirty.In :=
  { offset := offset, len := len, inner_is_some := b.inner.isSome, base_address := b.base }

/-- the source uses `checked_add` here: the inner `mark_dirty` is called iff there is an inner bitmap and
`base_address + offset` fits a `usize`, with exactly that sum -/
theorem region_mark_uses_checked_add (b : BitmapMmapRegion) (offset len : Nat) :
    Gen.BitmapOps.BitmapMmapRegion.mark_dirty.call_mark_dirty (regionMarkIn b offset len) =
      if b.inner.isSome = true ∧ b.base + offset < 2 ^ 64 then some (b.base + offset, len) else none := by
  unfold Gen.BitmapOps.BitmapMmapRegion.mark_dirty.call_mark_dirty Gen.BitmapOps.BitmapMmapRegion.mark_dirty.absolute_offset
    ArithSig.checkedAdd regionMarkIn
  by_cases h : b.base + offset < 2 ^ 64 <;> cases b.inner.isSome <;> simp [h]

/-- **the model's wrapper is the generated one**: the steps are those of the inner bitmap on the generated arguments, or none -/
theorem region_markSteps_eq (b : BitmapMmapRegion) (offset len : Nat) :
    b.markSteps offset len =
      match b.inner, Gen.BitmapOps.BitmapMmapRegion.mark_dirty.call_mark_dirty (regionMarkIn b offset len) with
      | some bm, some (a, l) => bm.markSteps a l
      | _, _ => [] := by
  rw [region_mark_uses_checked_add]
  unfold BitmapMmapRegion.markSteps
  rw [checkedAdd_model]
  unfold ArithSig.checkedAdd
  cases hi : b.inner with
  | none => simp
  | some bm => by_cases h : b.base + offset < 2 ^ 64 <;> simp [h]

theorem region_markDirty_eq (b : BitmapMmapRegion) (log : List UInt8) (offset len : Nat) :
    b.markDirty log offset len =
      runSteps log (match b.inner, Gen.BitmapOps.BitmapMmapRegion.mark_dirty.call_mark_dirty (regionMarkIn b offset len) with
        | some bm, some (a, l) => bm.markSteps a l
        | _, _ => []) := by
  unfold BitmapMmapRegion.markDirty; rw [region_markSteps_eq]

/-- **`slice_at`**: same inner bitmap, base by the generated expression — a `saturating_add` -/
theorem sliceAt_eq (b : BitmapMmapRegion) (offset : Nat) :
    b.sliceAt offset =
      { inner := b.inner,
        base := Gen.BitmapOps.BitmapMmapRegion.slice_at.ret_base_address { offset := offset, base_address := b.base } } := by
  unfold BitmapMmapRegion.sliceAt Gen.BitmapOps.BitmapMmapRegion.slice_at.ret_base_address
  rw [satAdd_model]

theorem slice_uses_saturating_add (base offset : Nat) :
    Gen.BitmapOps.BitmapMmapRegion.slice_at.ret_base_address { offset := offset, base_address := base } =
      min (base + offset) (2 ^ 64 - 1) := by
  unfold Gen.BitmapOps.BitmapMmapRegion.slice_at.ret_base_address ArithSig.satAdd
  simp only
  split <;> omega

/-- `dirty_at` of the wrapper asks the inner bitmap (if any) about the saturated sum -/
theorem region_dirty_at_arg (base offset : Nat) (inner : Bool) :
    Gen.BitmapOps.BitmapMmapRegion.dirty_at.call_dirty_at { offset := offset, base_address := base, inner_is_some := inner } =
      if inner then some (min (base + offset) (2 ^ 64 - 1)) else none := by
  unfold Gen.BitmapOps.BitmapMmapRegion.dirty_at.call_dirty_at ArithSig.satAdd
  cases inner
  · rfl
  · simp only [if_true]; congr 1; split <;> omega

/-- through any slice of a region whose bitmap `new` accepted, the whole generated pipeline (wrapper arguments, guards,
loop, definedness) is the model's `markSteps` -/
theorem region_prog_eq (start size logLen : Nat) (bm : AtomicBitmapMmap)
    (hnew : AtomicBitmapMmap.new start size logLen = some bm) (base offset len : Nat) :
    let b : BitmapMmapRegion := { inner := some bm, base := base }
    ArithSig.AtomicOut.steps ((b.markSteps offset len).map (fun s => (s.idx, s.mask.toNat))) =
      match Gen.BitmapOps.BitmapMmapRegion.mark_dirty.call_mark_dirty (regionMarkIn b offset len) with
      | some (a, l) => Gen.BitmapOps.AtomicBitmapMmap.mark_dirty.prog.run (markIn bm a l)
      | none => .steps [] := by
  intro b
  rw [region_markSteps_eq]
  cases h : Gen.BitmapOps.BitmapMmapRegion.mark_dirty.call_mark_dirty (regionMarkIn b offset len) with
  | none => rfl
  | some al => exact mark_prog_eq start size logLen bm hnew al.1 al.2

example : Gen.BitmapOps.BitmapMmapRegion.mark_dirty.call_mark_dirty
      { offset := 2, len := 5, inner_is_some := true, base_address := 2 ^ 64 - 2 } = none ∧
    Gen.BitmapOps.BitmapMmapRegion.slice_at.ret_base_address { offset := 2, base_address := 2 ^ 64 - 2 } = 2 ^ 64 - 1 := by
  decide

end Props.BitmapOps
