import VhostModel.Gen.MemOps
import VhostModel.Props.C13
/-!
# The address translation of the model is `vmm_va_to_gpa` of the source

`Gen/MemOps.lean` is regenerated on every run from `VhostUserHandler::vmm_va_to_gpa` (`vhost-user-backend/src/handler.rs`):
the containment test and the result expression as functions on naturals, each with the condition under which its `u64`
arithmetic is defined (`&&` is lazy: `vmm_addr + size` is evaluated only when `vmm_va >= vmm_addr`), packed into a
find-first loop descriptor (`ArithSig.FindLoop`).

* `translateChecked_eq_gen`  for **all** tables and addresses the model's machine-arithmetic translation
  (`Model.MemTable.translateChecked`, C13) is the generated loop: same hit, same value, `overflow` exactly where a
  generated definedness condition fails;
* `translate_eq_gen`, `gen_never_faults`  when every entry satisfies the region validity rule of the message layer
  (`Spec.validRegion`, via `Props.C13.translate_no_overflow`) no definedness condition can fail and the mathematical
  `Model.MemTable.translate` is the generated loop.
-/
namespace Props.MemOps
open Model.MemTable ArithSig

/-- a translation entry of the model as the generated record (fields the function does not read keep their default) -/
abbrev toGen (m : AddrMapping) : Gen.MemOps.AddrMapping := { vmm_addr := m.vmmAddr, size := m.size, gpa_base := m.gpaBase }

/-- the fields the generated function reads are the three the model records -/
theorem fields_used : Gen.MemOps.AddrMapping.used = ["vmm_addr", "size", "gpa_base"] := by decide

def toTr : Found → Tr
  | .ok v => .ok v
  | .missing => .missing
  | .fault => .overflow

/-- **for all inputs** the model's checked translation is the generated loop -/
theorem translateChecked_eq_gen (ms : List AddrMapping) (va : Nat) :
    translateChecked ms va = toTr (Gen.MemOps.vmm_va_to_gpa.loop.run (ms.map toGen) va) := by
  induction ms with
  | nil => rfl
  | cons m ms ih =>
    simp only [translateChecked, List.map_cons, FindLoop.run, Gen.MemOps.vmm_va_to_gpa.loop,
      Gen.MemOps.vmm_va_to_gpa.hit, Gen.MemOps.vmm_va_to_gpa.hit.defd, Gen.MemOps.vmm_va_to_gpa.res,
      Gen.MemOps.vmm_va_to_gpa.res.defd, toGen]
    simp only [Gen.MemOps.vmm_va_to_gpa.loop] at ih
    by_cases h1 : m.vmmAddr ≤ va
    · by_cases h2 : m.vmmAddr + m.size < 2 ^ 64
      · by_cases h3 : va < m.vmmAddr + m.size
        · by_cases h4 : va - m.vmmAddr + m.gpaBase < 2 ^ 64
          · simp [h1, h2, h3, h4, toTr] <;> omega
          · simp [h1, h2, h3, h4, toTr] <;> omega
        · simp [h1, h2, h3, ih] <;> omega
      · simp [h1, h2, toTr] <;> omega
    · simp [h1, ih] <;> omega

/-- the generated containment test and result are the mathematical ones of `Model.MemTable.translate` -/
theorem hit_res_eq (m : AddrMapping) (va : Nat) :
    (Gen.MemOps.vmm_va_to_gpa.hit (toGen m) va = true ↔ m.vmmAddr ≤ va ∧ va < m.vmmAddr + m.size) ∧
    Gen.MemOps.vmm_va_to_gpa.res (toGen m) va = va - m.vmmAddr + m.gpaBase := by
  refine ⟨?_, rfl⟩
  simp [Gen.MemOps.vmm_va_to_gpa.hit]

/-- **definedness under the validity rule**: when every entry satisfies `Spec.validRegion` (what the message layer
checked, `Props.C13.mappings_valid`) the generated loop never reaches undefined arithmetic … -/
theorem gen_never_faults (ms : List AddrMapping) (hv : ∀ m ∈ ms, Lemmas.MemTable.MappingValid m) (va : Nat) :
    Gen.MemOps.vmm_va_to_gpa.loop.run (ms.map toGen) va ≠ .fault := by
  intro h
  have h1 := (Props.C13.translate_no_overflow ms hv va).1
  rw [translateChecked_eq_gen, h] at h1
  exact h1 rfl

/-- … and it computes `Model.MemTable.translate`; the result is a 64-bit address -/
theorem translate_eq_gen (ms : List AddrMapping) (hv : ∀ m ∈ ms, Lemmas.MemTable.MappingValid m) (va : Nat) :
    Gen.MemOps.vmm_va_to_gpa.loop.run (ms.map toGen) va =
      (match translate ms va with | some g => .ok g | none => .missing) ∧
    ∀ g, translate ms va = some g → g < 2 ^ 64 := by
  obtain ⟨_, h2, h3⟩ := Props.C13.translate_no_overflow ms hv va
  refine ⟨?_, h3⟩
  rw [translateChecked_eq_gen] at h2
  cases hr : Gen.MemOps.vmm_va_to_gpa.loop.run (ms.map toGen) va with
  | ok v => rw [hr] at h2; cases ht : translate ms va <;> simp_all [toTr]
  | missing => rw [hr] at h2; cases ht : translate ms va <;> simp_all [toTr]
  | fault => exact absurd hr (gen_never_faults ms hv va)

/-- a single validated region (`Spec.validRegion`) — the direct form of the definedness claim -/
theorem defined_of_validRegion (m : AddrMapping) (off va : Nat)
    (hv : Spec.validRegion m.gpaBase m.size m.vmmAddr off) :
    Gen.MemOps.vmm_va_to_gpa.hit.defd (toGen m) va = true ∧
    (Gen.MemOps.vmm_va_to_gpa.hit (toGen m) va = true → Gen.MemOps.vmm_va_to_gpa.res.defd (toGen m) va = true) := by
  obtain ⟨_, h1, h2, _⟩ := hv
  have hd : m.vmmAddr + m.size < 18446744073709551616 := by omega
  constructor
  · simp [Gen.MemOps.vmm_va_to_gpa.hit.defd, hd]
  · simp [Gen.MemOps.vmm_va_to_gpa.hit, Gen.MemOps.vmm_va_to_gpa.res.defd]
    intro h3 h4; exact ⟨h3, by omega⟩

example : Gen.MemOps.vmm_va_to_gpa.loop.run [toGen ⟨0x7000, 0x1000, 0x1000⟩, toGen ⟨0x9000, 0x2000, 0x4000⟩] 0xafff = .ok 0x5fff ∧
    Gen.MemOps.vmm_va_to_gpa.loop.run [toGen ⟨0x7000, 0x1000, 0x1000⟩] 0x8000 = .missing ∧
    Gen.MemOps.vmm_va_to_gpa.loop.run [toGen ⟨0xffff_ffff_ffff_f000, 0x1000, 0x1000⟩] 0xffff_ffff_ffff_f000 = .fault := by
  decide

end Props.MemOps
