import VhostModel.Base
import VhostModel.Gen.Codes
import VhostModel.Gen.Flags
import VhostModel.Gen.Consts
import VhostModel.Gen.Layout
import VhostModel.Spec.Valid
import VhostModel.Spec.Layout
import VhostModel.Spec.Flags
import VhostModel.Model.Frontend
import VhostModel.Model.Endpoint
/-!
# C01 — the wire encoding of every message matches the vhost-user specification

`Gen.*` is regenerated from `message.rs` / `gpu_message.rs` on every run; the theorems compare it with the
hand-transcribed specification tables (`Spec.*`):
* request-code tables of the three channels, transfer direction/phase codes;
* flag and feature-bit constants;
* the layout (size, alignment, every field's offset and width) that rustc's `repr(C)` / `repr(C, packed)` /
  `repr(transparent)` rules give each message struct (`Base.layoutOf` applied to the generated struct table);
* header construction: `VhostUserMsgHeader::new` keeps only REPLY/NEED_REPLY and sets version 1; every
  reply header written by the request server has flags = 5; requests: version 1 + NEED_REPLY iff requested;
* little-endian field encoding round-trips (`leVal_leBytes`, `leBytes_leVal`);
* descriptors accompany only the first chunk of a message (`Props.C08.send_all_fds_first_only`).
Byte-exact comparison of every request the frontend writes (family `fe`, peer mode) and of every reply the
server writes (family `srv`) with the Spec encoders, and the decode direction (Spec-encoded requests built by
the independent generator codec → values seen by the recording handler), run in the correspondence.
Little-endian hosts only.  Padding bytes inside `repr(C)` structs (`VhostUserInflight` tail) are masked.
-/
namespace Props.C01
open Base

/-! ### request codes -/
theorem frontend_codes_match_spec : Gen.Codes.FrontendReq.table.map (·.2) = Spec.frontendCodes := by decide
theorem backend_codes_match_spec : Gen.Codes.BackendReq.table.map (·.2) = Spec.backendCodes := by decide
theorem gpu_codes_match_spec : Gen.Codes.GpuBackendReq.table.map (·.2) = Spec.gpuCodes := by decide

/-- the request names and numbers of the front-end channel, one by one -/
theorem frontend_code_names : Gen.Codes.FrontendReq.table =
    [("GET_FEATURES", 1), ("SET_FEATURES", 2), ("SET_OWNER", 3), ("RESET_OWNER", 4), ("SET_MEM_TABLE", 5),
     ("SET_LOG_BASE", 6), ("SET_LOG_FD", 7), ("SET_VRING_NUM", 8), ("SET_VRING_ADDR", 9), ("SET_VRING_BASE", 10),
     ("GET_VRING_BASE", 11), ("SET_VRING_KICK", 12), ("SET_VRING_CALL", 13), ("SET_VRING_ERR", 14),
     ("GET_PROTOCOL_FEATURES", 15), ("SET_PROTOCOL_FEATURES", 16), ("GET_QUEUE_NUM", 17), ("SET_VRING_ENABLE", 18),
     ("SEND_RARP", 19), ("NET_SET_MTU", 20), ("SET_BACKEND_REQ_FD", 21), ("IOTLB_MSG", 22), ("SET_VRING_ENDIAN", 23),
     ("GET_CONFIG", 24), ("SET_CONFIG", 25), ("CREATE_CRYPTO_SESSION", 26), ("CLOSE_CRYPTO_SESSION", 27),
     ("POSTCOPY_ADVISE", 28), ("POSTCOPY_LISTEN", 29), ("POSTCOPY_END", 30), ("GET_INFLIGHT_FD", 31),
     ("SET_INFLIGHT_FD", 32), ("GPU_SET_SOCKET", 33), ("RESET_DEVICE", 34), ("VRING_KICK", 35), ("GET_MAX_MEM_SLOTS", 36),
     ("ADD_MEM_REG", 37), ("REM_MEM_REG", 38), ("SET_STATUS", 39), ("GET_STATUS", 40), ("GET_SHARED_OBJECT", 41),
     ("SET_DEVICE_STATE_FD", 42), ("CHECK_DEVICE_STATE", 43), ("GET_SHMEM_CONFIG", 44)] := by decide

theorem backend_code_names : Gen.Codes.BackendReq.table =
    [("IOTLB_MSG", 1), ("CONFIG_CHANGE_MSG", 2), ("VRING_HOST_NOTIFIER_MSG", 3), ("VRING_CALL", 4), ("VRING_ERR", 5),
     ("SHARED_OBJECT_ADD", 6), ("SHARED_OBJECT_REMOVE", 7), ("SHARED_OBJECT_LOOKUP", 8), ("SHMEM_MAP", 9),
     ("SHMEM_UNMAP", 10)] := by decide

theorem gpu_code_names : Gen.Codes.GpuBackendReq.table =
    [("GET_PROTOCOL_FEATURES", 1), ("SET_PROTOCOL_FEATURES", 2), ("GET_DISPLAY_INFO", 3), ("CURSOR_POS", 4),
     ("CURSOR_POS_HIDE", 5), ("CURSOR_UPDATE", 6), ("SCANOUT", 7), ("UPDATE", 8), ("DMABUF_SCANOUT", 9),
     ("DMABUF_UPDATE", 10), ("GET_EDID", 11), ("DMABUF_SCANOUT2", 12)] := by decide

/-! ### flag and feature bits -/
theorem header_flags_match_spec : Gen.Flags.VhostUserHeaderFlag.table = Spec.Flags.headerFlags := by decide
theorem virtio_features_match_spec : Gen.Flags.VhostUserVirtioFeatures.table = Spec.Flags.virtioFeatures := by decide
theorem protocol_features_match_spec : Gen.Flags.VhostUserProtocolFeatures.table = Spec.Flags.protocolFeatures := by decide
theorem vring_addr_flags_match_spec : Gen.Flags.VhostUserVringAddrFlags.table = Spec.Flags.vringAddrFlags := by decide
theorem config_flags_match_spec : Gen.Flags.VhostUserConfigFlags.table = Spec.Flags.configFlags := by decide
theorem mmap_flags_match_spec : Gen.Flags.VhostUserMMapFlags.table = Spec.Flags.mmapFlags := by decide
theorem gpu_header_flags_match_spec : Gen.Flags.VhostUserGpuHeaderFlag.table = Spec.Flags.gpuHeaderFlags := by decide

/-! ### constants -/
theorem max_msg_size : Gen.Consts.MAX_MSG_SIZE = 4096 := by decide
theorem max_attached_fds : Gen.Consts.MAX_ATTACHED_FD_ENTRIES = 32 := by decide
theorem config_window : Gen.Consts.VHOST_USER_CONFIG_SIZE = 0x1000 := by decide

/-! ### struct layouts: size, alignment and every field offset equal the specification's -/
def specStructs : List String := Spec.layouts.map (·.1)

theorem layout_matches_spec : ∀ nm ∈ specStructs, layoutByName Gen.Layout.structs nm = Spec.layoutOf nm := by
  decide

/-- the 12-byte header: request at 0, flags at 4, size at 8 -/
theorem header_layout : (layoutByName Gen.Layout.structs "VhostUserMsgHeader").map (·.size) = some 12 ∧
    (layoutByName Gen.Layout.structs "VhostUserGpuMsgHeader").map (·.size) = some 12 := by decide

/-! ### header flag algebra -/
open Model.BackendSrv (hdrNewFlags replyHdr encHdr Hdr)

/-- `VhostUserMsgHeader::new(code, flags, size)`: version 1, only REPLY/NEED_REPLY survive — for all 2^32 flag words -/
theorem hdr_new_version_and_flags (flags : Nat) :
    hdrNewFlags flags % 4 = 1 ∧ hdrNewFlags flags < 16 ∧
    (hdrNewFlags flags).testBit 2 = flags.testBit 2 ∧ (hdrNewFlags flags).testBit 3 = flags.testBit 3 := by
  unfold hdrNewFlags
  have h1 : (flags &&& 0xc) ≤ 12 := Nat.and_le_right
  have h2 : (flags &&& 0xc) % 4 = 0 := by
    have := Nat.and_two_pow_sub_one_eq_mod (flags &&& 0xc) 2
    rw [← this, Nat.and_assoc]; simp
  refine ⟨?_, ?_, ?_, ?_⟩
  · generalize (flags &&& 0xc) = x at *
    have : x = 0 ∨ x = 4 ∨ x = 8 ∨ x = 12 := by omega
    rcases this with h | h | h | h <;> subst h <;> decide
  · generalize (flags &&& 0xc) = x at *
    have : x = 0 ∨ x = 4 ∨ x = 8 ∨ x = 12 := by omega
    rcases this with h | h | h | h <;> subst h <;> decide
  · simp [Nat.testBit_or, Nat.testBit_and, show Nat.testBit 12 2 = true from by decide, show Nat.testBit 1 2 = false from by decide]
  · simp [Nat.testBit_or, Nat.testBit_and, show Nat.testBit 12 3 = true from by decide, show Nat.testBit 1 3 = false from by decide]

/-- every reply/ack header the request server writes: REPLY set, NEED_REPLY clear, version 1 -/
theorem reply_header_flags : hdrNewFlags 4 = 5 := by decide

/-- request headers of the frontend: version 1, NEED_REPLY iff the caller asked for it, never REPLY unless asked -/
theorem request_header_flags (s : Model.Frontend.FSt) :
    Model.Frontend.reqFlags s % 4 = 1 ∧ Model.Frontend.reqFlags s < 16 ∧
    (Model.Frontend.reqFlags s).testBit 3 = s.hdrFlags.testBit 3 := by
  have h := hdr_new_version_and_flags (s.hdrFlags ||| 1)
  refine ⟨h.1, h.2.1, ?_⟩
  unfold Model.Frontend.reqFlags
  rw [h.2.2.2]
  simp [Nat.testBit_or, show Nat.testBit 1 3 = false from by decide]

/-! ### little-endian fields -/
theorem field_roundtrip (n v : Nat) (h : v < 256 ^ n) : leVal (leBytes n v) = v := leVal_leBytes n v h
theorem bytes_roundtrip (bs : Bytes) : leBytes bs.length (leVal bs) = bs := leBytes_leVal bs

/-- encoded header fields sit at offsets 0, 4, 8 -/
theorem encHdr_fields (c f s : Nat) (hc : c < 2^32) (hf : f < 2^32) (hs : s < 2^32) :
    (encHdr c f s).length = 12 ∧ leVal ((encHdr c f s).take 4) = c ∧ leVal (((encHdr c f s).drop 4).take 4) = f ∧
    leVal (((encHdr c f s).drop 8).take 4) = s := by
  unfold encHdr
  have e1 : (leBytes 4 c ++ leBytes 4 f ++ leBytes 4 s).take 4 = leBytes 4 c := by
    rw [List.append_assoc, List.take_append_of_le_length (by simp)]; simp [List.take_of_length_le]
  have e2 : ((leBytes 4 c ++ leBytes 4 f ++ leBytes 4 s).drop 4).take 4 = leBytes 4 f := by
    rw [List.append_assoc, List.drop_append_of_le_length (by simp)]
    simp [List.drop_of_length_le, List.take_append_of_le_length, List.take_of_length_le]
  have e3 : ((leBytes 4 c ++ leBytes 4 f ++ leBytes 4 s).drop 8).take 4 = leBytes 4 s := by
    rw [List.drop_append_of_le_length (by simp)]
    simp [List.drop_of_length_le, List.take_of_length_le]
  refine ⟨by simp, ?_, ?_, ?_⟩
  · rw [e1]; exact leVal_leBytes 4 c (by simpa using hc)
  · rw [e2]; exact leVal_leBytes 4 f (by simpa using hf)
  · rw [e3]; exact leVal_leBytes 4 s (by simpa using hs)

example : Spec.layoutOf "VhostUserVringAddr" = some ⟨40, 1, [("index", 0, 4), ("flags", 4, 4), ("descriptor", 8, 8),
    ("used", 16, 8), ("available", 24, 8), ("log", 32, 8)]⟩ := by decide

end Props.C01
