import VhostModel.Lemmas.ActsVar
import VhostModel.Props.C07
/-!
# C05 (arguments) — the request handler is invoked only with arguments that satisfy the protocol's validity rules

For every negotiation state, header, body, descriptor list and handler script, every invocation of the
application's handler that `Model.BackendSrv.dispatch` makes satisfies `Spec.Proto.validCall`
(`handler_args_valid`); lifted to one `handle_request` over any stream, chooser (segmentation / timing) and
closed flag (`step_handler_args_valid`), to any history of framed requests (`history_handler_args_valid`,
over `Props.C07.runHist`) and to any number of consecutive `handle_request`s over one stream (`session_handler_args_valid`).

Structure of the proof (`Lemmas/Decode.lean`, `Lemmas/Guards.lean`, `Lemmas/Acts.lean`, `Lemmas/ActsVar.lean`):
* `Lemmas.Decode`: the record built by `Model.Msgs.dec<Ty>` carries exactly the naturals `g buf "<Ty>" [field]`
  (no truncation by `BitVec.ofNat`), hence with `Props.C20` a body accepted by the *generated* validator satisfies
  `Spec.valid<Ty>` on the values the handler receives; fields inside a validated prefix (`buf.take 12` for
  GET/SET_CONFIG, `buf.take 8` for SET_MEM_TABLE) read the same from the whole buffer;
* `Lemmas.Guards`: guards never change header/body; a passed `.body ty` guard gives `bodyValid ty buf = some true`,
  `.enable01` gives `num ≤ 1`; the context's `file` is `none` unless a `.oneFile` (then `some _`) / `.vringFd` guard ran;
  the ring index of `.vringFd` is `< 256`;
* `Lemmas.Acts*`: one lemma per action / handler method under those facts;
* here: the 34 arms of `arms`, one line each.
-/
namespace Props.C05Args
open Base Model.Stream Model.BackendSrv Lemmas.BackendSrv Lemmas.Guards Lemmas.Acts

/-- every arm of the dispatch table: if its guards pass (starting from a context that holds no taken file), every
handler invocation of its action is valid -/
theorem arm_valid (st : BSt) (c c' : Ctx) (h : HOut) (a : Arm) (ha : a ∈ arms)
    (hf0 : c.file = none) (hi0 : c.index8 < 256)
    (hg : runGuards st c a.guards = .ok c') : CallsValid (runAct st c' h a.act) := by
  have hbuf := (runGuards_hdr_buf _ hg).2
  have hest := runGuards_est _ hg
  have hfile := runGuards_file (fs := .none) _ hg hf0
  have hidx := runGuards_index8 _ hg hi0
  rw [← hbuf] at hest
  clear hbuf hg hf0 hi0
  simp only [arms, List.mem_cons, List.not_mem_nil, or_false] at ha
  rcases ha with rfl | rfl | rfl | rfl | rfl | rfl | rfl | rfl | rfl | rfl | rfl | rfl | rfl | rfl | rfl | rfl | rfl |
    rfl | rfl | rfl | rfl | rfl | rfl | rfl | rfl | rfl | rfl | rfl | rfl | rfl | rfl | rfl | rfl | rfl
  · exact ack_plain _ _ _ _ (by simp) hfile                                                       -- 3  SET_OWNER
  · exact ack_plain _ _ _ _ (by simp) hfile                                                       -- 4  RESET_OWNER
  · exact ack_plain _ _ _ _ (by simp) hfile                                                       -- 34 RESET_DEVICE
  · exact getFeatures_valid _ _ _                                                                 -- 1
  · exact setFeatures_valid _ _ _                                                                 -- 2
  · exact memTable_valid _ _ _                                                                    -- 5  SET_MEM_TABLE
  · exact ack_vring_num_base _ _ _ _ (by simp)                                                    -- 8
  · exact ack_vring_addr _ _ _ (hest (.body "VhostUserVringAddr") (by simp))                      -- 9
  · exact ack_vring_num_base _ _ _ _ (by simp)                                                    -- 10
  · exact getVringBase_valid _ _ _                                                                -- 11
  · exact ack_vring_fd _ _ _ _ (by simp) hidx                                                     -- 13
  · exact ack_vring_fd _ _ _ _ (by simp) hidx                                                     -- 12
  · exact ack_vring_fd _ _ _ _ (by simp) hidx                                                     -- 14
  · exact getProtocolFeatures_valid _ _ _                                                         -- 15
  · exact setProtocolFeatures_valid _ _ _                                                         -- 16
  · exact replyU64_valid _ _ _ _ (by simp)                                                        -- 17
  · exact ack_vring_enable _ _ _ (hest .enable01 (by simp))                                       -- 18
  · exact getConfig_valid _ _ _                                                                   -- 24
  · exact setConfig_valid _ _ _                                                                   -- 25
  · exact backendReqFd_valid _ _ _                                                                -- 21
  · exact getSharedObject_valid _ _ _ (hest (.body "VhostUserSharedMsg") (by simp))               -- 41
  · exact getInflight_valid _ _ _ (hest (.body "VhostUserInflight") (by simp))                    -- 31
  · exact ack_set_inflight _ _ _ (hest (.body "VhostUserInflight") (by simp)) hfile               -- 32
  · exact gpuSocket_valid _ _ _                                                                   -- 33
  · exact replyU64_valid _ _ _ _ (by simp)                                                        -- 36
  · exact ack_add_mem _ _ _ (hest (.body "VhostUserSingleMemoryRegion") (by simp)) hfile          -- 37
  · exact ack_remove_mem _ _ _ (hest (.body "VhostUserSingleMemoryRegion") (by simp)) hfile       -- 38
  · exact deviceStateFd_valid _ _ _ (hest (.body "VhostUserTransferDeviceState") (by simp)) hfile -- 42
  · exact checkDeviceState_valid _ _ _                                                            -- 43
  · exact getShmem_valid _ _ _                                                                    -- 44
  · exact postcopyAdvice_valid _ _ _                                                              -- 28
  · exact ack_plain _ _ _ _ (by simp) hfile                                                       -- 29
  · exact ack_plain _ _ _ _ (by simp) hfile                                                       -- 30
  · exact setLogBase_valid _ _ _ (hest (.body "VhostUserLog") (by simp)) hfile                    -- 6  SET_LOG_BASE

/-- **C05, arguments**: whatever framed request is dispatched — any state, header, body, descriptor list, handler
script — every invocation of the handler satisfies the protocol's validity rules -/
theorem handler_args_valid (st : BSt) (hdr : Hdr) (buf : Bytes) (files : Option (List Fd)) (h : HOut) :
    ∀ c ∈ (dispatch st hdr buf files h).calls,
      Spec.Proto.validCall c.name c.args c.payload c.fds.length = true := by
  unfold dispatch
  cases ha : arms.find? (·.code == hdr.code) with
  | none => intro c hc; simp at hc
  | some a =>
    obtain ⟨hm, _⟩ := find_arm ha
    simp only
    cases hg : runGuards st { hdr := hdr, buf := buf, files := files } a.guards with
    | error e => intro c hc; simp at hc
    | ok c' => exact arm_valid st _ c' h a hm rfl (Nat.zero_lt_succ 255) hg

/-- one `handle_request()` over any stream, any chooser (kernel segmentation / arrival timing), open or closed -/
theorem step_handler_args_valid {σ : Type} (ch : Chooser σ) (cl : Bool) (st : BSt) (cst : σ) (s : List Cell) (h : HOut) :
    ∀ c ∈ (step ch cl st cst s h).o.calls, Spec.Proto.validCall c.name c.args c.payload c.fds.length = true := by
  rcases Props.C07.step_calls_via_dispatch ch cl st cst s h with h0 | ⟨hdr, buf, files, hc, _⟩
  · intro c hc; rw [h0] at hc; simp at hc
  · rw [hc]; exact handler_args_valid st hdr buf files h

/-! ### over histories -/

theorem runHist_args_valid : ∀ (hist : List Props.C07.Framed) (st : BSt) (log : List Call),
    (∀ c ∈ log, Spec.Proto.validCall c.name c.args c.payload c.fds.length = true) →
    ∀ c ∈ (Props.C07.runHist st log hist).2, Spec.Proto.validCall c.name c.args c.payload c.fds.length = true := by
  intro hist
  induction hist with
  | nil => intro st log hl; exact hl
  | cons f rest ih =>
    intro st log hl
    simp only [Props.C07.runHist]
    apply ih
    intro c hc
    simp only [List.mem_append] at hc
    rcases hc with hc | hc
    · exact hl c hc
    · exact handler_args_valid st f.hdr f.buf f.files f.h c hc

/-- after any history of framed requests on a fresh connection (any negotiation it may have performed on the way),
the whole handler log consists of valid invocations -/
theorem history_handler_args_valid (hist : List Props.C07.Framed) :
    ∀ c ∈ (Props.C07.runHist {} [] hist).2, Spec.Proto.validCall c.name c.args c.payload c.fds.length = true :=
  runHist_args_valid hist {} [] (by intro c hc; simp at hc)

/-- a server session: consecutive `handle_request()`s over one stream, one handler script per turn (a turn that returns
an error does not stop the session here: the statement covers every continuation policy) -/
def session {σ : Type} (ch : Chooser σ) (cl : Bool) : BSt → σ → List Cell → List HOut → List Call
  | _, _, _, [] => []
  | st, cst, s, h :: hs =>
    let r := step ch cl st cst s h
    r.o.calls ++ session ch cl r.o.st r.cst r.rest hs

theorem session_handler_args_valid {σ : Type} (ch : Chooser σ) (cl : Bool) :
    ∀ (hs : List HOut) (st : BSt) (cst : σ) (s : List Cell),
    ∀ c ∈ session ch cl st cst s hs, Spec.Proto.validCall c.name c.args c.payload c.fds.length = true := by
  intro hs
  induction hs with
  | nil => intro st cst s c hc; simp [session] at hc
  | cons h hs ih =>
    intro st cst s c hc
    simp only [session, List.mem_append] at hc
    rcases hc with hc | hc
    · exact step_handler_args_valid ch cl st cst s h c hc
    · exact ih _ _ _ c hc

/-! ### non-vacuity: requests that do reach the handler, and the same requests with one rule broken that do not -/

/-- SET_VRING_ADDR, index 1, flags 1, descriptor 0x1000, used 0x2000, available 0x3000, log 0 -/
example : (dispatch {} ⟨9, 1, 40⟩ (leBytes 4 1 ++ leBytes 4 1 ++ leBytes 8 0x1000 ++ leBytes 8 0x2000 ++ leBytes 8 0x3000 ++
    leBytes 8 0) none {}).calls = [⟨"set_vring_addr", [1, 1, 0x1000, 0x2000, 0x3000, 0], [], []⟩] := by decide
/-- … descriptor table not 16-aligned: refused, handler not invoked -/
example : (dispatch {} ⟨9, 1, 40⟩ (leBytes 4 1 ++ leBytes 4 1 ++ leBytes 8 0x1008 ++ leBytes 8 0x2000 ++ leBytes 8 0x3000 ++
    leBytes 8 0) none {}).calls = [] := by decide
/-- SET_MEM_TABLE with one region and one file -/
example : (dispatch {} ⟨5, 1, 40⟩ (leBytes 4 1 ++ leBytes 4 0 ++ leBytes 8 0 ++ leBytes 8 0x1000 ++ leBytes 8 0x7000 ++
    leBytes 8 0) (some [7]) {}).calls = [⟨"set_mem_table", [0, 0x1000, 0x7000, 0], [], [7]⟩] := by decide
/-- … region of size 0: refused -/
example : (dispatch {} ⟨5, 1, 40⟩ (leBytes 4 1 ++ leBytes 4 0 ++ leBytes 8 0 ++ leBytes 8 0 ++ leBytes 8 0x7000 ++
    leBytes 8 0) (some [7]) {}).calls = [] := by decide
/-- SET_VRING_KICK, ring 2, with its file -/
example : (dispatch {} ⟨12, 1, 8⟩ (leBytes 8 2) (some [5]) {}).calls = [⟨"set_vring_kick", [2], [], [5]⟩] := by decide
/-- SET_CONFIG, offset 0, 4 bytes of payload -/
example : (dispatch { ackedProto := 0x200 } ⟨25, 1, 16⟩ (leBytes 4 0 ++ leBytes 4 4 ++ leBytes 4 0 ++ [1, 2, 3, 4]) none {}).calls =
    [⟨"set_config", [0, 0], [1, 2, 3, 4], []⟩] := by decide
example : Spec.Proto.validCall "set_vring_addr" [1, 1, 0x1008, 0x2000, 0x3000, 0] [] 0 = false := by decide

end Props.C05Args
